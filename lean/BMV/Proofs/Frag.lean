/-
  Helper lemmas for C06 (BMV.Frag): temporaries, renaming, block execution.
-/
import BMV.Frag
namespace BMV.Frag

/-! ## NextResource / allocTemps -/

theorem le_foldl_max (l : List Nat) (a x : Nat) (h : x ≤ a ∨ x ∈ l) : x ≤ l.foldl max a := by
  induction l generalizing a with
  | nil => simp at h; simpa using h
  | cons y ys ih =>
    simp only [List.foldl_cons]
    apply ih
    rcases h with h | h
    · left; exact Nat.le_trans h (Nat.le_max_left a y)
    · rcases List.mem_cons.mp h with h | h
      · left; subst h; exact Nat.le_max_right a x
      · right; exact h

theorem lowestFree_not_mem (used : List Nat) : lowestFree used ∉ used := by
  unfold lowestFree
  cases hf : (List.range (used.foldl max 0 + 2)).find? (fun n => !used.contains n) with
  | some n =>
    have := List.find?_some hf
    simp only [Option.getD_some]
    simpa using this
  | none =>
    simp only [Option.getD_none]
    intro hm
    have := le_foldl_max used 0 _ (Or.inr hm)
    omega

theorem allocTemps_fresh (k : Nat) : ∀ used : List Nat,
    (allocTemps used k).Nodup ∧ ∀ n ∈ allocTemps used k, n ∉ used := by
  induction k with
  | zero => intro used; simp [allocTemps]
  | succ k ih =>
    intro used
    simp only [allocTemps]
    have hf := lowestFree_not_mem used
    obtain ⟨hn, hd⟩ := ih (lowestFree used :: used)
    refine ⟨?_, ?_⟩
    · refine List.nodup_cons.mpr ⟨?_, hn⟩
      intro hm
      exact (hd _ hm) (List.mem_cons_self ..)
    · intro n hm
      rcases List.mem_cons.mp hm with h | h
      · subst h; exact hf
      · intro hu; exact (hd n h) (List.mem_cons_of_mem _ hu)

theorem allocTemps_length (k : Nat) : ∀ used : List Nat, (allocTemps used k).length = k := by
  induction k with
  | zero => intro; rfl
  | succ k ih => intro used; simp [allocTemps, ih]

/-! ## the substitution of temporaries is injective on the registers of the section -/

theorem mem_usedR {sec : List SInstr} {n : Nat} (h : Reg.r n ∈ secRegs sec) : n ∈ usedR sec := by
  unfold usedR
  exact List.mem_filterMap.mpr ⟨.r n, h, rfl⟩

theorem substReg_r (T : List Nat) (n : Nat) : substReg T (.r n) = .r n := rfl

/-- `ReplaceArg` with the registers chosen by `NextResource` never identifies two different
    registers of the section -/
theorem substReg_inj (sec : List SInstr) :
    ∀ x ∈ secRegs sec, ∀ y ∈ secRegs sec,
      substReg (tempRegs sec) x = substReg (tempRegs sec) y → x = y := by
  intro x hx y hy hxy
  obtain ⟨hnd, hfresh⟩ := allocTemps_fresh (countTemps sec) (usedR sec)
  change (tempRegs sec).Nodup at hnd
  change ∀ n ∈ tempRegs sec, n ∉ usedR sec at hfresh
  generalize tempRegs sec = T at *
  cases x with
  | r n =>
    cases y with
    | r m => simpa [substReg] using hxy
    | t k =>
      simp only [substReg] at hxy
      cases hk : T[k]? with
      | none => simp [hk] at hxy
      | some v =>
        simp only [hk, Reg.r.injEq] at hxy
        subst hxy
        exact absurd (mem_usedR hx) (hfresh _ (List.mem_of_getElem? hk))
  | t k =>
    cases y with
    | r m =>
      simp only [substReg] at hxy
      cases hk : T[k]? with
      | none => simp [hk] at hxy
      | some v =>
        simp only [hk, Reg.r.injEq] at hxy
        subst hxy
        exact absurd (mem_usedR hy) (hfresh _ (List.mem_of_getElem? hk))
    | t k' =>
      simp only [substReg] at hxy
      cases hk : T[k]? with
      | none =>
        cases hk' : T[k']? with
        | none => simpa [hk, hk'] using hxy
        | some v' => simp [hk, hk'] at hxy
      | some v =>
        cases hk' : T[k']? with
        | none => simp [hk, hk'] at hxy
        | some v' =>
          simp only [hk, hk', Reg.r.injEq] at hxy
          subst hxy
          have h1 := List.getElem?_eq_some_iff.mp hk
          obtain ⟨l1, _⟩ := h1
          have := (List.getElem?_inj l1 hnd).mp (hk.trans hk'.symm)
          rw [this]

/-! ## renaming registers injectively does not change what a section computes -/

theorem Instr.val_congr (w : Nat) (i : Instr) (ρ ρ' : Nat → Nat)
    (h : ∀ n ∈ i.srcs, ρ n = ρ' n) : i.val w ρ = i.val w ρ' := by
  cases i <;> simp [Instr.val, Instr.srcs] at * <;> simp [h]

def RenRel (S : List Reg) (σ : Reg → Reg) (st st' : SecSt) : Prop :=
  st'.outs = st.outs ∧ ∀ x ∈ S, st'.regs (σ x) = st.regs x

theorem upd_rename {S : List Reg} {σ : Reg → Reg} {ρ ρ' : RegFile} {d : Reg} (v : Nat)
    (hinj : ∀ x ∈ S, ∀ y ∈ S, σ x = σ y → x = y)
    (h : ∀ x ∈ S, ρ' (σ x) = ρ x) (hd : d ∈ S) :
    ∀ x ∈ S, (upd ρ' (σ d) v) (σ x) = (upd ρ d v) x := by
  intro x hx
  unfold upd
  by_cases hxd : x = d
  · subst hxd; simp
  · have : σ x ≠ σ d := fun e => hxd (hinj x hx d hd e)
    simp [hxd, this, h x hx]

theorem step_rename (w : Nat) (inp : Nat → Nat) {S : List Reg} {σ : Reg → Reg}
    (hinj : ∀ x ∈ S, ∀ y ∈ S, σ x = σ y → x = y) (hr : ∀ n, σ (.r n) = .r n)
    (ins : SInstr) (hins : ∀ x ∈ ins.regs, x ∈ S) (st st' : SecSt) (h : RenRel S σ st st') :
    RenRel S σ (ins.step w inp st) ((ins.mapReg σ).step w inp st') := by
  obtain ⟨ho, hreg⟩ := h
  cases ins with
  | movIn d k =>
    refine ⟨ho, ?_⟩
    exact upd_rename _ hinj hreg (hins d (by simp [SInstr.regs]))
  | movOut k s =>
    refine ⟨?_, hreg⟩
    simp only [SInstr.step, SInstr.mapReg, ho, hreg s (hins s (by simp [SInstr.regs]))]
  | movReg d s =>
    refine ⟨ho, ?_⟩
    have hs := hreg s (hins s (by simp [SInstr.regs]))
    simp only [SInstr.step, SInstr.mapReg, hs]
    exact upd_rename _ hinj hreg (hins d (by simp [SInstr.regs]))
  | op i =>
    refine ⟨ho, ?_⟩
    simp only [SInstr.step, SInstr.mapReg, Instr.execR]
    have hv : i.val w (fun n => st'.regs (.r n)) = i.val w (fun n => st.regs (.r n)) := by
      apply Instr.val_congr
      intro n hn
      have hm : Reg.r n ∈ S := hins _ (by
        simp only [SInstr.regs, Instr.regs, List.map_cons, List.mem_cons, List.mem_map]
        right; exact ⟨n, hn, rfl⟩)
      have := hreg _ hm
      rw [hr] at this
      exact this
    rw [hv]
    have hd : Reg.r i.dst ∈ S := hins _ (by simp [SInstr.regs, Instr.regs])
    have := upd_rename (σ := σ) (i.val w (fun n => st.regs (.r n))) hinj hreg hd
    rw [hr] at this
    exact this
  | jStart => exact ⟨ho, hreg⟩

theorem runSec_rename (w : Nat) (inp : Nat → Nat) {S : List Reg} {σ : Reg → Reg}
    (hinj : ∀ x ∈ S, ∀ y ∈ S, σ x = σ y → x = y) (hr : ∀ n, σ (.r n) = .r n) :
    ∀ (sec : List SInstr), (∀ ins ∈ sec, ∀ x ∈ ins.regs, x ∈ S) →
      ∀ st st', RenRel S σ st st' →
        RenRel S σ (runSec w inp sec st) (runSec w inp (sec.map (SInstr.mapReg σ)) st') := by
  intro sec
  induction sec with
  | nil => intro _ st st' h; exact h
  | cons ins rest ih =>
    intro hs st st' h
    simp only [runSec, List.map_cons, List.foldl_cons]
    apply ih (fun i hi => hs i (List.mem_cons_of_mem _ hi))
    exact step_rename w inp hinj hr ins (hs ins (List.mem_cons_self ..)) st st' h

/-- the resolved section emits what the section with symbolic temporaries emits
    (started from the correspondingly renamed register file) -/
theorem secRes_outs (g : Graph) (l : List Nat) (w : Nat) (inp : Nat → Nat) (ρ : RegFile) :
    (runSec w inp (secRes g l) ⟨ρ, []⟩).outs =
      (runSec w inp (secSym g l) ⟨fun x => ρ (substReg (tempRegs (secSym g l)) x), []⟩).outs := by
  have h := runSec_rename w inp (S := secRegs (secSym g l))
    (σ := substReg (tempRegs (secSym g l))) (substReg_inj (secSym g l)) (fun _ => rfl)
    (secSym g l)
    (fun ins hi x hx => List.mem_flatMap.mpr ⟨ins, hi, hx⟩)
    ⟨fun x => ρ (substReg (tempRegs (secSym g l)) x), []⟩ ⟨ρ, []⟩ ⟨rfl, fun _ _ => rfl⟩
  exact h.1


/-! ## enum -/

theorem enumFrom_map_snd {α : Type} : ∀ (l : List α) (n : Nat), (enumFrom n l).map (·.2) = l := by
  intro l; induction l with
  | nil => intro; rfl
  | cons x xs ih => intro n; simp [enumFrom, ih]

theorem enumFrom_map_fst_nodup {α : Type} : ∀ (l : List α) (n : Nat),
    ((enumFrom n l).map (·.1)).Nodup ∧ ∀ j ∈ (enumFrom n l).map (·.1), n ≤ j := by
  intro l; induction l with
  | nil => intro; simp [enumFrom]
  | cons x xs ih =>
    intro n
    obtain ⟨h1, h2⟩ := ih (n + 1)
    simp only [enumFrom, List.map_cons, List.nodup_cons, List.mem_cons]
    refine ⟨⟨?_, h1⟩, ?_⟩
    · intro hm; have := h2 n hm; omega
    · intro j hj
      rcases hj with h | h
      · omega
      · have := h2 j h; omega

theorem mem_enumFrom {α : Type} : ∀ (l : List α) (n j : Nat) (x : α),
    (j, x) ∈ enumFrom n l ↔ n ≤ j ∧ l[j - n]? = some x := by
  intro l; induction l with
  | nil => intro n j x; simp [enumFrom]
  | cons y ys ih =>
    intro n j x
    simp only [enumFrom, List.mem_cons, Prod.mk.injEq, ih]
    constructor
    · rintro (⟨rfl, rfl⟩ | ⟨h1, h2⟩)
      · simp
      · refine ⟨by omega, ?_⟩
        have : j - n = (j - (n + 1)) + 1 := by omega
        rw [this]; simpa using h2
    · rintro ⟨h1, h2⟩
      by_cases hj : j = n
      · left; subst hj; simpa using h2.symm
      · right
        refine ⟨by omega, ?_⟩
        have : j - n = (j - (n + 1)) + 1 := by omega
        rw [this] at h2; simpa using h2

theorem mem_enum {α : Type} (l : List α) (j : Nat) (x : α) : (j, x) ∈ enum l ↔ l[j]? = some x := by
  simp [enum, mem_enumFrom]

/-! ## fragment bodies -/

theorem runSec_append (w : Nat) (inp : Nat → Nat) (a b : List SInstr) (st : SecSt) :
    runSec w inp (a ++ b) st = runSec w inp b (runSec w inp a st) := by
  simp [runSec, List.foldl_append]

theorem execR_r (w : Nat) (ρ : RegFile) (i : Instr) :
    (fun m => (i.execR w ρ) (.r m)) = i.exec w (fun m => ρ (.r m)) := by
  funext m
  simp only [Instr.execR, Instr.exec, upd, Reg.r.injEq]

theorem execR_t (w : Nat) (ρ : RegFile) (i : Instr) (k : Nat) : (i.execR w ρ) (.t k) = ρ (.t k) := by
  simp [Instr.execR, upd]

theorem runSec_body (w : Nat) (inp : Nat → Nat) : ∀ (b : List Instr) (st : SecSt),
    (runSec w inp (b.map .op) st).outs = st.outs ∧
    (∀ k, (runSec w inp (b.map .op) st).regs (.t k) = st.regs (.t k)) ∧
    (∀ n, (runSec w inp (b.map .op) st).regs (.r n) = runBody w b (fun m => st.regs (.r m)) n) := by
  intro b
  induction b with
  | nil => intro st; simp [runSec, runBody]
  | cons i rest ih =>
    intro st
    have h := ih (SInstr.step w inp st (.op i))
    simp only [runSec, List.map_cons, List.foldl_cons] at h ⊢
    refine ⟨h.1, ?_, ?_⟩
    · intro k; rw [h.2.1 k]; simp [SInstr.step, execR_t]
    · intro n
      rw [h.2.2 n]
      simp only [SInstr.step, runBody, List.foldl_cons]
      rw [execR_r]

theorem defsOk_agree (w : Nat) : ∀ (b : List Instr) (D D' : List Nat) (ρ ρ' : Nat → Nat),
    defsOk D b = some D' → (∀ n ∈ D, ρ n = ρ' n) →
    ∀ n ∈ D', runBody w b ρ n = runBody w b ρ' n := by
  intro b
  induction b with
  | nil =>
    intro D D' ρ ρ' h hag n hn
    simp only [defsOk, Option.some.injEq] at h
    subst h
    simpa [runBody] using hag n hn
  | cons i rest ih =>
    intro D D' ρ ρ' h hag n hn
    simp only [defsOk] at h
    split at h
    · rename_i hs
      simp only [runBody, List.foldl_cons]
      apply ih (i.dst :: D) D' _ _ h _ n hn
      intro m hm
      have hv : i.val w ρ = i.val w ρ' := by
        apply Instr.val_congr
        intro x hx
        apply hag
        have := List.all_eq_true.mp hs x hx
        simpa using this
      simp only [Instr.exec, upd, hv]
      by_cases hmd : m = i.dst
      · simp [hmd]
      · simp only [hmd, if_false]
        rcases List.mem_cons.mp hm with h' | h'
        · exact absurd h' hmd
        · exact hag m h'
    · cases h

theorem loadRegs_cons (r v : Nat) (rs vs : List Nat) (ρ : Nat → Nat) :
    loadRegs (r :: rs) (v :: vs) ρ = loadRegs rs vs (upd ρ r v) := by
  simp [loadRegs]

theorem loadRegs_not_mem : ∀ (rs vs : List Nat) (ρ : Nat → Nat) (x : Nat),
    x ∉ rs → loadRegs rs vs ρ x = ρ x := by
  intro rs
  induction rs with
  | nil => intro vs ρ x _; simp [loadRegs]
  | cons r rs ih =>
    intro vs ρ x hx
    cases vs with
    | nil => simp [loadRegs]
    | cons v vs =>
      rw [loadRegs_cons, ih vs _ x (fun h => hx (List.mem_cons_of_mem _ h))]
      have : x ≠ r := fun e => hx (e ▸ List.mem_cons_self ..)
      simp [upd, this]

theorem loadRegs_get : ∀ (rs vs : List Nat) (ρ : Nat → Nat), rs.Nodup → rs.length ≤ vs.length →
    ∀ j r, rs[j]? = some r → loadRegs rs vs ρ r = vs.getD j 0 := by
  intro rs
  induction rs with
  | nil => intro vs ρ _ _ j r h; simp at h
  | cons r0 rs ih =>
    intro vs ρ hnd hlen j r h
    cases vs with
    | nil => simp at hlen
    | cons v vs =>
      rw [loadRegs_cons]
      obtain ⟨hn0, hnd'⟩ := List.nodup_cons.mp hnd
      cases j with
      | zero =>
        simp only [List.getElem?_cons_zero, Option.some.injEq] at h
        subst h
        rw [loadRegs_not_mem rs vs _ _ hn0]
        simp [upd]
      | succ j =>
        simp only [List.getElem?_cons_succ] at h
        rw [ih vs _ hnd' (by simpa using hlen) j r h]
        simp

/-- a well behaved fragment computes `fn` of the values found in its `resin` registers, whatever
    else the register file holds -/
theorem fn_spec (w : Nat) (f : Fragment) (hwb : f.wb = true) (vs : List Nat)
    (hlen : vs.length = f.resin.length) (ρ : Nat → Nat)
    (hρ : ∀ j r, f.resin[j]? = some r → ρ r = vs.getD j 0) :
    ∀ p r, f.resout[p]? = some r → runBody w f.body ρ r = (f.fn w vs).getD p 0 := by
  intro p r hp
  unfold Fragment.wb at hwb
  simp only [Bool.and_eq_true, decide_eq_true_eq] at hwb
  obtain ⟨hnd, hrest⟩ := hwb
  cases hD : defsOk f.resin f.body with
  | none => simp [hD] at hrest
  | some D =>
    simp only [hD] at hrest
    have hrD : r ∈ D := by
      have := List.all_eq_true.mp hrest r (List.mem_of_getElem? hp)
      simpa using this
    have hag : ∀ n ∈ f.resin, ρ n = loadRegs f.resin vs (fun _ => 0) n := by
      intro n hn
      obtain ⟨j, hj⟩ := List.mem_iff_getElem?.mp hn
      rw [hρ j n hj, loadRegs_get f.resin vs _ hnd (by omega) j n hj]
    rw [defsOk_agree w f.body f.resin D ρ _ hD hag r hrD]
    unfold Fragment.fn
    rw [List.getD_eq_getElem?_getD, List.getElem?_map, hp]
    simp


/-! ## rank (the composer's counters) -/

theorem rank_inj {α : Type} [DecidableEq α] (pred : α → Bool) : ∀ (L : List α) (x y : α),
    x ∈ L → y ∈ L → pred x = true → pred y = true → rank pred L x = rank pred L y → x = y := by
  intro L
  induction L with
  | nil => intro x y hx; cases hx
  | cons z zs ih =>
    intro x y hx hy px py h
    by_cases hzx : z = x
    · subst hzx
      by_cases hzy : z = y
      · exact hzy
      · simp only [rank, if_true, hzy, if_false, px] at h
        omega
    · by_cases hzy : z = y
      · subst hzy
        simp only [rank, hzx, if_false, if_true, py] at h
        omega
      · simp only [rank, hzx, hzy, if_false] at h
        have hx' : x ∈ zs := by
          rcases List.mem_cons.mp hx with e | e
          · exact absurd e.symm hzx
          · exact e
        have hy' : y ∈ zs := by
          rcases List.mem_cons.mp hy with e | e
          · exact absurd e.symm hzy
          · exact e
        exact ih x y hx' hy' px py (by omega)

theorem mem_outPairs (g : Graph) (l : List Nat) (i p : Nat) :
    (i, p) ∈ outPairs g l ↔ i ∈ l ∧ p < g.nOut i := by
  simp only [outPairs, List.mem_flatMap, List.mem_map, List.mem_range, Prod.mk.injEq]
  constructor
  · rintro ⟨a, ha, b, hb, rfl, rfl⟩; exact ⟨ha, hb⟩
  · rintro ⟨h1, h2⟩; exact ⟨i, h1, p, h2, rfl, rfl⟩

theorem tempIdx_inj (g : Graph) (l : List Nat) (i p i' p' k : Nat)
    (hi : i ∈ l) (hp : p < g.nOut i) (hi' : i' ∈ l) (hp' : p' < g.nOut i')
    (h : tempIdx g l i p = some k) (h' : tempIdx g l i' p' = some k) : i = i' ∧ p = p' := by
  unfold tempIdx at h h'
  split at h
  · rename_i c
    split at h'
    · rename_i c'
      simp only [Option.some.injEq] at h h'
      have := rank_inj (hasIntCons g l) (outPairs g l) (i, p) (i', p')
        ((mem_outPairs g l i p).mpr ⟨hi, hp⟩) ((mem_outPairs g l i' p').mpr ⟨hi', hp'⟩) c c'
        (by unfold tmpIdx at h h'; rw [h, h'])
      simpa using this
    · cases h'
  · cases h

/-! ## the four passes of a block -/

/-- value a load instruction puts in its destination -/
def loadVal (inp : Nat → Nat) (ρ : RegFile) (dflt : Nat) : Option SInstr → Nat
  | some (.movIn _ k) => inp k
  | some (.movReg _ s) => ρ s
  | _ => dflt

theorem run_loads (w : Nat) (inp : Nat → Nat) (f : Nat × Nat → Option SInstr) :
    ∀ (items : List (Nat × Nat)) (st : SecSt),
    (items.map (·.2)).Nodup →
    (∀ jr ∈ items, ∀ ins, f jr = some ins →
        (∃ k, ins = .movIn (.r jr.2) k) ∨ (∃ k, ins = .movReg (.r jr.2) (.t k))) →
    (runSec w inp (items.filterMap f) st).outs = st.outs ∧
    (∀ k, (runSec w inp (items.filterMap f) st).regs (.t k) = st.regs (.t k)) ∧
    (∀ n, n ∉ items.map (·.2) → (runSec w inp (items.filterMap f) st).regs (.r n) = st.regs (.r n)) ∧
    (∀ jr ∈ items, (runSec w inp (items.filterMap f) st).regs (.r jr.2) =
        loadVal inp st.regs (st.regs (.r jr.2)) (f jr)) := by
  intro items
  induction items with
  | nil => intro st _ _; simp [runSec]
  | cons a rest ih =>
    intro st hnd hform
    simp only [List.map_cons, List.nodup_cons] at hnd
    obtain ⟨ha, hnd'⟩ := hnd
    have hform' : ∀ jr ∈ rest, ∀ ins, f jr = some ins →
        (∃ k, ins = .movIn (.r jr.2) k) ∨ (∃ k, ins = .movReg (.r jr.2) (.t k)) :=
      fun jr h => hform jr (List.mem_cons_of_mem _ h)
    cases hfa : f a with
    | none =>
      have h := ih st hnd' hform'
      simp only [List.filterMap_cons, hfa]
      refine ⟨h.1, h.2.1, ?_, ?_⟩
      · intro n hn
        apply h.2.2.1
        intro hm; exact hn (List.mem_cons_of_mem _ hm)
      · intro jr hjr
        rcases List.mem_cons.mp hjr with e | e
        · subst e
          rw [hfa]
          simp only [loadVal]
          exact h.2.2.1 _ ha
        · exact h.2.2.2 jr e
    | some ins =>
      have hstep : ∃ v, SInstr.step w inp st ins = { st with regs := upd st.regs (.r a.2) v } ∧
          v = loadVal inp st.regs (st.regs (.r a.2)) (some ins) := by
        rcases hform a (List.mem_cons_self ..) ins hfa with ⟨k, rfl⟩ | ⟨k, rfl⟩
        · exact ⟨inp k, rfl, rfl⟩
        · exact ⟨st.regs (.t k), rfl, rfl⟩
      obtain ⟨v, hst, hv⟩ := hstep
      have h := ih (SInstr.step w inp st ins) hnd' hform'
      simp only [List.filterMap_cons, hfa, runSec, List.foldl_cons] at h ⊢
      rw [hst] at h ⊢
      refine ⟨h.1, ?_, ?_, ?_⟩
      · intro k; rw [h.2.1 k]; simp [upd]
      · intro n hn
        rw [h.2.2.1 n (fun hm => hn (List.mem_cons_of_mem _ hm))]
        have : n ≠ a.2 := fun e => hn (e ▸ List.mem_cons_self ..)
        simp [upd, this]
      · intro jr hjr
        rcases List.mem_cons.mp hjr with e | e
        · subst e
          rw [h.2.2.1 _ ha, hfa, ← hv]
          simp [upd]
        · rw [h.2.2.2 jr e]
          have hne : jr.2 ≠ a.2 := by
            intro e'; apply ha; rw [← e']; exact List.mem_map_of_mem e
          -- the value loaded for jr does not depend on the write to a.2
          cases hfj : f jr with
          | none => simp [loadVal, upd, hne]
          | some ins' =>
            rcases hform' jr e ins' hfj with ⟨k, rfl⟩ | ⟨k, rfl⟩
            · simp [loadVal]
            · simp [loadVal, upd]

theorem run_storesOut (g : Graph) (l : List Nat) (i : Nat) (w : Nat) (inp : Nat → Nat) :
    ∀ (items : List (Nat × Nat)) (st : SecSt),
    (runSec w inp (storesOutL g l i items) st).regs = st.regs ∧
    (runSec w inp (storesOutL g l i items) st).outs =
      st.outs ++ items.filterMap (fun pr => (outPort g l i pr.1).map fun k => (k, st.regs (.r pr.2))) := by
  intro items
  induction items with
  | nil => intro st; simp [storesOutL, runSec]
  | cons a rest ih =>
    intro st
    unfold storesOutL at ih ⊢
    cases ho : outPort g l i a.1 with
    | none =>
      simp only [List.filterMap_cons, ho, Option.map_none]
      exact ih st
    | some k =>
      have h := ih (SInstr.step w inp st (.movOut k (.r a.2)))
      simp only [List.filterMap_cons, ho, Option.map_some, runSec, List.foldl_cons] at h ⊢
      refine ⟨h.1, ?_⟩
      rw [h.2]
      simp [SInstr.step]

theorem run_storesTemp (g : Graph) (l : List Nat) (i : Nat) (w : Nat) (inp : Nat → Nat) :
    ∀ (items : List (Nat × Nat)) (st : SecSt),
    (items.map (·.1)).Nodup →
    (∀ pr ∈ items, ∀ pr' ∈ items, ∀ k, tempIdx g l i pr.1 = some k → tempIdx g l i pr'.1 = some k →
        pr.1 = pr'.1) →
    (runSec w inp (storesTempL g l i items) st).outs = st.outs ∧
    (∀ n, (runSec w inp (storesTempL g l i items) st).regs (.r n) = st.regs (.r n)) ∧
    (∀ k, (∀ pr ∈ items, tempIdx g l i pr.1 ≠ some k) →
        (runSec w inp (storesTempL g l i items) st).regs (.t k) = st.regs (.t k)) ∧
    (∀ pr ∈ items, ∀ k, tempIdx g l i pr.1 = some k →
        (runSec w inp (storesTempL g l i items) st).regs (.t k) = st.regs (.r pr.2)) := by
  intro items
  induction items with
  | nil => intro st _ _; simp [storesTempL, runSec]
  | cons a rest ih =>
    intro st hnd hinj
    simp only [List.map_cons, List.nodup_cons] at hnd
    obtain ⟨ha, hnd'⟩ := hnd
    have hinj' : ∀ pr ∈ rest, ∀ pr' ∈ rest, ∀ k, tempIdx g l i pr.1 = some k →
        tempIdx g l i pr'.1 = some k → pr.1 = pr'.1 :=
      fun pr h pr' h' => hinj pr (List.mem_cons_of_mem _ h) pr' (List.mem_cons_of_mem _ h')
    unfold storesTempL at ih ⊢
    cases ht : tempIdx g l i a.1 with
    | none =>
      have h := ih st hnd' hinj'
      simp only [List.filterMap_cons, ht, Option.map_none]
      refine ⟨h.1, h.2.1, ?_, ?_⟩
      · intro k hk
        exact h.2.2.1 k (fun pr hpr => hk pr (List.mem_cons_of_mem _ hpr))
      · intro pr hpr k hk
        rcases List.mem_cons.mp hpr with e | e
        · subst e; rw [ht] at hk; cases hk
        · exact h.2.2.2 pr e k hk
    | some k0 =>
      have h := ih (SInstr.step w inp st (.movReg (.t k0) (.r a.2))) hnd' hinj'
      simp only [List.filterMap_cons, ht, Option.map_some, runSec, List.foldl_cons] at h ⊢
      have hnot : ∀ pr ∈ rest, tempIdx g l i pr.1 ≠ some k0 := by
        intro pr hpr hk
        have := hinj a (List.mem_cons_self ..) pr (List.mem_cons_of_mem _ hpr) k0 ht hk
        apply ha; rw [this]; exact List.mem_map_of_mem hpr
      refine ⟨h.1, ?_, ?_, ?_⟩
      · intro n; rw [h.2.1 n]; simp [SInstr.step, upd]
      · intro k hk
        rw [h.2.2.1 k (fun pr hpr => hk pr (List.mem_cons_of_mem _ hpr))]
        have : k ≠ k0 := by
          intro e; exact hk a (List.mem_cons_self ..) (e ▸ ht)
        simp [SInstr.step, upd, this]
      · intro pr hpr k hk
        rcases List.mem_cons.mp hpr with e | e
        · subst e
          rw [ht] at hk
          simp only [Option.some.injEq] at hk
          subst hk
          rw [h.2.2.1 k0 hnot]
          simp [SInstr.step, upd]
        · rw [h.2.2.2 pr e k hk]
          simp [SInstr.step, upd]


/-! ## what `Graph.wf` gives -/

theorem wf_inst (g : Graph) (h : g.wf = true) (i : Nat) (hi : i < g.insts.length) :
    (g.frag i).wb = true ∧
    ∀ j, j < g.nIn i → g.inCount i j = 1 ∧ ∃ s, g.inSrc i j = some s ∧ g.srcOk i s = true := by
  unfold Graph.wf at h
  simp only [Bool.and_eq_true, List.all_eq_true, List.mem_range] at h
  have hi' := h.1 i hi
  refine ⟨hi'.1, ?_⟩
  intro j hj
  have := hi'.2 j hj
  refine ⟨by simpa using this.1, ?_⟩
  cases hs : g.inSrc i j with
  | none => rw [hs] at this; simp at this
  | some s => rw [hs] at this; exact ⟨s, rfl, this.2⟩

theorem wf_link (g : Graph) (h : g.wf = true) (L : Link) (hL : L ∈ g.links) :
    (∀ i j, L.dst = .inp i j → i < g.insts.length ∧ j < g.nIn i) ∧
    (∀ i p, L.src = .out i p → i < g.insts.length ∧ p < g.nOut i) := by
  unfold Graph.wf at h
  simp only [Bool.and_eq_true, List.all_eq_true] at h
  have := h.2 L hL
  constructor
  · intro i j e; rw [e] at this; simpa using this.1
  · intro i p e; rw [e] at this; simpa using this.2

theorem inSrc_mem (g : Graph) (i j : Nat) (s : Src) (h : g.inSrc i j = some s) :
    ∃ L ∈ g.links, L.dst = .inp i j ∧ L.src = s := by
  unfold Graph.inSrc at h
  cases hf : g.links.find? (fun L => L.dst == Dst.inp i j) with
  | none => rw [hf] at h; cases h
  | some L =>
    rw [hf] at h
    simp only [Option.map_some, Option.some.injEq] at h
    refine ⟨L, List.mem_of_find?_eq_some hf, ?_, h⟩
    have := List.find?_some hf
    simpa using this

theorem hasIntCons_of_inSrc (g : Graph) (l : List Nat) (i j i' p' : Nat)
    (h : g.inSrc i j = some (.out i' p')) (hil : i ∈ l) : hasIntCons g l (i', p') = true := by
  obtain ⟨L, hL, hd, hs⟩ := inSrc_mem g i j _ h
  unfold hasIntCons
  apply List.any_eq_true.mpr
  refine ⟨L, hL, ?_⟩
  simp [hs, hd, hil]

theorem hasExtCons_of_inSrc (g : Graph) (l : List Nat) (i j i' p' : Nat)
    (h : g.inSrc i j = some (.out i' p')) (hil : i ∉ l) : hasExtCons g l (i', p') = true := by
  obtain ⟨L, hL, hd, hs⟩ := inSrc_mem g i j _ h
  unfold hasExtCons
  apply List.any_eq_true.mpr
  refine ⟨L, hL, ?_⟩
  simp [hs, hd, hil]

/-! ## one block -/

theorem filterMap_congr' {α β : Type} (f g : α → Option β) : ∀ (l : List α),
    (∀ x ∈ l, f x = g x) → l.filterMap f = l.filterMap g := by
  intro l; induction l with
  | nil => intro _; rfl
  | cons a as ih =>
    intro h
    simp only [List.filterMap_cons, h a (List.mem_cons_self ..),
      ih (fun x hx => h x (List.mem_cons_of_mem _ hx))]

theorem flatMap_congr' {α β : Type} (f g : α → List β) : ∀ (l : List α),
    (∀ x ∈ l, f x = g x) → l.flatMap f = l.flatMap g := by
  intro l; induction l with
  | nil => intro _; rfl
  | cons a as ih =>
    intro h
    simp only [List.flatMap_cons, h a (List.mem_cons_self ..),
      ih (fun x hx => h x (List.mem_cons_of_mem _ hx))]

theorem range_map_getD (f : Nat → Nat) (n j : Nat) (hj : j < n) :
    ((List.range n).map f).getD j 0 = f j := by
  rw [List.getD_eq_getElem?_getD, List.getElem?_map, List.getElem?_range hj]
  simp

theorem run_block (g : Graph) (l : List Nat) (inp : Nat → Nat) (hwf : g.wf = true)
    (F : Nat → Nat → Nat) (pre : List Nat) (i : Nat) (st : SecSt)
    (hi : i < g.insts.length) (hil : i ∈ l) (hipre : i ∉ pre) (hprel : ∀ x ∈ pre, x ∈ l)
    (_hprelt : ∀ x ∈ pre, x < g.insts.length)
    (htopo : ∀ j i' p', g.inSrc i j = some (.out i' p') → l.contains i' = true → i' ∈ pre)
    (hinv : ∀ i' ∈ pre, ∀ p', p' < g.nOut i' → ∀ k, tempIdx g l i' p' = some k →
        st.regs (.t k) = F i' p') :
    (runSec g.w inp (block g l i) st).outs = st.outs ++
      (enum (g.frag i).resout).filterMap (fun pr => (outPort g l i pr.1).map fun k =>
        (k, ((g.frag i).fn g.w ((List.range (g.nIn i)).map (localIn g l inp F i))).getD pr.1 0)) ∧
    (∀ i' ∈ pre, ∀ p', p' < g.nOut i' → ∀ k, tempIdx g l i' p' = some k →
        (runSec g.w inp (block g l i) st).regs (.t k) = F i' p') ∧
    (∀ p, p < g.nOut i → ∀ k, tempIdx g l i p = some k →
        (runSec g.w inp (block g l i) st).regs (.t k) =
          ((g.frag i).fn g.w ((List.range (g.nIn i)).map (localIn g l inp F i))).getD p 0) := by
  obtain ⟨hwb, hins⟩ := wf_inst g hwf i hi
  have hresin_nd : (g.frag i).resin.Nodup := by
    unfold Fragment.wb at hwb
    simp only [Bool.and_eq_true, decide_eq_true_eq] at hwb
    exact hwb.1
  -- pass 1: mov resin, iK
  have h1 := run_loads g.w inp
    (fun jr => (inPort g l i jr.1).map fun k => SInstr.movIn (.r jr.2) k)
    (enum (g.frag i).resin) st
    (by rw [enum, enumFrom_map_snd]; exact hresin_nd)
    (by
      intro jr _ ins h
      cases hp : inPort g l i jr.1 with
      | none => simp [hp] at h
      | some k => simp [hp] at h; exact Or.inl ⟨k, h.symm⟩)
  -- pass 2: mov resin, tK
  have h2 := run_loads g.w inp
    (fun jr => match inKind g l i jr.1 with
      | .temp i' p' => (tempIdx g l i' p').map fun k => SInstr.movReg (.r jr.2) (.t k)
      | _ => none)
    (enum (g.frag i).resin) (runSec g.w inp (loadsIn g l i) st)
    (by rw [enum, enumFrom_map_snd]; exact hresin_nd)
    (by
      intro jr _ ins h
      cases hk : inKind g l i jr.1 with
      | none => simp [hk] at h
      | port => simp [hk] at h
      | temp i' p' =>
        simp only [hk] at h
        cases ht : tempIdx g l i' p' with
        | none => simp [ht] at h
        | some k => simp [ht] at h; exact Or.inr ⟨k, h.symm⟩)
  change (runSec g.w inp (loadsIn g l i) st).outs = _ ∧
    (∀ k, (runSec g.w inp (loadsIn g l i) st).regs _ = _) ∧
    (∀ n, _ → (runSec g.w inp (loadsIn g l i) st).regs _ = _) ∧
    ∀ jr ∈ _, (runSec g.w inp (loadsIn g l i) st).regs _ = _ at h1
  change (runSec g.w inp (loadsTemp g l i) _).outs = _ ∧
    (∀ k, (runSec g.w inp (loadsTemp g l i) _).regs _ = _) ∧
    (∀ n, _ → (runSec g.w inp (loadsTemp g l i) _).regs _ = _) ∧
    ∀ jr ∈ _, (runSec g.w inp (loadsTemp g l i) _).regs _ = _ at h2
  generalize hst1 : runSec g.w inp (loadsIn g l i) st = st1 at h1 h2
  generalize hst2 : runSec g.w inp (loadsTemp g l i) st1 = st2 at h2
  -- the resin registers now hold the dataflow inputs
  have hload : ∀ j r, (g.frag i).resin[j]? = some r → st2.regs (.r r) = localIn g l inp F i j := by
    intro j r hjr
    have hmem : (j, r) ∈ enum (g.frag i).resin := (mem_enum _ j r).mpr hjr
    have hjlt : j < g.nIn i := by
      unfold Graph.nIn
      exact (List.getElem?_eq_some_iff.mp hjr).1
    obtain ⟨_, s, hs, hsok⟩ := hins j hjlt
    have e2 := h2.2.2.2 (j, r) hmem
    have e1 := h1.2.2.2 (j, r) hmem
    simp only at e1 e2
    unfold localIn
    cases s with
    | ext k0 =>
      have hk : inKind g l i j = .port := by simp [inKind, hs]
      have hp : inPort g l i j = some (inIdx g l i j) := by simp [inPort, isPortIn, hk]
      rw [hk] at e2 ⊢
      simp only [loadVal] at e2
      rw [e2, e1, hp]
      simp [loadVal]
    | out i' p' =>
      by_cases hc : l.contains i' = true
      · have hc' : i' ∈ l := by simpa using hc
        have hk : inKind g l i j = .temp i' p' := by simp [inKind, hs, hc']
        have hic := hasIntCons_of_inSrc g l i j i' p' hs hil
        have ht : tempIdx g l i' p' = some (tmpIdx g l i' p') := by simp [tempIdx, hic]
        rw [hk] at e2 ⊢
        simp only [ht, Option.map_some, loadVal] at e2
        rw [e2, h1.2.1]
        have hi'pre := htopo j i' p' hs hc
        simp only [Graph.srcOk, Bool.and_eq_true, decide_eq_true_eq] at hsok
        exact hinv i' hi'pre p' hsok.2 _ ht
      · have hc' : i' ∉ l := by simpa using hc
        have hk : inKind g l i j = .port := by simp [inKind, hs, hc']
        have hp : inPort g l i j = some (inIdx g l i j) := by simp [inPort, isPortIn, hk]
        rw [hk] at e2 ⊢
        simp only [loadVal] at e2
        rw [e2, e1, hp]
        simp [loadVal]
  -- body
  have h3 := runSec_body g.w inp (g.frag i).body st2
  generalize hst3 : runSec g.w inp ((g.frag i).body.map .op) st2 = st3 at h3
  have hout : ∀ p r, (g.frag i).resout[p]? = some r → st3.regs (.r r) =
      ((g.frag i).fn g.w ((List.range (g.nIn i)).map (localIn g l inp F i))).getD p 0 := by
    intro p r hpr
    rw [h3.2.2 r]
    apply fn_spec g.w (g.frag i) hwb _ (by simp [Graph.nIn]) _ _ p r hpr
    intro j r' hjr'
    have hjlt : j < g.nIn i := by
      unfold Graph.nIn
      exact (List.getElem?_eq_some_iff.mp hjr').1
    rw [range_map_getD _ _ _ hjlt]
    exact hload j r' hjr'
  -- pass 3: mov oK, resout
  have h4 := run_storesOut g l i g.w inp (enum (g.frag i).resout) st3
  change (runSec g.w inp (storesOut g l i) st3).regs = _ ∧ (runSec g.w inp (storesOut g l i) st3).outs = _ at h4
  generalize hst4 : runSec g.w inp (storesOut g l i) st3 = st4 at h4
  -- pass 4: mov tK, resout
  have hmemlt : ∀ pr ∈ enum (g.frag i).resout, pr.1 < g.nOut i ∧ (g.frag i).resout[pr.1]? = some pr.2 := by
    intro pr hpr
    have := (mem_enum _ pr.1 pr.2).mp hpr
    exact ⟨(List.getElem?_eq_some_iff.mp this).1, this⟩
  have h5 := run_storesTemp g l i g.w inp (enum (g.frag i).resout) st4
    (by unfold enum; exact (enumFrom_map_fst_nodup _ 0).1)
    (by
      intro pr hpr pr' hpr' k hk hk'
      exact (tempIdx_inj g l i pr.1 i pr'.1 k hil (hmemlt pr hpr).1 hil (hmemlt pr' hpr').1 hk hk').2)
  change (runSec g.w inp (storesTemp g l i) st4).outs = _ ∧
    (∀ n, (runSec g.w inp (storesTemp g l i) st4).regs _ = _) ∧
    (∀ k, _ → (runSec g.w inp (storesTemp g l i) st4).regs _ = _) ∧
    (∀ pr ∈ _, ∀ k, _ → (runSec g.w inp (storesTemp g l i) st4).regs _ = _) at h5
  generalize hst5 : runSec g.w inp (storesTemp g l i) st4 = st5 at h5
  have hrun : runSec g.w inp (block g l i) st = st5 := by
    unfold block
    rw [runSec_append, runSec_append, runSec_append, runSec_append, hst1, hst2, hst3, hst4, hst5]
  rw [hrun]
  refine ⟨?_, ?_, ?_⟩
  · rw [h5.1, h4.2, h3.1, h2.1, h1.1]
    congr 1
    apply filterMap_congr'
    intro pr hpr
    cases ho : outPort g l i pr.1 with
    | none => rfl
    | some k =>
      simp only [Option.map_some]
      rw [hout pr.1 pr.2 (hmemlt pr hpr).2]
  · intro i' hi' p' hp' k hk
    have hnot : ∀ pr ∈ enum (g.frag i).resout, tempIdx g l i pr.1 ≠ some k := by
      intro pr hpr hk2
      have := (tempIdx_inj g l i pr.1 i' p' k hil (hmemlt pr hpr).1 (hprel i' hi') hp' hk2 hk).1
      exact hipre (this ▸ hi')
    rw [h5.2.2.1 k hnot, h4.1, h3.2.1, h2.2.1, h1.2.1]
    exact hinv i' hi' p' hp' k hk
  · intro p hp k hk
    have hr : ∃ r, (g.frag i).resout[p]? = some r := by
      have : p < (g.frag i).resout.length := hp
      exact ⟨_, List.getElem?_eq_getElem this⟩
    obtain ⟨r, hr⟩ := hr
    have hmem : (p, r) ∈ enum (g.frag i).resout := (mem_enum _ p r).mpr hr
    rw [h5.2.2.2 (p, r) hmem k hk, h4.1]
    exact hout p r hr


/-- the outputs of the list's instances, as (port, value) pairs in emission order -/
def outsOf (g : Graph) (l : List Nat) (F : Nat → Nat → Nat) (is : List Nat) : List (Nat × Nat) :=
  is.flatMap fun i => (enum (g.frag i).resout).filterMap fun pr =>
    (outPort g l i pr.1).map fun k => (k, F i pr.1)

theorem localIn_congr (g : Graph) (l : List Nat) (inp : Nat → Nat) (F F' : Nat → Nat → Nat)
    (i j : Nat) (h : ∀ i' p', inKind g l i j = .temp i' p' → F' i' p' = F i' p') :
    localIn g l inp F' i j = localIn g l inp F i j := by
  unfold localIn
  cases hk : inKind g l i j with
  | none => rfl
  | port => rfl
  | temp i' p' => exact h i' p' hk

theorem inKind_temp (g : Graph) (l : List Nat) (i j i' p' : Nat)
    (h : inKind g l i j = .temp i' p') : g.inSrc i j = some (.out i' p') ∧ l.contains i' = true := by
  unfold inKind at h
  cases hs : g.inSrc i j with
  | none => simp [hs] at h
  | some s =>
    cases s with
    | ext k => simp [hs] at h
    | out a b =>
      simp only [hs] at h
      split at h
      · rename_i hc
        simp only [InKind.temp.injEq] at h
        obtain ⟨rfl, rfl⟩ := h
        exact ⟨rfl, hc⟩
      · cases h

theorem run_blocks (g : Graph) (l : List Nat) (inp : Nat → Nat) (hwf : g.wf = true)
    (hnd : l.Nodup) (hlt : ∀ i ∈ l, i < g.insts.length) :
    ∀ (suf pre : List Nat), pre ++ suf = l → listTopoAux g l pre suf = true →
    ∀ (st : SecSt) (F : Nat → Nat → Nat),
    (∀ x ∈ pre, ∀ j i' p', inKind g l x j = .temp i' p' → i' ∈ pre) →
    (∀ i' ∈ pre, ∀ p', p' < g.nOut i' → ∀ k, tempIdx g l i' p' = some k → st.regs (.t k) = F i' p') →
    (∀ i ∈ pre, ∀ p, p < g.nOut i →
        F i p = ((g.frag i).fn g.w ((List.range (g.nIn i)).map (localIn g l inp F i))).getD p 0) →
    ∃ F' : Nat → Nat → Nat,
      (∀ i ∈ pre, ∀ p, F' i p = F i p) ∧
      (∀ i ∈ l, ∀ p, p < g.nOut i →
        F' i p = ((g.frag i).fn g.w ((List.range (g.nIn i)).map (localIn g l inp F' i))).getD p 0) ∧
      (runSec g.w inp (suf.flatMap (block g l)) st).outs = st.outs ++ outsOf g l F' suf := by
  intro suf
  induction suf with
  | nil =>
    intro pre hpl _ st F _ _ hsol
    refine ⟨F, fun _ _ _ => rfl, ?_, ?_⟩
    · simp only [List.append_nil] at hpl
      subst hpl
      exact hsol
    · simp [runSec, outsOf]
  | cons i suf' ih =>
    intro pre hpl htopo st F hpt hinv hsol
    have hil : i ∈ l := by rw [← hpl]; simp
    have hprel : ∀ x ∈ pre, x ∈ l := by intro x hx; rw [← hpl]; simp [hx]
    have hipre : i ∉ pre := by
      rw [← hpl] at hnd
      have := (List.nodup_append.mp hnd).2.2
      intro h
      exact this i h i (List.mem_cons_self ..) rfl
    simp only [listTopoAux, Bool.and_eq_true, List.all_eq_true, List.mem_range] at htopo
    obtain ⟨hhead, htail⟩ := htopo
    have htopo' : ∀ j i' p', g.inSrc i j = some (.out i' p') → l.contains i' = true → i' ∈ pre := by
      intro j i' p' hs hc
      have hjlt : j < g.nIn i := by
        obtain ⟨L, hL, hd, _⟩ := inSrc_mem g i j _ hs
        exact ((wf_link g hwf L hL).1 i j hd).2
      have := hhead j hjlt
      rw [hs] at this
      simp only [Bool.or_eq_true, Bool.not_eq_true'] at this
      rcases this with h | h
      · rw [h] at hc; cases hc
      · simpa using h
    have hb := run_block g l inp hwf F pre i st (hlt i hil) hil hipre hprel
      (fun x hx => hlt x (hprel x hx)) htopo' hinv
    -- the extended solution
    let outv := (g.frag i).fn g.w ((List.range (g.nIn i)).map (localIn g l inp F i))
    let F1 : Nat → Nat → Nat := fun i' p' => if i' = i then outv.getD p' 0 else F i' p'
    have hF1pre : ∀ x ∈ pre, ∀ p, F1 x p = F x p := by
      intro x hx p
      have : x ≠ i := fun e => hipre (e ▸ hx)
      simp [F1, this]
    have hpt' : ∀ x ∈ pre ++ [i], ∀ j i' p', inKind g l x j = .temp i' p' → i' ∈ pre ++ [i] := by
      intro x hx j i' p' hk
      rcases List.mem_append.mp hx with h | h
      · exact List.mem_append_left _ (hpt x h j i' p' hk)
      · simp only [List.mem_singleton] at h
        subst h
        obtain ⟨hs, hc⟩ := inKind_temp g l x j i' p' hk
        exact List.mem_append_left _ (htopo' j i' p' hs hc)
    have hlocal : ∀ x ∈ pre ++ [i], ∀ j, localIn g l inp F1 x j = localIn g l inp F x j := by
      intro x hx j
      apply localIn_congr
      intro i' p' hk
      have hi'pre : i' ∈ pre := by
        rcases List.mem_append.mp hx with h | h
        · exact hpt x h j i' p' hk
        · simp only [List.mem_singleton] at h
          subst h
          obtain ⟨hs, hc⟩ := inKind_temp g l x j i' p' hk
          exact htopo' j i' p' hs hc
      exact hF1pre i' hi'pre p'
    have hinv' : ∀ i' ∈ pre ++ [i], ∀ p', p' < g.nOut i' → ∀ k, tempIdx g l i' p' = some k →
        (runSec g.w inp (block g l i) st).regs (.t k) = F1 i' p' := by
      intro i' hi' p' hp' k hk
      rcases List.mem_append.mp hi' with h | h
      · rw [hF1pre i' h p']; exact hb.2.1 i' h p' hp' k hk
      · simp only [List.mem_singleton] at h
        subst h
        rw [hb.2.2 p' hp' k hk]
        simp [F1, outv]
    have hsol' : ∀ x ∈ pre ++ [i], ∀ p, p < g.nOut x →
        F1 x p = ((g.frag x).fn g.w ((List.range (g.nIn x)).map (localIn g l inp F1 x))).getD p 0 := by
      intro x hx p hp
      have hmap : (List.range (g.nIn x)).map (localIn g l inp F1 x) =
          (List.range (g.nIn x)).map (localIn g l inp F x) := by
        apply List.map_congr_left
        intro j _
        exact hlocal x hx j
      rw [hmap]
      rcases List.mem_append.mp hx with h | h
      · rw [hF1pre x h p]; exact hsol x h p hp
      · simp only [List.mem_singleton] at h
        subst h
        simp [F1, outv]
    obtain ⟨F', hag, hsolF', houts⟩ := ih (pre ++ [i]) (by rw [← hpl]; simp) htail
      (runSec g.w inp (block g l i) st) F1 hpt' hinv' hsol'
    refine ⟨F', ?_, hsolF', ?_⟩
    · intro x hx p
      rw [hag x (List.mem_append_left _ hx) p, hF1pre x hx p]
    · simp only [List.flatMap_cons, runSec_append]
      rw [houts, hb.1]
      simp only [outsOf, List.flatMap_cons, List.append_assoc]
      congr 2
      apply filterMap_congr'
      intro pr _
      cases ho : outPort g l i pr.1 with
      | none => rfl
      | some k =>
        simp only [Option.map_some]
        rw [hag i (by simp) pr.1]
        simp [F1, outv]

/-- **collapse_seq** (on the section with symbolic temporaries) -/
theorem collapse_seq_sym (g : Graph) (l : List Nat) (inp : Nat → Nat) (hwf : g.wf = true)
    (hnd : l.Nodup) (hlt : ∀ i ∈ l, i < g.insts.length) (htopo : listTopo g l = true)
    (ρ : RegFile) :
    ∃ F, LocalSol g l inp F ∧
      (runSec g.w inp (secSym g l) ⟨ρ, []⟩).outs = expectedOuts g l F := by
  obtain ⟨F, _, hsol, houts⟩ := run_blocks g l inp hwf hnd hlt l [] rfl htopo ⟨ρ, []⟩ (fun _ _ => 0)
    (by intro x hx; cases hx) (by intro x hx; cases hx) (by intro x hx; cases hx)
  refine ⟨F, hsol, ?_⟩
  unfold secSym
  rw [runSec_append]
  simp only [runSec, List.foldl_cons, List.foldl_nil, SInstr.step] at houts ⊢
  rw [houts]
  simp [outsOf, expectedOuts]


/-! ## dataflow evaluation: `evalPort` is the unique solution -/

theorem val_ext (g : Graph) (inputs : List Nat) (f k : Nat) :
    val g inputs f (.ext k) = inputs.getD k 0 := by
  cases f <;> rfl

theorem val_fuel (g : Graph) (inputs : List Nat) (hwf : g.wf = true) :
    ∀ i, i < g.insts.length → ∀ f1 f2 p, i < f1 → i < f2 →
      val g inputs f1 (.out i p) = val g inputs f2 (.out i p) := by
  intro i
  induction i using Nat.strongRecOn with
  | _ i ih =>
    intro hi f1 f2 p h1 h2
    obtain ⟨a, rfl⟩ : ∃ a, f1 = a + 1 := ⟨f1 - 1, by omega⟩
    obtain ⟨b, rfl⟩ : ∃ b, f2 = b + 1 := ⟨f2 - 1, by omega⟩
    simp only [val]
    congr 2
    apply List.map_congr_left
    intro j hj
    obtain ⟨_, s, hs, hok⟩ := (wf_inst g hwf i hi).2 j (List.mem_range.mp hj)
    simp only [hs]
    cases s with
    | ext k => rw [val_ext, val_ext]
    | out i' p' =>
      simp only [Graph.srcOk, Bool.and_eq_true, decide_eq_true_eq] at hok
      exact ih i' hok.1 (by omega) a b p' (by omega) (by omega)

theorem eval_solution (g : Graph) (inputs : List Nat) (hwf : g.wf = true) :
    IsSolution g inputs (evalPort g inputs) := by
  intro i hi p _
  unfold evalPort
  obtain ⟨a, ha⟩ : ∃ a, g.insts.length = a + 1 := ⟨g.insts.length - 1, by omega⟩
  rw [ha]
  simp only [val]
  congr 2
  apply List.map_congr_left
  intro j hj
  obtain ⟨_, s, hs, hok⟩ := (wf_inst g hwf i hi).2 j (List.mem_range.mp hj)
  simp only [inValV, hs]
  cases s with
  | ext k => rw [val_ext]; rfl
  | out i' p' =>
    simp only [Graph.srcOk, Bool.and_eq_true, decide_eq_true_eq] at hok
    simp only [srcValV]
    exact val_fuel g inputs hwf i' (by omega) a (a + 1) p' (by omega) (by omega)

theorem solution_unique (g : Graph) (inputs : List Nat) (hwf : g.wf = true)
    (V V' : Nat → Nat → Nat) (hV : IsSolution g inputs V) (hV' : IsSolution g inputs V') :
    ∀ i, i < g.insts.length → ∀ p, p < g.nOut i → V i p = V' i p := by
  intro i
  induction i using Nat.strongRecOn with
  | _ i ih =>
    intro hi p hp
    rw [hV i hi p hp, hV' i hi p hp]
    congr 2
    apply List.map_congr_left
    intro j hj
    obtain ⟨_, s, hs, hok⟩ := (wf_inst g hwf i hi).2 j (List.mem_range.mp hj)
    simp only [inValV, hs]
    cases s with
    | ext k => rfl
    | out i' p' =>
      simp only [Graph.srcOk, Bool.and_eq_true, decide_eq_true_eq] at hok
      exact ih i' hok.1 (by omega) p' hok.2

/-! ## partitions -/

theorem cpOf_some (pt : Part) (i c : Nat) (h : cpOf pt i = some c) :
    c < pt.length ∧ i ∈ listOf pt c := by
  unfold cpOf at h
  obtain ⟨hc, hp, _⟩ := List.findIdx?_eq_some_iff_getElem.mp h
  refine ⟨hc, ?_⟩
  unfold listOf
  rw [List.getElem?_eq_getElem hc]
  simpa using hp

theorem nodup_flatMap_unique (pt : Part) :
    (pt.flatMap (·.list)).Nodup → ∀ c c' i, i ∈ listOf pt c → i ∈ listOf pt c' → c = c' := by
  induction pt with
  | nil => intro _ c c' i h; simp [listOf] at h
  | cons x xs ih =>
    intro hnd c c' i h h'
    simp only [List.flatMap_cons] at hnd
    obtain ⟨h1, h2, h3⟩ := List.nodup_append.mp hnd
    have hmem : ∀ c, i ∈ listOf xs c → i ∈ xs.flatMap (·.list) := by
      intro c hc
      unfold listOf at hc
      cases hx : xs[c]? with
      | none => simp [hx] at hc
      | some y =>
        simp only [hx, Option.map_some, Option.getD_some] at hc
        exact List.mem_flatMap.mpr ⟨y, List.mem_of_getElem? hx, hc⟩
    cases c with
    | zero =>
      cases c' with
      | zero => rfl
      | succ c' =>
        have hx : i ∈ x.list := by simpa [listOf] using h
        have hy : i ∈ listOf xs c' := by simpa [listOf] using h'
        exact absurd rfl (h3 i hx i (hmem c' hy))
    | succ c =>
      cases c' with
      | zero =>
        have hx : i ∈ x.list := by simpa [listOf] using h'
        have hy : i ∈ listOf xs c := by simpa [listOf] using h
        exact absurd rfl (h3 i hx i (hmem c hy))
      | succ c' =>
        have hy : i ∈ listOf xs c := by simpa [listOf] using h
        have hy' : i ∈ listOf xs c' := by simpa [listOf] using h'
        rw [ih h2 c c' i hy hy']

theorem cpOf_of_mem (pt : Part) (hnd : (pt.flatMap (·.list)).Nodup) (i c : Nat)
    (h : i ∈ listOf pt c) : cpOf pt i = some c := by
  have hc : c < pt.length := by
    unfold listOf at h
    cases hx : pt[c]? with
    | none => simp [hx] at h
    | some y => exact (List.getElem?_eq_some_iff.mp hx).1
  cases hf : cpOf pt i with
  | none =>
    unfold cpOf at hf
    have := List.findIdx?_eq_none_iff.mp hf pt[c] (List.getElem_mem hc)
    unfold listOf at h
    rw [List.getElem?_eq_getElem hc] at h
    simp at h this
    exact absurd h this
  | some c' =>
    obtain ⟨_, hm⟩ := cpOf_some pt i c' hf
    rw [nodup_flatMap_unique pt hnd c' c i hm h]

structure PartOk (g : Graph) (pt : Part) : Prop where
  nodup : (pt.flatMap (·.list)).Nodup
  cover : ∀ i, i < g.insts.length → ∃ c, cpOf pt i = some c
  bound : ∀ c i, i ∈ listOf pt c → i < g.insts.length
  topo : ∀ c, c < pt.length → listTopo g (listOf pt c) = true

theorem partOk_of (g : Graph) (pt : Part) (h : Part.ok g pt = true) : PartOk g pt := by
  unfold Part.ok at h
  simp only [Bool.and_eq_true, decide_eq_true_eq, List.all_eq_true, List.mem_range] at h
  obtain ⟨⟨⟨hnd, hcov⟩, hb⟩, ht⟩ := h
  have hmemAll : ∀ c i, i ∈ listOf pt c → i ∈ pt.flatMap (·.list) := by
    intro c i hc
    unfold listOf at hc
    cases hx : pt[c]? with
    | none => simp [hx] at hc
    | some y =>
      simp only [hx, Option.map_some, Option.getD_some] at hc
      exact List.mem_flatMap.mpr ⟨y, List.mem_of_getElem? hx, hc⟩
  refine ⟨hnd, ?_, ?_, ?_⟩
  · intro i hi
    have := hcov i hi
    have hm : i ∈ pt.flatMap (·.list) := by simpa using this
    obtain ⟨y, hy, hiy⟩ := List.mem_flatMap.mp hm
    obtain ⟨c, hc, hcy⟩ := List.getElem_of_mem hy
    refine ⟨c, cpOf_of_mem pt hnd i c ?_⟩
    unfold listOf
    rw [List.getElem?_eq_getElem hc, hcy]
    simpa using hiy
  · intro c i hc
    have := hb i (hmemAll c i hc)
    simpa using this
  · intro c hc
    have := ht pt[c] (List.getElem_mem hc)
    unfold listOf
    rw [List.getElem?_eq_getElem hc]
    simpa using this

theorem listOf_nodup (pt : Part) (hnd : (pt.flatMap (·.list)).Nodup) (c : Nat) :
    (listOf pt c).Nodup := by
  unfold listOf
  cases hx : pt[c]? with
  | none => simp
  | some y =>
    simp only [Option.map_some, Option.getD_some]
    induction pt generalizing c with
    | nil => simp at hx
    | cons x xs ih =>
      simp only [List.flatMap_cons] at hnd
      obtain ⟨h1, h2, _⟩ := List.nodup_append.mp hnd
      cases c with
      | zero => simp at hx; subst hx; exact h1
      | succ c => exact ih h2 c (by simpa using hx)


/-- **collapse_seq** on the section as the composer leaves it (temporaries replaced) -/
theorem collapse_seq_res (g : Graph) (l : List Nat) (inp : Nat → Nat) (hwf : g.wf = true)
    (hnd : l.Nodup) (hlt : ∀ i ∈ l, i < g.insts.length) (htopo : listTopo g l = true)
    (ρ : RegFile) :
    ∃ F, LocalSol g l inp F ∧
      (runSec g.w inp (secRes g l) ⟨ρ, []⟩).outs = expectedOuts g l F := by
  rw [secRes_outs]
  exact collapse_seq_sym g l inp hwf hnd hlt htopo _

theorem mem_expectedOuts (g : Graph) (l : List Nat) (F : Nat → Nat → Nat) (i p k : Nat)
    (hi : i ∈ l) (hp : p < g.nOut i) (hk : outPort g l i p = some k) :
    (k, F i p) ∈ expectedOuts g l F := by
  unfold expectedOuts
  apply List.mem_flatMap.mpr
  refine ⟨i, hi, ?_⟩
  apply List.mem_filterMap.mpr
  have hp' : p < (g.frag i).resout.length := hp
  refine ⟨(p, (g.frag i).resout[p]), (mem_enum _ _ _).mpr (List.getElem?_eq_getElem hp'), ?_⟩
  simp [hk]

theorem mem_bonds (g : Graph) (pt : Part) (L : Link) (a b : End) (hL : L ∈ g.links)
    (hint : L.internal pt = false) (ha : srcEnd g pt L.src = some a) (hb : dstEnd g pt L.dst = some b) :
    (a, b) ∈ bonds g pt := by
  unfold bonds
  apply List.mem_filterMap.mpr
  refine ⟨L, hL, ?_⟩
  simp [hint, ha, hb]

theorem hasExtCons_of_link_ext (g : Graph) (l : List Nat) (L : Link) (i p k : Nat)
    (hL : L ∈ g.links) (hs : L.src = .out i p) (hd : L.dst = .ext k) : hasExtCons g l (i, p) = true := by
  unfold hasExtCons
  apply List.any_eq_true.mpr
  exact ⟨L, hL, by simp [hs, hd]⟩

/-- the per-CP dataflow solutions glue to a solution of the whole graph, and every CP output port
    carries the value of the instance output it was allocated for -/
theorem glue (g : Graph) (pt : Part) (inputs : List Nat) (σ : End → Nat)
    (hwf : g.wf = true) (hok : PartOk g pt) (hc : Consistent g pt inputs σ) :
    ∃ V, IsSolution g inputs V ∧
      ∀ i p c k, cpOf pt i = some c → i < g.insts.length → p < g.nOut i →
        outPort g (listOf pt c) i p = some k → σ (.cpOut c k) = V i p := by
  -- one local solution per CP (collapse_seq), chosen for the all-zero register file
  have hex : ∀ c, ∃ F : Nat → Nat → Nat, c < pt.length →
      LocalSol g (listOf pt c) (fun k => σ (.cpIn c k)) F ∧
      (runSec g.w (fun k => σ (.cpIn c k)) (secRes g (listOf pt c)) ⟨fun _ => 0, []⟩).outs =
        expectedOuts g (listOf pt c) F := by
    intro c
    by_cases hcl : c < pt.length
    · obtain ⟨F, h1, h2⟩ := collapse_seq_res g (listOf pt c) (fun k => σ (.cpIn c k)) hwf
        (listOf_nodup pt hok.nodup c) (fun i hi => hok.bound c i hi) (hok.topo c hcl) (fun _ => 0)
      exact ⟨F, fun _ => ⟨h1, h2⟩⟩
    · exact ⟨fun _ _ => 0, fun h => absurd h hcl⟩
  let Fc : Nat → Nat → Nat → Nat := fun c => Classical.choose (hex c)
  have hFc : ∀ c, c < pt.length →
      LocalSol g (listOf pt c) (fun k => σ (.cpIn c k)) (Fc c) ∧
      (runSec g.w (fun k => σ (.cpIn c k)) (secRes g (listOf pt c)) ⟨fun _ => 0, []⟩).outs =
        expectedOuts g (listOf pt c) (Fc c) := fun c => Classical.choose_spec (hex c)
  let V : Nat → Nat → Nat := fun i p => match cpOf pt i with
    | some c => Fc c i p
    | none => 0
  have hV : ∀ i c p, cpOf pt i = some c → V i p = Fc c i p := by
    intro i c p h; simp [V, h]
  -- every allocated output port carries the instance's value
  have hport : ∀ i p c k, cpOf pt i = some c → i < g.insts.length → p < g.nOut i →
      outPort g (listOf pt c) i p = some k → σ (.cpOut c k) = V i p := by
    intro i p c k hcp _ hp hk
    obtain ⟨hcl, him⟩ := cpOf_some pt i c hcp
    have hm := mem_expectedOuts g (listOf pt c) (Fc c) i p k him hp hk
    rw [← (hFc c hcl).2] at hm
    have := hc.sec c hcl (fun _ => 0) _ hm
    rw [hV i c p hcp]
    exact this
  refine ⟨V, ?_, hport⟩
  intro i hi p hp
  obtain ⟨c, hcp⟩ := hok.cover i hi
  obtain ⟨hcl, him⟩ := cpOf_some pt i c hcp
  rw [hV i c p hcp, (hFc c hcl).1 i him p hp]
  congr 2
  apply List.map_congr_left
  intro j hj
  obtain ⟨_, s, hs, hsok⟩ := (wf_inst g hwf i hi).2 j (List.mem_range.mp hj)
  obtain ⟨L, hL, hd, hsrc⟩ := inSrc_mem g i j s hs
  have hdst : ∀ (hport : inKind g (listOf pt c) i j = .port),
      dstEnd g pt L.dst = some (.cpIn c (inIdx g (listOf pt c) i j)) := by
    intro hk
    simp [hd, dstEnd, hcp, inPort, isPortIn, hk]
  unfold localIn inValV
  rw [hs]
  cases s with
  | ext k0 =>
    have hk : inKind g (listOf pt c) i j = .port := by simp [inKind, hs]
    rw [hk]
    dsimp only
    have hb := mem_bonds g pt L (.bmIn k0) _ hL (by simp [Link.internal, hsrc])
      (by simp [hsrc, srcEnd]) (hdst hk)
    have := hc.bond _ hb
    simp only at this
    rw [this, hc.inp k0]
    rfl
  | out i' p' =>
    simp only [Graph.srcOk, Bool.and_eq_true, decide_eq_true_eq] at hsok
    have hi' : i' < g.insts.length := by omega
    obtain ⟨c', hcp'⟩ := hok.cover i' hi'
    obtain ⟨hcl', him'⟩ := cpOf_some pt i' c' hcp'
    by_cases hin : i' ∈ listOf pt c
    · have hk : inKind g (listOf pt c) i j = .temp i' p' := by simp [inKind, hs, hin]
      rw [hk]
      dsimp only
      have : cpOf pt i' = some c := cpOf_of_mem pt hok.nodup i' c hin
      simp only [srcValV]
      rw [hV i' c p' this]
    · have hk : inKind g (listOf pt c) i j = .port := by simp [inKind, hs, hin]
      rw [hk]
      dsimp only
      have hne : c' ≠ c := fun e => hin (e ▸ him')
      have hinot : i ∉ listOf pt c' := by
        intro h
        exact hne (nodup_flatMap_unique pt hok.nodup c' c i h him)
      have hext := hasExtCons_of_inSrc g (listOf pt c') i j i' p' hs hinot
      have hop : outPort g (listOf pt c') i' p' = some (outIdx g (listOf pt c') i' p') := by
        simp [outPort, hext]
      have hb := mem_bonds g pt L (.cpOut c' (outIdx g (listOf pt c') i' p')) _ hL
        (by simp [Link.internal, hsrc, hd, hcp, hcp', hne])
        (by simp [hsrc, srcEnd, hcp', hop]) (hdst hk)
      have := hc.bond _ hb
      simp only at this
      rw [this, hport i' p' c' _ hcp' hi' hsok.2 hop]
      rfl

/-- **compose_correct**: every consistent behaviour of the composed network shows, on every BM
    output, the dataflow evaluation of the graph -/
theorem compose_correct_thm (g : Graph) (pt : Part) (inputs : List Nat) (σ : End → Nat)
    (hwf : g.wf = true) (hok : Part.ok g pt = true) (hc : Consistent g pt inputs σ) :
    ∀ k s, outSrc g k = some s → σ (.bmOut k) = evalSrc g inputs s := by
  intro k s hs
  have hpo := partOk_of g pt hok
  obtain ⟨V, hsol, hport⟩ := glue g pt inputs σ hwf hpo hc
  unfold outSrc at hs
  cases hf : g.links.find? (fun L => L.dst == Dst.ext k) with
  | none => rw [hf] at hs; cases hs
  | some L =>
    rw [hf] at hs
    simp only [Option.map_some, Option.some.injEq] at hs
    have hL : L ∈ g.links := List.mem_of_find?_eq_some hf
    have hd : L.dst = .ext k := by
      have := List.find?_some hf
      simpa using this
    cases s with
    | ext k0 =>
      have hb := mem_bonds g pt L (.bmIn k0) (.bmOut k) hL (by simp [Link.internal, hs])
        (by simp [hs, srcEnd]) (by simp [hd, dstEnd])
      have := hc.bond _ hb
      simp only at this
      rw [this, hc.inp k0]
      rfl
    | out i p =>
      obtain ⟨hi, hp⟩ := (wf_link g hwf L hL).2 i p hs
      obtain ⟨c, hcp⟩ := hpo.cover i hi
      have hext := hasExtCons_of_link_ext g (listOf pt c) L i p k hL hs hd
      have hop : outPort g (listOf pt c) i p = some (outIdx g (listOf pt c) i p) := by
        simp [outPort, hext]
      have hb := mem_bonds g pt L (.cpOut c (outIdx g (listOf pt c) i p)) (.bmOut k) hL
        (by simp [Link.internal, hs, hd]) (by simp [hs, srcEnd, hcp, hop]) (by simp [hd, dstEnd])
      have := hc.bond _ hb
      simp only at this
      rw [this, hport i p c _ hcp hi hp hop]
      simp only [evalSrc]
      exact solution_unique g inputs hwf V _ hsol (eval_solution g inputs hwf) i hi p hp


theorem mem_inPairs (g : Graph) (l : List Nat) (i j : Nat) :
    (i, j) ∈ inPairs g l ↔ i ∈ l ∧ j < g.nIn i := by
  simp only [inPairs, List.mem_flatMap, List.mem_map, List.mem_range, Prod.mk.injEq]
  constructor
  · rintro ⟨a, ha, b, hb, rfl, rfl⟩; exact ⟨ha, hb⟩
  · rintro ⟨h1, h2⟩; exact ⟨i, h1, j, h2, rfl, rfl⟩

theorem outPort_inj (g : Graph) (l : List Nat) (i p i' p' k : Nat)
    (hi : i ∈ l) (hp : p < g.nOut i) (hi' : i' ∈ l) (hp' : p' < g.nOut i')
    (h : outPort g l i p = some k) (h' : outPort g l i' p' = some k) : i = i' ∧ p = p' := by
  unfold outPort at h h'
  split at h
  · rename_i c
    split at h'
    · rename_i c'
      simp only [Option.some.injEq] at h h'
      have := rank_inj (hasExtCons g l) (outPairs g l) (i, p) (i', p')
        ((mem_outPairs g l i p).mpr ⟨hi, hp⟩) ((mem_outPairs g l i' p').mpr ⟨hi', hp'⟩) c c'
        (by unfold outIdx at h h'; rw [h, h'])
      simpa using this
    · cases h'
  · cases h

theorem inPort_inj (g : Graph) (l : List Nat) (i j i' j' k : Nat)
    (hi : i ∈ l) (hj : j < g.nIn i) (hi' : i' ∈ l) (hj' : j' < g.nIn i')
    (h : inPort g l i j = some k) (h' : inPort g l i' j' = some k) : i = i' ∧ j = j' := by
  unfold inPort at h h'
  split at h
  · rename_i c
    split at h'
    · rename_i c'
      simp only [Option.some.injEq] at h h'
      have := rank_inj (isPortIn g l) (inPairs g l) (i, j) (i', j')
        ((mem_inPairs g l i j).mpr ⟨hi, hj⟩) ((mem_inPairs g l i' j').mpr ⟨hi', hj'⟩) c c'
        (by unfold inIdx at h h'; rw [h, h'])
      simpa using this
    · cases h'
  · cases h

end BMV.Frag
