/-
  C18, towards `wf_total` (3): continuous assignments, `settle`, `init`, `cycle`, `poke` of a resolved design.
-/
import BMV.Proofs.VlogSafe2
import BMV.Proofs.VlogTotal
namespace BMV.Vlog

theorem arr_forIn_safe {α β : Type} {P : β → Prop} (f : α → β → R (ForInStep β)) (arr : Array α) (b : β)
    (hb : P b) (hf : ∀ a b, a ∈ arr.toList → P b → Safe (fun r => P (stepVal r)) (f a b)) :
    Safe P (forIn arr b f) := by
  rw [← Array.forIn_toList]
  exact forIn_safe f arr.toList b hb hf

theorem arr_foldlM_safe {α β : Type} {P : β → Prop} (f : β → α → R β) (arr : Array α) (b : β)
    (hb : P b) (hf : ∀ b a, a ∈ arr.toList → P b → Safe P (f b a)) : Safe P (arr.foldlM f b) := by
  rw [← Array.foldlM_toList]
  exact foldlM_safe f arr.toList b hb hf

theorem wordsChanged_safe (sigs : Array Sig) (n : Nat) (old new : State) (ho : n ≤ old.size) (hn : n ≤ new.size)
    (ws : Array Write) (hws : WritesOk n ws.toList) : Safe0 (wordsChanged sigs old new ws) := by
  unfold wordsChanged
  refine arr_foldlM_safe (P := fun _ => True) _ ws false trivial (fun acc w hw _ => ?_)
  refine Safe.ite (fun _ => Safe.pure trivial) (fun _ => ?_)
  have := hws w hw
  refine Safe.bind (rdWord_safe old sigs _ _ (by omega)) (fun _ _ => ?_)
  exact Safe.bind (rdWord_safe new sigs _ _ (by omega)) (fun _ _ => Safe.pure trivial)

theorem Design.resolved_parts {d : Design} (h : d.Resolved = true) :
    (∀ a, a ∈ d.assigns.toList → wfE d.sigs.size a.1 = true ∧ wfE d.sigs.size a.2 = true) ∧
    (∀ s, s ∈ d.combs.toList → wfS d.sigs.size s = true) ∧
    (∀ p, p ∈ d.procs.toList → wfS d.sigs.size p.body = true) ∧
    (∀ s, s ∈ d.inits.toList → wfS d.sigs.size s = true) := by
  unfold Design.Resolved at h
  simp only [Bool.and_eq_true, List.all_eq_true] at h
  exact ⟨h.1.1.1, h.1.1.2, h.1.2, h.2⟩

theorem xok_init {n : Nat} {st : State} (h : n ≤ st.size) : XOk n { loc := st } :=
  ⟨h, fun _ hw => by simp at hw, fun _ hw => by simp at hw⟩

theorem settlePass_safe (d : Design) (hd : d.Resolved = true) (st : State) (hst : d.sigs.size ≤ st.size) :
    Safe (fun r : State × Bool => d.sigs.size ≤ r.1.size) (settlePass d st) := by
  obtain ⟨hA, hC, _, _⟩ := Design.resolved_parts hd
  unfold settlePass
  refine Safe.bind (Q := fun s : State × Bool => d.sigs.size ≤ s.1.size) ?_ (fun s hs => ?_)
  · refine arr_forIn_safe _ _ _ hst (fun a s ha hs => ?_)
    obtain ⟨lhs, rhs⟩ := a
    have hw := hA _ ha
    refine Safe.bind (selfW_safe d.sigs lhs hw.1) (fun lw _ => ?_)
    refine Safe.bind (evalAssign_safe d.sigs s.1 hs lw rhs hw.2) (fun v _ => ?_)
    refine Safe.bind (mkWrites_safe d.sigs s.1 hs v lhs hw.1) (fun ws hws => ?_)
    refine Safe.bind (applyWrites_safe d.sigs d.sigs.size ws.toArray (by simpa using hws) s.1 hs) (fun st' hst' => ?_)
    refine Safe.bind (wordsChanged_safe d.sigs d.sigs.size s.1 st' hs hst' ws.toArray (by simpa using hws)) (fun ch _ => ?_)
    split <;> exact Safe.pure hst'
  · refine Safe.bind (Q := fun s : State × Bool => d.sigs.size ≤ s.1.size) ?_ (fun s hs => Safe.pure hs)
    refine arr_forIn_safe _ _ _ hs (fun body s hb hs => ?_)
    refine Safe.bind (exec_safe d.sigs body _ (hC _ hb) (xok_init hs)) (fun x hx => ?_)
    refine Safe.bind (applyWrites_safe d.sigs d.sigs.size x.nba hx.nba x.loc hx.loc) (fun st' hst' => ?_)
    refine Safe.bind (wordsChanged_safe d.sigs d.sigs.size s.1 st' hs hst' (x.bw ++ x.nba)
      (by simpa using WritesOk.append hx.bw hx.nba)) (fun ch _ => ?_)
    split <;> exact Safe.pure hst'


theorem settleLoop_safe (d : Design) (hd : d.Resolved = true) : ∀ (fuel : Nat) (st : State), d.sigs.size ≤ st.size →
    Safe (fun r : State => d.sigs.size ≤ r.size) (settleLoop d fuel st)
  | 0, _, _ => by unfold settleLoop; exact Safe.throw (by elab_msg)
  | fuel + 1, st, hst => by
    unfold settleLoop
    refine Safe.bind (settlePass_safe d hd st hst) (fun r hr => ?_)
    obtain ⟨st', changed⟩ := r
    exact Safe.ite (fun _ => settleLoop_safe d hd fuel st' hr) (fun _ => Safe.pure hr)

theorem settle_safe (d : Design) (hd : d.Resolved = true) (st : State) (hst : d.sigs.size ≤ st.size) :
    Safe (fun r : State => d.sigs.size ≤ r.size) (settle d st) := by
  unfold settle
  exact settleLoop_safe d hd _ st hst

theorem init_safe (d : Design) (hd : d.Resolved = true) :
    Safe (fun r : State => d.sigs.size ≤ r.size) d.init := by
  obtain ⟨_, _, _, hI⟩ := Design.resolved_parts hd
  unfold Design.init
  have h0 : d.sigs.size ≤ (zeroState d).size := by simp [zeroState]
  refine Safe.bind (Q := fun s : State => d.sigs.size ≤ s.size) ?_ (fun s hs => settle_safe d hd s hs)
  refine arr_forIn_safe _ _ _ h0 (fun body s hb hs => ?_)
  refine Safe.bind (exec_safe d.sigs body _ (hI _ hb) (xok_init hs)) (fun x hx => ?_)
  refine Safe.bind (applyWrites_safe d.sigs d.sigs.size x.nba hx.nba x.loc hx.loc) (fun st' hst' => ?_)
  exact Safe.pure hst'

/-- success of `setInputs` keeps the storage shape -/
theorem setInputs_size (d : Design) : ∀ (inputs : List (Nat × Nat)) (st st1 : State), d.sigs.size ≤ st.size →
    d.setInputs st inputs = .ok st1 → d.sigs.size ≤ st1.size := by
  intro inputs
  unfold Design.setInputs
  induction inputs with
  | nil => intro st st1 hst h; simp only [List.foldlM_nil, pure, Except.pure, Except.ok.injEq] at h; subst h; exact hst
  | cons p ps ih =>
    intro st st1 hst h
    simp only [List.foldlM_cons] at h
    obtain ⟨st2, h2, h3⟩ := bind_ok h
    refine ih st2 st1 ?_ h3
    obtain ⟨i, v⟩ := p
    simp only [] at h2
    obtain ⟨s, hs, h2⟩ := bind_ok h2
    have hi : i < d.sigs.size := by
      unfold getSig at hs
      split at hs
      · rename_i heq
        exact (Array.getElem?_eq_some_iff.mp heq).1
      · simp [throw, throwThe, MonadExceptOf.throw] at hs
    split at h2
    · simp [throw, throwThe, MonadExceptOf.throw] at h2
    · split at h2
      · simp [throw, throwThe, MonadExceptOf.throw] at h2
      · split at h2
        · simp [throw, throwThe, MonadExceptOf.throw] at h2
        · exact (applyWrite_safe d.sigs st d.sigs.size hst ⟨i, 0, 0, s.width, v⟩ hi).2 st2 h2

theorem cycle_rest_safe (d : Design) (hd : d.Resolved = true) (clk : Nat) (st1 : State) (hst : d.sigs.size ≤ st1.size) :
    Safe (fun r : State => d.sigs.size ≤ r.size) (do
      let st ← settle d st1
      let mut bws : Array Write := #[]
      let mut nbas : Array Write := #[]
      for p in d.procs do
        if d.triggered clk p then
          let x ← exec d.sigs { loc := st } p.body
          bws := bws ++ x.bw
          nbas := nbas ++ x.nba
      let st ← applyWrites d.sigs st bws
      let st ← applyWrites d.sigs st nbas
      settle d st) := by
  obtain ⟨_, _, hP, _⟩ := Design.resolved_parts hd
  refine Safe.bind (settle_safe d hd st1 hst) (fun st hs => ?_)
  refine Safe.bind (Q := fun s : Array Write × Array Write =>
      WritesOk d.sigs.size s.1.toList ∧ WritesOk d.sigs.size s.2.toList) ?_ (fun s hs2 => ?_)
  · refine arr_forIn_safe _ _ _ ⟨fun _ h => by simp at h, fun _ h => by simp at h⟩ (fun p s hp hs2 => ?_)
    refine Safe.ite (fun _ => ?_) (fun _ => Safe.pure hs2)
    refine Safe.bind (exec_safe d.sigs p.body _ (hP _ hp) (xok_init hs)) (fun x hx => ?_)
    exact Safe.pure ⟨by simpa [stepVal] using WritesOk.append hs2.1 hx.bw, by simpa [stepVal] using WritesOk.append hs2.2 hx.nba⟩
  · refine Safe.bind (applyWrites_safe d.sigs d.sigs.size s.1 hs2.1 st hs) (fun st2 h2 => ?_)
    refine Safe.bind (applyWrites_safe d.sigs d.sigs.size s.2 hs2.2 st2 h2) (fun st3 h3 => ?_)
    exact settle_safe d hd st3 h3


theorem cycle_safe (d : Design) (hd : d.Resolved = true) (clk : Nat) (st : State) (inputs : List (Nat × Nat))
    (hst : d.sigs.size ≤ st.size) :
    (∀ msg, d.cycle clk st inputs = .error msg →
      ElabClassError msg = false ∨ d.setInputs st inputs = .error msg) ∧
    (∀ st', d.cycle clk st inputs = .ok st' → d.sigs.size ≤ st'.size) := by
  unfold Design.cycle
  cases hset : d.setInputs st inputs with
  | error e =>
    refine ⟨fun msg h => ?_, fun st' h => ?_⟩
    · right
      simp only [bind, Except.bind] at h
      exact h
    · simp [bind, Except.bind] at h
  | ok st1 =>
    have h1 := setInputs_size d inputs st st1 hst hset
    have hr := cycle_rest_safe d hd clk st1 h1
    refine ⟨fun msg h => Or.inl (hr.1 msg ?_), fun st' h => hr.2 st' ?_⟩
    · simpa [bind, Except.bind] using h
    · simpa [bind, Except.bind] using h

theorem poke_safe (d : Design) (hd : d.Resolved = true) (st : State) (inputs : List (Nat × Nat))
    (hst : d.sigs.size ≤ st.size) :
    (∀ msg, d.poke st inputs = .error msg → ElabClassError msg = false ∨ d.setInputs st inputs = .error msg) ∧
    (∀ st', d.poke st inputs = .ok st' → d.sigs.size ≤ st'.size) := by
  unfold Design.poke
  cases hset : d.setInputs st inputs with
  | error e =>
    refine ⟨fun msg h => ?_, fun st' h => ?_⟩
    · right; simp only [bind, Except.bind] at h; exact h
    · simp [bind, Except.bind] at h
  | ok st1 =>
    have hr := settle_safe d hd st1 (setInputs_size d inputs st st1 hst hset)
    refine ⟨fun msg h => Or.inl (hr.1 msg ?_), fun st' h => hr.2 st' ?_⟩
    · simpa [bind, Except.bind] using h
    · simpa [bind, Except.bind] using h

end BMV.Vlog
