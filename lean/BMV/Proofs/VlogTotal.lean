/-
  Lemmas behind the partial `wf_total` of C18: name resolution leaves no identifier behind; on the
  `simple` fragment width computation and evaluation never fail.
-/
import BMV.Vlog.Check
namespace BMV.Vlog

theorem bind_ok {α β : Type} {x : R α} {f : α → R β} {v : β} (h : (x >>= f) = .ok v) :
    ∃ a, x = .ok a ∧ f a = .ok v := by
  cases x with
  | error e => simp [bind, Except.bind] at h
  | ok a => exact ⟨a, rfl, h⟩

mutual
theorem resolveExpr_closed (sc : Scope) : ∀ (e e' : Expr), resolveExpr sc e = .ok e' → closed e' = true
  | .num w v, e', h => by
    simp only [resolveExpr, pure, Except.pure, Except.ok.injEq] at h; subst h; rfl
  | .sig i, e', h => by
    simp only [resolveExpr, pure, Except.pure, Except.ok.injEq] at h; subst h; rfl
  | .id n, e', h => by
    unfold resolveExpr at h
    split at h
    · simp only [pure, Except.pure, Except.ok.injEq] at h; subst h; rfl
    · simp only [pure, Except.pure, Except.ok.injEq] at h; subst h; rfl
    · simp [throw, throwThe, MonadExceptOf.throw] at h
  | .idx b i, e', h => by
    unfold resolveExpr at h
    obtain ⟨b', hb, h⟩ := bind_ok h
    obtain ⟨i', hi, h⟩ := bind_ok h
    simp only [pure, Except.pure, Except.ok.injEq] at h; subst h
    simp [closed, resolveExpr_closed sc b b' hb, resolveExpr_closed sc i i' hi]
  | .rng b m l, e', h => by
    unfold resolveExpr at h
    obtain ⟨m', _, h⟩ := bind_ok h
    obtain ⟨mv, _, h⟩ := bind_ok h
    obtain ⟨l', _, h⟩ := bind_ok h
    obtain ⟨lv, _, h⟩ := bind_ok h
    obtain ⟨b', hb, h⟩ := bind_ok h
    simp only [pure, Except.pure, Except.ok.injEq] at h; subst h
    simp [closed, resolveExpr_closed sc b b' hb]
  | .ipart b s w up, e', h => by
    unfold resolveExpr at h
    obtain ⟨w', _, h⟩ := bind_ok h
    obtain ⟨wv, _, h⟩ := bind_ok h
    obtain ⟨b', hb, h⟩ := bind_ok h
    obtain ⟨s', hs, h⟩ := bind_ok h
    simp only [pure, Except.pure, Except.ok.injEq] at h; subst h
    simp [closed, resolveExpr_closed sc b b' hb, resolveExpr_closed sc s s' hs]
  | .cat es, e', h => by
    unfold resolveExpr at h
    obtain ⟨es', hes, h⟩ := bind_ok h
    simp only [pure, Except.pure, Except.ok.injEq] at h; subst h
    simp [closed, resolveExprs_closed sc es es' hes]
  | .rep n es, e', h => by
    unfold resolveExpr at h
    obtain ⟨n', _, h⟩ := bind_ok h
    obtain ⟨nv, _, h⟩ := bind_ok h
    obtain ⟨es', hes, h⟩ := bind_ok h
    simp only [pure, Except.pure, Except.ok.injEq] at h; subst h
    simp [closed, resolveExprs_closed sc es es' hes]
  | .un op e, e', h => by
    unfold resolveExpr at h
    obtain ⟨x, hx, h⟩ := bind_ok h
    simp only [pure, Except.pure, Except.ok.injEq] at h; subst h
    simp [closed, resolveExpr_closed sc e x hx]
  | .bin op a b, e', h => by
    unfold resolveExpr at h
    obtain ⟨a', ha, h⟩ := bind_ok h
    obtain ⟨b', hb, h⟩ := bind_ok h
    simp only [pure, Except.pure, Except.ok.injEq] at h; subst h
    simp [closed, resolveExpr_closed sc a a' ha, resolveExpr_closed sc b b' hb]
  | .cond c a b, e', h => by
    unfold resolveExpr at h
    obtain ⟨c', hc, h⟩ := bind_ok h
    obtain ⟨a', ha, h⟩ := bind_ok h
    obtain ⟨b', hb, h⟩ := bind_ok h
    simp only [pure, Except.pure, Except.ok.injEq] at h; subst h
    simp [closed, resolveExpr_closed sc c c' hc, resolveExpr_closed sc a a' ha, resolveExpr_closed sc b b' hb]
theorem resolveExprs_closed (sc : Scope) : ∀ (es es' : List Expr), resolveExprs sc es = .ok es' → closedL es' = true
  | [], es', h => by
    simp only [resolveExprs, pure, Except.pure, Except.ok.injEq] at h; subst h; rfl
  | e :: es, es', h => by
    unfold resolveExprs at h
    obtain ⟨x, hx, h⟩ := bind_ok h
    obtain ⟨xs, hxs, h⟩ := bind_ok h
    simp only [pure, Except.pure, Except.ok.injEq] at h; subst h
    simp [closedL, resolveExpr_closed sc e x hx, resolveExprs_closed sc es xs hxs]
end

mutual
theorem selfW_ok (sigs : Array Sig) : ∀ (e : Expr), simple sigs e = true → ∃ w, selfW sigs e = .ok w
  | .num (some w) v, _ => ⟨w, by simp [selfW, pure, Except.pure]⟩
  | .num none v, _ => ⟨32, by simp [selfW, pure, Except.pure]⟩
  | .sig i, h => by
    simp only [simple, okSig] at h
    cases hs : sigs[i]? with
    | none => simp [hs] at h
    | some s =>
      simp only [hs, beq_iff_eq] at h
      exact ⟨s.width, by simp [selfW, getSig, hs, h, bind, Except.bind, pure, Except.pure]⟩
  | .cat es, h => by
    simp only [simple] at h
    obtain ⟨w, hw⟩ := selfWL_ok sigs es h
    exact ⟨w, by simp [selfW, hw]⟩
  | .rep (.num nw nv) es, h => by
    simp only [simple] at h
    obtain ⟨w, hw⟩ := selfWL_ok sigs es h
    exact ⟨nv * w, by simp [selfW, hw, constNat, bind, Except.bind, pure, Except.pure]⟩
  | .un op e, h => by
    simp only [simple] at h
    obtain ⟨w, hw⟩ := selfW_ok sigs e h
    cases op <;> simp [selfW, hw, pure, Except.pure]
  | .bin op a b, h => by
    simp only [simple, Bool.and_eq_true] at h
    obtain ⟨wa, hwa⟩ := selfW_ok sigs a h.1.2
    obtain ⟨wb, hwb⟩ := selfW_ok sigs b h.2
    cases op <;> simp [selfW, hwa, hwb, bind, Except.bind, pure, Except.pure]
  | .cond c a b, h => by
    simp only [simple, Bool.and_eq_true] at h
    obtain ⟨wa, hwa⟩ := selfW_ok sigs a h.1.2
    obtain ⟨wb, hwb⟩ := selfW_ok sigs b h.2
    exact ⟨max wa wb, by simp [selfW, hwa, hwb, bind, Except.bind, pure, Except.pure]⟩
theorem selfWL_ok (sigs : Array Sig) : ∀ (es : List Expr), simpleL sigs es = true → ∃ w, selfWL sigs es = .ok w
  | [], _ => ⟨0, by simp [selfWL, pure, Except.pure]⟩
  | e :: es, h => by
    simp only [simpleL, Bool.and_eq_true] at h
    obtain ⟨w, hw⟩ := selfW_ok sigs e h.1
    obtain ⟨ws, hws⟩ := selfWL_ok sigs es h.2
    exact ⟨w + ws, by simp [selfWL, hw, hws, bind, Except.bind, pure, Except.pure]⟩
end

theorem rdWord_ok (sigs : Array Sig) (st : State) (hst : StateOk sigs st) (i : Nat) (s : Sig) (hs : sigs[i]? = some s) :
    ∃ v, rdWord st sigs i 0 = .ok v := by
  obtain ⟨a, v, ha, hv⟩ := hst i s hs
  exact ⟨v, by simp [rdWord, ha, hv, pure, Except.pure]⟩

mutual
theorem evalC_ok (sigs : Array Sig) (st : State) (hst : StateOk sigs st) :
    ∀ (e : Expr), simple sigs e = true → ∀ (W : Nat), ∃ v, evalC sigs st W e = .ok v
  | .num (some w) v, _, _ => ⟨v % pow2 w, by simp [evalC, pure, Except.pure]⟩
  | .num none v, _, _ => ⟨v % pow2 32, by simp [evalC, pure, Except.pure]⟩
  | .sig i, h, _ => by
    simp only [simple, okSig] at h
    cases hs : sigs[i]? with
    | none => simp [hs] at h
    | some s =>
      simp only [hs, beq_iff_eq] at h
      obtain ⟨v, hv⟩ := rdWord_ok sigs st hst i s hs
      exact ⟨v, by simp [evalC, getSig, hs, h, hv, bind, Except.bind, pure, Except.pure]⟩
  | .cat es, h, _ => by
    simp only [simple] at h
    obtain ⟨p, hp⟩ := evalCat_ok sigs st hst es h
    exact ⟨p.1, by simp [evalC, hp, bind, Except.bind, pure, Except.pure]⟩
  | .rep (.num nw nv) es, h, _ => by
    simp only [simple] at h
    obtain ⟨p, hp⟩ := evalCat_ok sigs st hst es h
    exact ⟨repVal p.2 p.1 nv, by simp [evalC, hp, constNat, bind, Except.bind, pure, Except.pure]⟩
  | .un op e, h, W => by
    simp only [simple] at h
    obtain ⟨w, hw⟩ := selfW_ok sigs e h
    obtain ⟨x, hx⟩ := evalC_ok sigs st hst e h W
    obtain ⟨y, hy⟩ := evalC_ok sigs st hst e h w
    cases op <;> simp [evalC, hw, hx, hy, bind, Except.bind, pure, Except.pure]
  | .bin op a b, h, W => by
    simp only [simple, Bool.and_eq_true, bne_iff_ne, ne_eq] at h
    obtain ⟨wa, hwa⟩ := selfW_ok sigs a h.1.2
    obtain ⟨wb, hwb⟩ := selfW_ok sigs b h.2
    obtain ⟨x, hx⟩ := evalC_ok sigs st hst a h.1.2 W
    obtain ⟨y, hy⟩ := evalC_ok sigs st hst b h.2 W
    obtain ⟨x1, hx1⟩ := evalC_ok sigs st hst a h.1.2 wa
    obtain ⟨y1, hy1⟩ := evalC_ok sigs st hst b h.2 wb
    obtain ⟨x2, hx2⟩ := evalC_ok sigs st hst a h.1.2 (max wa wb)
    obtain ⟨y2, hy2⟩ := evalC_ok sigs st hst b h.2 (max wa wb)
    cases op <;> simp [evalC, hwa, hwb, hx, hy, hx1, hy1, hx2, hy2, bind, Except.bind, pure, Except.pure] at h ⊢
  | .cond c a b, h, W => by
    simp only [simple, Bool.and_eq_true] at h
    obtain ⟨wc, hwc⟩ := selfW_ok sigs c h.1.1
    obtain ⟨cv, hcv⟩ := evalC_ok sigs st hst c h.1.1 wc
    obtain ⟨x, hx⟩ := evalC_ok sigs st hst a h.1.2 W
    obtain ⟨y, hy⟩ := evalC_ok sigs st hst b h.2 W
    by_cases hc : (cv != 0) = true
    · exact ⟨x, by simp [evalC, hwc, hcv, hc, hx, bind, Except.bind]⟩
    · exact ⟨y, by simp [evalC, hwc, hcv, hc, hy, bind, Except.bind]⟩
theorem evalCat_ok (sigs : Array Sig) (st : State) (hst : StateOk sigs st) :
    ∀ (es : List Expr), simpleL sigs es = true → ∃ p, evalCat sigs st es = .ok p
  | [], _ => ⟨(0, 0), by simp [evalCat, pure, Except.pure]⟩
  | e :: es, h => by
    simp only [simpleL, Bool.and_eq_true] at h
    obtain ⟨w, hw⟩ := selfW_ok sigs e h.1
    obtain ⟨v, hv⟩ := evalC_ok sigs st hst e h.1 w
    obtain ⟨p, hp⟩ := evalCat_ok sigs st hst es h.2
    exact ⟨(v * pow2 p.2 + p.1, w + p.2), by simp [evalCat, hw, hv, hp, bind, Except.bind, pure, Except.pure]⟩
end

end BMV.Vlog
