/-
  BMV.Proofs.QuantumUnitary — unitarity (M · M† = I) for C14, over every lawful commutative semiring
  `R` with a conjugation `c : R → R` that is a semiring homomorphism.

  * `isUnitary_mmul`, `isUnitary_id`, `isUnitary_congr`  products / identity / entries on the range
  * `embed_unitary`  (ANY n, any arity): the embedding of a unitary gate on distinct declared qubits is
    unitary — the 2^n-term sum of (embed g · embed g†) is re-indexed to the 2^a-term sum of g · g†
    through `setb` (write the bits of a gate-local index into a basis index)
  * `Uref_unitary`   (ANY n): the circuit's unitary is unitary
-/
import BMV.Proofs.Quantum

namespace BMV.Quantum
open MulOps Ops

/-- `c` is a semiring homomorphism (complex conjugation in the intended reading) -/
structure ConjHom {R : Type} [Ops R] (c : R → R) : Prop where
  map_mul : ∀ a b, c (mul a b) = mul (c a) (c b)
  map_add : ∀ a b, c (add a b) = add (c a) (c b)
  map_one : c one = one
  map_zero : c zero = zero

/-- conjugate transpose -/
def dagger {R : Type} (c : R → R) (M : Mat R) : Mat R := fun i j => c (M j i)

/-- `M · M† = I` on the `N × N` range (the property's `M*M^dagger ~= I`) -/
def IsUnitary {R : Type} [Ops R] (N : Nat) (c : R → R) (M : Mat R) : Prop :=
  EqOn N (mmul N M (dagger c M)) idMat

section general
variable {R : Type} [Ops R] [Lawful R] {c : R → R}

theorem conj_sumN (hc : ConjHom c) (f : Nat → R) (N : Nat) :
    c (sumN f N) = sumN (fun k => c (f k)) N := by
  induction N with
  | zero => exact hc.map_zero
  | succ N ih => simp only [sumN, hc.map_add, ih]

theorem dagger_mmul (hc : ConjHom c) (N : Nat) (A B : Mat R) :
    dagger c (mmul N A B) = mmul N (dagger c B) (dagger c A) := by
  funext i j
  simp only [dagger, mmul, conj_sumN hc]
  exact sumN_congr N (fun k _ => by rw [hc.map_mul, Lawful.mul_comm])

theorem dagger_congr (N : Nat) {A B : Mat R} (h : EqOn N A B) : EqOn N (dagger c A) (dagger c B) :=
  fun i j hi hj => by simp only [dagger, h j i hj hi]

theorem isUnitary_congr (N : Nat) {A B : Mat R} (h : EqOn N A B) (hB : IsUnitary N c B) :
    IsUnitary N c A :=
  (mmul_congr N h (dagger_congr N h)).trans hB

theorem isUnitary_id (hc : ConjHom c) (N : Nat) : IsUnitary N c (idMat : Mat R) := by
  refine (mmul_id_left N _).trans ?_
  intro i j _ _
  simp only [dagger, idMat]
  by_cases h : i = j
  · rw [if_pos h.symm, if_pos h, hc.map_one]
  · rw [if_neg (fun e => h e.symm), if_neg h, hc.map_zero]

theorem isUnitary_mmul (hc : ConjHom c) (N : Nat) {A B : Mat R} (hA : IsUnitary N c A)
    (hB : IsUnitary N c B) : IsUnitary N c (mmul N A B) := by
  unfold IsUnitary at *
  rw [dagger_mmul hc, mmul_assoc, ← mmul_assoc N B]
  refine (mmul_congr N (EqOn.refl N A) ((mmul_congr N hB (EqOn.refl N _)).trans (mmul_id_left N _))).trans hA

/-! ### writing a gate-local index into a basis index -/

def putBit (i p : Nat) (v : Bool) : Nat := mix (2 ^ p) i (if v then 2 ^ p else 0)

theorem testBit_putBit (i p q : Nat) (v : Bool) :
    (putBit i p v).testBit q = if q = p then v else i.testBit q := by
  simp only [putBit, testBit_mix, Nat.testBit_two_pow]
  by_cases h : p = q
  · subst h
    cases v <;> simp
  · have h' : ¬ q = p := fun e => h e.symm
    simp [h, h']

theorem putBit_lt (n i p : Nat) (v : Bool) (hi : i < 2 ^ n) (hp : p < n) : putBit i p v < 2 ^ n := by
  apply mix_lt n _ i _ hi
  cases v
  · simp
  · simpa using Nat.pow_lt_pow_right (by omega : 1 < 2) hp

/-- the basis index `i` with the low `args.length` bits of `b` written on the qubits `args`
    (first argument = most significant) -/
def setb (n : Nat) : List Nat → Nat → Nat → Nat
  | [], _, i => i
  | a :: as, b, i => setb n as b (putBit i (n - 1 - a) (b.testBit as.length))

theorem qbit_setb_out (n : Nat) : ∀ (args : List Nat) (b i a' : Nat), a' < n → (∀ x ∈ args, x < n) →
    a' ∉ args → qbit n a' (setb n args b i) = qbit n a' i := by
  intro args
  induction args with
  | nil => intro b i a' _ _ _; rfl
  | cons a as ih =>
    intro b i a' ha' hlt hnm
    simp only [setb]
    rw [ih b _ a' ha' (fun x hx => hlt x (by simp [hx])) (fun h => hnm (by simp [h]))]
    simp only [qbit, testBit_putBit]
    have hne : a' ≠ a := fun e => hnm (by simp [e])
    have ha := hlt a (by simp)
    rw [if_neg (by omega)]

theorem setb_lt (n : Nat) : ∀ (args : List Nat) (b i : Nat), i < 2 ^ n → (∀ x ∈ args, x < n) →
    setb n args b i < 2 ^ n := by
  intro args
  induction args with
  | nil => intro b i hi _; exact hi
  | cons a as ih =>
    intro b i hi hlt
    simp only [setb]
    apply ih
    · exact putBit_lt n i _ _ hi (by have := hlt a (by simp); omega)
    · exact fun x hx => hlt x (by simp [hx])

theorem locIdx_cons (n a : Nat) (as : List Nat) (x : Nat) :
    locIdx n (a :: as) x = (qbit n a x).toNat * 2 ^ as.length + locIdx n as x := by
  have := locIdx_append n x [a] as
  simpa [locIdx_single] using this

theorem locIdx_setb (n : Nat) : ∀ (args : List Nat) (b i : Nat), (∀ x ∈ args, x < n) → args.Nodup →
    locIdx n args (setb n args b i) = b % 2 ^ args.length := by
  intro args
  induction args with
  | nil => intro b i _ _; simp [locIdx, Nat.mod_one]
  | cons a as ih =>
    intro b i hlt hnd
    have hlt' : ∀ x ∈ as, x < n := fun x hx => hlt x (by simp [hx])
    have ha := hlt a (by simp)
    rw [List.nodup_cons] at hnd
    rw [locIdx_cons]
    simp only [setb]
    rw [ih b _ hlt' hnd.2, qbit_setb_out n as b _ a ha hlt' hnd.1]
    simp only [qbit, testBit_putBit, if_true, List.length_cons]
    rw [Nat.mod_pow_succ, Nat.toNat_testBit]
    rw [Nat.mul_comm, Nat.add_comm]

theorem locIdx_inj (n : Nat) : ∀ (args : List Nat) (x y : Nat), locIdx n args x = locIdx n args y →
    ∀ a ∈ args, qbit n a x = qbit n a y := by
  intro args
  induction args with
  | nil => intro x y _ a ha; cases ha
  | cons a as ih =>
    intro x y h a' ha'
    rw [locIdx_cons, locIdx_cons] at h
    have hx := locIdx_lt n x as
    have hy := locIdx_lt n y as
    have hbit : qbit n a x = qbit n a y := by
      cases hqx : qbit n a x <;> cases hqy : qbit n a y <;> simp [hqx, hqy] at h ⊢ <;> omega
    have hrest : locIdx n as x = locIdx n as y := by
      rw [hbit] at h; omega
    simp only [List.mem_cons] at ha'
    rcases ha' with e | e
    · subst e; exact hbit
    · exact ih x y hrest a' e

theorem agree_refl (n : Nat) (A : List Nat) (i : Nat) : agreeOut n A i i = true := by
  rw [agreeOut_iff]; intro a _; exact Or.inr rfl

theorem agree_symm (n : Nat) (A : List Nat) (i j : Nat) (h : agreeOut n A i j = true) :
    agreeOut n A j i = true := by
  rw [agreeOut_iff] at *
  intro a ha; rcases h a ha with h1 | h1
  · exact Or.inl h1
  · exact Or.inr h1.symm

theorem agree_trans (n : Nat) (A : List Nat) (i j k : Nat) (h1 : agreeOut n A i j = true)
    (h2 : agreeOut n A j k = true) : agreeOut n A i k = true := by
  rw [agreeOut_iff] at *
  intro a ha
  rcases h1 a ha with e1 | e1
  · exact Or.inl e1
  · rcases h2 a ha with e2 | e2
    · exact Or.inl e2
    · exact Or.inr (e1.trans e2)

theorem agree_setb (n : Nat) (A : List Nat) (b i : Nat) (hlt : ∀ x ∈ A, x < n) :
    agreeOut n A i (setb n A b i) = true := by
  rw [agreeOut_iff]
  intro a ha
  by_cases hm : a ∈ A
  · exact Or.inl hm
  · exact Or.inr (qbit_setb_out n A b i a ha hlt hm).symm

/-- two indices that agree outside `A` and have the same bits on `A` are equal -/
theorem eq_of_agree_of_locIdx (n : Nat) (A : List Nat) (x y : Nat) (hx : x < 2 ^ n) (hy : y < 2 ^ n)
    (hag : agreeOut n A x y = true) (hl : locIdx n A x = locIdx n A y) : x = y := by
  apply Nat.eq_of_testBit_eq
  intro p
  by_cases hp : p < n
  · have ha : n - 1 - p < n := by omega
    have e : n - 1 - (n - 1 - p) = p := by omega
    rcases (agreeOut_iff n A x y).mp hag _ ha with h | h
    · have := locIdx_inj n A x y hl _ h
      simpa [qbit, e] using this
    · simpa [qbit, e] using h
  · have h2' : 2 ^ n ≤ 2 ^ p := Nat.pow_le_pow_right (by omega) (by omega)
    rw [Nat.testBit_lt_two_pow (Nat.lt_of_lt_of_le hx h2'),
      Nat.testBit_lt_two_pow (Nat.lt_of_lt_of_le hy h2')]

theorem eq_setb_of_agree (n : Nat) (A : List Nat) (i k : Nat) (hi : i < 2 ^ n) (hk : k < 2 ^ n)
    (hlt : ∀ x ∈ A, x < n) (hnd : A.Nodup) (hag : agreeOut n A i k = true) :
    k = setb n A (locIdx n A k) i := by
  apply eq_of_agree_of_locIdx n A k _ hk (setb_lt n A _ i hi hlt)
  · exact agree_trans n A k i _ (agree_symm n A i k hag) (agree_setb n A _ i hlt)
  · rw [locIdx_setb n A _ i hlt hnd, Nat.mod_eq_of_lt (locIdx_lt n k A)]

/-- re-indexing: a sum over the basis indices that agree with `i` outside `A` is a sum over the
    gate-local indices -/
theorem sum_reindex (n : Nat) (A : List Nat) (i : Nat) (hi : i < 2 ^ n) (hlt : ∀ x ∈ A, x < n)
    (hnd : A.Nodup) (h : Nat → R) :
    sumN (fun k => if agreeOut n A i k = true then h (locIdx n A k) else zero) (2 ^ n)
      = sumN h (2 ^ A.length) := by
  have e1 : sumN h (2 ^ A.length)
      = sumN (fun b => sumN (fun k => if k = setb n A b i then h b else zero) (2 ^ n)) (2 ^ A.length) := by
    apply sumN_congr
    intro b _
    rw [sumN_single (2 ^ n) (setb n A b i) (setb_lt n A b i hi hlt) (fun k _ hne => by rw [if_neg hne])]
    rw [if_pos rfl]
  rw [e1, sumN_comm]
  apply sumN_congr
  intro k hk
  by_cases hag : agreeOut n A i k = true
  · rw [if_pos hag]
    have hkeq := eq_setb_of_agree n A i k hi hk hlt hnd hag
    rw [sumN_single (2 ^ A.length) (locIdx n A k) (locIdx_lt n k A)]
    · rw [if_pos hkeq]
    · intro b hb hne
      rw [if_neg]
      intro e
      apply hne
      have := congrArg (locIdx n A) e
      rw [locIdx_setb n A b i hlt hnd, Nat.mod_eq_of_lt hb] at this
      exact this.symm
  · rw [if_neg hag]
    rw [sumN_congr (2 ^ A.length) (g := fun _ => zero) (fun b _ => by
      rw [if_neg]
      intro e
      apply hag
      rw [e]
      exact agree_setb n A b i hlt)]
    exact (sumN_zero _).symm

/-- **embedding preserves unitarity** (any n, any arity) -/
theorem embed_unitary (hc : ConjHom c) (n : Nat) (g : Gate R) (hlt : ∀ x ∈ g.args, x < n)
    (hnd : g.args.Nodup) (hu : IsUnitary (2 ^ g.args.length) c g.m) :
    IsUnitary (2 ^ n) c (embed n g) := by
  intro i j hi hj
  simp only [mmul, dagger]
  by_cases hag : agreeOut n g.args i j = true
  · -- same block: re-index to the gate's own sum
    have hT : ∀ k, k < 2 ^ n → mul (embed n g i k) (c (embed n g j k))
        = if agreeOut n g.args i k = true then
            (fun b => mul (g.m (locIdx n g.args i) b) (c (g.m (locIdx n g.args j) b))) (locIdx n g.args k)
          else zero := by
      intro k _
      simp only [embed]
      by_cases h1 : agreeOut n g.args i k = true
      · have h2 : agreeOut n g.args j k = true := agree_trans n _ j i k (agree_symm n _ i j hag) h1
        rw [if_pos h1, if_pos h2, if_pos h1]
      · rw [if_neg h1, if_neg h1, Lawful.zero_mul]
    rw [sumN_congr _ hT, sum_reindex n g.args i hi hlt hnd
      (fun b => mul (g.m (locIdx n g.args i) b) (c (g.m (locIdx n g.args j) b)))]
    have := hu (locIdx n g.args i) (locIdx n g.args j) (locIdx_lt n i _) (locIdx_lt n j _)
    simp only [mmul, dagger] at this
    rw [this]
    simp only [idMat]
    by_cases hij : i = j
    · subst hij; rw [if_pos rfl, if_pos rfl]
    · rw [if_neg hij, if_neg]
      intro hl
      exact hij (eq_of_agree_of_locIdx n g.args i j hi hj hag hl)
  · -- different blocks: every term vanishes
    have hij : i ≠ j := by
      intro e; subst e; exact hag (agree_refl n _ i)
    simp only [idMat, if_neg hij]
    rw [sumN_congr (2 ^ n) (g := fun _ => zero) (fun k _ => by
      simp only [embed]
      by_cases h1 : agreeOut n g.args i k = true
      · have h2 : ¬ agreeOut n g.args j k = true := fun h2 =>
          hag (agree_trans n _ i k j h1 (agree_symm n _ j k h2))
        rw [if_neg h2, hc.map_zero, mul_zero']
      · rw [if_neg h1, Lawful.zero_mul])]
    exact sumN_zero _

/-- a unitary gate of the supported shapes on declared qubits -/
def UnitaryGate (n : Nat) (c : R → R) (g : Gate R) : Prop :=
  OkGate n g ∧ IsUnitary (2 ^ g.args.length) c g.m

/-- **the circuit's unitary is unitary** (any n) -/
theorem Uref_unitary (hc : ConjHom c) (n : Nat) (gs : List (Gate R))
    (hg : ∀ g ∈ gs, (∀ x ∈ g.args, x < n) ∧ g.args.Nodup ∧ IsUnitary (2 ^ g.args.length) c g.m) :
    IsUnitary (2 ^ n) c (Uref n gs) := by
  unfold Uref
  have gen : ∀ (gs : List (Gate R)) (U : Mat R),
      (∀ g ∈ gs, (∀ x ∈ g.args, x < n) ∧ g.args.Nodup ∧ IsUnitary (2 ^ g.args.length) c g.m) →
      IsUnitary (2 ^ n) c U →
      IsUnitary (2 ^ n) c (gs.foldl (fun U g => mmul (2 ^ n) (embed n g) U) U) := by
    intro gs
    induction gs with
    | nil => intro U _ hU; exact hU
    | cons g gs ih =>
      intro U hg hU
      apply ih _ (fun g' h => hg g' (by simp [h]))
      obtain ⟨h1, h2, h3⟩ := hg g (by simp)
      exact isUnitary_mmul hc _ (embed_unitary hc n g h1 h2 h3) hU
  exact gen gs idMat hg (isUnitary_id hc _)

theorem prodMats_unitary (hc : ConjHom c) (N : Nat) (ms : List (Mat R))
    (h : ∀ m ∈ ms, IsUnitary N c m) : IsUnitary N c (prodMats N ms) := by
  unfold prodMats
  have gen : ∀ (ms : List (Mat R)) (P : Mat R), (∀ m ∈ ms, IsUnitary N c m) → IsUnitary N c P →
      IsUnitary N c (ms.foldl (fun P m => mmul N m P) P) := by
    intro ms
    induction ms with
    | nil => intro P _ hP; exact hP
    | cons m ms ih =>
      intro P hm hP
      exact ih _ (fun m' h' => hm m' (by simp [h'])) (isUnitary_mmul hc N (hm m (by simp)) hP)
  exact gen ms idMat h (isUnitary_id hc N)

theorem compileMats_mem (n : Nat) : ∀ (ls : List (List (Gate R))) (Ms : List (DMat R)),
    compileMats false n ls = some Ms → ∀ M ∈ Ms, ∃ l ∈ ls, layer false n l = some M := by
  intro ls
  induction ls with
  | nil => intro Ms h M hM; simp [compileMats] at h; subst h; cases hM
  | cons l ls ih =>
    intro Ms h M hM
    simp only [compileMats] at h
    cases hl : layer false n l with
    | none => rw [hl] at h; cases h
    | some m =>
      cases hr : compileMats false n ls with
      | none => rw [hl, hr] at h; cases h
      | some ms =>
        rw [hl, hr] at h
        cases h
        simp only [List.mem_cons] at hM
        rcases hM with e | e
        · subst e; exact ⟨l, by simp, hl⟩
        · obtain ⟨l', hl', hM'⟩ := ih ms hr M e
          exact ⟨l', by simp [hl'], hM'⟩

end general
end BMV.Quantum
