/-
  Helper lemmas for C01: the Go simulator's slicing (`Isa.field`, drop/take + get_id) and the
  HDL's part-selects (`Rtl.part`, div/mod) read the same numbers.
-/
import BMV.Isa
import BMV.Rtl
import BMV.Proofs.Bits
import BMV.Proofs.Encode
namespace BMV.Refine
open BMV BMV.Bits

/-- field `off..off+wd` of the operand part of a `W`-bit word = part-select at `opBits+off` -/
theorem field_eq_part (w : Bits) (W ob off wd : Nat) (hW : w.length = W) (hfit : ob + off + wd ≤ W) :
    Isa.field (w.drop ob) off wd = Rtl.part (getId w) W (ob + off) wd := by
  unfold Isa.field Rtl.part
  rw [List.drop_drop]
  have := slice_eq_extract w (ob + off) wd (by omega)
  rw [hW] at this
  exact this

/-- the opcode index read by `Decode_opcode` = the selector of the HDL's outer `case` -/
theorem opcode_eq_part (w : Bits) (W ob : Nat) (hW : w.length = W) (hfit : ob ≤ W) :
    getId (w.take ob) = Rtl.part (getId w) W 0 ob := by
  unfold Rtl.part
  have := slice_eq_extract w 0 ob (by omega)
  simp only [List.drop_zero, Nat.sub_zero] at this
  rw [hW] at this
  simpa using this

theorem field_lt (body : Bits) (off wd : Nat) : Isa.field body off wd < 2 ^ wd := by
  unfold Isa.field
  have := getId_lt ((body.drop off).take wd)
  have hl : ((body.drop off).take wd).length ≤ wd := by simp; omega
  exact Nat.lt_of_lt_of_le this (Nat.pow_le_pow_right (by omega) hl)

theorem fetch_eq {prog : List Bits} {pc : Nat} {w : Bits} (h : prog[pc]? = some w) :
    Rtl.fetch prog pc = getId w := by
  unfold Rtl.fetch; rw [h]

/-- instruction length of an opcode of the machine fits the word -/
theorem instr_fits (a : Arch) (hws : a.wordSize = 0) {idx : Nat} {op : String}
    (hop : a.ops[idx]? = some op) : a.instrLen op ≤ a.maxWord := by
  unfold Arch.maxWord
  simp only [hws, if_true]
  exact (Encode.foldl_max_ge _ 1).2 _ (List.mem_map.mpr ⟨op, List.mem_of_getElem? hop, rfl⟩)

/-- architectural state compared at retire points: pc, register file, output-port values -/
def Rel (s : VmState) (h : RtlState) : Prop :=
  s.pc = h.pc ∧ s.regs = h.regs ∧ s.outputs = h.auxo

/-- opcodes whose HDL arm retires in the clock it is selected in (everything but i2rw / r2owa) -/
def lockstepOps : List String :=
  ["nop", "rset", "inc", "dec", "clr", "add", "mult", "div", "cpy", "and", "or", "xor", "nand", "nor",
   "xnor", "not", "mod", "j", "jz", "i2r", "r2o"]

/-- register sizes at which both back-ends implement the opcode -/
def coWidth (op : String) (rs : Nat) : Prop :=
  if op ∈ ["and", "or", "xor", "nand", "nor", "xnor", "not", "mod"] then Isa.smallSize rs = true
  else Isa.stdSize rs = true

theorem unop_agree (op : String) (rs x v : Nat) (h : Isa.unop op rs x = some v) : Rtl.unop op rs x = v := by
  unfold Isa.unop at h
  unfold Rtl.unop
  split at h
  · cases h
  · split at h
    · rename_i h1; simp [h1] at h ⊢; exact h
    · split at h
      · rename_i h1 h2; simp [h2] at h ⊢; exact h
      · split at h
        · rename_i h1 h2 h3; simp [h3] at h ⊢; exact h
        · cases h

theorem binop_agree (op : String) (rs d s v : Nat) (hop : op ∈ Rtl.binops) (hw : coWidth op rs)
    (h : Isa.binop op rs d s = some v) : Rtl.binop op rs d s = v := by
  simp only [Rtl.binops, List.mem_cons, List.not_mem_nil, or_false] at hop
  rcases hop with rfl | rfl | rfl | rfl | rfl | rfl | rfl | rfl | rfl | rfl | rfl | rfl <;>
    simp [coWidth] at hw <;>
    simp [Isa.binop, Rtl.binop, hw] at h ⊢ <;>
    first
    | (rw [Nat.add_comm]; exact h)
    | (rw [Nat.mul_comm]; exact h)
    | exact h.2
    | (rw [if_neg h.1]; exact h.2)
    | (rw [Nat.and_comm]; exact h)
    | (rw [Nat.or_comm]; exact h)
    | (rw [Nat.xor_comm]; exact h)
    | exact h

theorem runDeferred_arch (s : VmState) :
    (Isa.runDeferred s).pc = s.pc ∧ (Isa.runDeferred s).regs = s.regs ∧
    (Isa.runDeferred s).outputs = s.outputs ∧ (Isa.runDeferred s).inputs = s.inputs := by
  simp [Isa.runDeferred]

/-- widths of the operand fields of the lock-step opcodes, as instruction length facts -/
theorem len_unop (a : Arch) (op : String) (h : op ∈ Rtl.unops) : a.instrLen op = a.opBits + a.r := by
  simp only [Rtl.unops, List.mem_cons, List.not_mem_nil, or_false] at h
  rcases h with rfl | rfl | rfl <;> simp [Arch.instrLen, declLayout, layout, modeOk, Arch.width]

theorem len_binop (a : Arch) (op : String) (h : op ∈ Rtl.binops) : a.instrLen op = a.opBits + (a.r + a.r) := by
  simp only [Rtl.binops, List.mem_cons, List.not_mem_nil, or_false] at h
  rcases h with rfl | rfl | rfl | rfl | rfl | rfl | rfl | rfl | rfl | rfl | rfl | rfl <;>
    simp [Arch.instrLen, declLayout, layout, modeOk, Arch.width]

/-- Hypotheses under which one simulator step and one clock are compared. -/
structure StepHyp (a : Arch) (prog : List Bits) (s : VmState) (h : RtlState) (p : PortsIn)
    (w : Bits) (op : String) (s' : VmState) : Prop where
  mode : a.mode = .ha
  ws : a.wordSize = 0
  wlen : w.length = a.maxWord
  regsLen : s.regs.length = 2 ^ a.r
  inLen : s.inputs.length = a.n
  outLen : s.outputs.length = a.m
  rel : Rel s h
  env : p.inputs = s.inputs
  fetch : prog[s.pc]? = some w
  decode : a.ops[getId (w.take a.opBits)]? = some op
  lock : op ∈ lockstepOps
  width : coWidth op a.rsize
  step : Isa.step a prog s = some s'
  noFall : s'.pc < 2 ^ a.o
  jumpIn : op = "j" → Isa.field (w.drop a.opBits) 0 a.o < prog.length

theorem step_exec {a : Arch} {prog : List Bits} {s : VmState} {h : RtlState} {p : PortsIn}
    {w : Bits} {op : String} {s' : VmState} (H : StepHyp a prog s h p w op s') :
    Isa.exec a prog.length op (w.drop a.opBits) (Isa.runDeferred s) = some s' := by
  have hs := H.step
  unfold Isa.step at hs
  have hpc : ¬ s.pc > prog.length := by
    have := (List.getElem?_eq_some_iff.mp H.fetch).1; omega
  simp only [hpc, if_false, (runDeferred_arch s).1, H.fetch, H.decode] at hs
  exact hs

theorem curOp_eq {a : Arch} {prog : List Bits} {s : VmState} {h : RtlState} {p : PortsIn}
    {w : Bits} {op : String} {s' : VmState} (H : StepHyp a prog s h p w op s') :
    Rtl.curOp a (getId w) = some op := by
  unfold Rtl.curOp
  have hob : a.opBits ≤ a.maxWord := by
    have := instr_fits a H.ws H.decode
    have hl : a.opBits ≤ a.instrLen op := by
      have hm := H.lock
      simp only [lockstepOps, List.mem_cons, List.not_mem_nil, or_false] at hm
      rcases hm with rfl | rfl | rfl | rfl | rfl | rfl | rfl | rfl | rfl | rfl | rfl | rfl | rfl | rfl | rfl | rfl | rfl | rfl | rfl | rfl | rfl <;>
        simp [Arch.instrLen, declLayout, layout, modeOk]
    omega
  rw [← opcode_eq_part w a.maxWord a.opBits H.wlen hob]
  exact H.decode

theorem getD_of_getElem? {α} {l : List α} {k : Nat} {x d : α} (h : l[k]? = some x) : l.getD k d = x := by
  simp [List.getD, h]

theorem rel_cycle {a : Arch} {prog : List Bits} {s' : VmState} {h : RtlState} {p : PortsIn}
    (hr : Rel s' (Rtl.mainBlock a (Rtl.fetch prog h.pc) h p)) : Rel s' (Rtl.cycle a prog h p) := hr

theorem exec_unop (a : Arch) (n : Nat) (op : String) (body : Bits) (s : VmState) (hop : op ∈ Rtl.unops) :
    Isa.exec a n op body s =
      (s.regs[Isa.field body 0 a.r]?).bind fun x => (Isa.unop op a.rsize x).map fun v =>
        { s with pc := s.pc + 1, regs := s.regs.set (Isa.field body 0 a.r) v } := by
  simp only [Rtl.unops, List.mem_cons, List.not_mem_nil, or_false] at hop
  rcases hop with rfl | rfl | rfl <;>
  · simp only [Isa.exec]
    simp
    cases s.regs[Isa.field body 0 a.r]? with
    | none => rfl
    | some x => simp only [Option.bind_some]; cases Isa.unop _ a.rsize x <;> rfl

theorem main_unop (a : Arch) (cur : Nat) (op : String) (h : RtlState) (p : PortsIn)
    (hcur : Rtl.curOp a cur = some op) (hop : op ∈ Rtl.unops) :
    Rtl.mainBlock a cur h p =
      { h with pc := (h.pc + 1) % 2 ^ a.o,
               regs := h.regs.set (Rtl.part cur a.maxWord a.opBits a.r)
                 (Rtl.unop op a.rsize (h.regs.getD (Rtl.part cur a.maxWord a.opBits a.r) 0)) } := by
  simp only [Rtl.unops, List.mem_cons, List.not_mem_nil, or_false] at hop
  rcases hop with rfl | rfl | rfl <;> simp [Rtl.mainBlock, hcur, Rtl.unops]

theorem refine_unop {a : Arch} {prog : List Bits} {s : VmState} {h : RtlState} {p : PortsIn}
    {w : Bits} {op : String} {s' : VmState} (H : StepHyp a prog s h p w op s') (hop : op ∈ Rtl.unops) :
    Rel s' (Rtl.cycle a prog h p) := by
  have hex := step_exec H
  have hcur := curOp_eq H
  obtain ⟨rpc, rregs, rout⟩ := H.rel
  obtain ⟨dpc, dregs, dout, _⟩ := runDeferred_arch s
  have hfit : a.opBits + a.r ≤ a.maxWord := by
    have := instr_fits a H.ws H.decode; rw [len_unop a op hop] at this; exact this
  have hk := field_eq_part w a.maxWord a.opBits 0 a.r H.wlen (by omega)
  simp only [Nat.add_zero] at hk
  rw [exec_unop a _ op _ _ hop, dregs] at hex
  cases hx : s.regs[Isa.field (w.drop a.opBits) 0 a.r]? with
  | none => simp [hx] at hex
  | some x =>
    simp only [hx, Option.bind_some] at hex
    cases hv : Isa.unop op a.rsize x with
    | none => simp [hv] at hex
    | some v =>
      simp only [hv, Option.map_some, Option.some.injEq] at hex
      have hnf := H.noFall
      rw [← hex] at hnf ⊢
      simp only [dpc] at hnf
      apply rel_cycle
      rw [← rpc, fetch_eq H.fetch, main_unop a _ op h p hcur hop]
      refine ⟨?_, ?_, ?_⟩
      · simp only [dpc]; rw [← rpc, Nat.mod_eq_of_lt hnf]
      · simp only
        rw [← hk, ← rregs, getD_of_getElem? hx, unop_agree op a.rsize x v hv]
      · simp only [dout]; exact rout

theorem exec_binop (a : Arch) (n : Nat) (op : String) (body : Bits) (s : VmState) (hop : op ∈ Rtl.binops) :
    Isa.exec a n op body s =
      (s.regs[Isa.field body 0 a.r]?).bind fun d => (s.regs[Isa.field body a.r a.r]?).bind fun sv =>
        (Isa.binop op a.rsize d sv).map fun v =>
          { s with pc := s.pc + 1, regs := s.regs.set (Isa.field body 0 a.r) v } := by
  simp only [Rtl.binops, List.mem_cons, List.not_mem_nil, or_false] at hop
  rcases hop with rfl | rfl | rfl | rfl | rfl | rfl | rfl | rfl | rfl | rfl | rfl | rfl <;>
  · simp only [Isa.exec]
    simp
    cases s.regs[Isa.field body 0 a.r]? with
    | none => rfl
    | some d =>
      simp only [Option.bind_some]
      cases s.regs[Isa.field body a.r a.r]? with
      | none => rfl
      | some sv => simp only [Option.bind_some]; cases Isa.binop _ a.rsize d sv <;> rfl

theorem main_binop (a : Arch) (cur : Nat) (op : String) (h : RtlState) (p : PortsIn)
    (hcur : Rtl.curOp a cur = some op) (hop : op ∈ Rtl.binops) :
    Rtl.mainBlock a cur h p =
      { h with pc := (h.pc + 1) % 2 ^ a.o,
               regs := h.regs.set (Rtl.part cur a.maxWord a.opBits a.r)
                 (Rtl.binop op a.rsize (h.regs.getD (Rtl.part cur a.maxWord a.opBits a.r) 0)
                    (h.regs.getD (Rtl.part cur a.maxWord (a.opBits + a.r) a.r) 0)) } := by
  simp only [Rtl.binops, List.mem_cons, List.not_mem_nil, or_false] at hop
  rcases hop with rfl | rfl | rfl | rfl | rfl | rfl | rfl | rfl | rfl | rfl | rfl | rfl <;>
    simp [Rtl.mainBlock, hcur, Rtl.unops, Rtl.binops]

theorem refine_binop {a : Arch} {prog : List Bits} {s : VmState} {h : RtlState} {p : PortsIn}
    {w : Bits} {op : String} {s' : VmState} (H : StepHyp a prog s h p w op s') (hop : op ∈ Rtl.binops) :
    Rel s' (Rtl.cycle a prog h p) := by
  have hex := step_exec H
  have hcur := curOp_eq H
  obtain ⟨rpc, rregs, rout⟩ := H.rel
  obtain ⟨dpc, dregs, dout, _⟩ := runDeferred_arch s
  have hfit : a.opBits + (a.r + a.r) ≤ a.maxWord := by
    have := instr_fits a H.ws H.decode; rw [len_binop a op hop] at this; exact this
  have hk := field_eq_part w a.maxWord a.opBits 0 a.r H.wlen (by omega)
  have hk2 := field_eq_part w a.maxWord a.opBits a.r a.r H.wlen (by omega)
  simp only [Nat.add_zero] at hk
  rw [exec_binop a _ op _ _ hop, dregs] at hex
  cases hx : s.regs[Isa.field (w.drop a.opBits) 0 a.r]? with
  | none => simp [hx] at hex
  | some d =>
    simp only [hx, Option.bind_some] at hex
    cases hx2 : s.regs[Isa.field (w.drop a.opBits) a.r a.r]? with
    | none => simp [hx2] at hex
    | some sv =>
      simp only [hx2, Option.bind_some] at hex
      cases hv : Isa.binop op a.rsize d sv with
      | none => simp [hv] at hex
      | some v =>
        simp only [hv, Option.map_some, Option.some.injEq] at hex
        have hnf := H.noFall
        rw [← hex] at hnf ⊢
        simp only [dpc] at hnf
        apply rel_cycle
        rw [← rpc, fetch_eq H.fetch, main_binop a _ op h p hcur hop]
        refine ⟨?_, ?_, ?_⟩
        · simp only [dpc]; rw [← rpc, Nat.mod_eq_of_lt hnf]
        · simp only
          rw [← hk, ← hk2, ← rregs, getD_of_getElem? hx, getD_of_getElem? hx2,
            binop_agree op a.rsize d sv v hop H.width hv]
        · simp only [dout]; exact rout

theorem refine_nop {a : Arch} {prog : List Bits} {s : VmState} {h : RtlState} {p : PortsIn}
    {w : Bits} {s' : VmState} (H : StepHyp a prog s h p w "nop" s') :
    Rel s' (Rtl.cycle a prog h p) := by
  have hex := step_exec H
  have hcur := curOp_eq H
  obtain ⟨rpc, rregs, rout⟩ := H.rel
  obtain ⟨dpc, dregs, dout, _⟩ := runDeferred_arch s
  simp [Isa.exec] at hex
  have hnf := H.noFall
  rw [← hex] at hnf ⊢
  simp only [dpc] at hnf
  apply rel_cycle
  rw [← rpc, fetch_eq H.fetch]
  simp only [Rtl.mainBlock, hcur]
  simp
  refine ⟨?_, ?_, ?_⟩
  · simp only [dpc]; rw [← rpc, Nat.mod_eq_of_lt hnf]
  · simp only [dregs]; exact rregs
  · simp only [dout]; exact rout

theorem refine_rset {a : Arch} {prog : List Bits} {s : VmState} {h : RtlState} {p : PortsIn}
    {w : Bits} {s' : VmState} (H : StepHyp a prog s h p w "rset" s') :
    Rel s' (Rtl.cycle a prog h p) := by
  have hex := step_exec H
  have hcur := curOp_eq H
  obtain ⟨rpc, rregs, rout⟩ := H.rel
  obtain ⟨dpc, dregs, dout, _⟩ := runDeferred_arch s
  have hfit : a.opBits + (a.r + a.rsize) ≤ a.maxWord := by
    have := instr_fits a H.ws H.decode
    simp [Arch.instrLen, declLayout, layout, modeOk, Arch.width] at this; omega
  have hk := field_eq_part w a.maxWord a.opBits 0 a.r H.wlen (by omega)
  have hv := field_eq_part w a.maxWord a.opBits a.r a.rsize H.wlen (by omega)
  simp only [Nat.add_zero] at hk
  have hw := H.width
  simp [coWidth, Isa.stdSize] at hw
  have hrs : a.rsize ≤ 64 := by omega
  simp [Isa.exec, hrs] at hex
  have hnf := H.noFall
  rw [← hex] at hnf ⊢
  simp only [dpc] at hnf
  apply rel_cycle
  rw [← rpc, fetch_eq H.fetch]
  simp only [Rtl.mainBlock, hcur]
  simp
  refine ⟨?_, ?_, ?_⟩
  · simp only [dpc]; rw [← rpc, Nat.mod_eq_of_lt hnf]
  · simp only [dregs]; rw [← hk, ← hv, rregs]
  · simp only [dout]; exact rout

theorem refine_j {a : Arch} {prog : List Bits} {s : VmState} {h : RtlState} {p : PortsIn}
    {w : Bits} {s' : VmState} (H : StepHyp a prog s h p w "j" s') :
    Rel s' (Rtl.cycle a prog h p) := by
  have hex := step_exec H
  have hcur := curOp_eq H
  obtain ⟨rpc, rregs, rout⟩ := H.rel
  obtain ⟨dpc, dregs, dout, _⟩ := runDeferred_arch s
  have hfit : a.opBits + a.o ≤ a.maxWord := by
    have := instr_fits a H.ws H.decode
    simp [Arch.instrLen, declLayout, layout, modeOk, Arch.width, Arch.locBits, H.mode] at this; omega
  have hk := field_eq_part w a.maxWord a.opBits 0 a.o H.wlen (by omega)
  simp only [Nat.add_zero] at hk
  have hj := H.jumpIn rfl
  simp [Isa.exec, Isa.pipeOps, hj] at hex
  rw [← hex]
  apply rel_cycle
  rw [← rpc, fetch_eq H.fetch]
  simp only [Rtl.mainBlock, hcur]
  simp [Rtl.unops, Rtl.binops, Rtl.pipeOps]
  refine ⟨?_, ?_, ?_⟩
  · simp only; exact hk
  · simp only [dregs]; exact rregs
  · simp only [dout]; exact rout

theorem refine_jz {a : Arch} {prog : List Bits} {s : VmState} {h : RtlState} {p : PortsIn}
    {w : Bits} {s' : VmState} (H : StepHyp a prog s h p w "jz" s') :
    Rel s' (Rtl.cycle a prog h p) := by
  have hex := step_exec H
  have hcur := curOp_eq H
  obtain ⟨rpc, rregs, rout⟩ := H.rel
  obtain ⟨dpc, dregs, dout, _⟩ := runDeferred_arch s
  have hfit : a.opBits + (a.r + a.o) ≤ a.maxWord := by
    have := instr_fits a H.ws H.decode
    simp [Arch.instrLen, declLayout, layout, modeOk, Arch.width] at this; omega
  have hk := field_eq_part w a.maxWord a.opBits 0 a.r H.wlen (by omega)
  have hv := field_eq_part w a.maxWord a.opBits a.r a.o H.wlen (by omega)
  simp only [Nat.add_zero] at hk
  have hw := H.width
  simp [coWidth] at hw
  simp only [Isa.exec] at hex
  simp [Isa.pipeOps, hw, dregs] at hex
  cases hx : s.regs[Isa.field (w.drop a.opBits) 0 a.r]? with
  | none => simp [hx] at hex
  | some x =>
    simp only [hx, Option.some.injEq] at hex
    have hnf := H.noFall
    apply rel_cycle
    rw [← rpc, fetch_eq H.fetch]
    simp only [Rtl.mainBlock, hcur]
    simp [Rtl.unops, Rtl.binops, Rtl.pipeOps]
    rw [← hk, ← rregs]
    simp only [hx, Option.getD_some]
    by_cases hz : x = 0
    · simp only [hz, if_true] at hex ⊢
      rw [← hex]
      exact ⟨hv, rfl, by simp only [dout]; exact rout⟩
    · simp only [hz, if_false] at hex ⊢
      rw [← hex] at hnf ⊢
      simp only [dpc] at hnf
      refine ⟨?_, rfl, by simp only [dout]; exact rout⟩
      simp only [dpc]; rw [← rpc, Nat.mod_eq_of_lt hnf]

theorem refine_i2r {a : Arch} {prog : List Bits} {s : VmState} {h : RtlState} {p : PortsIn}
    {w : Bits} {s' : VmState} (H : StepHyp a prog s h p w "i2r" s') :
    Rel s' (Rtl.cycle a prog h p) := by
  have hex := step_exec H
  have hcur := curOp_eq H
  obtain ⟨rpc, rregs, rout⟩ := H.rel
  obtain ⟨dpc, dregs, dout, din⟩ := runDeferred_arch s
  have hfit : a.opBits + (a.r + a.inBits) ≤ a.maxWord := by
    have := instr_fits a H.ws H.decode
    simp [Arch.instrLen, declLayout, layout, modeOk, Arch.width] at this; omega
  have hk := field_eq_part w a.maxWord a.opBits 0 a.r H.wlen (by omega)
  have hv := field_eq_part w a.maxWord a.opBits a.r a.inBits H.wlen (by omega)
  simp only [Nat.add_zero] at hk
  simp only [Isa.exec] at hex
  simp [Isa.pipeOps, dregs, din] at hex
  cases hx : s.inputs[Isa.field (w.drop a.opBits) a.r a.inBits]? with
  | none => simp [hx] at hex
  | some v =>
    simp only [hx] at hex
    have hilt : Isa.field (w.drop a.opBits) a.r a.inBits < a.n := by
      rw [← H.inLen]; exact (List.getElem?_eq_some_iff.mp hx).1
    split at hex
    · simp only [Option.some.injEq] at hex
      have hnf := H.noFall
      rw [← hex] at hnf ⊢
      simp only [dpc] at hnf
      apply rel_cycle
      rw [← rpc, fetch_eq H.fetch]
      simp only [Rtl.mainBlock, hcur]
      simp [Rtl.unops, Rtl.binops, Rtl.pipeOps]
      rw [← hk, ← hv, H.env]
      simp only [hilt, if_true, hx, Option.getD_some]
      refine ⟨?_, ?_, ?_⟩
      · simp only [dpc]; rw [← rpc, Nat.mod_eq_of_lt hnf]
      · simp only [rregs]
      · simp only [dout]; exact rout
    · cases hex

theorem refine_r2o {a : Arch} {prog : List Bits} {s : VmState} {h : RtlState} {p : PortsIn}
    {w : Bits} {s' : VmState} (H : StepHyp a prog s h p w "r2o" s') :
    Rel s' (Rtl.cycle a prog h p) := by
  have hex := step_exec H
  have hcur := curOp_eq H
  obtain ⟨rpc, rregs, rout⟩ := H.rel
  obtain ⟨dpc, dregs, dout, din⟩ := runDeferred_arch s
  have hfit : a.opBits + (a.r + a.outBits) ≤ a.maxWord := by
    have := instr_fits a H.ws H.decode
    simp [Arch.instrLen, declLayout, layout, modeOk, Arch.width] at this; omega
  have hk := field_eq_part w a.maxWord a.opBits 0 a.r H.wlen (by omega)
  have hv := field_eq_part w a.maxWord a.opBits a.r a.outBits H.wlen (by omega)
  simp only [Nat.add_zero] at hk
  simp only [Isa.exec] at hex
  simp [Isa.pipeOps, dregs, dout] at hex
  cases hx : s.regs[Isa.field (w.drop a.opBits) 0 a.r]? with
  | none => simp [hx] at hex
  | some v =>
    simp only [hx] at hex
    split at hex
    · rename_i holt
      rw [H.outLen] at holt
      simp only [Option.some.injEq] at hex
      have hnf := H.noFall
      rw [← hex] at hnf ⊢
      simp only [dpc] at hnf
      apply rel_cycle
      rw [← rpc, fetch_eq H.fetch]
      simp only [Rtl.mainBlock, hcur]
      simp [Rtl.unops, Rtl.binops, Rtl.pipeOps]
      rw [← hk, ← hv, ← rregs]
      simp only [holt, if_true, hx, Option.getD_some]
      refine ⟨?_, ?_, ?_⟩
      · simp only [dpc]; rw [← rpc, Nat.mod_eq_of_lt hnf]
      · simp only [dregs]
      · simp only [rout]
    · cases hex

/-- lock-step refinement for every opcode that retires in one clock -/
theorem refine_lockstep {a : Arch} {prog : List Bits} {s : VmState} {h : RtlState} {p : PortsIn}
    {w : Bits} {op : String} {s' : VmState} (H : StepHyp a prog s h p w op s') :
    Rel s' (Rtl.cycle a prog h p) := by
  have hm := H.lock
  simp only [lockstepOps, List.mem_cons, List.not_mem_nil, or_false] at hm
  rcases hm with rfl | rfl | h3 | h3 | h3 | h4 | h4 | h4 | h4 | h4 | h4 | h4 | h4 | h4 | h4 | h4 | h4 | rfl | rfl | rfl | rfl
  · exact refine_nop H
  · exact refine_rset H
  · exact refine_unop H (by simp [Rtl.unops, h3])
  · exact refine_unop H (by simp [Rtl.unops, h3])
  · exact refine_unop H (by simp [Rtl.unops, h3])
  · exact refine_binop H (by simp [Rtl.binops, h4])
  · exact refine_binop H (by simp [Rtl.binops, h4])
  · exact refine_binop H (by simp [Rtl.binops, h4])
  · exact refine_binop H (by simp [Rtl.binops, h4])
  · exact refine_binop H (by simp [Rtl.binops, h4])
  · exact refine_binop H (by simp [Rtl.binops, h4])
  · exact refine_binop H (by simp [Rtl.binops, h4])
  · exact refine_binop H (by simp [Rtl.binops, h4])
  · exact refine_binop H (by simp [Rtl.binops, h4])
  · exact refine_binop H (by simp [Rtl.binops, h4])
  · exact refine_binop H (by simp [Rtl.binops, h4])
  · exact refine_binop H (by simp [Rtl.binops, h4])
  · exact refine_j H
  · exact refine_jz H
  · exact refine_i2r H
  · exact refine_r2o H

theorem instrLen_prunable (a : Arch) (op : String) (h : op ∈ Rtl.prunable) : a.opBits + a.r ≤ a.instrLen op := by
  simp only [Rtl.prunable, List.mem_cons, List.not_mem_nil, or_false] at h
  rcases h with rfl | rfl | rfl | rfl <;>
    simp [Arch.instrLen, declLayout, layout, modeOk, Arch.width] <;> omega

theorem instrLen_pipe (a : Arch) (op : String) (h : op ∈ Rtl.pipeOps) : a.instrLen op = a.opBits + (a.r + a.r) := by
  simp only [Rtl.pipeOps, List.mem_cons, List.not_mem_nil, or_false] at h
  rcases h with rfl | rfl | rfl <;> simp [Arch.instrLen, declLayout, layout, modeOk, Arch.width]

theorem prunable_not_pipe {op : String} (h : op ∈ Rtl.prunable) : op ∉ Rtl.pipeOps := by
  simp only [Rtl.prunable, List.mem_cons, List.not_mem_nil, or_false] at h
  rcases h with rfl | rfl | rfl | rfl <;> decide

theorem onlyDestRegs_sound' (a : Arch) (prog : List Bits) (used : String → List Nat) (s : RtlState) (p : PortsIn)
    (hused : ∀ op k, k ∈ Rtl.destRegs a prog op → k ∈ used op)
    (husedS : ∀ op k, k ∈ Rtl.srcRegs a prog op → k ∈ used (op ++ "/src"))
    (hws : a.wordSize = 0) (hlen : ∀ w ∈ prog, w.length = a.maxWord) (hpc : s.pc < prog.length) :
    Rtl.cycleOpt a used prog s p = Rtl.cycle a prog s p := by
  unfold Rtl.cycleOpt Rtl.cycle
  have hw : prog[s.pc]? = some prog[s.pc] := List.getElem?_eq_getElem hpc
  have hmem : prog[s.pc] ∈ prog := List.getElem_mem hpc
  generalize prog[s.pc] = w at hw hmem
  rw [fetch_eq hw]
  have hW := hlen w hmem
  suffices Rtl.mainBlockOpt a used (getId w) s p = Rtl.mainBlock a (getId w) s p by
    simp only [this]
  unfold Rtl.mainBlockOpt
  cases hc : Rtl.curOp a (getId w) with
  | none => rfl
  | some op =>
    simp only
    by_cases hp : op ∈ Rtl.prunable
    · -- the selected register was recorded, so the arm was not pruned
      have hfit : a.opBits + a.r ≤ a.maxWord := by
        unfold Rtl.curOp at hc
        have := instr_fits a hws hc
        have := instrLen_prunable a op hp
        omega
      have hop : a.ops[getId (w.take a.opBits)]? = some op := by
        rw [opcode_eq_part w a.maxWord a.opBits hW (by omega)]; exact hc
      have hk := field_eq_part w a.maxWord a.opBits 0 a.r hW (by omega)
      simp only [Nat.add_zero, Isa.field, List.drop_zero] at hk
      have hin : Rtl.part (getId w) a.maxWord a.opBits a.r ∈ used op := by
        apply hused
        unfold Rtl.destRegs
        rw [List.mem_filterMap]
        exact ⟨w, hmem, by simp [hop, hk]⟩
      simp [hin, prunable_not_pipe hp]
    · by_cases hq : op ∈ Rtl.pipeOps
      · -- a pipelined opcode: both selected registers were recorded
        have hfit : a.opBits + (a.r + a.r) ≤ a.maxWord := by
          unfold Rtl.curOp at hc
          have := instr_fits a hws hc
          rw [instrLen_pipe a op hq] at this
          exact this
        have hop : a.ops[getId (w.take a.opBits)]? = some op := by
          rw [opcode_eq_part w a.maxWord a.opBits hW (by omega)]; exact hc
        have hk := field_eq_part w a.maxWord a.opBits 0 a.r hW (by omega)
        have hs := field_eq_part w a.maxWord a.opBits a.r a.r hW (by omega)
        simp only [Nat.add_zero, Isa.field, List.drop_zero] at hk
        simp only [Isa.field] at hs
        have hin : Rtl.part (getId w) a.maxWord a.opBits a.r ∈ used op := by
          apply hused
          unfold Rtl.destRegs
          rw [List.mem_filterMap]
          exact ⟨w, hmem, by simp [hop, hk]⟩
        have hinS : Rtl.part (getId w) a.maxWord (a.opBits + a.r) a.r ∈ used (op ++ "/src") := by
          apply husedS
          unfold Rtl.srcRegs
          rw [List.mem_filterMap]
          exact ⟨w, hmem, by simp only [hop, if_true, Option.some.injEq]; rw [← hs, List.drop_drop]⟩
        simp [hp, hin, hinS]
      · simp [hp, hq]

end BMV.Refine
