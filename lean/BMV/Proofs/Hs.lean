/-
  Invariant proofs for the handshake transition systems of BMV.Hs (C04).
-/
import BMV.Hs
namespace BMV.Hs.Isa

/-- per-consumer invariant relative to the producer's state -/
def CInv (V : Bool) (v : Nat) (sent : List Nat) (c : Cons) : Prop :=
  c.deferred = c.recv ∧
  (if V then (c.recv = true ∧ c.got = sent ++ [v]) ∨ (c.recv = false ∧ c.got = sent) else c.got = sent)

def Inv (s : St) : Prop :=
  s.sent = List.range s.next ∧
  (s.valid = true → s.atIO = true ∧ s.data = s.next) ∧
  (∀ c ∈ s.cs, CInv s.valid s.next s.sent c) ∧
  (s.valid = false → (∀ c ∈ s.cs, c.recv = true) ∨ (∀ c ∈ s.cs, c.recv = false))

theorem inv_init (k : Nat) : Inv (init k) := by
  refine ⟨rfl, by simp [init], ?_, ?_⟩
  · intro c hc
    simp [init, List.mem_replicate] at hc
    obtain ⟨_, rfl⟩ := hc
    simp [CInv, init]
  · intro _
    right
    intro c hc
    simp [init, List.mem_replicate] at hc
    obtain ⟨_, rfl⟩ := hc
    rfl

/-- membership in the stepped consumer list -/
theorem mem_cs' {cs : List Cons} {ws : List Bool} {V : Bool} {d : Nat} {c' : Cons}
    (h : c' ∈ (cs.zip (ws ++ List.replicate cs.length false)).map (fun (c, w) => cstep V d w c)) :
    ∃ c ∈ cs, ∃ w, c' = cstep V d w c := by
  rw [List.mem_map] at h
  obtain ⟨⟨c, w⟩, hm, rfl⟩ := h
  exact ⟨c, (List.of_mem_zip hm).1, w, rfl⟩

theorem cs'_all {cs : List Cons} {ws : List Bool} {V : Bool} {d : Nat} {P : Cons → Prop}
    (h : ∀ c ∈ cs, ∀ w, P (cstep V d w c)) :
    ∀ c' ∈ (cs.zip (ws ++ List.replicate cs.length false)).map (fun (c, w) => cstep V d w c), P c' := by
  intro c' hc'
  obtain ⟨c, hc, w, rfl⟩ := mem_cs' hc'
  exact h c hc w

/-- a consumer step while valid is low: nothing is captured, recv ends low -/
theorem cstep_low (d : Nat) (w : Bool) (c : Cons) (hd : c.deferred = c.recv) :
    (cstep false d w c).recv = false ∧ (cstep false d w c).deferred = false ∧ (cstep false d w c).got = c.got := by
  unfold cstep
  cases hr : c.recv <;> cases ha : c.atIO <;> cases w <;> simp_all

/-- a consumer step while valid is high with datum d -/
theorem cstep_high (d : Nat) (w : Bool) (c : Cons) (hd : c.deferred = c.recv) :
    (c.recv = true → (cstep true d w c).recv = true ∧ (cstep true d w c).deferred = true ∧ (cstep true d w c).got = c.got) ∧
    (c.recv = false →
      ((cstep true d w c).recv = true ∧ (cstep true d w c).deferred = true ∧ (cstep true d w c).got = c.got ++ [d]) ∨
      ((cstep true d w c).recv = false ∧ (cstep true d w c).deferred = false ∧ (cstep true d w c).got = c.got)) := by
  unfold cstep
  cases hr : c.recv <;> cases ha : c.atIO <;> cases w <;> simp_all


theorem inv_step (s : St) (sch : Sched) (h : Inv s) : Inv (step s sch) := by
  obtain ⟨hsent, hval, hcs, hall⟩ := h
  unfold step
  cases hv : s.valid with
  | false =>
    -- valid low: every consumer ends with recv low and nothing new
    have hlow : ∀ c ∈ s.cs, ∀ w, (cstep false s.data w c).recv = false ∧ (cstep false s.data w c).deferred = false ∧
        (cstep false s.data w c).got = s.sent := by
      intro c hc w
      have hci := hcs c hc
      simp only [CInv, hv] at hci
      obtain ⟨a, b, g⟩ := cstep_low s.data w c hci.1
      exact ⟨a, b, by rw [g]; simpa using hci.2⟩
    have hCI : ∀ (V : Bool), ∀ c' ∈ (s.cs.zip (sch.c ++ List.replicate s.cs.length false)).map
        (fun (c, w) => cstep false s.data w c), CInv V s.next s.sent c' := by
      intro V
      apply cs'_all
      intro c hc w
      obtain ⟨a, b, g⟩ := hlow c hc w
      unfold CInv
      refine ⟨by rw [a, b], ?_⟩
      cases V
      · simpa using g
      · simp only [if_true]; exact Or.inr ⟨a, g⟩
    have hRF : ∀ c' ∈ (s.cs.zip (sch.c ++ List.replicate s.cs.length false)).map
        (fun (c, w) => cstep false s.data w c), c'.recv = false := by
      apply cs'_all
      intro c hc w
      exact (hlow c hc w).1
    simp only [Bool.not_false, Bool.true_and]
    by_cases hact : (s.atIO || sch.p) = true
    · simp only [hact, if_true]
      by_cases hr : (!s.cs.isEmpty && s.cs.all (·.recv)) = true
      · simp only [hr, if_true]
        exact ⟨hsent, by simp [hv], by simpa [hv] using hCI false, fun _ => Or.inr hRF⟩
      · simp only [hr, if_false, Bool.false_eq_true]
        refine ⟨hsent, by simp, ?_, by simp⟩
        simpa using hCI true
    · simp only [hact, if_false, Bool.false_eq_true]
      exact ⟨hsent, by simp [hv], by simpa [hv] using hCI false, fun _ => Or.inr hRF⟩
  | true =>
    obtain ⟨hat, hdata⟩ := hval hv
    simp only [hat, Bool.true_or, if_true, Bool.not_true, Bool.false_and, Bool.false_eq_true, if_false]
    by_cases hr : (!s.cs.isEmpty && s.cs.all (·.recv)) = true
    · -- all consumers hold the value: the write completes
      simp only [hr, if_true]
      have hallr : ∀ c ∈ s.cs, c.recv = true := by
        simp only [Bool.and_eq_true, List.all_eq_true] at hr
        exact hr.2
      have hnew : ∀ c ∈ s.cs, ∀ w, (cstep true s.data w c).recv = true ∧ (cstep true s.data w c).deferred = true ∧
          (cstep true s.data w c).got = s.sent ++ [s.next] := by
        intro c hc w
        have hci := hcs c hc
        simp only [CInv, hv, if_true] at hci
        obtain ⟨a, b, g⟩ := (cstep_high s.data w c hci.1).1 (hallr c hc)
        refine ⟨a, b, ?_⟩
        rcases hci.2 with ⟨_, hg⟩ | ⟨hf, _⟩
        · rw [g, hg]
        · rw [hallr c hc] at hf; cases hf
      refine ⟨by simp [hsent, List.range_succ], by simp, ?_, ?_⟩
      · apply cs'_all
        intro c hc w
        obtain ⟨a, b, g⟩ := hnew c hc w
        unfold CInv
        exact ⟨by rw [a, b], by simpa using g⟩
      · intro _
        left
        apply cs'_all
        intro c hc w
        exact (hnew c hc w).1
    · simp only [hr, if_false, Bool.false_eq_true]
      refine ⟨hsent, by simp, ?_, by simp⟩
      apply cs'_all
      intro c hc w
      have hci := hcs c hc
      simp only [CInv, hv, if_true] at hci
      obtain ⟨h1, h2⟩ := cstep_high s.data w c hci.1
      unfold CInv
      simp only [if_true]
      rw [hdata] at h1 h2
      rcases hci.2 with ⟨hrt, hg⟩ | ⟨hrf, hg⟩
      · obtain ⟨a, b, g⟩ := h1 hrt
        rw [hdata]
        exact ⟨by rw [a, b], Or.inl ⟨a, by rw [g, hg]⟩⟩
      · rw [hdata]
        rcases h2 hrf with ⟨a, b, g⟩ | ⟨a, b, g⟩
        · exact ⟨by rw [a, b], Or.inl ⟨a, by rw [g, hg]⟩⟩
        · exact ⟨by rw [a, b], Or.inr ⟨a, by rw [g, hg]⟩⟩

end BMV.Hs.Isa

namespace BMV.Hs.Rtl

/-- per-consumer invariant; `offer` = the producer is offering `v` (waitsm ∧ oVal) -/
def CInv (offer : Bool) (v : Nat) (sent : List Nat) (c : Cons) : Prop :=
  if offer then (c.recv = true ∧ c.got = sent ++ [v]) ∨ (c.recv = false ∧ c.got = sent) else c.got = sent

def Inv (s : St) : Prop :=
  s.sent = List.range s.next ∧
  (s.waitsm = true → s.atIO = true) ∧
  (s.waitsm = true → s.oVal = true → s.auxo = s.next) ∧
  (∀ c ∈ s.cs, CInv (s.waitsm && s.oVal) s.next s.sent c) ∧
  (s.waitsm = true → s.oVal = false → ∀ c ∈ s.cs, c.recv = false) ∧
  (s.waitsm = false → s.oVal = true → s.cs ≠ [] ∧ ∀ c ∈ s.cs, c.recv = true) ∧
  (s.waitsm = false → s.oVal = false → (∀ c ∈ s.cs, c.recv = true) ∨ (∀ c ∈ s.cs, c.recv = false))

theorem inv_init (k : Nat) : Inv (init k) := by
  refine ⟨rfl, by simp [init], by simp [init], ?_, by simp [init], by simp [init], ?_⟩
  · intro c hc
    simp [init, List.mem_replicate] at hc
    obtain ⟨_, rfl⟩ := hc
    simp [CInv, init]
  · intro _ _
    right
    intro c hc
    simp [init, List.mem_replicate] at hc
    obtain ⟨_, rfl⟩ := hc
    rfl

theorem cs'_all {cs : List Cons} {ws : List Bool} {V : Bool} {d : Nat} {P : Cons → Prop}
    (h : ∀ c ∈ cs, ∀ w, P (cstep V d w c)) :
    ∀ c' ∈ (cs.zip (ws ++ List.replicate cs.length false)).map (fun (c, w) => cstep V d w c), P c' := by
  intro c' hc'
  rw [List.mem_map] at hc'
  obtain ⟨⟨c, w⟩, hm, rfl⟩ := hc'
  exact h c (List.of_mem_zip hm).1 w

theorem cs'_ne {cs : List Cons} {ws : List Bool} {V : Bool} {d : Nat} (h : cs ≠ []) :
    (cs.zip (ws ++ List.replicate cs.length false)).map (fun (c, w) => cstep V d w c) ≠ [] := by
  intro e
  have hl := congrArg List.length e
  simp at hl
  cases cs with
  | nil => exact h rfl
  | cons a t => simp at hl

/-- valid low: recv ends low, nothing captured -/
theorem cstep_low (d : Nat) (w : Bool) (c : Cons) :
    (cstep false d w c).recv = false ∧ (cstep false d w c).got = c.got := by
  unfold cstep
  cases c.recv <;> cases c.atIO <;> cases w <;> simp

/-- valid high -/
theorem cstep_high (d : Nat) (w : Bool) (c : Cons) :
    (c.recv = true → (cstep true d w c).recv = true ∧ (cstep true d w c).got = c.got) ∧
    (c.recv = false →
      ((cstep true d w c).recv = true ∧ (cstep true d w c).got = c.got ++ [d]) ∨
      ((cstep true d w c).recv = false ∧ (cstep true d w c).got = c.got)) := by
  unfold cstep
  cases hr : c.recv <;> cases ha : c.atIO <;> cases w <;> simp_all


theorem received_iff (cs : List Cons) :
    (!cs.isEmpty && cs.all (·.recv)) = true ↔ cs ≠ [] ∧ ∀ c ∈ cs, c.recv = true := by
  cases cs <;> simp

theorem inv_step (s : St) (sch : Sched) (h : Inv s) : Inv (step s sch) := by
  obtain ⟨hsent, hwa, haux, hcs, hA, hC, hD⟩ := h
  unfold step
  cases hw : s.waitsm <;> cases ho : s.oVal
  · -- (D) idle, valid low
    have hgot : ∀ c ∈ s.cs, c.got = s.sent := by
      intro c hc; have := hcs c hc; simpa [CInv, hw, ho] using this
    have hlow : ∀ c ∈ s.cs, ∀ w, (cstep false s.auxo w c).recv = false ∧ (cstep false s.auxo w c).got = s.sent := by
      intro c hc w
      obtain ⟨a, g⟩ := cstep_low s.auxo w c
      exact ⟨a, by rw [g, hgot c hc]⟩
    have hCI : ∀ (V : Bool), ∀ c' ∈ (s.cs.zip (sch.c ++ List.replicate s.cs.length false)).map
        (fun (c, w) => cstep false s.auxo w c), CInv V s.next s.sent c' := by
      intro V; apply cs'_all; intro c hc w
      obtain ⟨a, g⟩ := hlow c hc w
      unfold CInv
      cases V
      · simpa using g
      · simp only [if_true]; exact Or.inr ⟨a, g⟩
    have hRF : ∀ c' ∈ (s.cs.zip (sch.c ++ List.replicate s.cs.length false)).map
        (fun (c, w) => cstep false s.auxo w c), c'.recv = false := by
      apply cs'_all; intro c hc w; exact (hlow c hc w).1
    simp only [Bool.not_false, Bool.true_and, if_true]
    by_cases hact : (s.atIO || sch.p) = true
    · simp only [hact, if_true]
      by_cases hr : (!s.cs.isEmpty && s.cs.all (·.recv)) = true
      · simp only [hr, Bool.not_true, if_true]
        exact ⟨hsent, by simp, by simp, by simpa using hCI false, by simp, by simp, fun _ _ => Or.inr hRF⟩
      · have hr' : (!s.cs.isEmpty && s.cs.all (·.recv)) = false := by simpa using hr
        simp only [hr', Bool.not_false, Bool.false_eq_true, if_false]
        exact ⟨hsent, by simp, by simp, by simpa using hCI false, fun _ _ => hRF, by simp, by simp⟩
    · simp only [hact, Bool.false_eq_true, if_false]
      refine ⟨hsent, by simp [hw], by simp [hw], ?_, by simp [hw], ?_, ?_⟩
      · simp only [hw, Bool.false_and]; exact hCI false
      · intro _ h2; split at h2 <;> simp at h2
      · intro _ _; exact Or.inr hRF
  · -- (C) lingering valid after a completed write: everybody holds the value
    obtain ⟨hne, hallr⟩ := hC hw ho
    have hrec : (!s.cs.isEmpty && s.cs.all (·.recv)) = true := (received_iff s.cs).mpr ⟨hne, hallr⟩
    have hgot : ∀ c ∈ s.cs, c.got = s.sent := by
      intro c hc; have := hcs c hc; simpa [CInv, hw, ho] using this
    have hkeep : ∀ c ∈ s.cs, ∀ w, (cstep true s.auxo w c).recv = true ∧ (cstep true s.auxo w c).got = s.sent := by
      intro c hc w
      obtain ⟨a, g⟩ := (cstep_high s.auxo w c).1 (hallr c hc)
      exact ⟨a, by rw [g, hgot c hc]⟩
    have hCI : ∀ c' ∈ (s.cs.zip (sch.c ++ List.replicate s.cs.length false)).map
        (fun (c, w) => cstep true s.auxo w c), CInv false s.next s.sent c' := by
      apply cs'_all; intro c hc w; simpa [CInv] using (hkeep c hc w).2
    have hRT : ∀ c' ∈ (s.cs.zip (sch.c ++ List.replicate s.cs.length false)).map
        (fun (c, w) => cstep true s.auxo w c), c'.recv = true := by
      apply cs'_all; intro c hc w; exact (hkeep c hc w).1
    simp only [hrec, Bool.not_false, Bool.not_true, if_true]
    by_cases hact : (s.atIO || sch.p) = true
    · simp only [hact, if_true]
      exact ⟨hsent, by simp, by simp, by simpa using hCI, by simp, by simp, fun _ _ => Or.inl hRT⟩
    · simp only [hact, Bool.false_eq_true, if_false]
      exact ⟨hsent, by simp [hw], by simp [hw], by simpa [hw] using hCI, by simp [hw], by simp, fun _ _ => Or.inl hRT⟩
  · -- (A) waitsm set, valid still low: all recv low, nothing to take yet
    have hat := hwa hw
    have hallf := hA hw ho
    have hgot : ∀ c ∈ s.cs, c.got = s.sent := by
      intro c hc; have := hcs c hc; simpa [CInv, hw, ho] using this
    have hrec : (!s.cs.isEmpty && s.cs.all (·.recv)) = false := by
      cases hcs' : s.cs with
      | nil => simp
      | cons a t =>
        have := hallf a (by rw [hcs']; simp)
        simp [this]
    have hlow : ∀ c ∈ s.cs, ∀ w, (cstep false s.auxo w c).recv = false ∧ (cstep false s.auxo w c).got = s.sent := by
      intro c hc w
      obtain ⟨a, g⟩ := cstep_low s.auxo w c
      exact ⟨a, by rw [g, hgot c hc]⟩
    simp only [hat, Bool.true_or, if_true, Bool.not_true, Bool.false_eq_true, if_false, hrec]
    refine ⟨hsent, by simp, by simp, ?_, by simp, by simp, by simp⟩
    apply cs'_all; intro c hc w
    obtain ⟨a, g⟩ := hlow c hc w
    simp only [CInv, Bool.and_self, if_true]
    exact Or.inr ⟨a, g⟩
  · -- (B) the value is on offer
    have hat := hwa hw
    have hax := haux hw ho
    simp only [hat, Bool.true_or, if_true, Bool.not_true, Bool.false_eq_true, if_false]
    have hci : ∀ c ∈ s.cs, (c.recv = true ∧ c.got = s.sent ++ [s.next]) ∨ (c.recv = false ∧ c.got = s.sent) := by
      intro c hc; have := hcs c hc; simpa [CInv, hw, ho] using this
    by_cases hr : (!s.cs.isEmpty && s.cs.all (·.recv)) = true
    · obtain ⟨hne, hallr⟩ := (received_iff s.cs).mp hr
      simp only [hr, if_true]
      have hnew : ∀ c ∈ s.cs, ∀ w, (cstep true s.auxo w c).recv = true ∧ (cstep true s.auxo w c).got = s.sent ++ [s.next] := by
        intro c hc w
        obtain ⟨a, g⟩ := (cstep_high s.auxo w c).1 (hallr c hc)
        refine ⟨a, ?_⟩
        rcases hci c hc with ⟨_, hg⟩ | ⟨hf, _⟩
        · rw [g, hg]
        · rw [hallr c hc] at hf; cases hf
      refine ⟨by simp [hsent, List.range_succ], by simp, by simp, ?_, by simp, ?_, by simp⟩
      · apply cs'_all; intro c hc w
        simpa [CInv] using (hnew c hc w).2
      · intro _ _
        exact ⟨cs'_ne hne, cs'_all (fun c hc w => (hnew c hc w).1)⟩
    · simp only [hr, Bool.false_eq_true, if_false]
      refine ⟨hsent, by simp, by simp, ?_, by simp, by simp, by simp⟩
      apply cs'_all; intro c hc w
      obtain ⟨h1, h2⟩ := cstep_high s.auxo w c
      rw [hax] at h1 h2 ⊢
      simp only [CInv, Bool.and_self, if_true]
      rcases hci c hc with ⟨hrt, hg⟩ | ⟨hrf, hg⟩
      · obtain ⟨a, g⟩ := h1 hrt
        exact Or.inl ⟨a, by rw [g, hg]⟩
      · rcases h2 hrf with ⟨a, g⟩ | ⟨a, g⟩
        · exact Or.inl ⟨a, by rw [g, hg]⟩
        · exact Or.inr ⟨a, by rw [g, hg]⟩

end BMV.Hs.Rtl
