/-
  BMV.Proofs.Json — lemmas about the save/load model (BMV/Json.lean) used by BMV/Props/C11.lean.
  Core only.
-/
import BMV.Json
namespace BMV.Json

/-! ## decimal printing and parsing -/

theorem toDigits_all_digit (n : Nat) : (Nat.toDigits 10 n).all Char.isDigit = true :=
  List.all_eq_true.mpr fun _ hc => Nat.isDigit_of_mem_toDigits (by decide) (by decide) hc

theorem atoiNat_toDigits (n : Nat) : atoiNat (Nat.toDigits 10 n) = some n := by
  unfold atoiNat
  have h1 : (Nat.toDigits 10 n).isEmpty = false := by
    cases h : Nat.toDigits 10 n with
    | nil => exact absurd h Nat.toDigits_ne_nil
    | cons _ _ => rfl
  simp only [h1, toDigits_all_digit, Nat.ofDigitChars_ten_toDigits]
  simp

theorem digit_ne_minus {c : Char} (h : c.isDigit = true) : c ≠ '-' := by
  intro e; subst e; exact absurd h (by decide)
theorem digit_ne_plus {c : Char} (h : c.isDigit = true) : c ≠ '+' := by
  intro e; subst e; exact absurd h (by decide)
theorem digit_ne_colon {c : Char} (h : c.isDigit = true) : c ≠ ':' := by
  intro e; subst e; exact absurd h (by decide)

theorem atoi_toDigits (n : Nat) : atoi (Nat.toDigits 10 n) = some (Int.ofNat n) := by
  have h := atoiNat_toDigits n
  have hd := toDigits_all_digit n
  cases hc : Nat.toDigits 10 n with
  | nil => exact absurd hc Nat.toDigits_ne_nil
  | cons c cs =>
    rw [hc] at h hd
    have hcd : c.isDigit = true := by
      simp only [List.all_cons, Bool.and_eq_true] at hd; exact hd.1
    simp only [atoi, digit_ne_minus hcd, digit_ne_plus hcd, if_false, h]

theorem atoi_itoa (i : Int) : atoi (itoa i) = some i := by
  unfold itoa
  split
  · rename_i h
    simp only [atoi, if_true, atoiNat_toDigits]
    congr 1; simp only [Int.ofNat_eq_natCast]; omega
  · rename_i h
    rw [atoi_toDigits]; congr 1; simp only [Int.ofNat_eq_natCast]; omega

theorem colon_not_mem_itoa (i : Int) : ':' ∉ itoa i := by
  unfold itoa
  intro h
  have hd : ∀ n, ':' ∉ Nat.toDigits 10 n := fun n hm =>
    digit_ne_colon (Nat.isDigit_of_mem_toDigits (by decide) (by decide) hm) rfl
  split at h
  · simp only [List.mem_cons] at h
    rcases h with h | h
    · exact absurd h (by decide)
    · exact hd _ h
  · exact hd _ h

theorem itoa_ne_nil (i : Int) : itoa i ≠ [] := by
  unfold itoa; split
  · simp
  · exact Nat.toDigits_ne_nil

/-! ## strings.Split / strings.HasPrefix -/

theorem splitOn_ne_nil (sep : Char) (s : List Char) : splitOn sep s ≠ [] := by
  cases s with
  | nil => simp [splitOn]
  | cons c cs => simp only [splitOn]; split <;> simp

theorem splitOn_nosep {sep : Char} {a : List Char} (h : sep ∉ a) : splitOn sep a = [a] := by
  induction a with
  | nil => rfl
  | cons c cs ih =>
    have hc : c ≠ sep := fun e => h (by simp [e])
    have hcs : sep ∉ cs := fun m => h (List.mem_cons_of_mem _ m)
    simp only [splitOn, hc, if_false, ih hcs, List.headD_cons, List.tail_cons]

theorem splitOn_append_sep {sep : Char} {a : List Char} (rest : List Char) (h : sep ∉ a) :
    splitOn sep (a ++ sep :: rest) = a :: splitOn sep rest := by
  induction a with
  | nil => simp [splitOn]
  | cons c cs ih =>
    have hc : c ≠ sep := fun e => h (by simp [e])
    have hcs : sep ∉ cs := fun m => h (List.mem_cons_of_mem _ m)
    simp only [List.cons_append, splitOn, hc, if_false, ih hcs, List.headD_cons, List.tail_cons]

theorem dropPrefix?_append (p s : List Char) : dropPrefix? p (p ++ s) = some s := by
  induction p with
  | nil => cases s <;> rfl
  | cons c cs ih => simp [dropPrefix?, ih]

/-! ## shared objects: `Instantiate (String so) = so` -/


theorem itoa_isEmpty (i : Int) : (itoa i).isEmpty = false := by
  cases h : itoa i with
  | nil => exact absurd h (itoa_ne_nil i)
  | cons _ _ => rfl

theorem rt_sharedmem (d : Int) : instantiate (SO.toString (.sharedmem d)) = some (.sharedmem d) := by
  simp [instantiate, SO.toString, instSharedmem, instNum, dropPrefix?, atoi_itoa, itoa_isEmpty]

theorem rt_channel : instantiate (SO.toString .channel) = some .channel := by
  simp [instantiate, SO.toString, instSharedmem, instChannel, instNum, dropPrefix?]

theorem rt_barrier (t : Int) : instantiate (SO.toString (.barrier t)) = some (.barrier t) := by
  simp [instantiate, SO.toString, instSharedmem, instChannel, instBarrier, instNum, dropPrefix?,
    atoi_itoa, itoa_isEmpty]

theorem rt_lfsr8 (s : Fin 256) : instantiate (SO.toString (.lfsr8 s)) = some (.lfsr8 s) := by
  have hs : Fin.ofNat 256 (((s.val : Int) % 256).toNat) = s := by
    apply Fin.ext
    simp only [Fin.ofNat] ; omega
  simp [instantiate, SO.toString, instSharedmem, instChannel, instBarrier, instLfsr8, instNum,
    dropPrefix?, atoi_itoa, itoa_isEmpty, hs]

theorem rt_queue (d : Int) : instantiate (SO.toString (.queue d)) = some (.queue d) := by
  simp [instantiate, SO.toString, instSharedmem, instChannel, instBarrier, instLfsr8, instVtextmem,
    instQueue, instNum, dropPrefix?, atoi_itoa, itoa_isEmpty]

theorem rt_stack (d : Int) : instantiate (SO.toString (.stack d)) = some (.stack d) := by
  simp [instantiate, SO.toString, instSharedmem, instChannel, instBarrier, instLfsr8, instVtextmem,
    instQueue, instStack, instNum, dropPrefix?, atoi_itoa, itoa_isEmpty]

theorem rt_kbd (d : Int) : instantiate (SO.toString (.kbd d)) = some (.kbd d) := by
  have h1 : splitOn ':' (['k','b','d'] ++ ':' :: itoa d) = ['k','b','d'] :: splitOn ':' (itoa d) :=
    splitOn_append_sep _ (by decide)
  rw [splitOn_nosep (colon_not_mem_itoa d)] at h1
  simp only [List.cons_append, List.nil_append] at h1
  simp [instantiate, SO.toString, instSharedmem, instChannel, instBarrier, instLfsr8, instVtextmem,
    instQueue, instStack, instUart, instKbd, instNum, dropPrefix?, h1, atoi_itoa]

theorem rt_uart (b d : Int) : instantiate (SO.toString (.uart b d)) = some (.uart b d) := by
  have h1 : splitOn ':' (['u','a','r','t'] ++ ':' :: (itoa b ++ ':' :: itoa d))
      = ['u','a','r','t'] :: splitOn ':' (itoa b ++ ':' :: itoa d) :=
    splitOn_append_sep _ (by decide)
  rw [splitOn_append_sep _ (colon_not_mem_itoa b), splitOn_nosep (colon_not_mem_itoa d)] at h1
  simp only [List.cons_append, List.nil_append] at h1
  simp [instantiate, SO.toString, instSharedmem, instChannel, instBarrier, instLfsr8, instVtextmem,
    instQueue, instStack, instUart, instNum, dropPrefix?, h1, atoi_itoa]



def boxFields (b : Box) : List (List Char) :=
  [itoa b.cp, itoa b.left, itoa b.top, itoa b.width, itoa b.height]

def fieldsOf (bs : List Box) : List (List Char) := bs.flatMap boxFields

theorem boxes_flatten (bs : List Box) :
    (bs.map boxStr).flatten = ((fieldsOf bs).map (':' :: ·)).flatten := by
  induction bs with
  | nil => rfl
  | cons b bs ih =>
    simp only [List.map_cons, List.flatten_cons, ih, fieldsOf, List.flatMap_cons, boxFields,
      boxStr, List.cons_append, List.append_assoc, List.nil_append]

theorem splitOn_fields (w : List Char) (ds : List (List Char)) (hw : ':' ∉ w)
    (hds : ∀ d ∈ ds, ':' ∉ d) :
    splitOn ':' (w ++ (ds.map (':' :: ·)).flatten) = w :: ds := by
  induction ds generalizing w with
  | nil => simp [splitOn_nosep hw]
  | cons d ds ih =>
    simp only [List.map_cons, List.flatten_cons, List.cons_append]
    rw [splitOn_append_sep _ hw, ih d (hds d (by simp)) (fun x hx => hds x (by simp [hx]))]

theorem fieldsOf_nocolon (bs : List Box) : ∀ d ∈ fieldsOf bs, ':' ∉ d := by
  intro d hd
  simp only [fieldsOf, List.mem_flatMap, boxFields, List.mem_cons, List.not_mem_nil, or_false] at hd
  obtain ⟨b, _, h⟩ := hd
  rcases h with h | h | h | h | h <;> subst h <;> exact colon_not_mem_itoa _

theorem parseBoxes_fieldsOf (bs : List Box) : parseBoxes (fieldsOf bs) = some bs := by
  induction bs with
  | nil => rfl
  | cons b bs ih =>
    have : fieldsOf (b :: bs) =
        itoa b.cp :: itoa b.left :: itoa b.top :: itoa b.width :: itoa b.height :: fieldsOf bs := by
      simp [fieldsOf, boxFields]
    rw [this]
    simp only [parseBoxes, atoi_itoa, ih]

theorem instVtextmem_eval (r : List Char) (comps : List (List Char))
    (hs : splitOn ':' ('v'::'t'::'e'::'x'::'t'::'m'::'e'::'m'::':'::r)
      = ['v','t','e','x','t','m','e','m'] :: comps)
    (hne : comps.isEmpty = false) :
    instVtextmem ('v'::'t'::'e'::'x'::'t'::'m'::'e'::'m'::':'::r) = (parseBoxes comps).map .vtextmem := by
  simp only [instVtextmem, dropPrefix?, if_true, hs, hne]
  simp

theorem rt_vtextmem (bs : List Box) (h : bs ≠ []) :
    instantiate (SO.toString (.vtextmem bs)) = some (.vtextmem bs) := by
  have hsplit : splitOn ':' (['v','t','e','x','t','m','e','m'] ++ (bs.map boxStr).flatten)
      = ['v','t','e','x','t','m','e','m'] :: fieldsOf bs := by
    rw [boxes_flatten]; exact splitOn_fields _ _ (by decide) (fieldsOf_nocolon bs)
  cases bs with
  | nil => exact absurd rfl h
  | cons b bs =>
    have hne : (fieldsOf (b :: bs)).isEmpty = false := by simp [fieldsOf, boxFields]
    obtain ⟨r, hr⟩ : ∃ r, ((b :: bs).map boxStr).flatten = ':' :: r := by
      simp [boxStr]
    rw [hr] at hsplit
    simp only [List.cons_append, List.nil_append] at hsplit
    have hv := instVtextmem_eval r _ hsplit hne
    rw [parseBoxes_fieldsOf] at hv
    simp only [instantiate, SO.toString, hr, List.cons_append, List.nil_append, hv]
    simp [instSharedmem, instChannel, instBarrier, instLfsr8, instNum, dropPrefix?]


/-! ## registry lookups -/

theorem find?_name_of_nodup {l : List Opcode} (hn : (l.map (·.name)).Nodup) {op : Opcode}
    (hm : op ∈ l) : l.find? (·.name == op.name) = some op := by
  induction l with
  | nil => cases hm
  | cons x xs ih =>
    simp only [List.map_cons, List.nodup_cons] at hn
    by_cases hx : x.name = op.name
    · have : op = x := by
        rcases List.mem_cons.mp hm with h | h
        · exact h
        · exact absurd (hx ▸ List.mem_map_of_mem (f := (·.name)) h) hn.1
      subst this
      simp
    · have hop : op ∈ xs := by
        rcases List.mem_cons.mp hm with h | h
        · exact absurd (h ▸ rfl) hx
        · exact h
      have hb : (x.name == op.name) = false := by simp [hx]
      simp only [List.find?_cons, hb, ih hn.2 hop]

theorem lookupLast_mem {ops : List Opcode} (hn : (ops.map (·.name)).Nodup) {op : Opcode}
    (hm : op ∈ ops) : lookupLast ops op.name = some op := by
  unfold lookupLast
  apply find?_name_of_nodup
  · rw [List.map_reverse]
    unfold List.Nodup at hn ⊢
    rw [List.pairwise_reverse]
    exact hn.imp fun h => Ne.symm h
  · exact List.mem_reverse.mpr hm

theorem lookupLast_none {ops : List Opcode} {n : String} (h : ∀ op ∈ ops, op.name ≠ n) :
    lookupLast ops n = none := by
  unfold lookupLast
  rw [List.find?_eq_none]
  intro x hx
  simp only [beq_iff_eq]
  exact h x (List.mem_reverse.mp hx)

theorem lookupLast_some {ops : List Opcode} {n : String} {op : Opcode}
    (h : lookupLast ops n = some op) : op.name = n ∧ op ∈ ops := by
  unfold lookupLast at h
  have h1 := List.find?_some h
  have h2 := List.mem_of_find?_eq_some h
  exact ⟨by simpa using h1, List.mem_reverse.mp h2⟩

theorem lookupLast_append_single (ops : List Opcode) (op : Opcode) :
    lookupLast (ops ++ [op]) op.name = some op := by
  simp [lookupLast]

/-! ## EventuallyCreateInstruction -/

theorem ec_cases (reg : Registry) (n : String) :
    eventuallyCreate reg n = reg ∨
    ∃ f op, reg.fams.find? (·.matchName n) = some f ∧ f.create n = some op ∧
      (∀ o ∈ reg.ops, o.name ≠ n) ∧
      eventuallyCreate reg n = { reg with ops := reg.ops ++ [op] } := by
  unfold eventuallyCreate
  split
  · exact Or.inl rfl
  · rename_i f hf
    split
    · exact Or.inl rfl
    · rename_i hany
      split
      · exact Or.inl rfl
      · rename_i op hop
        refine Or.inr ⟨f, op, hf, hop, ?_, rfl⟩
        intro o ho hne
        apply hany
        simp only [List.any_eq_true, beq_iff_eq]
        exact ⟨o, ho, hne⟩

theorem ec_of_name_mem {reg : Registry} {n : String} (h : ∃ o ∈ reg.ops, o.name = n) :
    eventuallyCreate reg n = reg := by
  rcases ec_cases reg n with h1 | ⟨_, _, _, _, hno, _⟩
  · exact h1
  · obtain ⟨o, ho, hn⟩ := h
    exact absurd hn (hno o ho)

theorem ec_fams (reg : Registry) (n : String) : (eventuallyCreate reg n).fams = reg.fams := by
  rcases ec_cases reg n with h1 | ⟨_, _, _, _, _, h⟩
  · rw [h1]
  · rw [h]

theorem ext_refl {reg0 : Registry} (h : reg0.names.Nodup) : Ext reg0 reg0 :=
  ⟨rfl, ⟨[], by simp, by simp⟩, h⟩

theorem ext_step {reg0 reg : Registry} (hc : CreateNames reg0) (he : Ext reg0 reg) (n : String) :
    Ext reg0 (eventuallyCreate reg n) := by
  rcases ec_cases reg n with h1 | ⟨f, op, hf, hop, hno, h⟩
  · rw [h1]; exact he
  · rw [h]
    obtain ⟨extra, hex, hcan⟩ := he.ops
    have hfm : f ∈ reg0.fams := he.fams ▸ List.mem_of_find?_eq_some hf
    have hname : op.name = n := hc f hfm n op hop
    refine ⟨he.fams, ⟨extra ++ [op], by simp [hex], ?_⟩, ?_⟩
    · intro o ho
      rcases List.mem_append.mp ho with ho | ho
      · exact hcan o ho
      · simp only [List.mem_singleton] at ho
        subst ho
        exact ⟨f, by rw [hname, ← he.fams]; exact hf, by rw [hname]; exact hop⟩
    · have hnd := he.nodup
      simp only [Registry.names, List.map_append, List.map_cons, List.map_nil] at hnd ⊢
      rw [List.nodup_append]
      refine ⟨hnd, by simp, ?_⟩
      intro a ha b hb
      simp only [List.mem_singleton] at hb
      subst hb
      obtain ⟨o, ho, hoa⟩ := List.mem_map.mp ha
      intro e
      exact hno o ho (by rw [hoa, e, hname])

theorem ext_mem_resolvable {reg0 reg : Registry} (he : Ext reg0 reg) {op : Opcode}
    (hm : op ∈ reg.ops) : ResolvableOp reg0 op := by
  obtain ⟨extra, hex, hcan⟩ := he.ops
  rw [hex] at hm
  rcases List.mem_append.mp hm with h | h
  · exact Or.inl h
  · refine Or.inr ⟨?_, hcan op h⟩
    have hnd := he.nodup
    simp only [Registry.names, hex, List.map_append] at hnd
    rw [List.nodup_append] at hnd
    intro hin
    exact hnd.2.2 _ hin _ (List.mem_map_of_mem (f := (·.name)) h) rfl

theorem resolvable_mem_or_new {reg0 reg : Registry} (he : Ext reg0 reg) {op : Opcode}
    (hr : ResolvableOp reg0 op) :
    op ∈ reg.ops ∨ ((∀ o ∈ reg.ops, o.name ≠ op.name) ∧ op.name ∉ reg0.names ∧ Canon reg0 op) := by
  obtain ⟨extra, hex, hcan⟩ := he.ops
  rcases hr with h | ⟨hnot, f, hf, hcr⟩
  · exact Or.inl (by rw [hex]; exact List.mem_append_left _ h)
  · by_cases hex' : ∃ o ∈ reg.ops, o.name = op.name
    · obtain ⟨o, ho, hn⟩ := hex'
      left
      rw [hex] at ho
      rcases List.mem_append.mp ho with h | h
      · exact absurd (hn ▸ List.mem_map_of_mem (f := (·.name)) h) hnot
      · obtain ⟨f', hf', hcr'⟩ := hcan o h
        rw [hn] at hf' hcr'
        have : f' = f := Option.some.inj (hf'.symm.trans hf)
        subst this
        have : o = op := Option.some.inj (hcr'.symm.trans hcr)
        subst this
        rw [hex]; exact List.mem_append_right _ h
    · right
      refine ⟨?_, hnot, f, hf, hcr⟩
      intro o ho hn
      exact hex' ⟨o, ho, hn⟩

theorem resolve_step {reg0 reg : Registry} (he : Ext reg0 reg) {op : Opcode}
    (hr : ResolvableOp reg0 op) :
    lookupLast (eventuallyCreate reg op.name).ops op.name = some op := by
  rcases resolvable_mem_or_new he hr with h | ⟨hno, _, f, hf, hcr⟩
  · rw [ec_of_name_mem ⟨op, h, rfl⟩]
    exact lookupLast_mem he.nodup h
  · have : eventuallyCreate reg op.name = { reg with ops := reg.ops ++ [op] } := by
      unfold eventuallyCreate
      rw [he.fams, hf]
      have hany : (reg.ops.any (·.name == op.name)) = false := by
        rw [Bool.eq_false_iff]
        intro h
        simp only [List.any_eq_true, beq_iff_eq] at h
        obtain ⟨o, ho, hn⟩ := h
        exact hno o ho hn
      simp only [hany, hcr]
      simp
    rw [this]
    exact lookupLast_append_single _ _

theorem dejsonOps_length (reg : Registry) (ns : List String) :
    (dejsonOps reg ns).2.length = ns.length := by
  induction ns generalizing reg with
  | nil => rfl
  | cons n ns ih => simp [dejsonOps, ih]

theorem dejsonOps_resolvable {reg0 : Registry} (hc : CreateNames reg0) (ops : List Opcode) :
    ∀ reg, Ext reg0 reg → (∀ op ∈ ops, ResolvableOp reg0 op) →
      (dejsonOps reg (ops.map (·.name))).2 = ops.map some ∧
      Ext reg0 (dejsonOps reg (ops.map (·.name))).1 := by
  induction ops with
  | nil => intro reg he _; exact ⟨rfl, he⟩
  | cons op ops ih =>
    intro reg he hr
    have h1 := resolve_step he (hr op (by simp))
    have he' := ext_step hc he op.name
    have h2 := ih _ he' (fun o ho => hr o (by simp [ho]))
    simp only [List.map_cons, dejsonOps, h1, h2.1]
    exact ⟨trivial, h2.2⟩


/-! ## machine level -/

theorem so_roundtrip_all (so : SO) (h : so.Valid) : instantiate so.toString = some so := by
  cases so with
  | sharedmem d => exact rt_sharedmem d
  | channel => exact rt_channel
  | barrier t => exact rt_barrier t
  | lfsr8 s => exact rt_lfsr8 s
  | vtextmem bs => exact rt_vtextmem bs h
  | queue d => exact rt_queue d
  | stack d => exact rt_stack d
  | uart b d => exact rt_uart b d
  | kbd d => exact rt_kbd d

theorem sos_roundtrip (sos : List SO) (hv : ∀ so ∈ sos, so.Valid) :
    (sos.map SO.toString).map instantiate = sos.map some := by
  induction sos with
  | nil => rfl
  | cons so sos ih =>
    simp only [List.map_cons, so_roundtrip_all so (hv so (by simp)),
      ih (fun s hs => hv s (by simp [hs]))]

theorem allSome_map_some {α : Type} (l : List α) : allSome (l.map some) = some l := by
  induction l with
  | nil => rfl
  | cons a l ih => simp [allSome, ih]

theorem allSome_some_iff {α : Type} {l : List (Option α)} {r : List α}
    (h : allSome l = some r) : l = r.map some := by
  induction l generalizing r with
  | nil => simp [allSome] at h; subst h; rfl
  | cons a l ih =>
    cases a with
    | none => simp [allSome] at h
    | some a =>
      simp only [allSome, Option.map_eq_some_iff] at h
      obtain ⟨r', hr', rfl⟩ := h
      simp [ih hr']

theorem check_lift (m : Machine) : m.lift.check = some m := by
  simp [MachineOf.check, MachineOf.lift, MachineOf.mapOps, allSome_map_some]

theorem jsoner_clearTransient (m : Machine) : jsoner m.clearTransient = jsoner m := rfl

theorem dejsoner_jsoner {reg0 reg : Registry} (hc : CreateNames reg0) (he : Ext reg0 reg)
    {m : Machine} (hr : Resolvable reg0 m) :
    (dejsoner reg (jsoner m)).2 = m.clearTransient.lift ∧ Ext reg0 (dejsoner reg (jsoner m)).1 := by
  have h := dejsonOps_resolvable hc m.ops reg he hr
  refine ⟨?_, h.2⟩
  simp only [dejsoner, jsoner, h.1, MachineOf.lift, MachineOf.mapOps, MachineOf.clearTransient]

theorem dejsonDomains_length (reg : Registry) (js : List MachineJson) :
    (dejsonDomains reg js).2.length = js.length := by
  induction js generalizing reg with
  | nil => rfl
  | cons j js ih => simp [dejsonDomains, ih]

theorem dejsonDomains_resolvable {reg0 : Registry} (hc : CreateNames reg0) (ds : List Machine) :
    ∀ reg, Ext reg0 reg → (∀ d ∈ ds, Resolvable reg0 d) →
      (dejsonDomains reg (ds.map jsoner)).2 = ds.map (fun d => d.clearTransient.lift) ∧
      Ext reg0 (dejsonDomains reg (ds.map jsoner)).1 := by
  induction ds with
  | nil => intro reg he _; exact ⟨rfl, he⟩
  | cons d ds ih =>
    intro reg he hr
    have h1 := dejsoner_jsoner hc he (hr d (by simp))
    have h2 := ih _ h1.2 (fun x hx => hr x (by simp [hx]))
    simp only [List.map_cons, dejsonDomains, h1.1, h2.1]
    exact ⟨trivial, h2.2⟩

theorem check_lift_list (ds : List Machine) :
    allSome (ds.map fun d => MachineOf.check d.lift) = some ds := by
  have : (ds.map fun d => MachineOf.check d.lift) = ds.map some := by
    apply List.map_congr_left; intro d _; exact check_lift d
  rw [this, allSome_map_some]


/-! ## `Instantiate` only builds valid objects -/


theorem orElse_some {α : Type} {a b : Option α} {x : α} (h : (a <|> b) = some x) :
    a = some x ∨ b = some x := by
  cases a with
  | none => right; simpa using h
  | some y => left; simpa using h

theorem instNum_not_vt {pre : List Char} {mk : Int → SO} {s : List Char} {bs : List Box}
    (hmk : ∀ i, mk i ≠ .vtextmem bs) : instNum pre mk s ≠ some (.vtextmem bs) := by
  intro h
  unfold instNum at h
  split at h
  · cases h
  · split at h
    · cases h
    · cases ha : atoi _ with
      | none => rw [ha] at h; cases h
      | some i => rw [ha] at h; simp only [Option.map_some, Option.some.injEq] at h; exact hmk i h

theorem parseBoxes_ne_nil {l : List (List Char)} {bs : List Box} (hl : l ≠ [])
    (h : parseBoxes l = some bs) : bs ≠ [] := by
  match l, hl with
  | [_], _ => simp [parseBoxes] at h
  | [_, _], _ => simp [parseBoxes] at h
  | [_, _, _], _ => simp [parseBoxes] at h
  | [_, _, _, _], _ => simp [parseBoxes] at h
  | a :: b :: c :: d :: e :: rest, _ =>
    simp only [parseBoxes] at h
    split at h
    · simp only [Option.some.injEq] at h; subst h; simp
    · cases h

theorem instVtextmem_ne_nil {s : List Char} {bs : List Box}
    (h : instVtextmem s = some (.vtextmem bs)) : bs ≠ [] := by
  unfold instVtextmem at h
  split at h
  · cases h
  · split at h
    · rename_i comps _
      split at h
      · cases h
      · rename_i hne
        cases hp : parseBoxes comps with
        | none => rw [hp] at h; cases h
        | some bs' =>
          rw [hp] at h
          simp only [Option.map_some, Option.some.injEq, SO.vtextmem.injEq] at h
          subst h
          exact parseBoxes_ne_nil (by intro e; subst e; simp at hne) hp
    · cases h

theorem instantiate_valid_aux {s : List Char} {so : SO} (h : instantiate s = some so) :
    so.Valid := by
  cases so with
  | vtextmem bs =>
    show bs ≠ []
    unfold instantiate at h
    rcases orElse_some h with h | h
    · exact absurd h (instNum_not_vt (by intro i; simp))
    rcases orElse_some h with h | h
    · unfold instChannel at h; split at h <;> cases h
    rcases orElse_some h with h | h
    · exact absurd h (instNum_not_vt (by intro i; simp))
    rcases orElse_some h with h | h
    · exact absurd h (instNum_not_vt (by intro i; simp))
    rcases orElse_some h with h | h
    · exact instVtextmem_ne_nil h
    rcases orElse_some h with h | h
    · exact absurd h (instNum_not_vt (by intro i; simp))
    rcases orElse_some h with h | h
    · exact absurd h (instNum_not_vt (by intro i; simp))
    rcases orElse_some h with h | h
    · unfold instUart at h; split at h
      · cases h
      · split at h <;> cases h
    · unfold instKbd at h; split at h
      · cases h
      · split at h <;> cases h
  | _ => trivial



theorem resolvableOpB_iff (reg0 : Registry) (op : Opcode) :
    resolvableOpB reg0 op = true ↔ ResolvableOp reg0 op := by
  unfold resolvableOpB ResolvableOp Canon
  simp only [Bool.or_eq_true, Bool.and_eq_true, Bool.not_eq_true', List.contains_eq_mem,
    decide_eq_true_eq, decide_eq_false_iff_not]
  constructor
  · rintro (h | ⟨hn, hf⟩)
    · exact Or.inl h
    · right
      refine ⟨hn, ?_⟩
      split at hf
      · rename_i f hfind
        exact ⟨f, hfind, by simpa using hf⟩
      · cases hf
  · rintro (h | ⟨hn, f, hfind, hcr⟩)
    · exact Or.inl h
    · right
      refine ⟨hn, ?_⟩
      rw [hfind]
      simp [hcr]

end BMV.Json
