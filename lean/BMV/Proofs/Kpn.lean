/-
  Determinacy of networks of deterministic agents whose steps commute (`kahn_determinate`), by
  the classical strip-lemma argument; helper for C02 (BMV/Props/C02.lean).
-/
import BMV.Kpn
namespace BMV.Kpn

variable {ι σ : Type}

theorem run_append (S : Sys ι σ) (a b : List ι) (s : σ) :
    S.run (a ++ b) s = (S.run a s).bind (S.run b) := by
  induction a generalizing s with
  | nil => simp [Sys.run]
  | cons i a ih =>
    simp only [List.cons_append, Sys.run]
    cases S.step i s with
    | none => simp
    | some s1 => simp [ih]

/-- strip lemma: one step against a whole schedule -/
theorem strip [DecidableEq ι] (S : Sys ι σ) (hd : S.Diamond) (i : ι) (b : List ι) (s s1 sb : σ)
    (h1 : S.step i s = some s1) (hb : S.run b s = some sb) :
    ∃ b' c sc, S.run b' s1 = some sc ∧ S.run c sb = some sc := by
  induction b generalizing s s1 with
  | nil =>
    simp only [Sys.run, Option.some.injEq] at hb
    subst hb
    exact ⟨[], [i], s1, rfl, by simp [Sys.run, h1]⟩
  | cons j b ih =>
    simp only [Sys.run] at hb
    cases h2 : S.step j s with
    | none => simp [h2] at hb
    | some s2 =>
      simp only [h2, Option.bind_some] at hb
      by_cases hij : i = j
      · subst hij
        rw [h1] at h2
        cases h2
        exact ⟨b, [], sb, hb, rfl⟩
      · obtain ⟨s3, h3, h4⟩ := hd i j s s1 s2 hij h1 h2
        obtain ⟨b', c, sc, r1, r2⟩ := ih s2 s3 h4 hb
        exact ⟨j :: b', c, sc, by simp [Sys.run, h3, r1], r2⟩

/-- confluence: two schedules from the same state can be continued to a common state -/
theorem confluent [DecidableEq ι] (S : Sys ι σ) (hd : S.Diamond) (a b : List ι) (s sa sb : σ)
    (ha : S.run a s = some sa) (hb : S.run b s = some sb) :
    ∃ a' b' sc, S.run a' sa = some sc ∧ S.run b' sb = some sc := by
  induction a generalizing s b sb with
  | nil =>
    simp only [Sys.run, Option.some.injEq] at ha
    subst ha
    exact ⟨b, [], sb, hb, rfl⟩
  | cons i a ih =>
    simp only [Sys.run] at ha
    cases h1 : S.step i s with
    | none => simp [h1] at ha
    | some s1 =>
      simp only [h1, Option.bind_some] at ha
      obtain ⟨b1, c, sc1, r1, r2⟩ := strip S hd i b s s1 sb h1 hb
      obtain ⟨a', b2, sc, r3, r4⟩ := ih b1 s1 sc1 ha r1
      exact ⟨a', c ++ b2, sc, r3, by rw [run_append, r2]; exact r4⟩

theorem run_mono {κ ν : Type} (S : Sys ι σ) (hist : σ → κ → List ν)
    (hm : ∀ i s s', S.step i s = some s' → ∀ c, hist s c <+: hist s' c)
    (a : List ι) (s s' : σ) (h : S.run a s = some s') (c : κ) : hist s c <+: hist s' c := by
  induction a generalizing s with
  | nil => simp only [Sys.run, Option.some.injEq] at h; subst h; exact List.prefix_refl _
  | cons i a ih =>
    simp only [Sys.run] at h
    cases h1 : S.step i s with
    | none => simp [h1] at h
    | some s1 =>
      simp only [h1, Option.bind_some] at h
      exact (hm i s s1 h1 c).trans (ih s1 h)

/-- **determinacy**: whatever the schedules (stall patterns), the histories of every channel are
    prefix-comparable — both are prefixes of the history of a common continuation -/
theorem determinate [DecidableEq ι] {κ ν : Type} (S : Sys ι σ) (hd : S.Diamond) (hist : σ → κ → List ν)
    (hm : ∀ i s s', S.step i s = some s' → ∀ c, hist s c <+: hist s' c)
    (a b : List ι) (s sa sb : σ) (ha : S.run a s = some sa) (hb : S.run b s = some sb) (c : κ) :
    hist sa c <+: hist sb c ∨ hist sb c <+: hist sa c := by
  obtain ⟨a', b', sc, r1, r2⟩ := confluent S hd a b s sa sb ha hb
  exact List.prefix_or_prefix_of_prefix (run_mono S hist hm a' sa sc r1 c) (run_mono S hist hm b' sb sc r2 c)

end BMV.Kpn

namespace BMV.Kpn

/-! ### the bond network (producer ∥ one-place channel with fan-out ∥ consumers) is determinate -/

theorem consumer_step (f : Nat → Nat) (c : Nat) (s s' : ChanState) :
    chanStep f (.consumer c) s = some s' ↔
      ∃ v g, s.full = some v ∧ s.taken[c]? = some false ∧ s.got[c]? = some g ∧ s' = afterTake s c v g := by
  show consStep c s = some s' ↔ _
  unfold consStep
  constructor
  · intro h
    split at h
    · rename_i v g h1 h2 h3
      exact ⟨v, g, h1, h2, h3, (Option.some.inj h).symm⟩
    · simp at h
  · rintro ⟨v, g, h1, h2, h3, rfl⟩
    simp only [h1, h2, h3]

theorem producer_step (f : Nat → Nat) (s s' : ChanState) :
    chanStep f .producer s = some s' ↔ s.full = none ∧ s' = { s with sent := s.sent + 1, full := some (f s.sent) } := by
  show prodStep f s = some s' ↔ _
  unfold prodStep
  constructor
  · intro h
    split at h
    · rename_i h1; exact ⟨h1, (Option.some.inj h).symm⟩
    · simp at h
  · rintro ⟨h1, rfl⟩; simp [h1]

theorem not_all_of_false {l : List Bool} {d : Nat} (h : l[d]? = some false) : l.all id = false := by
  rw [Bool.eq_false_iff]
  intro hall
  rw [List.all_eq_true] at hall
  have := hall false (List.mem_of_getElem? h)
  simp at this

theorem chan_diamond (f : Nat → Nat) : (chanSys f).Diamond := by
  intro i j s s1 s2 hij h1 h2
  cases i with
  | producer =>
    cases j with
    | producer => exact absurd rfl hij
    | consumer d =>
      obtain ⟨hf, _⟩ := (producer_step f s s1).mp h1
      obtain ⟨v, g, hv, _⟩ := (consumer_step f d s s2).mp h2
      rw [hf] at hv; cases hv
  | consumer c =>
    cases j with
    | producer =>
      obtain ⟨hf, _⟩ := (producer_step f s s2).mp h2
      obtain ⟨v, g, hv, _⟩ := (consumer_step f c s s1).mp h1
      rw [hf] at hv; cases hv
    | consumer d =>
      have hcd : c ≠ d := fun h => hij (by rw [h])
      obtain ⟨v, g, hv, ht, hg, rfl⟩ := (consumer_step f c s s1).mp h1
      obtain ⟨v', g', hv', ht', hg', rfl⟩ := (consumer_step f d s s2).mp h2
      rw [hv] at hv'; cases hv'
      -- after c (resp. d) alone the place is still full: the other one has not taken the value
      have n1 : (s.taken.set c true).all id = false :=
        not_all_of_false (d := d) (by rw [List.getElem?_set_ne hcd]; exact ht')
      have n2 : (s.taken.set d true).all id = false :=
        not_all_of_false (d := c) (by rw [List.getElem?_set_ne (Ne.symm hcd)]; exact ht)
      have e1 : afterTake s c v g = { s with taken := s.taken.set c true, got := s.got.set c (g ++ [v]) } := by
        simp [afterTake, n1]
      have e2 : afterTake s d v g' = { s with taken := s.taken.set d true, got := s.got.set d (g' ++ [v]) } := by
        simp [afterTake, n2]
      refine ⟨afterTake (afterTake s c v g) d v g', ?_, ?_⟩
      · exact (consumer_step f d _ _).mpr ⟨v, g', by rw [e1]; exact hv, by rw [e1]; simp [List.getElem?_set_ne hcd, ht'],
          by rw [e1]; simp [List.getElem?_set_ne hcd, hg'], rfl⟩
      · refine (consumer_step f c _ _).mpr ⟨v, g, by rw [e2]; exact hv, by rw [e2]; simp [List.getElem?_set_ne (Ne.symm hcd), ht],
          by rw [e2]; simp [List.getElem?_set_ne (Ne.symm hcd), hg], ?_⟩
        rw [e1, e2]
        simp only [afterTake, List.set_comm _ _ (Ne.symm hcd)]

/-- a consumer's received stream only grows -/
theorem chan_mono (f : Nat → Nat) (i : Agent) (s s' : ChanState) (h : (chanSys f).step i s = some s') (c : Nat) :
    s.got.getD c [] <+: s'.got.getD c [] := by
  cases i with
  | producer =>
    obtain ⟨_, rfl⟩ := (producer_step f s s').mp h
    exact List.prefix_refl _
  | consumer d =>
    obtain ⟨v, g, _, _, hg, rfl⟩ := (consumer_step f d s s').mp h
    have hgot : (afterTake s d v g).got = s.got.set d (g ++ [v]) := by
      unfold afterTake; split <;> rfl
    rw [hgot]
    by_cases hcd : c = d
    · subst hcd
      have hlt : c < s.got.length := (List.getElem?_eq_some_iff.mp hg).1
      simp only [List.getD_eq_getElem?_getD, hg, List.getElem?_set_self hlt, Option.getD_some]
      exact List.prefix_append _ _
    · simp only [List.getD_eq_getElem?_getD, List.getElem?_set_ne (Ne.symm hcd)]
      exact List.prefix_refl _


/-! ### networks over one-place channels with fan-out are confluent -/

variable {ι L : Type} [DecidableEq ι]

@[simp] theorem upd_same {α β : Type} [DecidableEq α] (f : α → β) (a : α) (b : β) : upd f a b a = b := by simp [upd]
theorem upd_ne {α β : Type} [DecidableEq α] (f : α → β) {a x : α} (b : β) (h : x ≠ a) : upd f a b x = f x := by simp [upd, h]
theorem upd_comm {α β : Type} [DecidableEq α] (f : α → β) {a a' : α} (b b' : β) (h : a ≠ a') :
    upd (upd f a b) a' b' = upd (upd f a' b') a b := by
  funext x
  unfold upd
  by_cases h1 : x = a
  · by_cases h2 : x = a'
    · exact absurd (h1.symm.trans h2) h
    · simp [h1, h]
  · by_cases h2 : x = a'
    · have : ¬ a' = a := fun e => h e.symm
      simp [h2, this]
    · simp [h1, h2]

theorem all_cnt_congr (l : List Nat) (c c' : Nat → Nat) (n : Nat) (h : ∀ s ∈ l, c' s = c s) :
    l.all (fun s => c' s == n) = l.all (fun s => c s == n) := by
  induction l with
  | nil => rfl
  | cons a l ih =>
    simp only [List.all_cons]
    rw [h a (by simp), ih (fun s hs => h s (by simp [hs]))]

/-- the conclusion of the diamond for an ordered pair of agents -/
def Joins (N : ChanNet ι L) (i j : ι) (σ1 σ2 : NState ι L) : Prop :=
  ∃ s3, N.step j σ1 = some s3 ∧ N.step i σ2 = some s3

theorem Joins.symm {N : ChanNet ι L} {i j : ι} {σ1 σ2 : NState ι L} (h : Joins N i j σ1 σ2) : Joins N j i σ2 σ1 := by
  obtain ⟨s3, a, b⟩ := h; exact ⟨s3, b, a⟩

/-- an internal step against anything -/
theorem join_internal (N : ChanNet ι L) (i j : ι) (σ σ1 σ2 : NState ι L) (hij : i ≠ j) (li : L)
    (hai : N.act i (σ.loc i) = .internal li) (h1 : N.step i σ = some σ1) (h2 : N.step j σ = some σ2) :
    Joins N i j σ1 σ2 := by
  have hji : j ≠ i := fun e => hij e.symm
  unfold ChanNet.step at h1 h2
  simp only [hai, Option.some.injEq] at h1
  subst h1
  cases haj : N.act j (σ.loc j) with
  | blocked => simp [haj] at h2
  | internal lj =>
    simp only [haj, Option.some.injEq] at h2
    subst h2
    refine ⟨{ σ with loc := upd (upd σ.loc i li) j lj }, ?_, ?_⟩
    · simp [ChanNet.step, upd_ne _ _ hji, haj]
    · simp [ChanNet.step, upd_ne _ _ hij, hai, upd_comm _ _ _ hij]
  | write ch v lj =>
    simp only [haj] at h2
    split at h2
    · rename_i hen
      simp only [Option.some.injEq] at h2; subst h2
      refine ⟨{ σ with loc := upd (upd σ.loc i li) j lj, sent := upd σ.sent ch (σ.sent ch + 1), val := upd σ.val ch v }, ?_, ?_⟩
      · simp [ChanNet.step, upd_ne _ _ hji, haj, hen]
      · simp [ChanNet.step, upd_ne _ _ hij, hai, upd_comm _ _ _ hij]
    · cases h2
  | read s ch k =>
    simp only [haj] at h2
    split at h2
    · rename_i hen
      simp only [Option.some.injEq] at h2; subst h2
      refine ⟨{ σ with loc := upd (upd σ.loc i li) j (k (σ.val ch)), cnt := upd σ.cnt s (σ.cnt s + 1), got := upd σ.got s (σ.got s ++ [σ.val ch]) }, ?_, ?_⟩
      · simp [ChanNet.step, upd_ne _ _ hji, haj, hen]
      · simp [ChanNet.step, upd_ne _ _ hij, hai, upd_comm _ _ _ hij]
    · cases h2

theorem join_write_write (N : ChanNet ι L) (h : N.Owned) (i j : ι) (σ σ1 σ2 : NState ι L) (hij : i ≠ j)
    (ch v : Nat) (li : L) (ch' v' : Nat) (lj : L)
    (hai : N.act i (σ.loc i) = .write ch v li) (haj : N.act j (σ.loc j) = .write ch' v' lj)
    (h1 : N.step i σ = some σ1) (h2 : N.step j σ = some σ2) : Joins N i j σ1 σ2 := by
  have hji : j ≠ i := fun e => hij e.symm
  have hch : ch ≠ ch' := by
    intro e; subst e
    exact hij ((h.write_own _ _ _ _ _ hai).symm.trans (h.write_own _ _ _ _ _ haj))
  have hch' : ch' ≠ ch := fun e => hch e.symm
  unfold ChanNet.step at h1 h2
  simp only [hai] at h1
  simp only [haj] at h2
  split at h1
  · rename_i en1
    split at h2
    · rename_i en2
      simp only [Option.some.injEq] at h1 h2; subst h1 h2
      refine ⟨{ σ with loc := upd (upd σ.loc i li) j lj,
                       sent := upd (upd σ.sent ch (σ.sent ch + 1)) ch' (σ.sent ch' + 1),
                       val := upd (upd σ.val ch v) ch' v' }, ?_, ?_⟩
      · simp [ChanNet.step, upd_ne _ _ hji, haj, upd_ne _ _ hch', en2]
      · simp [ChanNet.step, upd_ne _ _ hij, hai, upd_ne _ _ hch, en1, upd_comm _ _ _ hij, upd_comm _ _ _ hch]
    · cases h2
  · cases h1

theorem join_write_read (N : ChanNet ι L) (h : N.Owned) (i j : ι) (σ σ1 σ2 : NState ι L) (hij : i ≠ j)
    (ch v : Nat) (li : L) (s ch' : Nat) (k : Nat → L)
    (hai : N.act i (σ.loc i) = .write ch v li) (haj : N.act j (σ.loc j) = .read s ch' k)
    (h1 : N.step i σ = some σ1) (h2 : N.step j σ = some σ2) : Joins N i j σ1 σ2 := by
  have hji : j ≠ i := fun e => hij e.symm
  obtain ⟨_, hs⟩ := h.read_own _ _ _ _ _ haj
  unfold ChanNet.step at h1 h2
  simp only [hai] at h1
  simp only [haj] at h2
  split at h1
  · rename_i en1
    split at h2
    · rename_i en2
      simp only [Option.some.injEq] at h1 h2; subst h1 h2
      have hch : ch' ≠ ch := by
        intro e; subst e
        have en1a := (Bool.and_eq_true _ _ ▸ en1).2
        rw [List.all_eq_true] at en1a
        have := en1a s hs
        simp only [beq_iff_eq] at this
        omega
      have hslots : ∀ s' ∈ N.slotsOf ch, s' ≠ s := by
        intro s' hs' e; subst e
        exact hch (h.slot_chan _ _ _ hs hs')
      refine ⟨{ σ with loc := upd (upd σ.loc i li) j (k (σ.val ch')),
                       sent := upd σ.sent ch (σ.sent ch + 1), val := upd σ.val ch v,
                       cnt := upd σ.cnt s (σ.cnt s + 1), got := upd σ.got s (σ.got s ++ [σ.val ch']) }, ?_, ?_⟩
      · simp [ChanNet.step, upd_ne _ _ hji, haj, upd_ne _ _ hch, en2]
      · have en1' : (!(N.slotsOf ch).isEmpty && (N.slotsOf ch).all (fun s' => upd σ.cnt s (σ.cnt s + 1) s' == σ.sent ch)) = true := by
          rw [all_cnt_congr _ σ.cnt _ _ (fun s' hs' => upd_ne _ _ (hslots s' hs'))]; exact en1
        simp [ChanNet.step, upd_ne _ _ hij, hai, en1', upd_comm _ _ _ hij]
    · cases h2
  · cases h1

theorem join_read_read (N : ChanNet ι L) (h : N.Owned) (i j : ι) (σ σ1 σ2 : NState ι L) (hij : i ≠ j)
    (s ch : Nat) (k : Nat → L) (s' ch' : Nat) (k' : Nat → L)
    (hai : N.act i (σ.loc i) = .read s ch k) (haj : N.act j (σ.loc j) = .read s' ch' k')
    (h1 : N.step i σ = some σ1) (h2 : N.step j σ = some σ2) : Joins N i j σ1 σ2 := by
  have hji : j ≠ i := fun e => hij e.symm
  have hss : s ≠ s' := by
    intro e; subst e
    exact hij ((h.read_own _ _ _ _ _ hai).1.symm.trans (h.read_own _ _ _ _ _ haj).1)
  have hss' : s' ≠ s := fun e => hss e.symm
  unfold ChanNet.step at h1 h2
  simp only [hai] at h1
  simp only [haj] at h2
  split at h1
  · rename_i en1
    split at h2
    · rename_i en2
      simp only [Option.some.injEq] at h1 h2; subst h1 h2
      refine ⟨{ σ with loc := upd (upd σ.loc i (k (σ.val ch))) j (k' (σ.val ch')),
                       cnt := upd (upd σ.cnt s (σ.cnt s + 1)) s' (σ.cnt s' + 1),
                       got := upd (upd σ.got s (σ.got s ++ [σ.val ch])) s' (σ.got s' ++ [σ.val ch']) }, ?_, ?_⟩
      · simp [ChanNet.step, upd_ne _ _ hji, haj, upd_ne _ _ hss', en2]
      · simp [ChanNet.step, upd_ne _ _ hij, hai, upd_ne _ _ hss, en1, upd_comm _ _ _ hij, upd_comm _ _ _ hss]
    · cases h2
  · cases h1

/-- **a network of sequential agents over one-place channels with fan-out is confluent** -/
theorem chanNet_diamond (N : ChanNet ι L) (h : N.Owned) : N.sys.Diamond := by
  intro i j σ σ1 σ2 hij h1 h2
  have hji : j ≠ i := fun e => hij e.symm
  change N.step i σ = some σ1 at h1
  change N.step j σ = some σ2 at h2
  change Joins N i j σ1 σ2
  cases hai : N.act i (σ.loc i) with
  | blocked => simp [ChanNet.step, hai] at h1
  | internal li => exact join_internal N i j σ σ1 σ2 hij li hai h1 h2
  | write ch v li =>
    cases haj : N.act j (σ.loc j) with
    | blocked => simp [ChanNet.step, haj] at h2
    | internal lj => exact (join_internal N j i σ σ2 σ1 hji lj haj h2 h1).symm
    | write ch' v' lj => exact join_write_write N h i j σ σ1 σ2 hij ch v li ch' v' lj hai haj h1 h2
    | read s ch' k => exact join_write_read N h i j σ σ1 σ2 hij ch v li s ch' k hai haj h1 h2
  | read s ch k =>
    cases haj : N.act j (σ.loc j) with
    | blocked => simp [ChanNet.step, haj] at h2
    | internal lj => exact (join_internal N j i σ σ2 σ1 hji lj haj h2 h1).symm
    | write ch' v' lj => exact (join_write_read N h j i σ σ2 σ1 hji ch' v' lj s ch k haj hai h2 h1).symm
    | read s' ch' k' => exact join_read_read N h i j σ σ1 σ2 hij s ch k s' ch' k' hai haj h1 h2

/-- what a slot has received only grows -/
theorem chanNet_mono (N : ChanNet ι L) (i : ι) (σ σ' : NState ι L) (h : N.sys.step i σ = some σ') (s : Nat) :
    σ.got s <+: σ'.got s := by
  change N.step i σ = some σ' at h
  unfold ChanNet.step at h
  split at h
  · cases h; exact List.prefix_refl _
  · cases h
  · split at h
    · cases h; exact List.prefix_refl _
    · cases h
  · split at h
    · cases h
      rename_i s0 ch k _ _
      by_cases e : s = s0
      · subst e; simp only [upd_same]; exact List.prefix_append _ _
      · simp only [upd_ne _ _ e]; exact List.prefix_refl _
    · cases h


end BMV.Kpn
