/-
  Determinacy of networks of deterministic agents whose steps commute (`kahn_determinate`), by
  the classical strip-lemma argument; helper for C02 (BMV/Props/C02.lean).
-/
import BMV.Kpn
namespace BMV.Kpn

variable {ι σ : Type}

theorem run_append (S : Sys ι σ) (a b : List ι) (s : σ) :
    S.run (a ++ b) s = (S.run a s).bind (S.run b) := by
  induction a generalizing s with
  | nil => simp [Sys.run]
  | cons i a ih =>
    simp only [List.cons_append, Sys.run]
    cases S.step i s with
    | none => simp
    | some s1 => simp [ih]

/-- strip lemma: one step against a whole schedule -/
theorem strip [DecidableEq ι] (S : Sys ι σ) (hd : S.Diamond) (i : ι) (b : List ι) (s s1 sb : σ)
    (h1 : S.step i s = some s1) (hb : S.run b s = some sb) :
    ∃ b' c sc, S.run b' s1 = some sc ∧ S.run c sb = some sc := by
  induction b generalizing s s1 with
  | nil =>
    simp only [Sys.run, Option.some.injEq] at hb
    subst hb
    exact ⟨[], [i], s1, rfl, by simp [Sys.run, h1]⟩
  | cons j b ih =>
    simp only [Sys.run] at hb
    cases h2 : S.step j s with
    | none => simp [h2] at hb
    | some s2 =>
      simp only [h2, Option.bind_some] at hb
      by_cases hij : i = j
      · subst hij
        rw [h1] at h2
        cases h2
        exact ⟨b, [], sb, hb, rfl⟩
      · obtain ⟨s3, h3, h4⟩ := hd i j s s1 s2 hij h1 h2
        obtain ⟨b', c, sc, r1, r2⟩ := ih s2 s3 h4 hb
        exact ⟨j :: b', c, sc, by simp [Sys.run, h3, r1], r2⟩

/-- confluence: two schedules from the same state can be continued to a common state -/
theorem confluent [DecidableEq ι] (S : Sys ι σ) (hd : S.Diamond) (a b : List ι) (s sa sb : σ)
    (ha : S.run a s = some sa) (hb : S.run b s = some sb) :
    ∃ a' b' sc, S.run a' sa = some sc ∧ S.run b' sb = some sc := by
  induction a generalizing s b sb with
  | nil =>
    simp only [Sys.run, Option.some.injEq] at ha
    subst ha
    exact ⟨b, [], sb, hb, rfl⟩
  | cons i a ih =>
    simp only [Sys.run] at ha
    cases h1 : S.step i s with
    | none => simp [h1] at ha
    | some s1 =>
      simp only [h1, Option.bind_some] at ha
      obtain ⟨b1, c, sc1, r1, r2⟩ := strip S hd i b s s1 sb h1 hb
      obtain ⟨a', b2, sc, r3, r4⟩ := ih b1 s1 sc1 ha r1
      exact ⟨a', c ++ b2, sc, r3, by rw [run_append, r2]; exact r4⟩

theorem run_mono {κ ν : Type} (S : Sys ι σ) (hist : σ → κ → List ν)
    (hm : ∀ i s s', S.step i s = some s' → ∀ c, hist s c <+: hist s' c)
    (a : List ι) (s s' : σ) (h : S.run a s = some s') (c : κ) : hist s c <+: hist s' c := by
  induction a generalizing s with
  | nil => simp only [Sys.run, Option.some.injEq] at h; subst h; exact List.prefix_refl _
  | cons i a ih =>
    simp only [Sys.run] at h
    cases h1 : S.step i s with
    | none => simp [h1] at h
    | some s1 =>
      simp only [h1, Option.bind_some] at h
      exact (hm i s s1 h1 c).trans (ih s1 h)

/-- **determinacy**: whatever the schedules (stall patterns), the histories of every channel are
    prefix-comparable — both are prefixes of the history of a common continuation -/
theorem determinate [DecidableEq ι] {κ ν : Type} (S : Sys ι σ) (hd : S.Diamond) (hist : σ → κ → List ν)
    (hm : ∀ i s s', S.step i s = some s' → ∀ c, hist s c <+: hist s' c)
    (a b : List ι) (s sa sb : σ) (ha : S.run a s = some sa) (hb : S.run b s = some sb) (c : κ) :
    hist sa c <+: hist sb c ∨ hist sb c <+: hist sa c := by
  obtain ⟨a', b', sc, r1, r2⟩ := confluent S hd a b s sa sb ha hb
  exact List.prefix_or_prefix_of_prefix (run_mono S hist hm a' sa sc r1 c) (run_mono S hist hm b' sb sc r2 c)

end BMV.Kpn
