/-
  Helper lemmas for BMV.Lifecycle (property C17).
-/
import BMV.Lifecycle
namespace BMV.Lifecycle

/-! ### counting -/

theorem count_append (k : Kind) (a b : List Worker) : count k (a ++ b) = count k a + count k b := by
  induction a with
  | nil => simp [count]
  | cons w ws ih => simp only [List.cons_append, count, ih]; omega

theorem count_replicate (k k' : Kind) (c n : Nat) :
    count k (List.replicate n ⟨k', c, false⟩) = if k' = k then n else 0 := by
  induction n with
  | zero => simp [count]
  | succ n ih =>
    simp only [List.replicate_succ, count, ih]
    split <;> omega

theorem count_setBusy (k : Kind) (ws : List Worker) (i : Nat) (b : Bool) :
    count k (setBusy ws i b) = count k ws := by
  induction ws generalizing i with
  | nil => simp [setBusy]
  | cons w ws ih =>
    cases i with
    | zero => simp [setBusy, count]
    | succ i => simp [setBusy, count, ih]

theorem count_eraseAt_other (k : Kind) (ws : List Worker) (i : Nat) (w : Worker)
    (hg : getAt ws i = some w) (hk : w.kind ≠ k) : count k (eraseAt ws i) = count k ws := by
  induction ws generalizing i with
  | nil => simp [getAt] at hg
  | cons x xs ih =>
    cases i with
    | zero =>
      simp only [getAt, Option.some.injEq] at hg
      subst hg
      simp [eraseAt, count, hk]
    | succ i =>
      simp only [getAt] at hg
      simp [eraseAt, count, ih i hg]

theorem length_setBusy (ws : List Worker) (i : Nat) (b : Bool) :
    (setBusy ws i b).length = ws.length := by
  induction ws generalizing i with
  | nil => simp [setBusy]
  | cons w ws ih => cases i <;> simp [setBusy, ih]

theorem count_le_length (k : Kind) (ws : List Worker) : count k ws ≤ ws.length := by
  induction ws with
  | nil => simp [count]
  | cons w ws ih => simp only [count, List.length_cons]; split <;> omega

/-! ### spawns -/

theorem spawnedOf_append (k : Kind) (a b : List Act) :
    spawnedOf k (a ++ b) = spawnedOf k a + spawnedOf k b := by
  induction a with
  | nil => simp [spawnedOf]
  | cons x xs ih =>
    cases x <;> simp only [List.cons_append, spawnedOf, ih]
    omega

theorem spawnedOf_tokens (k : Kind) (idx : List Nat) : spawnedOf k (idx.map .token) = 0 := by
  induction idx with
  | nil => rfl
  | cons i is ih => simp [spawnedOf, ih]

theorem spawnedOf_answers (k : Kind) (idx : List Nat) : spawnedOf k (idx.map .answer) = 0 := by
  induction idx with
  | nil => rfl
  | cons i is ih => simp [spawnedOf, ih]

theorem spawnedOf_tick (k : Kind) (idx : List Nat) : spawnedOf k (tick idx) = 0 := by
  simp [tick, spawnedOf_append, spawnedOf_tokens, spawnedOf_answers]

theorem spawnedOf_ticks (k : Kind) (idx : List Nat) (t : Nat) :
    spawnedOf k (List.replicate t (tick idx)).flatten = 0 := by
  induction t with
  | zero => rfl
  | succ t ih => simp [List.replicate_succ, spawnedOf_append, spawnedOf_tick, ih]

theorem spawnedOf_launch_body (k : Kind) (c P E : Nat) :
    spawnedOf k (List.replicate P [Act.spawn c .emu E, Act.spawn c .proc 1]).flatten
      = P * ((if Kind.emu = k then E else 0) + (if Kind.proc = k then 1 else 0)) := by
  induction P with
  | zero => simp [spawnedOf]
  | succ P ih =>
    simp only [List.replicate_succ, List.flatten_cons, spawnedOf_append, ih, spawnedOf]
    rw [Nat.succ_mul]; omega

theorem spawnedOf_launch (k : Kind) (c P E : Nat) :
    spawnedOf k (launch c P E)
      = (if Kind.disp = k then 1 else 0)
        + P * ((if Kind.emu = k then E else 0) + (if Kind.proc = k then 1 else 0)) := by
  simp only [launch, spawnedOf, spawnedOf_launch_body]

theorem spawnedOf_simCall (k : Kind) (c P E t : Nat) (idx : List Nat) (shut : Bool) :
    spawnedOf k (simCall c P E t idx shut) = spawnedOf k (launch c P E) := by
  simp only [simCall, spawnedOf_append, spawnedOf_ticks]
  cases shut <;> simp [spawnedOf]

/-! ### a site without exit path only grows -/

theorem step_count_noexit (cfg : Cfg) (k : Kind) (hk : cfg.hasExit k = false) (s : Sys) (a : Act) :
    liveOf k (step cfg s a) = liveOf k s + spawnedOf k [a] := by
  unfold step
  split
  · rename_i hen
    cases a with
    | spawn c k' n => simp [liveOf, count_append, count_replicate, spawnedOf]
    | token i => simp [liveOf, count_setBusy, spawnedOf]
    | answer i => simp [liveOf, count_setBusy, spawnedOf]
    | shutdown c => simp [liveOf, spawnedOf]
    | exit i =>
      simp only [enabled] at hen
      split at hen
      · rename_i w hg
        simp only [Bool.and_eq_true, Bool.not_eq_true'] at hen
        have hne : w.kind ≠ k := by
          intro h; rw [h, hk] at hen; exact absurd hen.1.2 (by decide)
        simp [liveOf, spawnedOf, count_eraseAt_other k _ i w hg hne]
      · exact absurd hen (by decide)
  · cases a <;> simp [liveOf, spawnedOf] <;> rename_i hen <;> simp [enabled] at hen

theorem run_count_noexit (cfg : Cfg) (k : Kind) (hk : cfg.hasExit k = false) (as : List Act) (s : Sys) :
    liveOf k (run cfg s as) = liveOf k s + spawnedOf k as := by
  induction as generalizing s with
  | nil => simp [run, spawnedOf]
  | cons a as ih =>
    have : run cfg s (a :: as) = run cfg (step cfg s a) as := rfl
    rw [this, ih, step_count_noexit cfg k hk]
    have : spawnedOf k (a :: as) = spawnedOf k [a] + spawnedOf k as := by
      rw [← spawnedOf_append]; rfl
    omega

theorem count_filter_keep (k : Kind) (keep : Worker → Bool)
    (hkeep : ∀ w, w.kind = k → keep w = true) (ws : List Worker) :
    count k ((ws.filter keep).map idle) = count k ws := by
  induction ws with
  | nil => rfl
  | cons w ws ih =>
    by_cases hw : w.kind = k
    · rw [List.filter_cons_of_pos (hkeep w hw)]
      simp only [List.map_cons, count, ih, idle, hw]
    · cases hc : keep w
      · rw [List.filter_cons_of_neg (by simp [hc])]
        simp only [count, ih, hw, if_false, Nat.zero_add]
      · rw [List.filter_cons_of_pos hc]
        simp only [List.map_cons, count, ih, idle, hw]

theorem settle_count_noexit (cfg : Cfg) (k : Kind) (hk : cfg.hasExit k = false) (s : Sys) :
    liveOf k (settle cfg s) = liveOf k s := by
  simp only [liveOf, settle]
  apply count_filter_keep
  intro w hw
  rw [hw, hk]; rfl

/-! ### exit paths: quiescence and termination -/

theorem getAt_mem {ws : List Worker} {i : Nat} {w : Worker} (h : getAt ws i = some w) : w ∈ ws := by
  induction ws generalizing i with
  | nil => simp [getAt] at h
  | cons x xs ih =>
    cases i with
    | zero => simp only [getAt, Option.some.injEq] at h; simp [h]
    | succ i => simp only [getAt] at h; exact List.mem_cons_of_mem _ (ih h)

theorem mem_getAt {ws : List Worker} {w : Worker} (h : w ∈ ws) : ∃ i, getAt ws i = some w := by
  induction ws with
  | nil => simp at h
  | cons x xs ih =>
    rcases List.mem_cons.mp h with h | h
    · exact ⟨0, by simp [getAt, h]⟩
    · obtain ⟨i, hi⟩ := ih h
      exact ⟨i + 1, by simp [getAt, hi]⟩

/-- in a quiescent state no worker of a site with an exit path belongs to a closed call -/
theorem quiescent_closed (cfg : Cfg) (s : Sys) (hq : quiescent cfg s) (w : Worker) (hw : w ∈ s.workers)
    (he : cfg.hasExit w.kind = true) : s.closed.contains w.call = false := by
  obtain ⟨i, hi⟩ := mem_getAt hw
  have h1 := (hq i).1
  have h2 := (hq i).2
  simp only [enabled, hi] at h1 h2
  simp only [h1, he] at h2
  simpa using h2

theorem measure_setBusy_false (ws : List Worker) (i : Nat) (w : Worker)
    (hg : getAt ws i = some w) (hb : w.busy = true) :
    measure (setBusy ws i false) < measure ws := by
  induction ws generalizing i with
  | nil => simp [getAt] at hg
  | cons x xs ih =>
    cases i with
    | zero =>
      simp only [getAt, Option.some.injEq] at hg
      subst hg
      simp [setBusy, measure, hb]
    | succ i =>
      simp only [getAt] at hg
      have := ih i hg
      simp only [setBusy, measure]; omega

theorem measure_eraseAt (ws : List Worker) (i : Nat) (w : Worker) (hg : getAt ws i = some w) :
    measure (eraseAt ws i) < measure ws := by
  induction ws generalizing i with
  | nil => simp [getAt] at hg
  | cons x xs ih =>
    cases i with
    | zero => simp only [eraseAt, measure]; split <;> omega
    | succ i =>
      simp only [getAt] at hg
      have := ih i hg
      simp only [eraseAt, measure]; omega

theorem measure_le (ws : List Worker) : measure ws ≤ 2 * ws.length := by
  induction ws with
  | nil => simp [measure]
  | cons w ws ih => simp only [measure, List.length_cons]; split <;> omega

/-- every enabled move of a worker strictly decreases the measure -/
theorem internal_decreases (cfg : Cfg) (s : Sys) (a : Act) (hi : a.internal = true)
    (hen : enabled cfg s a = true) : measure (step cfg s a).workers < measure s.workers := by
  unfold step
  rw [if_pos hen]
  cases a with
  | answer i =>
    simp only [enabled] at hen
    split at hen
    · rename_i w hg; exact measure_setBusy_false _ i w hg hen
    · exact absurd hen (by decide)
  | exit i =>
    simp only [enabled] at hen
    split at hen
    · rename_i w hg; exact measure_eraseAt _ i w hg
    · exact absurd hen (by decide)
  | spawn c k n => simp [Act.internal] at hi
  | token i => simp [Act.internal] at hi
  | shutdown c => simp [Act.internal] at hi

theorem getAt_map_idle (ws : List Worker) (i : Nat) :
    getAt (ws.map idle) i = (getAt ws i).map idle := by
  induction ws generalizing i with
  | nil => simp [getAt]
  | cons w ws ih => cases i <;> simp [getAt, ih]

theorem settle_quiescent (cfg : Cfg) (s : Sys) : quiescent cfg (settle cfg s) := by
  intro i
  simp only [enabled, settle, getAt_map_idle]
  cases hg : getAt (s.workers.filter fun w => !(cfg.hasExit w.kind && s.closed.contains w.call)) i with
  | none => simp
  | some w =>
    have hm := getAt_mem hg
    have hk := (List.mem_filter.mp hm).2
    simp only [Option.map_some, idle]
    refine ⟨trivial, ?_⟩
    cases h1 : cfg.hasExit w.kind <;> cases h2 : s.closed.contains w.call <;> simp_all

/-! ### bounded termination of the workers' own moves -/

/-- every move of the list is a worker move and is enabled when its turn comes -/
def enabledRun (cfg : Cfg) : Sys → List Act → Prop
  | _, [] => True
  | s, a :: as => a.internal = true ∧ enabled cfg s a = true ∧ enabledRun cfg (step cfg s a) as

theorem enabledRun_length (cfg : Cfg) (as : List Act) (s : Sys) (h : enabledRun cfg s as) :
    as.length + measure (run cfg s as).workers ≤ measure s.workers := by
  induction as generalizing s with
  | nil => simp [run]
  | cons a as ih =>
    obtain ⟨hi, he, hr⟩ := h
    have h1 := internal_decreases cfg s a hi he
    have h2 := ih (step cfg s a) hr
    have : run cfg s (a :: as) = run cfg (step cfg s a) as := rfl
    rw [this]; simp only [List.length_cons]; omega

/-! ### sites never grow without a spawn (any configuration) -/

theorem count_eraseAt_le (k : Kind) (ws : List Worker) (i : Nat) : count k (eraseAt ws i) ≤ count k ws := by
  induction ws generalizing i with
  | nil => simp [eraseAt]
  | cons x xs ih =>
    cases i with
    | zero => simp only [eraseAt, count]; omega
    | succ i => have := ih i; simp only [eraseAt, count]; omega

theorem step_count_le (cfg : Cfg) (k : Kind) (s : Sys) (a : Act) :
    liveOf k (step cfg s a) ≤ liveOf k s + spawnedOf k [a] := by
  unfold step
  split
  · cases a with
    | spawn c k' n => simp [liveOf, count_append, count_replicate, spawnedOf]
    | token i => simp [liveOf, count_setBusy, spawnedOf]
    | answer i => simp [liveOf, count_setBusy, spawnedOf]
    | shutdown c => simp [liveOf, spawnedOf]
    | exit i => simp only [liveOf, spawnedOf]; have := count_eraseAt_le k s.workers i; omega
  · omega

theorem run_count_le (cfg : Cfg) (k : Kind) (as : List Act) (s : Sys) :
    liveOf k (run cfg s as) ≤ liveOf k s + spawnedOf k as := by
  induction as generalizing s with
  | nil => simp [run, spawnedOf]
  | cons a as ih =>
    have : run cfg s (a :: as) = run cfg (step cfg s a) as := rfl
    rw [this]
    have h1 := ih (step cfg s a)
    have h2 := step_count_le cfg k s a
    have : spawnedOf k (a :: as) = spawnedOf k [a] + spawnedOf k as := by
      rw [← spawnedOf_append]; rfl
    omega

theorem count_filter_map_le (k : Kind) (keep : Worker → Bool) (ws : List Worker) :
    count k ((ws.filter keep).map idle) ≤ count k ws := by
  induction ws with
  | nil => simp [count]
  | cons w ws ih =>
    cases hc : keep w
    · rw [List.filter_cons_of_neg (by simp [hc])]; simp only [count]; omega
    · rw [List.filter_cons_of_pos hc]; simp only [List.map_cons, count, idle]; omega

theorem settle_count_le (cfg : Cfg) (k : Kind) (s : Sys) : liveOf k (settle cfg s) ≤ liveOf k s := by
  simp only [liveOf, settle]
  exact count_filter_map_le k _ _

theorem length_eq_counts (ws : List Worker) :
    ws.length = count .proc ws + count .disp ws + count .emu ws + count .req ws + count .pool ws := by
  induction ws with
  | nil => simp [count]
  | cons w ws ih =>
    simp only [List.length_cons, count, ih]
    cases w.kind <;> simp <;> omega

/-! ### a call with exit paths and a shutdown leaves nothing behind -/

theorem mem_setBusy {ws : List Worker} {i : Nat} {b : Bool} {w : Worker} (h : w ∈ setBusy ws i b) :
    ∃ w' ∈ ws, w'.kind = w.kind ∧ w'.call = w.call := by
  induction ws generalizing i with
  | nil => simp [setBusy] at h
  | cons x xs ih =>
    cases i with
    | zero =>
      simp only [setBusy, List.mem_cons] at h
      rcases h with h | h
      · exact ⟨x, by simp, by simp [h], by simp [h]⟩
      · exact ⟨w, by simp [h], rfl, rfl⟩
    | succ i =>
      simp only [setBusy, List.mem_cons] at h
      rcases h with h | h
      · exact ⟨x, by simp, by simp [h], by simp [h]⟩
      · obtain ⟨w', hw', hk⟩ := ih h
        exact ⟨w', by simp [hw'], hk⟩

theorem mem_eraseAt {ws : List Worker} {i : Nat} {w : Worker} (h : w ∈ eraseAt ws i) : w ∈ ws := by
  induction ws generalizing i with
  | nil => simp [eraseAt] at h
  | cons x xs ih =>
    cases i with
    | zero => simp only [eraseAt] at h; simp [h]
    | succ i =>
      simp only [eraseAt, List.mem_cons] at h
      rcases h with h | h
      · simp [h]
      · simp [ih h]

/-- the acts of a list spawn only on behalf of call c -/
def spawnsOnly (c : Nat) : List Act → Prop
  | [] => True
  | .spawn c' _ _ :: as => c' = c ∧ spawnsOnly c as
  | _ :: as => spawnsOnly c as

theorem spawnsOnly_append (c : Nat) (a b : List Act) :
    spawnsOnly c (a ++ b) ↔ spawnsOnly c a ∧ spawnsOnly c b := by
  induction a with
  | nil => simp [spawnsOnly]
  | cons x xs ih => cases x <;> simp [spawnsOnly, ih, and_assoc]

theorem step_calls (cfg : Cfg) (c : Nat) (s : Sys) (a : Act) (hs : ∀ w ∈ s.workers, w.call = c)
    (ha : spawnsOnly c [a]) : ∀ w ∈ (step cfg s a).workers, w.call = c := by
  unfold step
  split
  · cases a with
    | spawn c' k n =>
      intro w hw
      simp only [List.mem_append, List.mem_replicate] at hw
      rcases hw with hw | ⟨_, hw⟩
      · exact hs w hw
      · rw [hw]; exact ha.1
    | token i => intro w hw; obtain ⟨w', hw', _, hc⟩ := mem_setBusy hw; rw [← hc]; exact hs w' hw'
    | answer i => intro w hw; obtain ⟨w', hw', _, hc⟩ := mem_setBusy hw; rw [← hc]; exact hs w' hw'
    | shutdown c' => exact hs
    | exit i => intro w hw; exact hs w (mem_eraseAt hw)
  · exact hs

theorem run_calls (cfg : Cfg) (c : Nat) (as : List Act) (s : Sys) (hs : ∀ w ∈ s.workers, w.call = c)
    (ha : spawnsOnly c as) : ∀ w ∈ (run cfg s as).workers, w.call = c := by
  induction as generalizing s with
  | nil => exact hs
  | cons a as ih =>
    have : run cfg s (a :: as) = run cfg (step cfg s a) as := rfl
    rw [this]
    have hsplit : spawnsOnly c [a] ∧ spawnsOnly c as := by
      have := (spawnsOnly_append c [a] as).mp (by simpa using ha)
      exact this
    exact ih _ (step_calls cfg c s a hs hsplit.1) hsplit.2

theorem step_closed_mono (cfg : Cfg) (s : Sys) (a : Act) (c : Nat) (h : c ∈ s.closed) :
    c ∈ (step cfg s a).closed := by
  unfold step
  split
  · cases a <;> simp [h]
  · exact h

theorem run_closed_mono (cfg : Cfg) (as : List Act) (s : Sys) (c : Nat) (h : c ∈ s.closed) :
    c ∈ (run cfg s as).closed := by
  induction as generalizing s with
  | nil => exact h
  | cons a as ih => exact ih _ (step_closed_mono cfg s a c h)

theorem run_append (cfg : Cfg) (s : Sys) (a b : List Act) :
    run cfg s (a ++ b) = run cfg (run cfg s a) b := by
  simp [run, List.foldl_append]

theorem spawnsOnly_tokens (c : Nat) (idx : List Nat) : spawnsOnly c (idx.map .token) := by
  induction idx with
  | nil => trivial
  | cons i is ih => simpa [spawnsOnly] using ih

theorem spawnsOnly_answers (c : Nat) (idx : List Nat) : spawnsOnly c (idx.map .answer) := by
  induction idx with
  | nil => trivial
  | cons i is ih => simpa [spawnsOnly] using ih

theorem spawnsOnly_ticks (c : Nat) (idx : List Nat) (t : Nat) :
    spawnsOnly c (List.replicate t (tick idx)).flatten := by
  induction t with
  | zero => trivial
  | succ t ih =>
    simp only [List.replicate_succ, List.flatten_cons, spawnsOnly_append, tick]
    exact ⟨⟨spawnsOnly_tokens c idx, spawnsOnly_answers c idx⟩, ih⟩

theorem spawnsOnly_launch (c P E : Nat) : spawnsOnly c (launch c P E) := by
  simp only [launch, spawnsOnly, true_and]
  induction P with
  | zero => trivial
  | succ P ih =>
    simp only [List.replicate_succ, List.flatten_cons, spawnsOnly_append]
    exact ⟨by simp [spawnsOnly], ih⟩

theorem spawnsOnly_simCall (c P E t : Nat) (idx : List Nat) (shut : Bool) :
    spawnsOnly c (simCall c P E t idx shut) := by
  simp only [simCall, spawnsOnly_append]
  refine ⟨⟨spawnsOnly_launch c P E, spawnsOnly_ticks c idx t⟩, ?_⟩
  cases shut <;> simp [spawnsOnly]

/-- one call with a shutdown, started with no live worker, under a configuration where every site has
    an exit path: after the workers have run as far as they can, nothing is left -/
theorem simCall_settles_empty (cfg : Cfg) (hall : ∀ k, cfg.hasExit k = true) (c P E t : Nat)
    (idx : List Nat) (s : Sys) (hs : s.workers = []) :
    (settle cfg (run cfg s (simCall c P E t idx true))).workers = [] := by
  have hcalls := run_calls cfg c (simCall c P E t idx true) s (by simp [hs])
    (spawnsOnly_simCall c P E t idx true)
  have hclosed : c ∈ (run cfg s (simCall c P E t idx true)).closed := by
    have : simCall c P E t idx true
        = (launch c P E ++ (List.replicate t (tick idx)).flatten) ++ [.shutdown c] := by
      simp [simCall]
    rw [this, run_append]
    simp [run, step, enabled]
  simp only [settle]
  rw [List.map_eq_nil_iff, List.filter_eq_nil_iff]
  intro w hw
  have h1 := hcalls w hw
  simp [hall w.kind, h1, hclosed]

end BMV.Lifecycle
