/-
  Helper lemmas for BMV.SchedSim (property C09).
-/
import BMV.SchedSim
namespace BMV.SchedSim

/-! ### steps with disjoint footprints commute: the schedule is irrelevant -/

theorem upd_same {α : Type} (f : Nat → α) (i : Nat) (v : α) : upd f i v i = v := by simp [upd]

theorem upd_other {α : Type} (f : Nat → α) (i j : Nat) (v : α) (h : j ≠ i) : upd f i v j = f j := by
  simp [upd, h]

/-- globals-free workers: whatever the order, the fold is the pointwise parallel step -/
theorem foldl_stepOne_free (m : Machine) (hfree : ∀ i, GlobalsFree (m.proc i)) (σ : List Nat)
    (hnd : σ.Nodup) (g : Globals) (c : Cells) :
    σ.foldl (stepOne m) (g, c)
      = (g, fun j => if j ∈ σ then (m.proc j [] (c j)).2 else c j) := by
  induction σ generalizing c with
  | nil => simp
  | cons i σ ih =>
    have hnd' := (List.nodup_cons.mp hnd).2
    have hi : i ∉ σ := (List.nodup_cons.mp hnd).1
    simp only [List.foldl_cons, stepOne]
    rw [hfree i g (c i)]
    rw [ih hnd']
    congr 1
    funext j
    by_cases hj : j = i
    · subst hj
      simp [hi, upd_same]
    · by_cases hm : j ∈ σ
      · simp [hm, hj, upd_other _ _ _ _ hj]
      · simp [hm, hj, upd_other _ _ _ _ hj]

theorem foldl_stepOne_complete (m : Machine) (hfree : ∀ i, GlobalsFree (m.proc i)) (n : Nat)
    (σ : List Nat) (hc : Complete n σ) (g : Globals) (c : Cells) :
    σ.foldl (stepOne m) (g, c)
      = (g, fun j => if j < n then (m.proc j [] (c j)).2 else c j) := by
  rw [foldl_stepOne_free m hfree σ hc.1]
  congr 1
  funext j
  simp [hc.2 j]

/-! ### isolation of simulations that share only untouched Globals -/

theorem evApply1_free (m : Machine) (hfree : ∀ i, GlobalsFree (m.proc i)) (g g' : Globals)
    (st : BmState) (e : Ev) :
    evApply1 m (g, st) e = (g, (evApply1 m (g', st) e).2) := by
  cases e with
  | pre a => rfl
  | post a => rfl
  | step a i =>
    simp only [evApply1]
    rw [hfree i g, hfree i g']

theorem runEvs1_free (m : Machine) (hfree : ∀ i, GlobalsFree (m.proc i)) (g g' : Globals)
    (evs : List Ev) (st : BmState) :
    runEvs1 m (g, st) evs = (g, (runEvs1 m (g', st) evs).2) := by
  induction evs generalizing st with
  | nil => rfl
  | cons e es ih =>
    simp only [runEvs1, List.foldl_cons]
    rw [evApply1_free m hfree g g' st e]
    have h2 : evApply1 m (g', st) e = (g', (evApply1 m (g', st) e).2) := by
      rw [evApply1_free m hfree g' g' st e]
    rw [h2]
    exact ih _

/-- the product run, projected on simulation a, is a's own events run alone -/
theorem runEvs_proj (ms : Nat → Machine) (hfree : ∀ a i, GlobalsFree ((ms a).proc i)) (a : Nat)
    (evs : List Ev) (g : Globals) (S : Nat → BmState) :
    (runEvs ms (g, S) evs).1 = g ∧
    (runEvs ms (g, S) evs).2 a = (runEvs1 (ms a) (g, S a) (evs.filter fun e => e.sim = a)).2 := by
  induction evs generalizing S with
  | nil => exact ⟨rfl, rfl⟩
  | cons e es ih =>
    simp only [runEvs, List.foldl_cons, evApply]
    have he := evApply1_free (ms e.sim) (hfree e.sim) g g (S e.sim) e
    rw [he]
    have ih' := ih (upd S e.sim (evApply1 (ms e.sim) (g, S e.sim) e).2)
    simp only [runEvs] at ih'
    refine ⟨ih'.1, ?_⟩
    rw [ih'.2]
    by_cases hs : e.sim = a
    · subst hs
      simp only [List.filter_cons, decide_true, if_true, runEvs1, List.foldl_cons, upd_same]
      rw [he]
    · have : (decide (e.sim = a)) = false := by simp [hs]
      simp only [List.filter_cons, this]
      rw [upd_other _ _ _ _ (Ne.symm hs)]
      rfl

/-- a tick written as events is `stepSched` -/
theorem runEvs1_tick (m : Machine) (a : Nat) (σ : Schedule) (g : Globals) (st : BmState) :
    runEvs1 m (g, st) (tickEvents a σ) = stepSched m σ g st := by
  have key : ∀ (σ : List Nat) (gs : Globals × BmState),
      List.foldl (fun x y => evApply1 m x (Ev.step a y)) gs σ
        = ((σ.foldl (stepOne m) (gs.1, gs.2.cells)).1,
            { gs.2 with cells := (σ.foldl (stepOne m) (gs.1, gs.2.cells)).2 }) := by
    intro σ
    induction σ with
    | nil => intro gs; rfl
    | cons i σ ih =>
      intro gs
      simp only [List.foldl_cons]
      rw [ih]
      rfl
  simp only [runEvs1, tickEvents, List.foldl_append, List.foldl_cons, List.foldl_nil, List.foldl_map]
  rw [key]
  rfl

/-! ### the barrier protocol -/

def nonIdle : WSt → Nat
  | .idle => 0
  | _ => 1

def busy : List WSt → Nat
  | [] => 0
  | w :: ws => nonIdle w + busy ws

theorem busy_setW (ws : List WSt) (i : Nat) (w x : WSt) (h : getW ws i = some w) :
    busy (setW ws i x) + nonIdle w = busy ws + nonIdle x := by
  induction ws generalizing i with
  | nil => simp [getW] at h
  | cons y ys ih =>
    cases i with
    | zero =>
      simp only [getW, Option.some.injEq] at h
      subst h
      simp only [setW, busy]; omega
    | succ i =>
      simp only [getW] at h
      have := ih i h
      simp only [setW, busy]; omega

theorem length_setW (ws : List WSt) (i : Nat) (x : WSt) : (setW ws i x).length = ws.length := by
  induction ws generalizing i with
  | nil => rfl
  | cons y ys ih => cases i <;> simp [setW, ih]

theorem busy_zero (ws : List WSt) (h : busy ws = 0) (i : Nat) (w : WSt) (hg : getW ws i = some w) :
    w = .idle := by
  induction ws generalizing i with
  | nil => simp [getW] at hg
  | cons y ys ih =>
    simp only [busy] at h
    cases i with
    | zero =>
      simp only [getW, Option.some.injEq] at hg
      subst hg
      cases y <;> simp [nonIdle] at h ⊢
    | succ i =>
      simp only [getW] at hg
      exact ih (by omega) i hg

theorem busy_replicate (P : Nat) : busy (List.replicate P WSt.idle) = 0 := by
  induction P with
  | zero => rfl
  | succ P ih => simp [List.replicate_succ, busy, nonIdle, ih]

/-- the inductive invariant of the barrier: the number of workers that are not idle is determined by
    main's program counter -/
def BInv (P : Nat) (s : BSt) : Prop :=
  s.ws.length = P ∧
  match s.main with
  | .pre => busy s.ws = 0
  | .sending k => busy s.ws = k ∧ k < P
  | .collecting c => busy s.ws + c = P ∧ c < P
  | .waitResult c i => busy s.ws + c = P ∧ c < P ∧ getW s.ws i = some .resulting
  | .moving => busy s.ws = 0

theorem getW_setW_same (ws : List WSt) (i : Nat) (w x : WSt) (h : getW ws i = some w) :
    getW (setW ws i x) i = some x := by
  induction ws generalizing i with
  | nil => simp [getW] at h
  | cons y ys ih =>
    cases i with
    | zero => rfl
    | succ i => simp only [getW] at h; simp [setW, getW, ih i h]

theorem binv_init (P : Nat) : BInv P (binit P) := by
  simp [BInv, binit, busy_replicate]

theorem getW_setW_other (ws : List WSt) (a b : Nat) (x : WSt) (hab : a ≠ b) :
    getW (setW ws b x) a = getW ws a := by
  induction ws generalizing a b with
  | nil => rfl
  | cons y ys ih =>
    cases a <;> cases b <;> simp_all [setW, getW]

theorem binv_step (P : Nat) (s s' : BSt) (a : BAct) (hi : BInv P s) (hs : bstep s a = some s') :
    BInv P s' := by
  obtain ⟨main, ws⟩ := s
  obtain ⟨hlen, hm⟩ := hi
  simp only at hlen hm
  cases a with
  | startTick =>
    cases main with
    | pre =>
      simp only [bstep, Option.some.injEq] at hs
      subst hs
      refine ⟨hlen, ?_⟩
      by_cases h0 : ws.length = 0
      · simp only [h0, if_true]; exact hm
      · simp only [h0, if_false]; exact ⟨hm, by omega⟩
    | _ => simp [bstep] at hs
  | token =>
    cases main with
    | sending k =>
      simp only [bstep] at hs
      split at hs
      · rename_i hidle
        simp only [Option.some.injEq] at hs
        subst hs
        have hb := busy_setW ws k .idle .stepping hidle
        simp only [nonIdle] at hb
        refine ⟨by simp [length_setW, hlen], ?_⟩
        by_cases hk : k + 1 = ws.length
        · simp only [hk, if_true]; constructor <;> omega
        · simp only [hk, if_false]; constructor <;> omega
      · simp at hs
    | _ => simp [bstep] at hs
  | finish i =>
    simp only [bstep] at hs
    split at hs
    · rename_i hst
      simp only [Option.some.injEq] at hs
      subst hs
      have hb := busy_setW ws i .stepping .answering hst
      simp only [nonIdle] at hb
      have hb' : busy (setW ws i .answering) = busy ws := by omega
      refine ⟨by simp [length_setW, hlen], ?_⟩
      cases main with
      | pre => simp only [hb']; exact hm
      | sending k => simp only [hb']; exact hm
      | collecting c => simp only [hb']; exact hm
      | waitResult c j =>
        simp only [hb']
        refine ⟨hm.1, hm.2.1, ?_⟩
        by_cases hij : j = i
        · subst hij; have := hm.2.2; rw [hst] at this; simp at this
        · rw [getW_setW_other _ _ _ _ hij]; exact hm.2.2
      | moving => simp only [hb']; exact hm
    · simp at hs
  | answer i =>
    cases main with
    | collecting c =>
      simp only [bstep] at hs
      split at hs
      · rename_i hans
        simp only [Option.some.injEq] at hs
        subst hs
        have hb := busy_setW ws i .answering .resulting hans
        simp only [nonIdle] at hb
        refine ⟨by simp [length_setW, hlen], ?_⟩
        simp only
        exact ⟨by omega, hm.2, getW_setW_same _ _ _ _ hans⟩
      · simp at hs
    | _ => simp [bstep] at hs
  | result i =>
    cases main with
    | waitResult c j =>
      simp only [bstep] at hs
      split at hs
      · rename_i hres
        simp only [Option.some.injEq] at hs
        subst hs
        have hb := busy_setW ws i .resulting .idle hres.2
        simp only [nonIdle] at hb
        refine ⟨by simp [length_setW, hlen], ?_⟩
        by_cases hc : c + 1 = ws.length
        · simp only [hc, if_true]; omega
        · simp only [hc, if_false]; constructor <;> omega
      · simp at hs
    | _ => simp [bstep] at hs
  | endTick =>
    cases main with
    | moving =>
      simp only [bstep, Option.some.injEq] at hs
      subst hs
      exact ⟨hlen, hm⟩
    | _ => simp [bstep] at hs

theorem binv_reach (P : Nat) (s : BSt) (h : BReach P s) : BInv P s := by
  induction h with
  | init => exact binv_init P
  | step a _ hs ih => exact binv_step P _ _ a ih hs

end BMV.SchedSim
