/-
  C18, towards `wf_total` (2): assignments' write lists, statements (`exec` by structural induction).
-/
import BMV.Proofs.VlogSafe1
namespace BMV.Vlog

theorem foldlM_safe {α β : Type} {P : β → Prop} (f : β → α → R β) :
    ∀ (l : List α) (b : β), P b → (∀ b a, a ∈ l → P b → Safe P (f b a)) → Safe P (l.foldlM f b)
  | [], b, hb, _ => by simp only [List.foldlM_nil]; exact Safe.pure hb
  | a :: l, b, hb, hf => by
    simp only [List.foldlM_cons]
    refine Safe.bind (hf b a (List.mem_cons_self ..) hb) (fun b' hb' => ?_)
    exact foldlM_safe f l b' hb' (fun b a ha hb => hf b a (List.mem_cons_of_mem _ ha) hb)

theorem evalSelf_safe (sigs : Array Sig) (st : State) (hst : sigs.size ≤ st.size) (e : Expr)
    (h : wfE sigs.size e = true) : Safe0 (evalSelf sigs st e) := by
  unfold evalSelf
  exact Safe.bind (selfW_safe sigs e h) (fun w _ => evalC_safe sigs st hst e h w)

theorem evalAssign_safe (sigs : Array Sig) (st : State) (hst : sigs.size ≤ st.size) (lw : Nat) (e : Expr)
    (h : wfE sigs.size e = true) : Safe0 (evalAssign sigs st lw e) := by
  unfold evalAssign
  refine Safe.bind (selfW_safe sigs e h) (fun w _ => ?_)
  exact Safe.bind (evalC_safe sigs st hst e h _) (fun _ _ => Safe.pure trivial)

theorem applyWrite_safe (sigs : Array Sig) (st : State) (n : Nat) (hst : n ≤ st.size) (w : Write) (hw : w.sig < n) :
    Safe (fun st' : State => n ≤ st'.size) (applyWrite sigs st w) := by
  unfold applyWrite
  have hlt : w.sig < st.size := by omega
  refine Safe.bind (Q := fun _ => True) (rdWord_safe st sigs _ _ hlt) (fun old _ => ?_)
  have : st[w.sig]? = some st[w.sig] := Array.getElem?_eq_getElem hlt
  simp only [this]
  exact Safe.pure (by simp [Array.set!, Array.size_setIfInBounds]; exact hst)

def WritesOk (n : Nat) (ws : List Write) : Prop := ∀ w, w ∈ ws → w.sig < n

theorem applyWritesL_safe (sigs : Array Sig) (n : Nat) (ws : List Write) (hws : WritesOk n ws) (st : State)
    (hst : n ≤ st.size) : Safe (fun st' : State => n ≤ st'.size) (ws.foldlM (applyWrite sigs) st) :=
  foldlM_safe (P := fun st' : State => n ≤ st'.size) (applyWrite sigs) ws st hst
    (fun b a ha hb => applyWrite_safe sigs b n hb a (hws a ha))

theorem applyWrites_safe (sigs : Array Sig) (n : Nat) (ws : Array Write) (hws : WritesOk n ws.toList) (st : State)
    (hst : n ≤ st.size) : Safe (fun st' : State => n ≤ st'.size) (applyWrites sigs st ws) := by
  unfold applyWrites
  rw [← Array.foldlM_toList]
  exact applyWritesL_safe sigs n ws.toList hws st hst


theorem partWrite_safe (s : Sig) (j word lo w v n : Nat) (hj : j < n) :
    Safe (fun wr : Write => wr.sig < n) (partWrite s j word lo w v) := by
  unfold partWrite
  exact Safe.ite (fun _ => Safe.throw (by elab_msg)) (fun _ => Safe.pure hj)

theorem lhsBase_safe (sigs : Array Sig) (st : State) (hst : sigs.size ≤ st.size) :
    ∀ (e : Expr), wfE sigs.size e = true →
      Safe (fun r : Sig × Nat × Nat => r.2.1 < sigs.size) (lhsBase sigs st e)
  | .sig j, h => by
    have hj : j < sigs.size := by simpa [wfE] using h
    unfold lhsBase
    refine Safe.bind (getSig_safe sigs j hj) (fun s _ => ?_)
    exact Safe.ite (fun _ => Safe.throw (by elab_msg)) (fun _ => Safe.pure hj)
  | .idx (.sig j) a, h => by
    have h' := h
    simp only [wfE, Bool.and_eq_true, decide_eq_true_eq] at h'
    unfold lhsBase
    refine Safe.bind (getSig_safe sigs j h'.1) (fun s _ => ?_)
    refine Safe.ite (fun _ => Safe.throw (by elab_msg)) (fun _ => ?_)
    refine Safe.bind (evalSelf_safe sigs st hst a h'.2) (fun k _ => ?_)
    refine Safe.bind (memIndex_safe s k) (fun _ _ => Safe.pure h'.1)
  | .id n, h => by simp [wfE] at h
  | .num _ _, _ => by unfold lhsBase; exact Safe.throw (by elab_msg)
  | .idx (.num _ _) _, _ => by unfold lhsBase; exact Safe.throw (by elab_msg)
  | .idx (.id _) _, _ => by unfold lhsBase; exact Safe.throw (by elab_msg)
  | .idx (.idx _ _) _, _ => by unfold lhsBase; exact Safe.throw (by elab_msg)
  | .idx (.rng _ _ _) _, _ => by unfold lhsBase; exact Safe.throw (by elab_msg)
  | .idx (.ipart _ _ _ _) _, _ => by unfold lhsBase; exact Safe.throw (by elab_msg)
  | .idx (.cat _) _, _ => by unfold lhsBase; exact Safe.throw (by elab_msg)
  | .idx (.rep _ _) _, _ => by unfold lhsBase; exact Safe.throw (by elab_msg)
  | .idx (.un _ _) _, _ => by unfold lhsBase; exact Safe.throw (by elab_msg)
  | .idx (.bin _ _ _) _, _ => by unfold lhsBase; exact Safe.throw (by elab_msg)
  | .idx (.cond _ _ _) _, _ => by unfold lhsBase; exact Safe.throw (by elab_msg)
  | .rng _ _ _, _ => by unfold lhsBase; exact Safe.throw (by elab_msg)
  | .ipart _ _ _ _, _ => by unfold lhsBase; exact Safe.throw (by elab_msg)
  | .cat _, _ => by unfold lhsBase; exact Safe.throw (by elab_msg)
  | .rep _ _, _ => by unfold lhsBase; exact Safe.throw (by elab_msg)
  | .un _ _, _ => by unfold lhsBase; exact Safe.throw (by elab_msg)
  | .bin _ _ _, _ => by unfold lhsBase; exact Safe.throw (by elab_msg)
  | .cond _ _ _, _ => by unfold lhsBase; exact Safe.throw (by elab_msg)


theorem WritesOk.single {n : Nat} {w : Write} (h : w.sig < n) : WritesOk n [w] := by
  intro w' hw'; simp at hw'; subst hw'; exact h

theorem WritesOk.append {n : Nat} {a b : List Write} (ha : WritesOk n a) (hb : WritesOk n b) : WritesOk n (a ++ b) := by
  intro w hw
  rcases List.mem_append.mp hw with h | h
  · exact ha w h
  · exact hb w h

mutual
theorem mkWrites_safe (sigs : Array Sig) (st : State) (hst : sigs.size ≤ st.size) (v : Nat) :
    ∀ (e : Expr), wfE sigs.size e = true → Safe (WritesOk sigs.size) (mkWrites sigs st v e)
  | .sig j, h => by
    have hj : j < sigs.size := by simpa [wfE] using h
    unfold mkWrites
    refine Safe.bind (getSig_safe sigs j hj) (fun s _ => ?_)
    exact Safe.ite (fun _ => Safe.throw (by elab_msg)) (fun _ => Safe.pure (WritesOk.single hj))
  | .idx b i, h => by
    have h' := h
    simp only [wfE, Bool.and_eq_true] at h'
    unfold mkWrites
    refine Safe.bind (evalSelf_safe sigs st hst i h'.2) (fun k _ => ?_)
    split
    · rename_i j
      have hj : j < sigs.size := by simpa [wfE] using h'.1
      refine Safe.bind (getSig_safe sigs j hj) (fun s _ => ?_)
      refine Safe.ite (fun _ => ?_) (fun _ => ?_)
      · exact Safe.bind (memIndex_safe s k) (fun _ _ => Safe.pure (WritesOk.single hj))
      · exact Safe.bind (partWrite_safe s j 0 k 1 v _ hj) (fun _ hw => Safe.pure (WritesOk.single hw))
    · refine Safe.bind (lhsBase_safe sigs st hst b h'.1) (fun r hr => ?_)
      exact Safe.bind (partWrite_safe r.1 r.2.1 r.2.2 k 1 v _ hr) (fun _ hw => Safe.pure (WritesOk.single hw))
  | .rng b m l, h => by
    have h' := h
    simp only [wfE, Bool.and_eq_true] at h'
    unfold mkWrites
    refine Safe.bind (constNat_safe m) (fun m' _ => ?_)
    refine Safe.bind (constNat_safe l) (fun l' _ => ?_)
    refine Safe.ite (fun _ => Safe.throw (by elab_msg)) (fun _ => ?_)
    refine Safe.bind (lhsBase_safe sigs st hst b h'.1.1) (fun r hr => ?_)
    exact Safe.bind (partWrite_safe r.1 r.2.1 r.2.2 _ _ v _ hr) (fun _ hw => Safe.pure (WritesOk.single hw))
  | .ipart b s0 w up, h => by
    have h' := h
    simp only [wfE, Bool.and_eq_true] at h'
    unfold mkWrites
    refine Safe.bind (constNat_safe w) (fun w' _ => ?_)
    refine Safe.bind (evalSelf_safe sigs st hst s0 h'.1.2) (fun k _ => ?_)
    refine Safe.bind (lhsBase_safe sigs st hst b h'.1.1) (fun r hr => ?_)
    refine Safe.ite (fun _ => ?_) (fun _ => Safe.ite (fun _ => Safe.throw (by elab_msg)) (fun _ => ?_))
    · exact Safe.bind (partWrite_safe r.1 r.2.1 r.2.2 _ _ v _ hr) (fun _ hw => Safe.pure (WritesOk.single hw))
    · exact Safe.bind (partWrite_safe r.1 r.2.1 r.2.2 _ _ v _ hr) (fun _ hw => Safe.pure (WritesOk.single hw))
  | .cat es, h => by
    have h' := h
    simp only [wfE] at h'
    unfold mkWrites
    exact Safe.bind (mkWritesCat_safe sigs st hst v es h') (fun r hr => Safe.pure hr)
  | .id n, h => by simp [wfE] at h
  | .num _ _, _ => by unfold mkWrites; exact Safe.throw (by elab_msg)
  | .rep _ _, _ => by unfold mkWrites; exact Safe.throw (by elab_msg)
  | .un _ _, _ => by unfold mkWrites; exact Safe.throw (by elab_msg)
  | .bin _ _ _, _ => by unfold mkWrites; exact Safe.throw (by elab_msg)
  | .cond _ _ _, _ => by unfold mkWrites; exact Safe.throw (by elab_msg)
theorem mkWritesCat_safe (sigs : Array Sig) (st : State) (hst : sigs.size ≤ st.size) (v : Nat) :
    ∀ (es : List Expr), wfEL sigs.size es = true →
      Safe (fun r : List Write × Nat => WritesOk sigs.size r.1) (mkWritesCat sigs st v es)
  | [], _ => by unfold mkWritesCat; exact Safe.pure (fun _ h => by simp at h)
  | e :: es, h => by
    have h' := h
    simp only [wfEL, Bool.and_eq_true] at h'
    unfold mkWritesCat
    refine Safe.bind (mkWritesCat_safe sigs st hst v es h'.2) (fun r hr => ?_)
    refine Safe.bind (selfW_safe sigs e h'.1) (fun we _ => ?_)
    refine Safe.bind (mkWrites_safe sigs st hst _ e h'.1) (fun ws' hws' => ?_)
    exact Safe.pure (WritesOk.append hws' hr)
end


def stepVal {β : Type} : ForInStep β → β
  | .done b => b
  | .yield b => b

theorem forIn_safe {α β : Type} {P : β → Prop} (f : α → β → R (ForInStep β)) :
    ∀ (l : List α) (b : β), P b → (∀ a b, a ∈ l → P b → Safe (fun r => P (stepVal r)) (f a b)) →
      Safe P (forIn l b f)
  | [], b, hb, _ => by simp only [List.forIn_nil]; exact Safe.pure hb
  | a :: l, b, hb, hf => by
    simp only [List.forIn_cons]
    refine Safe.bind (hf a b (List.mem_cons_self ..) hb) (fun r hr => ?_)
    cases r with
    | done b' => exact Safe.pure hr
    | yield b' => exact forIn_safe f l b' hr (fun a b ha hb => hf a b (List.mem_cons_of_mem _ ha) hb)

theorem wfEL_mem {n : Nat} : ∀ {es : List Expr} {e : Expr}, wfEL n es = true → e ∈ es → wfE n e = true
  | [], _, _, h => by simp at h
  | x :: xs, e, hw, h => by
    simp only [wfEL, Bool.and_eq_true] at hw
    rcases List.mem_cons.mp h with rfl | h'
    · exact hw.1
    · exact wfEL_mem hw.2 h'

theorem matchLabels_safe (sigs : Array Sig) (st : State) (hst : sigs.size ≤ st.size) (W v : Nat) :
    ∀ (ls : List Expr), wfEL sigs.size ls = true → Safe0 (matchLabels sigs st W v ls)
  | [], _ => by unfold matchLabels; exact Safe.pure trivial
  | l :: ls, h => by
    have h' := h
    simp only [wfEL, Bool.and_eq_true] at h'
    unfold matchLabels
    refine Safe.bind (evalC_safe sigs st hst l h'.1 W) (fun x _ => ?_)
    exact Safe.ite (fun _ => Safe.pure trivial) (fun _ => matchLabels_safe sigs st hst W v ls h'.2)

theorem caseW_safe (sigs : Array Sig) : ∀ (items : List (List Expr × Stmt)) (w : Nat),
    wfItems sigs.size items = true → Safe0 (caseW sigs w items)
  | [], w, _ => by unfold caseW; exact Safe.pure trivial
  | (ls, b) :: rest, w, h => by
    have h' := h
    simp only [wfItems, Bool.and_eq_true] at h'
    unfold caseW
    simp only []
    refine Safe.bind (Q := fun _ => True) ?_ (fun r _ => ?_)
    · refine forIn_safe (P := fun _ => True) _ ls _ trivial (fun a b ha _ => ?_)
      refine Safe.bind (selfW_safe sigs a (wfEL_mem h'.1.1 ha)) (fun _ _ => ?_)
      exact Safe.pure trivial
    · exact caseW_safe sigs rest _ h'.2


structure XOk (n : Nat) (x : XSt) : Prop where
  loc : n ≤ x.loc.size
  bw : WritesOk n x.bw.toList
  nba : WritesOk n x.nba.toList

mutual
theorem exec_safe (sigs : Array Sig) : ∀ (s : Stmt) (x : XSt), wfS sigs.size s = true → XOk sigs.size x →
    Safe (XOk sigs.size) (exec sigs x s)
  | .null, x, _, hx => by unfold exec; exact Safe.pure hx
  | .assign blocking lhs rhs, x, h, hx => by
    have h' := h
    simp only [wfS, Bool.and_eq_true] at h'
    unfold exec
    refine Safe.bind (selfW_safe sigs lhs h'.1) (fun lw _ => ?_)
    refine Safe.bind (evalAssign_safe sigs x.loc hx.loc lw rhs h'.2) (fun v _ => ?_)
    refine Safe.bind (mkWrites_safe sigs x.loc hx.loc v lhs h'.1) (fun ws hws => ?_)
    refine Safe.ite (fun _ => ?_) (fun _ => ?_)
    · refine Safe.bind (applyWritesL_safe sigs sigs.size ws hws x.loc hx.loc) (fun loc hloc => ?_)
      exact Safe.pure ⟨hloc, by simpa using WritesOk.append hx.bw hws, hx.nba⟩
    · exact Safe.pure ⟨hx.loc, hx.bw, by simpa using WritesOk.append hx.nba hws⟩
  | .ite c t e, x, h, hx => by
    have h' := h
    simp only [wfS, Bool.and_eq_true] at h'
    unfold exec
    refine Safe.bind (evalSelf_safe sigs x.loc hx.loc c h'.1.1) (fun cv _ => ?_)
    exact Safe.ite (fun _ => exec_safe sigs t x h'.1.2 hx) (fun _ => exec_safe sigs e x h'.2 hx)
  | .block _ _ ss, x, h, hx => by
    have h' := h
    simp only [wfS] at h'
    unfold exec
    exact execL_safe sigs ss x h' hx
  | .case e items dflt, x, h, hx => by
    have h' := h
    simp only [wfS, Bool.and_eq_true] at h'
    unfold exec
    refine Safe.bind (selfW_safe sigs e h'.1.1) (fun w0 _ => ?_)
    refine Safe.bind (caseW_safe sigs items w0 h'.1.2) (fun W _ => ?_)
    refine Safe.bind (evalC_safe sigs x.loc hx.loc e h'.1.1 W) (fun v _ => ?_)
    refine Safe.bind (execCase_safe sigs items x W v h'.1.2 hx) (fun r hr => ?_)
    cases r with
    | some x' => exact Safe.pure hr
    | none => exact exec_safe sigs dflt x h'.2 hx
  | .for _ _ _ _, _, h, _ => by simp [wfS] at h
theorem execL_safe (sigs : Array Sig) : ∀ (ss : List Stmt) (x : XSt), wfSL sigs.size ss = true → XOk sigs.size x →
    Safe (XOk sigs.size) (execL sigs x ss)
  | [], x, _, hx => by unfold execL; exact Safe.pure hx
  | s :: ss, x, h, hx => by
    have h' := h
    simp only [wfSL, Bool.and_eq_true] at h'
    unfold execL
    exact Safe.bind (exec_safe sigs s x h'.1 hx) (fun x' hx' => execL_safe sigs ss x' h'.2 hx')
theorem execCase_safe (sigs : Array Sig) : ∀ (items : List (List Expr × Stmt)) (x : XSt) (W v : Nat),
    wfItems sigs.size items = true → XOk sigs.size x →
    Safe (fun r : Option XSt => match r with | some x' => XOk sigs.size x' | none => True) (execCase sigs x W v items)
  | [], x, _, _, _, _ => by unfold execCase; exact Safe.pure trivial
  | (ls, b) :: rest, x, W, v, h, hx => by
    have h' := h
    simp only [wfItems, Bool.and_eq_true] at h'
    unfold execCase
    refine Safe.bind (matchLabels_safe sigs x.loc hx.loc W v ls h'.1.1) (fun m _ => ?_)
    refine Safe.ite (fun _ => ?_) (fun _ => execCase_safe sigs rest x W v h'.2 hx)
    exact Safe.bind (exec_safe sigs b x h'.1.2 hx) (fun x' hx' => Safe.pure hx')
end

end BMV.Vlog
