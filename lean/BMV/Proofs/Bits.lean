import BMV.Bits
namespace BMV.Bits

theorem foldl_acc (acc : Nat) (b : Bits) :
    b.foldl (fun acc x => 2 * acc + x.toNat) acc = acc * 2 ^ b.length + getId b := by
  induction b generalizing acc with
  | nil => simp [getId]
  | cons x xs ih =>
    simp only [List.foldl_cons, List.length_cons, getId]
    rw [ih, ih (2 * 0 + x.toNat), Nat.pow_succ]
    simp only [Nat.mul_zero, Nat.zero_add]
    rw [Nat.add_mul, Nat.add_assoc]
    congr 1
    ac_rfl

theorem getId_append (a b : Bits) : getId (a ++ b) = getId a * 2 ^ b.length + getId b := by
  unfold getId
  rw [List.foldl_append, foldl_acc]
  rfl

theorem getId_snoc (l : Bits) (x : Bool) : getId (l ++ [x]) = 2 * getId l + x.toNat := by
  rw [getId_append]; simp [getId]; omega

theorem getId_replicate_false (k : Nat) : getId (List.replicate k false) = 0 := by
  induction k with
  | zero => rfl
  | succ k ih => rw [List.replicate_succ', getId_snoc, ih]; rfl

theorem getId_lt (b : Bits) : getId b < 2 ^ b.length := by
  induction b with
  | nil => simp [getId]
  | cons x xs ih =>
    have : getId (x :: xs) = getId ([x] ++ xs) := rfl
    rw [this, getId_append]
    have hx : getId [x] ≤ 1 := by cases x <;> simp [getId]
    simp only [List.length_cons, Nat.pow_succ]
    have hp : 0 < 2 ^ xs.length := Nat.two_pow_pos _
    have : getId [x] * 2 ^ xs.length ≤ 1 * 2 ^ xs.length := Nat.mul_le_mul_right _ hx
    omega

theorem getId_zerosPrefix (w : Nat) (b : Bits) : getId (zerosPrefix w b) = getId b := by
  unfold zerosPrefix
  rw [getId_append, getId_replicate_false]; simp

theorem length_zerosPrefix (w : Nat) (b : Bits) : (zerosPrefix w b).length = max w b.length := by
  unfold zerosPrefix; simp; omega

theorem length_zerosPrefix_ge (w : Nat) (b : Bits) : w ≤ (zerosPrefix w b).length := by
  rw [length_zerosPrefix]; omega

theorem getBinaryAux_fuel (fuel n : Nat) (h : n ≤ fuel) : getBinaryAux fuel n = getBinaryAux n n := by
  induction fuel using Nat.strongRecOn generalizing n with
  | _ fuel ih =>
    cases fuel with
    | zero => have : n = 0 := by omega
              subst this; rfl
    | succ f =>
      cases n with
      | zero => simp [getBinaryAux]
      | succ m =>
        simp only [getBinaryAux]
        split
        · rfl
        · rw [ih f (by omega) ((m + 1) / 2) (by omega), ih m (by omega) ((m + 1) / 2) (by omega)]

theorem getBinary_eq (n : Nat) :
    getBinary n = if n < 2 then [n == 1] else getBinary (n / 2) ++ [n % 2 == 1] := by
  unfold getBinary
  cases n with
  | zero => simp [getBinaryAux]
  | succ m =>
    simp only [getBinaryAux]
    split
    · rfl
    · rw [getBinaryAux_fuel m ((m + 1) / 2) (by omega)]

theorem getId_getBinary (n : Nat) : getId (getBinary n) = n := by
  induction n using Nat.strongRecOn with
  | _ n ih =>
    rw [getBinary_eq]
    split
    · rename_i h
      have : n = 0 ∨ n = 1 := by omega
      rcases this with rfl | rfl <;> simp [getId]
    · rename_i h
      rw [getId_append, ih (n / 2) (by omega)]
      have : getId [n % 2 == 1] = n % 2 := by
        have : n % 2 = 0 ∨ n % 2 = 1 := by omega
        rcases this with e | e <;> simp [getId, e]
      rw [this]; simp; omega

theorem getBinary_length_pos (n : Nat) : 0 < (getBinary n).length := by
  rw [getBinary_eq]; split <;> simp

/-- `(getBinary n).length ≤ w ↔ n < 2^w` for `w ≥ 1` -/
theorem getBinary_length_le_iff (n w : Nat) (hw : 1 ≤ w) : (getBinary n).length ≤ w ↔ n < 2 ^ w := by
  induction n using Nat.strongRecOn generalizing w with
  | _ n ih =>
    rw [getBinary_eq]
    split
    · rename_i h
      simp
      constructor
      · intro _
        have : 2 ^ 1 ≤ 2 ^ w := Nat.pow_le_pow_right (by omega) hw
        omega
      · intro _; exact hw
    · rename_i h
      simp only [List.length_append, List.length_singleton]
      by_cases hw1 : w = 1
      · subst hw1
        have := getBinary_length_pos (n / 2)
        constructor
        · intro h'; omega
        · intro h'; simp at h'; omega
      · have hw2 : 1 ≤ w - 1 := by omega
        have := ih (n / 2) (by omega) (w - 1) hw2
        have e : 2 ^ w = 2 * 2 ^ (w - 1) := by
          have : w = (w - 1) + 1 := by omega
          rw [this, Nat.pow_succ]; simp; omega
        constructor
        · intro h'
          have : n / 2 < 2 ^ (w - 1) := this.mp (by omega)
          rw [e]; omega
        · intro h'
          have : n / 2 < 2 ^ (w - 1) := by rw [e] at h'; omega
          have := (ih (n / 2) (by omega) (w - 1) hw2).mpr this
          omega

/-- a value that fits its field is encoded in exactly the field's width and decodes back -/
theorem encField_fits {w n : Nat} (hw : 1 ≤ w) (h : n < 2 ^ w) :
    (encField w n).length = w ∧ getId (encField w n) = n := by
  unfold encField
  refine ⟨?_, by rw [getId_zerosPrefix, getId_getBinary]⟩
  rw [length_zerosPrefix]
  have := (getBinary_length_le_iff n w hw).mpr h
  omega

/-- a value that does not fit makes the field longer (never truncated) -/
theorem encField_overflow {w n : Nat} (hw : 1 ≤ w) (h : ¬ n < 2 ^ w) : w < (encField w n).length := by
  unfold encField
  rw [length_zerosPrefix]
  have := mt (getBinary_length_le_iff n w hw).mp h
  omega

theorem encField_length_ge (w n : Nat) : w ≤ (encField w n).length := length_zerosPrefix_ge _ _

/-- in a zero-width field even 0 takes one bit -/
theorem encField_zero_width (n : Nat) : 0 < (encField 0 n).length := by
  unfold encField; rw [length_zerosPrefix]; have := getBinary_length_pos n; omega

theorem encField_exact_iff {w n : Nat} : (encField w n).length = w ↔ (1 ≤ w ∧ n < 2 ^ w) := by
  constructor
  · intro h
    by_cases hw : 1 ≤ w
    · refine ⟨hw, ?_⟩
      refine Decidable.byContradiction fun hn => ?_
      have := encField_overflow hw hn; omega
    · have : w = 0 := by omega
      subst this
      have := encField_zero_width n; omega
  · rintro ⟨hw, h⟩; exact (encField_fits hw h).1

theorem getId_mid (p m t : Bits) : getId (p ++ (m ++ t)) / 2 ^ t.length % 2 ^ m.length = getId m := by
  rw [getId_append, getId_append]
  have h3 := getId_lt t
  have h2 := getId_lt m
  simp only [List.length_append]
  generalize getId p = A at *
  generalize getId m = B at *
  generalize getId t = C at *
  have e1 : A * 2 ^ (m.length + t.length) + (B * 2 ^ t.length + C) = C + (A * 2 ^ m.length + B) * 2 ^ t.length := by
    rw [Nat.pow_add, Nat.add_mul, Nat.mul_assoc]; omega
  rw [e1, Nat.add_mul_div_right _ _ (Nat.two_pow_pos _), Nat.div_eq_of_lt h3, Nat.zero_add,
    Nat.add_comm, Nat.add_mul_mod_self_right, Nat.mod_eq_of_lt h2]

/-- the Go slice `instr[a:a+w]` read with get_id is the HDL part-select
    `(word >> (W-a-w)) % 2^w` — bridge used by C01 -/
theorem slice_eq_extract (word : Bits) (a w : Nat) (h : a + w ≤ word.length) :
    getId ((word.drop a).take w) = (getId word / 2 ^ (word.length - a - w)) % 2 ^ w := by
  have hsplit : word = word.take a ++ ((word.drop a).take w ++ (word.drop a).drop w) := by
    rw [List.take_append_drop, List.take_append_drop]
  have hl2 : ((word.drop a).take w).length = w := by simp; omega
  have hl3 : ((word.drop a).drop w).length = word.length - a - w := by simp; omega
  have := getId_mid (word.take a) ((word.drop a).take w) ((word.drop a).drop w)
  rw [← hsplit, hl2, hl3] at this
  exact this.symm

end BMV.Bits
