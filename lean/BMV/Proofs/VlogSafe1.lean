/-
  C18, towards `wf_total`: the Hoare-style predicate `Safe` ("not an elaboration-class error, and the
  result satisfies P") and the proof that width computation and expression evaluation — every operator,
  selects, memories, division — are `Safe` on well-formed (identifier-free, in-range) expressions.
-/
import BMV.Vlog.Check
namespace BMV.Vlog

/-- `Safe P r`: `r` is not an elaboration-class error, and a successful result satisfies `P` -/
def Safe {α : Type} (P : α → Prop) (r : R α) : Prop :=
  (∀ msg, r = .error msg → ElabClassError msg = false) ∧ ∀ a, r = .ok a → P a

abbrev Safe0 {α : Type} (r : R α) : Prop := Safe (fun _ => True) r

theorem Safe.ok {α : Type} {P : α → Prop} {a : α} (h : P a) : Safe P (Except.ok a : R α) :=
  ⟨fun _ h' => (by cases h'), fun _ h' => (by cases h'; exact h)⟩

theorem Safe.pure {α : Type} {P : α → Prop} {a : α} (h : P a) : Safe P (Pure.pure a : R α) := Safe.ok h

theorem Safe.err {α : Type} {P : α → Prop} {m : String} (h : ElabClassError m = false) :
    Safe P (Except.error m : R α) :=
  ⟨fun _ h' => (by cases h'; exact h), fun _ h' => (by cases h')⟩

theorem Safe.throw {α : Type} {P : α → Prop} {m : String} (h : ElabClassError m = false) :
    Safe P (throw m : R α) := Safe.err h

theorem Safe.bind {α β : Type} {Q : α → Prop} {P : β → Prop} {x : R α} {f : α → R β}
    (hx : Safe Q x) (hf : ∀ a, Q a → Safe P (f a)) : Safe P (x >>= f) := by
  cases x with
  | error e => exact ⟨fun m h => hx.1 m (by simpa [Bind.bind, Except.bind] using h), fun a h => (by simp [Bind.bind, Except.bind] at h)⟩
  | ok a => exact hf a (hx.2 a rfl)

theorem Safe.mono {α : Type} {P Q : α → Prop} {r : R α} (h : Safe P r) (hpq : ∀ a, P a → Q a) : Safe Q r :=
  ⟨h.1, fun a ha => hpq a (h.2 a ha)⟩

theorem Safe.ite {α : Type} {P : α → Prop} {c : Prop} [Decidable c] {a b : R α}
    (ha : c → Safe P a) (hb : ¬c → Safe P b) : Safe P (if c then a else b) := by
  split
  · exact ha ‹_›
  · exact hb ‹_›

macro "elab_msg" : tactic =>
  `(tactic| simp [ElabClassError, String.toList_append, ToString.toString, List.isPrefixOf])

theorem getSig_safe (sigs : Array Sig) (i : Nat) (h : i < sigs.size) : Safe0 (getSig sigs i) := by
  unfold getSig
  have : sigs[i]? = some sigs[i] := Array.getElem?_eq_getElem h
  rw [this]
  exact Safe.pure trivial

theorem rdWord_safe (st : State) (sigs : Array Sig) (i k : Nat) (h : i < st.size) : Safe0 (rdWord st sigs i k) := by
  unfold rdWord
  have : st[i]? = some st[i] := Array.getElem?_eq_getElem h
  rw [this]
  simp only []
  split
  · exact Safe.pure trivial
  · exact Safe.throw (by elab_msg)

theorem constNat_safe (e : Expr) : Safe0 (constNat e) := by
  unfold constNat
  split
  · exact Safe.pure trivial
  · exact Safe.throw (by elab_msg)

theorem partOf_safe (name : String) (v lsb width lo w : Nat) : Safe0 (partOf name v lsb width lo w) := by
  unfold partOf
  exact Safe.ite (fun _ => Safe.throw (by elab_msg)) (fun _ => Safe.pure trivial)

theorem memIndex_safe (s : Sig) (k : Nat) : Safe0 (memIndex s k) := by
  unfold memIndex
  exact Safe.ite (fun _ => Safe.throw (by elab_msg)) (fun _ => Safe.pure trivial)


macro "safe_step" : tactic => `(tactic| first
  | exact Safe.pure trivial
  | exact Safe.ok trivial
  | exact Safe.throw (by elab_msg)
  | exact Safe.err (by elab_msg)
  | assumption
  | exact constNat_safe _
  | exact partOf_safe _ _ _ _ _ _
  | exact memIndex_safe _ _
  | (apply getSig_safe; omega)
  | (apply rdWord_safe; omega)
  | (refine Safe.ite (fun _ => ?_) (fun _ => ?_))
  | (refine Safe.bind (Q := fun _ => True) ?_ (fun _ _ => ?_))
  | split)

macro "safe" : tactic => `(tactic| repeat' safe_step)

mutual
theorem selfW_safe (sigs : Array Sig) : ∀ (e : Expr), wfE sigs.size e = true → Safe0 (selfW sigs e)
  | .num (some w) v, _ => by unfold selfW; safe
  | .num none v, _ => by unfold selfW; safe
  | .id n, h => by simp [wfE] at h
  | .sig i, h => by
    simp only [wfE, decide_eq_true_eq] at h
    unfold selfW; safe
  | .idx (.sig i) x, h => by
    simp only [wfE, Bool.and_eq_true, decide_eq_true_eq] at h
    unfold selfW; safe
  | .idx (.num _ _) _, _ => by unfold selfW; safe
  | .idx (.id _) _, _ => by unfold selfW; safe
  | .idx (.idx _ _) _, _ => by unfold selfW; safe
  | .idx (.rng _ _ _) _, _ => by unfold selfW; safe
  | .idx (.ipart _ _ _ _) _, _ => by unfold selfW; safe
  | .idx (.cat _) _, _ => by unfold selfW; safe
  | .idx (.rep _ _) _, _ => by unfold selfW; safe
  | .idx (.un _ _) _, _ => by unfold selfW; safe
  | .idx (.bin _ _ _) _, _ => by unfold selfW; safe
  | .idx (.cond _ _ _) _, _ => by unfold selfW; safe
  | .rng b m l, _ => by unfold selfW; safe
  | .ipart b s w up, _ => by unfold selfW; safe
  | .cat es, h => by
    simp only [wfE] at h
    have := selfWL_safe sigs es h
    unfold selfW; safe
  | .rep c es, h => by
    simp only [wfE, Bool.and_eq_true] at h
    have := selfWL_safe sigs es h.2
    unfold selfW; safe
  | .un op e, h => by
    simp only [wfE] at h
    have := selfW_safe sigs e h
    unfold selfW; safe
  | .bin op a b, h => by
    simp only [wfE, Bool.and_eq_true] at h
    have := selfW_safe sigs a h.1
    have := selfW_safe sigs b h.2
    unfold selfW; safe
  | .cond c a b, h => by
    simp only [wfE, Bool.and_eq_true] at h
    have := selfW_safe sigs a h.1.2
    have := selfW_safe sigs b h.2
    unfold selfW; safe
theorem selfWL_safe (sigs : Array Sig) : ∀ (es : List Expr), wfEL sigs.size es = true → Safe0 (selfWL sigs es)
  | [], _ => by unfold selfWL; safe
  | e :: es, h => by
    simp only [wfEL, Bool.and_eq_true] at h
    have := selfW_safe sigs e h.1
    have := selfWL_safe sigs es h.2
    unfold selfWL; safe
end

set_option hygiene false in
macro "safe_ih" : tactic => `(tactic| first
  | exact hA _ | exact hB _ | exact hC _ | exact hA | exact hB | exact hC
  | (apply getSig_safe; simp only [wfE, wfEL, Bool.and_eq_true, decide_eq_true_eq] at *; omega)
  | (apply rdWord_safe; simp only [wfE, wfEL, Bool.and_eq_true, decide_eq_true_eq] at *; omega)
  | (apply selfW_safe; simp only [wfE, wfEL, Bool.and_eq_true, decide_eq_true_eq] at *; simp [*])
  | (exfalso; simp [wfE] at *; done))

macro "safe2" : tactic => `(tactic| repeat' (first | safe_step | safe_ih))

mutual
theorem evalC_safe (sigs : Array Sig) (st : State) (hst : sigs.size ≤ st.size) :
    ∀ (e : Expr), wfE sigs.size e = true → ∀ (W : Nat), Safe0 (evalC sigs st W e)
  | .num (some w) v, _, _ => by unfold evalC; safe
  | .num none v, _, _ => by unfold evalC; safe
  | .id n, h, _ => by simp [wfE] at h
  | .sig i, h, _ => by unfold evalC; safe2
  | .idx b i, h, W => by
    have h' := h
    simp only [wfE, Bool.and_eq_true] at h'
    have hA := evalC_safe sigs st hst i h'.2
    have hB := evalBase_safe sigs st hst b h'.1
    unfold evalC; safe2
  | .rng b m l, h, W => by
    have h' := h
    simp only [wfE, Bool.and_eq_true] at h'
    have hB := evalBase_safe sigs st hst b h'.1.1
    unfold evalC; safe2
  | .ipart b s w up, h, W => by
    have h' := h
    simp only [wfE, Bool.and_eq_true] at h'
    have hA := evalC_safe sigs st hst s h'.1.2
    have hB := evalBase_safe sigs st hst b h'.1.1
    unfold evalC; safe2
  | .cat es, h, W => by
    have h' := h
    simp only [wfE] at h'
    have hA := evalCat_safe sigs st hst es h'
    unfold evalC; safe2
  | .rep c es, h, W => by
    have h' := h
    simp only [wfE, Bool.and_eq_true] at h'
    have hA := evalCat_safe sigs st hst es h'.2
    unfold evalC; safe2
  | .un op e, h, W => by
    have h' := h
    simp only [wfE] at h'
    have hA := evalC_safe sigs st hst e h'
    unfold evalC; safe2
  | .bin op a b, h, W => by
    have h' := h
    simp only [wfE, Bool.and_eq_true] at h'
    have hA := evalC_safe sigs st hst a h'.1
    have hB := evalC_safe sigs st hst b h'.2
    unfold evalC; safe2
  | .cond c a b, h, W => by
    have h' := h
    simp only [wfE, Bool.and_eq_true] at h'
    have hC := evalC_safe sigs st hst c h'.1.1
    have hA := evalC_safe sigs st hst a h'.1.2
    have hB := evalC_safe sigs st hst b h'.2
    unfold evalC; safe2
theorem evalBase_safe (sigs : Array Sig) (st : State) (hst : sigs.size ≤ st.size) :
    ∀ (e : Expr), wfE sigs.size e = true → Safe0 (evalBase sigs st e)
  | .sig j, h => by unfold evalBase; safe2
  | .idx (.sig j) a, h => by
    have h' := h
    simp only [wfE, Bool.and_eq_true] at h'
    have hA := evalC_safe sigs st hst a h'.2
    unfold evalBase; safe2
  | .id n, h => by simp [wfE] at h
  | .num _ _, _ => by unfold evalBase; safe2
  | .idx (.num _ _) _, _ => by unfold evalBase; safe2
  | .idx (.id _) _, _ => by unfold evalBase; safe2
  | .idx (.idx _ _) _, _ => by unfold evalBase; safe2
  | .idx (.rng _ _ _) _, _ => by unfold evalBase; safe2
  | .idx (.ipart _ _ _ _) _, _ => by unfold evalBase; safe2
  | .idx (.cat _) _, _ => by unfold evalBase; safe2
  | .idx (.rep _ _) _, _ => by unfold evalBase; safe2
  | .idx (.un _ _) _, _ => by unfold evalBase; safe2
  | .idx (.bin _ _ _) _, _ => by unfold evalBase; safe2
  | .idx (.cond _ _ _) _, _ => by unfold evalBase; safe2
  | .rng _ _ _, _ => by unfold evalBase; safe2
  | .ipart _ _ _ _, _ => by unfold evalBase; safe2
  | .cat _, _ => by unfold evalBase; safe2
  | .rep _ _, _ => by unfold evalBase; safe2
  | .un _ _, _ => by unfold evalBase; safe2
  | .bin _ _ _, _ => by unfold evalBase; safe2
  | .cond _ _ _, _ => by unfold evalBase; safe2
theorem evalCat_safe (sigs : Array Sig) (st : State) (hst : sigs.size ≤ st.size) :
    ∀ (es : List Expr), wfEL sigs.size es = true → Safe0 (evalCat sigs st es)
  | [], _ => by unfold evalCat; safe
  | e :: es, h => by
    have h' := h
    simp only [wfEL, Bool.and_eq_true] at h'
    have hA := evalC_safe sigs st hst e h'.1
    have hB := evalCat_safe sigs st hst es h'.2
    unfold evalCat; safe2
end

end BMV.Vlog
