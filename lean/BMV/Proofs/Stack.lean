/-
  Helper lemmas for C13 (BMV.Stack).  Property theorems live in BMV/Props/C13.lean.
-/
import BMV.Stack
namespace BMV.Stack

variable {α : Type}

/-! ### modular arithmetic for a variable modulus -/

theorem mod_lt2 {a D : Nat} (h : a < 2 * D) : a % D = if a < D then a else a - D := by
  split
  · exact Nat.mod_eq_of_lt ‹_›
  · rw [Nat.mod_eq_sub_mod (by omega)]; exact Nat.mod_eq_of_lt (by omega)

/-- two offsets less than `D` apart land in different slots of the ring -/
theorem mod_add_ne {a i j D : Nat} (hij : i < j) (hd : j - i < D) : (a + i) % D ≠ (a + j) % D := by
  intro h
  have h1 : (a + j - (a + i)) % D = 0 := Nat.sub_mod_eq_zero_of_mod_eq h.symm
  have h2 : a + j - (a + i) = j - i := by omega
  rw [h2, Nat.mod_eq_of_lt hd] at h1
  omega

/-- slots `(a+i) % D`, `i < n ≤ D`, are pairwise distinct -/
theorem mod_add_inj {a i j n D : Nat} (hn : n ≤ D) (hi : i < n) (hj : j < n)
    (h : (a + i) % D = (a + j) % D) : i = j := by
  rcases Nat.lt_trichotomy i j with hlt | heq | hgt
  · exact absurd h (mod_add_ne hlt (by omega))
  · exact heq
  · exact absurd h.symm (mod_add_ne hgt (by omega))

/-! ### the invariant, unpacked -/

theorem Inv.sp_le {c : Cfg} {s : S α} (h : Inv c s) : s.sp ≤ c.D := h.1
theorem Inv.sendSM_lt {c : Cfg} {s : S α} (h : Inv c s) : s.sendSM < c.nS := h.2.1
theorem Inv.recvSM_lt {c : Cfg} {s : S α} (h : Inv c s) : s.recvSM < c.nR := h.2.2.1

theorem Inv.lifo {c : Cfg} {s : S α} (h : Inv c s) (hf : c.fifo = false) : s.rp = 0 ∧ s.wp = 0 := by
  have := h.2.2.2
  simpa only [hf, Bool.false_eq_true, if_false] using this

/-- FIFO ring relation with the `% D` resolved -/
theorem Inv.ring {c : Cfg} {s : S α} (h : Inv c s) (hf : c.fifo = true) :
    s.rp < c.D ∧ s.wp < c.D ∧ (s.rp + s.sp) % c.D = s.wp ∧
    ((s.rp + s.sp < c.D ∧ s.wp = s.rp + s.sp) ∨ (c.D ≤ s.rp + s.sp ∧ s.wp + c.D = s.rp + s.sp)) := by
  have h4 := h.2.2.2
  simp only [hf, if_true] at h4
  obtain ⟨h1, h2, h3⟩ := h4
  have hle := h.1
  refine ⟨h1, h2, h3, ?_⟩
  rw [mod_lt2 (by omega)] at h3
  split at h3 <;> omega

theorem inv_of_parts {c : Cfg} {s : S α} (h1 : s.sp ≤ c.D) (h2 : s.sendSM < c.nS) (h3 : s.recvSM < c.nR)
    (h4 : c.fifo = true → s.rp < c.D ∧ s.wp < c.D ∧ (s.rp + s.sp) % c.D = s.wp)
    (h5 : c.fifo = false → s.rp = 0 ∧ s.wp = 0) : Inv c s := by
  refine ⟨h1, h2, h3, ?_⟩
  cases hf : c.fifo
  · simpa using h5 hf
  · simpa using h4 hf

/-! ### `next`, `anyLt` -/

theorem next_lt {k n : Nat} (hn : 1 ≤ n) : next k n < n := by
  unfold next; split <;> omega

theorem anyLt_true {n : Nat} {f : Nat → Bool} {k : Nat} (hk : k < n) (hf : f k = true) : anyLt n f = true := by
  unfold anyLt
  exact List.any_eq_true.mpr ⟨k, List.mem_range.mpr hk, hf⟩

/-! ### empty / full -/

theorem empty_iff {s : S α} : s.empty = true ↔ s.sp = 0 := by simp [S.empty]
theorem empty_false_iff {s : S α} : s.empty = false ↔ 0 < s.sp := by
  simp [S.empty]; omega
theorem full_iff {c : Cfg} {s : S α} : s.full c = true ↔ s.sp = c.D := by simp [S.full]
theorem full_false_iff {c : Cfg} {s : S α} : s.full c = false ↔ s.sp ≠ c.D := by simp [S.full]

/-! ### firing conditions -/

theorem rFire_eq_some {c : Cfg} {s : S α} {i : In α} {j : Nat} :
    rFire c s i = some j ↔
      i.reset = false ∧ rBranch c s i = true ∧ s.recvSM < c.nR ∧ i.rd s.recvSM = true ∧
      s.rAck s.recvSM = false ∧ s.recvSM = j := by
  unfold rFire
  split
  · rename_i h
    simp only [Bool.and_eq_true, Bool.not_eq_true', decide_eq_true_eq] at h
    simp only [Option.some.injEq]
    constructor
    · intro e; exact ⟨h.1.1.1.1, h.1.1.1.2, h.1.1.2, h.1.2, h.2, e⟩
    · intro e; exact e.2.2.2.2.2
  · rename_i h
    simp only [Bool.and_eq_true, Bool.not_eq_true', decide_eq_true_eq] at h
    constructor
    · intro e; cases e
    · intro e; exact absurd ⟨⟨⟨⟨e.1, e.2.1⟩, e.2.2.1⟩, e.2.2.2.1⟩, e.2.2.2.2.1⟩ h

theorem wFire_eq_some {c : Cfg} {s : S α} {i : In α} {k : Nat} :
    wFire c s i = some k ↔
      i.reset = false ∧ wBranch c s i = true ∧ s.sendSM < c.nS ∧ i.wr s.sendSM = true ∧
      s.sAck s.sendSM = false ∧ s.sendSM = k := by
  unfold wFire
  split
  · rename_i h
    simp only [Bool.and_eq_true, Bool.not_eq_true', decide_eq_true_eq] at h
    simp only [Option.some.injEq]
    constructor
    · intro e; exact ⟨h.1.1.1.1, h.1.1.1.2, h.1.1.2, h.1.2, h.2, e⟩
    · intro e; exact e.2.2.2.2.2
  · rename_i h
    simp only [Bool.and_eq_true, Bool.not_eq_true', decide_eq_true_eq] at h
    constructor
    · intro e; cases e
    · intro e; exact absurd ⟨⟨⟨⟨e.1, e.2.1⟩, e.2.2.1⟩, e.2.2.2.1⟩, e.2.2.2.2.1⟩ h

theorem rBranch_true {c : Cfg} {s : S α} {i : In α} :
    rBranch c s i = true ↔ anyLt c.nR i.rd = true ∧ s.empty = false := by
  simp [rBranch]

theorem wBranch_true {c : Cfg} {s : S α} {i : In α} :
    wBranch c s i = true ↔ rBranch c s i = false ∧ anyLt c.nS i.wr = true ∧ s.full c = false := by
  simp [wBranch, and_assoc]

theorem rFire_isSome_or {c : Cfg} {s : S α} {i : In α} :
    rFire c s i = none ∨ rFire c s i = some s.recvSM := by
  unfold rFire; split <;> simp

theorem wFire_isSome_or {c : Cfg} {s : S α} {i : In α} :
    wFire c s i = none ∨ wFire c s i = some s.sendSM := by
  unfold wFire; split <;> simp

/-- the two arms of the state machine are exclusive -/
theorem not_both_fire {c : Cfg} {s : S α} {i : In α} {j k : Nat}
    (hr : rFire c s i = some j) (hw : wFire c s i = some k) : False := by
  have h1 := (rFire_eq_some.mp hr).2.1
  have h2 := (wBranch_true.mp (wFire_eq_some.mp hw).2.1).1
  rw [h1] at h2; cases h2

theorem wFire_none_of_rFire {c : Cfg} {s : S α} {i : In α} {j : Nat}
    (hr : rFire c s i = some j) : wFire c s i = none := by
  rcases wFire_isSome_or (c := c) (s := s) (i := i) with h | h
  · exact h
  · exact (not_both_fire hr h).elim

theorem rFire_none_of_wFire {c : Cfg} {s : S α} {i : In α} {k : Nat}
    (hw : wFire c s i = some k) : rFire c s i = none := by
  rcases rFire_isSome_or (c := c) (s := s) (i := i) with h | h
  · exact h
  · exact (not_both_fire h hw).elim

/-! ### field projections of `step` -/

section proj
variable (z : α) (c : Cfg) (s : S α) (i : In α)

theorem step_of_reset (h : i.reset = true) : step z c s i = reset z := by
  simp only [step, h, if_true]

theorem step_mem (h : i.reset = false) : (step z c s i).mem =
    if (wFire c s i).isSome then upd s.mem (if c.fifo then s.wp else s.sp) (i.wdata s.sendSM) else s.mem := by
  simp only [step, h, Bool.false_eq_true, if_false]

theorem step_rData (h : i.reset = false) : (step z c s i).rData =
    if (rFire c s i).isSome then upd s.rData s.recvSM (s.mem (if c.fifo then s.rp else s.sp - 1)) else s.rData := by
  simp only [step, h, Bool.false_eq_true, if_false]

theorem step_sp (h : i.reset = false) : (step z c s i).sp =
    if (rFire c s i).isSome then (readPtrs c s).1 else if (wFire c s i).isSome then (writePtrs c s).1 else s.sp := by
  simp only [step, h, Bool.false_eq_true, if_false]

theorem step_rp (h : i.reset = false) : (step z c s i).rp =
    if (rFire c s i).isSome then (readPtrs c s).2 else s.rp := by
  simp only [step, h, Bool.false_eq_true, if_false]

theorem step_wp (h : i.reset = false) : (step z c s i).wp =
    if (wFire c s i).isSome then (writePtrs c s).2 else s.wp := by
  simp only [step, h, Bool.false_eq_true, if_false]

theorem step_recvSM (h : i.reset = false) : (step z c s i).recvSM =
    if rBranch c s i && decide (s.recvSM < c.nR) then next s.recvSM c.nR else s.recvSM := by
  simp only [step, h, Bool.false_eq_true, if_false]

theorem step_sendSM (h : i.reset = false) : (step z c s i).sendSM =
    if wBranch c s i && decide (s.sendSM < c.nS) then next s.sendSM c.nS else s.sendSM := by
  simp only [step, h, Bool.false_eq_true, if_false]

theorem step_rAck (h : i.reset = false) (j : Nat) : (step z c s i).rAck j =
    if j < c.nR then
      if i.rd j && !s.rAck j && s.recvSM == j && !s.empty then true
      else if !i.rd j then false else s.rAck j
    else s.rAck j := by
  simp only [step, h, Bool.false_eq_true, if_false]

theorem step_sAck (h : i.reset = false) (k : Nat) : (step z c s i).sAck k =
    if k < c.nS then
      if !rBranch c s i && i.wr k && !s.sAck k && s.sendSM == k && !s.full c then true
      else if !i.wr k then false else s.sAck k
    else s.sAck k := by
  simp only [step, h, Bool.false_eq_true, if_false]

end proj


theorem readPtrs_spec {c : Cfg} {s : S α} (h : Inv c s) (hne : 0 < s.sp) :
    (readPtrs c s).1 + 1 = s.sp ∧
    (readPtrs c s).2 = (if c.fifo then (if s.rp + 1 = c.D then 0 else s.rp + 1) else s.rp) := by
  cases hf : c.fifo
  · simp only [readPtrs, hf, Bool.false_eq_true, if_false, and_true]; omega
  · obtain ⟨h1, h2, _, h4⟩ := h.ring hf
    have hle := h.sp_le
    simp only [readPtrs, hf, if_true]
    by_cases e1 : s.rp = c.D - 1
    · have e2 : s.rp + 1 = c.D := by omega
      simp only [e1, beq_self_eq_true, if_true]
      simp only [← e1, e2, if_true, and_true]
      omega
    · have e2 : ¬ s.rp + 1 = c.D := by omega
      have e3 : (s.rp == c.D - 1) = false := by simpa using e1
      simp only [e3, Bool.false_eq_true, if_false, e2]
      split <;> simp only [and_true] <;> omega

theorem writePtrs_spec {c : Cfg} {s : S α} (h : Inv c s) (hnf : s.sp < c.D) :
    (writePtrs c s).1 = s.sp + 1 ∧
    (writePtrs c s).2 = (if c.fifo then (if s.wp + 1 = c.D then 0 else s.wp + 1) else s.wp) := by
  cases hf : c.fifo
  · simp only [writePtrs, hf, Bool.false_eq_true, if_false, and_true]
  · obtain ⟨h1, h2, _, h4⟩ := h.ring hf
    simp only [writePtrs, hf, if_true]
    by_cases e1 : s.wp = c.D - 1
    · have e2 : s.wp + 1 = c.D := by omega
      simp only [e1, beq_self_eq_true, if_true]
      simp only [← e1, e2, if_true, and_true]
      omega
    · have e2 : ¬ s.wp + 1 = c.D := by omega
      have e3 : (s.wp == c.D - 1) = false := by simpa using e1
      simp only [e3, Bool.false_eq_true, if_false, e2]
      split <;> simp only [and_true] <;> omega

/-! ### what a step does, by kind -/

theorem rFire_sp_pos {c : Cfg} {s : S α} {i : In α} {j : Nat} (hr : rFire c s i = some j) : 0 < s.sp :=
  empty_false_iff.mp (rBranch_true.mp (rFire_eq_some.mp hr).2.1).2

theorem wFire_sp_ne {c : Cfg} {s : S α} {i : In α} {k : Nat} (hw : wFire c s i = some k) : s.sp ≠ c.D :=
  full_false_iff.mp (wBranch_true.mp (wFire_eq_some.mp hw).2.1).2.2

section kinds
variable (z : α) {c : Cfg} {s : S α} {i : In α}

theorem step_read (h : i.reset = false) {j : Nat} (hr : rFire c s i = some j) :
    (step z c s i).sp = (readPtrs c s).1 ∧ (step z c s i).rp = (readPtrs c s).2 ∧
    (step z c s i).wp = s.wp ∧ (step z c s i).mem = s.mem ∧
    (step z c s i).rData = upd s.rData j (s.mem (if c.fifo then s.rp else s.sp - 1)) := by
  have hw := wFire_none_of_rFire hr
  have hj := (rFire_eq_some.mp hr).2.2.2.2.2
  rw [step_sp z c s i h, step_rp z c s i h, step_wp z c s i h, step_mem z c s i h, step_rData z c s i h, hr, hw, hj]
  simp only [Option.isSome_some, Option.isSome_none, if_true, Bool.false_eq_true, if_false, and_self]

theorem step_write (h : i.reset = false) {k : Nat} (hw : wFire c s i = some k) :
    (step z c s i).sp = (writePtrs c s).1 ∧ (step z c s i).rp = s.rp ∧
    (step z c s i).wp = (writePtrs c s).2 ∧
    (step z c s i).mem = upd s.mem (if c.fifo then s.wp else s.sp) (i.wdata k) ∧
    (step z c s i).rData = s.rData := by
  have hr := rFire_none_of_wFire hw
  have hk := (wFire_eq_some.mp hw).2.2.2.2.2
  rw [step_sp z c s i h, step_rp z c s i h, step_wp z c s i h, step_mem z c s i h, step_rData z c s i h, hr, hw, hk]
  simp only [Option.isSome_some, Option.isSome_none, if_true, Bool.false_eq_true, if_false, and_self]

theorem step_idle (h : i.reset = false) (hr : rFire c s i = none) (hw : wFire c s i = none) :
    (step z c s i).sp = s.sp ∧ (step z c s i).rp = s.rp ∧ (step z c s i).wp = s.wp ∧
    (step z c s i).mem = s.mem ∧ (step z c s i).rData = s.rData := by
  rw [step_sp z c s i h, step_rp z c s i h, step_wp z c s i h, step_mem z c s i h, step_rData z c s i h, hr, hw]
  simp only [Option.isSome_none, Bool.false_eq_true, if_false, and_self]

theorem step_sendSM_lt (hc : c.WF) (hs : s.sendSM < c.nS) : (step z c s i).sendSM < c.nS := by
  cases h : i.reset
  · rw [step_sendSM z c s i h]; split
    · exact next_lt hc.2.1
    · exact hs
  · rw [step_of_reset z c s i h]; exact hc.2.1

theorem step_recvSM_lt (hc : c.WF) (hs : s.recvSM < c.nR) : (step z c s i).recvSM < c.nR := by
  cases h : i.reset
  · rw [step_recvSM z c s i h]; split
    · exact next_lt hc.2.2
    · exact hs
  · rw [step_of_reset z c s i h]; exact hc.2.2

end kinds

/-! ### the invariant is inductive -/

theorem inv_reset' (z : α) {c : Cfg} (hc : c.WF) : Inv c (reset z) := by
  refine inv_of_parts (Nat.zero_le _) hc.2.1 hc.2.2 (fun _ => ⟨hc.1, hc.1, ?_⟩) (fun _ => ⟨rfl, rfl⟩)
  show (0 + 0) % c.D = 0
  simp

theorem inv_step' (z : α) {c : Cfg} {s : S α} (i : In α) (hc : c.WF) (h : Inv c s) :
    Inv c (step z c s i) := by
  cases hres : i.reset
  case true => rw [step_of_reset z c s i hres]; exact inv_reset' z hc
  have hS := step_sendSM_lt z (i := i) hc h.sendSM_lt
  have hR := step_recvSM_lt z (i := i) hc h.recvSM_lt
  rcases rFire_isSome_or (c := c) (s := s) (i := i) with hr | hr
  · rcases wFire_isSome_or (c := c) (s := s) (i := i) with hw | hw
    · -- idle
      obtain ⟨e1, e2, e3, -, -⟩ := step_idle z hres hr hw
      refine inv_of_parts (by rw [e1]; exact h.sp_le) hS hR ?_ ?_
      · intro hf; rw [e1, e2, e3]; obtain ⟨a, b, d, -⟩ := h.ring hf; exact ⟨a, b, d⟩
      · intro hf; rw [e2, e3]; exact h.lifo hf
    · -- write
      have hne := wFire_sp_ne hw
      have hlt : s.sp < c.D := Nat.lt_of_le_of_ne h.sp_le hne
      obtain ⟨e1, e2, e3, -, -⟩ := step_write z hres hw
      obtain ⟨p1, p2⟩ := writePtrs_spec h hlt
      rw [p1] at e1; rw [p2] at e3
      refine inv_of_parts (by rw [e1]; exact hlt) hS hR ?_ ?_
      · intro hf
        obtain ⟨a, b, _, d⟩ := h.ring hf
        rw [e1, e2, e3]; simp only [hf, if_true]
        refine ⟨a, by split <;> omega, ?_⟩
        rw [mod_lt2 (by omega)]
        split <;> split <;> omega
      · intro hf; rw [e2, e3]; simp only [hf, Bool.false_eq_true, if_false]; exact h.lifo hf
  · -- read
    have hpos := rFire_sp_pos hr
    obtain ⟨e1, e2, e3, -, -⟩ := step_read z hres hr
    obtain ⟨p1, p2⟩ := readPtrs_spec h hpos
    have hle := h.sp_le
    rw [p2] at e2
    refine inv_of_parts (by rw [e1]; omega) hS hR ?_ ?_
    · intro hf
      obtain ⟨a, b, _, d⟩ := h.ring hf
      rw [e1, e2, e3]; simp only [hf, if_true]
      refine ⟨by split <;> omega, b, ?_⟩
      rw [mod_lt2 (by split <;> omega)]
      split <;> split <;> omega
    · intro hf; rw [e2, e3]; simp only [hf, Bool.false_eq_true, if_false]; exact h.lifo hf


/-! ### the abstraction function along a step -/

theorem map_range_succ_cons {β : Type} (f : Nat → β) (n : Nat) :
    (List.range (n + 1)).map f = f 0 :: (List.range n).map (fun i => f (i + 1)) := by
  rw [List.range_succ_eq_map, List.map_cons, List.map_map]; rfl

theorem map_range_succ_snoc {β : Type} (f : Nat → β) (n : Nat) :
    (List.range (n + 1)).map f = (List.range n).map f ++ [f n] := by
  rw [List.range_succ, List.map_append, List.map_singleton]

theorem abs_length' (c : Cfg) (s : S α) : (abs c s).length = s.sp := by
  simp [abs]

theorem upd_same {β : Type} (f : Nat → β) (k : Nat) (v : β) : upd f k v k = v := by simp [upd]
theorem upd_ne {β : Type} (f : Nat → β) {k j : Nat} (v : β) (h : j ≠ k) : upd f k v j = f j := by
  simp [upd, h]

theorem abs_write (z : α) {c : Cfg} {s : S α} {i : In α} {k : Nat} (h : Inv c s)
    (hres : i.reset = false) (hw : wFire c s i = some k) :
    abs c (step z c s i) = abs c s ++ [i.wdata k] := by
  have hlt : s.sp < c.D := Nat.lt_of_le_of_ne h.sp_le (wFire_sp_ne hw)
  obtain ⟨e1, e2, -, e4, -⟩ := step_write z hres hw
  rw [(writePtrs_spec h hlt).1] at e1
  unfold abs
  rw [e1, e2, e4, map_range_succ_snoc]
  congr 1
  · apply List.map_congr_left
    intro x hx
    have hx' : x < s.sp := List.mem_range.mp hx
    apply upd_ne
    cases hf : c.fifo
    · simp only [Bool.false_eq_true, if_false]; omega
    · simp only [if_true]
      rw [← (h.ring hf).2.2.1]
      exact mod_add_ne hx' (by omega)
  · congr 1
    cases hf : c.fifo
    · simp only [Bool.false_eq_true, if_false]; exact upd_same _ _ _
    · simp only [if_true]; rw [(h.ring hf).2.2.1]; exact upd_same _ _ _

theorem abs_read_fifo (z : α) {c : Cfg} {s : S α} {i : In α} {j : Nat} (h : Inv c s) (hf : c.fifo = true)
    (hres : i.reset = false) (hr : rFire c s i = some j) :
    abs c s = (step z c s i).rData j :: abs c (step z c s i) := by
  have hpos := rFire_sp_pos hr
  obtain ⟨e1, e2, -, e4, e5⟩ := step_read z hres hr
  obtain ⟨p1, p2⟩ := readPtrs_spec h hpos
  obtain ⟨a, -, -, -⟩ := h.ring hf
  rw [p2] at e2
  simp only [hf, if_true] at e2 e5
  have hn : s.sp = (step z c s i).sp + 1 := by rw [e1]; exact p1.symm
  unfold abs
  rw [hn, map_range_succ_cons, e5, upd_same, e4, e2]
  simp only [hf, if_true, Nat.add_zero, Nat.mod_eq_of_lt a]
  congr 1
  apply List.map_congr_left
  intro x _
  congr 1
  split
  · rename_i e; rw [Nat.zero_add, ← Nat.add_assoc, Nat.add_right_comm, e, Nat.add_mod_left]
  · rw [Nat.add_assoc, Nat.add_comm x 1]

theorem abs_read_lifo (z : α) {c : Cfg} {s : S α} {i : In α} {j : Nat} (h : Inv c s) (hf : c.fifo = false)
    (hres : i.reset = false) (hr : rFire c s i = some j) :
    abs c s = abs c (step z c s i) ++ [(step z c s i).rData j] := by
  have hpos := rFire_sp_pos hr
  obtain ⟨e1, -, -, e4, e5⟩ := step_read z hres hr
  obtain ⟨p1, -⟩ := readPtrs_spec h hpos
  simp only [hf, Bool.false_eq_true, if_false] at e5
  have hn : s.sp = (step z c s i).sp + 1 := by rw [e1]; exact p1.symm
  unfold abs
  rw [e5, upd_same, e4]
  conv => lhs; rw [hn, map_range_succ_snoc]
  simp only [hf, Bool.false_eq_true, if_false]
  rw [hn, Nat.add_sub_cancel]

theorem abs_idle (z : α) {c : Cfg} {s : S α} {i : In α}
    (hres : i.reset = false) (hr : rFire c s i = none) (hw : wFire c s i = none) :
    abs c (step z c s i) = abs c s := by
  obtain ⟨e1, e2, -, e4, -⟩ := step_idle z hres hr hw
  unfold abs; rw [e1, e2, e4]

theorem abs_reset (z : α) (c : Cfg) : abs c (reset z) = [] := rfl


/-! ### acknowledgements -/

theorem sAck_cond_iff {c : Cfg} {s : S α} {i : In α} {k : Nat} (hres : i.reset = false) (hk : k < c.nS) :
    (!rBranch c s i && i.wr k && !s.sAck k && s.sendSM == k && !s.full c) = true ↔ wFire c s i = some k := by
  rw [wFire_eq_some, wBranch_true]
  simp only [Bool.and_eq_true, Bool.not_eq_true', beq_iff_eq]
  constructor
  · rintro ⟨⟨⟨⟨a, b⟩, d⟩, e⟩, f⟩
    subst e
    exact ⟨hres, ⟨a, anyLt_true hk b, f⟩, hk, b, d, rfl⟩
  · rintro ⟨-, ⟨a, -, f⟩, -, b, d, e⟩
    subst e
    exact ⟨⟨⟨⟨a, b⟩, d⟩, rfl⟩, f⟩

theorem rAck_cond_iff {c : Cfg} {s : S α} {i : In α} {j : Nat} (hres : i.reset = false) (hj : j < c.nR) :
    (i.rd j && !s.rAck j && s.recvSM == j && !s.empty) = true ↔ rFire c s i = some j := by
  rw [rFire_eq_some, rBranch_true]
  simp only [Bool.and_eq_true, Bool.not_eq_true', beq_iff_eq]
  constructor
  · rintro ⟨⟨⟨b, d⟩, e⟩, f⟩
    subst e
    exact ⟨hres, ⟨anyLt_true hj b, f⟩, hj, b, d, rfl⟩
  · rintro ⟨-, ⟨-, f⟩, -, b, d, e⟩
    subst e
    exact ⟨⟨⟨b, d⟩, rfl⟩, f⟩

theorem sAck_rises_iff (z : α) {c : Cfg} {s : S α} {i : In α} {k : Nat} (hres : i.reset = false)
    (hk : k < c.nS) : (s.sAck k = false ∧ (step z c s i).sAck k = true) ↔ wFire c s i = some k := by
  rw [step_sAck z c s i hres, if_pos hk, ← sAck_cond_iff hres hk]
  constructor
  · rintro ⟨a, b⟩
    split at b
    · assumption
    · rw [a] at b; split at b <;> cases b
  · intro h
    rw [if_pos h]
    simp only [Bool.and_eq_true, Bool.not_eq_true'] at h
    exact ⟨h.1.1.2, rfl⟩

theorem rAck_rises_iff (z : α) {c : Cfg} {s : S α} {i : In α} {j : Nat} (hres : i.reset = false)
    (hj : j < c.nR) : (s.rAck j = false ∧ (step z c s i).rAck j = true) ↔ rFire c s i = some j := by
  rw [step_rAck z c s i hres, if_pos hj, ← rAck_cond_iff hres hj]
  constructor
  · rintro ⟨a, b⟩
    split at b
    · assumption
    · rw [a] at b; split at b <;> cases b
  · intro h
    rw [if_pos h]
    simp only [Bool.and_eq_true, Bool.not_eq_true'] at h
    exact ⟨h.1.1.2, rfl⟩

/-- an acknowledged request keeps its ack while the request stays up (any `k`) -/
theorem sAck_held (z : α) {c : Cfg} {s : S α} {i : In α} {k : Nat} (hres : i.reset = false)
    (ha : s.sAck k = true) (hw : i.wr k = true) : (step z c s i).sAck k = true := by
  rw [step_sAck z c s i hres]
  simp only [ha, hw, Bool.not_true, Bool.and_false, Bool.false_and, Bool.false_eq_true, if_false, ite_self]

theorem rAck_held (z : α) {c : Cfg} {s : S α} {i : In α} {j : Nat} (hres : i.reset = false)
    (ha : s.rAck j = true) (hr : i.rd j = true) : (step z c s i).rAck j = true := by
  rw [step_rAck z c s i hres]
  simp only [ha, hr, Bool.not_true, Bool.and_false, Bool.false_and, Bool.false_eq_true, if_false, ite_self]

/-- dropping the request clears the ack -/
theorem sAck_drops (z : α) {c : Cfg} {s : S α} {i : In α} {k : Nat} (hres : i.reset = false)
    (hk : k < c.nS) (hw : i.wr k = false) : (step z c s i).sAck k = false := by
  rw [step_sAck z c s i hres, if_pos hk]
  simp only [hw, Bool.and_false, Bool.false_and, Bool.false_eq_true, if_false, Bool.not_false, if_true]

theorem rAck_drops (z : α) {c : Cfg} {s : S α} {i : In α} {j : Nat} (hres : i.reset = false)
    (hj : j < c.nR) (hr : i.rd j = false) : (step z c s i).rAck j = false := by
  rw [step_rAck z c s i hres, if_pos hj]
  simp only [hr, Bool.false_and, Bool.false_eq_true, if_false, Bool.not_false, if_true]

/-! ### counting transfers along an input history -/

/-- number of cycles of the history `is` (from state `s`) in which sender `k` transfers -/
def wCount (z : α) (c : Cfg) (k : Nat) : S α → List (In α) → Nat
  | _, [] => 0
  | s, i :: is => (if wFire c s i = some k then 1 else 0) + wCount z c k (step z c s i) is

/-- number of cycles of the history `is` (from state `s`) in which receiver `j` transfers -/
def rCount (z : α) (c : Cfg) (j : Nat) : S α → List (In α) → Nat
  | _, [] => 0
  | s, i :: is => (if rFire c s i = some j then 1 else 0) + rCount z c j (step z c s i) is

theorem wCount_acked (z : α) (c : Cfg) (k : Nat) (is : List (In α)) (s : S α)
    (hreq : ∀ i ∈ is, i.reset = false ∧ i.wr k = true) (ha : s.sAck k = true) : wCount z c k s is = 0 := by
  induction is generalizing s with
  | nil => rfl
  | cons i is ih =>
    obtain ⟨h1, h2⟩ := hreq i List.mem_cons_self
    have hn : ¬ wFire c s i = some k := by
      intro e
      obtain ⟨-, -, -, -, a, b⟩ := wFire_eq_some.mp e
      rw [b, ha] at a; cases a
    simp only [wCount, if_neg hn, Nat.zero_add]
    exact ih _ (fun x hx => hreq x (List.mem_cons_of_mem _ hx)) (sAck_held z h1 ha h2)

theorem rCount_acked (z : α) (c : Cfg) (j : Nat) (is : List (In α)) (s : S α)
    (hreq : ∀ i ∈ is, i.reset = false ∧ i.rd j = true) (ha : s.rAck j = true) : rCount z c j s is = 0 := by
  induction is generalizing s with
  | nil => rfl
  | cons i is ih =>
    obtain ⟨h1, h2⟩ := hreq i List.mem_cons_self
    have hn : ¬ rFire c s i = some j := by
      intro e
      obtain ⟨-, -, -, -, a, b⟩ := rFire_eq_some.mp e
      rw [b, ha] at a; cases a
    simp only [rCount, if_neg hn, Nat.zero_add]
    exact ih _ (fun x hx => hreq x (List.mem_cons_of_mem _ hx)) (rAck_held z h1 ha h2)

theorem wCount_le_one (z : α) (c : Cfg) (k : Nat) (is : List (In α)) (s : S α)
    (hreq : ∀ i ∈ is, i.reset = false ∧ i.wr k = true) : wCount z c k s is ≤ 1 := by
  induction is generalizing s with
  | nil => exact Nat.zero_le _
  | cons i is ih =>
    obtain ⟨h1, h2⟩ := hreq i List.mem_cons_self
    have hrest : ∀ x ∈ is, x.reset = false ∧ x.wr k = true := fun x hx => hreq x (List.mem_cons_of_mem _ hx)
    by_cases e : wFire c s i = some k
    · have hk : k < c.nS := by obtain ⟨-, -, a, -, -, b⟩ := wFire_eq_some.mp e; omega
      have := ((sAck_rises_iff z h1 hk).mpr e).2
      simp only [wCount, if_pos e, wCount_acked z c k is _ hrest this]; omega
    · simp only [wCount, if_neg e, Nat.zero_add]; exact ih _ hrest

theorem rCount_le_one (z : α) (c : Cfg) (j : Nat) (is : List (In α)) (s : S α)
    (hreq : ∀ i ∈ is, i.reset = false ∧ i.rd j = true) : rCount z c j s is ≤ 1 := by
  induction is generalizing s with
  | nil => exact Nat.zero_le _
  | cons i is ih =>
    obtain ⟨h1, h2⟩ := hreq i List.mem_cons_self
    have hrest : ∀ x ∈ is, x.reset = false ∧ x.rd j = true := fun x hx => hreq x (List.mem_cons_of_mem _ hx)
    by_cases e : rFire c s i = some j
    · have hj : j < c.nR := by obtain ⟨-, -, a, -, -, b⟩ := rFire_eq_some.mp e; omega
      have := ((rAck_rises_iff z h1 hj).mpr e).2
      simp only [rCount, if_pos e, rCount_acked z c j is _ hrest this]; omega
    · simp only [rCount, if_neg e, Nat.zero_add]; exact ih _ hrest


/-! ### register widths -/

theorem le_two_pow_neededBits {n : Nat} (hn : 1 ≤ n) : n ≤ 2 ^ neededBits n := by
  unfold neededBits
  rw [if_neg (by omega)]
  cases hfind : (List.range (n + 1)).find? (fun b => decide (1 ≤ b) && decide (n ≤ 2 ^ b)) with
  | some b =>
    have := List.find?_some hfind
    simp only [Bool.and_eq_true, decide_eq_true_eq] at this
    exact this.2
  | none =>
    have h := List.find?_eq_none.mp hfind n (List.mem_range.mpr (Nat.lt_succ_self n))
    simp only [Bool.and_eq_true, decide_eq_true_eq, not_and] at h
    exact absurd (Nat.le_of_lt Nat.lt_two_pow_self) (h hn)

/-! ### round-robin distance -/

/-- number of rotations of a mod-`n` pointer from `r` to `k` -/
def dist (n r k : Nat) : Nat := if r ≤ k then k - r else k + n - r

theorem dist_lt {n r k : Nat} (hr : r < n) (hk : k < n) : dist n r k < n := by
  unfold dist; split <;> omega

theorem dist_next {n r k : Nat} (hr : r < n) (hk : k < n) (hne : r ≠ k) :
    dist n (next r n) k + 1 = dist n r k := by
  unfold dist next; split <;> split <;> split <;> omega

theorem dist_self (n k : Nat) : dist n k k = 0 := by simp [dist]

/-! ### traces over an infinite input stream -/

/-- state after `t` clock edges on the input stream `inp`, starting from `s` -/
def stateAt (z : α) (c : Cfg) (s : S α) (inp : Nat → In α) : Nat → S α
  | 0 => s
  | t + 1 => step z c (stateAt z c s inp t) (inp t)

/-- a pending write can be served this cycle: no read takes the cycle and the store is not full -/
def wEnabled (c : Cfg) (s : S α) (i : In α) : Bool := !rBranch c s i && !s.full c

/-- number of write-enabled cycles among the first `T` -/
def enabledCount (z : α) (c : Cfg) (s : S α) (inp : Nat → In α) : Nat → Nat
  | 0 => 0
  | T + 1 => enabledCount z c s inp T + (if wEnabled c (stateAt z c s inp T) (inp T) then 1 else 0)

theorem inv_stateAt (z : α) {c : Cfg} (hc : c.WF) {s : S α} (h : Inv c s) (inp : Nat → In α) (t : Nat) :
    Inv c (stateAt z c s inp t) := by
  induction t with
  | zero => exact h
  | succ t ih => exact inv_step' z (inp t) hc ih

/-! ### liveness: one step without service moves the pointer towards the waiting agent -/

theorem read_wait_step (z : α) {c : Cfg} (hc : c.WF) {s : S α} {i : In α} {j : Nat} (hj : j < c.nR)
    (hsm : s.recvSM < c.nR) (ha : s.rAck j = false) (hres : i.reset = false) (hrd : i.rd j = true)
    (hne : s.empty = false) (hnf : rFire c s i ≠ some j) :
    (step z c s i).recvSM < c.nR ∧ (step z c s i).rAck j = false ∧
    dist c.nR (step z c s i).recvSM j + 1 = dist c.nR s.recvSM j := by
  have hrb : rBranch c s i = true := rBranch_true.mpr ⟨anyLt_true hj hrd, hne⟩
  have hsmne : s.recvSM ≠ j := by
    intro e; apply hnf; rw [rFire_eq_some]; subst e
    exact ⟨hres, hrb, hsm, hrd, ha, rfl⟩
  refine ⟨step_recvSM_lt z hc hsm, ?_, ?_⟩
  · cases hb : (step z c s i).rAck j
    · rfl
    · exact absurd ((rAck_rises_iff z hres hj).mp ⟨ha, hb⟩) hnf
  · rw [step_recvSM z c s i hres]
    simp only [hrb, hsm, decide_true, Bool.and_self, if_true]
    exact dist_next hsm hj hsmne

theorem write_wait_step (z : α) {c : Cfg} (hc : c.WF) {s : S α} {i : In α} {k : Nat} (hk : k < c.nS)
    (hsm : s.sendSM < c.nS) (ha : s.sAck k = false) (hres : i.reset = false) (hwr : i.wr k = true)
    (hnf : wFire c s i ≠ some k) :
    (step z c s i).sendSM < c.nS ∧ (step z c s i).sAck k = false ∧
    dist c.nS (step z c s i).sendSM k + (if wEnabled c s i then 1 else 0) = dist c.nS s.sendSM k := by
  refine ⟨step_sendSM_lt z hc hsm, ?_, ?_⟩
  · cases hb : (step z c s i).sAck k
    · rfl
    · exact absurd ((sAck_rises_iff z hres hk).mp ⟨ha, hb⟩) hnf
  · rw [step_sendSM z c s i hres]
    cases hen : wEnabled c s i
    · have hwb : wBranch c s i = false := by
        cases hwb : wBranch c s i
        · rfl
        · obtain ⟨a, -, b⟩ := wBranch_true.mp hwb
          simp [wEnabled, a, b] at hen
      simp only [hwb, Bool.false_and, Bool.false_eq_true, if_false, Nat.add_zero]
    · simp only [wEnabled, Bool.and_eq_true, Bool.not_eq_true'] at hen
      have hwb : wBranch c s i = true := wBranch_true.mpr ⟨hen.1, anyLt_true hk hwr, hen.2⟩
      have hsmne : s.sendSM ≠ k := by
        intro e; apply hnf; rw [wFire_eq_some]; subst e
        exact ⟨hres, hwb, hsm, hwr, ha, rfl⟩
      simp only [hwb, hsm, decide_true, Bool.and_self, if_true]
      exact dist_next hsm hk hsmne

/-- as long as receiver `j` has not been served, the pointer has come `t` positions closer -/
theorem read_wait_trace (z : α) {c : Cfg} (hc : c.WF) {s : S α} (inp : Nat → In α) {j : Nat} (hj : j < c.nR)
    (hsm : s.recvSM < c.nR) (ha : s.rAck j = false) (T : Nat)
    (hreq : ∀ t < T, (inp t).reset = false ∧ (inp t).rd j = true ∧ (stateAt z c s inp t).empty = false)
    (hnf : ∀ t < T, rFire c (stateAt z c s inp t) (inp t) ≠ some j) :
    (stateAt z c s inp T).recvSM < c.nR ∧ (stateAt z c s inp T).rAck j = false ∧
    dist c.nR (stateAt z c s inp T).recvSM j + T = dist c.nR s.recvSM j := by
  induction T with
  | zero => exact ⟨hsm, ha, rfl⟩
  | succ T ih =>
    obtain ⟨a, b, d⟩ := ih (fun t ht => hreq t (Nat.lt_succ_of_lt ht)) (fun t ht => hnf t (Nat.lt_succ_of_lt ht))
    obtain ⟨r1, r2, r3⟩ := hreq T (Nat.lt_succ_self T)
    obtain ⟨a', b', d'⟩ := read_wait_step z hc hj a b r1 r2 r3 (hnf T (Nat.lt_succ_self T))
    refine ⟨a', b', ?_⟩
    show dist c.nR (step z c (stateAt z c s inp T) (inp T)).recvSM j + (T + 1) = _
    omega

/-- as long as sender `k` has not been served, the pointer has come closer by the number of
    write-enabled cycles -/
theorem write_wait_trace (z : α) {c : Cfg} (hc : c.WF) {s : S α} (inp : Nat → In α) {k : Nat} (hk : k < c.nS)
    (hsm : s.sendSM < c.nS) (ha : s.sAck k = false) (T : Nat)
    (hreq : ∀ t < T, (inp t).reset = false ∧ (inp t).wr k = true)
    (hnf : ∀ t < T, wFire c (stateAt z c s inp t) (inp t) ≠ some k) :
    (stateAt z c s inp T).sendSM < c.nS ∧ (stateAt z c s inp T).sAck k = false ∧
    dist c.nS (stateAt z c s inp T).sendSM k + enabledCount z c s inp T = dist c.nS s.sendSM k := by
  induction T with
  | zero => exact ⟨hsm, ha, rfl⟩
  | succ T ih =>
    obtain ⟨a, b, d⟩ := ih (fun t ht => hreq t (Nat.lt_succ_of_lt ht)) (fun t ht => hnf t (Nat.lt_succ_of_lt ht))
    obtain ⟨r1, r2⟩ := hreq T (Nat.lt_succ_self T)
    obtain ⟨a', b', d'⟩ := write_wait_step z hc hk a b r1 r2 (hnf T (Nat.lt_succ_self T))
    refine ⟨a', b', ?_⟩
    show dist c.nS (step z c (stateAt z c s inp T) (inp T)).sendSM k +
      (enabledCount z c s inp T + (if wEnabled c (stateAt z c s inp T) (inp T) then 1 else 0)) = _
    omega

/-- if every cycle is write-enabled the count is the number of cycles -/
theorem enabledCount_all (z : α) (c : Cfg) (s : S α) (inp : Nat → In α) (T : Nat)
    (h : ∀ t < T, wEnabled c (stateAt z c s inp t) (inp t) = true) : enabledCount z c s inp T = T := by
  induction T with
  | zero => rfl
  | succ T ih =>
    simp only [enabledCount, h T (Nat.lt_succ_self T), if_true, ih (fun t ht => h t (Nat.lt_succ_of_lt ht))]

theorem enabledCount_mono (z : α) (c : Cfg) (s : S α) (inp : Nat → In α) {T T' : Nat} (h : T ≤ T') :
    enabledCount z c s inp T ≤ enabledCount z c s inp T' := by
  induction h with
  | refl => exact Nat.le_refl _
  | step _ ih => exact Nat.le_trans ih (Nat.le_add_right _ _)

end BMV.Stack
