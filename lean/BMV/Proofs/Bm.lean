/-
  Helper lemmas for C02 about BMV.Bm: with the repaired handshake (fix 18c0f8e in /repo, models
  BMV.Isa / BMV.Rtl as of c39ac5f) neither world ever meets the C04 signature, so the hypothesis
  `PortReuseSafe` of the stream statement holds for every machine and environment.
-/
import BMV.Bm
namespace BMV.Bm
open BMV BMV.Bits

/-! ### the repaired handshake never meets the C04 signature -/

theorem foldl_set_false_ne (done : List Nat) (l : List Bool) (k : Nat) (hk : k ∉ done) :
    (done.foldl (fun l i => l.set i false) l)[k]? = l[k]? := by
  induction done generalizing l with
  | nil => rfl
  | cons d ds ih =>
    simp only [List.foldl_cons]
    rw [ih _ (fun h => hk (List.mem_cons_of_mem _ h)), List.getElem?_set_ne]
    intro h; exact hk (by simp [h])

theorem runDeferred_inRecv (s : VmState) (k : Nat) (hv : s.inValid[k]? = some true) :
    (Isa.runDeferred s).inRecv[k]? = s.inRecv[k]? := by
  unfold Isa.runDeferred
  simp only
  apply foldl_set_false_ne
  intro h
  rw [List.mem_filter] at h
  simp [hv] at h

theorem isaHazard_false (a : Arch) (prog : List Bits) (s : VmState) : isaHazard a prog s = false := by
  unfold isaHazard
  cases hd : decode a prog s.pc with
  | none => rfl
  | some ob =>
    obtain ⟨op, body⟩ := ob
    unfold decode at hd
    cases hw : prog[s.pc]? with
    | none => simp [hw] at hd
    | some w =>
      simp only [hw, Option.map_eq_some_iff] at hd
      obtain ⟨op', hop, heq⟩ := hd
      cases heq
      have hlt : s.pc < prog.length := (List.getElem?_eq_some_iff.mp hw).1
      have hstep : Isa.step a prog s = Isa.exec a prog.length op (w.drop a.opBits) (Isa.runDeferred s) := by
        unfold Isa.step
        have : ¬ s.pc > prog.length := by omega
        have hpc : (Isa.runDeferred s).pc = s.pc := rfl
        simp only [this, if_false, hpc, hw, hop]
      have hpc : (Isa.runDeferred s).pc = s.pc := rfl
      by_cases h1 : op = "i2rw"
      · subst h1
        simp only
        by_cases hv : s.inValid[Isa.field (List.drop a.opBits w) a.r a.inBits]? = some true
        · by_cases hr : s.inRecv[Isa.field (List.drop a.opBits w) a.r a.inBits]? = some true
          · have hr2 := runDeferred_inRecv s _ hv
            rw [hr] at hr2
            have hv2 : (Isa.runDeferred s).inValid = s.inValid := rfl
            have hi2 : (Isa.runDeferred s).inputs = s.inputs := rfl
            rw [hstep]
            cases hin : s.inputs[Isa.field (List.drop a.opBits w) a.r a.inBits]? with
            | none => simp [Isa.exec, Isa.pipeOps, hv2, hi2, hv, hin]
            | some v => simp [Isa.exec, Isa.pipeOps, hv2, hi2, hv, hin, hr2, hpc]
          · simp [hr]
        · simp [hv]
      · by_cases h2 : op = "r2owa"
        · subst h2
          simp only
          by_cases hv : s.outValid[Isa.field (List.drop a.opBits w) a.r a.outBits]? = some false
          · by_cases hr : s.outRecv[Isa.field (List.drop a.opBits w) a.r a.outBits]? = some true
            · have e1 : (Isa.runDeferred s).outRecv = s.outRecv := rfl
              have e2 : (Isa.runDeferred s).outValid = s.outValid := rfl
              have e3 : (Isa.runDeferred s).regs = s.regs := rfl
              rw [hstep]
              have hgd : s.outValid.getD (Isa.field (List.drop a.opBits w) a.r a.outBits) false = false := by
                rw [List.getD_eq_getElem?_getD, hv]; rfl
              cases hreg : s.regs[Isa.field (List.drop a.opBits w) 0 a.r]? with
              | none => simp [Isa.exec, Isa.pipeOps, e1, e3, hreg]
              | some v => simp [Isa.exec, Isa.pipeOps, e1, e2, e3, hreg, hr, hv, hpc]
            · simp [hr]
          · simp [hv]
        · split
          · rename_i body' heq
            simp only [Option.some.injEq, Prod.mk.injEq] at heq
            exact absurd heq.1 h1
          · rename_i body' heq
            simp only [Option.some.injEq, Prod.mk.injEq] at heq
            exact absurd heq.1 h2
          · rfl

theorem rtlHazard_false (a : Arch) (prog : List Bits) (s : RtlState) (p : PortsIn) : rtlHazard a prog s p = false := by
  unfold rtlHazard
  simp only
  split
  · rename_i hop
    -- i2rw: with recv still up the arm does not fire
    cases hv : p.inValid.getD (Rtl.part (Rtl.fetch prog s.pc) a.maxWord (a.opBits + a.r) a.inBits) false with
    | false => simp
    | true =>
      cases hr : s.iRecv.getD (Rtl.part (Rtl.fetch prog s.pc) a.maxWord (a.opBits + a.r) a.inBits) false with
      | false => simp
      | true =>
        have : (Rtl.cycle a prog s p).pc = s.pc := by
          rw [List.getD_eq_getElem?_getD] at hr
          simp [Rtl.cycle, Rtl.mainBlock, hop, hr, Rtl.unops, Rtl.binops, Rtl.pipeOps]
        simp [this]
  · rename_i hop
    cases hw : s.waitsm with
    | true => simp
    | false =>
      cases hv : s.oVal.getD (Rtl.part (Rtl.fetch prog s.pc) a.maxWord (a.opBits + a.r) a.outBits) false with
      | false => simp
      | true =>
        cases hr : p.outRecv.getD (Rtl.part (Rtl.fetch prog s.pc) a.maxWord (a.opBits + a.r) a.outBits) false with
        | false => simp
        | true =>
          have : (Rtl.cycle a prog s p).oVal.getD (Rtl.part (Rtl.fetch prog s.pc) a.maxWord (a.opBits + a.r) a.outBits) false = false := by
            simp only [Rtl.cycle, List.getD_eq_getElem?_getD, List.getElem?_map]
            by_cases hlt : Rtl.part (Rtl.fetch prog s.pc) a.maxWord (a.opBits + a.r) a.outBits < a.m
            · rw [List.getElem?_range hlt]
              rw [List.getD_eq_getElem?_getD] at hr
              simp [Rtl.valBlock, hop, hw, hr]
            · rw [List.getElem?_eq_none (by simp; omega)]; rfl
          rw [this]; simp
  · rfl

theorem bmIsaHazard_false (m : Machine) (s : BmState) : bmIsaHazard m s = false := by
  unfold bmIsaHazard
  rw [List.any_eq_false]
  rintro ⟨v, p⟩ _
  simp only
  split <;> simp [isaHazard_false]

theorem bmRtlHazard_false (m : Machine) (h : HwState) (e : EnvIn) : bmRtlHazard m h e = false := by
  unfold bmRtlHazard
  rw [List.any_eq_false]
  rintro ⟨v, p⟩ _
  simp only
  split <;> simp [rtlHazard_false]

theorem runIsa_flag (m : Machine) (spec : EnvSpec) (n : Nat) (x r : BmState × EnvSt × Bool)
    (h : runIsa m spec n x = some r) : r.2.2 = x.2.2 := by
  induction n generalizing x with
  | zero => simp only [runIsa, Option.some.injEq] at h; rw [← h]
  | succ n ih =>
    obtain ⟨s, env, hz⟩ := x
    simp only [runIsa] at h
    split at h
    · cases h
    · rw [ih _ h]; simp [bmIsaHazard_false]

theorem runRtl_flag (m : Machine) (spec : EnvSpec) (n : Nat) (x : HwState × EnvSt × Bool) :
    (runRtl m spec n x).2.2 = x.2.2 := by
  induction n generalizing x with
  | zero => rfl
  | succ n ih =>
    obtain ⟨h, env, hz⟩ := x
    simp only [runRtl]
    rw [ih]; simp [bmRtlHazard_false]


open BMV.Topology

/-! ### the reference network of a machine is a well-owned channel network -/

theorem findIdx?_get {l : List Topology.Bond} {b : Topology.Bond} {i : Nat} (h : l.findIdx? (· = b) = some i) :
    l[i]? = some b := by
  obtain ⟨hlt, hp, _⟩ := List.findIdx?_eq_some_iff_getElem.mp h
  rw [List.getElem?_eq_getElem hlt]
  simpa using hp

theorem mem_slotsOfChan {t : Topo} {s ch : Nat} : s ∈ slotsOfChan t ch ↔ t.links[s]? = some (some ch) := by
  unfold slotsOfChan
  rw [List.mem_filterMap]
  constructor
  · rintro ⟨⟨l, i⟩, hm, hb⟩
    simp only at hb
    split at hb
    · rename_i hl
      simp only [Option.some.injEq] at hb
      subst hb hl
      exact List.mem_zipIdx_iff_getElem?.mp hm
    · cases hb
  · intro h
    exact ⟨(some ch, s), List.mem_zipIdx_iff_getElem?.mpr h, by simp⟩

theorem chanOfSlot_some {t : Topo} {s ch : Nat} (h : chanOfSlot t s = some ch) : t.links[s]? = some (some ch) := by
  unfold chanOfSlot at h
  cases hl : t.links[s]? with
  | none => simp [hl] at h
  | some l => cases l <;> simp_all

theorem procAct_read {t : Topo} {a : Arch} {prog : List Bits} {p : Nat} {v : VmState} {s ch : Nat} {k : Nat → RefLoc}
    (h : procAct t a prog p v = .read s ch k) :
    (∃ e, slotOf t ⟨2, p, e⟩ = some s) ∧ chanOfSlot t s = some ch := by
  unfold procAct at h
  split at h
  · cases h
  · rename_i op body _
    split at h
    · simp only at h
      split at h
      · cases h
      · rename_i slot hslot
        split at h
        · cases h
        · rename_i ch' hch
          cases h
          exact ⟨⟨_, hslot⟩, hch⟩
    · split at h
      · simp only at h
        split at h <;> cases h
      · split at h <;> cases h

theorem procAct_write {t : Topo} {a : Arch} {prog : List Bits} {p : Nat} {v : VmState} {ch x : Nat} {l : RefLoc}
    (h : procAct t a prog p v = .write ch x l) : ∃ e, idxOfOut t ⟨3, p, e⟩ = some ch := by
  unfold procAct at h
  split at h
  · cases h
  · split at h
    · simp only at h
      split at h
      · cases h
      · split at h <;> cases h
    · split at h
      · simp only at h
        split at h
        · cases h
        · rename_i ch' hch
          cases h
          exact ⟨_, hch⟩
      · split at h <;> cases h

theorem slotOwner_of {t : Topo} {b : Topology.Bond} {s : Nat} (h : slotOf t b = some s) :
    slotOwner t s = if b.kind = 2 then .proc b.res else .envOut b.res := by
  unfold slotOwner
  rw [findIdx?_get h]

theorem chanOwner_of {t : Topo} {b : Topology.Bond} {ch : Nat} (h : idxOfOut t b = some ch) :
    chanOwner t ch = if b.kind = 3 then .proc b.res else .envIn b.res := by
  unfold chanOwner
  rw [findIdx?_get h]

theorem refNet_owned (m : Machine) (spec : EnvSpec) : (refNet m spec).Owned where
  read_own := by
    intro i l s ch k h
    change refAct m spec i l = _ at h
    show slotOwner m.topo s = i ∧ s ∈ slotsOfChan m.topo ch
    unfold refAct at h
    split at h
    · -- processor
      split at h
      · obtain ⟨⟨e, hs⟩, hc⟩ := procAct_read h
        exact ⟨by rw [slotOwner_of hs]; rfl, mem_slotsOfChan.mpr (chanOfSlot_some hc)⟩
      · cases h
    · simp only at h
      split at h
      · cases h
      · split at h <;> cases h
    · split at h
      · cases h
      · rename_i slot hs
        split at h
        · cases h
        · rename_i ch' hc
          cases h
          exact ⟨by rw [slotOwner_of hs]; rfl, mem_slotsOfChan.mpr (chanOfSlot_some hc)⟩
    · cases h
  write_own := by
    intro i l ch v l' h
    change refAct m spec i l = _ at h
    show chanOwner m.topo ch = i
    unfold refAct at h
    split at h
    · split at h
      · obtain ⟨e, hc⟩ := procAct_write h
        rw [chanOwner_of hc]; rfl
      · cases h
    · simp only at h
      split at h
      · cases h
      · split at h
        · cases h
        · rename_i ch' hc
          cases h
          rw [chanOwner_of hc]; rfl
    · split at h
      · cases h
      · split at h <;> cases h
    · cases h
  slot_chan := by
    intro s ch ch' h1 h2
    have a := mem_slotsOfChan.mp h1
    have b := mem_slotsOfChan.mp h2
    rw [a] at b
    simpa using b


end BMV.Bm
