/-
  Helper lemmas for C15 (model: BMV/Simbox.lean).  Part 1: decimal round trip, split/join, the
  decoder of `Add` against `Rule.String`, list surgery.  Part 2 lemmas (compile / tick loop) are in
  BMV/Proofs/SimboxSim.lean.
-/
import BMV.Simbox
namespace BMV.Simbox

theorem tick_roundtrip (t : Nat) (h : t < two64) : tickOfInt (intOfTick t) = t := by
  unfold tickOfInt intOfTick two64 two63 at *
  split <;> omega

theorem intOfTick_range (t : Nat) (h : t < two64) :
    -(two63 : Int) ≤ intOfTick t ∧ intOfTick t < (two63 : Int) := by
  unfold intOfTick two64 two63 at *
  split <;> omega

theorem tickOfInt_lt (i : Int) : tickOfInt i < two64 := by
  unfold tickOfInt two64
  omega

theorem atoiNat_repr (n : Nat) : atoiNat n.repr.toList = some n := by
  unfold atoiNat
  rw [Nat.toList_repr]
  have h1 : Nat.toDigits 10 n ≠ [] := Nat.toDigits_ne_nil
  have h2 : (Nat.toDigits 10 n).all Char.isDigit = true := by
    rw [List.all_eq_true]
    intro c hc
    exact Nat.isDigit_of_mem_toDigits (by decide) (by decide) hc
  simp [h1, h2]

theorem repr_head_digit (n : Nat) : ∃ c cs, n.repr.toList = c :: cs ∧ c.isDigit = true := by
  rw [Nat.toList_repr]
  have h1 : Nat.toDigits 10 n ≠ [] := Nat.toDigits_ne_nil
  match h : Nat.toDigits 10 n with
  | [] => exact absurd h h1
  | c :: cs =>
    refine ⟨c, cs, rfl, ?_⟩
    exact Nat.isDigit_of_mem_toDigits (b := 10) (n := n) (by decide) (by decide) (by rw [h]; simp)

theorem atoi_itoa (i : Int) (h1 : -(two63 : Int) ≤ i) (h2 : i < (two63 : Int)) : atoi (itoa i) = some i := by
  unfold itoa
  split
  · rename_i hneg
    unfold atoi
    have : ("-" ++ i.natAbs.repr).toList = '-' :: i.natAbs.repr.toList := by
      rw [String.toList_append]; rfl
    rw [this]
    simp only [atoiNat_repr]
    have : i.natAbs ≤ two63 := by unfold two63 at *; omega
    simp only [this, if_true]
    congr 1; omega
  · rename_i hpos
    unfold atoi
    obtain ⟨c, cs, hc, hd⟩ := repr_head_digit i.toNat
    have hne1 : c ≠ '-' := by intro e; subst e; simp at hd
    have hne2 : c ≠ '+' := by intro e; subst e; simp at hd
    have hn := atoiNat_repr i.toNat
    rw [hc] at hn ⊢
    split
    · rename_i heq; injection heq with h _; exact absurd h hne1
    · rename_i heq; injection heq with h _; exact absurd h hne2
    · rename_i heq
      rw [hn]
      have : i.toNat < two63 := by unfold two63 at *; omega
      simp only [this, if_true]
      congr 1; omega

theorem splitStr_joinStr (ws : List String) (hne : ws ≠ []) (h : ∀ w ∈ ws, colonFree w) :
    splitStr (joinStr ws) = ws := by
  unfold splitStr joinStr
  rw [String.toList_intercalate]
  have : (":" : String).toList = [':'] := by decide
  rw [this, List.splitOn_intercalate]
  · simp [List.map_map, Function.comp_def, String.ofList_toList]
  · intro l hl
    simp only [List.mem_map] at hl
    obtain ⟨w, hw, rfl⟩ := hl
    exact h w hw
  · simpa using hne

theorem splitOn_colonFree (cs : List Char) : ∀ w ∈ cs.splitOn ':', ':' ∉ w := by
  induction cs with
  | nil => simp [List.splitOn_nil]
  | cons c cs ih =>
    rw [List.splitOn_cons_eq_if_modifyHead]
    split
    · intro w hw
      simp only [List.mem_cons] at hw
      rcases hw with rfl | hw
      · simp
      · exact ih w hw
    · rename_i hc
      have hne := List.splitOn_ne_nil ':' cs
      match hs : cs.splitOn ':' with
      | [] => exact absurd hs hne
      | w0 :: rest =>
        rw [hs] at ih
        simp only [List.modifyHead_cons, List.mem_cons]
        intro w hw
        rcases hw with rfl | hw
        · simp only [List.mem_cons, not_or]
          refine ⟨?_, ih w0 (by simp)⟩
          intro e; subst e; simp at hc
        · exact ih w (by simp [hw])

theorem splitStr_colonFree (s : String) : ∀ w ∈ splitStr s, colonFree w := by
  intro w hw
  unfold splitStr at hw
  simp only [List.mem_map] at hw
  obtain ⟨l, hl, rfl⟩ := hw
  unfold colonFree
  rw [String.toList_ofList]
  exact splitOn_colonFree _ l hl


theorem mem_bulk_not_plain : ∀ o, o ∈ bulkOptions → o ∉ plainOptions := by
  intro o h
  simp only [bulkOptions, List.mem_cons, List.not_mem_nil, or_false] at h
  rcases h with rfl | rfl | rfl | rfl <;> decide

theorem parseRule_ruleWords (r : Rule) (h : RuleWF r) : parseRule (ruleWords r) = some r := by
  obtain ⟨tc, tk, a, o, e, s⟩ := r
  obtain ⟨ho, he, hs, hshape⟩ := h
  simp only at ho he hs hshape
  subst hs
  rcases hshape with ⟨htc, ha, htk⟩ | ⟨htc, ha, htk⟩ | ⟨htc, ha, htk, hopt⟩
  · have hr := intOfTick_range tk htk
    have hat := atoi_itoa _ hr.1 hr.2
    have htr := tick_roundtrip tk htk
    rcases htc with rfl | rfl <;> rcases ha with rfl | rfl | rfl <;>
      simp [ruleWords, parseRule, timecKw, actionKw, timedKw, timedAction, hat, htr]
  · subst htk
    rcases htc with rfl | rfl | rfl <;> rcases ha with rfl | rfl <;>
      simp [ruleWords, parseRule, timecKw, actionKw, timedKw, eventKw, reportAction]
  · subst htc ha htk
    rcases hopt with hb | ⟨hp, rfl⟩
    · simp [ruleWords, parseRule, hb]
    · have : o ∉ bulkOptions := fun hb => mem_bulk_not_plain o hb hp
      simp [ruleWords, parseRule, this, hp]


theorem colonFree_unsigned : colonFree "unsigned" := by decide
theorem colonFree_empty : colonFree "" := by decide

theorem timedKw_some {w tc} (h : timedKw w = some tc) : tc = .abs ∨ tc = .rel := by
  unfold timedKw at h; split at h
  · injection h with h; exact .inl h.symm
  · split at h
    · injection h with h; exact .inr h.symm
    · cases h

theorem eventKw_some {w tc} (h : eventKw w = some tc) : tc = .onValid ∨ tc = .onRecv ∨ tc = .onExit := by
  unfold eventKw at h; split at h
  · injection h with h; exact .inl h.symm
  · split at h
    · injection h with h; exact .inr (.inl h.symm)
    · split at h
      · injection h with h; exact .inr (.inr h.symm)
      · cases h

theorem timedAction_some {w a} (h : timedAction w = some a) : a = .set ∨ a = .get ∨ a = .show := by
  unfold timedAction at h; split at h
  · injection h with h; exact .inl h.symm
  · split at h
    · injection h with h; exact .inr (.inl h.symm)
    · split at h
      · injection h with h; exact .inr (.inr h.symm)
      · cases h

theorem reportAction_some {w a} (h : reportAction w = some a) : a = .get ∨ a = .show := by
  unfold reportAction at h; split at h
  · injection h with h; exact .inl h.symm
  · split at h
    · injection h with h; exact .inr h.symm
    · cases h

theorem parseRule_wf (ws : List String) (r : Rule) (hcf : ∀ w ∈ ws, colonFree w)
    (h : parseRule ws = some r) : RuleWF r := by
  unfold parseRule at h
  split at h
  · -- five words
    rename_i w0 w1 w2 w3 w4
    split at h
    · rename_i tc a t h1 h2 h3
      injection h with h; subst h
      refine ⟨hcf w3 (by simp), hcf w4 (by simp), rfl, .inl ⟨timedKw_some h1, timedAction_some h2, tickOfInt_lt t⟩⟩
    · cases h
  · rename_i w0 w1 w2 w3
    split at h
    · rename_i tc h1
      split at h
      · rename_i a t h2 h3
        injection h with h; subst h
        refine ⟨hcf w3 (by simp), colonFree_unsigned, rfl, .inl ⟨timedKw_some h1, ?_, tickOfInt_lt t⟩⟩
        exact .inr (reportAction_some h2)
      · cases h
    · split at h
      · rename_i tc a h1 h2
        injection h with h; subst h
        exact ⟨hcf w2 (by simp), hcf w3 (by simp), rfl, .inr (.inl ⟨eventKw_some h1, reportAction_some h2, rfl⟩)⟩
      · cases h
  · rename_i w0 w1 w2
    split at h
    · split at h
      · rename_i hb
        injection h with h; subst h
        exact ⟨hcf w1 (by simp), hcf w2 (by simp), rfl, .inr (.inr ⟨rfl, rfl, rfl, .inl hb⟩)⟩
      · cases h
    · split at h
      · rename_i tc a h1 h2
        injection h with h; subst h
        exact ⟨hcf w2 (by simp), colonFree_unsigned, rfl, .inr (.inl ⟨eventKw_some h1, reportAction_some h2, rfl⟩)⟩
      · cases h
  · rename_i w0 w1
    split at h
    · rename_i hc
      injection h with h; subst h
      exact ⟨hcf w1 (by simp), colonFree_empty, rfl, .inr (.inr ⟨rfl, rfl, rfl, .inr ⟨hc.2, rfl⟩⟩)⟩
    · cases h
  · cases h


theorem repr_colonFree (n : Nat) : ':' ∉ n.repr.toList := by
  rw [Nat.toList_repr]
  intro h
  have := Nat.isDigit_of_mem_toDigits (b := 10) (n := n) (by decide) (by decide) h
  simp at this

theorem itoa_colonFree (i : Int) : colonFree (itoa i) := by
  unfold colonFree itoa
  split
  · rw [String.toList_append]
    simp only [List.mem_append, not_or]
    exact ⟨by decide, repr_colonFree _⟩
  · exact repr_colonFree _

theorem timecKw_colonFree (t : Timec) : colonFree (timecKw t) := by cases t <;> decide
theorem actionKw_colonFree (a : Action) : colonFree (actionKw a) := by cases a <;> decide

theorem ruleWords_ne_nil (r : Rule) : ruleWords r ≠ [] := by
  unfold ruleWords
  split <;> (try split) <;> simp

theorem ruleWords_colonFree (r : Rule) (ho : colonFree r.object) (he : colonFree r.extra) :
    ∀ w ∈ ruleWords r, colonFree w := by
  have hc : colonFree "config" := by decide
  have h0 : colonFree "" := by decide
  have hi := itoa_colonFree (intOfTick r.tick)
  have hk := timecKw_colonFree r.timec
  have ha := actionKw_colonFree r.action
  obtain ⟨tc, tk, a, o, e, s⟩ := r
  simp only at ho he hi hk ha
  intro w hw
  cases tc <;> cases a <;> simp only [ruleWords] at hw <;> (try split at hw) <;>
    simp only [List.mem_cons, List.not_mem_nil, or_false] at hw <;>
    (first
      | (rcases hw with rfl | rfl | rfl | rfl | rfl <;> assumption)
      | (rcases hw with rfl | rfl | rfl | rfl <;> assumption)
      | (rcases hw with rfl | rfl | rfl <;> assumption)
      | (rcases hw with rfl | rfl <;> assumption)
      | (subst hw; assumption))

theorem addStr_ruleString (r : Rule) (h : RuleWF r) : addStr (ruleString r) = some r := by
  unfold addStr ruleString
  rw [splitStr_joinStr _ (ruleWords_ne_nil r) (ruleWords_colonFree r h.obj h.ext)]
  exact parseRule_ruleWords r h

theorem addStr_wf (s : String) (r : Rule) (h : addStr s = some r) : RuleWF r :=
  parseRule_wf _ r (splitStr_colonFree s) h


/-! ### rule list -/

theorem setSusp_idem (v : Bool) (r : Rule) (h : r.suspended = v) : setSusp v r = r := by
  cases r; simp_all [setSusp]

theorem setSusp_setSusp (v w : Bool) (r : Rule) : setSusp v (setSusp w r) = setSusp v r := by
  cases r; simp [setSusp]

theorem suspend_length {b b' : Box} {i} (h : suspend b i = some b') : b'.length = b.length := by
  unfold suspend at h; split at h
  · injection h with h; subst h; simp
  · cases h

theorem reactivate_length {b b' : Box} {i} (h : reactivate b i = some b') : b'.length = b.length := by
  unfold reactivate at h; split at h
  · injection h with h; subst h; simp
  · cases h

theorem suspend_getElem? {b b' : Box} {i} (h : suspend b i = some b') (j : Nat) :
    b'[j]? = if j = i then (b[j]?).map (setSusp true) else b[j]? := by
  unfold suspend at h; split at h
  · injection h with h; subst h
    rw [List.getElem?_modify]
    by_cases hji : j = i
    · subst hji; simp
    · have : ¬ i = j := fun e => hji e.symm
      simp [hji, this]
  · cases h

theorem reactivate_getElem? {b b' : Box} {i} (h : reactivate b i = some b') (j : Nat) :
    b'[j]? = if j = i then (b[j]?).map (setSusp false) else b[j]? := by
  unfold reactivate at h; split at h
  · injection h with h; subst h
    rw [List.getElem?_modify]
    by_cases hji : j = i
    · subst hji; simp
    · have : ¬ i = j := fun e => hji e.symm
      simp [hji, this]
  · cases h

theorem modify_modify_same (b : Box) (i : Nat) (f g : Rule → Rule) :
    (b.modify i f).modify i g = b.modify i (g ∘ f) := by
  apply List.ext_getElem?
  intro j
  simp only [List.getElem?_modify]
  by_cases h : i = j <;> simp [h, Function.comp_def]

theorem modify_id_of (b : Box) (i : Nat) (f : Rule → Rule) (h : ∀ r, b[i]? = some r → f r = r) :
    b.modify i f = b := by
  apply List.ext_getElem?
  intro j
  simp only [List.getElem?_modify]
  by_cases hij : i = j
  · subst hij
    simp only [if_true]
    cases hb : b[i]? with
    | none => rfl
    | some r => simp [h r hb]
  · simp [hij]

theorem suspend_then_reactivate (b : Box) (i : Nat) (hi : i < b.length)
    (hact : ∀ r, b[i]? = some r → r.suspended = false) :
    (suspend b i).bind (fun b' => reactivate b' i) = some b := by
  unfold suspend reactivate
  simp only [hi, if_true, Option.bind_some, List.length_modify]
  rw [modify_modify_same]
  congr 1
  apply modify_id_of
  intro r hr
  simp only [Function.comp, setSusp_setSusp]
  exact setSusp_idem _ _ (hact r hr)

theorem del_spec {b b' : Box} {i} (h : del b i = some b') :
    b'.length + 1 = b.length ∧ ∀ j, b'[j]? = if j < i then b[j]? else b[j + 1]? := by
  unfold del at h; split at h
  · rename_i hi
    injection h with h; subst h
    refine ⟨?_, fun j => ?_⟩
    · rw [List.length_eraseIdx]; simp [hi]; omega
    · rw [List.getElem?_eraseIdx]
  · cases h

theorem add_spec {b b' : Box} {s} (h : add b s = some b') :
    ∃ r, addStr s = some r ∧ b' = b ++ [r] ∧ RuleWF r := by
  unfold add at h
  cases hr : addStr s with
  | none => simp [hr] at h
  | some r =>
    simp only [hr, Option.map_some, Option.some.injEq] at h
    exact ⟨r, rfl, h.symm, addStr_wf s r hr⟩

/-- every rule is one `Add` produced, up to its suspension flag -/
def BoxWF (b : Box) : Prop := ∀ r ∈ b, RuleWF (setSusp false r)

theorem ruleWF_setSusp (v : Bool) (r : Rule) (h : RuleWF (setSusp false r)) :
    RuleWF (setSusp false (setSusp v r)) := by
  rw [setSusp_setSusp]; exact h

theorem boxWF_modify (b : Box) (i : Nat) (v : Bool) (h : BoxWF b) : BoxWF (b.modify i (setSusp v)) := by
  intro r hr
  obtain ⟨j, hj, rfl⟩ := List.mem_iff_getElem.mp hr
  simp only [List.getElem_modify]
  simp only [List.length_modify] at hj
  split
  · exact ruleWF_setSusp v _ (h _ (List.getElem_mem hj))
  · exact h _ (List.getElem_mem hj)

theorem boxWF_applyEdit (b : Box) (e : Edit) (h : BoxWF b) : BoxWF (applyEdit b e) := by
  cases e with
  | add s =>
    simp only [applyEdit]
    cases ha : add b s with
    | none => exact h
    | some b' =>
      obtain ⟨r, _, rfl, hwf⟩ := add_spec ha
      intro x hx
      simp only [Option.getD_some, List.mem_append, List.mem_singleton] at hx
      rcases hx with hx | rfl
      · exact h x hx
      · rw [setSusp_idem _ _ hwf.active]; exact hwf
  | del i =>
    simp only [applyEdit, del]
    split
    · intro x hx
      exact h x (List.mem_of_mem_eraseIdx hx)
    · exact h
  | suspend i =>
    simp only [applyEdit, suspend]
    split
    · exact boxWF_modify b i true h
    · exact h
  | reactivate i =>
    simp only [applyEdit, reactivate]
    split
    · exact boxWF_modify b i false h
    · exact h

theorem boxWF_runEdits (es : List Edit) : ∀ b, BoxWF b → BoxWF (runEdits b es) := by
  induction es with
  | nil => intro b h; exact h
  | cons e es ih => intro b h; exact ih _ (boxWF_applyEdit b e h)

theorem ruleString_setSusp (v : Bool) (r : Rule) : ruleString (setSusp v r) = ruleString r := by
  cases r; rfl

theorem modify_append_last (acc : Box) (x : Rule) (f : Rule → Rule) :
    (acc ++ [x]).modify acc.length f = acc ++ [f x] := by
  apply List.ext_getElem?
  intro j
  rw [List.getElem?_modify]
  by_cases h : acc.length = j
  · subst h; simp
  · simp only [h, if_false]
    by_cases hj : j < acc.length
    · simp [List.getElem?_append, hj]
    · have : j - acc.length ≠ 0 := by omega
      simp [List.getElem?_append, hj, this]

theorem rebuild_aux (b : Box) (hb : BoxWF b) (acc : Box) :
    b.foldl rebuildStep (some acc) = some (acc ++ b) := by
  induction b generalizing acc with
  | nil => simp
  | cons r rs ih =>
    have hr : RuleWF (setSusp false r) := hb r (by simp)
    have hrs : BoxWF rs := fun x hx => hb x (by simp [hx])
    have hadd : add acc (ruleString r) = some (acc ++ [setSusp false r]) := by
      unfold add
      rw [← ruleString_setSusp false r, addStr_ruleString _ hr]; rfl
    simp only [List.foldl_cons, rebuildStep, hadd]
    cases hs : r.suspended with
    | false =>
      simp only [Bool.false_eq_true, if_false]
      rw [ih hrs, setSusp_idem false r hs]; simp
    | true =>
      simp only [if_true]
      have : suspend (acc ++ [setSusp false r]) acc.length = some (acc ++ [r]) := by
        unfold suspend
        simp only [List.length_append, List.length_singleton, Nat.lt_add_one, if_true]
        congr 1
        rw [modify_append_last, setSusp_setSusp, setSusp_idem true r hs]
      rw [this, ih hrs]; simp

theorem rebuild_id (b : Box) (hb : BoxWF b) : rebuild b = some b := by
  unfold rebuild
  have := rebuild_aux b hb []
  simpa using this

end BMV.Simbox
