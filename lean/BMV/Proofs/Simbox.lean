/-
  Helper lemmas for C15 (model: BMV/Simbox.lean).  Part 1: decimal round trip, split/join, the
  decoder of `Add` against `Rule.String`, list surgery.  Part 2: the cell store, injection, compilation of set rules, show/get
  slots, one loop iteration.
-/
import BMV.Simbox
namespace BMV.Simbox

theorem tick_roundtrip (t : Nat) (h : t < two64) : tickOfInt (intOfTick t) = t := by
  unfold tickOfInt intOfTick two64 two63 at *
  split <;> omega

theorem intOfTick_range (t : Nat) (h : t < two64) :
    -(two63 : Int) ≤ intOfTick t ∧ intOfTick t < (two63 : Int) := by
  unfold intOfTick two64 two63 at *
  split <;> omega

theorem tickOfInt_lt (i : Int) : tickOfInt i < two64 := by
  unfold tickOfInt two64
  omega

theorem atoiNat_repr (n : Nat) : atoiNat n.repr.toList = some n := by
  unfold atoiNat
  rw [Nat.toList_repr]
  have h1 : Nat.toDigits 10 n ≠ [] := Nat.toDigits_ne_nil
  have h2 : (Nat.toDigits 10 n).all Char.isDigit = true := by
    rw [List.all_eq_true]
    intro c hc
    exact Nat.isDigit_of_mem_toDigits (by decide) (by decide) hc
  simp [h1, h2]

theorem repr_head_digit (n : Nat) : ∃ c cs, n.repr.toList = c :: cs ∧ c.isDigit = true := by
  rw [Nat.toList_repr]
  have h1 : Nat.toDigits 10 n ≠ [] := Nat.toDigits_ne_nil
  match h : Nat.toDigits 10 n with
  | [] => exact absurd h h1
  | c :: cs =>
    refine ⟨c, cs, rfl, ?_⟩
    exact Nat.isDigit_of_mem_toDigits (b := 10) (n := n) (by decide) (by decide) (by rw [h]; simp)

theorem atoi_itoa (i : Int) (h1 : -(two63 : Int) ≤ i) (h2 : i < (two63 : Int)) : atoi (itoa i) = some i := by
  unfold itoa
  split
  · rename_i hneg
    unfold atoi
    have : ("-" ++ i.natAbs.repr).toList = '-' :: i.natAbs.repr.toList := by
      rw [String.toList_append]; rfl
    rw [this]
    simp only [atoiNat_repr]
    have : i.natAbs ≤ two63 := by unfold two63 at *; omega
    simp only [this, if_true]
    congr 1; omega
  · rename_i hpos
    unfold atoi
    obtain ⟨c, cs, hc, hd⟩ := repr_head_digit i.toNat
    have hne1 : c ≠ '-' := by intro e; subst e; simp at hd
    have hne2 : c ≠ '+' := by intro e; subst e; simp at hd
    have hn := atoiNat_repr i.toNat
    rw [hc] at hn ⊢
    split
    · rename_i heq; injection heq with h _; exact absurd h hne1
    · rename_i heq; injection heq with h _; exact absurd h hne2
    · rename_i heq
      rw [hn]
      have : i.toNat < two63 := by unfold two63 at *; omega
      simp only [this, if_true]
      congr 1; omega

theorem splitStr_joinStr (ws : List String) (hne : ws ≠ []) (h : ∀ w ∈ ws, colonFree w) :
    splitStr (joinStr ws) = ws := by
  unfold splitStr joinStr
  rw [String.toList_intercalate]
  have : (":" : String).toList = [':'] := by decide
  rw [this, List.splitOn_intercalate]
  · simp [List.map_map, Function.comp_def, String.ofList_toList]
  · intro l hl
    simp only [List.mem_map] at hl
    obtain ⟨w, hw, rfl⟩ := hl
    exact h w hw
  · simpa using hne

theorem splitOn_colonFree (cs : List Char) : ∀ w ∈ cs.splitOn ':', ':' ∉ w := by
  induction cs with
  | nil => simp [List.splitOn_nil]
  | cons c cs ih =>
    rw [List.splitOn_cons_eq_if_modifyHead]
    split
    · intro w hw
      simp only [List.mem_cons] at hw
      rcases hw with rfl | hw
      · simp
      · exact ih w hw
    · rename_i hc
      have hne := List.splitOn_ne_nil ':' cs
      match hs : cs.splitOn ':' with
      | [] => exact absurd hs hne
      | w0 :: rest =>
        rw [hs] at ih
        simp only [List.modifyHead_cons, List.mem_cons]
        intro w hw
        rcases hw with rfl | hw
        · simp only [List.mem_cons, not_or]
          refine ⟨?_, ih w0 (by simp)⟩
          intro e; subst e; simp at hc
        · exact ih w (by simp [hw])

theorem splitStr_colonFree (s : String) : ∀ w ∈ splitStr s, colonFree w := by
  intro w hw
  unfold splitStr at hw
  simp only [List.mem_map] at hw
  obtain ⟨l, hl, rfl⟩ := hw
  unfold colonFree
  rw [String.toList_ofList]
  exact splitOn_colonFree _ l hl


theorem mem_bulk_not_plain : ∀ o, o ∈ bulkOptions → o ∉ plainOptions := by
  intro o h
  simp only [bulkOptions, List.mem_cons, List.not_mem_nil, or_false] at h
  rcases h with rfl | rfl | rfl | rfl <;> decide

theorem parseRule_ruleWords (r : Rule) (h : RuleWF r) : parseRule (ruleWords r) = some r := by
  obtain ⟨tc, tk, a, o, e, s⟩ := r
  obtain ⟨ho, he, hs, hshape⟩ := h
  simp only at ho he hs hshape
  subst hs
  rcases hshape with ⟨htc, ha, htk⟩ | ⟨htc, ha, htk⟩ | ⟨htc, ha, htk, hopt⟩
  · have hr := intOfTick_range tk htk
    have hat := atoi_itoa _ hr.1 hr.2
    have htr := tick_roundtrip tk htk
    rcases htc with rfl | rfl <;> rcases ha with rfl | rfl | rfl <;>
      simp [ruleWords, parseRule, timecKw, actionKw, timedKw, timedAction, hat, htr]
  · subst htk
    rcases htc with rfl | rfl | rfl <;> rcases ha with rfl | rfl <;>
      simp [ruleWords, parseRule, timecKw, actionKw, timedKw, eventKw, reportAction]
  · subst htc ha htk
    rcases hopt with hb | ⟨hp, rfl⟩
    · simp [ruleWords, parseRule, hb]
    · have : o ∉ bulkOptions := fun hb => mem_bulk_not_plain o hb hp
      simp [ruleWords, parseRule, this, hp]


theorem colonFree_unsigned : colonFree "unsigned" := by decide
theorem colonFree_empty : colonFree "" := by decide

theorem timedKw_some {w tc} (h : timedKw w = some tc) : tc = .abs ∨ tc = .rel := by
  unfold timedKw at h; split at h
  · injection h with h; exact .inl h.symm
  · split at h
    · injection h with h; exact .inr h.symm
    · cases h

theorem eventKw_some {w tc} (h : eventKw w = some tc) : tc = .onValid ∨ tc = .onRecv ∨ tc = .onExit := by
  unfold eventKw at h; split at h
  · injection h with h; exact .inl h.symm
  · split at h
    · injection h with h; exact .inr (.inl h.symm)
    · split at h
      · injection h with h; exact .inr (.inr h.symm)
      · cases h

theorem timedAction_some {w a} (h : timedAction w = some a) : a = .set ∨ a = .get ∨ a = .show := by
  unfold timedAction at h; split at h
  · injection h with h; exact .inl h.symm
  · split at h
    · injection h with h; exact .inr (.inl h.symm)
    · split at h
      · injection h with h; exact .inr (.inr h.symm)
      · cases h

theorem reportAction_some {w a} (h : reportAction w = some a) : a = .get ∨ a = .show := by
  unfold reportAction at h; split at h
  · injection h with h; exact .inl h.symm
  · split at h
    · injection h with h; exact .inr h.symm
    · cases h

theorem parseRule_wf (ws : List String) (r : Rule) (hcf : ∀ w ∈ ws, colonFree w)
    (h : parseRule ws = some r) : RuleWF r := by
  unfold parseRule at h
  split at h
  · -- five words
    rename_i w0 w1 w2 w3 w4
    split at h
    · rename_i tc a t h1 h2 h3
      injection h with h; subst h
      refine ⟨hcf w3 (by simp), hcf w4 (by simp), rfl, .inl ⟨timedKw_some h1, timedAction_some h2, tickOfInt_lt t⟩⟩
    · cases h
  · rename_i w0 w1 w2 w3
    split at h
    · rename_i tc h1
      split at h
      · rename_i a t h2 h3
        injection h with h; subst h
        refine ⟨hcf w3 (by simp), colonFree_unsigned, rfl, .inl ⟨timedKw_some h1, ?_, tickOfInt_lt t⟩⟩
        exact .inr (reportAction_some h2)
      · cases h
    · split at h
      · rename_i tc a h1 h2
        injection h with h; subst h
        exact ⟨hcf w2 (by simp), hcf w3 (by simp), rfl, .inr (.inl ⟨eventKw_some h1, reportAction_some h2, rfl⟩)⟩
      · cases h
  · rename_i w0 w1 w2
    split at h
    · split at h
      · rename_i hb
        injection h with h; subst h
        exact ⟨hcf w1 (by simp), hcf w2 (by simp), rfl, .inr (.inr ⟨rfl, rfl, rfl, .inl hb⟩)⟩
      · cases h
    · split at h
      · rename_i tc a h1 h2
        injection h with h; subst h
        exact ⟨hcf w2 (by simp), colonFree_unsigned, rfl, .inr (.inl ⟨eventKw_some h1, reportAction_some h2, rfl⟩)⟩
      · cases h
  · rename_i w0 w1
    split at h
    · rename_i hc
      injection h with h; subst h
      exact ⟨hcf w1 (by simp), colonFree_empty, rfl, .inr (.inr ⟨rfl, rfl, rfl, .inr ⟨hc.2, rfl⟩⟩)⟩
    · cases h
  · cases h


theorem repr_colonFree (n : Nat) : ':' ∉ n.repr.toList := by
  rw [Nat.toList_repr]
  intro h
  have := Nat.isDigit_of_mem_toDigits (b := 10) (n := n) (by decide) (by decide) h
  simp at this

theorem itoa_colonFree (i : Int) : colonFree (itoa i) := by
  unfold colonFree itoa
  split
  · rw [String.toList_append]
    simp only [List.mem_append, not_or]
    exact ⟨by decide, repr_colonFree _⟩
  · exact repr_colonFree _

theorem timecKw_colonFree (t : Timec) : colonFree (timecKw t) := by cases t <;> decide
theorem actionKw_colonFree (a : Action) : colonFree (actionKw a) := by cases a <;> decide

theorem ruleWords_ne_nil (r : Rule) : ruleWords r ≠ [] := by
  unfold ruleWords
  split <;> (try split) <;> simp

theorem ruleWords_colonFree (r : Rule) (ho : colonFree r.object) (he : colonFree r.extra) :
    ∀ w ∈ ruleWords r, colonFree w := by
  have hc : colonFree "config" := by decide
  have h0 : colonFree "" := by decide
  have hi := itoa_colonFree (intOfTick r.tick)
  have hk := timecKw_colonFree r.timec
  have ha := actionKw_colonFree r.action
  obtain ⟨tc, tk, a, o, e, s⟩ := r
  simp only at ho he hi hk ha
  intro w hw
  cases tc <;> cases a <;> simp only [ruleWords] at hw <;> (try split at hw) <;>
    simp only [List.mem_cons, List.not_mem_nil, or_false] at hw <;>
    (first
      | (rcases hw with rfl | rfl | rfl | rfl | rfl <;> assumption)
      | (rcases hw with rfl | rfl | rfl | rfl <;> assumption)
      | (rcases hw with rfl | rfl | rfl <;> assumption)
      | (rcases hw with rfl | rfl <;> assumption)
      | (subst hw; assumption))

theorem addStr_ruleString (r : Rule) (h : RuleWF r) : addStr (ruleString r) = some r := by
  unfold addStr ruleString
  rw [splitStr_joinStr _ (ruleWords_ne_nil r) (ruleWords_colonFree r h.obj h.ext)]
  exact parseRule_ruleWords r h

theorem addStr_wf (s : String) (r : Rule) (h : addStr s = some r) : RuleWF r :=
  parseRule_wf _ r (splitStr_colonFree s) h


/-! ### rule list -/

theorem setSusp_idem (v : Bool) (r : Rule) (h : r.suspended = v) : setSusp v r = r := by
  cases r; simp_all [setSusp]

theorem setSusp_setSusp (v w : Bool) (r : Rule) : setSusp v (setSusp w r) = setSusp v r := by
  cases r; simp [setSusp]

theorem suspend_length {b b' : Box} {i} (h : suspend b i = some b') : b'.length = b.length := by
  unfold suspend at h; split at h
  · injection h with h; subst h; simp
  · cases h

theorem reactivate_length {b b' : Box} {i} (h : reactivate b i = some b') : b'.length = b.length := by
  unfold reactivate at h; split at h
  · injection h with h; subst h; simp
  · cases h

theorem suspend_getElem? {b b' : Box} {i} (h : suspend b i = some b') (j : Nat) :
    b'[j]? = if j = i then (b[j]?).map (setSusp true) else b[j]? := by
  unfold suspend at h; split at h
  · injection h with h; subst h
    rw [List.getElem?_modify]
    by_cases hji : j = i
    · subst hji; simp
    · have : ¬ i = j := fun e => hji e.symm
      simp [hji, this]
  · cases h

theorem reactivate_getElem? {b b' : Box} {i} (h : reactivate b i = some b') (j : Nat) :
    b'[j]? = if j = i then (b[j]?).map (setSusp false) else b[j]? := by
  unfold reactivate at h; split at h
  · injection h with h; subst h
    rw [List.getElem?_modify]
    by_cases hji : j = i
    · subst hji; simp
    · have : ¬ i = j := fun e => hji e.symm
      simp [hji, this]
  · cases h

theorem modify_modify_same (b : Box) (i : Nat) (f g : Rule → Rule) :
    (b.modify i f).modify i g = b.modify i (g ∘ f) := by
  apply List.ext_getElem?
  intro j
  simp only [List.getElem?_modify]
  by_cases h : i = j <;> simp [h, Function.comp_def]

theorem modify_id_of (b : Box) (i : Nat) (f : Rule → Rule) (h : ∀ r, b[i]? = some r → f r = r) :
    b.modify i f = b := by
  apply List.ext_getElem?
  intro j
  simp only [List.getElem?_modify]
  by_cases hij : i = j
  · subst hij
    simp only [if_true]
    cases hb : b[i]? with
    | none => rfl
    | some r => simp [h r hb]
  · simp [hij]

theorem suspend_then_reactivate (b : Box) (i : Nat) (hi : i < b.length)
    (hact : ∀ r, b[i]? = some r → r.suspended = false) :
    (suspend b i).bind (fun b' => reactivate b' i) = some b := by
  unfold suspend reactivate
  simp only [hi, if_true, Option.bind_some, List.length_modify]
  rw [modify_modify_same]
  congr 1
  apply modify_id_of
  intro r hr
  simp only [Function.comp, setSusp_setSusp]
  exact setSusp_idem _ _ (hact r hr)

theorem del_spec {b b' : Box} {i} (h : del b i = some b') :
    b'.length + 1 = b.length ∧ ∀ j, b'[j]? = if j < i then b[j]? else b[j + 1]? := by
  unfold del at h; split at h
  · rename_i hi
    injection h with h; subst h
    refine ⟨?_, fun j => ?_⟩
    · rw [List.length_eraseIdx]; simp [hi]; omega
    · rw [List.getElem?_eraseIdx]
  · cases h

theorem add_spec {b b' : Box} {s} (h : add b s = some b') :
    ∃ r, addStr s = some r ∧ b' = b ++ [r] ∧ RuleWF r := by
  unfold add at h
  cases hr : addStr s with
  | none => simp [hr] at h
  | some r =>
    simp only [hr, Option.map_some, Option.some.injEq] at h
    exact ⟨r, rfl, h.symm, addStr_wf s r hr⟩

/-- every rule is one `Add` produced, up to its suspension flag -/
def BoxWF (b : Box) : Prop := ∀ r ∈ b, RuleWF (setSusp false r)

theorem ruleWF_setSusp (v : Bool) (r : Rule) (h : RuleWF (setSusp false r)) :
    RuleWF (setSusp false (setSusp v r)) := by
  rw [setSusp_setSusp]; exact h

theorem boxWF_modify (b : Box) (i : Nat) (v : Bool) (h : BoxWF b) : BoxWF (b.modify i (setSusp v)) := by
  intro r hr
  obtain ⟨j, hj, rfl⟩ := List.mem_iff_getElem.mp hr
  simp only [List.getElem_modify]
  simp only [List.length_modify] at hj
  split
  · exact ruleWF_setSusp v _ (h _ (List.getElem_mem hj))
  · exact h _ (List.getElem_mem hj)

theorem boxWF_applyEdit (b : Box) (e : Edit) (h : BoxWF b) : BoxWF (applyEdit b e) := by
  cases e with
  | add s =>
    simp only [applyEdit]
    cases ha : add b s with
    | none => exact h
    | some b' =>
      obtain ⟨r, _, rfl, hwf⟩ := add_spec ha
      intro x hx
      simp only [Option.getD_some, List.mem_append, List.mem_singleton] at hx
      rcases hx with hx | rfl
      · exact h x hx
      · rw [setSusp_idem _ _ hwf.active]; exact hwf
  | del i =>
    simp only [applyEdit, del]
    split
    · intro x hx
      exact h x (List.mem_of_mem_eraseIdx hx)
    · exact h
  | suspend i =>
    simp only [applyEdit, suspend]
    split
    · exact boxWF_modify b i true h
    · exact h
  | reactivate i =>
    simp only [applyEdit, reactivate]
    split
    · exact boxWF_modify b i false h
    · exact h

theorem boxWF_runEdits (es : List Edit) : ∀ b, BoxWF b → BoxWF (runEdits b es) := by
  induction es with
  | nil => intro b h; exact h
  | cons e es ih => intro b h; exact ih _ (boxWF_applyEdit b e h)

theorem ruleString_setSusp (v : Bool) (r : Rule) : ruleString (setSusp v r) = ruleString r := by
  cases r; rfl

theorem modify_append_last (acc : Box) (x : Rule) (f : Rule → Rule) :
    (acc ++ [x]).modify acc.length f = acc ++ [f x] := by
  apply List.ext_getElem?
  intro j
  rw [List.getElem?_modify]
  by_cases h : acc.length = j
  · subst h; simp
  · simp only [h, if_false]
    by_cases hj : j < acc.length
    · simp [List.getElem?_append, hj]
    · have : j - acc.length ≠ 0 := by omega
      simp [List.getElem?_append, hj, this]

theorem rebuild_aux (b : Box) (hb : BoxWF b) (acc : Box) :
    b.foldl rebuildStep (some acc) = some (acc ++ b) := by
  induction b generalizing acc with
  | nil => simp
  | cons r rs ih =>
    have hr : RuleWF (setSusp false r) := hb r (by simp)
    have hrs : BoxWF rs := fun x hx => hb x (by simp [hx])
    have hadd : add acc (ruleString r) = some (acc ++ [setSusp false r]) := by
      unfold add
      rw [← ruleString_setSusp false r, addStr_ruleString _ hr]; rfl
    simp only [List.foldl_cons, rebuildStep, hadd]
    cases hs : r.suspended with
    | false =>
      simp only [Bool.false_eq_true, if_false]
      rw [ih hrs, setSusp_idem false r hs]; simp
    | true =>
      simp only [if_true]
      have : suspend (acc ++ [setSusp false r]) acc.length = some (acc ++ [r]) := by
        unfold suspend
        simp only [List.length_append, List.length_singleton, Nat.lt_add_one, if_true]
        congr 1
        rw [modify_append_last, setSusp_setSusp, setSusp_idem true r hs]
      rw [this, ih hrs]; simp

theorem rebuild_id (b : Box) (hb : BoxWF b) : rebuild b = some b := by
  unfold rebuild
  have := rebuild_aux b hb []
  simpa using this

end BMV.Simbox

/-! ## Part 2 -/
namespace BMV.Simbox.Sim
open BMV.Simbox

/-! ### the store -/

theorem read_write (vm : Vm) (l l' : Loc) (v : Nat) :
    read (write vm l' v) l = if l = l' then (read vm l).map (fun _ => v) else read vm l := by
  induction vm with
  | nil => simp [write, read]
  | cons c rest ih =>
    obtain ⟨cl, cv⟩ := c
    simp only [write, List.map_cons] at ih ⊢
    by_cases h1 : cl = l'
    · subst h1
      simp only [if_true, read]
      by_cases h2 : cl = l
      · subst h2; simp
      · have : ¬ l = cl := fun e => h2 e.symm
        simp only [h2, this, if_false]
        rw [ih]; simp [this]
    · simp only [h1, if_false, read]
      by_cases h2 : cl = l
      · subst h2
        have : ¬ cl = l' := h1
        simp [this]
      · simp only [h2, if_false]; exact ih

theorem read_write_ne (vm : Vm) {l l' : Loc} (v : Nat) (h : l ≠ l') : read (write vm l' v) l = read vm l := by
  rw [read_write]; simp [h]

theorem read_write_same (vm : Vm) (l : Loc) (v : Nat) : read (write vm l v) l = (read vm l).map (fun _ => v) := by
  rw [read_write]; simp

theorem ruleWrite_flag (vm : Vm) (l' : Loc) (v : Nat) (h : l'.isFlag = true) : ruleWrite vm l' v = vm := by
  simp [ruleWrite, h]

theorem ruleWrite_inReg (vm : Vm) (k v : Nat) :
    ruleWrite vm (.inReg k) v = write (write vm (.inReg k) v) (.inValid k) 1 := by
  simp [ruleWrite, Loc.isFlag]

theorem ruleWrite_other (vm : Vm) (l' : Loc) (v : Nat) (h : l'.isFlag = false) (h2 : ∀ k, l' ≠ .inReg k) :
    ruleWrite vm l' v = write vm l' v := by
  cases l' with
  | inReg k => exact absurd rfl (h2 k)
  | _ => first | (simp [Loc.isFlag] at h; done) | simp [ruleWrite, Loc.isFlag]

/-- a rule write to `l'` seen from a non-flag cell `l` -/
theorem read_ruleWrite (vm : Vm) (l l' : Loc) (v : Nat) (hl : l.isFlag = false) :
    read (ruleWrite vm l' v) l = if l = l' then (read vm l).map (fun _ => v) else read vm l := by
  by_cases hf : l'.isFlag = true
  · rw [ruleWrite_flag _ _ _ hf]
    have : l ≠ l' := fun e => by rw [e, hf] at hl; cases hl
    simp [this]
  · have hf' : l'.isFlag = false := by cases h : l'.isFlag <;> simp_all
    by_cases hr : ∃ k, l' = .inReg k
    · obtain ⟨k, rfl⟩ := hr
      rw [ruleWrite_inReg]
      have : l ≠ .inValid k := fun e => by rw [e] at hl; simp [Loc.isFlag] at hl
      rw [read_write_ne _ _ this, read_write]
    · have : ∀ k, l' ≠ .inReg k := fun k e => hr ⟨k, e⟩
      rw [ruleWrite_other _ _ _ hf' this, read_write]

/-- ... and seen from the valid flag of input `k` -/
theorem read_ruleWrite_valid (vm : Vm) (k : Nat) (l' : Loc) (v : Nat) :
    read (ruleWrite vm l' v) (.inValid k)
      = if l' = .inReg k then (read vm (.inValid k)).map (fun _ => 1) else read vm (.inValid k) := by
  by_cases hf : l'.isFlag = true
  · rw [ruleWrite_flag _ _ _ hf]
    have : l' ≠ .inReg k := fun e => by rw [e] at hf; simp [Loc.isFlag] at hf
    simp [this]
  · have hf' : l'.isFlag = false := by cases h : l'.isFlag <;> simp_all
    by_cases hr : ∃ j, l' = .inReg j
    · obtain ⟨j, rfl⟩ := hr
      rw [ruleWrite_inReg]
      by_cases hjk : j = k
      · subst hjk
        rw [read_write_same, read_write_ne _ _ (by simp)]; simp
      · have h1 : Loc.inValid k ≠ Loc.inValid j := fun e => hjk (by injection e with e; exact e.symm)
        have h2 : Loc.inReg j ≠ Loc.inReg k := fun e => hjk (by injection e)
        rw [read_write_ne _ _ h1, read_write_ne _ _ (by simp)]; simp [h2]
    · have h3 : ∀ j, l' ≠ .inReg j := fun j e => hr ⟨j, e⟩
      rw [ruleWrite_other _ _ _ hf' h3]
      have : Loc.inValid k ≠ l' := fun e => by rw [← e] at hf'; simp [Loc.isFlag] at hf'
      rw [read_write_ne _ _ this]; simp [h3 k]

theorem applyActs_cons (vm : Vm) (a : SetAct) (as : List SetAct) :
    applyActs vm (a :: as) = applyActs (ruleWrite vm a.loc a.val) as := rfl

theorem applyActs_append (vm : Vm) (as bs : List SetAct) :
    applyActs vm (as ++ bs) = applyActs (applyActs vm as) bs := by
  simp [applyActs, List.foldl_append]

/-- after a sequence of rule writes a non-flag cell holds the value of the *last* write that
    names it, and is untouched if none does -/
theorem read_applyActs (as : List SetAct) (vm : Vm) (l : Loc) (hl : l.isFlag = false) :
    read (applyActs vm as) l =
      match as.reverse.find? (fun a => a.loc = l) with
      | some a => (read vm l).map (fun _ => a.val)
      | none => read vm l := by
  induction as generalizing vm with
  | nil => simp [applyActs]
  | cons a as ih =>
    rw [applyActs_cons, ih, read_ruleWrite _ _ _ _ hl]
    simp only [List.reverse_cons, List.find?_append, List.find?_cons, List.find?_nil]
    cases hf : as.reverse.find? (fun a => a.loc = l) with
    | some b =>
      simp only [Option.some_or]
      split <;> (cases read vm l <;> rfl)
    | none =>
      simp only [Option.none_or]
      by_cases h : a.loc = l
      · have : l = a.loc := h.symm
        simp [h]
      · have : ¬ l = a.loc := fun e => h e.symm
        simp [h, this]

theorem read_applyActs_valid (as : List SetAct) (vm : Vm) (k : Nat) :
    read (applyActs vm as) (.inValid k) =
      if as.any (fun a => a.loc = .inReg k) then (read vm (.inValid k)).map (fun _ => 1)
      else read vm (.inValid k) := by
  induction as generalizing vm with
  | nil => simp [applyActs]
  | cons a as ih =>
    rw [applyActs_cons, ih, read_ruleWrite_valid]
    by_cases h : a.loc = .inReg k
    · simp only [h, if_true, List.any_cons, decide_true, Bool.true_or]
      split <;> (cases read vm (.inValid k) <;> rfl)
    · simp [h]

theorem read_clearValid (n : Nat) (vm : Vm) (l : Loc) (hl : ∀ k, l ≠ .inValid k) :
    read (clearValid n vm) l = read vm l := by
  unfold clearValid
  induction (List.range n) generalizing vm with
  | nil => rfl
  | cons k ks ih =>
    simp only [List.foldl_cons]
    rw [ih]
    split
    · exact read_write_ne _ _ (hl k)
    · rfl

theorem read_clearValid_nonflag (n : Nat) (vm : Vm) (l : Loc) (hl : l.isFlag = false) :
    read (clearValid n vm) l = read vm l :=
  read_clearValid n vm l (fun k e => by rw [e] at hl; simp [Loc.isFlag] at hl)

/-! ### which actions fire -/

theorem mem_insertByTick (a b : SetAct) (l : List SetAct) : b ∈ insertByTick a l ↔ b = a ∨ b ∈ l := by
  induction l with
  | nil => simp [insertByTick]
  | cons c cs ih =>
    simp only [insertByTick]
    split
    · simp
    · simp only [List.mem_cons, ih]
      constructor
      · rintro (h | h | h) <;> simp [h]
      · rintro (h | h | h) <;> simp [h]

theorem mem_sortByTick (b : SetAct) (l : List SetAct) : b ∈ sortByTick l ↔ b ∈ l := by
  induction l with
  | nil => simp [sortByTick]
  | cons c cs ih => simp [sortByTick, mem_insertByTick, ih]

theorem mem_firing (acts : List SetAct) (t : Nat) (a : SetAct) :
    a ∈ firing acts t ↔ a ∈ acts ∧ a.fires t = true := by
  unfold firing
  simp only [List.mem_append, List.mem_filter, mem_sortByTick, Bool.and_eq_true, Bool.not_eq_true']
  constructor
  · rintro (⟨h1, _, h3⟩ | ⟨h1, _, h3⟩) <;> exact ⟨h1, h3⟩
  · rintro ⟨h1, h3⟩
    cases hp : a.periodic
    · exact .inl ⟨h1, rfl, h3⟩
    · exact .inr ⟨h1, rfl, h3⟩

theorem fires_abs (a : SetAct) (t : Nat) (h : a.periodic = false) : a.fires t = true ↔ a.tick = t := by
  simp [SetAct.fires, h]

theorem fires_periodic (a : SetAct) (t : Nat) (h : a.periodic = true) :
    a.fires t = true ↔ a.tick ≠ 0 ∧ t % a.tick = 0 := by
  simp [SetAct.fires, h]

/-- the state handed to the machine step, on a non-flag cell -/
theorem read_injected (sh : Shape) (acts : List SetAct) (t : Nat) (vm : Vm) (l : Loc) (hl : l.isFlag = false) :
    read (injected sh acts t vm) l =
      match (firing acts t).reverse.find? (fun a => a.loc = l) with
      | some a => (read vm l).map (fun _ => a.val)
      | none => read vm l := by
  unfold injected
  rw [read_applyActs _ _ _ hl, read_clearValid_nonflag _ _ _ hl]


theorem read_injected_valid (sh : Shape) (acts : List SetAct) (t : Nat) (vm : Vm) (k : Nat) :
    read (injected sh acts t vm) (.inValid k) =
      if (firing acts t).any (fun a => a.loc = .inReg k)
      then (read (clearValid sh.nIn vm) (.inValid k)).map (fun _ => 1)
      else read (clearValid sh.nIn vm) (.inValid k) := by
  unfold injected
  rw [read_applyActs_valid]

/-! ### suspended rules -/

def active (b : Box) : Box := b.filter (fun r => !r.suspended)

theorem compileSets_active (sh : Shape) (b : Box) : compileSets sh b = compileSets sh (active b) := by
  induction b with
  | nil => rfl
  | cons r rs ih =>
    cases hs : r.suspended with
    | true => simp only [compileSets, hs, if_true, active, List.filter_cons, Bool.not_true, Bool.false_eq_true, if_false]; exact ih
    | false =>
      simp only [active, List.filter_cons, hs, Bool.not_false, if_true]
      simp only [compileSets, hs, Bool.false_eq_true, if_false]
      unfold active at ih
      rw [ih]

theorem compileConf_active (b : Box) (c : Conf) : compileConf b c = compileConf (active b) c := by
  induction b generalizing c with
  | nil => rfl
  | cons r rs ih =>
    cases hs : r.suspended with
    | true => simp only [compileConf, hs, if_true, active, List.filter_cons, Bool.not_true, Bool.false_eq_true, if_false]; exact ih c
    | false =>
      simp only [active, List.filter_cons, hs, Bool.not_false, if_true]
      simp only [compileConf, hs, Bool.false_eq_true, if_false]
      unfold active at ih
      split <;> simp only [ih]

theorem compileReport_active (sh : Shape) (bn : List String) (act : Action) (b : Box) (rp : Report) :
    compileReport sh bn act b rp = compileReport sh bn act (active b) rp := by
  induction b generalizing rp with
  | nil => rfl
  | cons r rs ih =>
    cases hs : r.suspended with
    | true =>
      simp only [active, List.filter_cons, hs, Bool.not_true, Bool.false_eq_true, if_false]
      rw [compileReport]; simp only [hs, if_true]; exact ih rp
    | false =>
      simp only [active, List.filter_cons, hs, Bool.not_false, if_true]
      unfold active at ih
      rw [compileReport, compileReport]
      simp only [hs, Bool.false_eq_true, if_false]
      repeat' split
      all_goals first | rfl | exact ih _

theorem compile_active (sh : Shape) (bn : List String) (b : Box) : compile sh bn b = compile sh bn (active b) := by
  unfold compile
  rw [compileSets_active, compileReport_active sh bn .show, compileReport_active sh bn .get, compileConf_active]

/-- what `compileSets` produces, rule by rule -/
def setActOf (sh : Shape) (r : Rule) : Option SetAct :=
  match resolve sh r.object, importNumber r.extra, wbits sh.rsize with
  | some l, some n, some w => some ⟨r.timec = .rel, r.tick, l, n % 2 ^ w⟩
  | _, _, _ => none

def isSetRule (r : Rule) : Prop := r.suspended = false ∧ r.action = .set ∧ (r.timec = .abs ∨ r.timec = .rel)

instance (r : Rule) : Decidable (isSetRule r) := by unfold isSetRule; exact inferInstance

theorem compileSets_mem (sh : Shape) (b : Box) (acts : List SetAct) (h : compileSets sh b = .ok acts) (a : SetAct) :
    a ∈ acts ↔ ∃ r ∈ b, isSetRule r ∧ setActOf sh r = some a := by
  induction b generalizing acts with
  | nil =>
    simp only [compileSets] at h
    injection h with h; subst h; simp
  | cons r rs ih =>
    simp only [compileSets] at h
    split at h
    · rename_i hs
      rw [ih acts h]
      constructor
      · rintro ⟨x, hx, hh⟩; exact ⟨x, by simp [hx], hh⟩
      · rintro ⟨x, hx, hh⟩
        simp only [List.mem_cons] at hx
        rcases hx with rfl | hx
        · exact absurd hs (by simp [hh.1.1])
        · exact ⟨x, hx, hh⟩
    · rename_i hs
      split at h
      · rename_i hset
        split at h
        · rename_i l n w h1 h2 h3
          split at h
          · rename_i acts' hrec
            injection h with h; subst h
            have hso : setActOf sh r = some ⟨r.timec = .rel, r.tick, l, n % 2 ^ w⟩ := by
              simp [setActOf, h1, h2, h3]
            simp only [List.mem_cons, ih acts' hrec]
            constructor
            · rintro (rfl | ⟨x, hx, hh⟩)
              · exact ⟨r, by simp, ⟨by simpa using hs, hset.1, hset.2⟩, hso⟩
              · exact ⟨x, by simp [hx], hh⟩
            · rintro ⟨x, hx, hh⟩
              rcases hx with rfl | hx
              · left; rw [hso] at hh; injection hh.2 with e; exact e.symm
              · exact .inr ⟨x, hx, hh⟩
          · cases h
        · cases h
        · cases h
        · cases h
      · rename_i hset
        rw [ih acts h]
        constructor
        · rintro ⟨x, hx, hh⟩; exact ⟨x, by simp [hx], hh⟩
        · rintro ⟨x, hx, hh⟩
          simp only [List.mem_cons] at hx
          rcases hx with rfl | hx
          · exact absurd ⟨hh.1.2.1, hh.1.2.2⟩ hset
          · exact ⟨x, hx, hh⟩


/-! ### show / get -/

theorem mem_firedSlots (rp : Report) (t : Nat) (old new : Vm) (sd ev : Bool) (i : Nat) :
    i ∈ firedSlots rp t old new sd ev ↔
      i < rp.slots.length ∧ ∃ w ∈ rp.watches, w.slot = i ∧ w.fires t old new sd ev = true := by
  simp only [firedSlots, List.mem_filter, List.mem_range, List.any_eq_true, Bool.and_eq_true, beq_iff_eq]

theorem fires_at (i t' t : Nat) (old new : Vm) (sd ev : Bool) :
    (Watch.mk i (.at t')).fires t old new sd ev = true ↔ t' = t := by
  simp [Watch.fires]

theorem fires_every (i p t : Nat) (old new : Vm) (sd ev : Bool) :
    (Watch.mk i (.every p)).fires t old new sd ev = true ↔ p ≠ 0 ∧ t % p = 0 := by
  simp [Watch.fires]

theorem fires_onValid (i : Nat) (f : Loc) (t : Nat) (old new : Vm) (sd ev : Bool) :
    (Watch.mk i (.onValid f)).fires t old new sd ev = true ↔ ev = true ∧ readD new f = 1 ∧ readD old f ≠ 1 := by
  simp [Watch.fires, and_assoc]

theorem fires_onExit (i t : Nat) (old new : Vm) (sd ev : Bool) :
    (Watch.mk i .onExit).fires t old new sd ev = true ↔ ev = true ∧ sd = true := by
  simp [Watch.fires]

theorem slotValues_sound (rp : Report) (vm : Vm) (idxs : List Nat) (i : Nat) (ty : String) (v : Nat)
    (h : (i, ty, v) ∈ (slotValues rp vm idxs).1) :
    i ∈ idxs ∧ ∃ s, rp.slots[i]? = some s ∧ s.ty = ty ∧ v = readD vm s.loc ∧ s.loc.isFlag = false := by
  induction idxs with
  | nil => simp [slotValues] at h
  | cons j js ih =>
    simp only [slotValues] at h
    split at h
    · rename_i s hs
      split at h
      · simp at h
      · rename_i hflag
        simp only [List.mem_cons, Prod.mk.injEq] at h
        rcases h with ⟨rfl, rfl, rfl⟩ | h
        · exact ⟨by simp, s, hs, rfl, rfl, by simpa using hflag⟩
        · obtain ⟨h1, h2⟩ := ih h
          exact ⟨by simp [h1], h2⟩
    · obtain ⟨h1, h2⟩ := ih h
      exact ⟨by simp [h1], h2⟩

theorem slotValues_complete (rp : Report) (vm : Vm) (idxs : List Nat) (hok : (slotValues rp vm idxs).2 = false)
    (i : Nat) (hi : i ∈ idxs) (s : Slot) (hs : rp.slots[i]? = some s) :
    (i, s.ty, readD vm s.loc) ∈ (slotValues rp vm idxs).1 := by
  induction idxs with
  | nil => cases hi
  | cons j js ih =>
    simp only [slotValues] at hok ⊢
    split
    · rename_i s' hs'
      split
      · rename_i hflag; simp [hs', hflag] at hok
      · rename_i hflag
        simp only [hs', hflag, Bool.false_eq_true, if_false] at hok
        simp only [List.mem_cons] at hi ⊢
        rcases hi with rfl | hi
        · rw [hs] at hs'; injection hs' with e; subst e; exact .inl rfl
        · exact .inr (ih hok hi)
    · rename_i hnone
      simp only [hnone] at hok
      simp only [List.mem_cons] at hi
      rcases hi with rfl | hi
      · rw [hs] at hnone; cases hnone
      · exact ih hok hi

/-! ### one iteration of the loop -/

theorem iteration_done (step : Vm → Vm) (c : Compiled) (stopOn : Option Nat) (report : Bool) (s : LoopSt) (t : Nat)
    (h : s.done = true) : iteration step c stopOn report s t = s := by
  simp [iteration, h]

/-- the record an iteration appends -/
theorem iteration_record (step : Vm → Vm) (c : Compiled) (stopOn : Option Nat) (report : Bool) (s : LoopSt) (t : Nat)
    (h : s.done = false) :
    ∃ r, (iteration step c stopOn report s t).trace = s.trace ++ [r] ∧ r.tick = t ∧
      r.shutdown = isShutdown stopOn s.vm ∧
      (r.shutdown = false → r.pre = injected c.sh c.acts t s.vm ∧ r.stepped = step r.pre ∧
          r.post = ackOutputs c.sh.nOut r.stepped) ∧
      (r.shutdown = true → r.pre = s.vm ∧ r.post = s.vm) ∧
      (r.fatal = 0 → r.shown = (slotValues c.shows r.post (firedSlots c.shows t s.old r.post r.shutdown true)).1 ∧
          (slotValues c.shows r.post (firedSlots c.shows t s.old r.post r.shutdown true)).2 = false) := by
  simp only [iteration, h, Bool.false_eq_true, if_false]
  cases hS : isShutdown stopOn s.vm
  all_goals
    simp only [Bool.false_eq_true, if_false, if_true]
    split
    · exact ⟨_, rfl, rfl, rfl, by simp, by simp, by simp⟩
    · split
      · exact ⟨_, rfl, rfl, rfl, by simp, by simp, by simp⟩
      · rename_i hb
        refine ⟨_, rfl, rfl, rfl, by simp, by simp, ?_⟩
        intro _
        exact ⟨rfl, by simpa using hb⟩

end BMV.Simbox.Sim

/-! ## Part 2 — compiled reports -/
namespace BMV.Simbox.Sim
open BMV.Simbox

structure Ext (rp rp' : Report) : Prop where
  slots : ∃ ex, rp'.slots = rp.slots ++ ex
  watches : ∀ w ∈ rp.watches, w ∈ rp'.watches

theorem Ext.refl (rp : Report) : Ext rp rp := ⟨⟨[], by simp⟩, fun _ h => h⟩

theorem Ext.trans {a b c : Report} (h1 : Ext a b) (h2 : Ext b c) : Ext a c := by
  obtain ⟨⟨e1, h1s⟩, h1w⟩ := h1
  obtain ⟨⟨e2, h2s⟩, h2w⟩ := h2
  exact ⟨⟨e1 ++ e2, by rw [h2s, h1s, List.append_assoc]⟩, fun w h => h2w w (h1w w h)⟩

theorem Ext.slot {rp rp' : Report} (h : Ext rp rp') {i : Nat} {s : Slot} (hs : rp.slots[i]? = some s) :
    rp'.slots[i]? = some s := by
  obtain ⟨⟨e, he⟩, _⟩ := h
  rw [he]
  have hi : i < rp.slots.length := by
    rcases Nat.lt_or_ge i rp.slots.length with h | h
    · exact h
    · rw [List.getElem?_eq_none h] at hs; cases hs
  rw [List.getElem?_append_left hi]; exact hs

theorem addSlot_ext (rp : Report) (l : Loc) (e n : String) : Ext rp (addSlot rp l e n).1 := by
  unfold addSlot
  split
  · exact Ext.refl rp
  · exact ⟨⟨[⟨l, typeOf e, n⟩], rfl⟩, fun _ h => h⟩

theorem addSlot_slot (rp : Report) (l : Loc) (e n : String) :
    ∃ s, (addSlot rp l e n).1.slots[(addSlot rp l e n).2]? = some s ∧ s.loc = l := by
  unfold addSlot
  split
  · rename_i i hi
    unfold slotOf at hi
    split at hi
    · cases hi
    · obtain ⟨hlt, hp, _⟩ := List.findIdx?_eq_some_iff_getElem.mp hi
      refine ⟨rp.slots[i], by simp [List.getElem?_eq_getElem hlt], by simpa using hp⟩
  · exact ⟨⟨l, typeOf e, n⟩, by simp, rfl⟩

theorem addWatch_ext (rp : Report) (l : Loc) (e n : String) (w : When) : Ext rp (addWatch rp l e n w) := by
  unfold addWatch
  have h := addSlot_ext rp l e n
  obtain ⟨hs, hw⟩ := h
  exact ⟨hs, fun x hx => by simp [hw x hx]⟩

theorem addWatch_spec (rp : Report) (l : Loc) (e n : String) (w : When) :
    ∃ i s, (addWatch rp l e n w).slots[i]? = some s ∧ s.loc = l ∧ ⟨i, w⟩ ∈ (addWatch rp l e n w).watches := by
  obtain ⟨s, hs, hl⟩ := addSlot_slot rp l e n
  exact ⟨(addSlot rp l e n).2, s, by simpa [addWatch] using hs, hl, by simp [addWatch]⟩

theorem addObjects_ext (sh : Shape) (objs : List String) (e : String) (rp : Report) :
    Ext rp (addObjects sh rp objs e) := by
  unfold addObjects
  induction objs generalizing rp with
  | nil => exact Ext.refl rp
  | cons o os ih =>
    simp only [List.foldl_cons]
    split
    · exact Ext.trans (addSlot_ext rp _ e o) (ih _)
    · exact ih rp

/-- unfolding one rule: the rest is compiled from an extension of the report so far -/
theorem compileReport_cons (sh : Shape) (bn : List String) (act : Action) (r : Rule) (rs : Box) (rp rp' : Report)
    (h : compileReport sh bn act (r :: rs) rp = .ok rp') :
    ∃ rp1, Ext rp rp1 ∧ compileReport sh bn act rs rp1 = .ok rp' := by
  rw [compileReport] at h
  dsimp only at h
  repeat' split at h
  all_goals first
    | (cases h; done)
    | exact ⟨_, Ext.refl rp, h⟩
    | exact ⟨_, addObjects_ext sh _ _ rp, h⟩
    | exact ⟨_, addWatch_ext rp _ _ _ _, h⟩
    | exact ⟨_, addSlot_ext rp _ _ _, h⟩

theorem compileReport_ext (sh : Shape) (bn : List String) (act : Action) (b : Box) (rp rp' : Report)
    (h : compileReport sh bn act b rp = .ok rp') : Ext rp rp' := by
  induction b generalizing rp with
  | nil => simp only [compileReport] at h; injection h with h; subst h; exact Ext.refl rp
  | cons r rs ih =>
    obtain ⟨rp1, h1, h2⟩ := compileReport_cons sh bn act r rs rp rp' h
    exact Ext.trans h1 (ih rp1 h2)

/-- an active timed show/get rule whose object resolves yields a slot for the element and a watch
    on that slot with the rule's tick / period -/
theorem compileReport_timed (sh : Shape) (bn : List String) (act : Action)
    (b : Box) (rp rp' : Report)
    (h : compileReport sh bn act b rp = .ok rp') (r : Rule) (hr : r ∈ b) (hs : r.suspended = false)
    (ha : r.action = act) (htc : r.timec = .abs ∨ r.timec = .rel) (l : Loc) (hl : resolve sh r.object = some l) :
    ∃ i s, rp'.slots[i]? = some s ∧ s.loc = l ∧
      ⟨i, if r.timec = .abs then .at r.tick else .every r.tick⟩ ∈ rp'.watches := by
  induction b generalizing rp with
  | nil => cases hr
  | cons x xs ih =>
    simp only [List.mem_cons] at hr
    rcases hr with rfl | hr
    · -- the rule is at the head
      rw [compileReport] at h
      rcases htc with h1 | h1
      all_goals
        simp only [hs, h1, ha, hl, reduceCtorEq, false_and, if_false, if_true, Bool.false_eq_true] at h
        split at h
        · cases h
        · have hext := compileReport_ext sh bn act xs _ rp' h
          obtain ⟨i, s, h1s, h2s, h3s⟩ := addWatch_spec rp l r.extra r.object
            (if r.timec = Timec.abs then When.at r.tick else When.every r.tick)
          simp only [h1, reduceCtorEq, if_false, if_true] at h3s h1s hext ⊢
          exact ⟨i, s, hext.slot h1s, h2s, hext.watches _ h3s⟩
    · obtain ⟨rp1, _, h2⟩ := compileReport_cons sh bn act x xs rp rp' h
      exact ih rp1 h2 hr


/-- an active on-exit show/get rule whose object resolves yields an on-exit watch on its slot -/
theorem compileReport_onExit (sh : Shape) (bn : List String) (act : Action)
    (b : Box) (rp rp' : Report)
    (h : compileReport sh bn act b rp = .ok rp') (r : Rule) (hr : r ∈ b) (hs : r.suspended = false)
    (ha : r.action = act) (htc : r.timec = .onExit) (l : Loc) (hl : resolve sh r.object = some l) :
    ∃ i s, rp'.slots[i]? = some s ∧ s.loc = l ∧ ⟨i, .onExit⟩ ∈ rp'.watches := by
  induction b generalizing rp with
  | nil => cases hr
  | cons x xs ih =>
    simp only [List.mem_cons] at hr
    rcases hr with rfl | hr
    · rw [compileReport] at h
      simp only [hs, htc, ha, hl, reduceCtorEq, false_and, if_false, if_true, Bool.false_eq_true] at h
      have hext := compileReport_ext sh bn act xs _ rp' h
      obtain ⟨i, s, h1s, h2s, h3s⟩ := addWatch_spec rp l r.extra r.object .onExit
      exact ⟨i, s, hext.slot h1s, h2s, hext.watches _ h3s⟩
    · obtain ⟨rp1, _, h2⟩ := compileReport_cons sh bn act x xs rp rp' h
      exact ih rp1 h2 hr

/-- an active on-valid show/get rule whose object and whose valid flag resolve yields an on-valid
    watch (on that flag) on its slot -/
theorem compileReport_onValid (sh : Shape) (bn : List String) (act : Action)
    (b : Box) (rp rp' : Report)
    (h : compileReport sh bn act b rp = .ok rp') (r : Rule) (hr : r ∈ b) (hs : r.suspended = false)
    (ha : r.action = act) (htc : r.timec = .onValid) (l f : Loc) (hl : resolve sh r.object = some l)
    (hf : validFlagOf sh r.object = some f) :
    ∃ i s, rp'.slots[i]? = some s ∧ s.loc = l ∧ ⟨i, .onValid f⟩ ∈ rp'.watches := by
  induction b generalizing rp with
  | nil => cases hr
  | cons x xs ih =>
    simp only [List.mem_cons] at hr
    rcases hr with rfl | hr
    · rw [compileReport] at h
      simp only [hs, htc, ha, hl, hf, reduceCtorEq, false_and, if_false, if_true, Bool.false_eq_true] at h
      have hext := compileReport_ext sh bn act xs _ rp' h
      obtain ⟨i, s, h1s, h2s, h3s⟩ := addWatch_spec rp l r.extra r.object (.onValid f)
      exact ⟨i, s, hext.slot h1s, h2s, hext.watches _ h3s⟩
    · obtain ⟨rp1, _, h2⟩ := compileReport_cons sh bn act x xs rp rp' h
      exact ih rp1 h2 hr

end BMV.Simbox.Sim
