/-
  C18: the checker's `[undeclared]` class against `elaborate`'s name resolution.
-/
import BMV.Vlog.Check
namespace BMV.Vlog

theorem NoUndecl.ok {α : Type} (a : α) : NoUndecl (Except.ok a : R α) := fun _ h => by cases h
theorem NoUndecl.pure {α : Type} (a : α) : NoUndecl (Pure.pure a : R α) := fun _ h => by cases h
theorem NoUndecl.bind {α β : Type} {x : R α} {f : α → R β} (hx : NoUndecl x) (hf : ∀ a, NoUndecl (f a)) :
    NoUndecl (x >>= f) := by
  cases x with
  | error e => intro m h; exact hx m (by simpa [Bind.bind, Except.bind] using h)
  | ok a => exact hf a

theorem constEval_noUndecl (e : Expr) : NoUndecl (constEval e) := by
  unfold constEval
  split
  · exact NoUndecl.pure _
  · intro msg h
    simp only [throw, throwThe, MonadExceptOf.throw, Except.error.injEq] at h
    subst h
    simp [UndeclMsg, String.toList_append, ToString.toString, List.isPrefixOf]

mutual
theorem resolveExpr_noUndecl (sc : Scope) : ∀ (e : Expr), (∀ n, n ∈ exprIds e → sc.contains n = true) →
    NoUndecl (resolveExpr sc e)
  | .num _ _, _ => by unfold resolveExpr; exact NoUndecl.pure _
  | .sig _, _ => by unfold resolveExpr; exact NoUndecl.pure _
  | .id n, h => by
    unfold resolveExpr
    split
    · exact NoUndecl.pure _
    · exact NoUndecl.pure _
    · rename_i hnone
      have := h n (by simp [exprIds])
      rw [Std.HashMap.contains_eq_isSome_getElem?, hnone] at this
      simp at this
  | .idx b i, h => by
    unfold resolveExpr
    have hb := resolveExpr_noUndecl sc b (fun n hn => h n (by simp [exprIds, hn]))
    have hi := resolveExpr_noUndecl sc i (fun n hn => h n (by simp [exprIds, hn]))
    exact hb.bind (fun _ => hi.bind (fun _ => NoUndecl.pure _))
  | .rng b m l, h => by
    unfold resolveExpr
    have hb := resolveExpr_noUndecl sc b (fun n hn => h n (by simp [exprIds, hn]))
    have hm := resolveExpr_noUndecl sc m (fun n hn => h n (by simp [exprIds, hn]))
    have hl := resolveExpr_noUndecl sc l (fun n hn => h n (by simp [exprIds, hn]))
    exact hm.bind (fun _ => (constEval_noUndecl _).bind (fun _ => hl.bind (fun _ =>
      (constEval_noUndecl _).bind (fun _ => hb.bind (fun _ => NoUndecl.pure _)))))
  | .ipart b s w up, h => by
    unfold resolveExpr
    have hb := resolveExpr_noUndecl sc b (fun n hn => h n (by simp [exprIds, hn]))
    have hs := resolveExpr_noUndecl sc s (fun n hn => h n (by simp [exprIds, hn]))
    have hw := resolveExpr_noUndecl sc w (fun n hn => h n (by simp [exprIds, hn]))
    exact hw.bind (fun _ => (constEval_noUndecl _).bind (fun _ => hb.bind (fun _ => hs.bind (fun _ => NoUndecl.pure _))))
  | .cat es, h => by
    unfold resolveExpr
    have := resolveExprs_noUndecl sc es (fun n hn => h n (by simp [exprIds, hn]))
    exact this.bind (fun _ => NoUndecl.pure _)
  | .rep c es, h => by
    unfold resolveExpr
    have hc := resolveExpr_noUndecl sc c (fun n hn => h n (by simp [exprIds, hn]))
    have hes := resolveExprs_noUndecl sc es (fun n hn => h n (by simp [exprIds, hn]))
    exact hc.bind (fun _ => (constEval_noUndecl _).bind (fun _ => hes.bind (fun _ => NoUndecl.pure _)))
  | .un _ e, h => by
    unfold resolveExpr
    have he := resolveExpr_noUndecl sc e (fun n hn => h n (by simp [exprIds, hn]))
    exact he.bind (fun _ => NoUndecl.pure _)
  | .bin _ a b, h => by
    unfold resolveExpr
    have ha := resolveExpr_noUndecl sc a (fun n hn => h n (by simp [exprIds, hn]))
    have hb := resolveExpr_noUndecl sc b (fun n hn => h n (by simp [exprIds, hn]))
    exact ha.bind (fun _ => hb.bind (fun _ => NoUndecl.pure _))
  | .cond c a b, h => by
    unfold resolveExpr
    have hc := resolveExpr_noUndecl sc c (fun n hn => h n (by simp [exprIds, hn]))
    have ha := resolveExpr_noUndecl sc a (fun n hn => h n (by simp [exprIds, hn]))
    have hb := resolveExpr_noUndecl sc b (fun n hn => h n (by simp [exprIds, hn]))
    exact hc.bind (fun _ => ha.bind (fun _ => hb.bind (fun _ => NoUndecl.pure _)))
theorem resolveExprs_noUndecl (sc : Scope) : ∀ (es : List Expr), (∀ n, n ∈ exprIdsL es → sc.contains n = true) →
    NoUndecl (resolveExprs sc es)
  | [], _ => by unfold resolveExprs; exact NoUndecl.pure _
  | e :: es, h => by
    unfold resolveExprs
    have he := resolveExpr_noUndecl sc e (fun n hn => h n (by simp [exprIdsL, hn]))
    have hes := resolveExprs_noUndecl sc es (fun n hn => h n (by simp [exprIdsL, hn]))
    exact he.bind (fun _ => hes.bind (fun _ => NoUndecl.pure _))
end


theorem eraseDups_nil {α : Type} [BEq α] [LawfulBEq α] {l : List α} (h : l.eraseDups = []) : l = [] := by
  cases l with
  | nil => rfl
  | cons a as =>
    have : a ∈ (a :: as).eraseDups := List.mem_eraseDups.mpr (List.mem_cons_self ..)
    rw [h] at this
    exact absurd this List.not_mem_nil

theorem free_nil {scope ids : List String} (h : ids.filter (fun n => !scope.contains n) = []) :
    ∀ n, n ∈ ids → n ∈ scope := by
  intro n hn
  have := List.filter_eq_nil_iff.mp h n hn
  simpa using this

/-- what `m.undeclared = []` says about one item -/
theorem undeclared_item {m : Module} (h : m.undeclared = []) {it : Item} (hit : it ∈ m.items) :
    (match it with
      | .decl d => (declIds d).filter (fun n => !m.scope.contains n)
      | .param _ r _ v => (rangeIds r ++ exprIds v).filter (fun n => !m.scope.contains n)
      | .assign l r => (exprIds l ++ exprIds r).filter (fun n => !m.scope.contains n)
      | .always _ evs b => (evs.flatMap fun e => exprIds e.2).filter (fun n => !m.scope.contains n) ++ stmtFree m.scope b
      | .initial b => stmtFree m.scope b
      | .inst _ _ ps cs => ((connExprs ps).flatMap exprIds ++ (connExprs cs).flatMap exprIds).filter
          (fun n => !m.scope.contains n)) = [] := by
  unfold Module.undeclared at h
  have h' := eraseDups_nil h
  simp only [] at h'
  have := List.flatMap_eq_nil_iff.mp h' it hit
  cases it <;> exact this


end BMV.Vlog
