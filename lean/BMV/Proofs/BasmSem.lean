/-
  Helper lemmas for C05, semantic half: the reference interpreter on the source (BMV.BasmSem) and
  the simulator on the assembled ROM (BMV.Isa) move in lock step.
-/
import BMV.Proofs.Basm
import BMV.Proofs.WfBM
namespace BMV.Basm
open BMV BMV.Bits BMV.Encode

/-- a vector agrees with a map on its `n` cells -/
def Agrees {α : Type} (l : List α) (f : Nat → α) (n : Nat) : Prop :=
  l.length = n ∧ ∀ k, k < n → l[k]? = some (f k)

theorem Agrees.set {α : Type} {l : List α} {f : Nat → α} {n : Nat} (h : Agrees l f n) (k : Nat) (v : α) :
    Agrees (l.set k v) (upd f k v) n := by
  refine ⟨by simp [h.1], ?_⟩
  intro j hj
  by_cases hjk : j = k
  · subst hjk; simp [upd, h.1, hj]
  · rw [List.getElem?_set_ne (Ne.symm hjk)]
    simp [upd, hjk, h.2 j hj]

theorem Agrees.get {α : Type} {l : List α} {f : Nat → α} {n : Nat} (h : Agrees l f n) {k : Nat} (hk : k < n) :
    l[k]? = some (f k) := h.2 k hk

/-- everything `asm a i = .ok w` says about how the simulator will decode `w` -/
theorem asm_decode {a : Arch} {i : Instr} {w : Bits} (h : Encode.asm a i = .ok w) :
    ∃ fs, layout i.op = some fs ∧ a.ops[getId (w.take a.opBits)]? = some i.op ∧
      decOperands a fs (w.drop a.opBits) = (normalise i).args := by
  have hd := BMV.Props.C03.disasm_asm a i w h
  obtain ⟨idx, hidx, hid, _⟩ := BMV.Props.C03.opcode_numbering a i w h
  obtain ⟨_, fs, _, _, hlay, _⟩ := asm_ok_inv h
  refine ⟨fs, hlay, by rw [hid]; exact hidx, ?_⟩
  unfold disasm at hd
  rw [hid] at hd
  simp only [hidx, hlay] at hd
  have := Option.some.inj hd
  rw [← this]



/-- the simulation relation (non-blocking fragment): program counter ↔ position through `A`,
    register file and output ports cell by cell, input ports as the environment presents them -/
structure Sim (a : Arch) (e : Env) (A : Nat → Nat) (r : RefState) (vm : VmState) : Prop where
  pc : vm.pc = A r.pos
  regs : Agrees vm.regs r.regs (2 ^ a.r)
  outs : Agrees vm.outputs r.outputs a.m
  ins : Agrees vm.inputs e.inputs a.n
  rdef : r.deferred = []
  vdef : vm.deferred = []

theorem std64 {n : Nat} (h : Isa.stdSize n = true) : n ≤ 64 := by
  simp only [Isa.stdSize, Bool.or_eq_true, beq_iff_eq] at h; omega

section isa
variable {a : Arch} {plen : Nat} {body : Bits} {vm : VmState}

theorem isa_nop : Isa.exec a plen "nop" body vm = some { vm with pc := vm.pc + 1 } := by simp [Isa.exec]

theorem isa_rset (h64 : a.rsize ≤ 64) :
    Isa.exec a plen "rset" body vm =
      some { vm with pc := vm.pc + 1, regs := vm.regs.set (Isa.field body 0 a.r) (Isa.field body a.r a.rsize) } := by
  simp [Isa.exec, h64]

theorem isa_unop {op : String} (hop : op = "inc" ∨ op = "dec" ∨ op = "clr") {x v : Nat}
    (hx : vm.regs[Isa.field body 0 a.r]? = some x) (hv : Isa.unop op a.rsize x = some v) :
    Isa.exec a plen op body vm = some { vm with pc := vm.pc + 1, regs := vm.regs.set (Isa.field body 0 a.r) v } := by
  rcases hop with rfl | rfl | rfl <;> simp [Isa.exec, hx, hv]

theorem isa_binop {op : String} (hop : op = "add" ∨ op = "cpy") {d s v : Nat}
    (hd : vm.regs[Isa.field body 0 a.r]? = some d) (hs : vm.regs[Isa.field body a.r a.r]? = some s)
    (hv : Isa.binop op a.rsize d s = some v) :
    Isa.exec a plen op body vm = some { vm with pc := vm.pc + 1, regs := vm.regs.set (Isa.field body 0 a.r) v } := by
  rcases hop with rfl | rfl <;> simp [Isa.exec, hd, hs, hv]

theorem isa_j (hv : Isa.field body 0 a.o < plen) :
    Isa.exec a plen "j" body vm = some { vm with pc := Isa.field body 0 a.o } := by simp [Isa.exec, hv]

theorem isa_jz {x : Nat} (hx : vm.regs[Isa.field body 0 a.r]? = some x) (hstd : Isa.stdSize a.rsize = true) :
    Isa.exec a plen "jz" body vm =
      some (if x = 0 then { vm with pc := Isa.field body a.r a.o } else { vm with pc := vm.pc + 1 }) := by
  simp [Isa.exec, hx, hstd]

theorem isa_i2r {v : Nat} (hv : vm.inputs[Isa.field body a.r a.inBits]? = some v) (hk : Isa.field body 0 a.r < vm.regs.length) :
    Isa.exec a plen "i2r" body vm = some { vm with pc := vm.pc + 1, regs := vm.regs.set (Isa.field body 0 a.r) v } := by
  simp [Isa.exec, hv, hk]

theorem isa_r2o {v : Nat} (hv : vm.regs[Isa.field body 0 a.r]? = some v) (ho : Isa.field body a.r a.outBits < vm.outputs.length) :
    Isa.exec a plen "r2o" body vm = some { vm with pc := vm.pc + 1, outputs := vm.outputs.set (Isa.field body a.r a.outBits) v } := by
  simp [Isa.exec, hv, ho]

end isa



theorem asm_fields {a : Arch} {i : Instr} {w : Bits} {fs : List FieldKind} (h : Encode.asm a i = .ok w)
    (hl : layout i.op = some fs) (hlen : lenientArity i.op = false) :
    decOperands a fs (w.drop a.opBits) = i.args ∧ a.ops[getId (w.take a.opBits)]? = some i.op := by
  obtain ⟨fs', hl', hop, hd⟩ := asm_decode h
  rw [hl] at hl'; cases hl'
  refine ⟨?_, hop⟩
  rw [hd]; simp [normalise, hlen]

/-- a symbol operand that was assembled did resolve -/
theorem resolved_of_asm {a : Arch} {op : String} {pre post : List Arg} {t : String} {tbl : List (String × Nat)} {w : Bits}
    (h : Encode.asm a ⟨op, (pre ++ Arg.sym t :: post).map (resolveArg tbl)⟩ = .ok w) (hlen : lenientArity op = false) :
    ∃ v, lookup tbl t = some v := by
  cases hv : lookup tbl t with
  | some v => exact ⟨v, rfl⟩
  | none =>
    exfalso
    obtain ⟨fs, hlay, hlen', hall⟩ := BMV.Props.C03.asm_operands_fit a _ w h
    have hx : (normalise ⟨op, (pre ++ Arg.sym t :: post).map (resolveArg tbl)⟩).args[pre.length]? = some .bad := by
      simp [normalise, hlen, resolveArg, hv]
    have hlt : pre.length < fs.length := by
      rw [hlen']; simp [normalise, hlen]
    obtain ⟨f, hf⟩ : ∃ f, fs[pre.length]? = some f := ⟨fs[pre.length], List.getElem?_eq_getElem hlt⟩
    have := (hall pre.length f .bad hf hx).2.2
    cases f <;> simp at this



section vm
variable {a : Arch} {plen : Nat} {w : Bits} {vm : VmState}
open BMV.WfBM

theorem vm_rset {k n : Nat} (h : Encode.asm a ⟨"rset", [.reg k, .num n]⟩ = .ok w) (h64 : a.rsize ≤ 64) :
    k < 2 ^ a.r ∧ Isa.exec a plen "rset" (w.drop a.opBits) vm = some { vm with pc := vm.pc + 1, regs := vm.regs.set k n } := by
  obtain ⟨hf, _⟩ := asm_fields h (fs := [.reg, .imm]) (show layout "rset" = some [.reg, .imm] from by decide) (show lenientArity "rset" = false from by decide)
  rw [dec_rv] at hf
  simp only [List.cons.injEq, Operand.reg.injEq, Operand.num.injEq, and_true] at hf
  refine ⟨by rw [← hf.1]; exact field_lt _ _ _, ?_⟩
  rw [isa_rset h64, hf.1, hf.2]

theorem vm_unop {op : String} (hop : op = "inc" ∨ op = "dec" ∨ op = "clr") {k : Nat}
    (h : Encode.asm a ⟨op, [.reg k]⟩ = .ok w) :
    k < 2 ^ a.r ∧ ∀ x v, vm.regs[k]? = some x → Isa.unop op a.rsize x = some v →
      Isa.exec a plen op (w.drop a.opBits) vm = some { vm with pc := vm.pc + 1, regs := vm.regs.set k v } := by
  have hl : layout op = some [.reg] ∧ lenientArity op = false := by rcases hop with rfl | rfl | rfl <;> decide
  obtain ⟨hf, _⟩ := asm_fields h (fs := [.reg]) hl.1 hl.2
  rw [dec_r] at hf
  simp only [List.cons.injEq, Operand.reg.injEq, and_true] at hf
  refine ⟨by rw [← hf]; exact field_lt _ _ _, ?_⟩
  intro x v hx hv
  rw [← hf] at hx ⊢
  exact isa_unop hop hx hv

theorem vm_binop {op : String} (hop : op = "add" ∨ op = "cpy") {d s : Nat}
    (h : Encode.asm a ⟨op, [.reg d, .reg s]⟩ = .ok w) :
    d < 2 ^ a.r ∧ s < 2 ^ a.r ∧ ∀ x y v, vm.regs[d]? = some x → vm.regs[s]? = some y → Isa.binop op a.rsize x y = some v →
      Isa.exec a plen op (w.drop a.opBits) vm = some { vm with pc := vm.pc + 1, regs := vm.regs.set d v } := by
  have hl : layout op = some [.reg, .reg] ∧ lenientArity op = false := by rcases hop with rfl | rfl <;> decide
  obtain ⟨hf, _⟩ := asm_fields h (fs := [.reg, .reg]) hl.1 hl.2
  rw [dec_rr] at hf
  simp only [List.cons.injEq, Operand.reg.injEq, and_true] at hf
  refine ⟨by rw [← hf.1]; exact field_lt _ _ _, by rw [← hf.2]; exact field_lt _ _ _, ?_⟩
  intro x y v hx hy hv
  rw [← hf.1] at hx ⊢
  rw [← hf.2] at hy
  exact isa_binop hop hx hy hv

theorem vm_j {v : Nat} (h : Encode.asm a ⟨"j", [.num v]⟩ = .ok w) (hmode : a.mode = .ha) (hv : v < plen) :
    Isa.exec a plen "j" (w.drop a.opBits) vm = some { vm with pc := v } := by
  obtain ⟨hf, _⟩ := asm_fields h (fs := [.loc]) (show layout "j" = some [.loc] from by decide) (show lenientArity "j" = false from by decide)
  rw [dec_l a hmode] at hf
  simp only [List.cons.injEq, Operand.num.injEq, and_true] at hf
  rw [isa_j (by rw [hf]; exact hv), hf]

theorem vm_jz {k v : Nat} (h : Encode.asm a ⟨"jz", [.reg k, .num v]⟩ = .ok w) (hstd : Isa.stdSize a.rsize = true) :
    k < 2 ^ a.r ∧ ∀ x, vm.regs[k]? = some x →
      Isa.exec a plen "jz" (w.drop a.opBits) vm = some (if x = 0 then { vm with pc := v } else { vm with pc := vm.pc + 1 }) := by
  obtain ⟨hf, _⟩ := asm_fields h (fs := [.reg, .rom]) (show layout "jz" = some [.reg, .rom] from by decide) (show lenientArity "jz" = false from by decide)
  rw [dec_ra] at hf
  simp only [List.cons.injEq, Operand.reg.injEq, Operand.num.injEq, and_true] at hf
  refine ⟨by rw [← hf.1]; exact field_lt _ _ _, ?_⟩
  intro x hx
  rw [← hf.1] at hx
  rw [isa_jz hx hstd, hf.2]

theorem vm_i2r {k i : Nat} (h : Encode.asm a ⟨"i2r", [.reg k, .inp i]⟩ = .ok w) :
    k < 2 ^ a.r ∧ i < a.n ∧ ∀ v, vm.inputs[i]? = some v → k < vm.regs.length →
      Isa.exec a plen "i2r" (w.drop a.opBits) vm = some { vm with pc := vm.pc + 1, regs := vm.regs.set k v } := by
  obtain ⟨hf, _⟩ := asm_fields h (fs := [.reg, .inp]) (show layout "i2r" = some [.reg, .inp] from by decide) (show lenientArity "i2r" = false from by decide)
  have hb := (BMV.Props.C03.asm_rejects_bad_index a _ w h 1 [.reg, .inp] (show layout "i2r" = some [.reg, .inp] from by decide)).2.1 i (by simp) (by simp [normalise, lenientArity])
  rw [dec_ri] at hf
  simp only [List.cons.injEq, Operand.reg.injEq, Operand.inp.injEq, and_true] at hf
  refine ⟨by rw [← hf.1]; exact field_lt _ _ _, hb, ?_⟩
  intro v hv hk
  rw [← hf.2] at hv
  rw [← hf.1] at hk ⊢
  exact isa_i2r hv hk

theorem vm_r2o {k o : Nat} (h : Encode.asm a ⟨"r2o", [.reg k, .out o]⟩ = .ok w) :
    k < 2 ^ a.r ∧ o < a.m ∧ ∀ v, vm.regs[k]? = some v → o < vm.outputs.length →
      Isa.exec a plen "r2o" (w.drop a.opBits) vm = some { vm with pc := vm.pc + 1, outputs := vm.outputs.set o v } := by
  obtain ⟨hf, _⟩ := asm_fields h (fs := [.reg, .out]) (show layout "r2o" = some [.reg, .out] from by decide) (show lenientArity "r2o" = false from by decide)
  have hb := (BMV.Props.C03.asm_rejects_bad_index a _ w h 1 [.reg, .out] (show layout "r2o" = some [.reg, .out] from by decide)).2.2 o (by simp) (by simp [normalise, lenientArity])
  rw [dec_ro] at hf
  simp only [List.cons.injEq, Operand.reg.injEq, Operand.out.injEq, and_true] at hf
  refine ⟨by rw [← hf.1]; exact field_lt _ _ _, hb, ?_⟩
  intro v hv ho
  rw [← hf.1] at hv
  rw [← hf.2] at ho ⊢
  exact isa_r2o hv ho

end vm




theorem execLine_i2r {c : SecCtx} {e : Env} {l : Line} {r r' : RefState} {k i : Nat} (hop : l.op = "i2r")
    (hargs : l.args = [.reg k, .inp i]) (hex : execLine c e l r = some r') :
    r' = execIo e (skip c.lines (r.pos + 1)) r (.inAsync, k, i) := by
  unfold execLine at hex
  simp only [hop, hargs] at hex
  split at hex <;> simp_all [ioKind]

theorem execLine_r2o {c : SecCtx} {e : Env} {l : Line} {r r' : RefState} {k o : Nat} (hop : l.op = "r2o")
    (hargs : l.args = [.reg k, .out o]) (hex : execLine c e l r = some r') :
    r' = execIo e (skip c.lines (r.pos + 1)) r (.outAsync, k, o) := by
  unfold execLine at hex
  simp only [hop, hargs] at hex
  split at hex <;> simp_all [ioKind]

theorem execLine_movin {c : SecCtx} {e : Env} {l : Line} {r r' : RefState} {k i : Nat} (hop : l.op = "mov")
    (hargs : l.args = [.reg k, .inp i]) (hmd : c.mode = some .async) (hex : execLine c e l r = some r') :
    r' = execIo e (skip c.lines (r.pos + 1)) r (.inAsync, k, i) := by
  unfold execLine at hex
  simp only [hop, hargs] at hex
  split at hex <;> simp_all [ioKind]

theorem execLine_movout {c : SecCtx} {e : Env} {l : Line} {r r' : RefState} {k o : Nat} (hop : l.op = "mov")
    (hargs : l.args = [.out o, .reg k]) (hmd : c.mode = some .async) (hex : execLine c e l r = some r') :
    r' = execIo e (skip c.lines (r.pos + 1)) r (.outAsync, k, o) := by
  unfold execLine at hex
  simp only [hop, hargs] at hex
  split at hex <;> simp_all [ioKind]

/-- where the reference interpreter can be after one line: the next instruction, or a label's -/
def PosNext (c : SecCtx) (r r' : RefState) : Prop :=
  r'.pos = skip c.lines (r.pos + 1) ∨ ∃ t, labelPos c.lines t = some r'.pos

/-- MATCHER EFFECT (non-blocking fragment).  One source line `l`, the real instruction the matcher
    resolved it to (`matchLine`), its assembled word `w`: executing the word on the simulator does
    to the simulator state exactly what the reference interpreter's `execLine` does to the
    reference state for the *source* line.  `A` maps positions to ROM addresses; the two
    hypotheses about it are discharged by the label-table theorems. -/
theorem exec_matches {a : Arch} {c : SecCtx} {e : Env} {A : Nat → Nat} {plen : Nat} {l : Line} {op : String}
    {args : List Arg} {tbl : List (String × Nat)} {w : Bits} {r r' : RefState} {vm : VmState}
    (hm : matchLine c.mode l = some (op, args))
    (hasync : op ≠ "i2rw" ∧ op ≠ "r2owa")
    (hasm : Encode.asm a ⟨op, args.map (resolveArg tbl)⟩ = .ok w)
    (hmode : a.mode = .ha) (hrs : a.rsize = c.rsize)
    (hsim : Sim a e A r vm)
    (hnext : A (skip c.lines (r.pos + 1)) = vm.pc + 1)
    (hlab : ∀ t p v, labelPos c.lines t = some p → lookup tbl t = some v → v = A p ∧ v < plen)
    (hex : execLine c e l r = some r') :
    ∃ vm', Isa.exec a plen op (w.drop a.opBits) vm = some vm' ∧ Sim a e A r' vm' ∧ PosNext c r r' := by
  have hrs' : c.rsize = a.rsize := hrs.symm
  obtain ⟨hpc, hregs, houts, hins, hrd, hvd⟩ := hsim
  have regGet : ∀ k, k < 2 ^ a.r → vm.regs[k]? = some (r.regs k) := fun k hk => hregs.get hk
  have mkSim : ∀ (k v : Nat), Sim a e A { r with pos := skip c.lines (r.pos + 1), regs := upd r.regs k v }
      { vm with pc := vm.pc + 1, regs := vm.regs.set k v } :=
    fun k v => ⟨hnext.symm, hregs.set k v, houts, hins, hrd, hvd⟩
  have simNext : Sim a e A { r with pos := skip c.lines (r.pos + 1) } { vm with pc := vm.pc + 1 } :=
    ⟨hnext.symm, hregs, houts, hins, hrd, hvd⟩
  have simJump : ∀ p, Sim a e A { r with pos := p } { vm with pc := A p } :=
    fun p => ⟨rfl, hregs, houts, hins, hrd, hvd⟩
  -- the three IO-free shapes and the two async IO shapes, each for whatever source spelling
  have caseRset : ∀ k n, Encode.asm a ⟨"rset", [.reg k, .num n]⟩ = .ok w →
      (if a.rsize ≤ 64 then some ({ r with pos := skip c.lines (r.pos + 1), regs := upd r.regs k n } : RefState) else none) = some r' →
      ∃ vm', Isa.exec a plen "rset" (w.drop a.opBits) vm = some vm' ∧ Sim a e A r' vm' ∧ PosNext c r r' := by
    intro k n h hx
    split at hx
    · cases hx
      exact ⟨_, (vm_rset h (by assumption)).2, mkSim k n, Or.inl rfl⟩
    · cases hx
  have caseCpy : ∀ d s, Encode.asm a ⟨"cpy", [.reg d, .reg s]⟩ = .ok w →
      some ({ r with pos := skip c.lines (r.pos + 1), regs := upd r.regs d (r.regs s) } : RefState) = some r' →
      ∃ vm', Isa.exec a plen "cpy" (w.drop a.opBits) vm = some vm' ∧ Sim a e A r' vm' ∧ PosNext c r r' := by
    intro d s h hx
    cases hx
    obtain ⟨hd, hs, hexec⟩ := vm_binop (plen := plen) (vm := vm) (Or.inr rfl) h
    exact ⟨_, hexec _ _ _ (regGet d hd) (regGet s hs) (by simp [Isa.binop]), mkSim d _, Or.inl rfl⟩
  have caseJ : ∀ t, Encode.asm a ⟨"j", [resolveArg tbl (.sym t)]⟩ = .ok w →
      (labelPos c.lines t).map (fun p => ({ r with pos := p } : RefState)) = some r' →
      ∃ vm', Isa.exec a plen "j" (w.drop a.opBits) vm = some vm' ∧ Sim a e A r' vm' ∧ PosNext c r r' := by
    intro t h hx
    obtain ⟨v, hv⟩ := resolved_of_asm (pre := []) (post := []) (by simpa using h) (by decide)
    cases hp : labelPos c.lines t with
    | none => simp [hp] at hx
    | some p =>
      simp only [hp, Option.map_some, Option.some.injEq] at hx
      subst hx
      obtain ⟨hva, hvl⟩ := hlab t p v hp hv
      simp only [resolveArg, hv] at h
      refine ⟨_, vm_j h hmode hvl, ?_, Or.inr ⟨t, hp⟩⟩
      rw [hva]; exact simJump p
  have caseI2r : ∀ k i, Encode.asm a ⟨"i2r", [.reg k, .inp i]⟩ = .ok w →
      r' = execIo e (skip c.lines (r.pos + 1)) r (.inAsync, k, i) →
      ∃ vm', Isa.exec a plen "i2r" (w.drop a.opBits) vm = some vm' ∧ Sim a e A r' vm' ∧ PosNext c r r' := by
    intro k i h hx
    subst hx
    obtain ⟨hk, hi, hexec⟩ := vm_i2r (plen := plen) (vm := vm) h
    exact ⟨_, hexec _ (hins.get hi) (by rw [hregs.1]; exact hk), mkSim k _, Or.inl rfl⟩
  have caseR2o : ∀ k o, Encode.asm a ⟨"r2o", [.reg k, .out o]⟩ = .ok w →
      r' = execIo e (skip c.lines (r.pos + 1)) r (.outAsync, k, o) →
      ∃ vm', Isa.exec a plen "r2o" (w.drop a.opBits) vm = some vm' ∧ Sim a e A r' vm' ∧ PosNext c r r' := by
    intro k o h hx
    subst hx
    obtain ⟨hk, ho, hexec⟩ := vm_r2o (plen := plen) (vm := vm) h
    exact ⟨_, hexec _ (regGet k hk) (by rw [houts.1]; exact ho),
      ⟨hnext.symm, hregs, houts.set o _, hins, hrd, hvd⟩, Or.inl rfl⟩
  have caseUn : ∀ (op : String) (hop : op = "inc" ∨ op = "dec" ∨ op = "clr") (k : Nat) (f : Nat → Nat),
      Encode.asm a ⟨op, [.reg k]⟩ = .ok w → (∀ x, Isa.stdSize a.rsize = true → Isa.unop op a.rsize x = some (f x)) →
      (if Isa.stdSize a.rsize = true then some ({ r with pos := skip c.lines (r.pos + 1), regs := upd r.regs k (f (r.regs k)) } : RefState) else none) = some r' →
      ∃ vm', Isa.exec a plen op (w.drop a.opBits) vm = some vm' ∧ Sim a e A r' vm' ∧ PosNext c r r' := by
    intro op hop k f h hf hx
    split at hx
    · rename_i hstd
      cases hx
      obtain ⟨hk, hexec⟩ := vm_unop (plen := plen) (vm := vm) hop h
      exact ⟨_, hexec _ _ (regGet k hk) (hf _ hstd), mkSim k _, Or.inl rfl⟩
    · cases hx
  unfold matchLine at hm
  split at hm
  case h_1 hop hargs =>   -- nop
    simp only [Option.some.injEq, Prod.mk.injEq] at hm; obtain ⟨rfl, rfl⟩ := hm
    simp only [execLine, hop, hargs, hrs'] at hex; cases hex
    exact ⟨_, isa_nop, simNext, Or.inl rfl⟩
  case h_2 hop hargs =>   -- noop
    simp only [Option.some.injEq, Prod.mk.injEq] at hm; obtain ⟨rfl, rfl⟩ := hm
    simp only [execLine, hop, hargs, hrs'] at hex; cases hex
    exact ⟨_, isa_nop, simNext, Or.inl rfl⟩
  case h_3 k n hop hargs =>   -- rset
    simp only [Option.some.injEq, Prod.mk.injEq] at hm; obtain ⟨rfl, rfl⟩ := hm
    simp only [execLine, hop, hargs, hrs'] at hex
    exact caseRset k n (by simpa [resolveArg] using hasm) hex
  case h_4 k n hop hargs =>   -- mov reg, number
    simp only [Option.some.injEq, Prod.mk.injEq] at hm; obtain ⟨rfl, rfl⟩ := hm
    simp only [execLine, hop, hargs, hrs'] at hex
    exact caseRset k n (by simpa [resolveArg] using hasm) hex
  case h_5 d s hop hargs =>   -- cpy
    simp only [Option.some.injEq, Prod.mk.injEq] at hm; obtain ⟨rfl, rfl⟩ := hm
    simp only [execLine, hop, hargs, hrs'] at hex
    exact caseCpy d s (by simpa [resolveArg] using hasm) hex
  case h_6 d s hop hargs =>   -- mov reg, reg
    simp only [Option.some.injEq, Prod.mk.injEq] at hm; obtain ⟨rfl, rfl⟩ := hm
    simp only [execLine, hop, hargs, hrs'] at hex
    exact caseCpy d s (by simpa [resolveArg] using hasm) hex
  case h_7 k hop hargs =>   -- inc
    simp only [Option.some.injEq, Prod.mk.injEq] at hm; obtain ⟨rfl, rfl⟩ := hm
    simp only [execLine, hop, hargs, hrs'] at hex
    exact caseUn "inc" (Or.inl rfl) k (fun x => (x + 1) % 2 ^ a.rsize) (by simpa [resolveArg] using hasm)
      (by intro x hs; simp [Isa.unop, hs]) hex
  case h_8 k hop hargs =>   -- dec
    simp only [Option.some.injEq, Prod.mk.injEq] at hm; obtain ⟨rfl, rfl⟩ := hm
    simp only [execLine, hop, hargs, hrs'] at hex
    exact caseUn "dec" (Or.inr (Or.inl rfl)) k (fun x => (x + 2 ^ a.rsize - 1) % 2 ^ a.rsize) (by simpa [resolveArg] using hasm)
      (by intro x hs; simp [Isa.unop, hs]) hex
  case h_9 k hop hargs =>   -- clr
    simp only [Option.some.injEq, Prod.mk.injEq] at hm; obtain ⟨rfl, rfl⟩ := hm
    simp only [execLine, hop, hargs, hrs'] at hex
    exact caseUn "clr" (Or.inr (Or.inr rfl)) k (fun _ => 0) (by simpa [resolveArg] using hasm)
      (by intro x hs; simp [Isa.unop, hs]) hex
  case h_10 d s hop hargs =>   -- add
    simp only [Option.some.injEq, Prod.mk.injEq] at hm; obtain ⟨rfl, rfl⟩ := hm
    simp only [execLine, hop, hargs, hrs'] at hex
    split at hex
    · rename_i hstd
      cases hex
      obtain ⟨hd, hs, hexec⟩ := vm_binop (plen := plen) (vm := vm) (Or.inl rfl) (by simpa [resolveArg] using hasm)
      exact ⟨_, hexec _ _ _ (regGet d hd) (regGet s hs) (by simp [Isa.binop, hstd]), mkSim d _, Or.inl rfl⟩
    · cases hex
  case h_11 n hop hargs =>   -- j <number>: no source-level meaning
    simp only [execLine, hop, hargs, ioKind] at hex; cases hex
  case h_12 t hop hargs =>   -- j <label>
    simp only [Option.some.injEq, Prod.mk.injEq] at hm; obtain ⟨rfl, rfl⟩ := hm
    simp only [execLine, hop, hargs, hrs'] at hex
    exact caseJ t (by simpa using hasm) hex
  case h_13 n hop hargs =>   -- jmp <number>
    simp only [execLine, hop, hargs, ioKind] at hex; cases hex
  case h_14 t hop hargs =>   -- jmp <label>
    simp only [Option.some.injEq, Prod.mk.injEq] at hm; obtain ⟨rfl, rfl⟩ := hm
    simp only [execLine, hop, hargs, hrs'] at hex
    exact caseJ t (by simpa using hasm) hex
  case h_15 k n hop hargs =>   -- jz reg, <number>
    simp only [execLine, hop, hargs, ioKind] at hex; cases hex
  case h_16 k t hop hargs =>   -- jz reg, <label>
    simp only [Option.some.injEq, Prod.mk.injEq] at hm; obtain ⟨rfl, rfl⟩ := hm
    simp only [execLine, hop, hargs, hrs'] at hex
    split at hex
    · rename_i hstd
      have hasm' : Encode.asm a ⟨"jz", [.reg k, resolveArg tbl (.sym t)]⟩ = .ok w := by simpa [resolveArg] using hasm
      obtain ⟨v, hv⟩ := resolved_of_asm (pre := [.reg k]) (post := []) (by simpa [resolveArg] using hasm') (by decide)
      cases hp : labelPos c.lines t with
      | none => simp [hp] at hex
      | some p =>
        simp only [hp, Option.map_some, Option.some.injEq] at hex
        obtain ⟨hva, _⟩ := hlab t p v hp hv
        simp only [resolveArg, hv] at hasm'
        obtain ⟨hk, hexec⟩ := vm_jz (plen := plen) (vm := vm) hasm' hstd
        refine ⟨_, hexec _ (regGet k hk), ?_⟩
        subst hex
        by_cases hz : r.regs k = 0
        · simp only [hz, if_true]; rw [hva]; exact ⟨simJump p, Or.inr ⟨t, hp⟩⟩
        · simp only [hz, if_false]; exact ⟨simNext, Or.inl rfl⟩
    · cases hex
  case h_17 k i hop hargs =>   -- i2r
    simp only [Option.some.injEq, Prod.mk.injEq] at hm; obtain ⟨rfl, rfl⟩ := hm
    exact caseI2r k i (by simpa [resolveArg] using hasm) (execLine_i2r hop hargs hex)
  case h_18 => simp only [Option.some.injEq, Prod.mk.injEq] at hm; exact absurd hm.1.symm hasync.1
  case h_19 k o hop hargs =>   -- r2o
    simp only [Option.some.injEq, Prod.mk.injEq] at hm; obtain ⟨rfl, rfl⟩ := hm
    exact caseR2o k o (by simpa [resolveArg] using hasm) (execLine_r2o hop hargs hex)
  case h_20 => simp only [Option.some.injEq, Prod.mk.injEq] at hm; exact absurd hm.1.symm hasync.2
  case h_21 k i hop hargs =>   -- mov reg, input
    cases hmd : c.mode with
    | none => simp [hmd] at hm
    | some md =>
      cases md with
      | async =>
        simp only [hmd, Option.some.injEq, Prod.mk.injEq] at hm; obtain ⟨rfl, rfl⟩ := hm
        exact caseI2r k i (by simpa [resolveArg] using hasm) (execLine_movin hop hargs hmd hex)
      | sync =>
        simp only [hmd, Option.some.injEq, Prod.mk.injEq] at hm; exact absurd hm.1.symm hasync.1
  case h_22 o k hop hargs =>   -- mov output, reg
    cases hmd : c.mode with
    | none => simp [hmd] at hm
    | some md =>
      cases md with
      | async =>
        simp only [hmd, Option.some.injEq, Prod.mk.injEq] at hm; obtain ⟨rfl, rfl⟩ := hm
        exact caseR2o k o (by simpa [resolveArg] using hasm) (execLine_movout hop hargs hmd hex)
      | sync =>
        simp only [hmd, Option.some.injEq, Prod.mk.injEq] at hm; exact absurd hm.1.symm hasync.2
  case h_23 => cases hm


/-! ### positions, addresses, labels -/

/-- a position of the filtered list comes from a position of the original list -/
theorem filter_index_inv : ∀ (ls : List Line) (i : Nat) (l : Line),
    (ls.filter fun l => !isEntry l)[i]? = some l → ∃ p, ls[p]? = some l ∧ isEntry l = false ∧ addr ls p = i
  | [], i, l, h => by simp at h
  | x :: xs, i, l, h => by
    by_cases hx : isEntry x = true
    · simp only [List.filter_cons, hx, Bool.not_true, Bool.false_eq_true, if_false] at h
      obtain ⟨p, h1, h2, h3⟩ := filter_index_inv xs i l h
      refine ⟨p + 1, by simpa using h1, h2, ?_⟩
      simp only [addr, List.take_succ_cons, List.filter_cons, hx, Bool.not_true, Bool.false_eq_true, if_false]
      exact h3
    · have hx' : isEntry x = false := by simpa using hx
      simp only [List.filter_cons, hx', Bool.not_false, if_true] at h
      cases i with
      | zero =>
        simp at h; subst h
        exact ⟨0, by simp, hx', by simp [addr]⟩
      | succ i =>
        obtain ⟨p, h1, h2, h3⟩ := filter_index_inv xs i l (by simpa using h)
        refine ⟨p + 1, by simpa using h1, h2, ?_⟩
        simp only [addr, List.take_succ_cons, List.filter_cons, hx', Bool.not_false, if_true, List.length_cons]
        simp only [addr] at h3
        omega

theorem addr_le (ls : List Line) (p : Nat) : addr ls p ≤ (ls.filter fun l => !isEntry l).length := by
  unfold addr
  exact List.Sublist.length_le (List.Sublist.filter _ (List.take_sublist p ls))

theorem addr_length (ls : List Line) : addr ls ls.length = (ls.filter fun l => !isEntry l).length := by
  simp [addr]

theorem addr_succ {ls : List Line} {p : Nat} {l : Line} (hl : ls[p]? = some l) :
    addr ls (p + 1) = addr ls p + (if isEntry l = true then 0 else 1) := by
  unfold addr
  rw [List.take_succ, List.filter_append, List.length_append]
  simp only [hl, Option.toList_some, List.filter_cons, List.filter_nil]
  cases isEntry l <;> simp

theorem addr_skip (ls : List Line) (p : Nat) : addr ls (skip ls p) = addr ls p := by
  unfold skip
  cases hl : ls[p]? with
  | none => rfl
  | some l =>
    simp only
    by_cases he : isEntry l = true
    · simp only [he, if_true]; rw [addr_succ hl]; simp [he]
    · simp [he]

/-- labels of source lines are unique across lines when the section has no duplicate label -/
theorem line_label_unique {ls : List Line} (hnd : hasDup (allLabels ls) = false) {i j : Nat} {li lj : Line} {s : String}
    (hi : ls[i]? = some li) (hj : ls[j]? = some lj) (hsi : s ∈ li.labels) (hsj : s ∈ lj.labels) : i = j := by
  have hnd' := (hasDup_false_iff _).mp hnd
  unfold allLabels List.Nodup at hnd'
  rw [List.pairwise_flatMap] at hnd'
  have hp := List.pairwise_iff_getElem.mp hnd'.2
  obtain ⟨hil, hie⟩ := List.getElem?_eq_some_iff.mp hi
  obtain ⟨hjl, hje⟩ := List.getElem?_eq_some_iff.mp hj
  rcases Nat.lt_trichotomy i j with h | h | h
  · exact absurd rfl (hp i j hil hjl h s (by rw [hie]; exact hsi) s (by rw [hje]; exact hsj))
  · exact h
  · exact absurd rfl (hp j i hjl hil h s (by rw [hje]; exact hsj) s (by rw [hie]; exact hsi))


theorem lookup_mem {tbl : List (String × Nat)} {t : String} {v : Nat} (h : lookup tbl t = some v) : (t, v) ∈ tbl := by
  unfold lookup at h
  cases hf : tbl.find? (·.1 == t) with
  | none => simp [hf] at h
  | some p =>
    simp [hf] at h
    have h1 := List.find?_some hf
    have h2 := List.mem_of_find?_eq_some hf
    have : p = (t, v) := by
      cases p; simp at h1 h; simp [h1, h]
    rw [← this]; exact h2

/-- the label table of the assembled body agrees with the source-level meaning of a label -/
theorem label_table_agrees {ls ls' : List Line} {mode : Option IoMode} {rs : List RLine}
    (h1 : removeEntry ls = .ok ls') (h2 : matchLines mode ls' = .ok rs) (hnd : hasDup (allLabels ls) = false)
    {t : String} {p v : Nat} (hp : labelPos ls t = some p) (hv : lookup (labelTable rs) t = some v) :
    v = addr ls p ∧ v < rs.length := by
  have hlt := lookup_lt hv
  refine ⟨?_, hlt⟩
  obtain ⟨r0, hr0, ht0⟩ := mem_labelTable.mp (lookup_mem hv)
  have hlen := matchLines_length h2
  have hv' : v < ls'.length := by omega
  obtain ⟨r1, hr1, hlab1, _⟩ := matchLines_get h2 v ls'[v] (List.getElem?_eq_getElem hv')
  rw [hr0] at hr1; cases hr1
  have he := removeEntry_eq h1
  subst he
  obtain ⟨p', hp1, hp2, hp3⟩ := filter_index_inv ls v _ (List.getElem?_eq_getElem hv')
  unfold labelPos at hp
  cases hq : ls.findIdx? (fun l => l.labels.contains t) with
  | none => rw [hq] at hp; simp at hp
  | some q =>
    rw [hq] at hp
    simp only [Option.map_some, Option.some.injEq] at hp
    obtain ⟨hql, hqt, _⟩ := List.findIdx?_eq_some_iff_getElem.mp hq
    have hqt' : t ∈ ls[q].labels := by simpa [List.contains_iff_mem] using hqt
    have hqp : q = p' := line_label_unique hnd (List.getElem?_eq_getElem hql) hp1 hqt' (by rw [← hlab1]; exact ht0)
    subst hqp
    have hsk : skip ls q = q := by
      unfold skip; rw [hp1]; simp [hp2]
    rw [hsk] at hp; subst hp
    exact hp3.symm

/-- with a single directive in the section, `skip` always lands on an instruction (or past the end) -/
theorem skip_not_entry {ls : List Line} (hone : (ls.filter isEntry).length ≤ 1) (p : Nat) (l : Line)
    (h : ls[skip ls p]? = some l) : isEntry l = false := by
  unfold skip at h
  cases hl : ls[p]? with
  | none => simp [hl] at h
  | some x =>
    simp only [hl] at h
    by_cases he : isEntry x = true
    · simp only [he, if_true] at h
      cases hl' : isEntry l with
      | false => rfl
      | true =>
        exfalso
        -- two directives, at p and p+1
        have hcat : ls.take (p + 1 + 1) = ls.take p ++ [x] ++ [l] := by
          rw [List.take_add_one, List.take_add_one, hl, h]; simp
        rw [← List.take_append_drop (p + 1 + 1) ls, hcat] at hone
        simp [List.filter_append, he, hl'] at hone
        omega
    · have he' : isEntry x = false := by simpa using he
      simp only [he', Bool.false_eq_true, if_false] at h
      rw [hl] at h; cases h
      exact he'


/-! ### one tick -/

theorem refDeferred_nil (e : Env) (r : RefState) (h : r.deferred = []) : refDeferred e r = r := by
  cases r; simp only at h; subst h; simp [refDeferred]

theorem runDeferred_nil (vm : VmState) (h : vm.deferred = []) : Isa.runDeferred vm = vm := by
  cases vm; simp only at h; subst h; simp [Isa.runDeferred]

/-- the hypotheses that make `ws` the ROM the (unchanged) pipeline assembles for the section `c` -/
structure Assembled (c : SecCtx) (rs : List RLine) (a : Arch) (ws : List Bits) : Prop where
  prep : ∃ ls', removeEntry c.lines = .ok ls' ∧ matchLines c.mode ls' = .ok rs
  nodup : hasDup (allLabels c.lines) = false
  arch : a = mkArch c.rsize rs
  prog : asmAll a (resolve rs) = .ok ws
  async : ∀ r ∈ rs, r.op ≠ "i2rw" ∧ r.op ≠ "r2owa"

/-- positions the reference interpreter can be at: an instruction, or just past the last line -/
def PosOk (ls : List Line) (p : Nat) : Prop := p ≤ ls.length ∧ ∀ l, ls[p]? = some l → isEntry l = false

theorem removeEntry_one {ls ls' : List Line} (h : removeEntry ls = .ok ls') : (ls.filter isEntry).length ≤ 1 := by
  unfold removeEntry at h
  split at h
  · rename_i e he; simp [he]
  · cases h

theorem skip_le {ls : List Line} {p : Nat} (h : p ≤ ls.length) : skip ls p ≤ ls.length := by
  unfold skip
  cases hl : ls[p]? with
  | none => exact h
  | some l =>
    have := (List.getElem?_eq_some_iff.mp hl).1
    simp only; split <;> omega

theorem posOk_skip {ls ls' : List Line} (h : removeEntry ls = .ok ls') {p : Nat} (hp : p ≤ ls.length) : PosOk ls (skip ls p) :=
  ⟨skip_le hp, fun l hl => skip_not_entry (removeEntry_one h) p l hl⟩

theorem posOk_label {ls ls' : List Line} (h : removeEntry ls = .ok ls') {t : String} {p : Nat}
    (hp : labelPos ls t = some p) : PosOk ls p := by
  unfold labelPos at hp
  cases hq : ls.findIdx? (fun l => l.labels.contains t) with
  | none => rw [hq] at hp; simp at hp
  | some q =>
    rw [hq] at hp
    simp only [Option.map_some, Option.some.injEq] at hp
    subst hp
    have := (List.findIdx?_eq_some_iff_getElem.mp hq).1
    exact posOk_skip h (by omega)

/-- LOCK STEP, one tick (non-blocking fragment, unchanged pipeline): if the reference interpreter
    can make a step from `r`, the simulator makes the corresponding step on the assembled ROM from
    every state related to `r`, and the two stay related. -/
theorem step_correct_aux {c : SecCtx} {rs : List RLine} {a : Arch} {ws : List Bits} {e : Env}
    {r r' : RefState} {vm : VmState} (hA : Assembled c rs a ws)
    (hsim : Sim a e (addr c.lines) r vm) (hpos : PosOk c.lines r.pos) (hex : refStep c e r = some r') :
    ∃ vm', Isa.step a ws vm = some vm' ∧ Sim a e (addr c.lines) r' vm' ∧ PosOk c.lines r'.pos := by
  obtain ⟨⟨ls', hre, hml⟩, hnd, harch, hprog, hasync⟩ := hA
  have hall := asmAll_ok hprog
  have hwl : ws.length = rs.length := by rw [← hall.length_eq, resolve_length]
  have hrl : rs.length = (c.lines.filter fun l => !isEntry l).length := by
    rw [matchLines_length hml, removeEntry_eq hre]
  unfold refStep at hex
  rw [refDeferred_nil e r hsim.rdef] at hex
  unfold Isa.step
  have hpcle : ¬ vm.pc > ws.length := by
    rw [hsim.pc, hwl, hrl]; exact Nat.not_lt.mpr (addr_le _ _)
  simp only [hpcle, if_false]
  rw [runDeferred_nil vm hsim.vdef]
  cases hl : c.lines[r.pos]? with
  | none =>
    simp only [hl] at hex
    split at hex
    · rename_i hend
      cases hex
      have hpc : vm.pc = ws.length := by rw [hsim.pc, hend, addr_length, hwl, hrl]
      have : ws[vm.pc]? = none := by rw [hpc]; simp
      simp only [this]
      exact ⟨vm, rfl, hsim, hpos⟩
    · cases hex
  | some l =>
    simp only [hl] at hex
    have hne : isEntry l = false := hpos.2 l hl
    simp only [hne, Bool.false_eq_true, if_false] at hex
    obtain ⟨⟨r0, hr0, _, hm0⟩, _⟩ := label_after_entry_removal_aux hre hml hnd hl hne
    have hi : (resolve rs)[addr c.lines r.pos]? = some ⟨r0.op, r0.args.map (resolveArg (labelTable rs))⟩ := by
      simp [resolve, hr0]
    have hwlt : addr c.lines r.pos < ws.length := by
      rw [hwl]; exact (List.getElem?_eq_some_iff.mp hr0).1
    have hw : ws[vm.pc]? = some ws[addr c.lines r.pos] := by
      rw [hsim.pc]; exact List.getElem?_eq_getElem hwlt
    have hasm := hall.get _ _ _ hi (List.getElem?_eq_getElem hwlt)
    obtain ⟨idx, hidx, hid, _⟩ := BMV.Props.C03.opcode_numbering a _ _ hasm
    simp only [hw, hid, hidx]
    have hplt : r.pos < c.lines.length := (List.getElem?_eq_some_iff.mp hl).1
    obtain ⟨vm', hv1, hv2, hv3⟩ := exec_matches (plen := ws.length) hm0 (hasync r0 (List.mem_of_getElem? hr0)) hasm
      (by rw [harch]; rfl) (by rw [harch]; rfl) hsim
      (by rw [addr_skip, addr_succ hl, hsim.pc]; simp [hne])
      (fun t p v hp hv => by
        have := label_table_agrees hre hml hnd hp hv
        exact ⟨this.1, by rw [hwl]; exact this.2⟩)
      hex
    refine ⟨vm', hv1, hv2, ?_⟩
    rcases hv3 with h | ⟨t, ht⟩
    · rw [h]; exact posOk_skip hre (by omega)
    · exact posOk_label hre ht


/-! ### runs -/

/-- the environment's values presented on the simulator's port vectors -/
def envVm (a : Arch) (e : Env) (vm : VmState) : VmState :=
  { vm with inputs := (List.range a.n).map e.inputs, inValid := (List.range a.n).map e.inValid,
            outRecv := (List.range a.m).map e.outRecv }

/-- the simulator on the assembled ROM under an environment stream -/
def isaRun (a : Arch) (ws : List Bits) (env : Nat → Env) : Nat → Option VmState
  | 0 => some (Isa.init a)
  | t + 1 => (isaRun a ws env t).bind fun vm => Isa.step a ws (envVm a (env t) vm)

/-- the environment-independent part of `Sim` -/
structure StSim (a : Arch) (A : Nat → Nat) (r : RefState) (vm : VmState) : Prop where
  pc : vm.pc = A r.pos
  regs : Agrees vm.regs r.regs (2 ^ a.r)
  outs : Agrees vm.outputs r.outputs a.m
  rdef : r.deferred = []
  vdef : vm.deferred = []

theorem agrees_range_map {α : Type} (f : Nat → α) (n : Nat) : Agrees ((List.range n).map f) f n := by
  refine ⟨by simp, ?_⟩
  intro k hk
  simp [hk]

theorem agrees_replicate {α : Type} (v : α) (n : Nat) : Agrees (List.replicate n v) (fun _ => v) n := by
  refine ⟨by simp, ?_⟩
  intro k hk
  simp [hk]

theorem StSim.toSim {a : Arch} {A : Nat → Nat} {r : RefState} {vm : VmState} (h : StSim a A r vm) (e : Env) :
    Sim a e A r (envVm a e vm) :=
  ⟨h.pc, h.regs, h.outs, agrees_range_map _ _, h.rdef, h.vdef⟩

theorem Sim.toSt {a : Arch} {e : Env} {A : Nat → Nat} {r : RefState} {vm : VmState} (h : Sim a e A r vm) : StSim a A r vm :=
  ⟨h.pc, h.regs, h.outs, h.rdef, h.vdef⟩

/-- LOCK STEP, every finite run (non-blocking fragment, unchanged pipeline, entry label on the
    first instruction): whatever the reference interpreter does on the source for `t` ticks under
    an environment stream, the simulator does on the assembled ROM, and the program counter,
    every register and every output port agree after every tick. -/
theorem run_correct_aux {c : SecCtx} {rs : List RLine} {a : Arch} {ws : List Bits} (hA : Assembled c rs a ws)
    (hentry : entryFirst c.lines = true) (env : Nat → Env) :
    ∀ (t : Nat) (r : RefState), refRun c env t = some r →
      ∃ vm, isaRun a ws env t = some vm ∧ StSim a (addr c.lines) r vm ∧ PosOk c.lines r.pos := by
  obtain ⟨ls', hre, _⟩ := hA.prep
  intro t
  induction t with
  | zero =>
    intro r hr
    simp only [refRun, refInit] at hr
    unfold entryFirst at hentry
    cases hs : startPos c.lines with
    | none => simp [hs] at hr
    | some p =>
      simp only [hs, Option.map_some, Option.some.injEq] at hr
      simp only [hs, beq_iff_eq] at hentry
      subst hr
      refine ⟨Isa.init a, rfl, ⟨?_, ?_, ?_, rfl, rfl⟩, ?_⟩
      · simp [Isa.init, hentry]
      · exact agrees_replicate 0 _
      · exact agrees_replicate 0 _
      · unfold startPos at hs
        split at hs
        · split at hs
          · exact posOk_label hre hs
          · cases hs
        · cases hs
  | succ t ih =>
    intro r' hr'
    simp only [refRun] at hr'
    cases hr : refRun c env t with
    | none => simp [hr] at hr'
    | some r =>
      simp only [hr, Option.bind_some] at hr'
      obtain ⟨vm, hvm, hst, hpos⟩ := ih r hr
      obtain ⟨vm', h1, h2, h3⟩ := step_correct_aux hA (hst.toSim (env t)) hpos hr'
      exact ⟨vm', by simp [isaRun, hvm, h1], h2.toSt, h3⟩


/-! ### from `assemble` to `Assembled` -/

theorem findSection_name {ss : List (String × List RLine)} {name : String} {rs : List RLine}
    (h : findSection ss name = some rs) : (name, rs) ∈ ss := by
  unfold findSection at h
  cases hf : ss.reverse.find? (·.1 == name) with
  | none => simp [hf] at h
  | some p =>
    simp [hf] at h
    have h1 := List.find?_some hf
    have h2 := List.mem_reverse.mp (List.mem_of_find?_eq_some hf)
    have : p = (name, rs) := by
      cases p; simp at h1 h; simp [h1, h]
    rw [← this]; exact h2

/-- the i-th processor of an accepted source is `mkCP` of the prepared body of a section that the
    i-th `cpdef` names -/
theorem assemble_cp {src : Source} {fix : Bool} {bm : BM} (h : assemble src fix = .ok bm) {i : Nat} {c : CpDef} {cp : CP}
    (hc : src.procs[i]? = some c) (hcp : bm.cps[i]? = some cp) :
    ∃ sec ∈ src.sections, sec.name = c.romcode ∧ ∃ rs, prepSection fix src.iomode sec = .ok rs ∧
      mkCP bm.rsize rs = .ok cp ∧ src.rsize = some bm.rsize ∧ hasDup (allLabels sec.lines) = false := by
  obtain ⟨rsize, ss, bodies, cps, hrs, _, _, hdup, hss, hb, _, hmk, rfl⟩ := assemble_ok_inv h
  have hb2 := mapE_ok hb
  have hm2 := mapE_ok hmk
  have hlen1 := hb2.length_eq
  have hlen2 := hm2.length_eq
  have hi : i < src.procs.length := (List.getElem?_eq_some_iff.mp hc).1
  have hbi : bodies[i]? = some bodies[i] := List.getElem?_eq_getElem (by omega)
  have hbody := hb2.get i c _ hc hbi
  have hmkcp := hm2.get i _ cp hbi hcp
  unfold cpBody at hbody
  cases hf : findSection ss c.romcode with
  | none => simp [hf] at hbody
  | some rs =>
    simp only [hf, Except.ok.injEq] at hbody
    have hmem := findSection_name hf
    obtain ⟨sec, hsec, hsp⟩ := all2_mem_right (mapE_ok hss) _ hmem
    unfold secPrep at hsp
    cases hp : prepSection fix src.iomode sec with
    | error e => simp [hp] at hsp
    | ok rs' =>
      simp only [hp, Except.ok.injEq, Prod.mk.injEq] at hsp
      refine ⟨sec, hsec, hsp.1, rs, by rw [← hsp.2]; exact hp, by rw [hbody]; exact hmkcp, hrs, ?_⟩
      have := List.any_eq_false.mp hdup sec hsec
      simpa using this

/-- … which is what `Assembled` asks for (unchanged pipeline), given that the real instructions
    of the section are non-blocking -/
theorem assembled_of_assemble {src : Source} {bm : BM} (h : assemble src false = .ok bm) {i : Nat} {c : CpDef} {cp : CP}
    (hc : src.procs[i]? = some c) (hcp : bm.cps[i]? = some cp) :
    ∃ sec ∈ src.sections, sec.name = c.romcode ∧ ∃ rs, prepSection false src.iomode sec = .ok rs ∧
      ((∀ r ∈ rs, r.op ≠ "i2rw" ∧ r.op ≠ "r2owa") → Assembled (SecCtx.of src sec) rs cp.arch cp.prog) := by
  obtain ⟨sec, hsec, hname, rs, hprep, hmk, hrs, hnd⟩ := assemble_cp h hc hcp
  refine ⟨sec, hsec, hname, rs, hprep, ?_⟩
  intro hasync
  unfold mkCP at hmk
  cases hws : asmAll (mkArch bm.rsize rs) (resolve rs) with
  | error e => simp [hws] at hmk
  | ok ws =>
    simp only [hws, Except.ok.injEq] at hmk
    subst hmk
    unfold prepSection at hprep
    simp only [Bool.false_eq_true, if_false] at hprep
    cases hre : removeEntry sec.lines with
    | error e => simp [hre] at hprep
    | ok ls' =>
      simp only [hre] at hprep
      exact ⟨⟨ls', hre, hprep⟩, hnd, by simp [SecCtx.of, hrs], hws, hasync⟩

end BMV.Basm
