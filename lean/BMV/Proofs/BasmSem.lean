/-
  Helper lemmas for C05, semantic half: the reference interpreter on the source (BMV.BasmSem) and
  the simulator on the assembled ROM (BMV.Isa) move in lock step.
-/
import BMV.Proofs.Basm
import BMV.Proofs.WfBM
namespace BMV.Basm
open BMV BMV.Bits BMV.Encode

/-- a vector agrees with a map on its `n` cells -/
def Agrees {α : Type} (l : List α) (f : Nat → α) (n : Nat) : Prop :=
  l.length = n ∧ ∀ k, k < n → l[k]? = some (f k)

theorem Agrees.set {α : Type} {l : List α} {f : Nat → α} {n : Nat} (h : Agrees l f n) (k : Nat) (v : α) :
    Agrees (l.set k v) (upd f k v) n := by
  refine ⟨by simp [h.1], ?_⟩
  intro j hj
  by_cases hjk : j = k
  · subst hjk; simp [upd, h.1, hj]
  · rw [List.getElem?_set_ne (Ne.symm hjk)]
    simp [upd, hjk, h.2 j hj]

theorem Agrees.get {α : Type} {l : List α} {f : Nat → α} {n : Nat} (h : Agrees l f n) {k : Nat} (hk : k < n) :
    l[k]? = some (f k) := h.2 k hk

/-- everything `asm a i = .ok w` says about how the simulator will decode `w` -/
theorem asm_decode {a : Arch} {i : Instr} {w : Bits} (h : Encode.asm a i = .ok w) :
    ∃ fs, layout i.op = some fs ∧ a.ops[getId (w.take a.opBits)]? = some i.op ∧
      decOperands a fs (w.drop a.opBits) = (normalise i).args := by
  have hd := BMV.Props.C03.disasm_asm a i w h
  obtain ⟨idx, hidx, hid, _⟩ := BMV.Props.C03.opcode_numbering a i w h
  obtain ⟨_, fs, _, _, hlay, _⟩ := asm_ok_inv h
  refine ⟨fs, hlay, by rw [hid]; exact hidx, ?_⟩
  unfold disasm at hd
  rw [hid] at hd
  simp only [hidx, hlay] at hd
  have := Option.some.inj hd
  rw [← this]



/-- the blocking-IO part of the simulation relation, over the fields it speaks about (so that it
    survives record updates of the other fields): the environment's valid / recv flags as the
    simulator's port vectors show them, output-valid and input-recv flags cell by cell, the same
    pending `recv` withdrawals -/
structure IoSim (a : Arch) (e : Env) (rov rir : Nat → Bool) (rdf : List Nat)
    (viv vov vir vor : List Bool) (vdf : List Nat) : Prop where
  iv : Agrees viv e.inValid a.n
  orr : Agrees vor e.outRecv a.m
  ov : Agrees vov rov a.m
  ir : Agrees vir rir a.n
  df : vdf = rdf
  dlt : ∀ i ∈ rdf, i < a.n

/-- the simulation relation: program counter ↔ position through `A`, register file and output
    ports cell by cell, input ports as the environment presents them, handshake state -/
structure Sim (a : Arch) (e : Env) (A : Nat → Nat) (r : RefState) (vm : VmState) : Prop where
  pc : vm.pc = A r.pos
  regs : Agrees vm.regs r.regs (2 ^ a.r)
  outs : Agrees vm.outputs r.outputs a.m
  ins : Agrees vm.inputs e.inputs a.n
  io : IoSim a e r.outValid r.inRecv r.deferred vm.inValid vm.outValid vm.inRecv vm.outRecv vm.deferred

theorem std64 {n : Nat} (h : Isa.stdSize n = true) : n ≤ 64 := by
  simp only [Isa.stdSize, Bool.or_eq_true, beq_iff_eq] at h; omega

section isa
variable {a : Arch} {plen : Nat} {body : Bits} {vm : VmState}

theorem isa_nop : Isa.exec a plen "nop" body vm = some { vm with pc := vm.pc + 1 } := by simp [Isa.exec, Isa.pipeOps]

theorem isa_rset (h64 : a.rsize ≤ 64) :
    Isa.exec a plen "rset" body vm =
      some { vm with pc := vm.pc + 1, regs := vm.regs.set (Isa.field body 0 a.r) (Isa.field body a.r a.rsize) } := by
  simp [Isa.exec, Isa.pipeOps, h64]

theorem isa_unop {op : String} (hop : op = "inc" ∨ op = "dec" ∨ op = "clr") {x v : Nat}
    (hx : vm.regs[Isa.field body 0 a.r]? = some x) (hv : Isa.unop op a.rsize x = some v) :
    Isa.exec a plen op body vm = some { vm with pc := vm.pc + 1, regs := vm.regs.set (Isa.field body 0 a.r) v } := by
  rcases hop with rfl | rfl | rfl <;> simp [Isa.exec, Isa.pipeOps, hx, hv]

theorem isa_binop {op : String} (hop : op = "add" ∨ op = "cpy" ∨ op = "mult" ∨ op = "div") {d s v : Nat}
    (hd : vm.regs[Isa.field body 0 a.r]? = some d) (hs : vm.regs[Isa.field body a.r a.r]? = some s)
    (hv : Isa.binop op a.rsize d s = some v) :
    Isa.exec a plen op body vm = some { vm with pc := vm.pc + 1, regs := vm.regs.set (Isa.field body 0 a.r) v } := by
  rcases hop with rfl | rfl | rfl | rfl <;> simp [Isa.exec, Isa.pipeOps, hd, hs, hv]

theorem isa_j (hv : Isa.field body 0 a.o < plen) :
    Isa.exec a plen "j" body vm = some { vm with pc := Isa.field body 0 a.o } := by simp [Isa.exec, Isa.pipeOps, hv]

theorem isa_jz {x : Nat} (hx : vm.regs[Isa.field body 0 a.r]? = some x) (hstd : Isa.stdSize a.rsize = true) :
    Isa.exec a plen "jz" body vm =
      some (if x = 0 then { vm with pc := Isa.field body a.r a.o } else { vm with pc := vm.pc + 1 }) := by
  simp [Isa.exec, Isa.pipeOps, hx, hstd]

theorem isa_i2r {v : Nat} (hv : vm.inputs[Isa.field body a.r a.inBits]? = some v) (hk : Isa.field body 0 a.r < vm.regs.length) :
    Isa.exec a plen "i2r" body vm = some { vm with pc := vm.pc + 1, regs := vm.regs.set (Isa.field body 0 a.r) v } := by
  simp [Isa.exec, Isa.pipeOps, hv, hk]

theorem isa_r2o {v : Nat} (hv : vm.regs[Isa.field body 0 a.r]? = some v) (ho : Isa.field body a.r a.outBits < vm.outputs.length) :
    Isa.exec a plen "r2o" body vm = some { vm with pc := vm.pc + 1, outputs := vm.outputs.set (Isa.field body a.r a.outBits) v } := by
  simp [Isa.exec, Isa.pipeOps, hv, ho]

theorem isa_i2rw_take {v : Nat} (hiv : vm.inValid[Isa.field body a.r a.inBits]? = some true)
    (hv : vm.inputs[Isa.field body a.r a.inBits]? = some v) (hir : vm.inRecv[Isa.field body a.r a.inBits]? = some false)
    (hk : Isa.field body 0 a.r < vm.regs.length) :
    Isa.exec a plen "i2rw" body vm =
      some { vm with pc := vm.pc + 1, regs := vm.regs.set (Isa.field body 0 a.r) v,
                     inRecv := vm.inRecv.set (Isa.field body a.r a.inBits) true,
                     deferred := if Isa.field body a.r a.inBits ∈ vm.deferred then vm.deferred
                                 else vm.deferred ++ [Isa.field body a.r a.inBits] } := by
  simp [Isa.exec, Isa.pipeOps, hiv, hv, hir, hk]

theorem isa_i2rw_wait {v : Nat} (hiv : vm.inValid[Isa.field body a.r a.inBits]? = some true)
    (hv : vm.inputs[Isa.field body a.r a.inBits]? = some v) (hir : vm.inRecv[Isa.field body a.r a.inBits]? = some true) :
    Isa.exec a plen "i2rw" body vm = some vm := by
  simp [Isa.exec, Isa.pipeOps, hiv, hv, hir]

theorem isa_i2rw_idle {v : Nat} (hiv : vm.inValid[Isa.field body a.r a.inBits]? = some false)
    (hv : vm.inputs[Isa.field body a.r a.inBits]? = some v) :
    Isa.exec a plen "i2rw" body vm = some { vm with inRecv := vm.inRecv.set (Isa.field body a.r a.inBits) false } := by
  simp [Isa.exec, Isa.pipeOps, hiv, hv]

theorem isa_r2owa_wait {v : Nat} (hv : vm.regs[Isa.field body 0 a.r]? = some v)
    (hrc : vm.outRecv[Isa.field body a.r a.outBits]? = some true) (hov : vm.outValid[Isa.field body a.r a.outBits]? = some false) :
    Isa.exec a plen "r2owa" body vm = some vm := by
  simp [Isa.exec, Isa.pipeOps, hv, hrc, hov]

theorem isa_r2owa_done {v : Nat} (hv : vm.regs[Isa.field body 0 a.r]? = some v)
    (hrc : vm.outRecv[Isa.field body a.r a.outBits]? = some true) (hov : vm.outValid[Isa.field body a.r a.outBits]? = some true)
    (ho : Isa.field body a.r a.outBits < vm.outputs.length) :
    Isa.exec a plen "r2owa" body vm =
      some { vm with outputs := vm.outputs.set (Isa.field body a.r a.outBits) v,
                     outValid := vm.outValid.set (Isa.field body a.r a.outBits) false, pc := vm.pc + 1 } := by
  simp [Isa.exec, Isa.pipeOps, hv, hrc, hov, ho]

theorem isa_r2owa_raise {v : Nat} (hv : vm.regs[Isa.field body 0 a.r]? = some v)
    (hrc : vm.outRecv[Isa.field body a.r a.outBits]? = some false) (ho : Isa.field body a.r a.outBits < vm.outputs.length) :
    Isa.exec a plen "r2owa" body vm =
      some { vm with outputs := vm.outputs.set (Isa.field body a.r a.outBits) v,
                     outValid := vm.outValid.set (Isa.field body a.r a.outBits) true } := by
  simp [Isa.exec, Isa.pipeOps, hv, hrc, ho]

end isa



theorem asm_fields {a : Arch} {i : Instr} {w : Bits} {fs : List FieldKind} (h : Encode.asm a i = .ok w)
    (hl : layout i.op = some fs) (hlen : lenientArity i.op = false) :
    decOperands a fs (w.drop a.opBits) = i.args ∧ a.ops[getId (w.take a.opBits)]? = some i.op := by
  obtain ⟨fs', hl', hop, hd⟩ := asm_decode h
  rw [hl] at hl'; cases hl'
  refine ⟨?_, hop⟩
  rw [hd]; simp [normalise, hlen]

/-- a symbol operand that was assembled did resolve -/
theorem resolved_of_asm {a : Arch} {op : String} {pre post : List Arg} {t : String} {tbl : List (String × Nat)} {w : Bits}
    (h : Encode.asm a ⟨op, (pre ++ Arg.sym t :: post).map (resolveArg tbl)⟩ = .ok w) (hlen : lenientArity op = false) :
    ∃ v, lookup tbl t = some v := by
  cases hv : lookup tbl t with
  | some v => exact ⟨v, rfl⟩
  | none =>
    exfalso
    obtain ⟨fs, hlay, hlen', hall⟩ := BMV.Props.C03.asm_operands_fit a _ w h
    have hx : (normalise ⟨op, (pre ++ Arg.sym t :: post).map (resolveArg tbl)⟩).args[pre.length]? = some .bad := by
      simp [normalise, hlen, resolveArg, hv]
    have hlt : pre.length < fs.length := by
      rw [hlen']; simp [normalise, hlen]
    obtain ⟨f, hf⟩ : ∃ f, fs[pre.length]? = some f := ⟨fs[pre.length], List.getElem?_eq_getElem hlt⟩
    have := (hall pre.length f .bad hf hx).2.2
    cases f <;> simp at this



section vm
variable {a : Arch} {plen : Nat} {w : Bits} {vm : VmState}
open BMV.WfBM

theorem vm_rset {k n : Nat} (h : Encode.asm a ⟨"rset", [.reg k, .num n]⟩ = .ok w) (h64 : a.rsize ≤ 64) :
    k < 2 ^ a.r ∧ Isa.exec a plen "rset" (w.drop a.opBits) vm = some { vm with pc := vm.pc + 1, regs := vm.regs.set k n } := by
  obtain ⟨hf, _⟩ := asm_fields h (fs := [.reg, .imm]) (show layout "rset" = some [.reg, .imm] from by decide) (show lenientArity "rset" = false from by decide)
  rw [dec_rv] at hf
  simp only [List.cons.injEq, Operand.reg.injEq, Operand.num.injEq, and_true] at hf
  refine ⟨by rw [← hf.1]; exact field_lt _ _ _, ?_⟩
  rw [isa_rset h64, hf.1, hf.2]

theorem vm_unop {op : String} (hop : op = "inc" ∨ op = "dec" ∨ op = "clr") {k : Nat}
    (h : Encode.asm a ⟨op, [.reg k]⟩ = .ok w) :
    k < 2 ^ a.r ∧ ∀ x v, vm.regs[k]? = some x → Isa.unop op a.rsize x = some v →
      Isa.exec a plen op (w.drop a.opBits) vm = some { vm with pc := vm.pc + 1, regs := vm.regs.set k v } := by
  have hl : layout op = some [.reg] ∧ lenientArity op = false := by rcases hop with rfl | rfl | rfl <;> decide
  obtain ⟨hf, _⟩ := asm_fields h (fs := [.reg]) hl.1 hl.2
  rw [dec_r] at hf
  simp only [List.cons.injEq, Operand.reg.injEq, and_true] at hf
  refine ⟨by rw [← hf]; exact field_lt _ _ _, ?_⟩
  intro x v hx hv
  rw [← hf] at hx ⊢
  exact isa_unop hop hx hv

theorem vm_binop {op : String} (hop : op = "add" ∨ op = "cpy" ∨ op = "mult" ∨ op = "div") {d s : Nat}
    (h : Encode.asm a ⟨op, [.reg d, .reg s]⟩ = .ok w) :
    d < 2 ^ a.r ∧ s < 2 ^ a.r ∧ ∀ x y v, vm.regs[d]? = some x → vm.regs[s]? = some y → Isa.binop op a.rsize x y = some v →
      Isa.exec a plen op (w.drop a.opBits) vm = some { vm with pc := vm.pc + 1, regs := vm.regs.set d v } := by
  have hl : layout op = some [.reg, .reg] ∧ lenientArity op = false := by rcases hop with rfl | rfl | rfl | rfl <;> decide
  obtain ⟨hf, _⟩ := asm_fields h (fs := [.reg, .reg]) hl.1 hl.2
  rw [dec_rr] at hf
  simp only [List.cons.injEq, Operand.reg.injEq, and_true] at hf
  refine ⟨by rw [← hf.1]; exact field_lt _ _ _, by rw [← hf.2]; exact field_lt _ _ _, ?_⟩
  intro x y v hx hy hv
  rw [← hf.1] at hx ⊢
  rw [← hf.2] at hy
  exact isa_binop hop hx hy hv

theorem vm_j {v : Nat} (h : Encode.asm a ⟨"j", [.num v]⟩ = .ok w) (hmode : a.mode = .ha) (hv : v < plen) :
    Isa.exec a plen "j" (w.drop a.opBits) vm = some { vm with pc := v } := by
  obtain ⟨hf, _⟩ := asm_fields h (fs := [.loc]) (show layout "j" = some [.loc] from by decide) (show lenientArity "j" = false from by decide)
  rw [dec_l a hmode] at hf
  simp only [List.cons.injEq, Operand.num.injEq, and_true] at hf
  rw [isa_j (by rw [hf]; exact hv), hf]

theorem vm_jz {k v : Nat} (h : Encode.asm a ⟨"jz", [.reg k, .num v]⟩ = .ok w) (hstd : Isa.stdSize a.rsize = true) :
    k < 2 ^ a.r ∧ ∀ x, vm.regs[k]? = some x →
      Isa.exec a plen "jz" (w.drop a.opBits) vm = some (if x = 0 then { vm with pc := v } else { vm with pc := vm.pc + 1 }) := by
  obtain ⟨hf, _⟩ := asm_fields h (fs := [.reg, .rom]) (show layout "jz" = some [.reg, .rom] from by decide) (show lenientArity "jz" = false from by decide)
  rw [dec_ra] at hf
  simp only [List.cons.injEq, Operand.reg.injEq, Operand.num.injEq, and_true] at hf
  refine ⟨by rw [← hf.1]; exact field_lt _ _ _, ?_⟩
  intro x hx
  rw [← hf.1] at hx
  rw [isa_jz hx hstd, hf.2]

theorem vm_i2r {k i : Nat} (h : Encode.asm a ⟨"i2r", [.reg k, .inp i]⟩ = .ok w) :
    k < 2 ^ a.r ∧ i < a.n ∧ ∀ v, vm.inputs[i]? = some v → k < vm.regs.length →
      Isa.exec a plen "i2r" (w.drop a.opBits) vm = some { vm with pc := vm.pc + 1, regs := vm.regs.set k v } := by
  obtain ⟨hf, _⟩ := asm_fields h (fs := [.reg, .inp]) (show layout "i2r" = some [.reg, .inp] from by decide) (show lenientArity "i2r" = false from by decide)
  have hb := (BMV.Props.C03.asm_rejects_bad_index a _ w h 1 [.reg, .inp] (show layout "i2r" = some [.reg, .inp] from by decide)).2.1 i (by simp) (by simp [normalise, lenientArity])
  rw [dec_ri] at hf
  simp only [List.cons.injEq, Operand.reg.injEq, Operand.inp.injEq, and_true] at hf
  refine ⟨by rw [← hf.1]; exact field_lt _ _ _, hb, ?_⟩
  intro v hv hk
  rw [← hf.2] at hv
  rw [← hf.1] at hk ⊢
  exact isa_i2r hv hk

theorem vm_r2o {k o : Nat} (h : Encode.asm a ⟨"r2o", [.reg k, .out o]⟩ = .ok w) :
    k < 2 ^ a.r ∧ o < a.m ∧ ∀ v, vm.regs[k]? = some v → o < vm.outputs.length →
      Isa.exec a plen "r2o" (w.drop a.opBits) vm = some { vm with pc := vm.pc + 1, outputs := vm.outputs.set o v } := by
  obtain ⟨hf, _⟩ := asm_fields h (fs := [.reg, .out]) (show layout "r2o" = some [.reg, .out] from by decide) (show lenientArity "r2o" = false from by decide)
  have hb := (BMV.Props.C03.asm_rejects_bad_index a _ w h 1 [.reg, .out] (show layout "r2o" = some [.reg, .out] from by decide)).2.2.1 o (by simp) (by simp [normalise, lenientArity])
  rw [dec_ro] at hf
  simp only [List.cons.injEq, Operand.reg.injEq, Operand.out.injEq, and_true] at hf
  refine ⟨by rw [← hf.1]; exact field_lt _ _ _, hb, ?_⟩
  intro v hv ho
  rw [← hf.1] at hv
  rw [← hf.2] at ho ⊢
  exact isa_r2o hv ho

theorem fields_ri {op : String} (hop : op = "i2r" ∨ op = "i2rw") {k i : Nat}
    (h : Encode.asm a ⟨op, [.reg k, .inp i]⟩ = .ok w) :
    Isa.field (w.drop a.opBits) 0 a.r = k ∧ Isa.field (w.drop a.opBits) a.r a.inBits = i ∧ k < 2 ^ a.r ∧ i < a.n := by
  have hl : layout op = some [.reg, .inp] ∧ lenientArity op = false := by rcases hop with rfl | rfl <;> decide
  obtain ⟨hf, _⟩ := asm_fields h (fs := [.reg, .inp]) hl.1 hl.2
  have hb := (BMV.Props.C03.asm_rejects_bad_index a _ w h 1 [.reg, .inp] hl.1).2.1 i (by simp) (by simp [normalise, hl.2])
  rw [dec_ri] at hf
  simp only [List.cons.injEq, Operand.reg.injEq, Operand.inp.injEq, and_true] at hf
  exact ⟨hf.1, hf.2, by rw [← hf.1]; exact field_lt _ _ _, hb⟩

theorem fields_ro {op : String} (hop : op = "r2o" ∨ op = "r2owa") {k o : Nat}
    (h : Encode.asm a ⟨op, [.reg k, .out o]⟩ = .ok w) :
    Isa.field (w.drop a.opBits) 0 a.r = k ∧ Isa.field (w.drop a.opBits) a.r a.outBits = o ∧ k < 2 ^ a.r ∧ o < a.m := by
  have hl : layout op = some [.reg, .out] ∧ lenientArity op = false := by rcases hop with rfl | rfl <;> decide
  obtain ⟨hf, _⟩ := asm_fields h (fs := [.reg, .out]) hl.1 hl.2
  have hb := (BMV.Props.C03.asm_rejects_bad_index a _ w h 1 [.reg, .out] hl.1).2.2.1 o (by simp) (by simp [normalise, hl.2])
  rw [dec_ro] at hf
  simp only [List.cons.injEq, Operand.reg.injEq, Operand.out.injEq, and_true] at hf
  exact ⟨hf.1, hf.2, by rw [← hf.1]; exact field_lt _ _ _, hb⟩

end vm




theorem execLine_i2r {c : SecCtx} {e : Env} {l : Line} {r r' : RefState} {k i : Nat} (hop : l.op = "i2r")
    (hargs : l.args = [.reg k, .inp i]) (hex : execLine c e l r = some r') :
    r' = execIo e (skip c.lines (r.pos + 1)) r (.inAsync, k, i) := by
  unfold execLine at hex
  simp only [hop, hargs] at hex
  split at hex <;> simp_all [ioKind]

theorem execLine_r2o {c : SecCtx} {e : Env} {l : Line} {r r' : RefState} {k o : Nat} (hop : l.op = "r2o")
    (hargs : l.args = [.reg k, .out o]) (hex : execLine c e l r = some r') :
    r' = execIo e (skip c.lines (r.pos + 1)) r (.outAsync, k, o) := by
  unfold execLine at hex
  simp only [hop, hargs] at hex
  split at hex <;> simp_all [ioKind]

theorem execLine_movin {c : SecCtx} {e : Env} {l : Line} {r r' : RefState} {k i : Nat} (hop : l.op = "mov")
    (hargs : l.args = [.reg k, .inp i]) (hmd : lineMode c.mode l = some .async) (hex : execLine c e l r = some r') :
    r' = execIo e (skip c.lines (r.pos + 1)) r (.inAsync, k, i) := by
  unfold execLine at hex
  simp only [hop, hargs] at hex
  split at hex <;> simp_all [ioKind]

theorem execLine_movout {c : SecCtx} {e : Env} {l : Line} {r r' : RefState} {k o : Nat} (hop : l.op = "mov")
    (hargs : l.args = [.out o, .reg k]) (hmd : lineMode c.mode l = some .async) (hex : execLine c e l r = some r') :
    r' = execIo e (skip c.lines (r.pos + 1)) r (.outAsync, k, o) := by
  unfold execLine at hex
  simp only [hop, hargs] at hex
  split at hex <;> simp_all [ioKind]

theorem execLine_i2rw {c : SecCtx} {e : Env} {l : Line} {r r' : RefState} {k i : Nat} (hop : l.op = "i2rw")
    (hargs : l.args = [.reg k, .inp i]) (hex : execLine c e l r = some r') :
    r' = execIo e (skip c.lines (r.pos + 1)) r (.inSync, k, i) := by
  unfold execLine at hex
  simp only [hop, hargs] at hex
  split at hex <;> simp_all [ioKind]

theorem execLine_r2owa {c : SecCtx} {e : Env} {l : Line} {r r' : RefState} {k o : Nat} (hop : l.op = "r2owa")
    (hargs : l.args = [.reg k, .out o]) (hex : execLine c e l r = some r') :
    r' = execIo e (skip c.lines (r.pos + 1)) r (.outSync, k, o) := by
  unfold execLine at hex
  simp only [hop, hargs] at hex
  split at hex <;> simp_all [ioKind]

theorem execLine_movin_sync {c : SecCtx} {e : Env} {l : Line} {r r' : RefState} {k i : Nat} (hop : l.op = "mov")
    (hargs : l.args = [.reg k, .inp i]) (hmd : lineMode c.mode l = some .sync) (hex : execLine c e l r = some r') :
    r' = execIo e (skip c.lines (r.pos + 1)) r (.inSync, k, i) := by
  unfold execLine at hex
  simp only [hop, hargs] at hex
  split at hex <;> simp_all [ioKind]

theorem execLine_movout_sync {c : SecCtx} {e : Env} {l : Line} {r r' : RefState} {k o : Nat} (hop : l.op = "mov")
    (hargs : l.args = [.out o, .reg k]) (hmd : lineMode c.mode l = some .sync) (hex : execLine c e l r = some r') :
    r' = execIo e (skip c.lines (r.pos + 1)) r (.outSync, k, o) := by
  unfold execLine at hex
  simp only [hop, hargs] at hex
  split at hex <;> simp_all [ioKind]

/-- where the reference interpreter can be after one line: the next instruction, or a label's -/
def PosNext (c : SecCtx) (r r' : RefState) : Prop :=
  r'.pos = skip c.lines (r.pos + 1) ∨ (∃ t, labelPos c.lines t = some r'.pos) ∨ r'.pos = r.pos

/-- MATCHER EFFECT (non-blocking fragment).  One source line `l`, the real instruction the matcher
    resolved it to (`matchLine`), its assembled word `w`: executing the word on the simulator does
    to the simulator state exactly what the reference interpreter's `execLine` does to the
    reference state for the *source* line.  `A` maps positions to ROM addresses; the two
    hypotheses about it are discharged by the label-table theorems. -/
theorem exec_matches {a : Arch} {c : SecCtx} {e : Env} {A : Nat → Nat} {plen : Nat} {l : Line} {op : String}
    {args : List Arg} {tbl : List (String × Nat)} {w : Bits} {r r' : RefState} {vm : VmState}
    (hm : matchLine c.mode l = some (op, args))
    (hasm : Encode.asm a ⟨op, args.map (resolveArg tbl)⟩ = .ok w)
    (hmode : a.mode = .ha) (hrs : a.rsize = c.rsize)
    (hsim : Sim a e A r vm)
    (hnext : A (skip c.lines (r.pos + 1)) = vm.pc + 1)
    (hlab : ∀ t p v, labelPos c.lines t = some p → lookup tbl t = some v → v = A p ∧ v < plen)
    (hex : execLine c e l r = some r') :
    ∃ vm', Isa.exec a plen op (w.drop a.opBits) vm = some vm' ∧ Sim a e A r' vm' ∧ PosNext c r r' := by
  have hrs' : c.rsize = a.rsize := hrs.symm
  obtain ⟨hpc, hregs, houts, hins, hio⟩ := hsim
  have regGet : ∀ k, k < 2 ^ a.r → vm.regs[k]? = some (r.regs k) := fun k hk => hregs.get hk
  have mkSim : ∀ (k v : Nat), Sim a e A { r with pos := skip c.lines (r.pos + 1), regs := upd r.regs k v }
      { vm with pc := vm.pc + 1, regs := vm.regs.set k v } :=
    fun k v => ⟨hnext.symm, hregs.set k v, houts, hins, hio⟩
  have simNext : Sim a e A { r with pos := skip c.lines (r.pos + 1) } { vm with pc := vm.pc + 1 } :=
    ⟨hnext.symm, hregs, houts, hins, hio⟩
  have simJump : ∀ p, Sim a e A { r with pos := p } { vm with pc := A p } :=
    fun p => ⟨rfl, hregs, houts, hins, hio⟩
  -- the three IO-free shapes and the two async IO shapes, each for whatever source spelling
  have caseRset : ∀ k n, Encode.asm a ⟨"rset", [.reg k, .num n]⟩ = .ok w →
      (if a.rsize ≤ 64 then some ({ r with pos := skip c.lines (r.pos + 1), regs := upd r.regs k n } : RefState) else none) = some r' →
      ∃ vm', Isa.exec a plen "rset" (w.drop a.opBits) vm = some vm' ∧ Sim a e A r' vm' ∧ PosNext c r r' := by
    intro k n h hx
    split at hx
    · cases hx
      exact ⟨_, (vm_rset h (by assumption)).2, mkSim k n, Or.inl rfl⟩
    · cases hx
  have caseCpy : ∀ d s, Encode.asm a ⟨"cpy", [.reg d, .reg s]⟩ = .ok w →
      some ({ r with pos := skip c.lines (r.pos + 1), regs := upd r.regs d (r.regs s) } : RefState) = some r' →
      ∃ vm', Isa.exec a plen "cpy" (w.drop a.opBits) vm = some vm' ∧ Sim a e A r' vm' ∧ PosNext c r r' := by
    intro d s h hx
    cases hx
    obtain ⟨hd, hs, hexec⟩ := vm_binop (plen := plen) (vm := vm) (Or.inr (Or.inl rfl)) h
    exact ⟨_, hexec _ _ _ (regGet d hd) (regGet s hs) (by simp [Isa.binop]), mkSim d _, Or.inl rfl⟩
  have caseJ : ∀ t, Encode.asm a ⟨"j", [resolveArg tbl (.sym t)]⟩ = .ok w →
      (labelPos c.lines t).map (fun p => ({ r with pos := p } : RefState)) = some r' →
      ∃ vm', Isa.exec a plen "j" (w.drop a.opBits) vm = some vm' ∧ Sim a e A r' vm' ∧ PosNext c r r' := by
    intro t h hx
    obtain ⟨v, hv⟩ := resolved_of_asm (pre := []) (post := []) (by simpa using h) (by decide)
    cases hp : labelPos c.lines t with
    | none => simp [hp] at hx
    | some p =>
      simp only [hp, Option.map_some, Option.some.injEq] at hx
      subst hx
      obtain ⟨hva, hvl⟩ := hlab t p v hp hv
      simp only [resolveArg, hv] at h
      refine ⟨_, vm_j h hmode hvl, ?_, Or.inr (Or.inl ⟨t, hp⟩)⟩
      rw [hva]; exact simJump p
  have caseI2r : ∀ k i, Encode.asm a ⟨"i2r", [.reg k, .inp i]⟩ = .ok w →
      r' = execIo e (skip c.lines (r.pos + 1)) r (.inAsync, k, i) →
      ∃ vm', Isa.exec a plen "i2r" (w.drop a.opBits) vm = some vm' ∧ Sim a e A r' vm' ∧ PosNext c r r' := by
    intro k i h hx
    subst hx
    obtain ⟨hk, hi, hexec⟩ := vm_i2r (plen := plen) (vm := vm) h
    exact ⟨_, hexec _ (hins.get hi) (by rw [hregs.1]; exact hk), mkSim k _, Or.inl rfl⟩
  have caseR2o : ∀ k o, Encode.asm a ⟨"r2o", [.reg k, .out o]⟩ = .ok w →
      r' = execIo e (skip c.lines (r.pos + 1)) r (.outAsync, k, o) →
      ∃ vm', Isa.exec a plen "r2o" (w.drop a.opBits) vm = some vm' ∧ Sim a e A r' vm' ∧ PosNext c r r' := by
    intro k o h hx
    subst hx
    obtain ⟨hk, ho, hexec⟩ := vm_r2o (plen := plen) (vm := vm) h
    exact ⟨_, hexec _ (regGet k hk) (by rw [houts.1]; exact ho),
      ⟨hnext.symm, hregs, houts.set o _, hins, hio⟩, Or.inl rfl⟩
  have caseI2rw : ∀ k i, Encode.asm a ⟨"i2rw", [.reg k, .inp i]⟩ = .ok w →
      r' = execIo e (skip c.lines (r.pos + 1)) r (.inSync, k, i) →
      ∃ vm', Isa.exec a plen "i2rw" (w.drop a.opBits) vm = some vm' ∧ Sim a e A r' vm' ∧ PosNext c r r' := by
    intro k i h hx
    obtain ⟨hf0, hf1, hk, hi⟩ := fields_ri (Or.inr rfl) h
    have hiv : vm.inValid[Isa.field (w.drop a.opBits) a.r a.inBits]? = some (e.inValid i) := by rw [hf1]; exact hio.iv.get hi
    have hin : vm.inputs[Isa.field (w.drop a.opBits) a.r a.inBits]? = some (e.inputs i) := by rw [hf1]; exact hins.get hi
    have hir : vm.inRecv[Isa.field (w.drop a.opBits) a.r a.inBits]? = some (r.inRecv i) := by rw [hf1]; exact hio.ir.get hi
    have hkl : Isa.field (w.drop a.opBits) 0 a.r < vm.regs.length := by rw [hf0, hregs.1]; exact hk
    subst hx
    simp only [execIo]
    cases hv : e.inValid i with
    | false =>
      rw [hv] at hiv
      have hx := isa_i2rw_idle (a := a) (plen := plen) hiv hin
      rw [hf1] at hx
      refine ⟨_, hx, ⟨hpc, hregs, houts, hins, ⟨hio.iv, hio.orr, hio.ov, hio.ir.set i false, hio.df, hio.dlt⟩⟩, Or.inr (Or.inr ?_)⟩
      simp
    | true =>
      rw [hv] at hiv
      cases hr : r.inRecv i with
      | true =>
        rw [hr] at hir
        have hx := isa_i2rw_wait (a := a) (plen := plen) hiv hin hir
        refine ⟨_, hx, ?_, Or.inr (Or.inr ?_)⟩ <;> simp
        exact ⟨hpc, hregs, houts, hins, hio⟩
      | false =>
        rw [hr] at hir
        have hx := isa_i2rw_take (a := a) (plen := plen) hiv hin hir hkl
        rw [hf0, hf1] at hx
        refine ⟨_, hx, ?_, Or.inl ?_⟩ <;> simp
        refine ⟨hnext.symm, hregs.set k _, houts, hins, ⟨hio.iv, hio.orr, hio.ov, hio.ir.set i true, by rw [hio.df], ?_⟩⟩
        intro j hj
        split at hj
        · exact hio.dlt j hj
        · rcases List.mem_append.mp hj with hj | hj
          · exact hio.dlt j hj
          · simp at hj; subst hj; exact hi
  have caseR2owa : ∀ k o, Encode.asm a ⟨"r2owa", [.reg k, .out o]⟩ = .ok w →
      r' = execIo e (skip c.lines (r.pos + 1)) r (.outSync, k, o) →
      ∃ vm', Isa.exec a plen "r2owa" (w.drop a.opBits) vm = some vm' ∧ Sim a e A r' vm' ∧ PosNext c r r' := by
    intro k o h hx
    obtain ⟨hf0, hf1, hk, ho⟩ := fields_ro (Or.inr rfl) h
    have hv : vm.regs[Isa.field (w.drop a.opBits) 0 a.r]? = some (r.regs k) := by rw [hf0]; exact regGet k hk
    have hrc : vm.outRecv[Isa.field (w.drop a.opBits) a.r a.outBits]? = some (e.outRecv o) := by rw [hf1]; exact hio.orr.get ho
    have hov : vm.outValid[Isa.field (w.drop a.opBits) a.r a.outBits]? = some (r.outValid o) := by rw [hf1]; exact hio.ov.get ho
    have hol : Isa.field (w.drop a.opBits) a.r a.outBits < vm.outputs.length := by rw [hf1, houts.1]; exact ho
    subst hx
    simp only [execIo]
    cases hr : e.outRecv o with
    | false =>
      rw [hr] at hrc
      have hx := isa_r2owa_raise (a := a) (plen := plen) hv hrc hol
      rw [hf1] at hx
      refine ⟨_, hx, ?_, Or.inr (Or.inr ?_)⟩ <;> simp
      exact ⟨hpc, hregs, houts.set o _, hins, ⟨hio.iv, hio.orr, hio.ov.set o true, hio.ir, hio.df, hio.dlt⟩⟩
    | true =>
      rw [hr] at hrc
      cases hvo : r.outValid o with
      | false =>
        rw [hvo] at hov
        have hx := isa_r2owa_wait (a := a) (plen := plen) hv hrc hov
        refine ⟨_, hx, ?_, Or.inr (Or.inr ?_)⟩ <;> simp
        exact ⟨hpc, hregs, houts, hins, hio⟩
      | true =>
        rw [hvo] at hov
        have hx := isa_r2owa_done (a := a) (plen := plen) hv hrc hov hol
        rw [hf1] at hx
        refine ⟨_, hx, ?_, Or.inl ?_⟩ <;> simp
        exact ⟨hnext.symm, hregs, houts.set o _, hins, ⟨hio.iv, hio.orr, hio.ov.set o false, hio.ir, hio.df, hio.dlt⟩⟩
  have caseUn : ∀ (op : String) (hop : op = "inc" ∨ op = "dec" ∨ op = "clr") (k : Nat) (f : Nat → Nat),
      Encode.asm a ⟨op, [.reg k]⟩ = .ok w → (∀ x, Isa.stdSize a.rsize = true → Isa.unop op a.rsize x = some (f x)) →
      (if Isa.stdSize a.rsize = true then some ({ r with pos := skip c.lines (r.pos + 1), regs := upd r.regs k (f (r.regs k)) } : RefState) else none) = some r' →
      ∃ vm', Isa.exec a plen op (w.drop a.opBits) vm = some vm' ∧ Sim a e A r' vm' ∧ PosNext c r r' := by
    intro op hop k f h hf hx
    split at hx
    · rename_i hstd
      cases hx
      obtain ⟨hk, hexec⟩ := vm_unop (plen := plen) (vm := vm) hop h
      exact ⟨_, hexec _ _ (regGet k hk) (hf _ hstd), mkSim k _, Or.inl rfl⟩
    · cases hx
  unfold matchLine at hm
  split at hm
  case h_1 hop hargs =>   -- nop
    simp only [Option.some.injEq, Prod.mk.injEq] at hm; obtain ⟨rfl, rfl⟩ := hm
    simp only [execLine, hop, hargs, hrs'] at hex; cases hex
    exact ⟨_, isa_nop, simNext, Or.inl rfl⟩
  case h_2 hop hargs =>   -- noop
    simp only [Option.some.injEq, Prod.mk.injEq] at hm; obtain ⟨rfl, rfl⟩ := hm
    simp only [execLine, hop, hargs, hrs'] at hex; cases hex
    exact ⟨_, isa_nop, simNext, Or.inl rfl⟩
  case h_3 k n hop hargs =>   -- rset
    simp only [Option.some.injEq, Prod.mk.injEq] at hm; obtain ⟨rfl, rfl⟩ := hm
    simp only [execLine, hop, hargs, hrs'] at hex
    exact caseRset k n (by simpa [resolveArg] using hasm) hex
  case h_4 k n hop hargs =>   -- mov reg, number
    simp only [Option.some.injEq, Prod.mk.injEq] at hm; obtain ⟨rfl, rfl⟩ := hm
    simp only [execLine, hop, hargs, hrs'] at hex
    exact caseRset k n (by simpa [resolveArg] using hasm) hex
  case h_5 d s hop hargs =>   -- cpy
    simp only [Option.some.injEq, Prod.mk.injEq] at hm; obtain ⟨rfl, rfl⟩ := hm
    simp only [execLine, hop, hargs, hrs'] at hex
    exact caseCpy d s (by simpa [resolveArg] using hasm) hex
  case h_6 d s hop hargs =>   -- mov reg, reg
    simp only [Option.some.injEq, Prod.mk.injEq] at hm; obtain ⟨rfl, rfl⟩ := hm
    simp only [execLine, hop, hargs, hrs'] at hex
    exact caseCpy d s (by simpa [resolveArg] using hasm) hex
  case h_7 k hop hargs =>   -- inc
    simp only [Option.some.injEq, Prod.mk.injEq] at hm; obtain ⟨rfl, rfl⟩ := hm
    simp only [execLine, hop, hargs, hrs'] at hex
    exact caseUn "inc" (Or.inl rfl) k (fun x => (x + 1) % 2 ^ a.rsize) (by simpa [resolveArg] using hasm)
      (by intro x hs; simp [Isa.unop, hs]) hex
  case h_8 k hop hargs =>   -- dec
    simp only [Option.some.injEq, Prod.mk.injEq] at hm; obtain ⟨rfl, rfl⟩ := hm
    simp only [execLine, hop, hargs, hrs'] at hex
    exact caseUn "dec" (Or.inr (Or.inl rfl)) k (fun x => (x + 2 ^ a.rsize - 1) % 2 ^ a.rsize) (by simpa [resolveArg] using hasm)
      (by intro x hs; simp [Isa.unop, hs]) hex
  case h_9 k hop hargs =>   -- clr
    simp only [Option.some.injEq, Prod.mk.injEq] at hm; obtain ⟨rfl, rfl⟩ := hm
    simp only [execLine, hop, hargs, hrs'] at hex
    exact caseUn "clr" (Or.inr (Or.inr rfl)) k (fun _ => 0) (by simpa [resolveArg] using hasm)
      (by intro x hs; simp [Isa.unop, hs]) hex
  case h_10 d s hop hargs =>   -- add
    simp only [Option.some.injEq, Prod.mk.injEq] at hm; obtain ⟨rfl, rfl⟩ := hm
    simp only [execLine, hop, hargs, hrs'] at hex
    split at hex
    · rename_i hstd
      cases hex
      obtain ⟨hd, hs, hexec⟩ := vm_binop (plen := plen) (vm := vm) (Or.inl rfl) (by simpa [resolveArg] using hasm)
      exact ⟨_, hexec _ _ _ (regGet d hd) (regGet s hs) (by simp [Isa.binop, hstd]), mkSim d _, Or.inl rfl⟩
    · cases hex
  case h_11 d s hop hargs =>   -- mult
    simp only [Option.some.injEq, Prod.mk.injEq] at hm; obtain ⟨rfl, rfl⟩ := hm
    simp only [execLine, hop, hargs, hrs'] at hex
    split at hex
    · rename_i hstd
      cases hex
      obtain ⟨hd, hs, hexec⟩ := vm_binop (plen := plen) (vm := vm) (Or.inr (Or.inr (Or.inl rfl))) (by simpa [resolveArg] using hasm)
      exact ⟨_, hexec _ _ _ (regGet d hd) (regGet s hs) (by simp [Isa.binop, hstd]), mkSim d _, Or.inl rfl⟩
    · cases hex
  case h_12 d s hop hargs =>   -- div
    simp only [Option.some.injEq, Prod.mk.injEq] at hm; obtain ⟨rfl, rfl⟩ := hm
    simp only [execLine, hop, hargs, hrs'] at hex
    split at hex
    · rename_i hstd
      cases hex
      simp only [Bool.and_eq_true, decide_eq_true_eq] at hstd
      obtain ⟨hd, hs, hexec⟩ := vm_binop (plen := plen) (vm := vm) (Or.inr (Or.inr (Or.inr rfl))) (by simpa [resolveArg] using hasm)
      exact ⟨_, hexec _ _ _ (regGet d hd) (regGet s hs) (by simp [Isa.binop, hstd.1, hstd.2]), mkSim d _, Or.inl rfl⟩
    · cases hex
  case h_13 n hop hargs =>   -- j <number>: no source-level meaning
    simp only [execLine, hop, hargs, ioKind] at hex; cases hex
  case h_14 t hop hargs =>   -- j <label>
    simp only [Option.some.injEq, Prod.mk.injEq] at hm; obtain ⟨rfl, rfl⟩ := hm
    simp only [execLine, hop, hargs, hrs'] at hex
    exact caseJ t (by simpa using hasm) hex
  case h_15 n hop hargs =>   -- jmp <number>
    simp only [execLine, hop, hargs, ioKind] at hex; cases hex
  case h_16 t hop hargs =>   -- jmp <label>
    simp only [Option.some.injEq, Prod.mk.injEq] at hm; obtain ⟨rfl, rfl⟩ := hm
    simp only [execLine, hop, hargs, hrs'] at hex
    exact caseJ t (by simpa using hasm) hex
  case h_17 k n hop hargs =>   -- jz reg, <number>
    simp only [execLine, hop, hargs, ioKind] at hex; cases hex
  case h_18 k t hop hargs =>   -- jz reg, <label>
    simp only [Option.some.injEq, Prod.mk.injEq] at hm; obtain ⟨rfl, rfl⟩ := hm
    simp only [execLine, hop, hargs, hrs'] at hex
    split at hex
    · rename_i hstd
      have hasm' : Encode.asm a ⟨"jz", [.reg k, resolveArg tbl (.sym t)]⟩ = .ok w := by simpa [resolveArg] using hasm
      obtain ⟨v, hv⟩ := resolved_of_asm (pre := [.reg k]) (post := []) (by simpa [resolveArg] using hasm') (by decide)
      cases hp : labelPos c.lines t with
      | none => simp [hp] at hex
      | some p =>
        simp only [hp, Option.map_some, Option.some.injEq] at hex
        obtain ⟨hva, _⟩ := hlab t p v hp hv
        simp only [resolveArg, hv] at hasm'
        obtain ⟨hk, hexec⟩ := vm_jz (plen := plen) (vm := vm) hasm' hstd
        refine ⟨_, hexec _ (regGet k hk), ?_⟩
        subst hex
        by_cases hz : r.regs k = 0
        · simp only [hz, if_true]; rw [hva]; exact ⟨simJump p, Or.inr (Or.inl ⟨t, hp⟩)⟩
        · simp only [hz, if_false]; exact ⟨simNext, Or.inl rfl⟩
    · cases hex
  case h_19 k i hop hargs =>   -- i2r
    simp only [Option.some.injEq, Prod.mk.injEq] at hm; obtain ⟨rfl, rfl⟩ := hm
    exact caseI2r k i (by simpa [resolveArg] using hasm) (execLine_i2r hop hargs hex)
  case h_20 k i hop hargs =>   -- i2rw
    simp only [Option.some.injEq, Prod.mk.injEq] at hm; obtain ⟨rfl, rfl⟩ := hm
    exact caseI2rw k i (by simpa [resolveArg] using hasm) (execLine_i2rw hop hargs hex)
  case h_21 k o hop hargs =>   -- r2o
    simp only [Option.some.injEq, Prod.mk.injEq] at hm; obtain ⟨rfl, rfl⟩ := hm
    exact caseR2o k o (by simpa [resolveArg] using hasm) (execLine_r2o hop hargs hex)
  case h_22 k o hop hargs =>   -- r2owa
    simp only [Option.some.injEq, Prod.mk.injEq] at hm; obtain ⟨rfl, rfl⟩ := hm
    exact caseR2owa k o (by simpa [resolveArg] using hasm) (execLine_r2owa hop hargs hex)
  case h_23 k i hop hargs =>   -- mov reg, input
    cases hmd : lineMode c.mode l with
    | none => simp [hmd] at hm
    | some md =>
      cases md with
      | async =>
        simp only [hmd, Option.some.injEq, Prod.mk.injEq] at hm; obtain ⟨rfl, rfl⟩ := hm
        exact caseI2r k i (by simpa [resolveArg] using hasm) (execLine_movin hop hargs hmd hex)
      | sync =>
        simp only [hmd, Option.some.injEq, Prod.mk.injEq] at hm; obtain ⟨rfl, rfl⟩ := hm
        exact caseI2rw k i (by simpa [resolveArg] using hasm) (execLine_movin_sync hop hargs hmd hex)
  case h_24 o k hop hargs =>   -- mov output, reg
    cases hmd : lineMode c.mode l with
    | none => simp [hmd] at hm
    | some md =>
      cases md with
      | async =>
        simp only [hmd, Option.some.injEq, Prod.mk.injEq] at hm; obtain ⟨rfl, rfl⟩ := hm
        exact caseR2o k o (by simpa [resolveArg] using hasm) (execLine_movout hop hargs hmd hex)
      | sync =>
        simp only [hmd, Option.some.injEq, Prod.mk.injEq] at hm; obtain ⟨rfl, rfl⟩ := hm
        exact caseR2owa k o (by simpa [resolveArg] using hasm) (execLine_movout_sync hop hargs hmd hex)
  case h_25 => cases hm


/-! ### positions, addresses, labels -/

/-- a position of the filtered list comes from a position of the original list -/
theorem filter_index_inv : ∀ (ls : List Line) (i : Nat) (l : Line),
    (ls.filter fun l => !isEntry l)[i]? = some l → ∃ p, ls[p]? = some l ∧ isEntry l = false ∧ addr ls p = i
  | [], i, l, h => by simp at h
  | x :: xs, i, l, h => by
    by_cases hx : isEntry x = true
    · simp only [List.filter_cons, hx, Bool.not_true, Bool.false_eq_true, if_false] at h
      obtain ⟨p, h1, h2, h3⟩ := filter_index_inv xs i l h
      refine ⟨p + 1, by simpa using h1, h2, ?_⟩
      simp only [addr, List.take_succ_cons, List.filter_cons, hx, Bool.not_true, Bool.false_eq_true, if_false]
      exact h3
    · have hx' : isEntry x = false := by simpa using hx
      simp only [List.filter_cons, hx', Bool.not_false, if_true] at h
      cases i with
      | zero =>
        simp at h; subst h
        exact ⟨0, by simp, hx', by simp [addr]⟩
      | succ i =>
        obtain ⟨p, h1, h2, h3⟩ := filter_index_inv xs i l (by simpa using h)
        refine ⟨p + 1, by simpa using h1, h2, ?_⟩
        simp only [addr, List.take_succ_cons, List.filter_cons, hx', Bool.not_false, if_true, List.length_cons]
        simp only [addr] at h3
        omega

theorem addr_le (ls : List Line) (p : Nat) : addr ls p ≤ (ls.filter fun l => !isEntry l).length := by
  unfold addr
  exact List.Sublist.length_le (List.Sublist.filter _ (List.take_sublist p ls))

theorem addr_length (ls : List Line) : addr ls ls.length = (ls.filter fun l => !isEntry l).length := by
  simp [addr]

theorem addr_succ {ls : List Line} {p : Nat} {l : Line} (hl : ls[p]? = some l) :
    addr ls (p + 1) = addr ls p + (if isEntry l = true then 0 else 1) := by
  unfold addr
  rw [List.take_succ, List.filter_append, List.length_append]
  simp only [hl, Option.toList_some, List.filter_cons, List.filter_nil]
  cases isEntry l <;> simp

theorem addr_skip (ls : List Line) (p : Nat) : addr ls (skip ls p) = addr ls p := by
  unfold skip
  cases hl : ls[p]? with
  | none => rfl
  | some l =>
    simp only
    by_cases he : isEntry l = true
    · simp only [he, if_true]; rw [addr_succ hl]; simp [he]
    · simp [he]

/-- labels of source lines are unique across lines when the section has no duplicate label -/
theorem line_label_unique {ls : List Line} (hnd : hasDup (allLabels ls) = false) {i j : Nat} {li lj : Line} {s : String}
    (hi : ls[i]? = some li) (hj : ls[j]? = some lj) (hsi : s ∈ li.labels) (hsj : s ∈ lj.labels) : i = j := by
  have hnd' := (hasDup_false_iff _).mp hnd
  unfold allLabels List.Nodup at hnd'
  rw [List.pairwise_flatMap] at hnd'
  have hp := List.pairwise_iff_getElem.mp hnd'.2
  obtain ⟨hil, hie⟩ := List.getElem?_eq_some_iff.mp hi
  obtain ⟨hjl, hje⟩ := List.getElem?_eq_some_iff.mp hj
  rcases Nat.lt_trichotomy i j with h | h | h
  · exact absurd rfl (hp i j hil hjl h s (by rw [hie]; exact hsi) s (by rw [hje]; exact hsj))
  · exact h
  · exact absurd rfl (hp j i hjl hil h s (by rw [hje]; exact hsj) s (by rw [hie]; exact hsi))


theorem lookup_mem {tbl : List (String × Nat)} {t : String} {v : Nat} (h : lookup tbl t = some v) : (t, v) ∈ tbl := by
  unfold lookup at h
  cases hf : tbl.find? (·.1 == t) with
  | none => simp [hf] at h
  | some p =>
    simp [hf] at h
    have h1 := List.find?_some hf
    have h2 := List.mem_of_find?_eq_some hf
    have : p = (t, v) := by
      cases p; simp at h1 h; simp [h1, h]
    rw [← this]; exact h2

/-- the label table of the assembled body agrees with the source-level meaning of a label -/
theorem label_table_agrees {ls ls' : List Line} {mode : Option IoMode} {rs : List RLine}
    (h1 : removeEntry ls = .ok ls') (h2 : matchLines mode ls' = .ok rs) (hnd : hasDup (allLabels ls) = false)
    {t : String} {p v : Nat} (hp : labelPos ls t = some p) (hv : lookup (labelTable rs) t = some v) :
    v = addr ls p ∧ v < rs.length := by
  have hlt := lookup_lt hv
  refine ⟨?_, hlt⟩
  obtain ⟨r0, hr0, ht0⟩ := mem_labelTable.mp (lookup_mem hv)
  have hlen := matchLines_length h2
  have hv' : v < ls'.length := by omega
  obtain ⟨r1, hr1, hlab1, _⟩ := matchLines_get h2 v ls'[v] (List.getElem?_eq_getElem hv')
  rw [hr0] at hr1; cases hr1
  have he := removeEntry_eq h1
  subst he
  obtain ⟨p', hp1, hp2, hp3⟩ := filter_index_inv ls v _ (List.getElem?_eq_getElem hv')
  unfold labelPos at hp
  cases hq : ls.findIdx? (fun l => l.labels.contains t) with
  | none => rw [hq] at hp; simp at hp
  | some q =>
    rw [hq] at hp
    simp only [Option.map_some, Option.some.injEq] at hp
    obtain ⟨hql, hqt, _⟩ := List.findIdx?_eq_some_iff_getElem.mp hq
    have hqt' : t ∈ ls[q].labels := by simpa [List.contains_iff_mem] using hqt
    have hqp : q = p' := line_label_unique hnd (List.getElem?_eq_getElem hql) hp1 hqt' (by rw [← hlab1]; exact ht0)
    subst hqp
    have hsk : skip ls q = q := by
      unfold skip; rw [hp1]; simp [hp2]
    rw [hsk] at hp; subst hp
    exact hp3.symm

/-- with a single directive in the section, `skip` always lands on an instruction (or past the end) -/
theorem skip_not_entry {ls : List Line} (hone : (ls.filter isEntry).length ≤ 1) (p : Nat) (l : Line)
    (h : ls[skip ls p]? = some l) : isEntry l = false := by
  unfold skip at h
  cases hl : ls[p]? with
  | none => simp [hl] at h
  | some x =>
    simp only [hl] at h
    by_cases he : isEntry x = true
    · simp only [he, if_true] at h
      cases hl' : isEntry l with
      | false => rfl
      | true =>
        exfalso
        -- two directives, at p and p+1
        have hcat : ls.take (p + 1 + 1) = ls.take p ++ [x] ++ [l] := by
          rw [List.take_add_one, List.take_add_one, hl, h]; simp
        rw [← List.take_append_drop (p + 1 + 1) ls, hcat] at hone
        simp [List.filter_append, he, hl'] at hone
        omega
    · have he' : isEntry x = false := by simpa using he
      simp only [he', Bool.false_eq_true, if_false] at h
      rw [hl] at h; cases h
      exact he'


/-! ### one tick -/

theorem runDeferred_nil (vm : VmState) (h : vm.deferred = []) : Isa.runDeferred vm = vm := by
  cases vm; simp only at h; subst h; simp [Isa.runDeferred]

theorem foldl_set_agrees {α : Type} (v : α) (n : Nat) : ∀ (is : List Nat) (l : List α) (f : Nat → α),
    Agrees l f n → Agrees (is.foldl (fun l i => l.set i v) l) (is.foldl (fun f i => upd f i v) f) n
  | [], _, _, h => h
  | i :: is, l, f, h => by
    simp only [List.foldl_cons]
    exact foldl_set_agrees v n is _ _ (h.set i v)

/-- the pending `recv` withdrawals are processed alike on both sides -/
theorem deferred_sim {a : Arch} {e : Env} {A : Nat → Nat} {r : RefState} {vm : VmState} (h : Sim a e A r vm) :
    Sim a e A (refDeferred e r) (Isa.runDeferred vm) := by
  obtain ⟨hpc, hregs, houts, hins, hio⟩ := h
  have hdf : vm.deferred = r.deferred := hio.df
  have hp1 : ∀ i ∈ r.deferred, decide (vm.inValid[i]? = some false) = (e.inValid i == false) := by
    intro i hi
    rw [hio.iv.get (hio.dlt i hi)]
    cases e.inValid i <;> simp
  have hp2 : ∀ i ∈ r.deferred, decide (vm.inValid[i]? ≠ some false) = (e.inValid i != false) := by
    intro i hi
    rw [hio.iv.get (hio.dlt i hi)]
    cases e.inValid i <;> simp
  have hf1 : vm.deferred.filter (fun i => decide (vm.inValid[i]? = some false)) = r.deferred.filter (fun i => e.inValid i == false) := by
    rw [hdf]; exact List.filter_congr hp1
  have hf2 : vm.deferred.filter (fun i => decide (vm.inValid[i]? ≠ some false)) = r.deferred.filter (fun i => e.inValid i != false) := by
    rw [hdf]; exact List.filter_congr hp2
  refine ⟨hpc, hregs, houts, hins, ?_⟩
  simp only [Isa.runDeferred, refDeferred]
  refine ⟨hio.iv, hio.orr, hio.ov, ?_, hf2, ?_⟩
  · rw [hf1]; exact foldl_set_agrees false a.n _ _ _ hio.ir
  · intro i hi
    exact hio.dlt i (List.mem_filter.mp hi).1

/-- positions the reference interpreter can be at: an instruction, or just past the last line -/
def PosOk (ls : List Line) (p : Nat) : Prop := p ≤ ls.length ∧ ∀ l, ls[p]? = some l → isEntry l = false

theorem removeEntry_one {ls ls' : List Line} (h : removeEntry ls = .ok ls') : (ls.filter isEntry).length ≤ 1 := by
  unfold removeEntry at h
  split at h
  · rename_i e he; simp [he]
  · cases h

theorem skip_le {ls : List Line} {p : Nat} (h : p ≤ ls.length) : skip ls p ≤ ls.length := by
  unfold skip
  cases hl : ls[p]? with
  | none => exact h
  | some l =>
    have := (List.getElem?_eq_some_iff.mp hl).1
    simp only; split <;> omega

theorem posOk_skip {ls : List Line} (h : (ls.filter isEntry).length ≤ 1) {p : Nat} (hp : p ≤ ls.length) : PosOk ls (skip ls p) :=
  ⟨skip_le hp, fun l hl => skip_not_entry h p l hl⟩

theorem posOk_label {ls : List Line} (h : (ls.filter isEntry).length ≤ 1) {t : String} {p : Nat}
    (hp : labelPos ls t = some p) : PosOk ls p := by
  unfold labelPos at hp
  cases hq : ls.findIdx? (fun l => l.labels.contains t) with
  | none => rw [hq] at hp; simp at hp
  | some q =>
    rw [hq] at hp
    simp only [Option.map_some, Option.some.injEq] at hp
    subst hp
    have := (List.findIdx?_eq_some_iff_getElem.mp hq).1
    exact posOk_skip h (by omega)

/-- what the lock-step proof needs to know about how a section's lines were laid out in the ROM:
    `δ` = 0, or 1 when the repaired pipeline placed a jump to the entry at address 0 -/
structure Layout (c : SecCtx) (rs : List RLine) (δ : Nat) : Prop where
  one : (c.lines.filter isEntry).length ≤ 1
  line : ∀ p l, c.lines[p]? = some l → isEntry l = false →
    ∃ r0 : RLine, rs[δ + addr c.lines p]? = some r0 ∧ matchLine c.mode l = some (r0.op, r0.args)
  label : ∀ t p v, labelPos c.lines t = some p → lookup (labelTable rs) t = some v → v = δ + addr c.lines p ∧ v < rs.length
  len : rs.length = δ + (c.lines.filter fun l => !isEntry l).length

/-- the hypotheses that make `ws` the ROM assembled for the section `c` -/
structure Assembled (c : SecCtx) (rs : List RLine) (a : Arch) (ws : List Bits) (δ : Nat) : Prop where
  lay : Layout c rs δ
  arch : a = mkArch c.rsize rs
  prog : asmAll a (resolve rs) = .ok ws

/-- LOCK STEP, one tick: if the reference interpreter can make a step from `r`, the simulator makes
    the corresponding step on the assembled ROM from every state related to `r`, and the two stay
    related.  Blocking and non-blocking instructions alike: where the handshake makes the
    simulator wait, the reference interpreter waits too. -/
theorem step_correct_aux {c : SecCtx} {rs : List RLine} {a : Arch} {ws : List Bits} {δ : Nat} {e : Env}
    {r r' : RefState} {vm : VmState} (hA : Assembled c rs a ws δ)
    (hsim : Sim a e (fun p => δ + addr c.lines p) r vm) (hpos : PosOk c.lines r.pos) (hex : refStep c e r = some r') :
    ∃ vm', Isa.step a ws vm = some vm' ∧ Sim a e (fun p => δ + addr c.lines p) r' vm' ∧ PosOk c.lines r'.pos := by
  obtain ⟨⟨hone, hline, hlabel, hlen⟩, harch, hprog⟩ := hA
  have hall := asmAll_ok hprog
  have hwl : ws.length = rs.length := by rw [← hall.length_eq, resolve_length]
  unfold refStep at hex
  unfold Isa.step
  have hpcle : ¬ vm.pc > ws.length := by
    rw [hsim.pc, hwl, hlen]
    have := addr_le c.lines r.pos
    omega
  simp only [hpcle, if_false]
  have hsim1 := deferred_sim hsim
  have hpos1 : (refDeferred e r).pos = r.pos := rfl
  generalize refDeferred e r = r1 at hex hsim1 hpos1
  generalize Isa.runDeferred vm = vm1 at hsim1
  rw [← hpos1] at hpos
  cases hl : c.lines[r1.pos]? with
  | none =>
    simp only [hl] at hex
    split at hex
    · rename_i hend
      cases hex
      have hpc : vm1.pc = ws.length := by rw [hsim1.pc, hwl, hlen, hend, addr_length]
      have : ws[vm1.pc]? = none := by rw [hpc]; simp
      simp only [this]
      exact ⟨vm1, rfl, hsim1, hpos⟩
    · cases hex
  | some l =>
    simp only [hl] at hex
    have hne : isEntry l = false := hpos.2 l hl
    simp only [hne, Bool.false_eq_true, if_false] at hex
    obtain ⟨r0, hr0, hm0⟩ := hline _ l hl hne
    have hi : (resolve rs)[δ + addr c.lines r1.pos]? = some ⟨r0.op, r0.args.map (resolveArg (labelTable rs))⟩ := by
      simp [resolve, hr0]
    have hwlt : δ + addr c.lines r1.pos < ws.length := by
      rw [hwl]; exact (List.getElem?_eq_some_iff.mp hr0).1
    have hw : ws[vm1.pc]? = some ws[δ + addr c.lines r1.pos] := by
      rw [hsim1.pc]; exact List.getElem?_eq_getElem hwlt
    have hasm := hall.get _ _ _ hi (List.getElem?_eq_getElem hwlt)
    obtain ⟨idx, hidx, hid, _⟩ := BMV.Props.C03.opcode_numbering a _ _ hasm
    simp only [hw, hid, hidx]
    have hplt : r1.pos < c.lines.length := (List.getElem?_eq_some_iff.mp hl).1
    obtain ⟨vm', hv1, hv2, hv3⟩ := exec_matches (plen := ws.length) hm0 hasm
      (by rw [harch]; rfl) (by rw [harch]; rfl) hsim1
      (by rw [addr_skip, addr_succ hl, hsim1.pc]; simp [hne]; omega)
      (fun t p v hp hv => by
        have := hlabel t p v hp hv
        exact ⟨this.1, by rw [hwl]; exact this.2⟩)
      hex
    refine ⟨vm', hv1, hv2, ?_⟩
    rcases hv3 with h | ⟨t, ht⟩ | h
    · rw [h]; exact posOk_skip hone (by omega)
    · exact posOk_label hone ht
    · rw [h]; exact hpos


/-! ### runs -/

/-- the environment's values presented on the simulator's port vectors -/
def envVm (a : Arch) (e : Env) (vm : VmState) : VmState :=
  { vm with inputs := (List.range a.n).map e.inputs, inValid := (List.range a.n).map e.inValid,
            outRecv := (List.range a.m).map e.outRecv }

/-- the simulator on the assembled ROM under an environment stream -/
def isaRun (a : Arch) (ws : List Bits) (env : Nat → Env) : Nat → Option VmState
  | 0 => some (Isa.init a)
  | t + 1 => (isaRun a ws env t).bind fun vm => Isa.step a ws (envVm a (env t) vm)

/-- the environment-independent part of `Sim` -/
structure StSim (a : Arch) (A : Nat → Nat) (r : RefState) (vm : VmState) : Prop where
  pc : vm.pc = A r.pos
  regs : Agrees vm.regs r.regs (2 ^ a.r)
  outs : Agrees vm.outputs r.outputs a.m
  ov : Agrees vm.outValid r.outValid a.m
  ir : Agrees vm.inRecv r.inRecv a.n
  df : vm.deferred = r.deferred
  dlt : ∀ i ∈ r.deferred, i < a.n

theorem agrees_range_map {α : Type} (f : Nat → α) (n : Nat) : Agrees ((List.range n).map f) f n := by
  refine ⟨by simp, ?_⟩
  intro k hk
  simp [hk]

theorem agrees_replicate {α : Type} (v : α) (n : Nat) : Agrees (List.replicate n v) (fun _ => v) n := by
  refine ⟨by simp, ?_⟩
  intro k hk
  simp [hk]

theorem StSim.toSim {a : Arch} {A : Nat → Nat} {r : RefState} {vm : VmState} (h : StSim a A r vm) (e : Env) :
    Sim a e A r (envVm a e vm) :=
  ⟨h.pc, h.regs, h.outs, agrees_range_map _ _, ⟨agrees_range_map _ _, agrees_range_map _ _, h.ov, h.ir, h.df, h.dlt⟩⟩

theorem Sim.toSt {a : Arch} {e : Env} {A : Nat → Nat} {r : RefState} {vm : VmState} (h : Sim a e A r vm) : StSim a A r vm :=
  ⟨h.pc, h.regs, h.outs, h.io.ov, h.io.ir, h.io.df, h.io.dlt⟩

/-- the initial states are related as soon as the program counters are -/
theorem init_stsim (a : Arch) (A : Nat → Nat) (p : Nat) (pc : Nat) (h : pc = A p) :
    StSim a A { pos := p, regs := fun _ => 0, outputs := fun _ => 0, outValid := fun _ => false, inRecv := fun _ => false, deferred := [] }
      { Isa.init a with pc := pc } :=
  ⟨h, agrees_replicate 0 _, agrees_replicate 0 _, agrees_replicate false _, agrees_replicate false _, rfl, by intro i hi; cases hi⟩

/-- the induction step shared by the two run theorems -/
theorem run_step {c : SecCtx} {rs : List RLine} {a : Arch} {ws : List Bits} {δ : Nat} (hA : Assembled c rs a ws δ)
    {e : Env} {r r' : RefState} {vm : VmState}
    (hst : StSim a (fun p => δ + addr c.lines p) r vm) (hpos : PosOk c.lines r.pos) (hex : refStep c e r = some r') :
    ∃ vm', Isa.step a ws (envVm a e vm) = some vm' ∧ StSim a (fun p => δ + addr c.lines p) r' vm' ∧ PosOk c.lines r'.pos := by
  obtain ⟨vm', h1, h2, h3⟩ := step_correct_aux hA (hst.toSim e) hpos hex
  exact ⟨vm', h1, h2.toSt, h3⟩

theorem startPos_posOk {ls : List Line} (hone : (ls.filter isEntry).length ≤ 1) {p : Nat} (hs : startPos ls = some p) : PosOk ls p := by
  unfold startPos at hs
  split at hs
  · split at hs
    · exact posOk_label hone hs
    · cases hs
  · cases hs

/-- LOCK STEP, every finite run, no jump placed at address 0 (`δ = 0`): the entry label's address
    is 0 and both sides start there. -/
theorem run_correct_zero {c : SecCtx} {rs : List RLine} {a : Arch} {ws : List Bits} (hA : Assembled c rs a ws 0)
    (hentry : ∀ p, startPos c.lines = some p → addr c.lines p = 0) (env : Nat → Env) :
    ∀ (t : Nat) (r : RefState), refRun c env t = some r →
      ∃ vm, isaRun a ws env t = some vm ∧ StSim a (fun p => 0 + addr c.lines p) r vm ∧ PosOk c.lines r.pos := by
  intro t
  induction t with
  | zero =>
    intro r hr
    simp only [refRun, refInit] at hr
    cases hs : startPos c.lines with
    | none => simp [hs] at hr
    | some p =>
      simp only [hs, Option.map_some, Option.some.injEq] at hr
      subst hr
      refine ⟨Isa.init a, rfl, ?_, startPos_posOk hA.lay.one hs⟩
      have := init_stsim a (fun p => 0 + addr c.lines p) p 0 (by simp [hentry p hs])
      simpa [Isa.init] using this
  | succ t ih =>
    intro r' hr'
    simp only [refRun] at hr'
    cases hr : refRun c env t with
    | none => simp [hr] at hr'
    | some r =>
      simp only [hr, Option.bind_some] at hr'
      obtain ⟨vm, hvm, hst, hpos⟩ := ih r hr
      obtain ⟨vm', h1, h2, h3⟩ := run_step hA hst hpos hr'
      exact ⟨vm', by simp [isaRun, hvm, h1], h2, h3⟩

/-- the simulator's environment stream when one tick is spent on the jump at address 0: whatever
    `e0` the ports show during that tick, then the reference interpreter's stream -/
def delayEnv (e0 : Env) (env : Nat → Env) : Nat → Env
  | 0 => e0
  | k + 1 => env k

/-- LOCK STEP, every finite run, with the jump the repaired pipeline places at address 0
    (`δ = 1`): the simulator spends its first tick on that jump (the reference interpreter, which
    starts at the entry label, does not move), then the two run in lock step, the simulator one
    tick behind and every address one higher. -/
theorem run_correct_one {c : SecCtx} {rs : List RLine} {a : Arch} {ws : List Bits} (hA : Assembled c rs a ws 1)
    {s : String} (hj : rs[0]? = some ⟨[], "j", [.sym s]⟩) (hstart : startPos c.lines = labelPos c.lines s)
    (e0 : Env) (env : Nat → Env) :
    ∀ (t : Nat) (r : RefState), refRun c env t = some r →
      ∃ vm, isaRun a ws (delayEnv e0 env) (t + 1) = some vm ∧ StSim a (fun p => 1 + addr c.lines p) r vm ∧ PosOk c.lines r.pos := by
  intro t
  induction t with
  | zero =>
    intro r hr
    simp only [refRun, refInit] at hr
    cases hs : startPos c.lines with
    | none => simp [hs] at hr
    | some p =>
      simp only [hs, Option.map_some, Option.some.injEq] at hr
      subst hr
      obtain ⟨hlay, harch, hprog⟩ := hA
      have hall := asmAll_ok hprog
      have hwl : ws.length = rs.length := by rw [← hall.length_eq, resolve_length]
      have hi : (resolve rs)[0]? = some ⟨"j", [resolveArg (labelTable rs) (.sym s)]⟩ := by simp [resolve, hj]
      have hlt : 0 < ws.length := by rw [hwl]; exact (List.getElem?_eq_some_iff.mp hj).1
      have hasm := hall.get _ _ _ hi (List.getElem?_eq_getElem hlt)
      obtain ⟨idx, hidx, hid, _⟩ := BMV.Props.C03.opcode_numbering a _ _ hasm
      obtain ⟨v, hv⟩ := resolved_of_asm (pre := []) (post := []) (by simpa using hasm) (by decide)
      have hp : labelPos c.lines s = some p := by rw [← hstart]; exact hs
      obtain ⟨hva, hvl⟩ := hlay.label s p v hp hv
      simp only [resolveArg, hv] at hasm
      have hexec := vm_j (plen := ws.length) (vm := envVm a e0 (Isa.init a)) hasm (by rw [harch]; rfl) (by rw [hwl]; exact hvl)
      refine ⟨{ envVm a e0 (Isa.init a) with pc := v }, ?_, ?_, startPos_posOk hlay.one hs⟩
      · simp only [isaRun, Option.bind_some, delayEnv]
        unfold Isa.step
        have h0 : (envVm a e0 (Isa.init a)).pc = 0 := rfl
        have hd : (envVm a e0 (Isa.init a)).deferred = [] := rfl
        simp only [h0, runDeferred_nil _ hd, Nat.not_lt_zero, gt_iff_lt, if_false, List.getElem?_eq_getElem hlt, hid, hidx]
        exact hexec
      · have := init_stsim a (fun p => 1 + addr c.lines p) p v hva
        exact ⟨this.pc, this.regs, this.outs, this.ov, this.ir, this.df, this.dlt⟩
  | succ t ih =>
    intro r' hr'
    simp only [refRun] at hr'
    cases hr : refRun c env t with
    | none => simp [hr] at hr'
    | some r =>
      simp only [hr, Option.bind_some] at hr'
      obtain ⟨vm, hvm, hst, hpos⟩ := ih r hr
      obtain ⟨vm', h1, h2, h3⟩ := run_step hA hst hpos hr'
      refine ⟨vm', ?_, h2, h3⟩
      show (isaRun a ws (delayEnv e0 env) (t + 1)).bind (fun vm => Isa.step a ws (envVm a (delayEnv e0 env (t + 1)) vm)) = some vm'
      rw [hvm]; exact h1


/-! ### the two pipelines lay a section out as `Layout` says -/

theorem labelTable_cons_nolabel (r : RLine) (rs : List RLine) (h : r.labels = []) :
    labelTable (r :: rs) = (labelTable rs).map (fun x => (x.1, x.2 + 1)) := by
  unfold labelTable
  rw [List.zipIdx_cons']
  simp only [List.flatMap_cons, h, List.map_nil, List.nil_append, List.flatMap_map, List.map_flatMap, List.map_map]
  congr 1

theorem lookup_shift (tbl : List (String × Nat)) (t : String) :
    lookup (tbl.map (fun x => (x.1, x.2 + 1))) t = (lookup tbl t).map (· + 1) := by
  unfold lookup
  induction tbl with
  | nil => rfl
  | cons x xs ih =>
    simp only [List.map_cons, List.find?_cons]
    by_cases hx : (x.1 == t) = true
    · simp [hx]
    · simp only [hx]; exact ih


theorem filter_noentry_self : ∀ (ls : List Line), (ls.filter isEntry).length = 0 → (ls.filter fun l => !isEntry l) = ls
  | [], _ => rfl
  | x :: xs, h => by
    by_cases hx : isEntry x = true
    · simp [List.filter_cons, hx] at h
    · have hx' : isEntry x = false := by simpa using hx
      simp only [List.filter_cons, hx', Bool.false_eq_true, if_false] at h
      simp only [List.filter_cons, hx', Bool.not_false, if_true]
      rw [filter_noentry_self xs h]

/-- `dropEntry` against the plain removal of the directive, line by line: same instructions, and
    every label of a kept line is its own or one that was written on the directive just before it -/
theorem dropEntry_pointwise : ∀ {ls ls' : List Line}, dropEntry ls = some ls' → (ls.filter isEntry).length ≤ 1 →
    ls'.length = (ls.filter fun l => !isEntry l).length ∧
    ∀ (i : Nat) (l' : Line), ls'[i]? = some l' → ∃ l : Line, (ls.filter fun l => !isEntry l)[i]? = some l ∧
      l'.op = l.op ∧ (l'.args = l.args ∧ l'.iomode = l.iomode) ∧
      ∀ t, t ∈ l'.labels → t ∈ l.labels ∨ ∃ (q : Nat) (e : Line), ls[q]? = some e ∧ isEntry e = true ∧ t ∈ e.labels ∧ addr ls q = i
  | [], ls', h, _ => by
    simp [dropEntry] at h; subst h
    exact ⟨rfl, fun i l' hl => by simp at hl⟩
  | x :: rest, ls', h, hone => by
    simp only [dropEntry] at h
    by_cases hx : isEntry x = true
    · simp only [hx, if_true] at h
      have hrest : (rest.filter isEntry).length = 0 := by
        simp only [List.filter_cons, hx, if_true, List.length_cons] at hone; omega
      have hF : ((x :: rest).filter fun l => !isEntry l) = rest := by
        simp only [List.filter_cons, hx, Bool.not_true, Bool.false_eq_true, if_false]
        exact filter_noentry_self rest hrest
      rw [hF]
      by_cases hl : x.labels.isEmpty = true
      · simp only [hl, if_true, Option.some.injEq] at h; subst h
        exact ⟨rfl, fun i l' hl' => ⟨l', hl', rfl, ⟨rfl, rfl⟩, fun t ht => Or.inl ht⟩⟩
      · simp only [hl] at h
        cases rest with
        | nil => simp at h
        | cons n rest' =>
          simp only [Bool.false_eq_true, if_false, Option.some.injEq] at h; subst h
          refine ⟨by simp, ?_⟩
          intro i l' hl'
          cases i with
          | zero =>
            simp only [List.getElem?_cons_zero, Option.some.injEq] at hl'; subst hl'
            refine ⟨n, by simp, rfl, ⟨rfl, rfl⟩, ?_⟩
            intro t ht
            rcases List.mem_append.mp ht with ht | ht
            · exact Or.inl ht
            · exact Or.inr ⟨0, x, by simp, hx, ht, by simp [addr]⟩
          | succ i =>
            simp only [List.getElem?_cons_succ] at hl'
            exact ⟨l', by simpa using hl', rfl, ⟨rfl, rfl⟩, fun t ht => Or.inl ht⟩
    · have hx' : isEntry x = false := by simpa using hx
      simp only [hx', Bool.false_eq_true, if_false] at h
      cases hd : dropEntry rest with
      | none => simp [hd] at h
      | some r =>
        simp only [hd, Option.map_some, Option.some.injEq] at h; subst h
        have hone' : (rest.filter isEntry).length ≤ 1 := by
          simpa [List.filter_cons, hx'] using hone
        obtain ⟨hlen, hpt⟩ := dropEntry_pointwise hd hone'
        have hF : ((x :: rest).filter fun l => !isEntry l) = x :: (rest.filter fun l => !isEntry l) := by
          simp [List.filter_cons, hx']
        rw [hF]
        refine ⟨by simp [hlen], ?_⟩
        intro i l' hl'
        cases i with
        | zero =>
          simp only [List.getElem?_cons_zero, Option.some.injEq] at hl'; subst hl'
          exact ⟨x, by simp, rfl, ⟨rfl, rfl⟩, fun t ht => Or.inl ht⟩
        | succ i =>
          simp only [List.getElem?_cons_succ] at hl'
          obtain ⟨l, h1, h2, h3, h4⟩ := hpt i l' hl'
          refine ⟨l, by simpa using h1, h2, h3, ?_⟩
          intro t ht
          rcases h4 t ht with h | ⟨q, e, hq, he, hte, hqa⟩
          · exact Or.inl h
          · refine Or.inr ⟨q + 1, e, by simpa using hq, he, hte, ?_⟩
            simp only [addr, List.take_succ_cons, List.filter_cons, hx', Bool.not_false, if_true, List.length_cons]
            simp only [addr] at hqa
            omega


theorem matchLine_congr (mode : Option IoMode) {l1 l2 : Line} (h1 : l1.op = l2.op) (h2 : l1.args = l2.args)
    (h3 : l1.iomode = l2.iomode) : matchLine mode l1 = matchLine mode l2 := by
  unfold matchLine lineMode; rw [h1, h2, h3]

/-- unchanged pipeline: the directive is filtered out, nothing else moves -/
theorem layout_unfixed {c : SecCtx} {ls' : List Line} {rs : List RLine} (hre : removeEntry c.lines = .ok ls')
    (hml : matchLines c.mode ls' = .ok rs) (hnd : hasDup (allLabels c.lines) = false) : Layout c rs 0 := by
  refine ⟨removeEntry_one hre, ?_, ?_, ?_⟩
  · intro p l hl hne
    obtain ⟨⟨r0, h1, _, h3⟩, _⟩ := label_after_entry_removal_aux hre hml hnd hl hne
    exact ⟨r0, by simpa using h1, h3⟩
  · intro t p v hp hv
    have := label_table_agrees hre hml hnd hp hv
    simpa using this
  · rw [matchLines_length hml, removeEntry_eq hre]; simp

/-- a label found on a line of `dropEntry`'s result is, at source level, the label of the
    instruction with that address -/
theorem label_pos_of_dropped {ls ls' : List Line} (hdrop : dropEntry ls = some ls') (hone : (ls.filter isEntry).length ≤ 1)
    (hnd : hasDup (allLabels ls) = false) {t : String} {i : Nat} {l' : Line} (hl' : ls'[i]? = some l') (ht : t ∈ l'.labels)
    {p : Nat} (hp : labelPos ls t = some p) : addr ls p = i := by
  obtain ⟨_, hpt⟩ := dropEntry_pointwise hdrop hone
  obtain ⟨l, hF, _, _, hlab⟩ := hpt i l' hl'
  unfold labelPos at hp
  cases hq : ls.findIdx? (fun l => l.labels.contains t) with
  | none => rw [hq] at hp; simp at hp
  | some q =>
    rw [hq] at hp
    simp only [Option.map_some, Option.some.injEq] at hp
    obtain ⟨hql, hqt, _⟩ := List.findIdx?_eq_some_iff_getElem.mp hq
    have hqt' : t ∈ ls[q].labels := by simpa [List.contains_iff_mem] using hqt
    rcases hlab t ht with h | ⟨q', e, hq', he, hte, hqa⟩
    · obtain ⟨p', hp1, hp2, hp3⟩ := filter_index_inv ls i l hF
      have hqp : q = p' := line_label_unique hnd (List.getElem?_eq_getElem hql) hp1 hqt' h
      subst hqp
      have hsk : skip ls q = q := by unfold skip; rw [hp1]; simp [hp2]
      rw [hsk] at hp; subst hp; exact hp3
    · have hqq : q = q' := line_label_unique hnd (List.getElem?_eq_getElem hql) hq' hqt' hte
      subst hqq
      rw [← hp, addr_skip]; exact hqa

/-- repaired pipeline, before the jump is considered: the directive is dropped and its labels move
    to the next instruction -/
theorem layout_dropped {c : SecCtx} {ls' : List Line} {rs : List RLine} (hdrop : dropEntry c.lines = some ls')
    (hone : (c.lines.filter isEntry).length ≤ 1) (hml : matchLines c.mode ls' = .ok rs)
    (hnd : hasDup (allLabels c.lines) = false) : Layout c rs 0 := by
  obtain ⟨hlen, hpt⟩ := dropEntry_pointwise hdrop hone
  have hrl := matchLines_length hml
  refine ⟨hone, ?_, ?_, by rw [hrl, hlen]; simp⟩
  · intro p l hl hne
    have hF := filter_getElem?_addr c.lines p l hl hne
    have hlt : addr c.lines p < ls'.length := by rw [hlen]; exact (List.getElem?_eq_some_iff.mp hF).1
    obtain ⟨l2, hF2, hop, ⟨hargs, hio⟩, _⟩ := hpt _ _ (List.getElem?_eq_getElem hlt)
    rw [hF] at hF2; cases hF2
    obtain ⟨r0, hr0, _, hm⟩ := matchLines_get hml _ _ (List.getElem?_eq_getElem hlt)
    exact ⟨r0, by simpa using hr0, by rw [← matchLine_congr c.mode hop hargs hio]; exact hm⟩
  · intro t p v hp hv
    have hlt := lookup_lt hv
    obtain ⟨r0, hr0, ht0⟩ := mem_labelTable.mp (lookup_mem hv)
    have hv' : v < ls'.length := by omega
    obtain ⟨r1, hr1, hlab1, _⟩ := matchLines_get hml v ls'[v] (List.getElem?_eq_getElem hv')
    rw [hr0] at hr1; cases hr1
    have := label_pos_of_dropped hdrop hone hnd (List.getElem?_eq_getElem hv') (by rw [← hlab1]; exact ht0) hp
    exact ⟨by simp [this], hlt⟩

/-- placing one label-free line in front shifts every address by one -/
theorem layout_shift {c : SecCtx} {rs : List RLine} (h : Layout c rs 0) (r : RLine) (hr : r.labels = []) :
    Layout c (r :: rs) 1 := by
  obtain ⟨hone, hline, hlabel, hlen⟩ := h
  refine ⟨hone, ?_, ?_, by simp [hlen]; omega⟩
  · intro p l hl hne
    obtain ⟨r0, hr0, hm⟩ := hline p l hl hne
    refine ⟨r0, ?_, hm⟩
    rw [Nat.add_comm 1, List.getElem?_cons_succ]; simpa using hr0
  · intro t p v hp hv
    rw [labelTable_cons_nolabel r rs hr, lookup_shift] at hv
    cases hv0 : lookup (labelTable rs) t with
    | none => simp [hv0] at hv
    | some v0 =>
      simp only [hv0, Option.map_some, Option.some.injEq] at hv
      obtain ⟨h1, h2⟩ := hlabel t p v0 hp hv0
      simp only [Nat.zero_add] at h1
      exact ⟨by omega, by simp; omega⟩

theorem matchLines_cons {mode : Option IoMode} {l : Line} {ls : List Line} {rs : List RLine}
    (h : matchLines mode (l :: ls) = .ok rs) :
    ∃ op args rs', matchLine mode l = some (op, args) ∧ matchLines mode ls = .ok rs' ∧ rs = ⟨l.labels, op, args⟩ :: rs' := by
  simp only [matchLines] at h
  cases h1 : matchLine mode l with
  | none => simp [h1] at h
  | some p =>
    obtain ⟨op, args⟩ := p
    cases h2 : matchLines mode ls with
    | error e => simp [h1, h2] at h
    | ok rs' =>
      simp [h1, h2] at h
      exact ⟨op, args, rs', rfl, rfl, h.symm⟩

/-- how many ticks the simulator spends before the reference interpreter's first instruction: one
    (the jump at address 0) exactly when the entry label is not on the first instruction -/
def entryDelay (ls : List Line) : Nat := if entryFirst ls then 0 else 1

/-- REPAIRED PIPELINE: what `removeEntryFix` + `matchLines` give is a `Layout` with
    `δ = entryDelay`, and the run theorems' side conditions hold. -/
theorem layout_fixed {c : SecCtx} {ls'' : List Line} {rs : List RLine} (hre : removeEntryFix c.lines = .ok ls'')
    (hml : matchLines c.mode ls'' = .ok rs) (hnd : hasDup (allLabels c.lines) = false) :
    Layout c rs (entryDelay c.lines) ∧
    ((entryDelay c.lines = 0 ∧ ∀ p, startPos c.lines = some p → addr c.lines p = 0) ∨
     (entryDelay c.lines = 1 ∧ ∃ s, rs[0]? = some ⟨[], "j", [.sym s]⟩ ∧ startPos c.lines = labelPos c.lines s)) := by
  unfold removeEntryFix at hre
  split at hre
  · rename_i e hfe
    have hone : (c.lines.filter isEntry).length ≤ 1 := by simp [hfe]
    have hfind : c.lines.find? isEntry = some e := by
      rw [← List.head?_filter, hfe]; rfl
    split at hre
    · rename_i s hargs
      split at hre
      · cases hre
      · cases hdrop : dropEntry c.lines with
        | none => simp [hdrop] at hre
        | some ls' =>
          simp only [hdrop] at hre
          have hstart : startPos c.lines = labelPos c.lines s := by
            unfold startPos; rw [hfind]; simp only [hargs]
          cases hidx : ls'.findIdx? (fun l => l.labels.contains s) with
          | none => rw [hidx] at hre; cases hre
          | some k =>
            rw [hidx] at hre
            obtain ⟨hkl, hkt, _⟩ := List.findIdx?_eq_some_iff_getElem.mp hidx
            have hkt' : s ∈ ls'[k].labels := by simpa [List.contains_iff_mem] using hkt
            have haddr : ∀ p, startPos c.lines = some p → addr c.lines p = k := by
              intro p hp
              rw [hstart] at hp
              exact label_pos_of_dropped hdrop hone hnd (List.getElem?_eq_getElem hkl) hkt' hp
            -- the entry label resolves (it is among the section's labels)
            have hsome : ∃ p, startPos c.lines = some p := by
              rw [hstart]
              unfold labelPos
              cases hq : c.lines.findIdx? (fun l => l.labels.contains s) with
              | some q => exact ⟨_, rfl⟩
              | none =>
                exfalso
                have hno := List.findIdx?_eq_none_iff.mp hq
                obtain ⟨_, hpt⟩ := dropEntry_pointwise hdrop hone
                obtain ⟨l, hF, _, _, hlab⟩ := hpt k _ (List.getElem?_eq_getElem hkl)
                rcases hlab s hkt' with h | ⟨q', e', hq', _, hte, _⟩
                · have hm : l ∈ c.lines := (List.mem_filter.mp (List.mem_of_getElem? hF)).1
                  have := hno l hm
                  simp [List.contains_iff_mem, h] at this
                · have := hno e' (List.mem_of_getElem? hq')
                  simp [List.contains_iff_mem, hte] at this
            obtain ⟨p0, hp0⟩ := hsome
            cases k with
            | zero =>
              have hre' : (Except.ok ls' : Except Err (List Line)) = Except.ok ls'' := hre
              injection hre' with hre'; subst hre'
              have hef : entryFirst c.lines = true := by
                unfold entryFirst; rw [hp0]; simp [haddr p0 hp0]
              have hd : entryDelay c.lines = 0 := by simp [entryDelay, hef]
              rw [hd]
              exact ⟨layout_dropped hdrop hone hml hnd, Or.inl ⟨rfl, haddr⟩⟩
            | succ k =>
              have hre' : (Except.ok ({ op := "j", args := [Arg.sym s] } :: ls') : Except Err (List Line)) = Except.ok ls'' := hre
              injection hre' with hre'; subst hre'
              have hef : entryFirst c.lines = false := by
                unfold entryFirst; rw [hp0]; simp [haddr p0 hp0]
              have hd : entryDelay c.lines = 1 := by simp [entryDelay, hef]
              rw [hd]
              obtain ⟨op, args, rs', hm, hml', rfl⟩ := matchLines_cons hml
              have hm' : op = "j" ∧ args = [.sym s] := by
                simp [matchLine] at hm; exact ⟨hm.1.symm, hm.2.symm⟩
              obtain ⟨rfl, rfl⟩ := hm'
              exact ⟨layout_shift (layout_dropped hdrop hone hml' hnd) _ rfl, Or.inr ⟨rfl, s, rfl, hstart⟩⟩
    · cases hre
  · cases hre

/-! ### from `assemble` to `Assembled` -/

theorem findSection_name {ss : List (String × List RLine)} {name : String} {rs : List RLine}
    (h : findSection ss name = some rs) : (name, rs) ∈ ss := by
  unfold findSection at h
  cases hf : ss.reverse.find? (·.1 == name) with
  | none => simp [hf] at h
  | some p =>
    simp [hf] at h
    have h1 := List.find?_some hf
    have h2 := List.mem_reverse.mp (List.mem_of_find?_eq_some hf)
    have : p = (name, rs) := by
      cases p; simp at h1 h; simp [h1, h]
    rw [← this]; exact h2

/-- the i-th processor of an accepted source is `mkCP` of the prepared body of a section that the
    i-th `cpdef` names -/
theorem assemble_cp {src : Source} {fix : Bool} {bm : BM} (h : assemble src fix = .ok bm) {i : Nat} {c : CpDef} {cp : CP}
    (hc : src.procs[i]? = some c) (hcp : bm.cps[i]? = some cp) :
    ∃ sec ∈ src.sections, sec.name = c.romcode ∧ ∃ rs, prepSection fix src.iomode sec = .ok rs ∧
      mkCP bm.rsize rs = .ok cp ∧ src.rsize = some bm.rsize ∧ hasDup (allLabels sec.lines) = false := by
  obtain ⟨rsize, ss, bodies, cps, hrs, _, _, hdup, hss, hb, _, hmk, rfl⟩ := assemble_ok_inv h
  have hb2 := mapE_ok hb
  have hm2 := mapE_ok hmk
  have hlen1 := hb2.length_eq
  have hlen2 := hm2.length_eq
  have hi : i < src.procs.length := (List.getElem?_eq_some_iff.mp hc).1
  have hbi : bodies[i]? = some bodies[i] := List.getElem?_eq_getElem (by omega)
  have hbody := hb2.get i c _ hc hbi
  have hmkcp := hm2.get i _ cp hbi hcp
  unfold cpBody at hbody
  cases hf : findSection ss c.romcode with
  | none => simp [hf] at hbody
  | some rs =>
    simp only [hf, Except.ok.injEq] at hbody
    have hmem := findSection_name hf
    obtain ⟨sec, hsec, hsp⟩ := all2_mem_right (mapE_ok hss) _ hmem
    unfold secPrep at hsp
    cases hp : prepSection fix src.iomode sec with
    | error e => simp [hp] at hsp
    | ok rs' =>
      simp only [hp, Except.ok.injEq, Prod.mk.injEq] at hsp
      refine ⟨sec, hsec, hsp.1, rs, by rw [← hsp.2]; exact hp, by rw [hbody]; exact hmkcp, hrs, ?_⟩
      have := List.any_eq_false.mp hdup sec hsec
      simpa using this

/-- … which is what `Assembled` asks for: the unchanged pipeline lays the section out with `δ = 0` -/
theorem assembled_of_assemble {src : Source} {bm : BM} (h : assemble src false = .ok bm) {i : Nat} {c : CpDef} {cp : CP}
    (hc : src.procs[i]? = some c) (hcp : bm.cps[i]? = some cp) :
    ∃ sec ∈ src.sections, sec.name = c.romcode ∧ ∃ rs, Assembled (SecCtx.of src sec) rs cp.arch cp.prog 0 := by
  obtain ⟨sec, hsec, hname, rs, hprep, hmk, hrs, hnd⟩ := assemble_cp h hc hcp
  refine ⟨sec, hsec, hname, rs, ?_⟩
  unfold mkCP at hmk
  cases hws : asmAll (mkArch bm.rsize rs) (resolve rs) with
  | error e => simp [hws] at hmk
  | ok ws =>
    simp only [hws, Except.ok.injEq] at hmk
    subst hmk
    unfold prepSection at hprep
    simp only [Bool.false_eq_true, if_false] at hprep
    cases hre : removeEntry sec.lines with
    | error e => simp [hre] at hprep
    | ok ls' =>
      simp only [hre] at hprep
      exact ⟨layout_unfixed (c := SecCtx.of src sec) hre hprep hnd, by simp [SecCtx.of, hrs], hws⟩

/-- … and the repaired pipeline with `δ = entryDelay`, together with the side conditions of the
    run theorems -/
theorem assembled_of_assemble_fix {src : Source} {bm : BM} (h : assemble src true = .ok bm) {i : Nat} {c : CpDef} {cp : CP}
    (hc : src.procs[i]? = some c) (hcp : bm.cps[i]? = some cp) :
    ∃ sec ∈ src.sections, sec.name = c.romcode ∧ ∃ rs,
      Assembled (SecCtx.of src sec) rs cp.arch cp.prog (entryDelay sec.lines) ∧
      ((entryDelay sec.lines = 0 ∧ ∀ p, startPos sec.lines = some p → addr sec.lines p = 0) ∨
       (entryDelay sec.lines = 1 ∧ ∃ s, rs[0]? = some ⟨[], "j", [.sym s]⟩ ∧ startPos sec.lines = labelPos sec.lines s)) := by
  obtain ⟨sec, hsec, hname, rs, hprep, hmk, hrs, hnd⟩ := assemble_cp h hc hcp
  refine ⟨sec, hsec, hname, rs, ?_⟩
  unfold mkCP at hmk
  cases hws : asmAll (mkArch bm.rsize rs) (resolve rs) with
  | error e => simp [hws] at hmk
  | ok ws =>
    simp only [hws, Except.ok.injEq] at hmk
    subst hmk
    unfold prepSection at hprep
    simp only [if_true] at hprep
    cases hre : removeEntryFix sec.lines with
    | error e => simp [hre] at hprep
    | ok ls'' =>
      simp only [hre] at hprep
      obtain ⟨hlay, hside⟩ := layout_fixed (c := SecCtx.of src sec) hre hprep hnd
      exact ⟨⟨hlay, by simp [SecCtx.of, hrs], hws⟩, hside⟩


/-! ### several processors -/

theorem netStepFrom_get {net : List (Topology.Bond × Topology.Bond)} {ext : ExtEnv} {hold : Nat → Bool} {all : List RefState} :
    ∀ (p : Nat) (cs : List SecCtx) (ss ss' : List RefState), cs.length = ss.length →
      netStepFrom net ext hold all p cs ss = some ss' →
      ss'.length = ss.length ∧
      ∀ (i : Nat) (c : SecCtx) (s : RefState), cs[i]? = some c → ss[i]? = some s →
        ∃ s', ss'[i]? = some s' ∧ (if hold (p + i) then some s else refStep c (envFor net ext all (p + i)) s) = some s'
  | p, [], [], ss', _, h => by
    simp [netStepFrom] at h; subst h
    exact ⟨rfl, fun i c s hc => by simp at hc⟩
  | p, c :: cs, s :: ss, ss', hlen, h => by
    simp only [netStepFrom] at h
    cases h1 : (if hold p then some s else refStep c (envFor net ext all p) s) with
    | none => simp [h1] at h
    | some s1 =>
      cases h2 : netStepFrom net ext hold all (p + 1) cs ss with
      | none => simp [h1, h2] at h
      | some rest =>
        simp [h1, h2] at h; subst h
        obtain ⟨hl, hget⟩ := netStepFrom_get (p + 1) cs ss rest (by simpa using hlen) h2
        refine ⟨by simp [hl], ?_⟩
        intro i c' s' hc hs
        cases i with
        | zero =>
          simp at hc hs; subst hc; subst hs
          exact ⟨s1, by simp, by simpa using h1⟩
        | succ i =>
          obtain ⟨s2, h3, h4⟩ := hget i c' s' (by simpa using hc) (by simpa using hs)
          exact ⟨s2, by simpa using h3, by rw [show p + (i + 1) = p + 1 + i by omega]; exact h4⟩
  | p, [], _ :: _, _, hlen, _ => by simp at hlen
  | p, _ :: _, [], _, hlen, _ => by simp at hlen

theorem initAll_get : ∀ (cs : List SecCtx) (ss : List RefState), initAll cs = some ss →
    ss.length = cs.length ∧ ∀ (i : Nat) (c : SecCtx), cs[i]? = some c → ∃ s, ss[i]? = some s ∧ refInit c = some s
  | [], ss, h => by simp [initAll] at h; subst h; exact ⟨rfl, fun i c hc => by simp at hc⟩
  | c :: cs, ss, h => by
    simp only [initAll] at h
    cases h1 : refInit c with
    | none => simp [h1] at h
    | some s =>
      cases h2 : initAll cs with
      | none => simp [h1, h2] at h
      | some rest =>
        simp [h1, h2] at h; subst h
        obtain ⟨hl, hget⟩ := initAll_get cs rest h2
        refine ⟨by simp [hl], ?_⟩
        intro i c' hc
        cases i with
        | zero => simp at hc; subst hc; exact ⟨s, by simp, h1⟩
        | succ i =>
          obtain ⟨s2, h3, h4⟩ := hget i c' (by simpa using hc)
          exact ⟨s2, by simpa using h3, h4⟩

/-- COMPOSITION: the run of the whole machine, seen from processor `p`, is a run of the reference
    interpreter on `p`'s section under the environment the bonds induce — the network reference is
    nothing more than the per-processor references plus the wiring. -/
theorem net_component (ctxs : List SecCtx) (net : List (Topology.Bond × Topology.Bond)) (ext : Nat → ExtEnv) :
    ∀ (t : Nat) (sts : List RefState), netRun ctxs net ext t = some sts →
      sts.length = ctxs.length ∧
      ∀ (p : Nat) (c : SecCtx), ctxs[p]? = some c →
        ∃ s, sts[p]? = some s ∧ refRun c (inducedEnv ctxs net ext p) t = some s := by
  intro t
  induction t with
  | zero =>
    intro sts h
    obtain ⟨hl, hget⟩ := initAll_get ctxs sts h
    exact ⟨hl, fun p c hc => by obtain ⟨s, h1, h2⟩ := hget p c hc; exact ⟨s, h1, h2⟩⟩
  | succ t ih =>
    intro sts' h
    simp only [netRun] at h
    cases hr : netRun ctxs net ext t with
    | none => simp [hr] at h
    | some sts =>
      simp only [hr, Option.bind_some] at h
      obtain ⟨hl, hcomp⟩ := ih sts hr
      obtain ⟨hl', hget⟩ := netStepFrom_get 0 ctxs sts sts' hl.symm h
      refine ⟨by rw [hl', hl], ?_⟩
      intro p c hc
      obtain ⟨s, hs, hrun⟩ := hcomp p c hc
      obtain ⟨s', h1, h2⟩ := hget p c s hc hs
      refine ⟨s', h1, ?_⟩
      simp only [refRun, hrun, Option.bind_some]
      simp only [Bool.false_eq_true, if_false, Nat.zero_add] at h2
      simp only [inducedEnv, hr]
      exact h2


end BMV.Basm
