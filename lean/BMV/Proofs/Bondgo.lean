/-
  Helper lemmas for the bondgo compiler model (BMV/Bondgo.lean).  Property theorems:
  BMV/Props/C12.lean.
-/
import BMV.Bondgo
namespace BMV.Bondgo

/-! ### allocator -/

theorem le_maxList {x : Nat} {l : List Nat} (h : x ∈ l) : x ≤ maxList l := by
  induction l with
  | nil => cases h
  | cons y ys ih =>
    simp only [maxList]
    rcases List.mem_cons.mp h with h | h
    · subst h; exact Nat.le_max_left _ _
    · exact Nat.le_trans (ih h) (Nat.le_max_right _ _)

theorem fresh_not_mem (busy : List Nat) : fresh busy ∉ busy := by
  unfold fresh
  split
  · rename_i i hi
    have := List.find?_some hi
    simpa using this
  · intro h
    have := le_maxList h
    omega

/-! ### running code -/

theorem isaRun_add (env : Nat → Nat → Nat) (w : Nat) (code : List Instr) (n m : Nat) (c : Cfg) :
    isaRun env w code (n + m) c = isaRun env w code m (isaRun env w code n c) := by
  induction n generalizing c with
  | zero => simp [isaRun]
  | succ n ih =>
    rw [Nat.succ_add]
    simp only [isaRun]
    cases h : isaStep env w code c with
    | some c' => simp only; exact ih c'
    | none =>
      simp only
      -- halted: stays halted
      clear ih
      induction m with
      | zero => simp [isaRun]
      | succ m _ => simp [isaRun, h]

theorem isaStep_at (env : Nat → Nat → Nat) (w : Nat) (pre post : List Instr) (i : Instr) (c : Cfg)
    (hpc : c.pc = pre.length) :
    isaStep env w (pre ++ i :: post) c = some (execInstr env w c i) := by
  simp [isaStep, hpc]

theorem isaRun_one_at (env : Nat → Nat → Nat) (w : Nat) (pre post : List Instr) (i : Instr) (c : Cfg)
    (hpc : c.pc = pre.length) :
    isaRun env w (pre ++ i :: post) 1 c = execInstr env w c i := by
  simp [isaRun, isaStep_at env w pre post i c hpc]

/-! ### the agreement between machine state and source state -/

/-- memory variables sit in their cells, register variables in their (busy) registers, and both
    sides have consumed the same number of input reads -/
structure Agree (ls : List Loc) (busy : List Nat) (cfg : Cfg) (s : Src) : Prop where
  regv : ∀ x g, ls[x]? = some (.reg g) → cfg.regs g = s.vars x ∧ g ∈ busy
  memv : ∀ x m, ls[x]? = some (.mem m) → cfg.mem m = s.vars x
  rc : cfg.rc = s.rc

/-! ### expressions -/

theorem compileE_mono (ls : List Loc) (e : Expr) :
    ∀ (busy : List Nat) (c : List Instr) (r : Nat) (busy' : List Nat),
      compileE ls e busy = some (c, r, busy') → r ∉ busy ∧ r ∈ busy' ∧ ∀ x ∈ busy, x ∈ busy' := by
  induction e with
  | lit n =>
    intro busy c r busy' h
    simp only [compileE, Option.some.injEq, Prod.mk.injEq] at h
    obtain ⟨_, h2, h3⟩ := h; subst h2; subst h3
    exact ⟨fresh_not_mem _, List.mem_cons_self, fun x hx => List.mem_cons_of_mem _ hx⟩
  | var x =>
    intro busy c r busy' h
    simp only [compileE] at h
    split at h <;> simp only [Option.some.injEq, Prod.mk.injEq, reduceCtorEq] at h
    all_goals
      obtain ⟨_, h2, h3⟩ := h; subst h2; subst h3
      exact ⟨fresh_not_mem _, List.mem_cons_self, fun x hx => List.mem_cons_of_mem _ hx⟩
  | ioread i =>
    intro busy c r busy' h
    simp only [compileE, Option.some.injEq, Prod.mk.injEq] at h
    obtain ⟨_, h2, h3⟩ := h; subst h2; subst h3
    exact ⟨fresh_not_mem _, List.mem_cons_self, fun x hx => List.mem_cons_of_mem _ hx⟩
  | add a b iha ihb =>
    intro busy c r busy' h
    simp only [compileE] at h
    split at h
    · cases h
    · rename_i ca ra busy1 ha
      split at h
      · cases h
      · rename_i cb rb busy2 hb
        simp only [Option.some.injEq, Prod.mk.injEq] at h
        obtain ⟨_, h2, h3⟩ := h; subst h2; subst h3
        obtain ⟨a1, a2, a3⟩ := iha _ _ _ _ ha
        obtain ⟨b1, b2, b3⟩ := ihb _ _ _ _ hb
        have hne : ra ≠ rb := fun e => b1 (e ▸ a2)
        refine ⟨a1, (List.mem_erase_of_ne hne).mpr (b3 _ a2), fun x hx => ?_⟩
        have hx1 := a3 x hx
        have : x ≠ rb := fun e => b1 (e ▸ hx1)
        exact (List.mem_erase_of_ne this).mpr (b3 _ hx1)
  | mul a b iha ihb =>
    intro busy c r busy' h
    simp only [compileE] at h
    split at h
    · cases h
    · rename_i ca ra busy1 ha
      split at h
      · cases h
      · rename_i cb rb busy2 hb
        simp only [Option.some.injEq, Prod.mk.injEq] at h
        obtain ⟨_, h2, h3⟩ := h; subst h2; subst h3
        obtain ⟨a1, a2, a3⟩ := iha _ _ _ _ ha
        obtain ⟨b1, b2, b3⟩ := ihb _ _ _ _ hb
        have hne : ra ≠ rb := fun e => b1 (e ▸ a2)
        refine ⟨a1, (List.mem_erase_of_ne hne).mpr (b3 _ a2), fun x hx => ?_⟩
        have hx1 := a3 x hx
        have : x ≠ rb := fun e => b1 (e ▸ hx1)
        exact (List.mem_erase_of_ne this).mpr (b3 _ hx1)


/-- with a duplicate-free busy list: the result register is new, the list stays duplicate free and
    grows exactly by the result register -/
theorem compileE_alloc (ls : List Loc) (e : Expr) :
    ∀ (busy : List Nat) (c : List Instr) (r : Nat) (busy' : List Nat), busy.Nodup →
      compileE ls e busy = some (c, r, busy') →
      r ∉ busy ∧ busy'.Nodup ∧ (∀ x, x ∈ busy' ↔ x = r ∨ x ∈ busy) := by
  have leaf : ∀ (busy : List Nat), busy.Nodup →
      fresh busy ∉ busy ∧ (fresh busy :: busy).Nodup ∧
        (∀ x, x ∈ fresh busy :: busy ↔ x = fresh busy ∨ x ∈ busy) := fun busy hnd =>
    ⟨fresh_not_mem _, List.nodup_cons.mpr ⟨fresh_not_mem _, hnd⟩, fun x => List.mem_cons⟩
  have bin : ∀ (busy busy1 busy2 : List Nat) (ra rb : Nat),
      (ra ∉ busy ∧ busy1.Nodup ∧ (∀ x, x ∈ busy1 ↔ x = ra ∨ x ∈ busy)) →
      (rb ∉ busy1 ∧ busy2.Nodup ∧ (∀ x, x ∈ busy2 ↔ x = rb ∨ x ∈ busy1)) →
      ra ∉ busy ∧ (busy2.erase rb).Nodup ∧ (∀ x, x ∈ busy2.erase rb ↔ x = ra ∨ x ∈ busy) := by
    intro busy busy1 busy2 ra rb ⟨a1, a2, a3⟩ ⟨b1, b2, b3⟩
    refine ⟨a1, b2.erase _, fun x => ?_⟩
    rw [b2.mem_erase_iff, b3, a3]
    constructor
    · rintro ⟨hne, h | h⟩
      · exact absurd h hne
      · exact h
    · intro h
      refine ⟨fun e => b1 (e ▸ (a3 x).mpr h), .inr h⟩
  induction e with
  | lit n =>
    intro busy c r busy' hnd h
    simp only [compileE, Option.some.injEq, Prod.mk.injEq] at h
    obtain ⟨_, h2, h3⟩ := h; subst h2; subst h3
    exact leaf busy hnd
  | var x =>
    intro busy c r busy' hnd h
    simp only [compileE] at h
    split at h <;> simp only [Option.some.injEq, Prod.mk.injEq, reduceCtorEq] at h
    all_goals
      obtain ⟨_, h2, h3⟩ := h; subst h2; subst h3
      exact leaf busy hnd
  | ioread i =>
    intro busy c r busy' hnd h
    simp only [compileE, Option.some.injEq, Prod.mk.injEq] at h
    obtain ⟨_, h2, h3⟩ := h; subst h2; subst h3
    exact leaf busy hnd
  | add a b iha ihb =>
    intro busy c r busy' hnd h
    simp only [compileE] at h
    split at h
    · cases h
    · rename_i ca ra busy1 ha
      split at h
      · cases h
      · rename_i cb rb busy2 hb
        simp only [Option.some.injEq, Prod.mk.injEq] at h
        obtain ⟨_, h2, h3⟩ := h; subst h2; subst h3
        have A := iha _ _ _ _ hnd ha
        exact bin _ _ _ _ _ A (ihb _ _ _ _ A.2.1 hb)
  | mul a b iha ihb =>
    intro busy c r busy' hnd h
    simp only [compileE] at h
    split at h
    · cases h
    · rename_i ca ra busy1 ha
      split at h
      · cases h
      · rename_i cb rb busy2 hb
        simp only [Option.some.injEq, Prod.mk.injEq] at h
        obtain ⟨_, h2, h3⟩ := h; subst h2; subst h3
        have A := iha _ _ _ _ hnd ha
        exact bin _ _ _ _ _ A (ihb _ _ _ _ A.2.1 hb)

/-- the code of an expression writes only registers that were free when its compilation started -/
theorem compileE_writes (ls : List Loc) (e : Expr) :
    ∀ (busy : List Nat) (c : List Instr) (r : Nat) (busy' : List Nat), busy.Nodup →
      compileE ls e busy = some (c, r, busy') → ∀ i ∈ c, ∀ x ∈ i.writes, x ∉ busy := by
  induction e with
  | lit n =>
    intro busy c r busy' _ h
    simp only [compileE, Option.some.injEq, Prod.mk.injEq] at h
    obtain ⟨h1, _, _⟩ := h; subst h1
    intro i hi x hx
    simp only [List.mem_singleton] at hi; subst hi
    simp only [Instr.writes, List.mem_singleton] at hx; subst hx
    exact fresh_not_mem _
  | var v =>
    intro busy c r busy' _ h
    simp only [compileE] at h
    split at h <;> simp only [Option.some.injEq, Prod.mk.injEq, reduceCtorEq] at h
    all_goals
      obtain ⟨h1, _, _⟩ := h; subst h1
      intro i hi x hx
      simp only [List.mem_singleton] at hi; subst hi
      simp only [Instr.writes, List.mem_singleton] at hx; subst hx
      exact fresh_not_mem _
  | ioread p =>
    intro busy c r busy' _ h
    simp only [compileE, Option.some.injEq, Prod.mk.injEq] at h
    obtain ⟨h1, _, _⟩ := h; subst h1
    intro i hi x hx
    simp only [List.mem_singleton] at hi; subst hi
    simp only [Instr.writes, List.mem_singleton] at hx; subst hx
    exact fresh_not_mem _
  | add a b iha ihb =>
    intro busy c r busy' hnd h
    simp only [compileE] at h
    split at h
    · cases h
    · rename_i ca ra busy1 ha
      split at h
      · cases h
      · rename_i cb rb busy2 hb
        simp only [Option.some.injEq, Prod.mk.injEq] at h
        obtain ⟨h1, _, _⟩ := h; subst h1
        have A := compileE_alloc ls a _ _ _ _ hnd ha
        intro i hi x hx
        simp only [List.mem_append, List.mem_singleton] at hi
        rcases hi with (hi | hi) | hi
        · exact iha _ _ _ _ hnd ha i hi x hx
        · exact fun hb' => ihb _ _ _ _ A.2.1 hb i hi x hx ((A.2.2 x).mpr (.inr hb'))
        · subst hi
          simp only [Instr.writes, List.mem_singleton] at hx; subst hx
          exact A.1
  | mul a b iha ihb =>
    intro busy c r busy' hnd h
    simp only [compileE] at h
    split at h
    · cases h
    · rename_i ca ra busy1 ha
      split at h
      · cases h
      · rename_i cb rb busy2 hb
        simp only [Option.some.injEq, Prod.mk.injEq] at h
        obtain ⟨h1, _, _⟩ := h; subst h1
        have A := compileE_alloc ls a _ _ _ _ hnd ha
        intro i hi x hx
        simp only [List.mem_append, List.mem_singleton] at hi
        rcases hi with (hi | hi) | hi
        · exact iha _ _ _ _ hnd ha i hi x hx
        · exact fun hb' => ihb _ _ _ _ A.2.1 hb i hi x hx ((A.2.2 x).mpr (.inr hb'))
        · subst hi
          simp only [Instr.writes, List.mem_singleton] at hx; subst hx
          exact A.1

/-! ### correctness of expression code -/

/-- what `compileE_correct` says about one expression -/
def ExprOK (env : Nat → Nat → Nat) (w : Nat) (ls : List Loc) (e : Expr) : Prop :=
  ∀ (busy : List Nat) (c : List Instr) (r : Nat) (busy' : List Nat),
    compileE ls e busy = some (c, r, busy') →
    ∀ (pre post : List Instr) (cfg : Cfg) (s : Src), cfg.pc = pre.length → Agree ls busy cfg s →
      (isaRun env w (pre ++ c ++ post) c.length cfg).pc = pre.length + c.length ∧
      (isaRun env w (pre ++ c ++ post) c.length cfg).regs r = (evalE env w e s).1 ∧
      (isaRun env w (pre ++ c ++ post) c.length cfg).mem = cfg.mem ∧
      (isaRun env w (pre ++ c ++ post) c.length cfg).outs = cfg.outs ∧
      (isaRun env w (pre ++ c ++ post) c.length cfg).rc = (evalE env w e s).2.rc ∧
      (evalE env w e s).2.vars = s.vars ∧ (evalE env w e s).2.outs = s.outs ∧
      (∀ x ∈ busy, (isaRun env w (pre ++ c ++ post) c.length cfg).regs x = cfg.regs x)

theorem upd_same (f : Nat → Nat) (k v : Nat) : upd f k v k = v := by simp [upd]
theorem upd_other (f : Nat → Nat) (k v x : Nat) (h : x ≠ k) : upd f k v x = f x := by simp [upd, h]

theorem leaf_run (env : Nat → Nat → Nat) (w : Nat) (pre post : List Instr) (i : Instr) (cfg : Cfg)
    (hpc : cfg.pc = pre.length) :
    isaRun env w (pre ++ [i] ++ post) [i].length cfg = execInstr env w cfg i := by
  have : pre ++ [i] ++ post = pre ++ i :: post := by simp
  rw [this]
  exact isaRun_one_at env w pre post i cfg hpc

theorem exprOK_lit (env : Nat → Nat → Nat) (w : Nat) (ls : List Loc) (n : Nat) : ExprOK env w ls (.lit n) := by
  intro busy c r busy' h pre post cfg s hpc hag
  simp only [compileE, Option.some.injEq, Prod.mk.injEq] at h
  obtain ⟨h1, h2, _⟩ := h; subst h1; subst h2
  rw [leaf_run env w pre post _ cfg hpc]
  refine ⟨by simp [execInstr, hpc], by simp [execInstr, upd_same, evalE], rfl, rfl, by simp [execInstr, evalE, hag.rc], rfl, rfl, ?_⟩
  intro x hx
  have : x ≠ fresh busy := fun e => fresh_not_mem busy (e ▸ hx)
  simp [execInstr, upd_other _ _ _ _ this]

theorem exprOK_ioread (env : Nat → Nat → Nat) (w : Nat) (ls : List Loc) (i : Nat) : ExprOK env w ls (.ioread i) := by
  intro busy c r busy' h pre post cfg s hpc hag
  simp only [compileE, Option.some.injEq, Prod.mk.injEq] at h
  obtain ⟨h1, h2, _⟩ := h; subst h1; subst h2
  rw [leaf_run env w pre post _ cfg hpc]
  refine ⟨by simp [execInstr, hpc], by simp [execInstr, upd_same, evalE, hag.rc], rfl, rfl, by simp [execInstr, evalE, hag.rc], rfl, rfl, ?_⟩
  intro x hx
  have : x ≠ fresh busy := fun e => fresh_not_mem busy (e ▸ hx)
  simp [execInstr, upd_other _ _ _ _ this]

theorem exprOK_var (env : Nat → Nat → Nat) (w : Nat) (ls : List Loc) (v : Nat) : ExprOK env w ls (.var v) := by
  intro busy c r busy' h pre post cfg s hpc hag
  simp only [compileE] at h
  split at h <;> simp only [Option.some.injEq, Prod.mk.injEq, reduceCtorEq] at h
  · rename_i g hl
    obtain ⟨h1, h2, _⟩ := h; subst h1; subst h2
    rw [leaf_run env w pre post _ cfg hpc]
    refine ⟨by simp [execInstr, hpc], by simp [execInstr, upd_same, evalE, (hag.regv v g hl).1], rfl, rfl, by simp [execInstr, evalE, hag.rc], rfl, rfl, ?_⟩
    intro x hx
    have : x ≠ fresh busy := fun e => fresh_not_mem busy (e ▸ hx)
    simp [execInstr, upd_other _ _ _ _ this]
  · rename_i m hl
    obtain ⟨h1, h2, _⟩ := h; subst h1; subst h2
    rw [leaf_run env w pre post _ cfg hpc]
    refine ⟨by simp [execInstr, hpc], by simp [execInstr, upd_same, evalE, hag.memv v m hl], rfl, rfl, by simp [execInstr, evalE, hag.rc], rfl, rfl, ?_⟩
    intro x hx
    have : x ≠ fresh busy := fun e => fresh_not_mem busy (e ▸ hx)
    simp [execInstr, upd_other _ _ _ _ this]


/-- binary operators: `ca ++ cb ++ [op ra rb]` -/
theorem bin_run (env : Nat → Nat → Nat) (w : Nat) (ls : List Loc) (a b : Expr)
    (f : Nat → Nat → Nat) (op : Nat → Nat → Instr)
    (hop : ∀ (c : Cfg) (d s : Nat), execInstr env w c (op d s) =
      { c with pc := c.pc + 1, regs := upd c.regs d (f (c.regs d) (c.regs s) % 2 ^ w) })
    (iha : ExprOK env w ls a) (ihb : ExprOK env w ls b)
    (busy busy1 busy2 : List Nat) (ca cb : List Instr) (ra rb : Nat)
    (ha : compileE ls a busy = some (ca, ra, busy1)) (hb : compileE ls b busy1 = some (cb, rb, busy2))
    (pre post : List Instr) (cfg : Cfg) (s : Src) (hpc : cfg.pc = pre.length) (hag : Agree ls busy cfg s) :
    let c := ca ++ cb ++ [op ra rb]
    let s1 := (evalE env w a s).2
    let va := (evalE env w a s).1
    let vb := (evalE env w b s1).1
    let s2 := (evalE env w b s1).2
    let cfg' := isaRun env w (pre ++ c ++ post) c.length cfg
    cfg'.pc = pre.length + c.length ∧ cfg'.regs ra = f va vb % 2 ^ w ∧ cfg'.mem = cfg.mem ∧
    cfg'.outs = cfg.outs ∧ cfg'.rc = s2.rc ∧ s2.vars = s.vars ∧ s2.outs = s.outs ∧
    (∀ x ∈ busy, cfg'.regs x = cfg.regs x) := by
  intro c s1 va vb s2 cfg'
  have hP1 : pre ++ c ++ post = pre ++ ca ++ (cb ++ [op ra rb] ++ post) := by
    simp [c, List.append_assoc]
  have hP2 : pre ++ c ++ post = (pre ++ ca) ++ cb ++ ([op ra rb] ++ post) := by
    simp [c, List.append_assoc]
  have hP3 : pre ++ c ++ post = (pre ++ ca ++ cb) ++ op ra rb :: post := by
    simp [c, List.append_assoc]
  have hlen : c.length = ca.length + cb.length + 1 := by simp [c]; omega
  obtain ⟨ma1, ma2, ma3⟩ := compileE_mono ls a _ _ _ _ ha
  obtain ⟨mb1, mb2, mb3⟩ := compileE_mono ls b _ _ _ _ hb
  -- run a
  obtain ⟨a1, a2, a3, a4, a5, a6, a7, a8⟩ := iha busy ca ra busy1 ha pre (cb ++ [op ra rb] ++ post) cfg s hpc hag
  rw [← hP1] at a1 a2 a3 a4 a5 a8
  -- agreement after a
  have hag1 : Agree ls busy1 (isaRun env w (pre ++ c ++ post) ca.length cfg) s1 := by
    refine ⟨fun x g hl => ?_, fun x m hl => ?_, a5⟩
    · obtain ⟨h1, h2⟩ := hag.regv x g hl
      exact ⟨by rw [a8 g h2, h1, a6], ma3 g h2⟩
    · rw [a3, hag.memv x m hl, a6]
  -- run b
  have hpc1 : (isaRun env w (pre ++ c ++ post) ca.length cfg).pc = (pre ++ ca).length := by
    rw [a1]; simp
  obtain ⟨b1, b2, b3, b4, b5, b6, b7, b8⟩ :=
    ihb busy1 cb rb busy2 hb (pre ++ ca) ([op ra rb] ++ post) _ s1 hpc1 hag1
  rw [← hP2, ← isaRun_add] at b1 b2 b3 b4 b5 b8
  -- the operator
  have hpc2 : (isaRun env w (pre ++ c ++ post) (ca.length + cb.length) cfg).pc = (pre ++ ca ++ cb).length := by
    rw [b1]; simp [Nat.add_assoc]
  have hfin : cfg' = execInstr env w (isaRun env w (pre ++ c ++ post) (ca.length + cb.length) cfg) (op ra rb) := by
    show isaRun env w (pre ++ c ++ post) c.length cfg = _
    rw [hlen, isaRun_add]
    conv => lhs; rw [hP3]
    rw [isaRun_one_at env w (pre ++ ca ++ cb) post (op ra rb) _ (by rw [← hP3]; exact hpc2)]
    rw [← hP3]
  have hne : ra ≠ rb := fun e => mb1 (e ▸ ma2)
  rw [hfin, hop]
  refine ⟨?_, ?_, ?_, ?_, ?_, ?_, ?_, ?_⟩
  · simp only [b1, hlen]; simp; omega
  · simp only [upd_same]
    rw [b2, b8 ra ma2, a2]
  · simp only; rw [b3, a3]
  · simp only; rw [b4, a4]
  · simp only; exact b5
  · rw [b6, a6]
  · rw [b7, a7]
  · intro x hx
    have hx1 : x ≠ ra := fun e => ma1 (e ▸ hx)
    simp only [upd_other _ _ _ _ hx1]
    rw [b8 x (ma3 x hx), a8 x hx]

theorem exprOK_all (env : Nat → Nat → Nat) (w : Nat) (ls : List Loc) (e : Expr) : ExprOK env w ls e := by
  induction e with
  | lit n => exact exprOK_lit env w ls n
  | var v => exact exprOK_var env w ls v
  | ioread i => exact exprOK_ioread env w ls i
  | add a b iha ihb =>
    intro busy c r busy' h pre post cfg s hpc hag
    simp only [compileE] at h
    split at h
    · cases h
    · rename_i ca ra busy1 ha
      split at h
      · cases h
      · rename_i cb rb busy2 hb
        simp only [Option.some.injEq, Prod.mk.injEq] at h
        obtain ⟨h1, h2, _⟩ := h; subst h1; subst h2
        have := bin_run env w ls a b (· + ·) Instr.add (fun c d s => by simp [execInstr]) iha ihb
          busy busy1 busy2 ca cb ra rb ha hb pre post cfg s hpc hag
        simpa [evalE] using this
  | mul a b iha ihb =>
    intro busy c r busy' h pre post cfg s hpc hag
    simp only [compileE] at h
    split at h
    · cases h
    · rename_i ca ra busy1 ha
      split at h
      · cases h
      · rename_i cb rb busy2 hb
        simp only [Option.some.injEq, Prod.mk.injEq] at h
        obtain ⟨h1, h2, _⟩ := h; subst h1; subst h2
        have := bin_run env w ls a b (· * ·) Instr.mult (fun c d s => by simp [execInstr]) iha ihb
          busy busy1 busy2 ca cb ra rb ha hb pre post cfg s hpc hag
        simpa [evalE] using this


/-! ### correctness of straight-line statement code -/

/-- distinct variables live in distinct places -/
def LocsInj (ls : List Loc) : Prop := ∀ (x y : Nat) (l : Loc), ls[x]? = some l → ls[y]? = some l → x = y

/-- straight-line statements: no `if`, no `for` -/
def straight : Stmt → Bool
  | .skip => true
  | .seq a b => straight a && straight b
  | .assign _ _ | .inc _ | .dec _ | .iowrite _ _ => true
  | _ => false

/-- run the code of an expression followed by one more instruction -/
theorem expr_then_instr (env : Nat → Nat → Nat) (w : Nat) (ls : List Loc) (e : Expr)
    (busy : List Nat) (ce : List Instr) (r : Nat) (busy1 : List Nat)
    (he : compileE ls e busy = some (ce, r, busy1)) (i : Instr)
    (pre post : List Instr) (cfg : Cfg) (s : Src) (hpc : cfg.pc = pre.length) (hag : Agree ls busy cfg s) :
    ∃ mid : Cfg,
      isaRun env w (pre ++ (ce ++ [i]) ++ post) (ce ++ [i]).length cfg = execInstr env w mid i ∧
      mid.pc = pre.length + ce.length ∧ mid.regs r = (evalE env w e s).1 ∧ mid.mem = cfg.mem ∧
      mid.outs = cfg.outs ∧ mid.rc = (evalE env w e s).2.rc ∧ (evalE env w e s).2.vars = s.vars ∧
      (evalE env w e s).2.outs = s.outs ∧ (∀ x ∈ busy, mid.regs x = cfg.regs x) := by
  have hP1 : pre ++ (ce ++ [i]) ++ post = pre ++ ce ++ ([i] ++ post) := by simp [List.append_assoc]
  have hP2 : pre ++ (ce ++ [i]) ++ post = (pre ++ ce) ++ i :: post := by simp [List.append_assoc]
  obtain ⟨a1, a2, a3, a4, a5, a6, a7, a8⟩ := exprOK_all env w ls e busy ce r busy1 he pre ([i] ++ post) cfg s hpc hag
  rw [← hP1] at a1 a2 a3 a4 a5 a8
  refine ⟨isaRun env w (pre ++ (ce ++ [i]) ++ post) ce.length cfg, ?_, a1, a2, a3, a4, a5, a6, a7, a8⟩
  have hl : (ce ++ [i]).length = ce.length + 1 := by simp
  rw [hl, isaRun_add]
  conv => lhs; rw [hP2]
  rw [isaRun_one_at env w (pre ++ ce) post i _ (by rw [← hP2, a1]; simp)]
  rw [← hP2]

theorem run3 (env : Nat → Nat → Nat) (w : Nat) (pre post : List Instr) (i1 i2 i3 : Instr) (cfg : Cfg)
    (hpc : cfg.pc = pre.length)
    (h1 : (execInstr env w cfg i1).pc = cfg.pc + 1)
    (h2 : (execInstr env w (execInstr env w cfg i1) i2).pc = cfg.pc + 2) :
    isaRun env w (pre ++ [i1, i2, i3] ++ post) [i1, i2, i3].length cfg =
      execInstr env w (execInstr env w (execInstr env w cfg i1) i2) i3 := by
  have hP1 : pre ++ [i1, i2, i3] ++ post = pre ++ i1 :: ([i2, i3] ++ post) := by simp
  have hP2 : pre ++ [i1, i2, i3] ++ post = (pre ++ [i1]) ++ i2 :: ([i3] ++ post) := by simp
  have hP3 : pre ++ [i1, i2, i3] ++ post = (pre ++ [i1, i2]) ++ i3 :: post := by simp
  show isaRun env w _ (1 + 1 + 1) cfg = _
  rw [isaRun_add, isaRun_add]
  conv => lhs; arg 5; arg 5; rw [hP1, isaRun_one_at env w pre _ i1 cfg hpc]
  conv => lhs; arg 5; rw [hP2, isaRun_one_at env w (pre ++ [i1]) _ i2 _ (by rw [h1, hpc]; simp)]
  rw [hP3, isaRun_one_at env w (pre ++ [i1, i2]) _ i3 _ (by rw [h2, hpc]; simp)]

/-- `x++` / `x--` : `iop` is `inc` or `dec`, `f` its effect on a value -/
theorem incdec_ok (env : Nat → Nat → Nat) (w : Nat) (ls : List Loc) (hinj : LocsInj ls)
    (iop : Nat → Instr) (f : Nat → Nat)
    (hop : ∀ (c : Cfg) (r : Nat), execInstr env w c (iop r) = { c with pc := c.pc + 1, regs := upd c.regs r (f (c.regs r)) })
    (x : Nat) (busy : List Nat) (c : List Instr) (busy' : List Nat)
    (h : (match ls[x]? with
      | some (.reg g) => some ([iop g], busy)
      | some (.mem m) => some ([.m2r (fresh busy) m, iop (fresh busy), .r2m (fresh busy) m], busy)
      | none => none) = some (c, busy'))
    (pre post : List Instr) (cfg : Cfg) (s : Src) (hpc : cfg.pc = pre.length) (hag : Agree ls busy cfg s)
    (ho : cfg.outs = s.outs) :
    (isaRun env w (pre ++ c ++ post) c.length cfg).pc = pre.length + c.length ∧
    Agree ls busy' (isaRun env w (pre ++ c ++ post) c.length cfg) { s with vars := upd s.vars x (f (s.vars x)) } ∧
    (isaRun env w (pre ++ c ++ post) c.length cfg).outs = s.outs := by
  split at h
  · rename_i g hl
    simp only [Option.some.injEq, Prod.mk.injEq] at h
    obtain ⟨e1, e2⟩ := h; subst e1; subst e2
    rw [leaf_run env w pre post _ cfg hpc, hop]
    refine ⟨by simp [hpc], ⟨fun y g' hy => ?_, fun y m hy => ?_, hag.rc⟩, ho⟩
    · obtain ⟨z1, z2⟩ := hag.regv y g' hy
      refine ⟨?_, z2⟩
      by_cases hyx : y = x
      · subst hyx
        rw [hl] at hy; cases hy
        simp [upd_same, z1]
      · have : g' ≠ g := fun e' => hyx (hinj y x _ hy (e' ▸ hl))
        simp [upd_other _ _ _ _ this, upd_other _ _ _ _ hyx, z1]
    · have hyx : y ≠ x := fun e' => by subst e'; rw [hl] at hy; cases hy
      simp [upd_other _ _ _ _ hyx, hag.memv y m hy]
  · rename_i mx hl
    simp only [Option.some.injEq, Prod.mk.injEq] at h
    obtain ⟨e1, e2⟩ := h; subst e1; subst e2
    rw [run3 env w pre post _ _ _ cfg hpc (by simp [execInstr]) (by rw [hop]; simp [execInstr])]
    simp only [hop]
    refine ⟨by simp [execInstr, hpc], ⟨fun y g' hy => ?_, fun y m hy => ?_, by simp [execInstr, hag.rc]⟩, by simp [execInstr, ho]⟩
    · obtain ⟨z1, z2⟩ := hag.regv y g' hy
      have hg' : g' ≠ fresh busy := fun e' => fresh_not_mem busy (e' ▸ z2)
      have hyx : y ≠ x := fun e' => by subst e'; rw [hl] at hy; cases hy
      exact ⟨by simp [execInstr, upd_other _ _ _ _ hg', upd_other _ _ _ _ hyx, z1], z2⟩
    · by_cases hyx : y = x
      · subst hyx
        rw [hl] at hy; cases hy
        simp [execInstr, upd_same, hag.memv _ _ hl]
      · have : m ≠ mx := fun e' => hyx (hinj y x _ hy (e' ▸ hl))
        simp [execInstr, upd_other _ _ _ _ this, upd_other _ _ _ _ hyx, hag.memv y m hy]
  · cases h

theorem straight_correct (env : Nat → Nat → Nat) (w fuel : Nat) (ls : List Loc) (hinj : LocsInj ls)
    (st : Stmt) (hs : straight st = true) :
    ∀ (base : Nat) (busy : List Nat) (c : List Instr) (busy' : List Nat),
      compileS ls st base busy = some (c, busy') →
      ∀ (pre post : List Instr) (cfg : Cfg) (s : Src), cfg.pc = pre.length → Agree ls busy cfg s →
        cfg.outs = s.outs →
        (exec env w fuel st s).2 = true ∧
        (isaRun env w (pre ++ c ++ post) c.length cfg).pc = pre.length + c.length ∧
        Agree ls busy' (isaRun env w (pre ++ c ++ post) c.length cfg) (exec env w fuel st s).1 ∧
        (isaRun env w (pre ++ c ++ post) c.length cfg).outs = (exec env w fuel st s).1.outs := by
  induction st with
  | skip =>
    intro base busy c busy' h pre post cfg s hpc hag ho
    simp only [compileS, Option.some.injEq, Prod.mk.injEq] at h
    obtain ⟨h1, h2⟩ := h; subst h1; subst h2
    simp only [exec, List.length_nil, isaRun]
    exact ⟨trivial, by simp [hpc], hag, ho⟩
  | seq a b iha ihb =>
    intro base busy c busy' h pre post cfg s hpc hag ho
    simp only [straight, Bool.and_eq_true] at hs
    simp only [compileS] at h
    split at h
    · cases h
    · rename_i c1 busy1 h1
      split at h
      · cases h
      · rename_i c2 busy2 h2
        simp only [Option.some.injEq, Prod.mk.injEq] at h
        obtain ⟨e1, e2⟩ := h; subst e1; subst e2
        have hP1 : pre ++ (c1 ++ c2) ++ post = pre ++ c1 ++ (c2 ++ post) := by simp [List.append_assoc]
        have hP2 : pre ++ (c1 ++ c2) ++ post = (pre ++ c1) ++ c2 ++ post := by simp [List.append_assoc]
        obtain ⟨x1, x2, x3, x4⟩ := iha hs.1 base busy c1 busy1 h1 pre (c2 ++ post) cfg s hpc hag ho
        rw [← hP1] at x2 x3 x4
        obtain ⟨y1, y2, y3, y4⟩ := ihb hs.2 _ busy1 c2 busy2 h2 (pre ++ c1) post _ _ (by rw [x2]; simp) x3 x4
        rw [← hP2, ← isaRun_add] at y2 y3 y4
        have hl : (c1 ++ c2).length = c1.length + c2.length := by simp
        have hex : exec env w fuel (.seq a b) s = exec env w fuel b (exec env w fuel a s).1 := by
          simp only [exec]
          generalize hr : exec env w fuel a s = r at x1
          obtain ⟨r1, r2⟩ := r
          simp only at x1; subst x1
          rfl
        rw [hex, hl]
        exact ⟨y1, by rw [y2]; simp [Nat.add_assoc], y3, y4⟩
  | assign x e =>
    intro base busy c busy' h pre post cfg s hpc hag ho
    simp only [compileS] at h
    split at h
    · -- register variable
      rename_i g ce r busy1 hl he
      simp only [Option.some.injEq, Prod.mk.injEq] at h
      obtain ⟨e1, e2⟩ := h; subst e1; subst e2
      obtain ⟨mid, m0, m1, m2, m3, m4, m5, m6, m7, m8⟩ :=
        expr_then_instr env w ls e busy ce r busy1 he (.cpy g r) pre post cfg s hpc hag
      obtain ⟨q1, q2, q3⟩ := compileE_mono ls e _ _ _ _ he
      rw [m0]
      simp only [exec]
      refine ⟨trivial, by simp [execInstr, m1]; omega, ⟨fun y g' hy => ?_, fun y m hy => ?_, by simp [execInstr, m5]⟩, by simp [execInstr, m4, ho, m7]⟩
      · obtain ⟨z1, z2⟩ := hag.regv y g' hy
        have hg' : g' ≠ r := fun e' => q1 (e' ▸ z2)
        refine ⟨?_, (List.mem_erase_of_ne hg').mpr (q3 _ z2)⟩
        by_cases hyx : y = x
        · subst hyx
          rw [hl] at hy; cases hy
          simp [execInstr, upd_same, m2]
        · have : g' ≠ g := fun e' => hyx (hinj y x _ hy (e' ▸ hl))
          simp [execInstr, upd_other _ _ _ _ this, upd_other _ _ _ _ hyx, m8 g' z2, z1, m6]
      · have hyx : y ≠ x := fun e' => by subst e'; rw [hl] at hy; cases hy
        simp [execInstr, upd_other _ _ _ _ hyx, m3, hag.memv y m hy, m6]
    · -- memory variable
      rename_i mx ce r busy1 hl he
      simp only [Option.some.injEq, Prod.mk.injEq] at h
      obtain ⟨e1, e2⟩ := h; subst e1; subst e2
      obtain ⟨mid, m0, m1, m2, m3, m4, m5, m6, m7, m8⟩ :=
        expr_then_instr env w ls e busy ce r busy1 he (.r2m r mx) pre post cfg s hpc hag
      obtain ⟨q1, q2, q3⟩ := compileE_mono ls e _ _ _ _ he
      rw [m0]
      simp only [exec]
      refine ⟨trivial, by simp [execInstr, m1]; omega, ⟨fun y g' hy => ?_, fun y m hy => ?_, by simp [execInstr, m5]⟩, by simp [execInstr, m4, ho, m7]⟩
      · obtain ⟨z1, z2⟩ := hag.regv y g' hy
        have hg' : g' ≠ r := fun e' => q1 (e' ▸ z2)
        have hyx : y ≠ x := fun e' => by subst e'; rw [hl] at hy; cases hy
        exact ⟨by simp [execInstr, upd_other _ _ _ _ hyx, m8 g' z2, z1, m6], (List.mem_erase_of_ne hg').mpr (q3 _ z2)⟩
      · by_cases hyx : y = x
        · subst hyx
          rw [hl] at hy; cases hy
          simp [execInstr, upd_same, m2]
        · have : m ≠ mx := fun e' => hyx (hinj y x _ hy (e' ▸ hl))
          simp [execInstr, upd_other _ _ _ _ this, upd_other _ _ _ _ hyx, m3, hag.memv y m hy, m6]
    · cases h
  | iowrite o e =>
    intro base busy c busy' h pre post cfg s hpc hag ho
    simp only [compileS] at h
    split at h
    · rename_i ce r busy1 he
      simp only [Option.some.injEq, Prod.mk.injEq] at h
      obtain ⟨e1, e2⟩ := h; subst e1; subst e2
      obtain ⟨mid, m0, m1, m2, m3, m4, m5, m6, m7, m8⟩ :=
        expr_then_instr env w ls e busy ce r busy1 he (.r2o r o) pre post cfg s hpc hag
      obtain ⟨q1, q2, q3⟩ := compileE_mono ls e _ _ _ _ he
      rw [m0]
      simp only [exec]
      refine ⟨trivial, by simp [execInstr, m1]; omega, ⟨fun y g' hy => ?_, fun y m hy => ?_, by simp [execInstr, m5]⟩, by simp [execInstr, m4, ho, m7, m2]⟩
      · obtain ⟨z1, z2⟩ := hag.regv y g' hy
        exact ⟨by simp [execInstr, m8 g' z2, z1, m6], q3 _ z2⟩
      · simp [execInstr, m3, hag.memv y m hy, m6]
    · cases h
  | inc x =>
    intro base busy c busy' h pre post cfg s hpc hag ho
    simp only [compileS] at h
    have := incdec_ok env w ls hinj Instr.inc (fun v => (v + 1) % 2 ^ w) (fun c r => by simp [execInstr])
      x busy c busy' h pre post cfg s hpc hag ho
    simp only [exec]
    exact ⟨trivial, this.1, this.2.1, this.2.2⟩
  | dec x =>
    intro base busy c busy' h pre post cfg s hpc hag ho
    simp only [compileS] at h
    have := incdec_ok env w ls hinj Instr.dec (fun v => (v + (2 ^ w - 1)) % 2 ^ w) (fun c r => by simp [execInstr])
      x busy c busy' h pre post cfg s hpc hag ho
    simp only [exec]
    exact ⟨trivial, this.1, this.2.1, this.2.2⟩
  | ifThen _ _ _ => simp [straight] at hs
  | ifElse _ _ _ _ _ => simp [straight] at hs
  | loop _ _ _ => simp [straight] at hs
  | decl _ => simp [straight] at hs
  | brk => simp [straight] at hs
  | cont => simp [straight] at hs
  | loopP _ _ _ _ _ => simp [straight] at hs
  | tassign _ => simp [straight] at hs
  | define _ => simp [straight] at hs
  | switch _ _ _ => simp [straight] at hs
  | swCase _ _ _ _ _ => simp [straight] at hs
  | swDefault _ _ => simp [straight] at hs


/-! ### declarations and whole straight-line programs -/

/-- the reset state: everything zero -/
structure ZeroState (cfg : Cfg) : Prop where
  regs : cfg.regs = fun _ => 0
  mem : cfg.mem = fun _ => 0
  rc : cfg.rc = 0
  outs : cfg.outs = []

theorem upd_zero (k : Nat) : upd (fun _ => 0) k 0 = fun _ => 0 := by
  funext i; simp [upd]

theorem preamble_run (env : Nat → Nat → Nat) (w : Nat) (ds : List Bool) :
    ∀ (busy : List Nat) (m : Nat) (pre post : List Instr) (cfg : Cfg), cfg.pc = pre.length → ZeroState cfg →
      (isaRun env w (pre ++ preambleFrom ds busy m ++ post) (preambleFrom ds busy m).length cfg).pc
          = pre.length + (preambleFrom ds busy m).length ∧
      ZeroState (isaRun env w (pre ++ preambleFrom ds busy m ++ post) (preambleFrom ds busy m).length cfg) := by
  induction ds with
  | nil =>
    intro busy m pre post cfg hpc hz
    simp [preambleFrom, isaRun, hpc, hz]
  | cons d ds ih =>
    intro busy m pre post cfg hpc hz
    cases d with
    | true =>
      simp only [preambleFrom]
      have hP : pre ++ (Instr.clr (fresh busy) :: preambleFrom ds (fresh busy :: busy) m) ++ post
          = pre ++ Instr.clr (fresh busy) :: (preambleFrom ds (fresh busy :: busy) m ++ post) := by simp
      have hP2 : pre ++ (Instr.clr (fresh busy) :: preambleFrom ds (fresh busy :: busy) m) ++ post
          = (pre ++ [Instr.clr (fresh busy)]) ++ preambleFrom ds (fresh busy :: busy) m ++ post := by simp
      have hl : (Instr.clr (fresh busy) :: preambleFrom ds (fresh busy :: busy) m).length
          = 1 + (preambleFrom ds (fresh busy :: busy) m).length := by simp; omega
      rw [hl, isaRun_add]
      have e1 : isaRun env w (pre ++ (Instr.clr (fresh busy) :: preambleFrom ds (fresh busy :: busy) m) ++ post) 1 cfg
          = execInstr env w cfg (Instr.clr (fresh busy)) := by
        rw [hP]; exact isaRun_one_at env w pre _ _ cfg hpc
      rw [e1]
      have hz1 : ZeroState (execInstr env w cfg (Instr.clr (fresh busy))) :=
        ⟨by simp [execInstr, hz.regs, upd_zero], by simp [execInstr, hz.mem], by simp [execInstr, hz.rc], by simp [execInstr, hz.outs]⟩
      have := ih (fresh busy :: busy) m (pre ++ [Instr.clr (fresh busy)]) post _ (by simp [execInstr, hpc]) hz1
      rw [← hP2] at this
      refine ⟨by rw [this.1]; simp; omega, this.2⟩
    | false =>
      simp only [preambleFrom]
      have hP : pre ++ (Instr.clr (fresh busy) :: Instr.r2m (fresh busy) m :: preambleFrom ds busy (m + 1)) ++ post
          = pre ++ Instr.clr (fresh busy) :: (Instr.r2m (fresh busy) m :: preambleFrom ds busy (m + 1) ++ post) := by simp
      have hP1 : pre ++ (Instr.clr (fresh busy) :: Instr.r2m (fresh busy) m :: preambleFrom ds busy (m + 1)) ++ post
          = (pre ++ [Instr.clr (fresh busy)]) ++ Instr.r2m (fresh busy) m :: (preambleFrom ds busy (m + 1) ++ post) := by simp
      have hP2 : pre ++ (Instr.clr (fresh busy) :: Instr.r2m (fresh busy) m :: preambleFrom ds busy (m + 1)) ++ post
          = (pre ++ [Instr.clr (fresh busy), Instr.r2m (fresh busy) m]) ++ preambleFrom ds busy (m + 1) ++ post := by simp
      have hl : (Instr.clr (fresh busy) :: Instr.r2m (fresh busy) m :: preambleFrom ds busy (m + 1)).length
          = 1 + (1 + (preambleFrom ds busy (m + 1)).length) := by simp; omega
      rw [hl, isaRun_add, isaRun_add]
      have e1 : isaRun env w (pre ++ (Instr.clr (fresh busy) :: Instr.r2m (fresh busy) m :: preambleFrom ds busy (m + 1)) ++ post) 1 cfg
          = execInstr env w cfg (Instr.clr (fresh busy)) := by
        rw [hP]; exact isaRun_one_at env w pre _ _ cfg hpc
      rw [e1]
      have e2 : isaRun env w (pre ++ (Instr.clr (fresh busy) :: Instr.r2m (fresh busy) m :: preambleFrom ds busy (m + 1)) ++ post) 1
            (execInstr env w cfg (Instr.clr (fresh busy)))
          = execInstr env w (execInstr env w cfg (Instr.clr (fresh busy))) (Instr.r2m (fresh busy) m) := by
        rw [hP1]; exact isaRun_one_at env w _ _ _ _ (by simp [execInstr, hpc])
      rw [e2]
      have hz2 : ZeroState (execInstr env w (execInstr env w cfg (Instr.clr (fresh busy))) (Instr.r2m (fresh busy) m)) :=
        ⟨by simp [execInstr, hz.regs, upd_zero], by simp [execInstr, hz.mem, hz.regs, upd_zero],
         by simp [execInstr, hz.rc], by simp [execInstr, hz.outs]⟩
      have := ih busy (m + 1) (pre ++ [Instr.clr (fresh busy), Instr.r2m (fresh busy) m]) post _ (by simp [execInstr, hpc]) hz2
      rw [← hP2] at this
      refine ⟨by rw [this.1]; simp; omega, this.2⟩


theorem locsFrom_spec (ds : List Bool) :
    ∀ (busy : List Nat) (m : Nat),
      (∀ (x g : Nat), (locsFrom ds busy m)[x]? = some (.reg g) → g ∉ busy) ∧
      (∀ (x k : Nat), (locsFrom ds busy m)[x]? = some (.mem k) → m ≤ k) ∧
      LocsInj (locsFrom ds busy m) := by
  induction ds with
  | nil =>
    intro busy m
    refine ⟨fun x g h => by simp [locsFrom] at h, fun x k h => by simp [locsFrom] at h,
            fun x y l h => by simp [locsFrom] at h⟩
  | cons d ds ih =>
    intro busy m
    cases d with
    | true =>
      obtain ⟨i1, i2, i3⟩ := ih (fresh busy :: busy) m
      simp only [locsFrom]
      refine ⟨fun x g h => ?_, fun x k h => ?_, fun x y l hx hy => ?_⟩
      · cases x with
        | zero =>
          simp only [List.getElem?_cons_zero, Option.some.injEq, Loc.reg.injEq] at h
          subst h; exact fresh_not_mem _
        | succ x =>
          simp only [List.getElem?_cons_succ] at h
          exact fun hb => i1 x g h (List.mem_cons_of_mem _ hb)
      · cases x with
        | zero => simp at h
        | succ x => simp only [List.getElem?_cons_succ] at h; exact i2 x k h
      · cases x with
        | zero =>
          cases y with
          | zero => rfl
          | succ y =>
            simp only [List.getElem?_cons_zero, Option.some.injEq] at hx
            simp only [List.getElem?_cons_succ] at hy
            subst hx
            exact absurd List.mem_cons_self (i1 y _ hy)
        | succ x =>
          cases y with
          | zero =>
            simp only [List.getElem?_cons_zero, Option.some.injEq] at hy
            simp only [List.getElem?_cons_succ] at hx
            subst hy
            exact absurd List.mem_cons_self (i1 x _ hx)
          | succ y =>
            simp only [List.getElem?_cons_succ] at hx hy
            rw [i3 x y l hx hy]
    | false =>
      obtain ⟨i1, i2, i3⟩ := ih busy (m + 1)
      simp only [locsFrom]
      refine ⟨fun x g h => ?_, fun x k h => ?_, fun x y l hx hy => ?_⟩
      · cases x with
        | zero => simp at h
        | succ x => simp only [List.getElem?_cons_succ] at h; exact i1 x g h
      · cases x with
        | zero =>
          simp only [List.getElem?_cons_zero, Option.some.injEq, Loc.mem.injEq] at h
          omega
        | succ x =>
          simp only [List.getElem?_cons_succ] at h
          have := i2 x k h; omega
      · cases x with
        | zero =>
          cases y with
          | zero => rfl
          | succ y =>
            simp only [List.getElem?_cons_zero, Option.some.injEq] at hx
            simp only [List.getElem?_cons_succ] at hy
            subst hx
            have := i2 y _ hy; omega
        | succ x =>
          cases y with
          | zero =>
            simp only [List.getElem?_cons_zero, Option.some.injEq] at hy
            simp only [List.getElem?_cons_succ] at hx
            subst hy
            have := i2 x _ hx; omega
          | succ y =>
            simp only [List.getElem?_cons_succ] at hx hy
            rw [i3 x y l hx hy]

/-- a straight-line body declares no block-local variable -/
theorem blockLocs_straight (st : Stmt) (hs : straight st = true) :
    ∀ mems, blockLocs st mems = ([], mems, []) := by
  induction st with
  | seq a b iha ihb =>
    intro mems
    simp only [straight, Bool.and_eq_true] at hs
    simp [blockLocs, iha hs.1, ihb hs.2]
  | skip => intro mems; rfl
  | assign _ _ => intro mems; rfl
  | inc _ => intro mems; rfl
  | dec _ => intro mems; rfl
  | iowrite _ _ => intro mems; rfl
  | ifThen _ _ _ => simp [straight] at hs
  | ifElse _ _ _ _ _ => simp [straight] at hs
  | loop _ _ _ => simp [straight] at hs
  | decl _ => simp [straight] at hs
  | brk => simp [straight] at hs
  | cont => simp [straight] at hs
  | loopP _ _ _ _ _ => simp [straight] at hs
  | tassign _ => simp [straight] at hs
  | define _ => simp [straight] at hs
  | switch _ _ _ => simp [straight] at hs
  | swCase _ _ _ _ _ => simp [straight] at hs
  | swDefault _ _ => simp [straight] at hs

theorem allLocs_straight (p : Prog) (hs : straight p.body = true) : allLocs p = locs p.decls := by
  simp [allLocs, blockLocs_straight p.body hs]

theorem locs_inj (decls : List Bool) : LocsInj (locs decls) := (locsFrom_spec decls [] 0).2.2

theorem mem_varRegs {ls : List Loc} {x g : Nat} (h : ls[x]? = some (.reg g)) : g ∈ varRegs ls := by
  unfold varRegs
  refine List.mem_filterMap.mpr ⟨.reg g, List.mem_of_getElem? h, rfl⟩

/-- whole straight-line programs: the compiled program, run for exactly its own length, has left
    the program and has written exactly the outputs of `goEval` -/
theorem compile_straight (env : Nat → Nat → Nat) (w fuel : Nat) (p : Prog) (code : List Instr)
    (hc : compile p = some code) (hs : straight p.body = true) :
    runCode env w code code.length = ((goEval env w fuel p).1, true) ∧ (goEval env w fuel p).2 = true := by
  unfold compile at hc
  rw [allLocs_straight p hs] at hc
  simp only at hc
  split at hc
  · rename_i c busy' hcs
    simp only [Option.some.injEq] at hc
    subst hc
    have hz0 : ZeroState ({} : Cfg) := ⟨rfl, rfl, rfl, rfl⟩
    have hpre := preamble_run env w p.decls [] 0 [] c {} rfl hz0
    simp only [List.nil_append, List.length_nil, Nat.zero_add] at hpre
    obtain ⟨hp1, hp2⟩ := hpre
    have hag : Agree (locs p.decls) (varRegs (locs p.decls))
        (isaRun env w (preamble p.decls ++ c) (preamble p.decls).length {}) {} := by
      refine ⟨fun x g hl => ⟨?_, mem_varRegs hl⟩, fun x m hl => ?_, ?_⟩
      · show (isaRun env w (preambleFrom p.decls [] 0 ++ c) (preambleFrom p.decls [] 0).length {}).regs g = 0
        rw [hp2.regs]
      · show (isaRun env w (preambleFrom p.decls [] 0 ++ c) (preambleFrom p.decls [] 0).length {}).mem m = 0
        rw [hp2.mem]
      · exact hp2.rc
    have hst := straight_correct env w fuel (locs p.decls) (locs_inj p.decls) p.body hs
      (preamble p.decls).length (varRegs (locs p.decls)) c busy' hcs (preamble p.decls) []
      (isaRun env w (preamble p.decls ++ c) (preamble p.decls).length {}) {}
      hp1 hag hp2.outs
    simp only [List.append_nil] at hst
    obtain ⟨s1, s2, s3, s4⟩ := hst
    rw [← isaRun_add] at s2 s4
    have hlen : (preamble p.decls ++ c).length = (preamble p.decls).length + c.length := by simp
    refine ⟨?_, s1⟩
    simp only [runCode, goEval, hlen, s4, s2, Nat.le_refl, decide_true]
  · cases hc



/-! ### structured programs: definitions -/

def exprVars : Expr → List Nat
  | .lit _ => []
  | .var x => [x]
  | .ioread _ => []
  | .add a b => exprVars a ++ exprVars b
  | .mul a b => exprVars a ++ exprVars b

def condVars : Cond → List Nat
  | .eq a b => exprVars a ++ exprVars b

/-- variables declared directly in a statement sequence (not those of nested blocks) -/
def topDecls : Stmt → List Nat
  | .seq a b => topDecls a ++ topDecls b
  | .decl x => [x]
  | .define ps => ps.map (·.1)
  | _ => []

/-- the variables a `:=` declares: new, in memory, each cell different from the cells of the variables
    in scope (the earlier ones of the same `:=` included) -/
def newCellsOK (ls : List Loc) : List Nat → List Nat → Bool
  | _, [] => true
  | live, x :: xs =>
    !live.contains x &&
    (match ls[x]? with
     | some (.mem m) => live.all (fun y => ls[y]? != some (.mem m))
     | _ => false) &&
    newCellsOK ls (live ++ [x]) xs

/-- Scoping and placement check (decidable; evaluated by the oracle on every generated program):
    every variable that is read or written is in scope (`live`), a declaration introduces a variable
    that is not yet in scope and whose memory cell is not the cell of any variable in scope.
    Block-local variables leave the scope at the end of their block. -/
def wfS (ls : List Loc) : Stmt → List Nat → Bool
  | .skip, _ => true
  | .seq a b, live => wfS ls a live && wfS ls b (live ++ topDecls a)
  | .decl x, live =>
    !live.contains x &&
    (match ls[x]? with
     | some (.mem m) => live.all (fun y => ls[y]? != some (.mem m))
     | _ => false)
  | .assign x e, live => live.contains x && (exprVars e).all live.contains
  | .inc x, live => live.contains x
  | .dec x, live => live.contains x
  | .iowrite _ e, live => (exprVars e).all live.contains
  | .ifThen c t, live => (condVars c).all live.contains && wfS ls t live
  | .ifElse c t e, live => (condVars c).all live.contains && wfS ls t live && wfS ls e live
  | .loop none b, live => wfS ls b live
  | .loop (some c) b, live => (condVars c).all live.contains && wfS ls b live
  | .brk, _ => true
  | .cont, _ => true
  | .loopP c b p, live => (condVars c).all live.contains && wfS ls b live && wfS ls p live
  | .tassign ps, live => ps.all fun p => live.contains p.1 && (exprVars p.2).all live.contains
  | .define ps, live => (ps.all fun p => (exprVars p.2).all live.contains) && newCellsOK ls live (ps.map (·.1))
  | .switch tag cs, live => (exprVars tag).all live.contains && isChain cs && wfS ls cs live
  | .swCase _ b r, live => wfS ls b live && wfS ls r live
  | .swDefault b, live => wfS ls b live

/-- agreement on the variables in scope -/
structure AgreeL (ls : List Loc) (live : List Nat) (cfg : Cfg) (s : Src) : Prop where
  regv : ∀ x ∈ live, ∀ g, ls[x]? = some (.reg g) → cfg.regs g = s.vars x
  memv : ∀ x ∈ live, ∀ m, ls[x]? = some (.mem m) → cfg.mem m = s.vars x
  rc : cfg.rc = s.rc

/-- the registers of register variables are never handed out as temporaries -/
def VarRegsIn (ls : List Loc) (busy : List Nat) : Prop := ∀ (x g : Nat), ls[x]? = some (Loc.reg g) → g ∈ busy

/-- variables in scope live in pairwise distinct places -/
def LiveInj (ls : List Loc) (live : List Nat) : Prop :=
  ∀ x ∈ live, ∀ y ∈ live, ∀ l, ls[x]? = some l → ls[y]? = some l → x = y

theorem AgreeL.mono {ls : List Loc} {live live' : List Nat} {cfg : Cfg} {s : Src}
    (h : AgreeL ls live' cfg s) (hs : ∀ x ∈ live, x ∈ live') : AgreeL ls live cfg s :=
  ⟨fun x hx => h.regv x (hs x hx), fun x hx => h.memv x (hs x hx), h.rc⟩

/-! ### expressions do not change variables or outputs; their value depends on the variables read -/

theorem evalE_frame (env : Nat → Nat → Nat) (w : Nat) (e : Expr) :
    ∀ s, (evalE env w e s).2.vars = s.vars ∧ (evalE env w e s).2.outs = s.outs := by
  induction e with
  | lit n => intro s; simp [evalE]
  | var x => intro s; simp [evalE]
  | ioread i => intro s; simp [evalE]
  | add a b iha ihb =>
    intro s
    simp only [evalE]
    exact ⟨by rw [(ihb _).1, (iha _).1], by rw [(ihb _).2, (iha _).2]⟩
  | mul a b iha ihb =>
    intro s
    simp only [evalE]
    exact ⟨by rw [(ihb _).1, (iha _).1], by rw [(ihb _).2, (iha _).2]⟩

theorem evalE_congr (env : Nat → Nat → Nat) (w : Nat) (e : Expr) :
    ∀ s s', (∀ x ∈ exprVars e, s.vars x = s'.vars x) → s.rc = s'.rc →
      (evalE env w e s).1 = (evalE env w e s').1 ∧ (evalE env w e s).2.rc = (evalE env w e s').2.rc := by
  induction e with
  | lit n => intro s s' _ hr; simp [evalE, hr]
  | var x => intro s s' hv hr; simp [evalE, hr, hv x (by simp [exprVars])]
  | ioread i => intro s s' _ hr; simp [evalE, hr]
  | add a b iha ihb =>
    intro s s' hv hr
    have ha := iha s s' (fun x hx => hv x (by simp [exprVars, hx])) hr
    have hb := ihb (evalE env w a s).2 (evalE env w a s').2
      (fun x hx => by rw [(evalE_frame env w a s).1, (evalE_frame env w a s').1]; exact hv x (by simp [exprVars, hx]))
      ha.2
    simp only [evalE]
    exact ⟨by rw [ha.1, hb.1], hb.2⟩
  | mul a b iha ihb =>
    intro s s' hv hr
    have ha := iha s s' (fun x hx => hv x (by simp [exprVars, hx])) hr
    have hb := ihb (evalE env w a s).2 (evalE env w a s').2
      (fun x hx => by rw [(evalE_frame env w a s).1, (evalE_frame env w a s').1]; exact hv x (by simp [exprVars, hx]))
      ha.2
    simp only [evalE]
    exact ⟨by rw [ha.1, hb.1], hb.2⟩

/-- the source state completed with the machine's values for the variables that are out of scope:
    it agrees with the machine on *every* variable -/
def complete (ls : List Loc) (cfg : Cfg) (s : Src) : Src :=
  { s with vars := fun x => match ls[x]? with
      | some (.reg g) => cfg.regs g
      | some (.mem m) => cfg.mem m
      | none => s.vars x }

theorem complete_agree {ls : List Loc} {live busy : List Nat} {cfg : Cfg} {s : Src}
    (hag : AgreeL ls live cfg s) (hvr : VarRegsIn ls busy) :
    Agree ls busy cfg (complete ls cfg s) ∧ (complete ls cfg s).rc = s.rc ∧
    (complete ls cfg s).outs = s.outs ∧ ∀ x ∈ live, (complete ls cfg s).vars x = s.vars x := by
  refine ⟨⟨fun x g hl => ⟨by simp [complete, hl], hvr x g hl⟩, fun x m hl => by simp [complete, hl], hag.rc⟩,
    rfl, rfl, fun x hx => ?_⟩
  simp only [complete]
  split
  · rename_i g hl; exact hag.regv x hx g hl
  · rename_i m hl; exact hag.memv x hx m hl
  · rfl

/-- `ExprOK` for a state that agrees on the variables in scope only -/
theorem exprL (env : Nat → Nat → Nat) (w : Nat) (ls : List Loc) (e : Expr) (live : List Nat)
    (busy : List Nat) (c : List Instr) (r : Nat) (busy' : List Nat)
    (h : compileE ls e busy = some (c, r, busy'))
    (pre post : List Instr) (cfg : Cfg) (s : Src) (hpc : cfg.pc = pre.length)
    (hag : AgreeL ls live cfg s) (hvr : VarRegsIn ls busy) (hv : ∀ x ∈ exprVars e, x ∈ live) :
    (isaRun env w (pre ++ c ++ post) c.length cfg).pc = pre.length + c.length ∧
    (isaRun env w (pre ++ c ++ post) c.length cfg).regs r = (evalE env w e s).1 ∧
    (isaRun env w (pre ++ c ++ post) c.length cfg).mem = cfg.mem ∧
    (isaRun env w (pre ++ c ++ post) c.length cfg).outs = cfg.outs ∧
    (isaRun env w (pre ++ c ++ post) c.length cfg).rc = (evalE env w e s).2.rc ∧
    (evalE env w e s).2.vars = s.vars ∧ (evalE env w e s).2.outs = s.outs ∧
    (∀ x ∈ busy, (isaRun env w (pre ++ c ++ post) c.length cfg).regs x = cfg.regs x) := by
  obtain ⟨k1, k2, k3, k4⟩ := complete_agree (busy := busy) hag hvr
  obtain ⟨a1, a2, a3, a4, a5, _, _, a8⟩ := exprOK_all env w ls e busy c r busy' h pre post cfg _ hpc k1
  have hc := evalE_congr env w e (complete ls cfg s) s (fun x hx => k4 x (hv x hx)) k2
  have hf := evalE_frame env w e s
  exact ⟨a1, by rw [a2, hc.1], a3, a4, by rw [a5, hc.2], hf.1, hf.2, a8⟩



/-! ### reachability on the machine -/

/-- `cfg'` is reached from `cfg` after some number of instructions -/
def Reaches (env : Nat → Nat → Nat) (w : Nat) (P : List Instr) (cfg cfg' : Cfg) : Prop :=
  ∃ n, isaRun env w P n cfg = cfg'

theorem Reaches.refl (env : Nat → Nat → Nat) (w : Nat) (P : List Instr) (cfg : Cfg) : Reaches env w P cfg cfg :=
  ⟨0, rfl⟩

theorem Reaches.trans {env : Nat → Nat → Nat} {w : Nat} {P : List Instr} {a b c : Cfg}
    (h1 : Reaches env w P a b) (h2 : Reaches env w P b c) : Reaches env w P a c := by
  obtain ⟨n, hn⟩ := h1
  obtain ⟨m, hm⟩ := h2
  exact ⟨n + m, by rw [isaRun_add, hn, hm]⟩

/-- one instruction, found at the pc -/
theorem Reaches.step {env : Nat → Nat → Nat} {w : Nat} {P : List Instr} {cfg : Cfg} {i : Instr}
    (h : P[cfg.pc]? = some i) : Reaches env w P cfg (execInstr env w cfg i) :=
  ⟨1, by simp [isaRun, isaStep, h]⟩

theorem getElem?_mid (pre post : List Instr) (i : Instr) : (pre ++ i :: post)[pre.length]? = some i := by
  simp

/-- the instruction at offset `k` of the middle part of `pre ++ c ++ post` -/
theorem getElem?_code (pre c post : List Instr) (k : Nat) (i : Instr) (h : c[k]? = some i) :
    (pre ++ c ++ post)[pre.length + k]? = some i := by
  have hk : k < c.length := by
    rcases Nat.lt_or_ge k c.length with h' | h'
    · exact h'
    · rw [List.getElem?_eq_none h'] at h; cases h
  rw [List.append_assoc, List.getElem?_append_right (by omega)]
  simp only [Nat.add_sub_cancel_left]
  rw [List.getElem?_append_left hk]
  exact h



theorem AgreeL.after_expr {ls : List Loc} {live busy : List Nat} {cfg cfg' : Cfg} {s s' : Src}
    (hag : AgreeL ls live cfg s) (hvr : VarRegsIn ls busy)
    (hregs : ∀ x ∈ busy, cfg'.regs x = cfg.regs x) (hmem : cfg'.mem = cfg.mem)
    (hrc : cfg'.rc = s'.rc) (hvars : s'.vars = s.vars) : AgreeL ls live cfg' s' :=
  ⟨fun x hx g hl => by rw [hregs g (hvr x g hl), hag.regv x hx g hl, hvars],
   fun x hx m hl => by rw [hmem, hag.memv x hx m hl, hvars], hrc⟩

theorem getElem?_tail (ca cb tail : List Instr) (k : Nat) :
    (ca ++ cb ++ tail)[ca.length + cb.length + k]? = tail[k]? := by
  rw [List.getElem?_append_right (by simp)]
  simp

/-- the code of `a == b` (placed at its own address) leaves 1 or 0 in the result register -/
theorem condL (env : Nat → Nat → Nat) (w : Nat) (hw : 0 < w) (ls : List Loc) (cnd : Cond)
    (live busy : List Nat) (base : Nat) (cc : List Instr) (rc : Nat) (busy1 : List Nat)
    (h : compileC ls base cnd busy = some (cc, rc, busy1))
    (pre post : List Instr) (cfg : Cfg) (s : Src) (hb : base = pre.length) (hpc : cfg.pc = pre.length)
    (hag : AgreeL ls live cfg s) (hvr : VarRegsIn ls busy) (hv : ∀ x ∈ condVars cnd, x ∈ live) :
    ∃ cfg', Reaches env w (pre ++ cc ++ post) cfg cfg' ∧ cfg'.pc = pre.length + cc.length ∧
      cfg'.regs rc = (if (evalC env w cnd s).1 then 1 else 0) ∧ cfg'.mem = cfg.mem ∧ cfg'.outs = cfg.outs ∧
      cfg'.rc = (evalC env w cnd s).2.rc ∧ (evalC env w cnd s).2.vars = s.vars ∧
      (evalC env w cnd s).2.outs = s.outs ∧ (∀ x ∈ busy, cfg'.regs x = cfg.regs x) ∧
      (∀ x ∈ busy, x ∈ busy1.erase rc) := by
  cases cnd with
  | eq a b =>
  simp only [compileC] at h
  split at h
  · cases h
  · rename_i ca ra busyA ha
    split at h
    · cases h
    · rename_i cb rb busyB hcb
      simp only [Option.some.injEq, Prod.mk.injEq] at h
      obtain ⟨e1, e2, e3⟩ := h
      subst e2
      obtain ⟨ma1, ma2, ma3⟩ := compileE_mono ls a _ _ _ _ ha
      obtain ⟨mb1, mb2, mb3⟩ := compileE_mono ls b _ _ _ _ hcb
      have hfr := fresh_not_mem busyB
      -- the four trailing instructions
      let q := ca.length + cb.length
      let i0 : Instr := .je ra rb (base + ca.length + cb.length + 3)
      let i1 : Instr := .rset (fresh busyB) 0
      let i2 : Instr := .j (base + ca.length + cb.length + 4)
      let i3 : Instr := .rset (fresh busyB) 1
      let tail : List Instr := [i0, i1, i2, i3]
      have hcc : cc = ca ++ cb ++ tail := e1.symm
      have hlen : cc.length = q + 4 := by rw [hcc]; simp [tail, q]; omega
      have hva : ∀ x ∈ exprVars a, x ∈ live := fun x hx => hv x (by simp [condVars, hx])
      have hvb : ∀ x ∈ exprVars b, x ∈ live := fun x hx => hv x (by simp [condVars, hx])
      -- run a
      have hP1 : pre ++ cc ++ post = pre ++ ca ++ (cb ++ tail ++ post) := by rw [hcc]; simp [List.append_assoc]
      have hP2 : pre ++ cc ++ post = (pre ++ ca) ++ cb ++ (tail ++ post) := by rw [hcc]; simp [List.append_assoc]
      obtain ⟨a1, a2, a3, a4, a5, a6, a7, a8⟩ :=
        exprL env w ls a live busy ca ra busyA ha pre (cb ++ tail ++ post) cfg s hpc hag hvr hva
      rw [← hP1] at a1 a2 a3 a4 a5 a8
      have hag1 : AgreeL ls live (isaRun env w (pre ++ cc ++ post) ca.length cfg) (evalE env w a s).2 :=
        hag.after_expr hvr a8 a3 a5 a6
      have hvr1 : VarRegsIn ls busyA := fun x g hl => ma3 g (hvr x g hl)
      obtain ⟨b1, b2, b3, b4, b5, b6, b7, b8⟩ :=
        exprL env w ls b live busyA cb rb busyB hcb (pre ++ ca) (tail ++ post) _ _ (by rw [a1]; simp) hag1 hvr1 hvb
      rw [← hP2, ← isaRun_add] at b1 b2 b3 b4 b5 b8
      -- state after both operands
      generalize hmid : isaRun env w (pre ++ cc ++ post) (ca.length + cb.length) cfg = mid at b1 b2 b3 b4 b5 b8
      have hmidpc : mid.pc = pre.length + q := by rw [b1]; simp [q, Nat.add_assoc]
      have hreach0 : Reaches env w (pre ++ cc ++ post) cfg mid := ⟨_, hmid⟩
      have hra : mid.regs ra = (evalE env w a s).1 := by rw [b8 ra ma2, a2]
      have hne : ra ≠ rb := fun e => mb1 (e ▸ ma2)
      have hrcra : fresh busyB ≠ ra := fun e => hfr (e ▸ mb3 ra ma2)
      have hbusy_mid : ∀ x ∈ busy, mid.regs x = cfg.regs x := fun x hx => by rw [b8 x (ma3 x hx), a8 x hx]
      have hbusy_rc : ∀ x ∈ busy, x ≠ fresh busyB := fun x hx e => hfr (e ▸ mb3 x (ma3 x hx))
      have hmono : ∀ x ∈ busy, x ∈ (((fresh busyB :: busyB).erase ra).erase rb).erase (fresh busyB) := by
        intro x hx
        have hxa : x ≠ ra := fun e => ma1 (e ▸ hx)
        have hxb : x ≠ rb := fun e => mb1 (e ▸ ma3 x hx)
        exact (List.mem_erase_of_ne (hbusy_rc x hx)).mpr ((List.mem_erase_of_ne hxb).mpr
          ((List.mem_erase_of_ne hxa).mpr (List.mem_cons_of_mem _ (mb3 x (ma3 x hx)))))
      -- instruction fetches
      have hi0 : (pre ++ cc ++ post)[pre.length + q]? = some i0 :=
        getElem?_code pre cc post q _ (by rw [hcc]; exact (getElem?_tail ca cb tail 0).trans rfl)
      have hi1 : (pre ++ cc ++ post)[pre.length + (q + 1)]? = some i1 :=
        getElem?_code pre cc post (q + 1) _ (by rw [hcc]; exact (getElem?_tail ca cb tail 1).trans rfl)
      have hi2 : (pre ++ cc ++ post)[pre.length + (q + 2)]? = some i2 :=
        getElem?_code pre cc post (q + 2) _ (by rw [hcc]; exact (getElem?_tail ca cb tail 2).trans rfl)
      have hi3 : (pre ++ cc ++ post)[pre.length + (q + 3)]? = some i3 :=
        getElem?_code pre cc post (q + 3) _ (by rw [hcc]; exact (getElem?_tail ca cb tail 3).trans rfl)
      have hmem_mid : mid.mem = cfg.mem := by rw [b3, a3]
      have houts_mid : mid.outs = cfg.outs := by rw [b4, a4]
      have hone : 1 % 2 ^ w = 1 := Nat.mod_eq_of_lt (Nat.one_lt_two_pow (by omega))
      subst e3
      simp only [evalC]
      by_cases heq : (evalE env w a s).1 = (evalE env w b (evalE env w a s).2).1
      · -- equal: je jumps to `rset rc 1`
        let c1 := execInstr env w mid i0
        have r1 : Reaches env w (pre ++ cc ++ post) mid c1 := Reaches.step (by rw [hmidpc]; exact hi0)
        have c1pc : c1.pc = pre.length + (q + 3) := by
          simp [c1, i0, execInstr, hra, b2, heq, hb, q]; omega
        let c2 := execInstr env w c1 i3
        have r2 : Reaches env w (pre ++ cc ++ post) c1 c2 := Reaches.step (by rw [c1pc]; exact hi3)
        refine ⟨c2, hreach0.trans (r1.trans r2), ?_, ?_, ?_, ?_, ?_, ?_, ?_, ?_, hmono⟩
        · simp [c2, i3, execInstr, c1pc, hlen]; omega
        · simp [c2, i3, execInstr, upd_same, heq, hone]
        · simp [c2, c1, i0, i3, execInstr, hmem_mid]
        · simp [c2, c1, i0, i3, execInstr, houts_mid]
        · simp [c2, c1, i0, i3, execInstr, b5]
        · rw [b6, a6]
        · rw [b7, a7]
        · intro x hx
          simp [c2, c1, i0, i3, execInstr, upd_other _ _ _ _ (hbusy_rc x hx), hbusy_mid x hx]
      · -- different: fall through to `rset rc 0`, then jump over `rset rc 1`
        let c1 := execInstr env w mid i0
        have r1 : Reaches env w (pre ++ cc ++ post) mid c1 := Reaches.step (by rw [hmidpc]; exact hi0)
        have c1pc : c1.pc = pre.length + (q + 1) := by
          simp [c1, i0, execInstr, hra, b2, heq, hmidpc]; omega
        let c2 := execInstr env w c1 i1
        have r2 : Reaches env w (pre ++ cc ++ post) c1 c2 := Reaches.step (by rw [c1pc]; exact hi1)
        have c2pc : c2.pc = pre.length + (q + 2) := by simp [c2, i1, execInstr, c1pc]; omega
        let c3 := execInstr env w c2 i2
        have r3 : Reaches env w (pre ++ cc ++ post) c2 c3 := Reaches.step (by rw [c2pc]; exact hi2)
        refine ⟨c3, hreach0.trans (r1.trans (r2.trans r3)), ?_, ?_, ?_, ?_, ?_, ?_, ?_, ?_, hmono⟩
        · simp [c3, i2, execInstr, hlen, hb, q]; omega
        · simp [c3, c2, i1, i2, execInstr, upd_same, heq]
        · simp [c3, c2, c1, i0, i1, i2, execInstr, hmem_mid]
        · simp [c3, c2, c1, i0, i1, i2, execInstr, houts_mid]
        · simp [c3, c2, c1, i0, i1, i2, execInstr, b5]
        · rw [b6, a6]
        · rw [b7, a7]
        · intro x hx
          simp [c3, c2, c1, i0, i1, i2, execInstr, upd_other _ _ _ _ (hbusy_rc x hx), hbusy_mid x hx]



/-- what the simulation theorem says about one statement executed with loop fuel `fuel` -/
def StmtOK (env : Nat → Nat → Nat) (w : Nat) (ls : List Loc) (fuel : Nat) (st : Stmt) : Prop :=
  ∀ (live : List Nat) (base : Nat) (busy : List Nat) (c : List Instr) (busy' : List Nat),
    compileS ls st base busy = some (c, busy') → wfS ls st live = true → VarRegsIn ls busy → LiveInj ls live →
    ∀ (pre post : List Instr) (cfg : Cfg) (s : Src), base = pre.length → cfg.pc = pre.length →
      AgreeL ls live cfg s → cfg.outs = s.outs → (exec env w fuel st s).2 = true →
      ∃ cfg', Reaches env w (pre ++ c ++ post) cfg cfg' ∧ cfg'.pc = pre.length + c.length ∧
        AgreeL ls (live ++ topDecls st) cfg' (exec env w fuel st s).1 ∧
        cfg'.outs = (exec env w fuel st s).1.outs

/-- expression code followed by one more instruction (scoped agreement) -/
theorem exprL_then (env : Nat → Nat → Nat) (w : Nat) (ls : List Loc) (e : Expr) (live : List Nat)
    (busy : List Nat) (ce : List Instr) (r : Nat) (busy1 : List Nat)
    (he : compileE ls e busy = some (ce, r, busy1)) (i : Instr)
    (pre post : List Instr) (cfg : Cfg) (s : Src) (hpc : cfg.pc = pre.length)
    (hag : AgreeL ls live cfg s) (hvr : VarRegsIn ls busy) (hv : ∀ x ∈ exprVars e, x ∈ live) :
    ∃ mid : Cfg,
      Reaches env w (pre ++ (ce ++ [i]) ++ post) cfg (execInstr env w mid i) ∧
      mid.pc = pre.length + ce.length ∧ mid.regs r = (evalE env w e s).1 ∧ mid.mem = cfg.mem ∧
      mid.outs = cfg.outs ∧ mid.rc = (evalE env w e s).2.rc ∧ (evalE env w e s).2.vars = s.vars ∧
      (evalE env w e s).2.outs = s.outs ∧ (∀ x ∈ busy, mid.regs x = cfg.regs x) := by
  have hP1 : pre ++ (ce ++ [i]) ++ post = pre ++ ce ++ ([i] ++ post) := by simp [List.append_assoc]
  obtain ⟨a1, a2, a3, a4, a5, a6, a7, a8⟩ :=
    exprL env w ls e live busy ce r busy1 he pre ([i] ++ post) cfg s hpc hag hvr hv
  rw [← hP1] at a1 a2 a3 a4 a5 a8
  refine ⟨isaRun env w (pre ++ (ce ++ [i]) ++ post) ce.length cfg, ?_, a1, a2, a3, a4, a5, a6, a7, a8⟩
  refine Reaches.trans ⟨ce.length, rfl⟩ (Reaches.step ?_)
  rw [a1]
  exact getElem?_code pre (ce ++ [i]) post ce.length i (by simp)

theorem stmtOK_assign (env : Nat → Nat → Nat) (w fuel : Nat) (ls : List Loc) (x : Nat) (e : Expr) :
    StmtOK env w ls fuel (.assign x e) := by
  intro live base busy c busy' h hwf hvr hinj pre post cfg s hb hpc hag ho hex
  simp only [wfS, Bool.and_eq_true, List.contains_iff_mem, List.all_eq_true] at hwf
  obtain ⟨hxl, hve⟩ := hwf
  simp only [compileS] at h
  simp only [topDecls, List.append_nil, exec]
  split at h
  · rename_i g ce r busy1 hl he
    simp only [Option.some.injEq, Prod.mk.injEq] at h
    obtain ⟨e1, e2⟩ := h; subst e1; subst e2
    obtain ⟨mid, m0, m1, m2, m3, m4, m5, m6, m7, m8⟩ :=
      exprL_then env w ls e live busy ce r busy1 he (.cpy g r) pre post cfg s hpc hag hvr hve
    refine ⟨_, m0, by simp [execInstr, m1]; omega, ⟨fun y hy g' hly => ?_, fun y hy m hly => ?_, by simp [execInstr, m5]⟩,
      by simp [execInstr, m4, ho, m7]⟩
    · by_cases hyx : y = x
      · subst hyx
        rw [hl] at hly; cases hly
        simp [execInstr, upd_same, m2]
      · have : g' ≠ g := fun e' => hyx (hinj y hy x hxl _ hly (e' ▸ hl))
        simp [execInstr, upd_other _ _ _ _ this, upd_other _ _ _ _ hyx, m8 g' (hvr y g' hly), hag.regv y hy g' hly, m6]
    · have hyx : y ≠ x := fun e' => by subst e'; rw [hl] at hly; cases hly
      simp [execInstr, upd_other _ _ _ _ hyx, m3, hag.memv y hy m hly, m6]
  · rename_i mx ce r busy1 hl he
    simp only [Option.some.injEq, Prod.mk.injEq] at h
    obtain ⟨e1, e2⟩ := h; subst e1; subst e2
    obtain ⟨mid, m0, m1, m2, m3, m4, m5, m6, m7, m8⟩ :=
      exprL_then env w ls e live busy ce r busy1 he (.r2m r mx) pre post cfg s hpc hag hvr hve
    refine ⟨_, m0, by simp [execInstr, m1]; omega, ⟨fun y hy g' hly => ?_, fun y hy m hly => ?_, by simp [execInstr, m5]⟩,
      by simp [execInstr, m4, ho, m7]⟩
    · have hyx : y ≠ x := fun e' => by subst e'; rw [hl] at hly; cases hly
      simp [execInstr, upd_other _ _ _ _ hyx, m8 g' (hvr y g' hly), hag.regv y hy g' hly, m6]
    · by_cases hyx : y = x
      · subst hyx
        rw [hl] at hly; cases hly
        simp [execInstr, upd_same, m2]
      · have : m ≠ mx := fun e' => hyx (hinj y hy x hxl _ hly (e' ▸ hl))
        simp [execInstr, upd_other _ _ _ _ this, upd_other _ _ _ _ hyx, m3, hag.memv y hy m hly, m6]
  · cases h

theorem stmtOK_iowrite (env : Nat → Nat → Nat) (w fuel : Nat) (ls : List Loc) (o : Nat) (e : Expr) :
    StmtOK env w ls fuel (.iowrite o e) := by
  intro live base busy c busy' h hwf hvr hinj pre post cfg s hb hpc hag ho hex
  simp only [wfS, List.contains_iff_mem, List.all_eq_true] at hwf
  simp only [compileS] at h
  simp only [topDecls, List.append_nil, exec]
  split at h
  · rename_i ce r busy1 he
    simp only [Option.some.injEq, Prod.mk.injEq] at h
    obtain ⟨e1, e2⟩ := h; subst e1; subst e2
    obtain ⟨mid, m0, m1, m2, m3, m4, m5, m6, m7, m8⟩ :=
      exprL_then env w ls e live busy ce r busy1 he (.r2o r o) pre post cfg s hpc hag hvr hwf
    refine ⟨_, m0, by simp [execInstr, m1]; omega, ⟨fun y hy g' hly => ?_, fun y hy m hly => ?_, by simp [execInstr, m5]⟩,
      by simp [execInstr, m4, ho, m7, m2]⟩
    · simp [execInstr, m8 g' (hvr y g' hly), hag.regv y hy g' hly, m6]
    · simp [execInstr, m3, hag.memv y hy m hly, m6]
  · cases h



/-- `x++` / `x--` with scoped agreement: `iop` is `inc` or `dec`, `f` its effect on a value -/
theorem incdecL (env : Nat → Nat → Nat) (w : Nat) (ls : List Loc)
    (iop : Nat → Instr) (f : Nat → Nat)
    (hop : ∀ (c : Cfg) (r : Nat), execInstr env w c (iop r) = { c with pc := c.pc + 1, regs := upd c.regs r (f (c.regs r)) })
    (x : Nat) (live busy : List Nat) (c : List Instr) (busy' : List Nat)
    (h : (match ls[x]? with
      | some (.reg g) => some ([iop g], busy)
      | some (.mem m) => some ([.m2r (fresh busy) m, iop (fresh busy), .r2m (fresh busy) m], busy)
      | none => none) = some (c, busy'))
    (hxl : x ∈ live) (hvr : VarRegsIn ls busy) (hinj : LiveInj ls live)
    (pre post : List Instr) (cfg : Cfg) (s : Src) (hpc : cfg.pc = pre.length) (hag : AgreeL ls live cfg s)
    (ho : cfg.outs = s.outs) :
    ∃ cfg', Reaches env w (pre ++ c ++ post) cfg cfg' ∧ cfg'.pc = pre.length + c.length ∧
      AgreeL ls live cfg' { s with vars := upd s.vars x (f (s.vars x)) } ∧ cfg'.outs = s.outs := by
  split at h
  · rename_i g hl
    simp only [Option.some.injEq, Prod.mk.injEq] at h
    obtain ⟨e1, e2⟩ := h; subst e1; subst e2
    refine ⟨execInstr env w cfg (iop g),
      Reaches.step (by rw [hpc]; exact getElem?_code pre [iop g] post 0 _ rfl), ?_, ?_, ?_⟩
    · rw [hop]; simp [hpc]
    · rw [hop]
      refine ⟨fun y hy g' hly => ?_, fun y hy m hly => ?_, hag.rc⟩
      · by_cases hyx : y = x
        · subst hyx
          rw [hl] at hly; cases hly
          simp [upd_same, hag.regv y hy g hl]
        · have : g' ≠ g := fun e' => hyx (hinj y hy x hxl _ hly (e' ▸ hl))
          simp [upd_other _ _ _ _ this, upd_other _ _ _ _ hyx, hag.regv y hy g' hly]
      · have hyx : y ≠ x := fun e' => by subst e'; rw [hl] at hly; cases hly
        simp [upd_other _ _ _ _ hyx, hag.memv y hy m hly]
    · rw [hop]; exact ho
  · rename_i mx hl
    simp only [Option.some.injEq, Prod.mk.injEq] at h
    obtain ⟨e1, e2⟩ := h; subst e1; subst e2
    let c1 := execInstr env w cfg (.m2r (fresh busy) mx)
    let c2 := execInstr env w c1 (iop (fresh busy))
    let c3 := execInstr env w c2 (.r2m (fresh busy) mx)
    have r1 : Reaches env w (pre ++ [Instr.m2r (fresh busy) mx, iop (fresh busy), Instr.r2m (fresh busy) mx] ++ post) cfg c1 :=
      Reaches.step (by rw [hpc]; exact getElem?_code pre _ post 0 _ rfl)
    have c1pc : c1.pc = pre.length + 1 := by simp [c1, execInstr, hpc]
    have r2 : Reaches env w (pre ++ [Instr.m2r (fresh busy) mx, iop (fresh busy), Instr.r2m (fresh busy) mx] ++ post) c1 c2 :=
      Reaches.step (by rw [c1pc]; exact getElem?_code pre _ post 1 _ rfl)
    have c2pc : c2.pc = pre.length + 2 := by simp only [c2]; rw [hop]; simp [c1pc]
    have r3 : Reaches env w (pre ++ [Instr.m2r (fresh busy) mx, iop (fresh busy), Instr.r2m (fresh busy) mx] ++ post) c2 c3 :=
      Reaches.step (by rw [c2pc]; exact getElem?_code pre _ post 2 _ rfl)
    have hc2 : c2 = { c1 with pc := c1.pc + 1, regs := upd c1.regs (fresh busy) (f (c1.regs (fresh busy))) } := hop c1 (fresh busy)
    refine ⟨c3, r1.trans (r2.trans r3), ?_, ⟨fun y hy g' hly => ?_, fun y hy m hly => ?_, ?_⟩, ?_⟩
    · simp [c3, execInstr, c2pc]
    · have hg' : g' ≠ fresh busy := fun e' => fresh_not_mem busy (e' ▸ hvr y g' hly)
      have hyx : y ≠ x := fun e' => by subst e'; rw [hl] at hly; cases hly
      simp [c3, hc2, c1, execInstr, upd_other _ _ _ _ hg', upd_other _ _ _ _ hyx, hag.regv y hy g' hly]
    · by_cases hyx : y = x
      · subst hyx
        rw [hl] at hly; cases hly
        simp [c3, hc2, c1, execInstr, upd_same, hag.memv y hy _ hl]
      · have : m ≠ mx := fun e' => hyx (hinj y hy x hxl _ hly (e' ▸ hl))
        simp [c3, hc2, c1, execInstr, upd_other _ _ _ _ this, upd_other _ _ _ _ hyx, hag.memv y hy m hly]
    · simp [c3, hc2, c1, execInstr, hag.rc]
    · simp [c3, hc2, c1, execInstr, ho]
  · cases h

theorem stmtOK_inc (env : Nat → Nat → Nat) (w fuel : Nat) (ls : List Loc) (x : Nat) :
    StmtOK env w ls fuel (.inc x) := by
  intro live base busy c busy' h hwf hvr hinj pre post cfg s hb hpc hag ho hex
  simp only [wfS, List.contains_iff_mem] at hwf
  simp only [compileS] at h
  simp only [topDecls, List.append_nil, exec]
  exact incdecL env w ls Instr.inc (fun v => (v + 1) % 2 ^ w) (fun c r => by simp [execInstr])
    x live busy c busy' h hwf hvr hinj pre post cfg s hpc hag ho

theorem stmtOK_dec (env : Nat → Nat → Nat) (w fuel : Nat) (ls : List Loc) (x : Nat) :
    StmtOK env w ls fuel (.dec x) := by
  intro live base busy c busy' h hwf hvr hinj pre post cfg s hb hpc hag ho hex
  simp only [wfS, List.contains_iff_mem] at hwf
  simp only [compileS] at h
  simp only [topDecls, List.append_nil, exec]
  exact incdecL env w ls Instr.dec (fun v => (v + (2 ^ w - 1)) % 2 ^ w) (fun c r => by simp [execInstr])
    x live busy c busy' h hwf hvr hinj pre post cfg s hpc hag ho

/-- `var x uintW` inside a block: `clr (fresh busy); r2m (fresh busy) m` -/
theorem stmtOK_decl (env : Nat → Nat → Nat) (w fuel : Nat) (ls : List Loc) (x : Nat) :
    StmtOK env w ls fuel (.decl x) := by
  intro live base busy c busy' h hwf hvr hinj pre post cfg s hb hpc hag ho hex
  simp only [compileS] at h
  simp only [topDecls, exec]
  simp only [wfS, Bool.and_eq_true] at hwf
  obtain ⟨hxl0, hcell⟩ := hwf
  have hxl : x ∉ live := fun hm => by rw [List.contains_iff_mem.mpr hm] at hxl0; cases hxl0
  split at h
  · rename_i mx hl
    simp only [Option.some.injEq, Prod.mk.injEq] at h
    obtain ⟨e1, e2⟩ := h; subst e1; subst e2
    rw [hl] at hcell
    simp only [List.all_eq_true, bne_iff_ne, ne_eq] at hcell
    let c1 := execInstr env w cfg (.clr (fresh busy))
    let c2 := execInstr env w c1 (.r2m (fresh busy) mx)
    have r1 : Reaches env w (pre ++ [Instr.clr (fresh busy), Instr.r2m (fresh busy) mx] ++ post) cfg c1 :=
      Reaches.step (by rw [hpc]; exact getElem?_code pre _ post 0 _ rfl)
    have c1pc : c1.pc = pre.length + 1 := by simp [c1, execInstr, hpc]
    have r2 : Reaches env w (pre ++ [Instr.clr (fresh busy), Instr.r2m (fresh busy) mx] ++ post) c1 c2 :=
      Reaches.step (by rw [c1pc]; exact getElem?_code pre _ post 1 _ rfl)
    refine ⟨c2, r1.trans r2, by simp [c2, execInstr, c1pc], ⟨fun y hy g' hly => ?_, fun y hy m hly => ?_, ?_⟩, ?_⟩
    · have hyx : y ≠ x := fun e' => by subst e'; rw [hl] at hly; cases hly
      have hyl : y ∈ live := by
        rcases List.mem_append.mp hy with h' | h'
        · exact h'
        · simp only [List.mem_singleton] at h'; exact absurd h' hyx
      have hg' : g' ≠ fresh busy := fun e' => fresh_not_mem busy (e' ▸ hvr y g' hly)
      simp [c2, c1, execInstr, upd_other _ _ _ _ hg', upd_other _ _ _ _ hyx, hag.regv y hyl g' hly]
    · by_cases hyx : y = x
      · subst hyx
        rw [hl] at hly; cases hly
        simp [c2, c1, execInstr, upd_same]
      · have hyl : y ∈ live := by
          rcases List.mem_append.mp hy with h' | h'
          · exact h'
          · simp only [List.mem_singleton] at h'; exact absurd h' hyx
        have : m ≠ mx := fun e' => hcell y hyl (e' ▸ hly)
        simp [c2, c1, execInstr, upd_other _ _ _ _ this, upd_other _ _ _ _ hyx, hag.memv y hyl m hly]
    · simp [c2, c1, execInstr, hag.rc]
    · simp [c2, c1, execInstr, ho]
  · cases h



theorem compileC_mono (ls : List Loc) (base : Nat) (cnd : Cond) (busy : List Nat) (cc : List Instr) (rc : Nat)
    (busy1 : List Nat) (h : compileC ls base cnd busy = some (cc, rc, busy1)) :
    ∀ x ∈ busy, x ∈ busy1.erase rc := by
  cases cnd with
  | eq a b =>
  simp only [compileC] at h
  split at h
  · cases h
  · rename_i ca ra busyA ha
    split at h
    · cases h
    · rename_i cb rb busyB hcb
      simp only [Option.some.injEq, Prod.mk.injEq] at h
      obtain ⟨_, e2, e3⟩ := h
      subst e2; subst e3
      obtain ⟨ma1, ma2, ma3⟩ := compileE_mono ls a _ _ _ _ ha
      obtain ⟨mb1, mb2, mb3⟩ := compileE_mono ls b _ _ _ _ hcb
      intro x hx
      have hfr := fresh_not_mem busyB
      have hxa : x ≠ ra := fun e => ma1 (e ▸ hx)
      have hxb : x ≠ rb := fun e => mb1 (e ▸ ma3 x hx)
      have hxc : x ≠ fresh busyB := fun e => hfr (e ▸ mb3 x (ma3 x hx))
      exact (List.mem_erase_of_ne hxc).mpr ((List.mem_erase_of_ne hxb).mpr
        ((List.mem_erase_of_ne hxa).mpr (List.mem_cons_of_mem _ (mb3 x (ma3 x hx)))))

/-- registers that are busy before a statement is compiled are still busy afterwards (temporaries
    are taken from the free ones and given back) -/
theorem compileS_mono (ls : List Loc) (st : Stmt) :
    ∀ (base : Nat) (busy : List Nat) (c : List Instr) (busy' : List Nat),
      compileS ls st base busy = some (c, busy') → ∀ x ∈ busy, x ∈ busy' := by
  induction st with
  | skip =>
    intro base busy c busy' h x hx
    simp only [compileS, Option.some.injEq, Prod.mk.injEq] at h
    exact h.2 ▸ hx
  | seq a b iha ihb =>
    intro base busy c busy' h x hx
    simp only [compileS] at h
    split at h
    · cases h
    · rename_i c1 busy1 h1
      split at h
      · cases h
      · rename_i c2 busy2 h2
        simp only [Option.some.injEq, Prod.mk.injEq] at h
        exact h.2 ▸ ihb _ _ _ _ h2 x (iha _ _ _ _ h1 x hx)
  | assign v e =>
    intro base busy c busy' h x hx
    simp only [compileS] at h
    split at h
    · rename_i g ce r busy1 hl he
      simp only [Option.some.injEq, Prod.mk.injEq] at h
      obtain ⟨q1, _, q3⟩ := compileE_mono ls e _ _ _ _ he
      exact h.2 ▸ (List.mem_erase_of_ne (fun (e' : x = r) => q1 (e' ▸ hx))).mpr (q3 x hx)
    · rename_i m ce r busy1 hl he
      simp only [Option.some.injEq, Prod.mk.injEq] at h
      obtain ⟨q1, _, q3⟩ := compileE_mono ls e _ _ _ _ he
      exact h.2 ▸ (List.mem_erase_of_ne (fun (e' : x = r) => q1 (e' ▸ hx))).mpr (q3 x hx)
    · cases h
  | inc v =>
    intro base busy c busy' h x hx
    simp only [compileS] at h
    split at h <;> (try (simp only [Option.some.injEq, Prod.mk.injEq] at h; exact h.2 ▸ hx)) <;> cases h
  | dec v =>
    intro base busy c busy' h x hx
    simp only [compileS] at h
    split at h <;> (try (simp only [Option.some.injEq, Prod.mk.injEq] at h; exact h.2 ▸ hx)) <;> cases h
  | decl v =>
    intro base busy c busy' h x hx
    simp only [compileS] at h
    split at h <;> (try (simp only [Option.some.injEq, Prod.mk.injEq] at h; exact h.2 ▸ hx)) <;> cases h
  | iowrite o e =>
    intro base busy c busy' h x hx
    simp only [compileS] at h
    split at h
    · rename_i ce r busy1 he
      simp only [Option.some.injEq, Prod.mk.injEq] at h
      exact h.2 ▸ (compileE_mono ls e _ _ _ _ he).2.2 x hx
    · cases h
  | ifThen cnd t iht =>
    intro base busy c busy' h x hx
    simp only [compileS] at h
    split at h
    · cases h
    · rename_i cc rc busy1 hc
      split at h
      · cases h
      · rename_i ct busy2 ht
        simp only [Option.some.injEq, Prod.mk.injEq] at h
        exact h.2 ▸ iht _ _ _ _ ht x (compileC_mono ls _ _ _ _ _ _ hc x hx)
  | ifElse cnd t e iht ihe =>
    intro base busy c busy' h x hx
    simp only [compileS] at h
    split at h
    · cases h
    · rename_i cc rc busy1 hc
      split at h
      · cases h
      · rename_i ct busy2 ht
        split at h
        · cases h
        · rename_i ce busy3 he
          simp only [Option.some.injEq, Prod.mk.injEq] at h
          exact h.2 ▸ ihe _ _ _ _ he x (iht _ _ _ _ ht x (compileC_mono ls _ _ _ _ _ _ hc x hx))
  | loop oc body ihb =>
    intro base busy c busy' h x hx
    cases oc with
    | none =>
      simp only [compileS] at h
      split at h
      · cases h
      · rename_i cb busy1 hb
        simp only [Option.some.injEq, Prod.mk.injEq] at h
        exact h.2 ▸ ihb _ _ _ _ hb x hx
    | some cnd =>
      simp only [compileS] at h
      split at h
      · cases h
      · rename_i cc rc busy1 hc
        split at h
        · cases h
        · rename_i cb busy2 hb
          simp only [Option.some.injEq, Prod.mk.injEq] at h
          exact h.2 ▸ ihb _ _ _ _ hb x (compileC_mono ls _ _ _ _ _ _ hc x hx)
  | brk => intro base busy c busy' h; simp [compileS] at h
  | cont => intro base busy c busy' h; simp [compileS] at h
  | loopP _ _ _ _ _ => intro base busy c busy' h; simp [compileS] at h
  | tassign _ => intro base busy c busy' h; simp [compileS] at h
  | define _ => intro base busy c busy' h; simp [compileS] at h
  | switch _ _ _ => intro base busy c busy' h; simp [compileS] at h
  | swCase _ _ _ _ _ => intro base busy c busy' h; simp [compileS] at h
  | swDefault _ _ => intro base busy c busy' h; simp [compileS] at h

theorem VarRegsIn.mono {ls : List Loc} {busy busy' : List Nat} (h : VarRegsIn ls busy)
    (hs : ∀ x ∈ busy, x ∈ busy') : VarRegsIn ls busy' := fun x g hl => hs g (h x g hl)

theorem liveInj_snoc {ls : List Loc} {live : List Nat} {x mx : Nat} (hinj : LiveInj ls live) (hxl : x ∉ live)
    (hl : ls[x]? = some (Loc.mem mx)) (hcell : ∀ y ∈ live, ls[y]? ≠ some (Loc.mem mx)) :
    LiveInj ls (live ++ [x]) := by
  intro y hy z hz l hly hlz
  rcases List.mem_append.mp hy with hy1 | hy1 <;> rcases List.mem_append.mp hz with hz1 | hz1
  · exact hinj y hy1 z hz1 l hly hlz
  · simp only [List.mem_singleton] at hz1; subst hz1
    rw [hl] at hlz; cases hlz
    exact absurd hly (hcell y hy1)
  · simp only [List.mem_singleton] at hy1; subst hy1
    rw [hl] at hly; cases hly
    exact absurd hlz (hcell z hz1)
  · simp only [List.mem_singleton] at hy1 hz1; rw [hy1, hz1]

theorem newCells_liveInj (ls : List Loc) (xs : List Nat) :
    ∀ live, newCellsOK ls live xs = true → LiveInj ls live → LiveInj ls (live ++ xs) := by
  induction xs with
  | nil => intro live _ h; simpa using h
  | cons x xs ih =>
    intro live hn hinj
    simp only [newCellsOK, Bool.and_eq_true] at hn
    obtain ⟨⟨hxl0, hcell⟩, hrest⟩ := hn
    have hxl : x ∉ live := fun hm => by rw [List.contains_iff_mem.mpr hm] at hxl0; cases hxl0
    split at hcell
    · rename_i mx hl
      simp only [List.all_eq_true, bne_iff_ne, ne_eq] at hcell
      have := ih (live ++ [x]) hrest (liveInj_snoc hinj hxl hl hcell)
      simpa [List.append_assoc] using this
    · cases hcell

/-- what `newCellsOK` says about each declared variable -/
theorem newCells_spec (ls : List Loc) (xs : List Nat) :
    ∀ live, newCellsOK ls live xs = true → ∀ x ∈ xs, x ∉ live ∧ ∃ m, ls[x]? = some (Loc.mem m) := by
  induction xs with
  | nil => intro live _ x hx; cases hx
  | cons x0 xs ih =>
    intro live hn x hx
    simp only [newCellsOK, Bool.and_eq_true] at hn
    obtain ⟨⟨hxl0, hcell⟩, hrest⟩ := hn
    rcases List.mem_cons.mp hx with h' | h'
    · subst h'
      refine ⟨fun hm => (by rw [List.contains_iff_mem.mpr hm] at hxl0; cases hxl0), ?_⟩
      split at hcell
      · rename_i mx hl; exact ⟨mx, hl⟩
      · cases hcell
    · obtain ⟨h1, h2⟩ := ih (live ++ [x0]) hrest x h'
      exact ⟨fun hm => h1 (List.mem_append_left _ hm), h2⟩


/-- a well-placed statement keeps the variables in scope in pairwise distinct places -/
theorem wfS_liveInj (ls : List Loc) (st : Stmt) :
    ∀ live, wfS ls st live = true → LiveInj ls live → LiveInj ls (live ++ topDecls st) := by
  induction st with
  | seq a b iha ihb =>
    intro live hwf hinj
    simp only [wfS, Bool.and_eq_true] at hwf
    simp only [topDecls, ← List.append_assoc]
    exact ihb _ hwf.2 (iha _ hwf.1 hinj)
  | decl x =>
    intro live hwf hinj
    simp only [wfS, Bool.and_eq_true] at hwf
    obtain ⟨hxl0, hcell⟩ := hwf
    have hxl : x ∉ live := fun hm => by rw [List.contains_iff_mem.mpr hm] at hxl0; cases hxl0
    simp only [topDecls]
    split at hcell
    · rename_i mx hl
      simp only [List.all_eq_true, bne_iff_ne, ne_eq] at hcell
      intro y hy z hz l hly hlz
      rcases List.mem_append.mp hy with hy1 | hy1 <;> rcases List.mem_append.mp hz with hz1 | hz1
      · exact hinj y hy1 z hz1 l hly hlz
      · simp only [List.mem_singleton] at hz1; subst hz1
        rw [hl] at hlz; cases hlz
        exact absurd hly (hcell y hy1)
      · simp only [List.mem_singleton] at hy1; subst hy1
        rw [hl] at hly; cases hly
        exact absurd hlz (hcell z hz1)
      · simp only [List.mem_singleton] at hy1 hz1; rw [hy1, hz1]
    · cases hcell
  | skip => intro live _ hinj; simpa [topDecls] using hinj
  | assign _ _ => intro live _ hinj; simpa [topDecls] using hinj
  | inc _ => intro live _ hinj; simpa [topDecls] using hinj
  | dec _ => intro live _ hinj; simpa [topDecls] using hinj
  | iowrite _ _ => intro live _ hinj; simpa [topDecls] using hinj
  | ifThen _ _ _ => intro live _ hinj; simpa [topDecls] using hinj
  | ifElse _ _ _ _ _ => intro live _ hinj; simpa [topDecls] using hinj
  | loop _ _ _ => intro live _ hinj; simpa [topDecls] using hinj
  | brk => intro live _ hinj; simpa [topDecls] using hinj
  | cont => intro live _ hinj; simpa [topDecls] using hinj
  | loopP _ _ _ _ _ => intro live _ hinj; simpa [topDecls] using hinj
  | tassign _ => intro live _ hinj; simpa [topDecls] using hinj
  | switch _ _ _ => intro live _ hinj; simpa [topDecls] using hinj
  | swCase _ _ _ _ _ => intro live _ hinj; simpa [topDecls] using hinj
  | swDefault _ _ => intro live _ hinj; simpa [topDecls] using hinj
  | define ps =>
    intro live hwf hinj
    simp only [wfS, Bool.and_eq_true] at hwf
    simpa [topDecls] using newCells_liveInj ls _ live hwf.2 hinj



theorem stmtOK_skip (env : Nat → Nat → Nat) (w fuel : Nat) (ls : List Loc) : StmtOK env w ls fuel .skip := by
  intro live base busy c busy' h hwf hvr hinj pre post cfg s hb hpc hag ho hex
  simp only [compileS, Option.some.injEq, Prod.mk.injEq] at h
  obtain ⟨e1, e2⟩ := h; subst e1; subst e2
  simp only [topDecls, List.append_nil, exec]
  exact ⟨cfg, Reaches.refl _ _ _ _, by simp [hpc], hag, ho⟩

theorem stmtOK_seq (env : Nat → Nat → Nat) (w fuel : Nat) (ls : List Loc) (a b : Stmt)
    (iha : StmtOK env w ls fuel a) (ihb : StmtOK env w ls fuel b) : StmtOK env w ls fuel (.seq a b) := by
  intro live base busy c busy' h hwf hvr hinj pre post cfg s hb hpc hag ho hex
  simp only [wfS, Bool.and_eq_true] at hwf
  simp only [compileS] at h
  split at h
  · cases h
  · rename_i c1 busy1 h1
    split at h
    · cases h
    · rename_i c2 busy2 h2
      simp only [Option.some.injEq, Prod.mk.injEq] at h
      obtain ⟨e1, e2⟩ := h; subst e1; subst e2
      have hP1 : pre ++ (c1 ++ c2) ++ post = pre ++ c1 ++ (c2 ++ post) := by simp [List.append_assoc]
      have hP2 : pre ++ (c1 ++ c2) ++ post = (pre ++ c1) ++ c2 ++ post := by simp [List.append_assoc]
      simp only [exec] at hex ⊢
      generalize hr : exec env w fuel a s = r at hex ⊢
      obtain ⟨s1, f1⟩ := r
      cases f1 with
      | false => simp at hex
      | true =>
        simp only at hex ⊢
        obtain ⟨cfg1, x1, x2, x3, x4⟩ := iha live base busy c1 busy1 h1 hwf.1 hvr hinj pre (c2 ++ post) cfg s hb hpc hag ho
          (by rw [hr])
        rw [hr] at x3 x4
        rw [← hP1] at x1
        obtain ⟨cfg2, y1, y2, y3, y4⟩ := ihb (live ++ topDecls a) (base + c1.length) busy1 c2 busy2 h2 hwf.2
          (hvr.mono (compileS_mono ls a _ _ _ _ h1)) (wfS_liveInj ls a live hwf.1 hinj)
          (pre ++ c1) post cfg1 s1 (by rw [hb]; simp) (by rw [x2]; simp) x3 x4 hex
        rw [← hP2] at y1
        refine ⟨cfg2, x1.trans y1, by rw [y2]; simp [Nat.add_assoc], ?_, y4⟩
        simpa [topDecls, List.append_assoc] using y3



theorem stmtOK_ifThen (env : Nat → Nat → Nat) (w : Nat) (hw : 0 < w) (fuel : Nat) (ls : List Loc)
    (cnd : Cond) (t : Stmt) (iht : StmtOK env w ls fuel t) : StmtOK env w ls fuel (.ifThen cnd t) := by
  intro live base busy c busy' h hwf hvr hinj pre post cfg s hb hpc hag ho hex
  simp only [wfS, Bool.and_eq_true, List.all_eq_true, List.contains_iff_mem] at hwf
  obtain ⟨hvc, hwt⟩ := hwf
  simp only [compileS] at h
  split at h
  · cases h
  · rename_i cc rc busy1 hc
    split at h
    · cases h
    · rename_i ct busy2 ht
      simp only [Option.some.injEq, Prod.mk.injEq] at h
      obtain ⟨e1, e2⟩ := h; subst e1; subst e2
      let jz : Instr := .jz rc (base + cc.length + 1 + ct.length)
      have hP1 : pre ++ (cc ++ [jz] ++ ct) ++ post = pre ++ cc ++ ([jz] ++ ct ++ post) := by simp [List.append_assoc]
      have hP2 : pre ++ (cc ++ [jz] ++ ct) ++ post = (pre ++ cc ++ [jz]) ++ ct ++ post := by simp [List.append_assoc]
      obtain ⟨cfgc, k1, k2, k3, k4, k5, k6, k7, k8, k9, k10⟩ :=
        condL env w hw ls cnd live busy base cc rc busy1 hc pre ([jz] ++ ct ++ post) cfg s hb hpc hag hvr hvc
      rw [← hP1] at k1
      have hagc : AgreeL ls live cfgc (evalC env w cnd s).2 := hag.after_expr hvr k9 k4 k6 k7
      have hfetch : (pre ++ (cc ++ [jz] ++ ct) ++ post)[cfgc.pc]? = some jz := by
        rw [k2]; exact getElem?_code pre _ post cc.length jz (by simp)
      have rj := Reaches.step (env := env) (w := w) hfetch
      simp only [topDecls, List.append_nil]
      simp only [exec] at hex ⊢
      generalize hr : evalC env w cnd s = r at hex k3 k6 k7 k8 hagc ⊢
      obtain ⟨bv, s1⟩ := r
      have k8' : s1.outs = s.outs := k8
      have hagc' : AgreeL ls live cfgc s1 := hagc
      cases bv with
      | false =>
        simp only at hex k3 ⊢
        refine ⟨execInstr env w cfgc jz, k1.trans rj, ?_, ?_, ?_⟩
        · simp [jz, execInstr, k3, hb]; omega
        · exact ⟨hagc'.regv, hagc'.memv, hagc'.rc⟩
        · simp [jz, execInstr, k5, ho, k8']
      | true =>
        simp only at hex k3 ⊢
        have hpcj : (execInstr env w cfgc jz).pc = (pre ++ cc ++ [jz]).length := by
          simp [jz, execInstr, k3, k2]; omega
        have hagj : AgreeL ls live (execInstr env w cfgc jz) s1 := ⟨hagc'.regv, hagc'.memv, hagc'.rc⟩
        obtain ⟨cfg2, y1, y2, y3, y4⟩ := iht live (base + cc.length + 1) (busy1.erase rc) ct busy2 ht hwt
          (hvr.mono k10) hinj (pre ++ cc ++ [jz]) post _ s1 (by rw [hb]; simp; omega) hpcj hagj
          (by simp [jz, execInstr, k5, ho, k8']) hex
        rw [← hP2] at y1
        refine ⟨cfg2, k1.trans (rj.trans y1), by rw [y2]; simp; omega, y3.mono (fun x hx => List.mem_append_left _ hx), y4⟩



theorem stmtOK_ifElse (env : Nat → Nat → Nat) (w : Nat) (hw : 0 < w) (fuel : Nat) (ls : List Loc)
    (cnd : Cond) (t e : Stmt) (iht : StmtOK env w ls fuel t) (ihe : StmtOK env w ls fuel e) :
    StmtOK env w ls fuel (.ifElse cnd t e) := by
  intro live base busy c busy' h hwf hvr hinj pre post cfg s hb hpc hag ho hex
  simp only [wfS, Bool.and_eq_true, List.all_eq_true, List.contains_iff_mem] at hwf
  obtain ⟨⟨hvc, hwt⟩, hwe⟩ := hwf
  simp only [compileS] at h
  split at h
  · cases h
  · rename_i cc rc busy1 hc
    split at h
    · cases h
    · rename_i ct busy2 ht
      split at h
      · cases h
      · rename_i ce busy3 he
        simp only [Option.some.injEq, Prod.mk.injEq] at h
        obtain ⟨e1, e2⟩ := h; subst e1; subst e2
        let jz : Instr := .jz rc (base + cc.length + 1 + ct.length + 1)
        let jn : Instr := .j (base + cc.length + 1 + ct.length + 1 + ce.length)
        have hP1 : pre ++ (cc ++ [jz] ++ ct ++ [jn] ++ ce) ++ post = pre ++ cc ++ ([jz] ++ ct ++ [jn] ++ ce ++ post) := by
          simp [List.append_assoc]
        have hP2 : pre ++ (cc ++ [jz] ++ ct ++ [jn] ++ ce) ++ post = (pre ++ cc ++ [jz]) ++ ct ++ ([jn] ++ ce ++ post) := by
          simp [List.append_assoc]
        have hP3 : pre ++ (cc ++ [jz] ++ ct ++ [jn] ++ ce) ++ post = (pre ++ cc ++ [jz] ++ ct ++ [jn]) ++ ce ++ post := by
          simp [List.append_assoc]
        have hlen : (cc ++ [jz] ++ ct ++ [jn] ++ ce).length = cc.length + 1 + ct.length + 1 + ce.length := by simp; omega
        obtain ⟨cfgc, k1, k2, k3, k4, k5, k6, k7, k8, k9, k10⟩ :=
          condL env w hw ls cnd live busy base cc rc busy1 hc pre ([jz] ++ ct ++ [jn] ++ ce ++ post) cfg s hb hpc hag hvr hvc
        rw [← hP1] at k1
        have hagc : AgreeL ls live cfgc (evalC env w cnd s).2 := hag.after_expr hvr k9 k4 k6 k7
        have hfetch : (pre ++ (cc ++ [jz] ++ ct ++ [jn] ++ ce) ++ post)[cfgc.pc]? = some jz := by
          rw [k2]; exact getElem?_code pre _ post cc.length jz (by simp)
        have rj := Reaches.step (env := env) (w := w) hfetch
        simp only [topDecls, List.append_nil]
        simp only [exec] at hex ⊢
        generalize hr : evalC env w cnd s = r at hex k3 k6 k7 k8 hagc ⊢
        obtain ⟨bv, s1⟩ := r
        have k8' : s1.outs = s.outs := k8
        have hagc' : AgreeL ls live cfgc s1 := hagc
        have hagj : AgreeL ls live (execInstr env w cfgc jz) s1 := ⟨hagc'.regv, hagc'.memv, hagc'.rc⟩
        have hoj : (execInstr env w cfgc jz).outs = s1.outs := by simp [jz, execInstr, k5, ho, k8']
        cases bv with
        | true =>
          simp only at hex k3 ⊢
          have hpcj : (execInstr env w cfgc jz).pc = (pre ++ cc ++ [jz]).length := by
            simp [jz, execInstr, k3, k2]; omega
          obtain ⟨cfg2, y1, y2, y3, y4⟩ := iht live (base + cc.length + 1) (busy1.erase rc) ct busy2 ht hwt
            (hvr.mono k10) hinj (pre ++ cc ++ [jz]) ([jn] ++ ce ++ post) _ s1 (by rw [hb]; simp; omega) hpcj hagj hoj hex
          rw [← hP2] at y1
          have hfetch2 : (pre ++ (cc ++ [jz] ++ ct ++ [jn] ++ ce) ++ post)[cfg2.pc]? = some jn := by
            rw [y2]
            have := getElem?_code pre (cc ++ [jz] ++ ct ++ [jn] ++ ce) post (cc.length + 1 + ct.length) jn (by
              rw [show cc ++ [jz] ++ ct ++ [jn] ++ ce = (cc ++ [jz] ++ ct) ++ (jn :: ce) by simp]
              rw [List.getElem?_append_right (by simp; omega)]
              have : cc.length + 1 + ct.length - (cc ++ [jz] ++ ct).length = 0 := by simp; omega
              rw [this]; rfl)
            simpa [Nat.add_assoc] using this
          have rn := Reaches.step (env := env) (w := w) hfetch2
          refine ⟨execInstr env w cfg2 jn, k1.trans (rj.trans (y1.trans rn)), ?_, ?_, ?_⟩
          · simp [jn, execInstr, hb]; omega
          · have y3' := y3.mono (live := live) (fun x hx => List.mem_append_left _ hx)
            exact ⟨y3'.regv, y3'.memv, y3'.rc⟩
          · simpa [jn, execInstr] using y4
        | false =>
          simp only at hex k3 ⊢
          have hpcj : (execInstr env w cfgc jz).pc = (pre ++ cc ++ [jz] ++ ct ++ [jn]).length := by
            simp [jz, execInstr, k3, hb]; omega
          have hm2 : ∀ x ∈ busy, x ∈ busy2 := fun x hx => compileS_mono ls t _ _ _ _ ht x (k10 x hx)
          obtain ⟨cfg2, y1, y2, y3, y4⟩ := ihe live (base + cc.length + 1 + ct.length + 1) busy2 ce busy3 he hwe
            (hvr.mono hm2) hinj (pre ++ cc ++ [jz] ++ ct ++ [jn]) post _ s1 (by rw [hb]; simp; omega) hpcj hagj hoj hex
          rw [← hP3] at y1
          refine ⟨cfg2, k1.trans (rj.trans y1), by rw [y2, hlen]; simp; omega,
            y3.mono (fun x hx => List.mem_append_left _ hx), y4⟩



/-- `for { … }` never finishes: the source semantics never reports completion for it -/
theorem exec_loop_none (env : Nat → Nat → Nat) (w : Nat) (body : Stmt) :
    ∀ fuel s, (exec env w fuel (.loop none body) s).2 = false := by
  intro fuel
  induction fuel with
  | zero => intro s; simp [exec]
  | succ f ih =>
    intro s
    simp only [exec]
    generalize exec env w f body s = r
    obtain ⟨s1, f1⟩ := r
    cases f1 with
    | true => exact ih s1
    | false => rfl

theorem stmtOK_loop_none (env : Nat → Nat → Nat) (w fuel : Nat) (ls : List Loc) (body : Stmt) :
    StmtOK env w ls fuel (.loop none body) := by
  intro live base busy c busy' h hwf hvr hinj pre post cfg s hb hpc hag ho hex
  rw [exec_loop_none] at hex; cases hex

theorem stmtOK_loop_zero (env : Nat → Nat → Nat) (w : Nat) (ls : List Loc) (oc : Option Cond) (body : Stmt) :
    StmtOK env w ls 0 (.loop oc body) := by
  intro live base busy c busy' h hwf hvr hinj pre post cfg s hb hpc hag ho hex
  simp [exec] at hex

/-- one more unit of fuel for a conditional loop: test, body, back edge, then the loop again -/
theorem stmtOK_loop_succ (env : Nat → Nat → Nat) (w : Nat) (hw : 0 < w) (fuel : Nat) (ls : List Loc)
    (hall : ∀ st, StmtOK env w ls fuel st) (cnd : Cond) (body : Stmt) :
    StmtOK env w ls (fuel + 1) (.loop (some cnd) body) := by
  intro live base busy c busy' h hwf hvr hinj pre post cfg s hb hpc hag ho hex
  have h0 := h
  have hwf0 := hwf
  simp only [wfS, Bool.and_eq_true, List.all_eq_true, List.contains_iff_mem] at hwf
  obtain ⟨hvc, hwb⟩ := hwf
  simp only [compileS] at h
  split at h
  · cases h
  · rename_i cc rc busy1 hc
    split at h
    · cases h
    · rename_i cb busy2 hcb
      simp only [Option.some.injEq, Prod.mk.injEq] at h
      obtain ⟨e1, e2⟩ := h; subst e1; subst e2
      let jz : Instr := .jz rc (base + cc.length + 1 + cb.length + 1)
      let jb : Instr := .j base
      have hP1 : pre ++ (cc ++ [jz] ++ cb ++ [jb]) ++ post = pre ++ cc ++ ([jz] ++ cb ++ [jb] ++ post) := by
        simp [List.append_assoc]
      have hP2 : pre ++ (cc ++ [jz] ++ cb ++ [jb]) ++ post = (pre ++ cc ++ [jz]) ++ cb ++ ([jb] ++ post) := by
        simp [List.append_assoc]
      have hlen : (cc ++ [jz] ++ cb ++ [jb]).length = cc.length + 1 + cb.length + 1 := by simp; omega
      obtain ⟨cfgc, k1, k2, k3, k4, k5, k6, k7, k8, k9, k10⟩ :=
        condL env w hw ls cnd live busy base cc rc busy1 hc pre ([jz] ++ cb ++ [jb] ++ post) cfg s hb hpc hag hvr hvc
      rw [← hP1] at k1
      have hagc : AgreeL ls live cfgc (evalC env w cnd s).2 := hag.after_expr hvr k9 k4 k6 k7
      have hfetch : (pre ++ (cc ++ [jz] ++ cb ++ [jb]) ++ post)[cfgc.pc]? = some jz := by
        rw [k2]; exact getElem?_code pre _ post cc.length jz (by simp)
      have rj := Reaches.step (env := env) (w := w) hfetch
      simp only [topDecls, List.append_nil]
      simp only [exec] at hex ⊢
      generalize hr : evalC env w cnd s = r at hex k3 k6 k7 k8 hagc ⊢
      obtain ⟨bv, s1⟩ := r
      have k8' : s1.outs = s.outs := k8
      have hagc' : AgreeL ls live cfgc s1 := hagc
      have hagj : AgreeL ls live (execInstr env w cfgc jz) s1 := ⟨hagc'.regv, hagc'.memv, hagc'.rc⟩
      have hoj : (execInstr env w cfgc jz).outs = s1.outs := by simp [jz, execInstr, k5, ho, k8']
      cases bv with
      | false =>
        simp only at hex k3 ⊢
        refine ⟨execInstr env w cfgc jz, k1.trans rj, ?_, hagj, hoj⟩
        simp [jz, execInstr, k3, hb]; omega
      | true =>
        simp only at hex k3 ⊢
        generalize hrb : exec env w fuel body s1 = rb at hex ⊢
        obtain ⟨s2, f2⟩ := rb
        cases f2 with
        | false => simp at hex
        | true =>
          simp only at hex ⊢
          have hpcj : (execInstr env w cfgc jz).pc = (pre ++ cc ++ [jz]).length := by
            simp [jz, execInstr, k3, k2]; omega
          obtain ⟨cfg2, y1, y2, y3, y4⟩ := hall body live (base + cc.length + 1) (busy1.erase rc) cb busy2 hcb hwb
            (hvr.mono k10) hinj (pre ++ cc ++ [jz]) ([jb] ++ post) _ s1 (by rw [hb]; simp; omega) hpcj hagj hoj
            (by rw [hrb])
          rw [hrb] at y3 y4
          rw [← hP2] at y1
          have hfetch2 : (pre ++ (cc ++ [jz] ++ cb ++ [jb]) ++ post)[cfg2.pc]? = some jb := by
            rw [y2]
            have := getElem?_code pre (cc ++ [jz] ++ cb ++ [jb]) post (cc.length + 1 + cb.length) jb (by
              rw [List.getElem?_append_right (by simp; omega)]
              have : cc.length + 1 + cb.length - (cc ++ [jz] ++ cb).length = 0 := by simp; omega
              rw [this]; rfl)
            simpa [Nat.add_assoc] using this
          have rn := Reaches.step (env := env) (w := w) hfetch2
          have y3' := y3.mono (live := live) (fun x hx => List.mem_append_left _ hx)
          -- back at the loop head: the same statement with one unit of fuel less
          obtain ⟨cfg3, z1, z2, z3, z4⟩ := hall (.loop (some cnd) body) live base busy _ _ h0 hwf0 hvr hinj
            pre post (execInstr env w cfg2 jb) s2 hb (by simp [jb, execInstr, hb])
            ⟨y3'.regv, y3'.memv, y3'.rc⟩ (by simpa [jb, execInstr] using y4) hex
          simp only [topDecls, List.append_nil] at z3
          exact ⟨cfg3, k1.trans (rj.trans (y1.trans (rn.trans z1))), z2, z3, z4⟩

/-- all statements at a given fuel, provided loops at that fuel are fine -/
theorem stmtOK_struct (env : Nat → Nat → Nat) (w : Nat) (hw : 0 < w) (fuel : Nat) (ls : List Loc)
    (hloop : ∀ oc body, StmtOK env w ls fuel (.loop oc body)) : ∀ st, StmtOK env w ls fuel st := by
  intro st
  induction st with
  | skip => exact stmtOK_skip env w fuel ls
  | seq a b iha ihb => exact stmtOK_seq env w fuel ls a b iha ihb
  | assign x e => exact stmtOK_assign env w fuel ls x e
  | inc x => exact stmtOK_inc env w fuel ls x
  | dec x => exact stmtOK_dec env w fuel ls x
  | decl x => exact stmtOK_decl env w fuel ls x
  | iowrite o e => exact stmtOK_iowrite env w fuel ls o e
  | ifThen c t iht => exact stmtOK_ifThen env w hw fuel ls c t iht
  | ifElse c t e iht ihe => exact stmtOK_ifElse env w hw fuel ls c t e iht ihe
  | loop oc body _ => exact hloop oc body
  | brk => intro _ _ _ _ _ h; simp [compileS] at h
  | cont => intro _ _ _ _ _ h; simp [compileS] at h
  | loopP _ _ _ _ _ => intro _ _ _ _ _ h; simp [compileS] at h
  | tassign _ => intro _ _ _ _ _ h; simp [compileS] at h
  | define _ => intro _ _ _ _ _ h; simp [compileS] at h
  | switch _ _ _ => intro _ _ _ _ _ h; simp [compileS] at h
  | swCase _ _ _ _ _ => intro _ _ _ _ _ h; simp [compileS] at h
  | swDefault _ _ => intro _ _ _ _ _ h; simp [compileS] at h

/-- the simulation theorem: every statement, every fuel -/
theorem stmtOK_all (env : Nat → Nat → Nat) (w : Nat) (hw : 0 < w) (ls : List Loc) :
    ∀ fuel st, StmtOK env w ls fuel st := by
  intro fuel
  induction fuel with
  | zero => exact stmtOK_struct env w hw 0 ls (fun oc body => stmtOK_loop_zero env w ls oc body)
  | succ f ih =>
    refine stmtOK_struct env w hw (f + 1) ls (fun oc body => ?_)
    cases oc with
    | none => exact stmtOK_loop_none env w (f + 1) ls body
    | some cnd => exact stmtOK_loop_succ env w hw f ls ih cnd body



/-! ### whole structured programs -/

/-- the scoping / placement check of a whole program: the body is checked against the locations
    `allLocs` computes, starting with the top-level variables in scope -/
def wfProg (p : Prog) : Bool := wfS (allLocs p) p.body (List.range p.decls.length)

theorem locsFrom_length (ds : List Bool) : ∀ busy m, (locsFrom ds busy m).length = ds.length := by
  induction ds with
  | nil => intro busy m; rfl
  | cons d ds ih => intro busy m; cases d <;> simp [locsFrom, ih]

theorem defCells_facts (ps : List (Nat × Expr)) :
    ∀ mems, (∀ l ∈ (defCells ps mems).1, ∃ m, l = Loc.mem m) ∧ (defCells ps mems).1.length = ps.length ∧
      (∀ m ∈ mems, m ∈ (defCells ps mems).2.1) ∧ (∀ c ∈ (defCells ps mems).2.2, c ∉ mems) := by
  induction ps with
  | nil => intro mems; simp [defCells]
  | cons p ps ih =>
    intro mems
    obtain ⟨i1, i2, i3, i4⟩ := ih (fresh mems :: mems)
    simp only [defCells]
    refine ⟨fun l hl => ?_, by simp [i2], fun m hm => i3 m (List.mem_cons_of_mem _ hm), fun c hc => ?_⟩
    · rcases List.mem_cons.mp hl with h' | h'
      · exact ⟨_, h'⟩
      · exact i1 l h'
    · rcases List.mem_cons.mp hc with h' | h'
      · subst h'; exact fresh_not_mem _
      · exact fun hm => i4 c h' (List.mem_cons_of_mem _ hm)


theorem blockLocs_mem (st : Stmt) : ∀ mems, ∀ l ∈ (blockLocs st mems).1, ∃ m, l = Loc.mem m := by
  induction st with
  | seq a b iha ihb =>
    intro mems l hl
    simp only [blockLocs, List.mem_append] at hl
    rcases hl with hl | hl
    · exact iha _ l hl
    · exact ihb _ l hl
  | decl x => intro mems l hl; simp only [blockLocs, List.mem_singleton] at hl; exact ⟨_, hl⟩
  | skip => intro mems l hl; simp [blockLocs] at hl
  | assign _ _ => intro mems l hl; simp [blockLocs] at hl
  | inc _ => intro mems l hl; simp [blockLocs] at hl
  | dec _ => intro mems l hl; simp [blockLocs] at hl
  | iowrite _ _ => intro mems l hl; simp [blockLocs] at hl
  | ifThen _ t iht => intro mems l hl; simp only [blockLocs] at hl; exact iht _ l hl
  | ifElse _ t e iht ihe =>
    intro mems l hl
    simp only [blockLocs, List.mem_append] at hl
    rcases hl with hl | hl
    · exact iht _ l hl
    · exact ihe _ l hl
  | loop _ b ihb => intro mems l hl; simp only [blockLocs] at hl; exact ihb _ l hl
  | brk => intro mems l hl; simp [blockLocs] at hl
  | cont => intro mems l hl; simp [blockLocs] at hl
  | tassign _ => intro mems l hl; simp [blockLocs] at hl
  | define ps => intro mems l hl; exact (defCells_facts ps mems).1 l (by simpa [blockLocs] using hl)
  | switch _ cs ih => intro mems l hl; simp only [blockLocs] at hl; exact ih _ l hl
  | swDefault b ih => intro mems l hl; simp only [blockLocs] at hl; exact ih _ l hl
  | swCase _ b r ihb ihr =>
    intro mems l hl
    simp only [blockLocs, List.mem_append] at hl
    rcases hl with hl | hl
    · exact ihb _ l hl
    · exact ihr _ l hl
  | loopP _ b p ihb ihp =>
    intro mems l hl
    simp only [blockLocs, List.mem_append] at hl
    rcases hl with hl | hl
    · exact ihb _ l hl
    · exact ihp _ l hl

theorem allLocs_top (p : Prog) (x : Nat) (hx : x < p.decls.length) : (allLocs p)[x]? = (locs p.decls)[x]? := by
  unfold allLocs
  exact List.getElem?_append_left (by rw [locs, locsFrom_length]; exact hx)

theorem allLocs_varRegs (p : Prog) : VarRegsIn (allLocs p) (varRegs (locs p.decls)) := by
  intro x g hl
  by_cases hx : x < p.decls.length
  · rw [allLocs_top p x hx] at hl
    exact mem_varRegs hl
  · unfold allLocs at hl
    rw [List.getElem?_append_right (by rw [locs, locsFrom_length]; omega)] at hl
    obtain ⟨m, hm⟩ := blockLocs_mem p.body _ _ (List.mem_of_getElem? hl)
    cases hm

theorem allLocs_liveInj (p : Prog) : LiveInj (allLocs p) (List.range p.decls.length) := by
  intro x hx y hy l hlx hly
  rw [allLocs_top p x (List.mem_range.mp hx)] at hlx
  rw [allLocs_top p y (List.mem_range.mp hy)] at hly
  exact locs_inj p.decls x y l hlx hly

/-- Structured programs (`if`/`else`, conditional `for`, block-local declarations): whenever `main`
    returns within the fuel, the compiled program — started from the reset state — reaches after
    some number of instructions a state past its last instruction, having written exactly the
    outputs of `goEval`. -/
theorem compile_structured (env : Nat → Nat → Nat) (w : Nat) (hw : 0 < w) (fuel : Nat) (p : Prog)
    (code : List Instr) (hc : compile p = some code) (hwf : wfProg p = true)
    (hdone : (goEval env w fuel p).2 = true) :
    ∃ n, runCode env w code n = ((goEval env w fuel p).1, true) := by
  unfold compile at hc
  simp only at hc
  split at hc
  · rename_i c busy' hcs
    simp only [Option.some.injEq] at hc
    subst hc
    have hz0 : ZeroState ({} : Cfg) := ⟨rfl, rfl, rfl, rfl⟩
    have hpre := preamble_run env w p.decls [] 0 [] c {} rfl hz0
    simp only [List.nil_append, List.length_nil, Nat.zero_add] at hpre
    obtain ⟨hp1, hp2⟩ := hpre
    have hag : AgreeL (allLocs p) (List.range p.decls.length)
        (isaRun env w (preamble p.decls ++ c) (preamble p.decls).length {}) {} := by
      refine ⟨fun x _ g _ => ?_, fun x _ m _ => ?_, ?_⟩
      · show (isaRun env w (preambleFrom p.decls [] 0 ++ c) (preambleFrom p.decls [] 0).length {}).regs g = 0
        rw [hp2.regs]
      · show (isaRun env w (preambleFrom p.decls [] 0 ++ c) (preambleFrom p.decls [] 0).length {}).mem m = 0
        rw [hp2.mem]
      · exact hp2.rc
    have hst := stmtOK_all env w hw (allLocs p) fuel p.body (List.range p.decls.length)
      (preamble p.decls).length (varRegs (locs p.decls)) c busy' hcs hwf (allLocs_varRegs p) (allLocs_liveInj p)
      (preamble p.decls) [] _ {} rfl hp1 hag hp2.outs hdone
    simp only [List.append_nil] at hst
    obtain ⟨cfg', ⟨n, hn⟩, s2, _, s4⟩ := hst
    refine ⟨(preamble p.decls).length + n, ?_⟩
    have hn' : isaRun env w (preamble p.decls ++ c) n
        (isaRun env w (preamble p.decls ++ c) (preamble p.decls).length {}) = cfg' := hn
    simp only [runCode, goEval]
    rw [isaRun_add, hn', s4, s2]
    simp
  · cases hc



/-! ### runs that exhaust the loop fuel: the outputs produced so far are produced by the machine -/

def StmtTO (env : Nat → Nat → Nat) (w : Nat) (ls : List Loc) (fuel : Nat) (st : Stmt) : Prop :=
  ∀ (live : List Nat) (base : Nat) (busy : List Nat) (c : List Instr) (busy' : List Nat),
    compileS ls st base busy = some (c, busy') → wfS ls st live = true → VarRegsIn ls busy → LiveInj ls live →
    ∀ (pre post : List Instr) (cfg : Cfg) (s : Src), base = pre.length → cfg.pc = pre.length →
      AgreeL ls live cfg s → cfg.outs = s.outs → (exec env w fuel st s).2 = false →
      ∃ cfg', Reaches env w (pre ++ c ++ post) cfg cfg' ∧ cfg'.outs = (exec env w fuel st s).1.outs

theorem stmtTO_seq (env : Nat → Nat → Nat) (w : Nat) (hw : 0 < w) (fuel : Nat) (ls : List Loc) (a b : Stmt)
    (iha : StmtTO env w ls fuel a) (ihb : StmtTO env w ls fuel b) : StmtTO env w ls fuel (.seq a b) := by
  intro live base busy c busy' h hwf hvr hinj pre post cfg s hb hpc hag ho hex
  simp only [wfS, Bool.and_eq_true] at hwf
  simp only [compileS] at h
  split at h
  · cases h
  · rename_i c1 busy1 h1
    split at h
    · cases h
    · rename_i c2 busy2 h2
      simp only [Option.some.injEq, Prod.mk.injEq] at h
      obtain ⟨e1, e2⟩ := h; subst e1; subst e2
      have hP1 : pre ++ (c1 ++ c2) ++ post = pre ++ c1 ++ (c2 ++ post) := by simp [List.append_assoc]
      have hP2 : pre ++ (c1 ++ c2) ++ post = (pre ++ c1) ++ c2 ++ post := by simp [List.append_assoc]
      simp only [exec] at hex ⊢
      generalize hr : exec env w fuel a s = r at hex ⊢
      obtain ⟨s1, f1⟩ := r
      cases f1 with
      | false =>
        simp only at hex ⊢
        obtain ⟨cfg1, x1, x2⟩ := iha live base busy c1 busy1 h1 hwf.1 hvr hinj pre (c2 ++ post) cfg s hb hpc hag ho
          (by rw [hr])
        rw [hr] at x2
        rw [← hP1] at x1
        exact ⟨cfg1, x1, x2⟩
      | true =>
        simp only at hex ⊢
        obtain ⟨cfg1, x1, x2, x3, x4⟩ := stmtOK_all env w hw ls fuel a live base busy c1 busy1 h1 hwf.1 hvr hinj
          pre (c2 ++ post) cfg s hb hpc hag ho (by rw [hr])
        rw [hr] at x3 x4
        rw [← hP1] at x1
        obtain ⟨cfg2, y1, y2⟩ := ihb (live ++ topDecls a) (base + c1.length) busy1 c2 busy2 h2 hwf.2
          (hvr.mono (compileS_mono ls a _ _ _ _ h1)) (wfS_liveInj ls a live hwf.1 hinj)
          (pre ++ c1) post cfg1 s1 (by rw [hb]; simp) (by rw [x2]; simp) x3 x4 hex
        rw [← hP2] at y1
        exact ⟨cfg2, x1.trans y1, y2⟩

theorem stmtTO_ifThen (env : Nat → Nat → Nat) (w : Nat) (hw : 0 < w) (fuel : Nat) (ls : List Loc)
    (cnd : Cond) (t : Stmt) (iht : StmtTO env w ls fuel t) : StmtTO env w ls fuel (.ifThen cnd t) := by
  intro live base busy c busy' h hwf hvr hinj pre post cfg s hb hpc hag ho hex
  simp only [wfS, Bool.and_eq_true, List.all_eq_true, List.contains_iff_mem] at hwf
  obtain ⟨hvc, hwt⟩ := hwf
  simp only [compileS] at h
  split at h
  · cases h
  · rename_i cc rc busy1 hc
    split at h
    · cases h
    · rename_i ct busy2 ht
      simp only [Option.some.injEq, Prod.mk.injEq] at h
      obtain ⟨e1, e2⟩ := h; subst e1; subst e2
      let jz : Instr := .jz rc (base + cc.length + 1 + ct.length)
      have hP1 : pre ++ (cc ++ [jz] ++ ct) ++ post = pre ++ cc ++ ([jz] ++ ct ++ post) := by simp [List.append_assoc]
      have hP2 : pre ++ (cc ++ [jz] ++ ct) ++ post = (pre ++ cc ++ [jz]) ++ ct ++ post := by simp [List.append_assoc]
      obtain ⟨cfgc, k1, k2, k3, k4, k5, k6, k7, k8, k9, k10⟩ :=
        condL env w hw ls cnd live busy base cc rc busy1 hc pre ([jz] ++ ct ++ post) cfg s hb hpc hag hvr hvc
      rw [← hP1] at k1
      have hagc : AgreeL ls live cfgc (evalC env w cnd s).2 := hag.after_expr hvr k9 k4 k6 k7
      have hfetch : (pre ++ (cc ++ [jz] ++ ct) ++ post)[cfgc.pc]? = some jz := by
        rw [k2]; exact getElem?_code pre _ post cc.length jz (by simp)
      have rj := Reaches.step (env := env) (w := w) hfetch
      simp only [exec] at hex ⊢
      generalize hr : evalC env w cnd s = r at hex k3 k6 k7 k8 hagc ⊢
      obtain ⟨bv, s1⟩ := r
      have k8' : s1.outs = s.outs := k8
      have hagc' : AgreeL ls live cfgc s1 := hagc
      cases bv with
      | false => simp at hex
      | true =>
        simp only at hex k3 ⊢
        have hpcj : (execInstr env w cfgc jz).pc = (pre ++ cc ++ [jz]).length := by
          simp [jz, execInstr, k3, k2]; omega
        have hagj : AgreeL ls live (execInstr env w cfgc jz) s1 := ⟨hagc'.regv, hagc'.memv, hagc'.rc⟩
        obtain ⟨cfg2, y1, y2⟩ := iht live (base + cc.length + 1) (busy1.erase rc) ct busy2 ht hwt
          (hvr.mono k10) hinj (pre ++ cc ++ [jz]) post _ s1 (by rw [hb]; simp; omega) hpcj hagj
          (by simp [jz, execInstr, k5, ho, k8']) hex
        rw [← hP2] at y1
        exact ⟨cfg2, k1.trans (rj.trans y1), y2⟩

theorem stmtTO_ifElse (env : Nat → Nat → Nat) (w : Nat) (hw : 0 < w) (fuel : Nat) (ls : List Loc)
    (cnd : Cond) (t e : Stmt) (iht : StmtTO env w ls fuel t) (ihe : StmtTO env w ls fuel e) :
    StmtTO env w ls fuel (.ifElse cnd t e) := by
  intro live base busy c busy' h hwf hvr hinj pre post cfg s hb hpc hag ho hex
  simp only [wfS, Bool.and_eq_true, List.all_eq_true, List.contains_iff_mem] at hwf
  obtain ⟨⟨hvc, hwt⟩, hwe⟩ := hwf
  simp only [compileS] at h
  split at h
  · cases h
  · rename_i cc rc busy1 hc
    split at h
    · cases h
    · rename_i ct busy2 ht
      split at h
      · cases h
      · rename_i ce busy3 he
        simp only [Option.some.injEq, Prod.mk.injEq] at h
        obtain ⟨e1, e2⟩ := h; subst e1; subst e2
        let jz : Instr := .jz rc (base + cc.length + 1 + ct.length + 1)
        let jn : Instr := .j (base + cc.length + 1 + ct.length + 1 + ce.length)
        have hP1 : pre ++ (cc ++ [jz] ++ ct ++ [jn] ++ ce) ++ post = pre ++ cc ++ ([jz] ++ ct ++ [jn] ++ ce ++ post) := by
          simp [List.append_assoc]
        have hP2 : pre ++ (cc ++ [jz] ++ ct ++ [jn] ++ ce) ++ post = (pre ++ cc ++ [jz]) ++ ct ++ ([jn] ++ ce ++ post) := by
          simp [List.append_assoc]
        have hP3 : pre ++ (cc ++ [jz] ++ ct ++ [jn] ++ ce) ++ post = (pre ++ cc ++ [jz] ++ ct ++ [jn]) ++ ce ++ post := by
          simp [List.append_assoc]
        obtain ⟨cfgc, k1, k2, k3, k4, k5, k6, k7, k8, k9, k10⟩ :=
          condL env w hw ls cnd live busy base cc rc busy1 hc pre ([jz] ++ ct ++ [jn] ++ ce ++ post) cfg s hb hpc hag hvr hvc
        rw [← hP1] at k1
        have hagc : AgreeL ls live cfgc (evalC env w cnd s).2 := hag.after_expr hvr k9 k4 k6 k7
        have hfetch : (pre ++ (cc ++ [jz] ++ ct ++ [jn] ++ ce) ++ post)[cfgc.pc]? = some jz := by
          rw [k2]; exact getElem?_code pre _ post cc.length jz (by simp)
        have rj := Reaches.step (env := env) (w := w) hfetch
        simp only [exec] at hex ⊢
        generalize hr : evalC env w cnd s = r at hex k3 k6 k7 k8 hagc ⊢
        obtain ⟨bv, s1⟩ := r
        have k8' : s1.outs = s.outs := k8
        have hagc' : AgreeL ls live cfgc s1 := hagc
        have hagj : AgreeL ls live (execInstr env w cfgc jz) s1 := ⟨hagc'.regv, hagc'.memv, hagc'.rc⟩
        have hoj : (execInstr env w cfgc jz).outs = s1.outs := by simp [jz, execInstr, k5, ho, k8']
        cases bv with
        | true =>
          simp only at hex k3 ⊢
          have hpcj : (execInstr env w cfgc jz).pc = (pre ++ cc ++ [jz]).length := by
            simp [jz, execInstr, k3, k2]; omega
          obtain ⟨cfg2, y1, y2⟩ := iht live (base + cc.length + 1) (busy1.erase rc) ct busy2 ht hwt
            (hvr.mono k10) hinj (pre ++ cc ++ [jz]) ([jn] ++ ce ++ post) _ s1 (by rw [hb]; simp; omega) hpcj hagj hoj hex
          rw [← hP2] at y1
          exact ⟨cfg2, k1.trans (rj.trans y1), y2⟩
        | false =>
          simp only at hex k3 ⊢
          have hpcj : (execInstr env w cfgc jz).pc = (pre ++ cc ++ [jz] ++ ct ++ [jn]).length := by
            simp [jz, execInstr, k3, hb]; omega
          have hm2 : ∀ x ∈ busy, x ∈ busy2 := fun x hx => compileS_mono ls t _ _ _ _ ht x (k10 x hx)
          obtain ⟨cfg2, y1, y2⟩ := ihe live (base + cc.length + 1 + ct.length + 1) busy2 ce busy3 he hwe
            (hvr.mono hm2) hinj (pre ++ cc ++ [jz] ++ ct ++ [jn]) post _ s1 (by rw [hb]; simp; omega) hpcj hagj hoj hex
          rw [← hP3] at y1
          exact ⟨cfg2, k1.trans (rj.trans y1), y2⟩



theorem stmtTO_loop_zero (env : Nat → Nat → Nat) (w : Nat) (ls : List Loc) (oc : Option Cond) (body : Stmt) :
    StmtTO env w ls 0 (.loop oc body) := by
  intro live base busy c busy' h hwf hvr hinj pre post cfg s hb hpc hag ho hex
  refine ⟨cfg, Reaches.refl _ _ _ _, ?_⟩
  simp [exec, ho]

theorem stmtTO_loop_none_succ (env : Nat → Nat → Nat) (w : Nat) (hw : 0 < w) (fuel : Nat) (ls : List Loc)
    (hall : ∀ st, StmtTO env w ls fuel st) (body : Stmt) :
    StmtTO env w ls (fuel + 1) (.loop none body) := by
  intro live base busy c busy' h hwf hvr hinj pre post cfg s hb hpc hag ho hex
  have h0 := h
  have hwf0 := hwf
  simp only [wfS] at hwf
  simp only [compileS] at h
  split at h
  · cases h
  · rename_i cb busy1 hcb
    simp only [Option.some.injEq, Prod.mk.injEq] at h
    obtain ⟨e1, e2⟩ := h; subst e1; subst e2
    let jb : Instr := .j base
    have hP1 : pre ++ (cb ++ [jb]) ++ post = pre ++ cb ++ ([jb] ++ post) := by simp [List.append_assoc]
    simp only [exec] at hex ⊢
    generalize hrb : exec env w fuel body s = rb at hex ⊢
    obtain ⟨s1, f1⟩ := rb
    cases f1 with
    | false =>
      simp only at hex ⊢
      obtain ⟨cfg1, x1, x2⟩ := hall body live base busy cb busy1 hcb hwf hvr hinj pre ([jb] ++ post) cfg s hb hpc hag ho
        (by rw [hrb])
      rw [hrb] at x2
      rw [← hP1] at x1
      exact ⟨cfg1, x1, x2⟩
    | true =>
      simp only at hex ⊢
      obtain ⟨cfg1, x1, x2, x3, x4⟩ := stmtOK_all env w hw ls fuel body live base busy cb busy1 hcb hwf hvr hinj
        pre ([jb] ++ post) cfg s hb hpc hag ho (by rw [hrb])
      rw [hrb] at x3 x4
      rw [← hP1] at x1
      have hfetch : (pre ++ (cb ++ [jb]) ++ post)[cfg1.pc]? = some jb := by
        rw [x2]; exact getElem?_code pre _ post cb.length jb (by simp)
      have rn := Reaches.step (env := env) (w := w) hfetch
      have x3' := x3.mono (live := live) (fun x hx => List.mem_append_left _ hx)
      obtain ⟨cfg3, z1, z2⟩ := hall (.loop none body) live base busy _ _ h0 hwf0 hvr hinj
        pre post (execInstr env w cfg1 jb) s1 hb (by simp [jb, execInstr, hb])
        ⟨x3'.regv, x3'.memv, x3'.rc⟩ (by simpa [jb, execInstr] using x4) hex
      exact ⟨cfg3, x1.trans (rn.trans z1), z2⟩

theorem stmtTO_loop_some_succ (env : Nat → Nat → Nat) (w : Nat) (hw : 0 < w) (fuel : Nat) (ls : List Loc)
    (hall : ∀ st, StmtTO env w ls fuel st) (cnd : Cond) (body : Stmt) :
    StmtTO env w ls (fuel + 1) (.loop (some cnd) body) := by
  intro live base busy c busy' h hwf hvr hinj pre post cfg s hb hpc hag ho hex
  have h0 := h
  have hwf0 := hwf
  simp only [wfS, Bool.and_eq_true, List.all_eq_true, List.contains_iff_mem] at hwf
  obtain ⟨hvc, hwb⟩ := hwf
  simp only [compileS] at h
  split at h
  · cases h
  · rename_i cc rc busy1 hc
    split at h
    · cases h
    · rename_i cb busy2 hcb
      simp only [Option.some.injEq, Prod.mk.injEq] at h
      obtain ⟨e1, e2⟩ := h; subst e1; subst e2
      let jz : Instr := .jz rc (base + cc.length + 1 + cb.length + 1)
      let jb : Instr := .j base
      have hP1 : pre ++ (cc ++ [jz] ++ cb ++ [jb]) ++ post = pre ++ cc ++ ([jz] ++ cb ++ [jb] ++ post) := by
        simp [List.append_assoc]
      have hP2 : pre ++ (cc ++ [jz] ++ cb ++ [jb]) ++ post = (pre ++ cc ++ [jz]) ++ cb ++ ([jb] ++ post) := by
        simp [List.append_assoc]
      obtain ⟨cfgc, k1, k2, k3, k4, k5, k6, k7, k8, k9, k10⟩ :=
        condL env w hw ls cnd live busy base cc rc busy1 hc pre ([jz] ++ cb ++ [jb] ++ post) cfg s hb hpc hag hvr hvc
      rw [← hP1] at k1
      have hagc : AgreeL ls live cfgc (evalC env w cnd s).2 := hag.after_expr hvr k9 k4 k6 k7
      have hfetch : (pre ++ (cc ++ [jz] ++ cb ++ [jb]) ++ post)[cfgc.pc]? = some jz := by
        rw [k2]; exact getElem?_code pre _ post cc.length jz (by simp)
      have rj := Reaches.step (env := env) (w := w) hfetch
      simp only [exec] at hex ⊢
      generalize hr : evalC env w cnd s = r at hex k3 k6 k7 k8 hagc ⊢
      obtain ⟨bv, s1⟩ := r
      have k8' : s1.outs = s.outs := k8
      have hagc' : AgreeL ls live cfgc s1 := hagc
      have hagj : AgreeL ls live (execInstr env w cfgc jz) s1 := ⟨hagc'.regv, hagc'.memv, hagc'.rc⟩
      have hoj : (execInstr env w cfgc jz).outs = s1.outs := by simp [jz, execInstr, k5, ho, k8']
      cases bv with
      | false => simp at hex
      | true =>
        simp only at hex k3 ⊢
        have hpcj : (execInstr env w cfgc jz).pc = (pre ++ cc ++ [jz]).length := by
          simp [jz, execInstr, k3, k2]; omega
        generalize hrb : exec env w fuel body s1 = rb at hex ⊢
        obtain ⟨s2, f2⟩ := rb
        cases f2 with
        | false =>
          simp only at hex ⊢
          obtain ⟨cfg2, y1, y2⟩ := hall body live (base + cc.length + 1) (busy1.erase rc) cb busy2 hcb hwb
            (hvr.mono k10) hinj (pre ++ cc ++ [jz]) ([jb] ++ post) _ s1 (by rw [hb]; simp; omega) hpcj hagj hoj
            (by rw [hrb])
          rw [hrb] at y2
          rw [← hP2] at y1
          exact ⟨cfg2, k1.trans (rj.trans y1), y2⟩
        | true =>
          simp only at hex ⊢
          obtain ⟨cfg2, y1, y2, y3, y4⟩ := stmtOK_all env w hw ls fuel body live (base + cc.length + 1) (busy1.erase rc)
            cb busy2 hcb hwb (hvr.mono k10) hinj (pre ++ cc ++ [jz]) ([jb] ++ post) _ s1 (by rw [hb]; simp; omega)
            hpcj hagj hoj (by rw [hrb])
          rw [hrb] at y3 y4
          rw [← hP2] at y1
          have hfetch2 : (pre ++ (cc ++ [jz] ++ cb ++ [jb]) ++ post)[cfg2.pc]? = some jb := by
            rw [y2]
            have := getElem?_code pre (cc ++ [jz] ++ cb ++ [jb]) post (cc.length + 1 + cb.length) jb (by
              rw [List.getElem?_append_right (by simp; omega)]
              have : cc.length + 1 + cb.length - (cc ++ [jz] ++ cb).length = 0 := by simp; omega
              rw [this]; rfl)
            simpa [Nat.add_assoc] using this
          have rn := Reaches.step (env := env) (w := w) hfetch2
          have y3' := y3.mono (live := live) (fun x hx => List.mem_append_left _ hx)
          obtain ⟨cfg3, z1, z2⟩ := hall (.loop (some cnd) body) live base busy _ _ h0 hwf0 hvr hinj
            pre post (execInstr env w cfg2 jb) s2 hb (by simp [jb, execInstr, hb])
            ⟨y3'.regv, y3'.memv, y3'.rc⟩ (by simpa [jb, execInstr] using y4) hex
          exact ⟨cfg3, k1.trans (rj.trans (y1.trans (rn.trans z1))), z2⟩

theorem stmtTO_struct (env : Nat → Nat → Nat) (w : Nat) (hw : 0 < w) (fuel : Nat) (ls : List Loc)
    (hloop : ∀ oc body, StmtTO env w ls fuel (.loop oc body)) : ∀ st, StmtTO env w ls fuel st := by
  intro st
  induction st with
  | skip => intro _ _ _ _ _ _ _ _ _ _ _ _ _ _ _ _ _ hex; simp [exec] at hex
  | assign x e => intro _ _ _ _ _ _ _ _ _ _ _ _ _ _ _ _ _ hex; simp [exec] at hex
  | inc x => intro _ _ _ _ _ _ _ _ _ _ _ _ _ _ _ _ _ hex; simp [exec] at hex
  | dec x => intro _ _ _ _ _ _ _ _ _ _ _ _ _ _ _ _ _ hex; simp [exec] at hex
  | decl x => intro _ _ _ _ _ _ _ _ _ _ _ _ _ _ _ _ _ hex; simp [exec] at hex
  | iowrite o e => intro _ _ _ _ _ _ _ _ _ _ _ _ _ _ _ _ _ hex; simp [exec] at hex
  | seq a b iha ihb => exact stmtTO_seq env w hw fuel ls a b iha ihb
  | ifThen c t iht => exact stmtTO_ifThen env w hw fuel ls c t iht
  | ifElse c t e iht ihe => exact stmtTO_ifElse env w hw fuel ls c t e iht ihe
  | loop oc body _ => exact hloop oc body
  | brk => intro _ _ _ _ _ h; simp [compileS] at h
  | cont => intro _ _ _ _ _ h; simp [compileS] at h
  | loopP _ _ _ _ _ => intro _ _ _ _ _ h; simp [compileS] at h
  | tassign _ => intro _ _ _ _ _ h; simp [compileS] at h
  | define _ => intro _ _ _ _ _ h; simp [compileS] at h
  | switch _ _ _ => intro _ _ _ _ _ h; simp [compileS] at h
  | swCase _ _ _ _ _ => intro _ _ _ _ _ h; simp [compileS] at h
  | swDefault _ _ => intro _ _ _ _ _ h; simp [compileS] at h

theorem stmtTO_all (env : Nat → Nat → Nat) (w : Nat) (hw : 0 < w) (ls : List Loc) :
    ∀ fuel st, StmtTO env w ls fuel st := by
  intro fuel
  induction fuel with
  | zero => exact stmtTO_struct env w hw 0 ls (fun oc body => stmtTO_loop_zero env w ls oc body)
  | succ f ih =>
    refine stmtTO_struct env w hw (f + 1) ls (fun oc body => ?_)
    cases oc with
    | none => exact stmtTO_loop_none_succ env w hw f ls ih body
    | some cnd => exact stmtTO_loop_some_succ env w hw f ls ih cnd body

/-- Whole programs, every fuel: the compiled program reaches a state whose output list is exactly
    what `goEval` produced within the fuel — whether `main` returned or the fuel ran out — and in
    the first case the machine has left the program. -/
theorem compile_prefix (env : Nat → Nat → Nat) (w : Nat) (hw : 0 < w) (fuel : Nat) (p : Prog)
    (code : List Instr) (hc : compile p = some code) (hwf : wfProg p = true) :
    ∃ n, (runCode env w code n).1 = (goEval env w fuel p).1 ∧
         ((goEval env w fuel p).2 = true → (runCode env w code n).2 = true) := by
  cases hd : (goEval env w fuel p).2 with
  | true =>
    obtain ⟨n, hn⟩ := compile_structured env w hw fuel p code hc hwf hd
    exact ⟨n, by rw [hn], fun _ => by rw [hn]⟩
  | false =>
    unfold compile at hc
    simp only at hc
    split at hc
    · rename_i c busy' hcs
      simp only [Option.some.injEq] at hc
      subst hc
      have hz0 : ZeroState ({} : Cfg) := ⟨rfl, rfl, rfl, rfl⟩
      have hpre := preamble_run env w p.decls [] 0 [] c {} rfl hz0
      simp only [List.nil_append, List.length_nil, Nat.zero_add] at hpre
      obtain ⟨hp1, hp2⟩ := hpre
      have hag : AgreeL (allLocs p) (List.range p.decls.length)
          (isaRun env w (preamble p.decls ++ c) (preamble p.decls).length {}) {} := by
        refine ⟨fun x _ g _ => ?_, fun x _ m _ => ?_, ?_⟩
        · show (isaRun env w (preambleFrom p.decls [] 0 ++ c) (preambleFrom p.decls [] 0).length {}).regs g = 0
          rw [hp2.regs]
        · show (isaRun env w (preambleFrom p.decls [] 0 ++ c) (preambleFrom p.decls [] 0).length {}).mem m = 0
          rw [hp2.mem]
        · exact hp2.rc
      have hst := stmtTO_all env w hw (allLocs p) fuel p.body (List.range p.decls.length)
        (preamble p.decls).length (varRegs (locs p.decls)) c busy' hcs hwf (allLocs_varRegs p) (allLocs_liveInj p)
        (preamble p.decls) [] _ {} rfl hp1 hag hp2.outs hd
      simp only [List.append_nil] at hst
      obtain ⟨cfg', ⟨n, hn⟩, s4⟩ := hst
      have hn' : isaRun env w (preamble p.decls ++ c) n
          (isaRun env w (preamble p.decls ++ c) (preamble p.decls).length {}) = cfg' := hn
      refine ⟨(preamble p.decls).length + n, ?_, fun h => by cases h⟩
      simp only [runCode, goEval]
      rw [isaRun_add, hn', s4]
    · cases hc



/-- The tail of a compiled comparison on a machine whose `je` does nothing (procbuilder's `je` today;
    modelled, as the oracle does, by a jump to the next instruction): whatever the operand
    registers hold, the result register ends up 0 — every compiled `==` is false there. -/
theorem cond_tail_je_noop (env : Nat → Nat → Nat) (w : Nat) (pre post : List Instr) (rc l : Nat) (cfg : Cfg)
    (hpc : cfg.pc = pre.length) (hl : l = pre.length) :
    ∃ cfg', Reaches env w (pre ++ [Instr.j (l + 1), Instr.rset rc 0, Instr.j (l + 4), Instr.rset rc 1] ++ post) cfg cfg' ∧
      cfg'.pc = l + 4 ∧ cfg'.regs rc = 0 ∧ cfg'.mem = cfg.mem ∧ cfg'.outs = cfg.outs ∧
      (∀ x, x ≠ rc → cfg'.regs x = cfg.regs x) := by
  let c1 := execInstr env w cfg (Instr.j (l + 1))
  let c2 := execInstr env w c1 (Instr.rset rc 0)
  let c3 := execInstr env w c2 (Instr.j (l + 4))
  have r1 : Reaches env w (pre ++ [Instr.j (l + 1), Instr.rset rc 0, Instr.j (l + 4), Instr.rset rc 1] ++ post) cfg c1 :=
    Reaches.step (by rw [hpc]; exact getElem?_code pre _ post 0 _ rfl)
  have c1pc : c1.pc = pre.length + 1 := by simp [c1, execInstr, hl]
  have r2 : Reaches env w (pre ++ [Instr.j (l + 1), Instr.rset rc 0, Instr.j (l + 4), Instr.rset rc 1] ++ post) c1 c2 :=
    Reaches.step (by rw [c1pc]; exact getElem?_code pre _ post 1 _ rfl)
  have c2pc : c2.pc = pre.length + 2 := by simp [c2, execInstr, c1pc]
  have r3 : Reaches env w (pre ++ [Instr.j (l + 1), Instr.rset rc 0, Instr.j (l + 4), Instr.rset rc 1] ++ post) c2 c3 :=
    Reaches.step (by rw [c2pc]; exact getElem?_code pre _ post 2 _ rfl)
  refine ⟨c3, r1.trans (r2.trans r3), by simp [c3, execInstr], by simp [c3, c2, execInstr, upd_same],
    by simp [c3, c2, c1, execInstr], by simp [c3, c2, c1, execInstr], fun x hx => ?_⟩
  simp [c3, c2, c1, execInstr, upd_other _ _ _ _ hx]

/-! ### the scoping condition of the full statement (no reference to locations) -/

/-- all declarations of a statement in textual order, nested blocks included -/
def declOrder : Stmt → List Nat
  | .seq a b => declOrder a ++ declOrder b
  | .decl x => [x]
  | .ifThen _ t => declOrder t
  | .ifElse _ t e => declOrder t ++ declOrder e
  | .loop _ b => declOrder b
  | .loopP _ b p => declOrder b ++ declOrder p
  | .define ps => ps.map (·.1)
  | .switch _ cs => declOrder cs
  | .swCase _ b r => declOrder b ++ declOrder r
  | .swDefault b => declOrder b
  | _ => []

/-- the variables a `:=` declares are new (and pairwise different) -/
def scopedNew : List Nat → List Nat → Bool
  | _, [] => true
  | live, x :: xs => !live.contains x && scopedNew (live ++ [x]) xs

/-- Go's scoping rule on unique indices: whatever is read or written is in scope, a declaration
    introduces a new variable -/
def scopedS : Stmt → List Nat → Bool
  | .skip, _ => true
  | .seq a b, live => scopedS a live && scopedS b (live ++ topDecls a)
  | .decl x, live => !live.contains x
  | .assign x e, live => live.contains x && (exprVars e).all live.contains
  | .inc x, live => live.contains x
  | .dec x, live => live.contains x
  | .iowrite _ e, live => (exprVars e).all live.contains
  | .ifThen c t, live => (condVars c).all live.contains && scopedS t live
  | .ifElse c t e, live => (condVars c).all live.contains && scopedS t live && scopedS e live
  | .loop none b, live => scopedS b live
  | .loop (some c) b, live => (condVars c).all live.contains && scopedS b live
  | .brk, _ => true
  | .cont, _ => true
  | .loopP c b p, live => (condVars c).all live.contains && scopedS b live && scopedS p live
  | .tassign ps, live => ps.all fun p => live.contains p.1 && (exprVars p.2).all live.contains
  | .define ps, live => (ps.all fun p => (exprVars p.2).all live.contains) && scopedNew live (ps.map (·.1))
  | .switch tag cs, live => (exprVars tag).all live.contains && isChain cs && scopedS cs live
  | .swCase _ b r, live => scopedS b live && scopedS r live
  | .swDefault b, live => scopedS b live

/-- a program after name resolution: well scoped, block-local variables numbered in textual order
    after the top-level ones -/
def scopedProg (p : Prog) : Bool :=
  scopedS p.body (List.range p.decls.length) &&
  (declOrder p.body == List.range' p.decls.length (declOrder p.body).length)



/-! ### soundness of the cell release discipline (`blockLocs`) -/

theorem mem_foldl_erase {m : Nat} : ∀ (tt l : List Nat), m ∈ l → m ∉ tt → m ∈ tt.foldl List.erase l := by
  intro tt
  induction tt with
  | nil => intro l h _; exact h
  | cons t tt ih =>
    intro l h hn
    simp only [List.foldl_cons]
    have h1 : m ≠ t := fun e => hn (e ▸ List.mem_cons_self)
    exact ih _ ((List.mem_erase_of_ne h1).mpr h) (fun h' => hn (List.mem_cons_of_mem _ h'))

/-- (N) one location per declaration -/
theorem blockLocs_length (st : Stmt) : ∀ mems, (blockLocs st mems).1.length = (declOrder st).length := by
  induction st with
  | seq a b iha ihb => intro mems; simp [blockLocs, declOrder, iha, ihb]
  | decl x => intro mems; simp [blockLocs, declOrder]
  | skip => intro mems; simp [blockLocs, declOrder]
  | assign _ _ => intro mems; simp [blockLocs, declOrder]
  | inc _ => intro mems; simp [blockLocs, declOrder]
  | dec _ => intro mems; simp [blockLocs, declOrder]
  | iowrite _ _ => intro mems; simp [blockLocs, declOrder]
  | ifThen _ t iht => intro mems; simp [blockLocs, declOrder, iht]
  | ifElse _ t e iht ihe => intro mems; simp [blockLocs, declOrder, iht, ihe]
  | loop _ b ihb => intro mems; simp [blockLocs, declOrder, ihb]
  | brk => intro mems; simp [blockLocs, declOrder]
  | cont => intro mems; simp [blockLocs, declOrder]
  | tassign _ => intro mems; simp [blockLocs, declOrder]
  | define ps => intro mems; simp [blockLocs, declOrder, (defCells_facts ps mems).2.1]
  | switch _ cs ih => intro mems; simp [blockLocs, declOrder, ih]
  | swCase _ b r ihb ihr => intro mems; simp [blockLocs, declOrder, ihb, ihr]
  | swDefault b ih => intro mems; simp [blockLocs, declOrder, ih]
  | loopP _ b p ihb ihp => intro mems; simp [blockLocs, declOrder, ihb, ihp]

/-- (M) cells that are busy stay busy, and (T) the cells of the declarations made directly in the
    sequence were free before -/
theorem blockLocs_mono (st : Stmt) :
    ∀ mems, (∀ m ∈ mems, m ∈ (blockLocs st mems).2.1) ∧ (∀ c ∈ (blockLocs st mems).2.2, c ∉ mems) := by
  induction st with
  | seq a b iha ihb =>
    intro mems
    obtain ⟨a1, a2⟩ := iha mems
    obtain ⟨b1, b2⟩ := ihb (blockLocs a mems).2.1
    simp only [blockLocs]
    refine ⟨fun m hm => b1 m (a1 m hm), fun c hc => ?_⟩
    rcases List.mem_append.mp hc with hc | hc
    · exact a2 c hc
    · exact fun hm => b2 c hc (a1 c hm)
  | decl x =>
    intro mems
    simp only [blockLocs]
    exact ⟨fun m hm => List.mem_cons_of_mem _ hm, fun c hc => by
      simp only [List.mem_singleton] at hc; subst hc; exact fresh_not_mem _⟩
  | skip => intro mems; simp [blockLocs]
  | assign _ _ => intro mems; simp [blockLocs]
  | inc _ => intro mems; simp [blockLocs]
  | dec _ => intro mems; simp [blockLocs]
  | iowrite _ _ => intro mems; simp [blockLocs]
  | ifThen _ t iht =>
    intro mems
    simp only [blockLocs]
    exact ⟨(iht mems).1, fun c hc => by cases hc⟩
  | ifElse _ t e iht ihe =>
    intro mems
    obtain ⟨t1, t2⟩ := iht mems
    simp only [blockLocs]
    refine ⟨fun m hm => ?_, fun c hc => by cases hc⟩
    refine (ihe _).1 m (mem_foldl_erase _ _ (t1 m hm) (fun hc => t2 m hc hm))
  | loop _ b ihb =>
    intro mems
    simp only [blockLocs]
    exact ⟨(ihb mems).1, fun c hc => by cases hc⟩
  | brk => intro mems; simp [blockLocs]
  | cont => intro mems; simp [blockLocs]
  | tassign _ => intro mems; simp [blockLocs]
  | define ps =>
    intro mems
    simp only [blockLocs]
    exact ⟨(defCells_facts ps mems).2.2.1, (defCells_facts ps mems).2.2.2⟩
  | switch _ cs ih =>
    intro mems
    simp only [blockLocs]
    exact ⟨(ih mems).1, fun c hc => by cases hc⟩
  | swDefault b ih =>
    intro mems
    simp only [blockLocs]
    exact ⟨(ih mems).1, fun c hc => by cases hc⟩
  | swCase _ b r ihb ihr =>
    intro mems
    simp only [blockLocs]
    exact ⟨fun m hm => (ihr _).1 m ((ihb mems).1 m hm), fun c hc => by cases hc⟩
  | loopP _ b p ihb ihp =>
    intro mems
    obtain ⟨t1, t2⟩ := ihb mems
    simp only [blockLocs]
    refine ⟨fun m hm => ?_, fun c hc => by cases hc⟩
    refine (ihp _).1 m (mem_foldl_erase _ _ (t1 m hm) (fun hc => t2 m hc hm))


theorem range'_split {A B : List Nat} {off : Nat} (h : A ++ B = List.range' off (A ++ B).length) :
    A = List.range' off A.length ∧ B = List.range' (off + A.length) B.length := by
  rw [List.length_append, ← List.range'_append_1] at h
  exact List.append_inj h (by simp)

theorem defCells_wf (ls : List Loc) (ps : List (Nat × Expr)) :
    ∀ (off : Nat) (mems live : List Nat),
      scopedNew live (ps.map (·.1)) = true →
      ps.map (·.1) = List.range' off ps.length →
      (∀ k, k < (defCells ps mems).1.length → ls[off + k]? = (defCells ps mems).1[k]?) →
      (∀ y ∈ live, ∀ m, ls[y]? = some (Loc.mem m) → m ∈ mems) →
      newCellsOK ls live (ps.map (·.1)) = true ∧
      (∀ y ∈ live ++ ps.map (·.1), ∀ m, ls[y]? = some (Loc.mem m) → m ∈ (defCells ps mems).2.1) := by
  induction ps with
  | nil => intro off mems live _ _ _ h4; exact ⟨rfl, by simpa [defCells] using h4⟩
  | cons p ps ih =>
    intro off mems live h1 h2 h3 h4
    simp only [List.map_cons, scopedNew, Bool.and_eq_true] at h1
    simp only [List.map_cons, List.length_cons, List.range'_succ, List.cons.injEq] at h2
    obtain ⟨hx, hrest⟩ := h2
    have hl0 : ls[p.1]? = some (Loc.mem (fresh mems)) := by
      have := h3 0 (by simp [defCells])
      simpa [defCells, hx] using this
    have h3' : ∀ k, k < (defCells ps (fresh mems :: mems)).1.length →
        ls[off + 1 + k]? = (defCells ps (fresh mems :: mems)).1[k]? := by
      intro k hk
      have := h3 (k + 1) (by simp only [defCells, List.length_cons]; omega)
      simp only [defCells, List.getElem?_cons_succ] at this
      rw [← this]; congr 1; omega
    have h4' : ∀ y ∈ live ++ [p.1], ∀ m, ls[y]? = some (Loc.mem m) → m ∈ fresh mems :: mems := by
      intro y hy m hyl
      rcases List.mem_append.mp hy with hy | hy
      · exact List.mem_cons_of_mem _ (h4 y hy m hyl)
      · simp only [List.mem_singleton] at hy; subst hy
        rw [hl0] at hyl; cases hyl
        exact List.mem_cons_self
    obtain ⟨w1, w2⟩ := ih (off + 1) (fresh mems :: mems) (live ++ [p.1]) h1.2 hrest h3' h4'
    refine ⟨?_, ?_⟩
    · simp only [List.map_cons, newCellsOK, hl0, Bool.and_eq_true, List.all_eq_true, bne_iff_ne, ne_eq]
      exact ⟨⟨h1.1, fun y hy hyl => fresh_not_mem mems (h4 y hy _ hyl)⟩, w1⟩
    · intro y hy m hyl
      simp only [defCells]
      exact w2 y (by simpa [List.append_assoc] using hy) m hyl


/-- the placement lemma: a well-scoped statement whose declarations are numbered in textual order
    from `off`, and whose locations sit at offset `off` of `ls`, passes the placement check — provided
    the cells of the variables in scope are busy — and keeps that invariant -/
theorem blockLocs_wf (ls : List Loc) (st : Stmt) :
    ∀ (off : Nat) (mems live : List Nat),
      scopedS st live = true →
      declOrder st = List.range' off (declOrder st).length →
      (∀ k, k < (blockLocs st mems).1.length → ls[off + k]? = (blockLocs st mems).1[k]?) →
      (∀ y ∈ live, ∀ m, ls[y]? = some (Loc.mem m) → m ∈ mems) →
      wfS ls st live = true ∧
      (∀ y ∈ live ++ topDecls st, ∀ m, ls[y]? = some (Loc.mem m) → m ∈ (blockLocs st mems).2.1) := by
  induction st with
  | skip =>
    intro off mems live _ _ _ h4
    exact ⟨rfl, by simpa [topDecls, blockLocs] using h4⟩
  | assign x e =>
    intro off mems live h1 _ _ h4
    exact ⟨by simpa [wfS, scopedS] using h1, by simpa [topDecls, blockLocs] using h4⟩
  | inc x =>
    intro off mems live h1 _ _ h4
    exact ⟨by simpa [wfS, scopedS] using h1, by simpa [topDecls, blockLocs] using h4⟩
  | dec x =>
    intro off mems live h1 _ _ h4
    exact ⟨by simpa [wfS, scopedS] using h1, by simpa [topDecls, blockLocs] using h4⟩
  | iowrite o e =>
    intro off mems live h1 _ _ h4
    exact ⟨by simpa [wfS, scopedS] using h1, by simpa [topDecls, blockLocs] using h4⟩
  | decl x =>
    intro off mems live h1 h2 h3 h4
    simp only [declOrder, List.length_singleton, List.range'_one, List.cons.injEq, and_true] at h2
    subst h2
    have hx : ls[x]? = some (Loc.mem (fresh mems)) := by
      have := h3 0 (by simp [blockLocs])
      simpa [blockLocs] using this
    simp only [scopedS] at h1
    refine ⟨?_, ?_⟩
    · simp only [wfS, hx, Bool.and_eq_true, List.all_eq_true, bne_iff_ne, ne_eq]
      exact ⟨h1, fun y hy hyl => fresh_not_mem mems (h4 y hy _ hyl)⟩
    · intro y hy m hyl
      simp only [topDecls] at hy
      simp only [blockLocs]
      rcases List.mem_append.mp hy with hy | hy
      · exact List.mem_cons_of_mem _ (h4 y hy m hyl)
      · simp only [List.mem_singleton] at hy; subst hy
        rw [hx] at hyl; cases hyl
        exact List.mem_cons_self
  | seq a b iha ihb =>
    intro off mems live h1 h2 h3 h4
    simp only [scopedS, Bool.and_eq_true] at h1
    simp only [declOrder] at h2
    obtain ⟨ra, rb⟩ := range'_split h2
    have hla := blockLocs_length a mems
    have hlb := blockLocs_length b (blockLocs a mems).2.1
    have h3a : ∀ k, k < (blockLocs a mems).1.length → ls[off + k]? = (blockLocs a mems).1[k]? := by
      intro k hk
      have := h3 k (by simp only [blockLocs, List.length_append]; omega)
      simpa [blockLocs, List.getElem?_append_left hk] using this
    obtain ⟨wa, ca⟩ := iha off mems live h1.1 ra h3a h4
    have h3b : ∀ k, k < (blockLocs b (blockLocs a mems).2.1).1.length →
        ls[off + (declOrder a).length + k]? = (blockLocs b (blockLocs a mems).2.1).1[k]? := by
      intro k hk
      have := h3 ((blockLocs a mems).1.length + k) (by simp only [blockLocs, List.length_append]; exact Nat.add_lt_add_left hk _)
      rw [← hla, Nat.add_assoc, this]
      simp only [blockLocs]
      rw [List.getElem?_append_right (by omega)]
      simp
    obtain ⟨wb, cb⟩ := ihb (off + (declOrder a).length) (blockLocs a mems).2.1 (live ++ topDecls a) h1.2 rb h3b ca
    refine ⟨by simp [wfS, wa, wb], ?_⟩
    simpa [topDecls, blockLocs, List.append_assoc] using cb
  | ifThen c t iht =>
    intro off mems live h1 h2 h3 h4
    simp only [scopedS, Bool.and_eq_true] at h1
    simp only [declOrder] at h2
    obtain ⟨wt, ct⟩ := iht off mems live h1.2 h2 (by simpa [blockLocs] using h3) h4
    refine ⟨by simp [wfS, h1.1, wt], fun y hy m hyl => ?_⟩
    simp only [topDecls, List.append_nil] at hy
    simpa [blockLocs] using ct y (List.mem_append_left _ hy) m hyl
  | loop oc b ihb =>
    intro off mems live h1 h2 h3 h4
    simp only [declOrder] at h2
    cases oc with
    | none =>
      simp only [scopedS] at h1
      obtain ⟨wb, cb⟩ := ihb off mems live h1 h2 (by simpa [blockLocs] using h3) h4
      refine ⟨by simp [wfS, wb], fun y hy m hyl => ?_⟩
      simp only [topDecls, List.append_nil] at hy
      simpa [blockLocs] using cb y (List.mem_append_left _ hy) m hyl
    | some c =>
      simp only [scopedS, Bool.and_eq_true] at h1
      obtain ⟨wb, cb⟩ := ihb off mems live h1.2 h2 (by simpa [blockLocs] using h3) h4
      refine ⟨by simp [wfS, h1.1, wb], fun y hy m hyl => ?_⟩
      simp only [topDecls, List.append_nil] at hy
      simpa [blockLocs] using cb y (List.mem_append_left _ hy) m hyl
  | ifElse c t e iht ihe =>
    intro off mems live h1 h2 h3 h4
    simp only [scopedS, Bool.and_eq_true] at h1
    simp only [declOrder] at h2
    obtain ⟨rt, re⟩ := range'_split h2
    have hlt := blockLocs_length t mems
    let memsE := (blockLocs t mems).2.2.foldl List.erase (blockLocs t mems).2.1
    have h3t : ∀ k, k < (blockLocs t mems).1.length → ls[off + k]? = (blockLocs t mems).1[k]? := by
      intro k hk
      have := h3 k (by simp only [blockLocs, List.length_append]; omega)
      simpa [blockLocs, List.getElem?_append_left hk] using this
    obtain ⟨wt, ct⟩ := iht off mems live h1.1.2 rt h3t h4
    have h3e : ∀ k, k < (blockLocs e memsE).1.length →
        ls[off + (declOrder t).length + k]? = (blockLocs e memsE).1[k]? := by
      intro k hk
      have := h3 ((blockLocs t mems).1.length + k) (by simp only [blockLocs, List.length_append]; exact Nat.add_lt_add_left hk _)
      rw [← hlt, Nat.add_assoc, this]
      simp only [blockLocs]
      rw [List.getElem?_append_right (by omega)]
      simp [memsE]
    obtain ⟨t1, t2⟩ := blockLocs_mono t mems
    have h4e : ∀ y ∈ live, ∀ m, ls[y]? = some (Loc.mem m) → m ∈ memsE := by
      intro y hy m hyl
      have hm := h4 y hy m hyl
      exact mem_foldl_erase _ _ (t1 m hm) (fun hc => t2 m hc hm)
    obtain ⟨we, ce⟩ := ihe (off + (declOrder t).length) memsE live h1.2 re h3e h4e
    refine ⟨by simp [wfS, h1.1.1, wt, we], fun y hy m hyl => ?_⟩
    simp only [topDecls, List.append_nil] at hy
    simpa [blockLocs, memsE] using ce y (List.mem_append_left _ hy) m hyl
  | brk =>
    intro off mems live _ _ _ h4
    exact ⟨rfl, by simpa [topDecls, blockLocs] using h4⟩
  | cont =>
    intro off mems live _ _ _ h4
    exact ⟨rfl, by simpa [topDecls, blockLocs] using h4⟩
  | tassign ps =>
    intro off mems live h1 _ _ h4
    exact ⟨by simpa [wfS, scopedS] using h1, by simpa [topDecls, blockLocs] using h4⟩
  | define ps =>
    intro off mems live h1 h2 h3 h4
    simp only [scopedS, Bool.and_eq_true] at h1
    simp only [declOrder, List.length_map] at h2
    obtain ⟨w1, w2⟩ := defCells_wf ls ps off mems live h1.2 h2 (by simpa [blockLocs] using h3) h4
    exact ⟨by simp only [wfS, Bool.and_eq_true]; exact ⟨h1.1, w1⟩, by simpa [topDecls, blockLocs] using w2⟩
  | switch tag cs ih =>
    intro off mems live h1 h2 h3 h4
    simp only [scopedS, Bool.and_eq_true] at h1
    simp only [declOrder] at h2
    obtain ⟨wt, ct⟩ := ih off mems live h1.2 h2 (by simpa [blockLocs] using h3) h4
    refine ⟨by simp [wfS, h1.1.1, h1.1.2, wt], fun y hy m hyl => ?_⟩
    simp only [topDecls, List.append_nil] at hy
    simpa [blockLocs] using ct y (List.mem_append_left _ hy) m hyl
  | swDefault b ih =>
    intro off mems live h1 h2 h3 h4
    simp only [scopedS] at h1
    simp only [declOrder] at h2
    obtain ⟨wt, ct⟩ := ih off mems live h1 h2 (by simpa [blockLocs] using h3) h4
    refine ⟨by simp [wfS, wt], fun y hy m hyl => ?_⟩
    simp only [topDecls, List.append_nil] at hy
    simpa [blockLocs] using ct y (List.mem_append_left _ hy) m hyl
  | swCase v a b iha ihb =>
    intro off mems live h1 h2 h3 h4
    simp only [scopedS, Bool.and_eq_true] at h1
    simp only [declOrder] at h2
    obtain ⟨ra, rb⟩ := range'_split h2
    have hla := blockLocs_length a mems
    have h3a : ∀ k, k < (blockLocs a mems).1.length → ls[off + k]? = (blockLocs a mems).1[k]? := by
      intro k hk
      have := h3 k (by simp only [blockLocs, List.length_append]; omega)
      simpa [blockLocs, List.getElem?_append_left hk] using this
    obtain ⟨wa, ca⟩ := iha off mems live h1.1 ra h3a h4
    have h3b : ∀ k, k < (blockLocs b (blockLocs a mems).2.1).1.length →
        ls[off + (declOrder a).length + k]? = (blockLocs b (blockLocs a mems).2.1).1[k]? := by
      intro k hk
      have := h3 ((blockLocs a mems).1.length + k) (by simp only [blockLocs, List.length_append]; exact Nat.add_lt_add_left hk _)
      rw [← hla, Nat.add_assoc, this]
      simp only [blockLocs]
      rw [List.getElem?_append_right (by omega)]
      simp
    obtain ⟨wb, cb⟩ := ihb (off + (declOrder a).length) (blockLocs a mems).2.1 live h1.2 rb h3b
      (fun y hy m hyl => ca y (List.mem_append_left _ hy) m hyl)
    refine ⟨by simp [wfS, wa, wb], fun y hy m hyl => ?_⟩
    simp only [topDecls, List.append_nil] at hy
    simpa [blockLocs] using cb y (List.mem_append_left _ hy) m hyl
  | loopP c b q ihb ihq =>
    intro off mems live h1 h2 h3 h4
    simp only [scopedS, Bool.and_eq_true] at h1
    simp only [declOrder] at h2
    obtain ⟨rt, re⟩ := range'_split h2
    have hlt := blockLocs_length b mems
    let memsE := (blockLocs b mems).2.2.foldl List.erase (blockLocs b mems).2.1
    have h3t : ∀ k, k < (blockLocs b mems).1.length → ls[off + k]? = (blockLocs b mems).1[k]? := by
      intro k hk
      have := h3 k (by simp only [blockLocs, List.length_append]; omega)
      simpa [blockLocs, List.getElem?_append_left hk] using this
    obtain ⟨wt, ct⟩ := ihb off mems live h1.1.2 rt h3t h4
    have h3e : ∀ k, k < (blockLocs q memsE).1.length →
        ls[off + (declOrder b).length + k]? = (blockLocs q memsE).1[k]? := by
      intro k hk
      have := h3 ((blockLocs b mems).1.length + k) (by simp only [blockLocs, List.length_append]; exact Nat.add_lt_add_left hk _)
      rw [← hlt, Nat.add_assoc, this]
      simp only [blockLocs]
      rw [List.getElem?_append_right (by omega)]
      simp [memsE]
    obtain ⟨t1, t2⟩ := blockLocs_mono b mems
    have h4e : ∀ y ∈ live, ∀ m, ls[y]? = some (Loc.mem m) → m ∈ memsE := by
      intro y hy m hyl
      have hm := h4 y hy m hyl
      exact mem_foldl_erase _ _ (t1 m hm) (fun hc => t2 m hc hm)
    obtain ⟨we, ce⟩ := ihq (off + (declOrder b).length) memsE live h1.2 re h3e h4e
    refine ⟨by simp [wfS, h1.1.1, wt, we], fun y hy m hyl => ?_⟩
    simp only [topDecls, List.append_nil] at hy
    simpa [blockLocs, memsE] using ce y (List.mem_append_left _ hy) m hyl

theorem mem_memCells {ls : List Loc} {x m : Nat} (h : ls[x]? = some (Loc.mem m)) : m ∈ memCells ls := by
  unfold memCells
  exact List.mem_filterMap.mpr ⟨.mem m, List.mem_of_getElem? h, rfl⟩

/-- Soundness of the cell release discipline: every well-scoped program passes the placement check. -/
theorem placement_sound (p : Prog) (h : scopedProg p = true) : wfProg p = true := by
  simp only [scopedProg, Bool.and_eq_true, beq_iff_eq] at h
  obtain ⟨hs, hd⟩ := h
  have hlen : (locs p.decls).length = p.decls.length := by rw [locs, locsFrom_length]
  refine (blockLocs_wf (allLocs p) p.body p.decls.length (memCells (locs p.decls)) (List.range p.decls.length)
    hs hd ?_ ?_).1
  · intro k hk
    unfold allLocs
    rw [List.getElem?_append_right (by omega)]
    simp [hlen]
  · intro y hy m hyl
    rw [allLocs_top p y (List.mem_range.mp hy)] at hyl
    exact mem_memCells hyl



/-! ### `break` / `continue` / post clauses: the extended compiler `compileX` -/

theorem compileE_len (ls : List Loc) (e : Expr) :
    ∀ busy c r busy', compileE ls e busy = some (c, r, busy') → c.length = exprLen e := by
  induction e with
  | lit n => intro busy c r busy' h; simp only [compileE, Option.some.injEq, Prod.mk.injEq] at h; rw [← h.1]; rfl
  | ioread i => intro busy c r busy' h; simp only [compileE, Option.some.injEq, Prod.mk.injEq] at h; rw [← h.1]; rfl
  | var x =>
    intro busy c r busy' h
    simp only [compileE] at h
    split at h <;> simp only [Option.some.injEq, Prod.mk.injEq, reduceCtorEq] at h
    all_goals (rw [← h.1]; rfl)
  | add a b iha ihb =>
    intro busy c r busy' h
    simp only [compileE] at h
    split at h
    · cases h
    · rename_i ca ra busy1 ha
      split at h
      · cases h
      · rename_i cb rb busy2 hb
        simp only [Option.some.injEq, Prod.mk.injEq] at h
        rw [← h.1]; simp [exprLen, iha _ _ _ _ ha, ihb _ _ _ _ hb]; omega
  | mul a b iha ihb =>
    intro busy c r busy' h
    simp only [compileE] at h
    split at h
    · cases h
    · rename_i ca ra busy1 ha
      split at h
      · cases h
      · rename_i cb rb busy2 hb
        simp only [Option.some.injEq, Prod.mk.injEq] at h
        rw [← h.1]; simp [exprLen, iha _ _ _ _ ha, ihb _ _ _ _ hb]; omega

theorem compileC_len (ls : List Loc) (base : Nat) (cnd : Cond) (busy : List Nat) (cc : List Instr) (rc : Nat)
    (busy1 : List Nat) (h : compileC ls base cnd busy = some (cc, rc, busy1)) : cc.length = condLen cnd := by
  cases cnd with
  | eq a b =>
  simp only [compileC] at h
  split at h
  · cases h
  · rename_i ca ra busyA ha
    split at h
    · cases h
    · rename_i cb rb busyB hcb
      simp only [Option.some.injEq, Prod.mk.injEq] at h
      rw [← h.1]; simp [condLen, compileE_len ls a _ _ _ _ ha, compileE_len ls b _ _ _ _ hcb]; omega


/-! ### tuple assignment -/

theorem compileEs_facts (ls : List Loc) (es : List Expr) :
    ∀ busy c rs busy', compileEs ls es busy = some (c, rs, busy') →
      c.length = (es.map exprLen).sum ∧ rs.length = es.length ∧ (∀ r ∈ rs, r ∉ busy) ∧
      (∀ r ∈ rs, r ∈ busy') ∧ (∀ x ∈ busy, x ∈ busy') := by
  induction es with
  | nil =>
    intro busy c rs busy' h
    simp only [compileEs, Option.some.injEq, Prod.mk.injEq] at h
    obtain ⟨e1, e2, e3⟩ := h; subst e1; subst e2; subst e3
    simp
  | cons e es ih =>
    intro busy c rs busy' h
    simp only [compileEs] at h
    split at h
    · cases h
    · rename_i c1 r busy1 he
      split at h
      · cases h
      · rename_i cs rs' busy2 hes
        simp only [Option.some.injEq, Prod.mk.injEq] at h
        obtain ⟨e1, e2, e3⟩ := h; subst e1; subst e2; subst e3
        obtain ⟨q1, q2, q3⟩ := compileE_mono ls e _ _ _ _ he
        obtain ⟨i1, i2, i3, i4, i5⟩ := ih _ _ _ _ hes
        refine ⟨by simp [i1, compileE_len ls e _ _ _ _ he], by simp [i2], ?_, ?_, fun x hx => i5 x (q3 x hx)⟩
        · intro r' hr'
          rcases List.mem_cons.mp hr' with h' | h'
          · subst h'; exact q1
          · exact fun hb => i3 r' h' (q3 r' hb)
        · intro r' hr'
          rcases List.mem_cons.mp hr' with h' | h'
          · subst h'; exact i5 _ q2
          · exact i4 r' h'

theorem compileStores_facts (ls : List Loc) (xs : List Nat) :
    ∀ rs busy c busy', compileStores ls xs rs busy = some (c, busy') →
      c.length = xs.length ∧ rs.length = xs.length ∧ (∀ x ∈ busy, x ∉ rs → x ∈ busy') := by
  induction xs with
  | nil =>
    intro rs busy c busy' h
    cases rs with
    | nil =>
      simp only [compileStores, Option.some.injEq, Prod.mk.injEq] at h
      obtain ⟨e1, e2⟩ := h; subst e1; subst e2
      simp
    | cons r rs => simp [compileStores] at h
  | cons x xs ih =>
    intro rs busy c busy' h
    cases rs with
    | nil => simp [compileStores] at h
    | cons r rs =>
      simp only [compileStores] at h
      split at h
      · rename_i g hl
        split at h
        · rename_i c' b' hs
          simp only [Option.some.injEq, Prod.mk.injEq] at h
          obtain ⟨e1, e2⟩ := h; subst e1; subst e2
          obtain ⟨i1, i2, i3⟩ := ih _ _ _ _ hs
          refine ⟨by simp [i1], by simp [i2], fun y hy hn => ?_⟩
          have h1 : y ≠ r := fun e => hn (e ▸ List.mem_cons_self)
          exact i3 y ((List.mem_erase_of_ne h1).mpr hy) (fun h' => hn (List.mem_cons_of_mem _ h'))
        · cases h
      · rename_i m hl
        split at h
        · rename_i c' b' hs
          simp only [Option.some.injEq, Prod.mk.injEq] at h
          obtain ⟨e1, e2⟩ := h; subst e1; subst e2
          obtain ⟨i1, i2, i3⟩ := ih _ _ _ _ hs
          refine ⟨by simp [i1], by simp [i2], fun y hy hn => ?_⟩
          have h1 : y ≠ r := fun e => hn (e ▸ List.mem_cons_self)
          exact i3 y ((List.mem_erase_of_ne h1).mpr hy) (fun h' => hn (List.mem_cons_of_mem _ h'))
        · cases h
      · cases h

theorem evalEs_frame (env : Nat → Nat → Nat) (w : Nat) (es : List Expr) :
    ∀ s, (evalEs env w es s).2.vars = s.vars ∧ (evalEs env w es s).2.outs = s.outs ∧
      (evalEs env w es s).1.length = es.length := by
  induction es with
  | nil => intro s; simp [evalEs]
  | cons e es ih =>
    intro s
    simp only [evalEs]
    obtain ⟨f1, f2⟩ := evalE_frame env w e s
    obtain ⟨i1, i2, i3⟩ := ih (evalE env w e s).2
    exact ⟨by rw [i1, f1], by rw [i2, f2], by simp [i3]⟩

/-- the temporaries hold the values, position by position -/
def RegsHold (regs : Nat → Nat) : List Nat → List Nat → Prop
  | [], [] => True
  | r :: rs, v :: vs => regs r = v ∧ RegsHold regs rs vs
  | _, _ => False

theorem RegsHold.congr {regs regs' : Nat → Nat} : ∀ {rs vs : List Nat},
    (∀ r ∈ rs, regs' r = regs r) → RegsHold regs rs vs → RegsHold regs' rs vs := by
  intro rs
  induction rs with
  | nil => intro vs _ h; cases vs <;> simp [RegsHold] at h ⊢
  | cons r rs ih =>
    intro vs hr h
    cases vs with
    | nil => simp [RegsHold] at h
    | cons v vs =>
      simp only [RegsHold] at h ⊢
      exact ⟨by rw [hr r List.mem_cons_self]; exact h.1, ih (fun r' hr' => hr r' (List.mem_cons_of_mem _ hr')) h.2⟩

/-- the right-hand sides, one after the other: every value ends up in its own temporary -/
theorem exprsL (env : Nat → Nat → Nat) (w : Nat) (ls : List Loc) (live : List Nat) (es : List Expr) :
    ∀ (busy : List Nat) (c : List Instr) (rs busy' : List Nat), compileEs ls es busy = some (c, rs, busy') →
    ∀ (pre post : List Instr) (cfg : Cfg) (s : Src), cfg.pc = pre.length → AgreeL ls live cfg s →
      VarRegsIn ls busy → (∀ e ∈ es, ∀ x ∈ exprVars e, x ∈ live) →
      (isaRun env w (pre ++ c ++ post) c.length cfg).pc = pre.length + c.length ∧
      (isaRun env w (pre ++ c ++ post) c.length cfg).mem = cfg.mem ∧
      (isaRun env w (pre ++ c ++ post) c.length cfg).outs = cfg.outs ∧
      (isaRun env w (pre ++ c ++ post) c.length cfg).rc = (evalEs env w es s).2.rc ∧
      (∀ x ∈ busy, (isaRun env w (pre ++ c ++ post) c.length cfg).regs x = cfg.regs x) ∧
      RegsHold (isaRun env w (pre ++ c ++ post) c.length cfg).regs rs (evalEs env w es s).1 := by
  induction es with
  | nil =>
    intro busy c rs busy' h pre post cfg s hpc hag hvr hv
    simp only [compileEs, Option.some.injEq, Prod.mk.injEq] at h
    obtain ⟨e1, e2, e3⟩ := h; subst e1; subst e2; subst e3
    simp [isaRun, evalEs, hpc, hag.rc, RegsHold]
  | cons e es ih =>
    intro busy c rs busy' h pre post cfg s hpc hag hvr hv
    simp only [compileEs] at h
    split at h
    · cases h
    · rename_i c1 r busy1 he
      split at h
      · cases h
      · rename_i cs rs' busy2 hes
        simp only [Option.some.injEq, Prod.mk.injEq] at h
        obtain ⟨e1, e2, e3⟩ := h; subst e1; subst e2; subst e3
        have hP1 : pre ++ (c1 ++ cs) ++ post = pre ++ c1 ++ (cs ++ post) := by simp [List.append_assoc]
        have hP2 : pre ++ (c1 ++ cs) ++ post = (pre ++ c1) ++ cs ++ post := by simp [List.append_assoc]
        obtain ⟨q1, q2, q3⟩ := compileE_mono ls e _ _ _ _ he
        obtain ⟨a1, a2, a3, a4, a5, a6, a7, a8⟩ :=
          exprL env w ls e live busy c1 r busy1 he pre (cs ++ post) cfg s hpc hag hvr (hv e List.mem_cons_self)
        rw [← hP1] at a1 a2 a3 a4 a5 a8
        have hag1 : AgreeL ls live (isaRun env w (pre ++ (c1 ++ cs) ++ post) c1.length cfg) (evalE env w e s).2 :=
          hag.after_expr hvr a8 a3 a5 a6
        obtain ⟨b1, b2, b3, b4, b5, b6⟩ := ih busy1 cs rs' busy2 hes (pre ++ c1) post _ _ (by rw [a1]; simp) hag1
          (hvr.mono q3) (fun e' he' => hv e' (List.mem_cons_of_mem _ he'))
        rw [← hP2, ← isaRun_add] at b1 b2 b3 b4 b5 b6
        have hl : (c1 ++ cs).length = c1.length + cs.length := by simp
        rw [hl]
        simp only [evalEs]
        refine ⟨by rw [b1]; simp [Nat.add_assoc], by rw [b2, a3], by rw [b3, a4], b4,
          fun x hx => by rw [b5 x (q3 x hx), a8 x hx], ?_⟩
        simp only [RegsHold]
        exact ⟨by rw [b5 r q2, a2], b6⟩

/-- the stores, one after the other -/
theorem storesL (env : Nat → Nat → Nat) (w : Nat) (ls : List Loc) (live : List Nat) (hinj : LiveInj ls live)
    (xs : List Nat) :
    ∀ (rs vs busy : List Nat) (c : List Instr) (busy' : List Nat), compileStores ls xs rs busy = some (c, busy') →
    ∀ (pre post : List Instr) (cfg : Cfg) (s : Src), cfg.pc = pre.length → AgreeL ls live cfg s →
      (∀ x ∈ xs, x ∈ live) → (∀ r ∈ rs, ∀ (x g : Nat), ls[x]? = some (Loc.reg g) → g ≠ r) →
      RegsHold cfg.regs rs vs →
      (isaRun env w (pre ++ c ++ post) c.length cfg).pc = pre.length + c.length ∧
      AgreeL ls live (isaRun env w (pre ++ c ++ post) c.length cfg) { s with vars := assignAll s.vars xs vs } ∧
      (isaRun env w (pre ++ c ++ post) c.length cfg).outs = cfg.outs := by
  induction xs with
  | nil =>
    intro rs vs busy c busy' h pre post cfg s hpc hag hx hr hf
    cases rs with
    | cons r rs => simp [compileStores] at h
    | nil =>
      simp only [compileStores, Option.some.injEq, Prod.mk.injEq] at h
      obtain ⟨e1, e2⟩ := h; subst e1; subst e2
      simp only [List.length_nil, isaRun, assignAll]
      exact ⟨by simp [hpc], ⟨hag.regv, hag.memv, hag.rc⟩, trivial⟩
  | cons x xs ih =>
    intro rs vs busy c busy' h pre post cfg s hpc hag hx hr hf
    cases rs with
    | nil => simp [compileStores] at h
    | cons r rs =>
      cases vs with
      | nil => simp [RegsHold] at hf
      | cons v vs' =>
      simp only [RegsHold] at hf
      obtain ⟨hv, hf'⟩ := hf
      have hxl : x ∈ live := hx x List.mem_cons_self
      simp only [compileStores] at h
      -- one store, then the rest: common to the register and the memory case
      have step : ∀ (i : Instr) (c' : List Instr) (b' : List Nat), compileStores ls xs rs (busy.erase r) = some (c', b') →
          (execInstr env w cfg i).pc = cfg.pc + 1 → (execInstr env w cfg i).outs = cfg.outs →
          AgreeL ls live (execInstr env w cfg i) { s with vars := upd s.vars x v } →
          (∀ r' ∈ rs, (execInstr env w cfg i).regs r' = cfg.regs r') →
          (isaRun env w (pre ++ (i :: c') ++ post) (i :: c').length cfg).pc = pre.length + (i :: c').length ∧
          AgreeL ls live (isaRun env w (pre ++ (i :: c') ++ post) (i :: c').length cfg)
            { s with vars := assignAll s.vars (x :: xs) (v :: vs') } ∧
          (isaRun env w (pre ++ (i :: c') ++ post) (i :: c').length cfg).outs = cfg.outs := by
        intro i c' b' hs hpci houti hagi hregs
        have hP : pre ++ (i :: c') ++ post = pre ++ i :: (c' ++ post) := by simp
        have hP2 : pre ++ (i :: c') ++ post = (pre ++ [i]) ++ c' ++ post := by simp
        have hl : (i :: c').length = 1 + c'.length := by simp; omega
        have e1 : isaRun env w (pre ++ (i :: c') ++ post) 1 cfg = execInstr env w cfg i := by
          rw [hP]; exact isaRun_one_at env w pre _ i cfg hpc
        obtain ⟨z1, z2, z3⟩ := ih rs vs' (busy.erase r) c' b' hs (pre ++ [i]) post (execInstr env w cfg i)
          { s with vars := upd s.vars x v } (by rw [hpci, hpc]; simp) hagi
          (fun y hy => hx y (List.mem_cons_of_mem _ hy)) (fun r' hr' => hr r' (List.mem_cons_of_mem _ hr'))
          (RegsHold.congr hregs hf')
        rw [← hP2] at z1 z2 z3
        rw [hl, isaRun_add, e1]
        refine ⟨by rw [z1]; simp; omega, ?_, by rw [z3, houti]⟩
        simpa [assignAll] using z2
      split at h
      · rename_i g hl
        split at h
        · rename_i c' b' hs
          simp only [Option.some.injEq, Prod.mk.injEq] at h
          obtain ⟨e1, e2⟩ := h; subst e1; subst e2
          refine step (.cpy g r) c' b' hs (by simp [execInstr]) (by simp [execInstr]) ⟨fun y hy g' hly => ?_, fun y hy m hly => ?_, by simp [execInstr, hag.rc]⟩ ?_
          · by_cases hyx : y = x
            · subst hyx
              rw [hl] at hly; cases hly
              simp [execInstr, upd_same, hv]
            · have : g' ≠ g := fun e' => hyx (hinj y hy x hxl _ hly (e' ▸ hl))
              simp [execInstr, upd_other _ _ _ _ this, upd_other _ _ _ _ hyx, hag.regv y hy g' hly]
          · have hyx : y ≠ x := fun e' => by subst e'; rw [hl] at hly; cases hly
            simp [execInstr, upd_other _ _ _ _ hyx, hag.memv y hy m hly]
          · intro r' hr'
            have : r' ≠ g := fun e' => hr r' (List.mem_cons_of_mem _ hr') x g hl e'.symm
            simp [execInstr, upd_other _ _ _ _ this]
        · cases h
      · rename_i m hl
        split at h
        · rename_i c' b' hs
          simp only [Option.some.injEq, Prod.mk.injEq] at h
          obtain ⟨e1, e2⟩ := h; subst e1; subst e2
          refine step (.r2m r m) c' b' hs (by simp [execInstr]) (by simp [execInstr]) ⟨fun y hy g' hly => ?_, fun y hy m' hly => ?_, by simp [execInstr, hag.rc]⟩ ?_
          · have hyx : y ≠ x := fun e' => by subst e'; rw [hl] at hly; cases hly
            simp [execInstr, upd_other _ _ _ _ hyx, hag.regv y hy g' hly]
          · by_cases hyx : y = x
            · subst hyx
              rw [hl] at hly; cases hly
              simp [execInstr, upd_same, hv]
            · have : m' ≠ m := fun e' => hyx (hinj y hy x hxl _ hly (e' ▸ hl))
              simp [execInstr, upd_other _ _ _ _ this, upd_other _ _ _ _ hyx, hag.memv y hy m' hly]
          · intro r' hr'
            simp [execInstr]
        · cases h
      · cases h


theorem sum_map_succ (ps : List (Nat × Expr)) :
    (ps.map fun p => exprLen p.2 + 1).sum = ((ps.map (·.2)).map exprLen).sum + (ps.map (·.1)).length := by
  induction ps with
  | nil => rfl
  | cons p ps ih => simp [ih]; omega


theorem compileX_define_parts (ls : List Loc) (lb lc base : Nat) (ps : List (Nat × Expr)) (busy : List Nat)
    (c : List Instr) (busy' : List Nat) (h : compileX ls lb lc (.define ps) base busy = some (c, busy')) :
    ∃ ce rs busy1 cs, compileEs ls (ps.map (·.2)) busy = some (ce, rs, busy1) ∧
      compileStores ls (ps.map (·.1)) rs busy1 = some (cs, busy') ∧ c = ce ++ cs ∧
      (∀ x ∈ ps.map (·.1), ∃ m, ls[x]? = some (Loc.mem m)) := by
  simp only [compileX] at h
  split at h
  · cases h
  · rename_i ce rs busy1 he
    split at h
    · cases h
    · rename_i cs busy2 hs
      split at h
      · rename_i hm
        simp only [Option.some.injEq, Prod.mk.injEq] at h
        refine ⟨ce, rs, busy1, cs, he, h.2 ▸ hs, h.1.symm, fun x hx => ?_⟩
        have := (List.all_eq_true.mp hm) x hx
        split at this
        · rename_i m hl; exact ⟨m, hl⟩
        · cases this
      · cases h

/-- the labels are computed from `codeLen`, and `codeLen` is the length of the code -/
theorem swHeader_length (ls : List Loc) (rt r : Nat) :
    ∀ cs start, (swHeader ls rt r start cs).length = swHeadLen cs := by
  intro cs
  induction cs with
  | swCase v b rest _ ih => intro start; simp [swHeader, swHeadLen, ih]; omega
  | _ => intro start; simp [swHeader, swHeadLen]

theorem compileX_length (ls : List Loc) (st : Stmt) :
    ∀ lb lc base busy c busy', compileX ls lb lc st base busy = some (c, busy') → c.length = codeLen ls st := by
  induction st with
  | skip => intro lb lc base busy c busy' h; simp only [compileX, Option.some.injEq, Prod.mk.injEq] at h; rw [← h.1]; rfl
  | brk => intro lb lc base busy c busy' h; simp only [compileX, Option.some.injEq, Prod.mk.injEq] at h; rw [← h.1]; rfl
  | cont => intro lb lc base busy c busy' h; simp only [compileX, Option.some.injEq, Prod.mk.injEq] at h; rw [← h.1]; rfl
  | seq a b iha ihb =>
    intro lb lc base busy c busy' h
    simp only [compileX] at h
    split at h
    · cases h
    · rename_i c1 busy1 h1
      split at h
      · cases h
      · rename_i c2 busy2 h2
        simp only [Option.some.injEq, Prod.mk.injEq] at h
        rw [← h.1]; simp [codeLen, iha _ _ _ _ _ _ h1, ihb _ _ _ _ _ _ h2]
  | assign x e =>
    intro lb lc base busy c busy' h
    simp only [compileX, compileS] at h
    split at h
    · rename_i g ce r busy1 hl he
      simp only [Option.some.injEq, Prod.mk.injEq] at h
      rw [← h.1]; simp [codeLen, compileE_len ls e _ _ _ _ he]
    · rename_i m ce r busy1 hl he
      simp only [Option.some.injEq, Prod.mk.injEq] at h
      rw [← h.1]; simp [codeLen, compileE_len ls e _ _ _ _ he]
    · cases h
  | iowrite o e =>
    intro lb lc base busy c busy' h
    simp only [compileX, compileS] at h
    split at h
    · rename_i ce r busy1 he
      simp only [Option.some.injEq, Prod.mk.injEq] at h
      rw [← h.1]; simp [codeLen, compileE_len ls e _ _ _ _ he]
    · cases h
  | inc x =>
    intro lb lc base busy c busy' h
    simp only [compileX, compileS] at h
    split at h
    · rename_i g hl; simp only [Option.some.injEq, Prod.mk.injEq] at h; rw [← h.1]; simp [codeLen, hl]
    · rename_i m hl; simp only [Option.some.injEq, Prod.mk.injEq] at h; rw [← h.1]; simp [codeLen, hl]
    · cases h
  | dec x =>
    intro lb lc base busy c busy' h
    simp only [compileX, compileS] at h
    split at h
    · rename_i g hl; simp only [Option.some.injEq, Prod.mk.injEq] at h; rw [← h.1]; simp [codeLen, hl]
    · rename_i m hl; simp only [Option.some.injEq, Prod.mk.injEq] at h; rw [← h.1]; simp [codeLen, hl]
    · cases h
  | decl x =>
    intro lb lc base busy c busy' h
    simp only [compileX, compileS] at h
    split at h
    · simp only [Option.some.injEq, Prod.mk.injEq] at h; rw [← h.1]; rfl
    · cases h
  | ifThen cnd t iht =>
    intro lb lc base busy c busy' h
    simp only [compileX] at h
    split at h
    · cases h
    · rename_i cc rc busy1 hc
      split at h
      · cases h
      · rename_i ct busy2 ht
        simp only [Option.some.injEq, Prod.mk.injEq] at h
        rw [← h.1]; simp [codeLen, compileC_len ls _ _ _ _ _ _ hc, iht _ _ _ _ _ _ ht]; omega
  | ifElse cnd t e iht ihe =>
    intro lb lc base busy c busy' h
    simp only [compileX] at h
    split at h
    · cases h
    · rename_i cc rc busy1 hc
      split at h
      · cases h
      · rename_i ct busy2 ht
        split at h
        · cases h
        · rename_i ce busy3 he
          simp only [Option.some.injEq, Prod.mk.injEq] at h
          rw [← h.1]; simp [codeLen, compileC_len ls _ _ _ _ _ _ hc, iht _ _ _ _ _ _ ht, ihe _ _ _ _ _ _ he]; omega
  | loop oc body ihb =>
    intro lb lc base busy c busy' h
    cases oc with
    | none =>
      simp only [compileX] at h
      split at h
      · cases h
      · rename_i cb busy1 hb
        simp only [Option.some.injEq, Prod.mk.injEq] at h
        rw [← h.1]; simp [codeLen, ihb _ _ _ _ _ _ hb]
    | some cnd =>
      simp only [compileX] at h
      split at h
      · cases h
      · rename_i cc rc busy1 hc
        split at h
        · cases h
        · rename_i cb busy2 hb
          simp only [Option.some.injEq, Prod.mk.injEq] at h
          rw [← h.1]; simp [codeLen, compileC_len ls _ _ _ _ _ _ hc, ihb _ _ _ _ _ _ hb]; omega
  | loopP cnd body post ihb ihp =>
    intro lb lc base busy c busy' h
    simp only [compileX] at h
    split at h
    · cases h
    · rename_i cc rc busy1 hc
      split at h
      · cases h
      · rename_i cb busy2 hb
        split at h
        · cases h
        · rename_i cp busy3 hp
          simp only [Option.some.injEq, Prod.mk.injEq] at h
          rw [← h.1]; simp [codeLen, compileC_len ls _ _ _ _ _ _ hc, ihb _ _ _ _ _ _ hb, ihp _ _ _ _ _ _ hp]; omega
  | switch tag cs ih =>
    intro lb lc base busy c busy' h
    simp only [compileX] at h
    split at h
    · cases h
    · rename_i ce rt busy1 he
      split at h
      · cases h
      · rename_i cb busy2 hb
        simp only [Option.some.injEq, Prod.mk.injEq] at h
        rw [← h.1]; simp [codeLen, compileE_len ls _ _ _ _ _ he, swHeader_length, ih _ _ _ _ _ _ hb]; try omega
  | swCase v b r ihb ihr =>
    intro lb lc base busy c busy' h
    simp only [compileX] at h
    split at h
    · cases h
    · rename_i c1 busy1 h1
      split at h
      · cases h
      · rename_i c2 busy2 h2
        simp only [Option.some.injEq, Prod.mk.injEq] at h
        rw [← h.1]; simp [codeLen, ihb _ _ _ _ _ _ h1, ihr _ _ _ _ _ _ h2]; try omega
  | swDefault b ihb =>
    intro lb lc base busy c busy' h
    simp only [compileX] at h
    split at h
    · cases h
    · rename_i c1 busy1 h1
      simp only [Option.some.injEq, Prod.mk.injEq] at h
      rw [← h.1]; simp [codeLen, ihb _ _ _ _ _ _ h1]
  | define ps =>
    intro lb lc base busy c busy' h
    obtain ⟨ce, rs, busy1, cs, he, hs, hc, _⟩ := compileX_define_parts ls lb lc base ps busy c busy' h
    rw [hc]
    simp [codeLen, (compileEs_facts ls _ _ _ _ _ he).1, (compileStores_facts ls _ _ _ _ _ hs).1, sum_map_succ]
  | tassign ps =>
    intro lb lc base busy c busy' h
    simp only [compileX] at h
    split at h
    · cases h
    · rename_i ce rs busy1 he
      split at h
      · cases h
      · rename_i cs busy2 hs
        simp only [Option.some.injEq, Prod.mk.injEq] at h
        rw [← h.1]
        simp [codeLen, (compileEs_facts ls _ _ _ _ _ he).1, (compileStores_facts ls _ _ _ _ _ hs).1, sum_map_succ]



theorem compileX_mono (ls : List Loc) (st : Stmt) :
    ∀ (lb lc base : Nat) (busy : List Nat) (c : List Instr) (busy' : List Nat),
      compileX ls lb lc st base busy = some (c, busy') → ∀ x ∈ busy, x ∈ busy' := by
  induction st with
  | skip =>
    intro lb lc base busy c busy' h x hx
    simp only [compileX, Option.some.injEq, Prod.mk.injEq] at h
    exact h.2 ▸ hx
  | brk =>
    intro lb lc base busy c busy' h x hx
    simp only [compileX, Option.some.injEq, Prod.mk.injEq] at h
    exact h.2 ▸ hx
  | cont =>
    intro lb lc base busy c busy' h x hx
    simp only [compileX, Option.some.injEq, Prod.mk.injEq] at h
    exact h.2 ▸ hx
  | assign v e => intro lb lc base busy c busy' h; exact compileS_mono ls _ base busy c busy' (by simpa [compileX] using h)
  | inc v => intro lb lc base busy c busy' h; exact compileS_mono ls _ base busy c busy' (by simpa [compileX] using h)
  | dec v => intro lb lc base busy c busy' h; exact compileS_mono ls _ base busy c busy' (by simpa [compileX] using h)
  | decl v => intro lb lc base busy c busy' h; exact compileS_mono ls _ base busy c busy' (by simpa [compileX] using h)
  | iowrite o e => intro lb lc base busy c busy' h; exact compileS_mono ls _ base busy c busy' (by simpa [compileX] using h)
  | seq a b iha ihb =>
    intro lb lc base busy c busy' h x hx
    simp only [compileX] at h
    split at h
    · cases h
    · rename_i c1 busy1 h1
      split at h
      · cases h
      · rename_i c2 busy2 h2
        simp only [Option.some.injEq, Prod.mk.injEq] at h
        exact h.2 ▸ ihb _ _ _ _ _ _ h2 x (iha _ _ _ _ _ _ h1 x hx)
  | switch tag cs ih =>
    intro lb lc base busy c busy' h x hx
    simp only [compileX] at h
    split at h
    · cases h
    · rename_i ce rt busy1 he
      split at h
      · cases h
      · rename_i cb busy2 hb
        simp only [Option.some.injEq, Prod.mk.injEq] at h
        exact h.2 ▸ ih _ _ _ _ _ _ hb x ((compileE_mono ls _ _ _ _ _ he).2.2 x hx)
  | swCase v b r ihb ihr =>
    intro lb lc base busy c busy' h x hx
    simp only [compileX] at h
    split at h
    · cases h
    · rename_i c1 busy1 h1
      split at h
      · cases h
      · rename_i c2 busy2 h2
        simp only [Option.some.injEq, Prod.mk.injEq] at h
        exact h.2 ▸ ihr _ _ _ _ _ _ h2 x (ihb _ _ _ _ _ _ h1 x hx)
  | swDefault b ihb =>
    intro lb lc base busy c busy' h x hx
    simp only [compileX] at h
    split at h
    · cases h
    · rename_i c1 busy1 h1
      simp only [Option.some.injEq, Prod.mk.injEq] at h
      exact h.2 ▸ ihb _ _ _ _ _ _ h1 x hx
  | ifThen cnd t iht =>
    intro lb lc base busy c busy' h x hx
    simp only [compileX] at h
    split at h
    · cases h
    · rename_i cc rc busy1 hc
      split at h
      · cases h
      · rename_i ct busy2 ht
        simp only [Option.some.injEq, Prod.mk.injEq] at h
        exact h.2 ▸ iht _ _ _ _ _ _ ht x (compileC_mono ls _ _ _ _ _ _ hc x hx)
  | ifElse cnd t e iht ihe =>
    intro lb lc base busy c busy' h x hx
    simp only [compileX] at h
    split at h
    · cases h
    · rename_i cc rc busy1 hc
      split at h
      · cases h
      · rename_i ct busy2 ht
        split at h
        · cases h
        · rename_i ce busy3 he
          simp only [Option.some.injEq, Prod.mk.injEq] at h
          exact h.2 ▸ ihe _ _ _ _ _ _ he x (iht _ _ _ _ _ _ ht x (compileC_mono ls _ _ _ _ _ _ hc x hx))
  | loop oc body ihb =>
    intro lb lc base busy c busy' h x hx
    cases oc with
    | none =>
      simp only [compileX] at h
      split at h
      · cases h
      · rename_i cb busy1 hb
        simp only [Option.some.injEq, Prod.mk.injEq] at h
        exact h.2 ▸ ihb _ _ _ _ _ _ hb x hx
    | some cnd =>
      simp only [compileX] at h
      split at h
      · cases h
      · rename_i cc rc busy1 hc
        split at h
        · cases h
        · rename_i cb busy2 hb
          simp only [Option.some.injEq, Prod.mk.injEq] at h
          exact h.2 ▸ ihb _ _ _ _ _ _ hb x (compileC_mono ls _ _ _ _ _ _ hc x hx)
  | loopP cnd body post ihb ihp =>
    intro lb lc base busy c busy' h x hx
    simp only [compileX] at h
    split at h
    · cases h
    · rename_i cc rc busy1 hc
      split at h
      · cases h
      · rename_i cb busy2 hb
        split at h
        · cases h
        · rename_i cp busy3 hp
          simp only [Option.some.injEq, Prod.mk.injEq] at h
          exact h.2 ▸ ihp _ _ _ _ _ _ hp x (ihb _ _ _ _ _ _ hb x (compileC_mono ls _ _ _ _ _ _ hc x hx))
  | define ps =>
    intro lb lc base busy c busy' h x hx
    obtain ⟨ce, rs, busy1, cs, he, hs, _, _⟩ := compileX_define_parts ls lb lc base ps busy c busy' h
    obtain ⟨_, _, f3, _, f5⟩ := compileEs_facts ls _ _ _ _ _ he
    exact (compileStores_facts ls _ _ _ _ _ hs).2.2 x (f5 x hx) (fun hr => f3 x hr hx)
  | tassign ps =>
    intro lb lc base busy c busy' h x hx
    simp only [compileX] at h
    split at h
    · cases h
    · rename_i ce rs busy1 he
      split at h
      · cases h
      · rename_i cs busy2 hs
        simp only [Option.some.injEq, Prod.mk.injEq] at h
        obtain ⟨_, _, f3, _, f5⟩ := compileEs_facts ls _ _ _ _ _ he
        exact h.2 ▸ (compileStores_facts ls _ _ _ _ _ hs).2.2 x (f5 x hx) (fun hr => f3 x hr hx)

/-! ### induction over statements that gives a `switch` the property of all its clause bodies -/

/-- `P` holds for the body of every clause -/
def ChainAll (P : Stmt → Prop) : Stmt → Prop
  | .swCase _ b rest => P b ∧ ChainAll P rest
  | .swDefault b => P b
  | _ => True

theorem chainAll_select {P : Stmt → Prop} (w v : Nat) (hskip : P .skip) :
    ∀ cs, ChainAll P cs → P (swSelect w v cs) := by
  intro cs
  induction cs with
  | swCase v' b rest _ ih =>
    intro h
    simp only [ChainAll] at h
    simp only [swSelect]
    split
    · exact h.1
    · exact ih h.2
  | swDefault b => intro h; simpa [ChainAll, swSelect] using h
  | _ => intro _; simpa [swSelect] using hskip

/-- structural induction in which the case `switch tag cs` receives the induction hypothesis of every
    clause body of `cs` (the clause constructors themselves carry no hypothesis: nothing is ever
    claimed about a clause outside its switch) -/
theorem Stmt.chain_induct {motive : Stmt → Prop}
    (skip : motive .skip)
    (seq : ∀ s rest, motive s → motive rest → motive (.seq s rest))
    (assign : ∀ x e, motive (.assign x e))
    (inc : ∀ x, motive (.inc x))
    (dec : ∀ x, motive (.dec x))
    (iowrite : ∀ o e, motive (.iowrite o e))
    (ifThen : ∀ c t, motive t → motive (.ifThen c t))
    (ifElse : ∀ c t e, motive t → motive e → motive (.ifElse c t e))
    (loop : ∀ c body, motive body → motive (.loop c body))
    (decl : ∀ x, motive (.decl x))
    (brk : motive .brk)
    (cont : motive .cont)
    (loopP : ∀ c body post, motive body → motive post → motive (.loopP c body post))
    (tassign : ∀ ps, motive (.tassign ps))
    (define : ∀ ps, motive (.define ps))
    (switch : ∀ tag cs, ChainAll motive cs → motive (.switch tag cs))
    (swCase : ∀ v body rest, motive (.swCase v body rest))
    (swDefault : ∀ body, motive (.swDefault body)) : ∀ st, motive st := by
  have key : ∀ st, motive st ∧ ChainAll motive st := by
    intro st
    induction st with
    | skip => exact ⟨skip, trivial⟩
    | seq a b iha ihb => exact ⟨seq a b iha.1 ihb.1, trivial⟩
    | assign x e => exact ⟨assign x e, trivial⟩
    | inc x => exact ⟨inc x, trivial⟩
    | dec x => exact ⟨dec x, trivial⟩
    | iowrite o e => exact ⟨iowrite o e, trivial⟩
    | ifThen c t iht => exact ⟨ifThen c t iht.1, trivial⟩
    | ifElse c t e iht ihe => exact ⟨ifElse c t e iht.1 ihe.1, trivial⟩
    | loop c b ihb => exact ⟨loop c b ihb.1, trivial⟩
    | decl x => exact ⟨decl x, trivial⟩
    | brk => exact ⟨brk, trivial⟩
    | cont => exact ⟨cont, trivial⟩
    | loopP c b q ihb ihq => exact ⟨loopP c b q ihb.1 ihq.1, trivial⟩
    | tassign ps => exact ⟨tassign ps, trivial⟩
    | define ps => exact ⟨define ps, trivial⟩
    | switch tag cs ih => exact ⟨switch tag cs ih.2, trivial⟩
    | swCase v b r ihb ihr => exact ⟨swCase v b r, ihb.1, ihr.2⟩
    | swDefault b ihb => exact ⟨swDefault b, ihb.1⟩
  exact fun st => (key st).1

/-- where the machine is after a statement that ended with the given status -/
def exitPc (status : Status) (fall lb lc : Nat) : Nat :=
  match status with
  | .brk => lb
  | .cont => lc
  | _ => fall

/-- the variables in scope after a statement: those it declared stay only if it fell through -/
def exitLive (status : Status) (live : List Nat) (st : Stmt) : List Nat :=
  match status with
  | .ok => live ++ topDecls st
  | _ => live

/-- the simulation statement with `break` / `continue`: as `StmtOK`, for every way of ending other
    than running out of fuel; a `break` leaves the machine at the loop's exit label, a `continue` at
    its continue label, in agreement on (at least) the variables that were in scope at the start -/
def StmtOKX (env : Nat → Nat → Nat) (w : Nat) (ls : List Loc) (fuel : Nat) (st : Stmt) : Prop :=
  ∀ (lb lc : Nat) (live : List Nat) (base : Nat) (busy : List Nat) (c : List Instr) (busy' : List Nat),
    compileX ls lb lc st base busy = some (c, busy') → wfS ls st live = true → VarRegsIn ls busy → LiveInj ls live →
    ∀ (pre post : List Instr) (cfg : Cfg) (s : Src), base = pre.length → cfg.pc = pre.length →
      AgreeL ls live cfg s → cfg.outs = s.outs → (execX env w fuel st s).2 ≠ .timeout →
      ∃ cfg', Reaches env w (pre ++ c ++ post) cfg cfg' ∧
        cfg'.pc = exitPc (execX env w fuel st s).2 (pre.length + c.length) lb lc ∧
        AgreeL ls (exitLive (execX env w fuel st s).2 live st) cfg' (execX env w fuel st s).1 ∧
        cfg'.outs = (execX env w fuel st s).1.outs

/-- statements that cannot `break` or loop: `compileX`/`execX` are `compileS`/`exec` -/
theorem stmtOKX_of_leaf (env : Nat → Nat → Nat) (w : Nat) (ls : List Loc) (fuel : Nat) (st : Stmt)
    (hc : ∀ lb lc base busy, compileX ls lb lc st base busy = compileS ls st base busy)
    (he : ∀ s, execX env w fuel st s = ((exec env w fuel st s).1, Status.ok))
    (hd : ∀ s, (exec env w fuel st s).2 = true)
    (hok : StmtOK env w ls fuel st) : StmtOKX env w ls fuel st := by
  intro lb lc live base busy c busy' h hwf hvr hinj pre post cfg s hb hpc hag ho _
  rw [hc] at h
  obtain ⟨cfg', r1, r2, r3, r4⟩ := hok live base busy c busy' h hwf hvr hinj pre post cfg s hb hpc hag ho (hd s)
  rw [he]
  exact ⟨cfg', r1, r2, r3, r4⟩

theorem stmtOKX_leaves (env : Nat → Nat → Nat) (w : Nat) (ls : List Loc) (fuel : Nat) :
    StmtOKX env w ls fuel .skip ∧ (∀ x e, StmtOKX env w ls fuel (.assign x e)) ∧
    (∀ x, StmtOKX env w ls fuel (.inc x)) ∧ (∀ x, StmtOKX env w ls fuel (.dec x)) ∧
    (∀ x, StmtOKX env w ls fuel (.decl x)) ∧ (∀ o e, StmtOKX env w ls fuel (.iowrite o e)) := by
  refine ⟨?_, fun x e => ?_, fun x => ?_, fun x => ?_, fun x => ?_, fun o e => ?_⟩
  · exact stmtOKX_of_leaf env w ls fuel _ (fun _ _ _ _ => by simp [compileX, compileS]) (fun s => by simp [execX, exec])
      (fun s => by simp [exec]) (stmtOK_skip env w fuel ls)
  · exact stmtOKX_of_leaf env w ls fuel _ (fun _ _ _ _ => by simp [compileX]) (fun s => by simp [execX, exec])
      (fun s => by simp [exec]) (stmtOK_assign env w fuel ls x e)
  · exact stmtOKX_of_leaf env w ls fuel _ (fun _ _ _ _ => by simp [compileX]) (fun s => by simp [execX, exec])
      (fun s => by simp [exec]) (stmtOK_inc env w fuel ls x)
  · exact stmtOKX_of_leaf env w ls fuel _ (fun _ _ _ _ => by simp [compileX]) (fun s => by simp [execX, exec])
      (fun s => by simp [exec]) (stmtOK_dec env w fuel ls x)
  · exact stmtOKX_of_leaf env w ls fuel _ (fun _ _ _ _ => by simp [compileX]) (fun s => by simp [execX, exec])
      (fun s => by simp [exec]) (stmtOK_decl env w fuel ls x)
  · exact stmtOKX_of_leaf env w ls fuel _ (fun _ _ _ _ => by simp [compileX]) (fun s => by simp [execX, exec])
      (fun s => by simp [exec]) (stmtOK_iowrite env w fuel ls o e)

/-- `break` and `continue`: one jump -/
theorem stmtOKX_brk (env : Nat → Nat → Nat) (w : Nat) (ls : List Loc) (fuel : Nat) : StmtOKX env w ls fuel .brk := by
  intro lb lc live base busy c busy' h hwf hvr hinj pre post cfg s hb hpc hag ho _
  simp only [compileX, Option.some.injEq, Prod.mk.injEq] at h
  obtain ⟨e1, e2⟩ := h; subst e1; subst e2
  simp only [execX, exitPc, exitLive]
  refine ⟨execInstr env w cfg (.j lb), Reaches.step (by rw [hpc]; exact getElem?_code pre _ post 0 _ rfl), by simp [execInstr],
    ⟨hag.regv, hag.memv, hag.rc⟩, by simpa [execInstr] using ho⟩

theorem stmtOKX_cont (env : Nat → Nat → Nat) (w : Nat) (ls : List Loc) (fuel : Nat) : StmtOKX env w ls fuel .cont := by
  intro lb lc live base busy c busy' h hwf hvr hinj pre post cfg s hb hpc hag ho _
  simp only [compileX, Option.some.injEq, Prod.mk.injEq] at h
  obtain ⟨e1, e2⟩ := h; subst e1; subst e2
  simp only [execX, exitPc, exitLive]
  refine ⟨execInstr env w cfg (.j lc), Reaches.step (by rw [hpc]; exact getElem?_code pre _ post 0 _ rfl), by simp [execInstr],
    ⟨hag.regv, hag.memv, hag.rc⟩, by simpa [execInstr] using ho⟩



theorem stmtOKX_seq (env : Nat → Nat → Nat) (w fuel : Nat) (ls : List Loc) (a b : Stmt)
    (iha : StmtOKX env w ls fuel a) (ihb : StmtOKX env w ls fuel b) : StmtOKX env w ls fuel (.seq a b) := by
  intro lb lc live base busy c busy' h hwf hvr hinj pre post cfg s hb hpc hag ho hex
  simp only [wfS, Bool.and_eq_true] at hwf
  simp only [compileX] at h
  split at h
  · cases h
  · rename_i c1 busy1 h1
    split at h
    · cases h
    · rename_i c2 busy2 h2
      simp only [Option.some.injEq, Prod.mk.injEq] at h
      obtain ⟨e1, e2⟩ := h; subst e1; subst e2
      have hP1 : pre ++ (c1 ++ c2) ++ post = pre ++ c1 ++ (c2 ++ post) := by simp [List.append_assoc]
      have hP2 : pre ++ (c1 ++ c2) ++ post = (pre ++ c1) ++ c2 ++ post := by simp [List.append_assoc]
      simp only [execX] at hex ⊢
      generalize hr : execX env w fuel a s = r at hex ⊢
      obtain ⟨s1, f1⟩ := r
      have ha := iha lb lc live base busy c1 busy1 h1 hwf.1 hvr hinj pre (c2 ++ post) cfg s hb hpc hag ho
      rw [hr, ← hP1] at ha
      cases f1 with
      | timeout => simp at hex
      | brk =>
        obtain ⟨cfg1, x1, x2, x3, x4⟩ := ha (by simp)
        exact ⟨cfg1, x1, x2, x3, x4⟩
      | cont =>
        obtain ⟨cfg1, x1, x2, x3, x4⟩ := ha (by simp)
        exact ⟨cfg1, x1, x2, x3, x4⟩
      | ok =>
        obtain ⟨cfg1, x1, x2, x3, x4⟩ := ha (by simp)
        simp only [exitPc, exitLive] at x2 x3
        simp only at hex ⊢
        obtain ⟨cfg2, y1, y2, y3, y4⟩ := ihb lb lc (live ++ topDecls a) (base + c1.length) busy1 c2 busy2 h2 hwf.2
          (hvr.mono (compileX_mono ls a _ _ _ _ _ _ h1)) (wfS_liveInj ls a live hwf.1 hinj)
          (pre ++ c1) post cfg1 s1 (by rw [hb]; simp) (by rw [x2]; simp) x3 x4 hex
        rw [← hP2] at y1
        refine ⟨cfg2, x1.trans y1, ?_, ?_, y4⟩
        · rw [y2]
          generalize (execX env w fuel b s1).2 = st2
          cases st2 <;> simp [exitPc, Nat.add_assoc]
        · generalize (execX env w fuel b s1).2 = st2 at y3 ⊢
          cases st2
          · simpa [exitLive, topDecls, List.append_assoc] using y3
          all_goals
            simp only [exitLive] at y3 ⊢
            exact y3.mono (fun x hx => List.mem_append_left _ hx)



theorem exitPc_shift (st : Status) (a b lb lc : Nat) (h : a = b) : exitPc st a lb lc = exitPc st b lb lc := by
  rw [h]

/-- restrict the agreement after a nested block to the scope of the enclosing statement, whose own
    `topDecls` is empty -/
theorem agree_exit_block {ls : List Loc} {live : List Nat} {t : Stmt} {cfg : Cfg} {s : Src} (st : Status)
    (outer : Stmt) (ho : topDecls outer = [])
    (h : AgreeL ls (exitLive st live t) cfg s) : AgreeL ls (exitLive st live outer) cfg s := by
  cases st
  · simp only [exitLive, ho, List.append_nil] at h ⊢
    exact h.mono (fun x hx => List.mem_append_left _ hx)
  all_goals simpa [exitLive] using h

theorem stmtOKX_ifThen (env : Nat → Nat → Nat) (w : Nat) (hw : 0 < w) (fuel : Nat) (ls : List Loc)
    (cnd : Cond) (t : Stmt) (iht : StmtOKX env w ls fuel t) : StmtOKX env w ls fuel (.ifThen cnd t) := by
  intro lb lc live base busy c busy' h hwf hvr hinj pre post cfg s hb hpc hag ho hex
  simp only [wfS, Bool.and_eq_true, List.all_eq_true, List.contains_iff_mem] at hwf
  obtain ⟨hvc, hwt⟩ := hwf
  simp only [compileX] at h
  split at h
  · cases h
  · rename_i cc rc busy1 hc
    split at h
    · cases h
    · rename_i ct busy2 ht
      simp only [Option.some.injEq, Prod.mk.injEq] at h
      obtain ⟨e1, e2⟩ := h; subst e1; subst e2
      let jz : Instr := .jz rc (base + cc.length + 1 + ct.length)
      have hP1 : pre ++ (cc ++ [jz] ++ ct) ++ post = pre ++ cc ++ ([jz] ++ ct ++ post) := by simp [List.append_assoc]
      have hP2 : pre ++ (cc ++ [jz] ++ ct) ++ post = (pre ++ cc ++ [jz]) ++ ct ++ post := by simp [List.append_assoc]
      obtain ⟨cfgc, k1, k2, k3, k4, k5, k6, k7, k8, k9, k10⟩ :=
        condL env w hw ls cnd live busy base cc rc busy1 hc pre ([jz] ++ ct ++ post) cfg s hb hpc hag hvr hvc
      rw [← hP1] at k1
      have hagc : AgreeL ls live cfgc (evalC env w cnd s).2 := hag.after_expr hvr k9 k4 k6 k7
      have hfetch : (pre ++ (cc ++ [jz] ++ ct) ++ post)[cfgc.pc]? = some jz := by
        rw [k2]; exact getElem?_code pre _ post cc.length jz (by simp)
      have rj := Reaches.step (env := env) (w := w) hfetch
      simp only [execX] at hex ⊢
      generalize hr : evalC env w cnd s = r at hex k3 k6 k7 k8 hagc ⊢
      obtain ⟨bv, s1⟩ := r
      have k8' : s1.outs = s.outs := k8
      have hagc' : AgreeL ls live cfgc s1 := hagc
      cases bv with
      | false =>
        simp only at hex k3 ⊢
        refine ⟨execInstr env w cfgc jz, k1.trans rj, ?_, ?_, ?_⟩
        · simp [jz, execInstr, k3, hb, exitPc]; omega
        · simp only [exitLive, topDecls, List.append_nil]
          exact ⟨hagc'.regv, hagc'.memv, hagc'.rc⟩
        · simp [jz, execInstr, k5, ho, k8']
      | true =>
        simp only at hex k3 ⊢
        have hpcj : (execInstr env w cfgc jz).pc = (pre ++ cc ++ [jz]).length := by
          simp [jz, execInstr, k3, k2]; omega
        have hagj : AgreeL ls live (execInstr env w cfgc jz) s1 := ⟨hagc'.regv, hagc'.memv, hagc'.rc⟩
        obtain ⟨cfg2, y1, y2, y3, y4⟩ := iht lb lc live (base + cc.length + 1) (busy1.erase rc) ct busy2 ht hwt
          (hvr.mono k10) hinj (pre ++ cc ++ [jz]) post _ s1 (by rw [hb]; simp; omega) hpcj hagj
          (by simp [jz, execInstr, k5, ho, k8']) hex
        rw [← hP2] at y1
        refine ⟨cfg2, k1.trans (rj.trans y1), ?_, agree_exit_block _ (.ifThen cnd t) rfl y3, y4⟩
        rw [y2]; exact exitPc_shift _ _ _ _ _ (by simp; omega)

theorem stmtOKX_ifElse (env : Nat → Nat → Nat) (w : Nat) (hw : 0 < w) (fuel : Nat) (ls : List Loc)
    (cnd : Cond) (t e : Stmt) (iht : StmtOKX env w ls fuel t) (ihe : StmtOKX env w ls fuel e) :
    StmtOKX env w ls fuel (.ifElse cnd t e) := by
  intro lb lc live base busy c busy' h hwf hvr hinj pre post cfg s hb hpc hag ho hex
  simp only [wfS, Bool.and_eq_true, List.all_eq_true, List.contains_iff_mem] at hwf
  obtain ⟨⟨hvc, hwt⟩, hwe⟩ := hwf
  simp only [compileX] at h
  split at h
  · cases h
  · rename_i cc rc busy1 hc
    split at h
    · cases h
    · rename_i ct busy2 ht
      split at h
      · cases h
      · rename_i ce busy3 he
        simp only [Option.some.injEq, Prod.mk.injEq] at h
        obtain ⟨e1, e2⟩ := h; subst e1; subst e2
        let jz : Instr := .jz rc (base + cc.length + 1 + ct.length + 1)
        let jn : Instr := .j (base + cc.length + 1 + ct.length + 1 + ce.length)
        have hP1 : pre ++ (cc ++ [jz] ++ ct ++ [jn] ++ ce) ++ post = pre ++ cc ++ ([jz] ++ ct ++ [jn] ++ ce ++ post) := by
          simp [List.append_assoc]
        have hP2 : pre ++ (cc ++ [jz] ++ ct ++ [jn] ++ ce) ++ post = (pre ++ cc ++ [jz]) ++ ct ++ ([jn] ++ ce ++ post) := by
          simp [List.append_assoc]
        have hP3 : pre ++ (cc ++ [jz] ++ ct ++ [jn] ++ ce) ++ post = (pre ++ cc ++ [jz] ++ ct ++ [jn]) ++ ce ++ post := by
          simp [List.append_assoc]
        have hlen : (cc ++ [jz] ++ ct ++ [jn] ++ ce).length = cc.length + 1 + ct.length + 1 + ce.length := by simp; omega
        obtain ⟨cfgc, k1, k2, k3, k4, k5, k6, k7, k8, k9, k10⟩ :=
          condL env w hw ls cnd live busy base cc rc busy1 hc pre ([jz] ++ ct ++ [jn] ++ ce ++ post) cfg s hb hpc hag hvr hvc
        rw [← hP1] at k1
        have hagc : AgreeL ls live cfgc (evalC env w cnd s).2 := hag.after_expr hvr k9 k4 k6 k7
        have hfetch : (pre ++ (cc ++ [jz] ++ ct ++ [jn] ++ ce) ++ post)[cfgc.pc]? = some jz := by
          rw [k2]; exact getElem?_code pre _ post cc.length jz (by simp)
        have rj := Reaches.step (env := env) (w := w) hfetch
        simp only [execX] at hex ⊢
        generalize hr : evalC env w cnd s = r at hex k3 k6 k7 k8 hagc ⊢
        obtain ⟨bv, s1⟩ := r
        have k8' : s1.outs = s.outs := k8
        have hagc' : AgreeL ls live cfgc s1 := hagc
        have hagj : AgreeL ls live (execInstr env w cfgc jz) s1 := ⟨hagc'.regv, hagc'.memv, hagc'.rc⟩
        have hoj : (execInstr env w cfgc jz).outs = s1.outs := by simp [jz, execInstr, k5, ho, k8']
        cases bv with
        | true =>
          simp only at hex k3 ⊢
          have hpcj : (execInstr env w cfgc jz).pc = (pre ++ cc ++ [jz]).length := by
            simp [jz, execInstr, k3, k2]; omega
          obtain ⟨cfg2, y1, y2, y3, y4⟩ := iht lb lc live (base + cc.length + 1) (busy1.erase rc) ct busy2 ht hwt
            (hvr.mono k10) hinj (pre ++ cc ++ [jz]) ([jn] ++ ce ++ post) _ s1 (by rw [hb]; simp; omega) hpcj hagj hoj hex
          rw [← hP2] at y1
          generalize hst : (execX env w fuel t s1).2 = st2 at y2 y3 hex ⊢
          cases st2 with
          | timeout => exact absurd rfl hex
          | brk => exact ⟨cfg2, k1.trans (rj.trans y1), y2, agree_exit_block _ (.ifElse cnd t e) rfl y3, y4⟩
          | cont => exact ⟨cfg2, k1.trans (rj.trans y1), y2, agree_exit_block _ (.ifElse cnd t e) rfl y3, y4⟩
          | ok =>
            simp only [exitPc] at y2
            have hfetch2 : (pre ++ (cc ++ [jz] ++ ct ++ [jn] ++ ce) ++ post)[cfg2.pc]? = some jn := by
              rw [y2]
              have := getElem?_code pre (cc ++ [jz] ++ ct ++ [jn] ++ ce) post (cc.length + 1 + ct.length) jn (by
                rw [show cc ++ [jz] ++ ct ++ [jn] ++ ce = (cc ++ [jz] ++ ct) ++ (jn :: ce) by simp]
                rw [List.getElem?_append_right (by simp; omega)]
                have : cc.length + 1 + ct.length - (cc ++ [jz] ++ ct).length = 0 := by simp; omega
                rw [this]; rfl)
              simpa [Nat.add_assoc] using this
            have rn := Reaches.step (env := env) (w := w) hfetch2
            refine ⟨execInstr env w cfg2 jn, k1.trans (rj.trans (y1.trans rn)), ?_, ?_, ?_⟩
            · simp [jn, execInstr, hb, exitPc]; omega
            · have y3' := agree_exit_block (live := live) Status.ok (.ifElse cnd t e) rfl y3
              exact ⟨y3'.regv, y3'.memv, y3'.rc⟩
            · simpa [jn, execInstr] using y4
        | false =>
          simp only at hex k3 ⊢
          have hpcj : (execInstr env w cfgc jz).pc = (pre ++ cc ++ [jz] ++ ct ++ [jn]).length := by
            simp [jz, execInstr, k3, hb]; omega
          have hm2 : ∀ x ∈ busy, x ∈ busy2 := fun x hx => compileX_mono ls t _ _ _ _ _ _ ht x (k10 x hx)
          obtain ⟨cfg2, y1, y2, y3, y4⟩ := ihe lb lc live (base + cc.length + 1 + ct.length + 1) busy2 ce busy3 he hwe
            (hvr.mono hm2) hinj (pre ++ cc ++ [jz] ++ ct ++ [jn]) post _ s1 (by rw [hb]; simp; omega) hpcj hagj hoj hex
          rw [← hP3] at y1
          refine ⟨cfg2, k1.trans (rj.trans y1), ?_, agree_exit_block _ (.ifElse cnd t e) rfl y3, y4⟩
          rw [y2]; exact exitPc_shift _ _ _ _ _ (by rw [hlen]; simp; omega)



theorem stmtOKX_loop_zero (env : Nat → Nat → Nat) (w : Nat) (ls : List Loc) (oc : Option Cond) (body : Stmt) :
    StmtOKX env w ls 0 (.loop oc body) := by
  intro lb lc live base busy c busy' h hwf hvr hinj pre post cfg s hb hpc hag ho hex
  simp [execX] at hex

theorem stmtOKX_loopP_zero (env : Nat → Nat → Nat) (w : Nat) (ls : List Loc) (cnd : Cond) (body q : Stmt) :
    StmtOKX env w ls 0 (.loopP cnd body q) := by
  intro lb lc live base busy c busy' h hwf hvr hinj pre post cfg s hb hpc hag ho hex
  simp [execX] at hex

/-- `for { … }` with one more unit of fuel: it can only end through `break` -/
theorem stmtOKX_loop_none_succ (env : Nat → Nat → Nat) (w : Nat) (fuel : Nat) (ls : List Loc)
    (hall : ∀ st, StmtOKX env w ls fuel st) (body : Stmt) :
    StmtOKX env w ls (fuel + 1) (.loop none body) := by
  intro lb lc live base busy c busy' h hwf hvr hinj pre post cfg s hb hpc hag ho hex
  have h0 := h
  have hwf0 := hwf
  simp only [wfS] at hwf
  simp only [compileX] at h
  split at h
  · cases h
  · rename_i cb busy1 hcb
    simp only [Option.some.injEq, Prod.mk.injEq] at h
    obtain ⟨e1, e2⟩ := h; subst e1; subst e2
    have hlenb := compileX_length ls body _ _ _ _ _ _ hcb
    let jb : Instr := .j base
    have hP1 : pre ++ (cb ++ [jb]) ++ post = pre ++ cb ++ ([jb] ++ post) := by simp [List.append_assoc]
    have hb1 := hall body (base + codeLen ls body + 1) (base + codeLen ls body) live base busy cb busy1 hcb hwf hvr hinj
      pre ([jb] ++ post) cfg s hb hpc hag ho
    rw [← hP1] at hb1
    simp only [execX] at hex ⊢
    generalize hrb : execX env w fuel body s = rb at hex hb1 ⊢
    obtain ⟨s1, f1⟩ := rb
    -- back edge and re-entry, from a state at the back jump
    have again : ∀ cfg1 : Cfg, Reaches env w (pre ++ (cb ++ [jb]) ++ post) cfg cfg1 → cfg1.pc = pre.length + cb.length →
        AgreeL ls live cfg1 s1 → cfg1.outs = s1.outs → (execX env w fuel (.loop none body) s1).2 ≠ .timeout →
        ∃ cfg', Reaches env w (pre ++ (cb ++ [jb]) ++ post) cfg cfg' ∧
          cfg'.pc = exitPc (execX env w fuel (.loop none body) s1).2 (pre.length + (cb ++ [jb]).length) lb lc ∧
          AgreeL ls (exitLive (execX env w fuel (.loop none body) s1).2 live (.loop none body)) cfg'
            (execX env w fuel (.loop none body) s1).1 ∧
          cfg'.outs = (execX env w fuel (.loop none body) s1).1.outs := by
      intro cfg1 x1 x2 x3 x4 hex2
      have hfetch : (pre ++ (cb ++ [jb]) ++ post)[cfg1.pc]? = some jb := by
        rw [x2]; exact getElem?_code pre _ post cb.length jb (by simp)
      have rn := Reaches.step (env := env) (w := w) hfetch
      obtain ⟨cfg3, z1, z2, z3, z4⟩ := hall (.loop none body) lb lc live base busy _ _ h0 hwf0 hvr hinj
        pre post (execInstr env w cfg1 jb) s1 hb (by simp [jb, execInstr, hb])
        ⟨x3.regv, x3.memv, x3.rc⟩ (by simpa [jb, execInstr] using x4) hex2
      exact ⟨cfg3, x1.trans (rn.trans z1), z2, z3, z4⟩
    cases f1 with
    | timeout => simp at hex
    | ok =>
      simp only at hex ⊢
      obtain ⟨cfg1, x1, x2, x3, x4⟩ := hb1 (by simp)
      simp only [exitPc, exitLive] at x2 x3
      exact again cfg1 x1 x2 (x3.mono (fun x hx => List.mem_append_left _ hx)) x4 hex
    | cont =>
      simp only at hex ⊢
      obtain ⟨cfg1, x1, x2, x3, x4⟩ := hb1 (by simp)
      simp only [exitPc, exitLive] at x2 x3
      exact again cfg1 x1 (by rw [x2, hb, hlenb]) x3 x4 hex
    | brk =>
      simp only at hex ⊢
      obtain ⟨cfg1, x1, x2, x3, x4⟩ := hb1 (by simp)
      simp only [exitPc, exitLive] at x2 x3
      refine ⟨cfg1, x1, ?_, ?_, x4⟩
      · simp only [exitPc]; rw [x2, hb, ← hlenb]; simp; omega
      · simpa [exitLive, topDecls] using x3



theorem stmtOKX_loop_some_succ (env : Nat → Nat → Nat) (w : Nat) (hw : 0 < w) (fuel : Nat) (ls : List Loc)
    (hall : ∀ st, StmtOKX env w ls fuel st) (cnd : Cond) (body : Stmt) :
    StmtOKX env w ls (fuel + 1) (.loop (some cnd) body) := by
  intro lb lc live base busy c busy' h hwf hvr hinj pre post cfg s hb hpc hag ho hex
  have h0 := h
  have hwf0 := hwf
  simp only [wfS, Bool.and_eq_true, List.all_eq_true, List.contains_iff_mem] at hwf
  obtain ⟨hvc, hwb⟩ := hwf
  simp only [compileX] at h
  split at h
  · cases h
  · rename_i cc rc busy1 hc
    split at h
    · cases h
    · rename_i cb busy2 hcb
      simp only [Option.some.injEq, Prod.mk.injEq] at h
      obtain ⟨e1, e2⟩ := h; subst e1; subst e2
      have hlenb := compileX_length ls body _ _ _ _ _ _ hcb
      let jz : Instr := .jz rc (base + cc.length + 1 + cb.length + 1)
      let jb : Instr := .j base
      have hP1 : pre ++ (cc ++ [jz] ++ cb ++ [jb]) ++ post = pre ++ cc ++ ([jz] ++ cb ++ [jb] ++ post) := by
        simp [List.append_assoc]
      have hP2 : pre ++ (cc ++ [jz] ++ cb ++ [jb]) ++ post = (pre ++ cc ++ [jz]) ++ cb ++ ([jb] ++ post) := by
        simp [List.append_assoc]
      have hlen : (cc ++ [jz] ++ cb ++ [jb]).length = cc.length + 1 + cb.length + 1 := by simp; omega
      obtain ⟨cfgc, k1, k2, k3, k4, k5, k6, k7, k8, k9, k10⟩ :=
        condL env w hw ls cnd live busy base cc rc busy1 hc pre ([jz] ++ cb ++ [jb] ++ post) cfg s hb hpc hag hvr hvc
      rw [← hP1] at k1
      have hagc : AgreeL ls live cfgc (evalC env w cnd s).2 := hag.after_expr hvr k9 k4 k6 k7
      have hfetch : (pre ++ (cc ++ [jz] ++ cb ++ [jb]) ++ post)[cfgc.pc]? = some jz := by
        rw [k2]; exact getElem?_code pre _ post cc.length jz (by simp)
      have rj := Reaches.step (env := env) (w := w) hfetch
      simp only [execX] at hex ⊢
      generalize hr : evalC env w cnd s = r at hex k3 k6 k7 k8 hagc ⊢
      obtain ⟨bv, s1⟩ := r
      have k8' : s1.outs = s.outs := k8
      have hagc' : AgreeL ls live cfgc s1 := hagc
      have hagj : AgreeL ls live (execInstr env w cfgc jz) s1 := ⟨hagc'.regv, hagc'.memv, hagc'.rc⟩
      have hoj : (execInstr env w cfgc jz).outs = s1.outs := by simp [jz, execInstr, k5, ho, k8']
      cases bv with
      | false =>
        simp only at hex k3 ⊢
        refine ⟨execInstr env w cfgc jz, k1.trans rj, ?_, ?_, hoj⟩
        · simp [jz, execInstr, k3, hb, exitPc]; omega
        · simpa [exitLive, topDecls] using hagj
      | true =>
        simp only at hex k3 ⊢
        have hpcj : (execInstr env w cfgc jz).pc = (pre ++ cc ++ [jz]).length := by
          simp [jz, execInstr, k3, k2]; omega
        have hb1 := hall body (base + cc.length + 1 + codeLen ls body + 1) (base + cc.length + 1 + codeLen ls body)
          live (base + cc.length + 1) (busy1.erase rc) cb busy2 hcb hwb (hvr.mono k10) hinj
          (pre ++ cc ++ [jz]) ([jb] ++ post) _ s1 (by rw [hb]; simp; omega) hpcj hagj hoj
        rw [← hP2] at hb1
        generalize hrb : execX env w fuel body s1 = rb at hex hb1 ⊢
        obtain ⟨s2, f2⟩ := rb
        have again : ∀ cfg1 : Cfg, Reaches env w (pre ++ (cc ++ [jz] ++ cb ++ [jb]) ++ post) cfg cfg1 →
            cfg1.pc = pre.length + (cc.length + 1 + cb.length) →
            AgreeL ls live cfg1 s2 → cfg1.outs = s2.outs → (execX env w fuel (.loop (some cnd) body) s2).2 ≠ .timeout →
            ∃ cfg', Reaches env w (pre ++ (cc ++ [jz] ++ cb ++ [jb]) ++ post) cfg cfg' ∧
              cfg'.pc = exitPc (execX env w fuel (.loop (some cnd) body) s2).2 (pre.length + (cc ++ [jz] ++ cb ++ [jb]).length) lb lc ∧
              AgreeL ls (exitLive (execX env w fuel (.loop (some cnd) body) s2).2 live (.loop (some cnd) body)) cfg'
                (execX env w fuel (.loop (some cnd) body) s2).1 ∧
              cfg'.outs = (execX env w fuel (.loop (some cnd) body) s2).1.outs := by
          intro cfg1 x1 x2 x3 x4 hex2
          have hfetch2 : (pre ++ (cc ++ [jz] ++ cb ++ [jb]) ++ post)[cfg1.pc]? = some jb := by
            rw [x2]
            exact getElem?_code pre (cc ++ [jz] ++ cb ++ [jb]) post (cc.length + 1 + cb.length) jb (by
              rw [List.getElem?_append_right (by simp; omega)]
              have : cc.length + 1 + cb.length - (cc ++ [jz] ++ cb).length = 0 := by simp; omega
              rw [this]; rfl)
          have rn := Reaches.step (env := env) (w := w) hfetch2
          obtain ⟨cfg3, z1, z2, z3, z4⟩ := hall (.loop (some cnd) body) lb lc live base busy _ _ h0 hwf0 hvr hinj
            pre post (execInstr env w cfg1 jb) s2 hb (by simp [jb, execInstr, hb])
            ⟨x3.regv, x3.memv, x3.rc⟩ (by simpa [jb, execInstr] using x4) hex2
          exact ⟨cfg3, x1.trans (rn.trans z1), z2, z3, z4⟩
        cases f2 with
        | timeout => simp at hex
        | ok =>
          simp only at hex ⊢
          obtain ⟨cfg1, x1, x2, x3, x4⟩ := hb1 (by simp)
          simp only [exitPc, exitLive] at x2 x3
          exact again cfg1 (k1.trans (rj.trans x1)) (by rw [x2]; simp; omega)
            (x3.mono (fun x hx => List.mem_append_left _ hx)) x4 hex
        | cont =>
          simp only at hex ⊢
          obtain ⟨cfg1, x1, x2, x3, x4⟩ := hb1 (by simp)
          simp only [exitPc, exitLive] at x2 x3
          exact again cfg1 (k1.trans (rj.trans x1)) (by rw [x2, hb, hlenb]; omega) x3 x4 hex
        | brk =>
          simp only at hex ⊢
          obtain ⟨cfg1, x1, x2, x3, x4⟩ := hb1 (by simp)
          simp only [exitPc, exitLive] at x2 x3
          refine ⟨cfg1, k1.trans (rj.trans x1), ?_, ?_, x4⟩
          · simp only [exitPc]; rw [x2, hb, ← hlenb]; simp; omega
          · simpa [exitLive, topDecls] using x3



theorem stmtOKX_loopP_succ (env : Nat → Nat → Nat) (w : Nat) (hw : 0 < w) (fuel : Nat) (ls : List Loc)
    (hall : ∀ st, StmtOKX env w ls fuel st) (cnd : Cond) (body q : Stmt) :
    StmtOKX env w ls (fuel + 1) (.loopP cnd body q) := by
  intro lb lc live base busy c busy' h hwf hvr hinj pre post cfg s hb hpc hag ho hex
  have h0 := h
  have hwf0 := hwf
  simp only [wfS, Bool.and_eq_true, List.all_eq_true, List.contains_iff_mem] at hwf
  obtain ⟨⟨hvc, hwb⟩, hwq⟩ := hwf
  simp only [compileX] at h
  split at h
  · cases h
  · rename_i cc rc busy1 hc
    split at h
    · cases h
    · rename_i cb busy2 hcb
      split at h
      · cases h
      · rename_i cp busy3 hcp
        simp only [Option.some.injEq, Prod.mk.injEq] at h
        obtain ⟨e1, e2⟩ := h; subst e1; subst e2
        have hlenb := compileX_length ls body _ _ _ _ _ _ hcb
        have hlenp := compileX_length ls q _ _ _ _ _ _ hcp
        let jz : Instr := .jz rc (base + cc.length + 1 + cb.length + cp.length + 1)
        let jb : Instr := .j base
        have hP1 : pre ++ (cc ++ [jz] ++ cb ++ cp ++ [jb]) ++ post = pre ++ cc ++ ([jz] ++ cb ++ cp ++ [jb] ++ post) := by
          simp [List.append_assoc]
        have hP2 : pre ++ (cc ++ [jz] ++ cb ++ cp ++ [jb]) ++ post = (pre ++ cc ++ [jz]) ++ cb ++ (cp ++ [jb] ++ post) := by
          simp [List.append_assoc]
        have hP3 : pre ++ (cc ++ [jz] ++ cb ++ cp ++ [jb]) ++ post = (pre ++ cc ++ [jz] ++ cb) ++ cp ++ ([jb] ++ post) := by
          simp [List.append_assoc]
        obtain ⟨cfgc, k1, k2, k3, k4, k5, k6, k7, k8, k9, k10⟩ :=
          condL env w hw ls cnd live busy base cc rc busy1 hc pre ([jz] ++ cb ++ cp ++ [jb] ++ post) cfg s hb hpc hag hvr hvc
        rw [← hP1] at k1
        have hagc : AgreeL ls live cfgc (evalC env w cnd s).2 := hag.after_expr hvr k9 k4 k6 k7
        have hfetch : (pre ++ (cc ++ [jz] ++ cb ++ cp ++ [jb]) ++ post)[cfgc.pc]? = some jz := by
          rw [k2]; exact getElem?_code pre _ post cc.length jz (by simp)
        have rj := Reaches.step (env := env) (w := w) hfetch
        simp only [execX] at hex ⊢
        generalize hr : evalC env w cnd s = r at hex k3 k6 k7 k8 hagc ⊢
        obtain ⟨bv, s1⟩ := r
        have k8' : s1.outs = s.outs := k8
        have hagc' : AgreeL ls live cfgc s1 := hagc
        have hagj : AgreeL ls live (execInstr env w cfgc jz) s1 := ⟨hagc'.regv, hagc'.memv, hagc'.rc⟩
        have hoj : (execInstr env w cfgc jz).outs = s1.outs := by simp [jz, execInstr, k5, ho, k8']
        cases bv with
        | false =>
          simp only at hex k3 ⊢
          refine ⟨execInstr env w cfgc jz, k1.trans rj, ?_, ?_, hoj⟩
          · simp [jz, execInstr, k3, hb, exitPc]; omega
          · simpa [exitLive, topDecls] using hagj
        | true =>
          simp only at hex k3 ⊢
          have hpcj : (execInstr env w cfgc jz).pc = (pre ++ cc ++ [jz]).length := by
            simp [jz, execInstr, k3, k2]; omega
          have hb1 := hall body (base + cc.length + 1 + codeLen ls body + codeLen ls q + 1) (base + cc.length + 1 + codeLen ls body)
            live (base + cc.length + 1) (busy1.erase rc) cb busy2 hcb hwb (hvr.mono k10) hinj
            (pre ++ cc ++ [jz]) (cp ++ [jb] ++ post) _ s1 (by rw [hb]; simp; omega) hpcj hagj hoj
          rw [← hP2] at hb1
          have hm2 : ∀ x ∈ busy, x ∈ busy2 := fun x hx => compileX_mono ls body _ _ _ _ _ _ hcb x (k10 x hx)
          generalize hrb : execX env w fuel body s1 = rb at hex hb1 ⊢
          obtain ⟨s2, f2⟩ := rb
          -- post clause, back edge, re-entry — from a state at the first instruction of the post clause
          have again : ∀ cfg1 : Cfg, Reaches env w (pre ++ (cc ++ [jz] ++ cb ++ cp ++ [jb]) ++ post) cfg cfg1 →
              cfg1.pc = pre.length + (cc.length + 1 + cb.length) → AgreeL ls live cfg1 s2 → cfg1.outs = s2.outs →
              (match execX env w fuel q s2 with
                | (s3, Status.ok) => execX env w fuel (.loopP cnd body q) s3
                | r => r).2 ≠ .timeout →
              ∃ cfg', Reaches env w (pre ++ (cc ++ [jz] ++ cb ++ cp ++ [jb]) ++ post) cfg cfg' ∧
                cfg'.pc = exitPc (match execX env w fuel q s2 with
                    | (s3, Status.ok) => execX env w fuel (.loopP cnd body q) s3
                    | r => r).2 (pre.length + (cc ++ [jz] ++ cb ++ cp ++ [jb]).length) lb lc ∧
                AgreeL ls (exitLive (match execX env w fuel q s2 with
                    | (s3, Status.ok) => execX env w fuel (.loopP cnd body q) s3
                    | r => r).2 live (.loopP cnd body q)) cfg'
                  (match execX env w fuel q s2 with
                    | (s3, Status.ok) => execX env w fuel (.loopP cnd body q) s3
                    | r => r).1 ∧
                cfg'.outs = (match execX env w fuel q s2 with
                    | (s3, Status.ok) => execX env w fuel (.loopP cnd body q) s3
                    | r => r).1.outs := by
            intro cfg1 x1 x2 x3 x4 hex2
            have hq := hall q lb lc live (base + cc.length + 1 + cb.length) busy2 cp busy3 hcp hwq (hvr.mono hm2) hinj
              (pre ++ cc ++ [jz] ++ cb) ([jb] ++ post) cfg1 s2 (by rw [hb]; simp; omega) (by rw [x2]; simp; omega) x3 x4
            rw [← hP3] at hq
            generalize hrq : execX env w fuel q s2 = rq at hex2 hq ⊢
            obtain ⟨s3, f3⟩ := rq
            cases f3 with
            | timeout => simp at hex2
            | brk =>
              obtain ⟨cfg2, y1, y2, y3, y4⟩ := hq (by simp)
              exact ⟨cfg2, x1.trans y1, by simpa [exitPc] using y2, by simpa [exitLive] using y3, y4⟩
            | cont =>
              obtain ⟨cfg2, y1, y2, y3, y4⟩ := hq (by simp)
              exact ⟨cfg2, x1.trans y1, by simpa [exitPc] using y2, by simpa [exitLive] using y3, y4⟩
            | ok =>
              simp only at hex2 ⊢
              obtain ⟨cfg2, y1, y2, y3, y4⟩ := hq (by simp)
              simp only [exitPc, exitLive] at y2 y3
              have hpc2 : cfg2.pc = pre.length + (cc.length + 1 + cb.length + cp.length) := by rw [y2]; simp; omega
              have hfetch2 : (pre ++ (cc ++ [jz] ++ cb ++ cp ++ [jb]) ++ post)[cfg2.pc]? = some jb := by
                rw [hpc2]
                exact getElem?_code pre (cc ++ [jz] ++ cb ++ cp ++ [jb]) post (cc.length + 1 + cb.length + cp.length) jb (by
                  rw [List.getElem?_append_right (by simp; omega)]
                  have : cc.length + 1 + cb.length + cp.length - (cc ++ [jz] ++ cb ++ cp).length = 0 := by simp; omega
                  rw [this]; rfl)
              have rn := Reaches.step (env := env) (w := w) hfetch2
              have y3' := y3.mono (live := live) (fun x hx => List.mem_append_left _ hx)
              obtain ⟨cfg3, z1, z2, z3, z4⟩ := hall (.loopP cnd body q) lb lc live base busy _ _ h0 hwf0 hvr hinj
                pre post (execInstr env w cfg2 jb) s3 hb (by simp [jb, execInstr, hb])
                ⟨y3'.regv, y3'.memv, y3'.rc⟩ (by simpa [jb, execInstr] using y4) hex2
              exact ⟨cfg3, x1.trans (y1.trans (rn.trans z1)), z2, z3, z4⟩
          cases f2 with
          | timeout => simp at hex
          | ok =>
            simp only at hex ⊢
            obtain ⟨cfg1, x1, x2, x3, x4⟩ := hb1 (by simp)
            simp only [exitPc, exitLive] at x2 x3
            exact again cfg1 (k1.trans (rj.trans x1)) (by rw [x2]; simp; omega)
              (x3.mono (fun x hx => List.mem_append_left _ hx)) x4 hex
          | cont =>
            simp only at hex ⊢
            obtain ⟨cfg1, x1, x2, x3, x4⟩ := hb1 (by simp)
            simp only [exitPc, exitLive] at x2 x3
            exact again cfg1 (k1.trans (rj.trans x1)) (by rw [x2, hb, hlenb]; omega) x3 x4 hex
          | brk =>
            simp only at hex ⊢
            obtain ⟨cfg1, x1, x2, x3, x4⟩ := hb1 (by simp)
            simp only [exitPc, exitLive] at x2 x3
            refine ⟨cfg1, k1.trans (rj.trans x1), ?_, ?_, x4⟩
            · simp only [exitPc]; rw [x2, hb, ← hlenb, ← hlenp]; simp; omega
            · simpa [exitLive, topDecls] using x3




theorem assignAll_agree : ∀ (xs vs : List Nat) (f g : Nat → Nat), xs.length = vs.length →
    (∀ y, y ∉ xs → f y = g y) → ∀ y, assignAll f xs vs y = assignAll g xs vs y := by
  intro xs
  induction xs with
  | nil => intro vs f g _ h y; cases vs <;> simpa [assignAll] using h y (by simp)
  | cons x xs ih =>
    intro vs f g hl h y
    cases vs with
    | nil => simp at hl
    | cons v vs =>
      simp only [assignAll]
      refine ih vs _ _ (by simpa using hl) (fun z hz => ?_) y
      by_cases hzx : z = x
      · subst hzx; simp [upd]
      · simp only [upd, hzx, if_false]
        exact h z (by simp [hzx, hz])


/-- tuple assignment: all right-hand sides into their temporaries, then the stores in order -/
theorem stmtOKX_tassign (env : Nat → Nat → Nat) (w fuel : Nat) (ls : List Loc) (ps : List (Nat × Expr)) :
    StmtOKX env w ls fuel (.tassign ps) := by
  intro lb lc live base busy c busy' h hwf hvr hinj pre post cfg s hb hpc hag ho _
  simp only [wfS, List.all_eq_true, Bool.and_eq_true, List.contains_iff_mem] at hwf
  simp only [compileX] at h
  split at h
  · cases h
  · rename_i ce rs busy1 he
    split at h
    · cases h
    · rename_i cs busy2 hs
      simp only [Option.some.injEq, Prod.mk.injEq] at h
      obtain ⟨e1, e2⟩ := h; subst e1; subst e2
      have hP1 : pre ++ (ce ++ cs) ++ post = pre ++ ce ++ (cs ++ post) := by simp [List.append_assoc]
      have hP2 : pre ++ (ce ++ cs) ++ post = (pre ++ ce) ++ cs ++ post := by simp [List.append_assoc]
      obtain ⟨_, _, f3, _, _⟩ := compileEs_facts ls _ _ _ _ _ he
      have hve : ∀ e ∈ ps.map (·.2), ∀ x ∈ exprVars e, x ∈ live := by
        intro e hem x hx
        obtain ⟨p, hp, rfl⟩ := List.mem_map.mp hem
        exact (hwf p hp).2 x hx
      have hvx : ∀ x ∈ ps.map (·.1), x ∈ live := by
        intro x hxm
        obtain ⟨p, hp, rfl⟩ := List.mem_map.mp hxm
        exact (hwf p hp).1
      obtain ⟨a1, a2, a3, a4, a5, a6⟩ := exprsL env w ls live _ busy ce rs busy1 he pre (cs ++ post) cfg s hpc hag hvr hve
      rw [← hP1] at a1 a2 a3 a4 a5 a6
      obtain ⟨g1, g2, _⟩ := evalEs_frame env w (ps.map (·.2)) s
      have hag1 : AgreeL ls live (isaRun env w (pre ++ (ce ++ cs) ++ post) ce.length cfg) (evalEs env w (ps.map (·.2)) s).2 :=
        hag.after_expr hvr a5 a2 a4 g1
      obtain ⟨b1, b2, b3⟩ := storesL env w ls live hinj _ rs _ busy1 cs busy2 hs (pre ++ ce) post _ _
        (by rw [a1]; simp) hag1 hvx (fun r hr x g hl e' => f3 r hr (e' ▸ hvr x g hl)) a6
      rw [← hP2, ← isaRun_add] at b1 b2 b3
      simp only [execX, exitPc, exitLive, topDecls, List.append_nil]
      refine ⟨_, ⟨ce.length + cs.length, rfl⟩, by rw [b1]; simp [Nat.add_assoc], b2, ?_⟩
      rw [b3, a3, ho, g2]


/-- `x1, … := e1, …`: as a tuple assignment, into variables that enter the scope with it -/
theorem stmtOKX_define (env : Nat → Nat → Nat) (w fuel : Nat) (ls : List Loc) (ps : List (Nat × Expr)) :
    StmtOKX env w ls fuel (.define ps) := by
  intro lb lc live base busy c busy' h hwf hvr hinj pre post cfg s hb hpc hag ho _
  simp only [wfS, List.all_eq_true, Bool.and_eq_true, List.contains_iff_mem] at hwf
  obtain ⟨hvars, hnew⟩ := hwf
  obtain ⟨ce, rs, busy1, cs, he, hs, hc, hmem⟩ := compileX_define_parts ls lb lc base ps busy c busy' h
  subst hc
  let xs := ps.map (·.1)
  have hP1 : pre ++ (ce ++ cs) ++ post = pre ++ ce ++ (cs ++ post) := by simp [List.append_assoc]
  have hP2 : pre ++ (ce ++ cs) ++ post = (pre ++ ce) ++ cs ++ post := by simp [List.append_assoc]
  obtain ⟨_, _, f3, _, _⟩ := compileEs_facts ls _ _ _ _ _ he
  have hve : ∀ e ∈ ps.map (·.2), ∀ x ∈ exprVars e, x ∈ live := by
    intro e hem x hx
    obtain ⟨p, hp, rfl⟩ := List.mem_map.mp hem
    exact hvars p hp x hx
  obtain ⟨a1, a2, a3, a4, a5, a6⟩ := exprsL env w ls live _ busy ce rs busy1 he pre (cs ++ post) cfg s hpc hag hvr hve
  rw [← hP1] at a1 a2 a3 a4 a5 a6
  obtain ⟨g1, g2, g3⟩ := evalEs_frame env w (ps.map (·.2)) s
  generalize hmid : isaRun env w (pre ++ (ce ++ cs) ++ post) ce.length cfg = mid at a1 a2 a3 a4 a5 a6
  have hag1 : AgreeL ls live mid (evalEs env w (ps.map (·.2)) s).2 := hag.after_expr hvr a5 a2 a4 g1
  -- the new variables enter the scope: a source state that agrees with the machine on them too
  let s1 := (evalEs env w (ps.map (·.2)) s).2
  let s1c : Src := { s1 with vars := fun y => if y ∈ xs then
      (match ls[y]? with | some (Loc.mem m) => mid.mem m | _ => s1.vars y) else s1.vars y }
  have hspec := newCells_spec ls xs live hnew
  have hag2 : AgreeL ls (live ++ xs) mid s1c := by
    refine ⟨fun y hy g hl => ?_, fun y hy m hl => ?_, hag1.rc⟩
    · by_cases hyx : y ∈ xs
      · obtain ⟨m, hm⟩ := (hspec y hyx).2
        rw [hm] at hl; cases hl
      · have hyl : y ∈ live := by
          rcases List.mem_append.mp hy with h' | h'
          · exact h'
          · exact absurd h' hyx
        simp only [s1c, hyx, if_false]
        exact hag1.regv y hyl g hl
    · by_cases hyx : y ∈ xs
      · simp only [s1c, hyx, if_true, hl]
      · have hyl : y ∈ live := by
          rcases List.mem_append.mp hy with h' | h'
          · exact h'
          · exact absurd h' hyx
        simp only [s1c, hyx, if_false]
        exact hag1.memv y hyl m hl
  obtain ⟨b1, b2, b3⟩ := storesL env w ls (live ++ xs) (newCells_liveInj ls xs live hnew hinj) xs rs _ busy1 cs busy' hs
    (pre ++ ce) post mid s1c (by rw [a1]; simp) hag2 (fun x hx => List.mem_append_right _ hx)
    (fun r hr x g hl e' => f3 r hr (e' ▸ hvr x g hl)) a6
  rw [← hP2, ← hmid, ← isaRun_add] at b1 b2 b3
  simp only [execX, exitPc, exitLive, topDecls]
  have hlen : xs.length = (evalEs env w (ps.map (·.2)) s).1.length := by simp [xs, g3]
  have hcongr := assignAll_agree xs (evalEs env w (ps.map (·.2)) s).1 s1c.vars s1.vars hlen
    (fun y hy => by simp only [s1c, hy, if_false])
  refine ⟨_, ⟨ce.length + cs.length, rfl⟩, by rw [b1]; simp [Nat.add_assoc], ?_, ?_⟩
  · exact ⟨fun y hy g hl => by rw [b2.regv y hy g hl]; exact hcongr y,
      fun y hy m hl => by rw [b2.memv y hy m hl]; exact hcongr y, b2.rc⟩
  · rw [b3, hmid, a3, ho, g2]


/-! ### `switch`: the tag, the jump table, the clause that runs -/
/-- offset (within the clause code) of the clause a `switch` on `v` runs; the length of the clause
    code when there is none -/
def swOffset (ls : List Loc) (w v : Nat) : Stmt → Nat
  | .swCase v' b rest => if v = v' % 2 ^ w then 0 else codeLen ls b + 1 + swOffset ls w v rest
  | _ => 0

/-- some clause runs -/
def swHit (w v : Nat) : Stmt → Bool
  | .swCase v' _ rest => v = v' % 2 ^ w || swHit w v rest
  | .swDefault _ => true
  | _ => false

theorem swHeader_run (env : Nat → Nat → Nat) (w : Nat) (ls : List Loc) (rt r : Nat) (hne : rt ≠ r) :
    ∀ (cs : Stmt) (start : Nat) (pre post : List Instr) (cfg : Cfg), cfg.pc = pre.length →
      ∃ cfg', Reaches env w (pre ++ swHeader ls rt r start cs ++ post) cfg cfg' ∧
        cfg'.pc = start + swOffset ls w (cfg.regs rt) cs ∧
        cfg'.mem = cfg.mem ∧ cfg'.outs = cfg.outs ∧ cfg'.rc = cfg.rc ∧
        (∀ x, x ≠ r → cfg'.regs x = cfg.regs x) := by
  intro cs
  induction cs with
  | swCase v' b rest _ ih =>
    intro start pre post cfg hpc
    simp only [swHeader, swOffset]
    let i1 : Instr := .rset r v'
    let i2 : Instr := .je rt r start
    have f1 : (pre ++ i1 :: i2 :: swHeader ls rt r (start + codeLen ls b + 1) rest ++ post)[cfg.pc]? = some i1 := by
      rw [hpc]; simp
    have r1 := Reaches.step (env := env) (w := w) f1
    let cfg1 := execInstr env w cfg i1
    have hpc1 : cfg1.pc = pre.length + 1 := by simp [cfg1, i1, execInstr, hpc]
    have f2 : (pre ++ i1 :: i2 :: swHeader ls rt r (start + codeLen ls b + 1) rest ++ post)[cfg1.pc]? = some i2 := by
      rw [hpc1]
      have : pre ++ i1 :: i2 :: swHeader ls rt r (start + codeLen ls b + 1) rest ++ post
          = (pre ++ [i1]) ++ i2 :: (swHeader ls rt r (start + codeLen ls b + 1) rest ++ post) := by simp
      rw [this]
      have hl : (pre ++ [i1]).length = pre.length + 1 := by simp
      rw [← hl]; exact getElem?_mid _ _ _
    have r2 := Reaches.step (env := env) (w := w) f2
    let cfg2 := execInstr env w cfg1 i2
    have hrt : cfg1.regs rt = cfg.regs rt := by simp [cfg1, i1, execInstr, upd, hne]
    have hr : cfg1.regs r = v' % 2 ^ w := by simp [cfg1, i1, execInstr, upd]
    by_cases hv : cfg.regs rt = v' % 2 ^ w
    · refine ⟨cfg2, r1.trans r2, ?_, ?_, ?_, ?_, ?_⟩
      · simp [cfg2, i2, execInstr, hrt, hr, hv]
      · simp [cfg2, cfg1, i1, i2, execInstr]
      · simp [cfg2, cfg1, i1, i2, execInstr]
      · simp [cfg2, cfg1, i1, i2, execInstr]
      · intro x hx; simp [cfg2, cfg1, i1, i2, execInstr, upd, hx]
    · have hpc2 : cfg2.pc = (pre ++ [i1, i2]).length := by
        simp [cfg2, i2, execInstr, hrt, hr, hv, hpc1]
      obtain ⟨cfg3, q1, q2, q3, q4, q5, q6⟩ := ih (start + codeLen ls b + 1) (pre ++ [i1, i2]) post cfg2 hpc2
      have hP : pre ++ [i1, i2] ++ swHeader ls rt r (start + codeLen ls b + 1) rest ++ post
          = pre ++ i1 :: i2 :: swHeader ls rt r (start + codeLen ls b + 1) rest ++ post := by simp
      rw [hP] at q1
      have hrt2 : cfg2.regs rt = cfg.regs rt := by simp [cfg2, i2, execInstr, hrt]
      refine ⟨cfg3, r1.trans (r2.trans q1), ?_, ?_, ?_, ?_, ?_⟩
      · rw [q2, hrt2]; simp [hv]; omega
      · rw [q3]; simp [cfg2, cfg1, i1, i2, execInstr]
      · rw [q4]; simp [cfg2, cfg1, i1, i2, execInstr]
      · rw [q5]; simp [cfg2, cfg1, i1, i2, execInstr]
      · intro x hx; rw [q6 x hx]; simp [cfg2, cfg1, i1, i2, execInstr, upd, hx]
  | _ =>
    intro start pre post cfg hpc
    simp only [swHeader, swOffset]
    refine ⟨execInstr env w cfg (.j start), Reaches.step (by rw [hpc]; simp), ?_, ?_, ?_, ?_, ?_⟩ <;>
      simp [execInstr]

theorem wfS_select (ls : List Loc) (w v : Nat) (live : List Nat) :
    ∀ cs, wfS ls cs live = true → wfS ls (swSelect w v cs) live = true := by
  intro cs
  induction cs with
  | swCase v' b rest _ ih =>
    intro h
    simp only [wfS, Bool.and_eq_true] at h
    simp only [swSelect]
    split
    · exact h.1
    · exact ih h.2
  | swDefault b => intro h; simpa [wfS, swSelect] using h
  | _ => intro _; simp [swSelect, wfS]

/-- where the clause that runs sits in the code of the clause list -/
theorem swChain_split (ls : List Loc) (w v : Nat) :
    ∀ (cs : Stmt) (lb lc base : Nat) (busy : List Nat) (cb : List Instr) (busy2 : List Nat),
      isChain cs = true → compileX ls lb lc cs base busy = some (cb, busy2) →
      ∃ (preB cbody postB : List Instr) (busyB busyB' : List Nat),
        cb = preB ++ cbody ++ postB ∧ preB.length = swOffset ls w v cs ∧
        compileX ls lb lc (swSelect w v cs) (base + preB.length) busyB = some (cbody, busyB') ∧
        (∀ x ∈ busy, x ∈ busyB) ∧
        (swHit w v cs = true → ∃ postB', postB = .j lb :: postB') ∧
        (swHit w v cs = false → cbody = [] ∧ postB = []) := by
  intro cs
  induction cs with
  | swCase v' b rest ihb ihr =>
    intro lb lc base busy cb busy2 hch h
    simp only [isChain] at hch
    simp only [compileX] at h
    split at h
    · cases h
    · rename_i c1 busy1 h1
      split at h
      · cases h
      · rename_i cr busy3 h2
        simp only [Option.some.injEq, Prod.mk.injEq] at h
        obtain ⟨e1, e2⟩ := h; subst e1; subst e2
        by_cases hv : v = v' % 2 ^ w
        · refine ⟨[], c1, [.j lb] ++ cr, busy, busy1, by simp, by simp [swOffset, hv], ?_, fun x hx => hx,
            fun _ => ⟨cr, by simp⟩, fun hh => by simp [swHit, hv] at hh⟩
          simpa [swSelect, hv] using h1
        · obtain ⟨preB, cbody, postB, busyB, busyB', p1, p2, p3, p4, p5, p6⟩ :=
            ihr lb lc (base + c1.length + 1) busy1 cr busy3 hch h2
          have hl := compileX_length ls b _ _ _ _ _ _ h1
          refine ⟨c1 ++ [.j lb] ++ preB, cbody, postB, busyB, busyB', by rw [p1]; simp [List.append_assoc], ?_, ?_,
            fun x hx => p4 x (compileX_mono ls b _ _ _ _ _ _ h1 x hx), ?_, ?_⟩
          · simp [swOffset, hv, p2, hl]; omega
          · have : base + (c1 ++ [Instr.j lb] ++ preB).length = base + c1.length + 1 + preB.length := by
              simp; omega
            rw [this]; simpa [swSelect, hv] using p3
          · intro hh; exact p5 (by simpa [swHit, hv] using hh)
          · intro hh; exact p6 (by simpa [swHit, hv] using hh)
  | swDefault b ihb =>
    intro lb lc base busy cb busy2 _ h
    simp only [compileX] at h
    split at h
    · cases h
    · rename_i c1 busy1 h1
      simp only [Option.some.injEq, Prod.mk.injEq] at h
      obtain ⟨e1, e2⟩ := h; subst e1; subst e2
      refine ⟨[], c1, [.j lb], busy, busy1, by simp, by simp [swOffset], by simpa [swSelect] using h1,
        fun x hx => hx, fun _ => ⟨[], rfl⟩, fun hh => by simp [swHit] at hh⟩
  | skip =>
    intro lb lc base busy cb busy2 _ h
    simp only [compileX, Option.some.injEq, Prod.mk.injEq] at h
    obtain ⟨e1, e2⟩ := h; subst e1; subst e2
    exact ⟨[], [], [], busy, busy, by simp, by simp [swOffset], by simp [swSelect, compileX],
      fun x hx => hx, fun hh => by simp [swHit] at hh, fun _ => ⟨rfl, rfl⟩⟩
  | _ => intro lb lc base busy cb busy2 hch; simp [isChain] at hch

theorem stmtOKX_switch (env : Nat → Nat → Nat) (w : Nat) (hw : 0 < w) (fuel : Nat) (ls : List Loc)
    (tag : Expr) (cs : Stmt) (ih : ChainAll (StmtOKX env w ls fuel) cs) : StmtOKX env w ls fuel (.switch tag cs) := by
  intro lb lc live base busy c busy' h hwf hvr hinj pre post cfg s hb hpc hag ho hex
  simp only [wfS, Bool.and_eq_true, List.all_eq_true, List.contains_iff_mem] at hwf
  obtain ⟨⟨hvt, hch⟩, hwc⟩ := hwf
  simp only [compileX] at h
  split at h
  · cases h
  · rename_i ce rt busy1 he
    split at h
    · cases h
    · rename_i cb busy2 hcb
      simp only [Option.some.injEq, Prod.mk.injEq] at h
      obtain ⟨e1, e2⟩ := h; subst e1; subst e2
      obtain ⟨_, m2, m3⟩ := compileE_mono ls tag busy ce rt busy1 he
      have hr : fresh busy1 ∉ busy1 := fresh_not_mem busy1
      have hne : rt ≠ fresh busy1 := fun e => hr (e ▸ m2)
      have hcbl : cb.length = codeLen ls cs := compileX_length ls cs _ _ _ _ _ _ hcb
      generalize hB0 : base + ce.length + swHeadLen cs = B0 at hcb ⊢
      generalize hH : swHeader ls rt (fresh busy1) B0 cs = H
      have hHl : H.length = swHeadLen cs := by rw [← hH]; exact swHeader_length ls rt _ cs B0
      rw [← hcbl] at hcb
      -- 1. the tag
      obtain ⟨k1, k2, k3, k4, k5, k6, k7, k8⟩ :=
        exprL env w ls tag live busy ce rt busy1 he pre (H ++ cb ++ post) cfg s hpc hag hvr hvt
      have hP1 : pre ++ (ce ++ H ++ cb) ++ post = pre ++ ce ++ (H ++ cb ++ post) := by simp [List.append_assoc]
      generalize hc1 : isaRun env w (pre ++ ce ++ (H ++ cb ++ post)) ce.length cfg = cfg1 at k1 k2 k3 k4 k5 k8
      have R1 : Reaches env w (pre ++ (ce ++ H ++ cb) ++ post) cfg cfg1 := ⟨ce.length, by rw [hP1]; exact hc1⟩
      have hag1 : AgreeL ls live cfg1 (evalE env w tag s).2 := hag.after_expr hvr k8 k3 k5 k6
      -- 2. the jump table
      obtain ⟨cfg2, q1, q2, q3, q4, q5, q6⟩ :=
        swHeader_run env w ls rt (fresh busy1) hne cs B0 (pre ++ ce) (cb ++ post) cfg1 (by rw [k1]; simp)
      rw [hH] at q1
      have hP2 : pre ++ (ce ++ H ++ cb) ++ post = pre ++ ce ++ H ++ (cb ++ post) := by simp [List.append_assoc]
      rw [← hP2] at q1
      rw [k2] at q2
      have hvr1 : VarRegsIn ls busy1 := hvr.mono m3
      have hag2 : AgreeL ls live cfg2 (evalE env w tag s).2 :=
        hag1.after_expr hvr1 (fun x hx => q6 x (fun e => hr (e ▸ hx))) q3 (by rw [q5]; exact hag1.rc) rfl
      -- 3. the clause that runs
      obtain ⟨preB, cbody, postB, busyB, busyB', p1, p2, p3, p4, p5, p6⟩ :=
        swChain_split ls w (evalE env w tag s).1 cs (B0 + cb.length) lc B0 busy1 cb busy2 hch hcb
      have hokb : StmtOKX env w ls fuel (swSelect w (evalE env w tag s).1 cs) :=
        chainAll_select w _ (stmtOKX_leaves env w ls fuel).1 cs ih
      have hexb : (execX env w fuel (swSelect w (evalE env w tag s).1 cs) (evalE env w tag s).2).2 ≠ .timeout := by
        intro ht; apply hex
        simp only [execX]
        generalize execX env w fuel (swSelect w (evalE env w tag s).1 cs) (evalE env w tag s).2 = r3 at ht ⊢
        obtain ⟨s3, st⟩ := r3
        simp only at ht; subst ht; rfl
      have hbase : B0 + preB.length = (pre ++ ce ++ H ++ preB).length := by
        simp [hHl]; omega
      obtain ⟨cfg3, y1, y2, y3, y4⟩ := hokb (B0 + cb.length) lc live (B0 + preB.length) busyB cbody busyB' p3
        (wfS_select ls w _ live cs hwc) (hvr1.mono p4) hinj (pre ++ ce ++ H ++ preB) (postB ++ post) cfg2
        (evalE env w tag s).2 hbase (by rw [q2, ← p2]; exact hbase) hag2 (by rw [q4, k4, ho, k7]) hexb
      have hP3 : pre ++ (ce ++ H ++ cb) ++ post = pre ++ ce ++ H ++ preB ++ cbody ++ (postB ++ post) := by
        rw [p1]; simp [List.append_assoc]
      rw [← hP3] at y1
      have hend : pre.length + (ce ++ H ++ cb).length = B0 + cb.length := by
        simp [hHl]; omega
      simp only [execX]
      generalize hr3 : execX env w fuel (swSelect w (evalE env w tag s).1 cs) (evalE env w tag s).2 = r3 at y2 y3 y4 hexb ⊢
      obtain ⟨s3, st⟩ := r3
      cases st with
      | timeout => exact absurd rfl hexb
      | brk =>
        refine ⟨cfg3, R1.trans (q1.trans y1), ?_, ?_, y4⟩
        · simp only [exitPc] at y2 ⊢; rw [y2, hend]
        · simpa [exitLive, topDecls] using y3
      | cont =>
        refine ⟨cfg3, R1.trans (q1.trans y1), ?_, ?_, y4⟩
        · simpa [exitPc] using y2
        · simpa [exitLive, topDecls] using y3
      | ok =>
        have hag3 : AgreeL ls live cfg3 s3 := by
          simp only [exitLive] at y3
          exact y3.mono (fun x hx => List.mem_append_left _ hx)
        simp only [exitPc] at y2
        by_cases hh : swHit w (evalE env w tag s).1 cs = true
        · obtain ⟨postB', hp⟩ := p5 hh
          have hf : (pre ++ (ce ++ H ++ cb) ++ post)[cfg3.pc]? = some (.j (B0 + cb.length)) := by
            rw [hP3, hp, y2]
            have : pre ++ ce ++ H ++ preB ++ cbody ++ (Instr.j (B0 + cb.length) :: postB' ++ post)
                = (pre ++ ce ++ H ++ preB ++ cbody) ++ Instr.j (B0 + cb.length) :: (postB' ++ post) := by simp
            rw [this]
            have hl : (pre ++ ce ++ H ++ preB ++ cbody).length = (pre ++ ce ++ H ++ preB).length + cbody.length := by simp; omega
            rw [← hl]; exact getElem?_mid _ _ _
          refine ⟨execInstr env w cfg3 (.j (B0 + cb.length)), R1.trans (q1.trans (y1.trans (Reaches.step hf))), ?_, ?_, ?_⟩
          · simp only [execInstr, exitPc]; exact hend.symm
          · simp only [exitLive, topDecls, List.append_nil]
            exact ⟨hag3.regv, hag3.memv, hag3.rc⟩
          · simpa [execInstr] using y4
        · have hh' : swHit w (evalE env w tag s).1 cs = false := by simpa using hh
          obtain ⟨e1, e2⟩ := p6 hh'
          refine ⟨cfg3, R1.trans (q1.trans y1), ?_, ?_, y4⟩
          · simp only [exitPc]; rw [y2, hend, p1, e1, e2]; simp [hHl]; omega
          · simpa [exitLive, topDecls] using hag3

theorem stmtOKX_struct (env : Nat → Nat → Nat) (w : Nat) (hw : 0 < w) (fuel : Nat) (ls : List Loc)
    (hloop : ∀ oc body, StmtOKX env w ls fuel (.loop oc body))
    (hloopP : ∀ c body q, StmtOKX env w ls fuel (.loopP c body q)) : ∀ st, StmtOKX env w ls fuel st := by
  intro st
  obtain ⟨l1, l2, l3, l4, l5, l6⟩ := stmtOKX_leaves env w ls fuel
  induction st using Stmt.chain_induct with
  | skip => exact l1
  | seq a b iha ihb => exact stmtOKX_seq env w fuel ls a b iha ihb
  | assign x e => exact l2 x e
  | inc x => exact l3 x
  | dec x => exact l4 x
  | decl x => exact l5 x
  | iowrite o e => exact l6 o e
  | brk => exact stmtOKX_brk env w ls fuel
  | cont => exact stmtOKX_cont env w ls fuel
  | ifThen c t iht => exact stmtOKX_ifThen env w hw fuel ls c t iht
  | ifElse c t e iht ihe => exact stmtOKX_ifElse env w hw fuel ls c t e iht ihe
  | loop oc body _ => exact hloop oc body
  | loopP c body q _ _ => exact hloopP c body q
  | tassign ps => exact stmtOKX_tassign env w fuel ls ps
  | define ps => exact stmtOKX_define env w fuel ls ps
  | switch tag cs ih => exact stmtOKX_switch env w hw fuel ls tag cs ih
  | swCase v b r => intro _ _ _ _ _ _ _ _ _ _ _ _ _ _ _ _ _ _ _ hex; simp [execX] at hex
  | swDefault b => intro _ _ _ _ _ _ _ _ _ _ _ _ _ _ _ _ _ _ _ hex; simp [execX] at hex

/-- the simulation theorem with `break` / `continue` / post clauses: every statement, every fuel -/
theorem stmtOKX_all (env : Nat → Nat → Nat) (w : Nat) (hw : 0 < w) (ls : List Loc) :
    ∀ fuel st, StmtOKX env w ls fuel st := by
  intro fuel
  induction fuel with
  | zero =>
    exact stmtOKX_struct env w hw 0 ls (fun oc body => stmtOKX_loop_zero env w ls oc body)
      (fun c body q => stmtOKX_loopP_zero env w ls c body q)
  | succ f ih =>
    refine stmtOKX_struct env w hw (f + 1) ls (fun oc body => ?_) (fun c body q => stmtOKX_loopP_succ env w hw f ls ih c body q)
    cases oc with
    | none => exact stmtOKX_loop_none_succ env w f ls ih body
    | some cnd => exact stmtOKX_loop_some_succ env w hw f ls ih cnd body

/-- an accepted program is not a re-declaring one, and its code is `compileXBody`'s -/
theorem compileXP_some {p : Prog} {code : List Instr} (h : compileXP p = some code) :
    compileXBody p = some code ∧ redeclProg p = false := by
  unfold compileXP at h
  cases hr : redeclProg p with
  | true => rw [hr] at h; simp at h
  | false => rw [hr] at h; exact ⟨by simpa using h, rfl⟩

/-- whole programs with `break` / `continue` / post clauses, termination form -/
theorem compileX_structured (env : Nat → Nat → Nat) (w : Nat) (hw : 0 < w) (fuel : Nat) (p : Prog)
    (code : List Instr) (hc : compileXP p = some code) (hwf : wfProg p = true)
    (hdone : (goEvalX env w fuel p).2 = true) :
    ∃ n, runCode env w code n = ((goEvalX env w fuel p).1, true) := by
  have hc := (compileXP_some hc).1
  unfold compileXBody at hc
  simp only at hc
  split at hc
  · rename_i c busy' hcs
    simp only [Option.some.injEq] at hc
    subst hc
    have hz0 : ZeroState ({} : Cfg) := ⟨rfl, rfl, rfl, rfl⟩
    have hpre := preamble_run env w p.decls [] 0 [] c {} rfl hz0
    simp only [List.nil_append, List.length_nil, Nat.zero_add] at hpre
    obtain ⟨hp1, hp2⟩ := hpre
    have hag : AgreeL (allLocs p) (List.range p.decls.length)
        (isaRun env w (preamble p.decls ++ c) (preamble p.decls).length {}) {} := by
      refine ⟨fun x _ g _ => ?_, fun x _ m _ => ?_, ?_⟩
      · show (isaRun env w (preambleFrom p.decls [] 0 ++ c) (preambleFrom p.decls [] 0).length {}).regs g = 0
        rw [hp2.regs]
      · show (isaRun env w (preambleFrom p.decls [] 0 ++ c) (preambleFrom p.decls [] 0).length {}).mem m = 0
        rw [hp2.mem]
      · exact hp2.rc
    have hok : (execX env w fuel p.body {}).2 = Status.ok := by
      simpa [goEvalX] using hdone
    have hst := stmtOKX_all env w hw (allLocs p) fuel p.body 0 0 (List.range p.decls.length)
      (preamble p.decls).length (varRegs (locs p.decls)) c busy' hcs hwf (allLocs_varRegs p) (allLocs_liveInj p)
      (preamble p.decls) [] _ {} rfl hp1 hag hp2.outs (by rw [hok]; simp)
    simp only [List.append_nil] at hst
    obtain ⟨cfg', ⟨n, hn⟩, s2, _, s4⟩ := hst
    rw [hok] at s2
    simp only [exitPc] at s2
    have hn' : isaRun env w (preamble p.decls ++ c) n
        (isaRun env w (preamble p.decls ++ c) (preamble p.decls).length {}) = cfg' := hn
    refine ⟨(preamble p.decls).length + n, ?_⟩
    simp only [runCode, goEvalX]
    rw [isaRun_add, hn', s4, s2]
    simp
  · cases hc



/-- runs that exhaust the fuel, with `break` / `continue` / post clauses -/
def StmtTOX (env : Nat → Nat → Nat) (w : Nat) (ls : List Loc) (fuel : Nat) (st : Stmt) : Prop :=
  ∀ (lb lc : Nat) (live : List Nat) (base : Nat) (busy : List Nat) (c : List Instr) (busy' : List Nat),
    compileX ls lb lc st base busy = some (c, busy') → wfS ls st live = true → VarRegsIn ls busy → LiveInj ls live →
    ∀ (pre post : List Instr) (cfg : Cfg) (s : Src), base = pre.length → cfg.pc = pre.length →
      AgreeL ls live cfg s → cfg.outs = s.outs → (execX env w fuel st s).2 = .timeout →
      ∃ cfg', Reaches env w (pre ++ c ++ post) cfg cfg' ∧ cfg'.outs = (execX env w fuel st s).1.outs

theorem stmtTOX_seq (env : Nat → Nat → Nat) (w : Nat) (hw : 0 < w) (fuel : Nat) (ls : List Loc) (a b : Stmt)
    (iha : StmtTOX env w ls fuel a) (ihb : StmtTOX env w ls fuel b) : StmtTOX env w ls fuel (.seq a b) := by
  intro lb lc live base busy c busy' h hwf hvr hinj pre post cfg s hb hpc hag ho hex
  simp only [wfS, Bool.and_eq_true] at hwf
  simp only [compileX] at h
  split at h
  · cases h
  · rename_i c1 busy1 h1
    split at h
    · cases h
    · rename_i c2 busy2 h2
      simp only [Option.some.injEq, Prod.mk.injEq] at h
      obtain ⟨e1, e2⟩ := h; subst e1; subst e2
      have hP1 : pre ++ (c1 ++ c2) ++ post = pre ++ c1 ++ (c2 ++ post) := by simp [List.append_assoc]
      have hP2 : pre ++ (c1 ++ c2) ++ post = (pre ++ c1) ++ c2 ++ post := by simp [List.append_assoc]
      simp only [execX] at hex ⊢
      generalize hr : execX env w fuel a s = r at hex ⊢
      obtain ⟨s1, f1⟩ := r
      cases f1 with
      | brk => simp at hex
      | cont => simp at hex
      | timeout =>
        obtain ⟨cfg1, x1, x2⟩ := iha lb lc live base busy c1 busy1 h1 hwf.1 hvr hinj pre (c2 ++ post) cfg s hb hpc hag ho
          (by rw [hr])
        rw [hr] at x2
        rw [← hP1] at x1
        exact ⟨cfg1, x1, x2⟩
      | ok =>
        simp only at hex ⊢
        obtain ⟨cfg1, x1, x2, x3, x4⟩ := stmtOKX_all env w hw ls fuel a lb lc live base busy c1 busy1 h1 hwf.1 hvr hinj
          pre (c2 ++ post) cfg s hb hpc hag ho (by rw [hr]; simp)
        rw [hr] at x2 x3 x4
        simp only [exitPc, exitLive] at x2 x3
        rw [← hP1] at x1
        obtain ⟨cfg2, y1, y2⟩ := ihb lb lc (live ++ topDecls a) (base + c1.length) busy1 c2 busy2 h2 hwf.2
          (hvr.mono (compileX_mono ls a _ _ _ _ _ _ h1)) (wfS_liveInj ls a live hwf.1 hinj)
          (pre ++ c1) post cfg1 s1 (by rw [hb]; simp) (by rw [x2]; simp) x3 x4 hex
        rw [← hP2] at y1
        exact ⟨cfg2, x1.trans y1, y2⟩

theorem stmtTOX_ifThen (env : Nat → Nat → Nat) (w : Nat) (hw : 0 < w) (fuel : Nat) (ls : List Loc)
    (cnd : Cond) (t : Stmt) (iht : StmtTOX env w ls fuel t) : StmtTOX env w ls fuel (.ifThen cnd t) := by
  intro lb lc live base busy c busy' h hwf hvr hinj pre post cfg s hb hpc hag ho hex
  simp only [wfS, Bool.and_eq_true, List.all_eq_true, List.contains_iff_mem] at hwf
  obtain ⟨hvc, hwt⟩ := hwf
  simp only [compileX] at h
  split at h
  · cases h
  · rename_i cc rc busy1 hc
    split at h
    · cases h
    · rename_i ct busy2 ht
      simp only [Option.some.injEq, Prod.mk.injEq] at h
      obtain ⟨e1, e2⟩ := h; subst e1; subst e2
      let jz : Instr := .jz rc (base + cc.length + 1 + ct.length)
      have hP1 : pre ++ (cc ++ [jz] ++ ct) ++ post = pre ++ cc ++ ([jz] ++ ct ++ post) := by simp [List.append_assoc]
      have hP2 : pre ++ (cc ++ [jz] ++ ct) ++ post = (pre ++ cc ++ [jz]) ++ ct ++ post := by simp [List.append_assoc]
      obtain ⟨cfgc, k1, k2, k3, k4, k5, k6, k7, k8, k9, k10⟩ :=
        condL env w hw ls cnd live busy base cc rc busy1 hc pre ([jz] ++ ct ++ post) cfg s hb hpc hag hvr hvc
      rw [← hP1] at k1
      have hagc : AgreeL ls live cfgc (evalC env w cnd s).2 := hag.after_expr hvr k9 k4 k6 k7
      have hfetch : (pre ++ (cc ++ [jz] ++ ct) ++ post)[cfgc.pc]? = some jz := by
        rw [k2]; exact getElem?_code pre _ post cc.length jz (by simp)
      have rj := Reaches.step (env := env) (w := w) hfetch
      simp only [execX] at hex ⊢
      generalize hr : evalC env w cnd s = r at hex k3 k6 k7 k8 hagc ⊢
      obtain ⟨bv, s1⟩ := r
      have k8' : s1.outs = s.outs := k8
      have hagc' : AgreeL ls live cfgc s1 := hagc
      cases bv with
      | false => simp at hex
      | true =>
        simp only at hex k3 ⊢
        have hpcj : (execInstr env w cfgc jz).pc = (pre ++ cc ++ [jz]).length := by
          simp [jz, execInstr, k3, k2]; omega
        have hagj : AgreeL ls live (execInstr env w cfgc jz) s1 := ⟨hagc'.regv, hagc'.memv, hagc'.rc⟩
        obtain ⟨cfg2, y1, y2⟩ := iht lb lc live (base + cc.length + 1) (busy1.erase rc) ct busy2 ht hwt
          (hvr.mono k10) hinj (pre ++ cc ++ [jz]) post _ s1 (by rw [hb]; simp; omega) hpcj hagj
          (by simp [jz, execInstr, k5, ho, k8']) hex
        rw [← hP2] at y1
        exact ⟨cfg2, k1.trans (rj.trans y1), y2⟩

theorem stmtTOX_ifElse (env : Nat → Nat → Nat) (w : Nat) (hw : 0 < w) (fuel : Nat) (ls : List Loc)
    (cnd : Cond) (t e : Stmt) (iht : StmtTOX env w ls fuel t) (ihe : StmtTOX env w ls fuel e) :
    StmtTOX env w ls fuel (.ifElse cnd t e) := by
  intro lb lc live base busy c busy' h hwf hvr hinj pre post cfg s hb hpc hag ho hex
  simp only [wfS, Bool.and_eq_true, List.all_eq_true, List.contains_iff_mem] at hwf
  obtain ⟨⟨hvc, hwt⟩, hwe⟩ := hwf
  simp only [compileX] at h
  split at h
  · cases h
  · rename_i cc rc busy1 hc
    split at h
    · cases h
    · rename_i ct busy2 ht
      split at h
      · cases h
      · rename_i ce busy3 he
        simp only [Option.some.injEq, Prod.mk.injEq] at h
        obtain ⟨e1, e2⟩ := h; subst e1; subst e2
        let jz : Instr := .jz rc (base + cc.length + 1 + ct.length + 1)
        let jn : Instr := .j (base + cc.length + 1 + ct.length + 1 + ce.length)
        have hP1 : pre ++ (cc ++ [jz] ++ ct ++ [jn] ++ ce) ++ post = pre ++ cc ++ ([jz] ++ ct ++ [jn] ++ ce ++ post) := by
          simp [List.append_assoc]
        have hP2 : pre ++ (cc ++ [jz] ++ ct ++ [jn] ++ ce) ++ post = (pre ++ cc ++ [jz]) ++ ct ++ ([jn] ++ ce ++ post) := by
          simp [List.append_assoc]
        have hP3 : pre ++ (cc ++ [jz] ++ ct ++ [jn] ++ ce) ++ post = (pre ++ cc ++ [jz] ++ ct ++ [jn]) ++ ce ++ post := by
          simp [List.append_assoc]
        obtain ⟨cfgc, k1, k2, k3, k4, k5, k6, k7, k8, k9, k10⟩ :=
          condL env w hw ls cnd live busy base cc rc busy1 hc pre ([jz] ++ ct ++ [jn] ++ ce ++ post) cfg s hb hpc hag hvr hvc
        rw [← hP1] at k1
        have hagc : AgreeL ls live cfgc (evalC env w cnd s).2 := hag.after_expr hvr k9 k4 k6 k7
        have hfetch : (pre ++ (cc ++ [jz] ++ ct ++ [jn] ++ ce) ++ post)[cfgc.pc]? = some jz := by
          rw [k2]; exact getElem?_code pre _ post cc.length jz (by simp)
        have rj := Reaches.step (env := env) (w := w) hfetch
        simp only [execX] at hex ⊢
        generalize hr : evalC env w cnd s = r at hex k3 k6 k7 k8 hagc ⊢
        obtain ⟨bv, s1⟩ := r
        have k8' : s1.outs = s.outs := k8
        have hagc' : AgreeL ls live cfgc s1 := hagc
        have hagj : AgreeL ls live (execInstr env w cfgc jz) s1 := ⟨hagc'.regv, hagc'.memv, hagc'.rc⟩
        have hoj : (execInstr env w cfgc jz).outs = s1.outs := by simp [jz, execInstr, k5, ho, k8']
        cases bv with
        | true =>
          simp only at hex k3 ⊢
          have hpcj : (execInstr env w cfgc jz).pc = (pre ++ cc ++ [jz]).length := by
            simp [jz, execInstr, k3, k2]; omega
          obtain ⟨cfg2, y1, y2⟩ := iht lb lc live (base + cc.length + 1) (busy1.erase rc) ct busy2 ht hwt
            (hvr.mono k10) hinj (pre ++ cc ++ [jz]) ([jn] ++ ce ++ post) _ s1 (by rw [hb]; simp; omega) hpcj hagj hoj hex
          rw [← hP2] at y1
          exact ⟨cfg2, k1.trans (rj.trans y1), y2⟩
        | false =>
          simp only at hex k3 ⊢
          have hpcj : (execInstr env w cfgc jz).pc = (pre ++ cc ++ [jz] ++ ct ++ [jn]).length := by
            simp [jz, execInstr, k3, hb]; omega
          have hm2 : ∀ x ∈ busy, x ∈ busy2 := fun x hx => compileX_mono ls t _ _ _ _ _ _ ht x (k10 x hx)
          obtain ⟨cfg2, y1, y2⟩ := ihe lb lc live (base + cc.length + 1 + ct.length + 1) busy2 ce busy3 he hwe
            (hvr.mono hm2) hinj (pre ++ cc ++ [jz] ++ ct ++ [jn]) post _ s1 (by rw [hb]; simp; omega) hpcj hagj hoj hex
          rw [← hP3] at y1
          exact ⟨cfg2, k1.trans (rj.trans y1), y2⟩



theorem stmtTOX_loop_zero (env : Nat → Nat → Nat) (w : Nat) (ls : List Loc) (oc : Option Cond) (body : Stmt) :
    StmtTOX env w ls 0 (.loop oc body) := by
  intro lb lc live base busy c busy' h hwf hvr hinj pre post cfg s hb hpc hag ho hex
  exact ⟨cfg, Reaches.refl _ _ _ _, by simp [execX, ho]⟩

theorem stmtTOX_loopP_zero (env : Nat → Nat → Nat) (w : Nat) (ls : List Loc) (cnd : Cond) (body q : Stmt) :
    StmtTOX env w ls 0 (.loopP cnd body q) := by
  intro lb lc live base busy c busy' h hwf hvr hinj pre post cfg s hb hpc hag ho hex
  exact ⟨cfg, Reaches.refl _ _ _ _, by simp [execX, ho]⟩

theorem stmtTOX_loop_none_succ (env : Nat → Nat → Nat) (w : Nat) (hw : 0 < w) (fuel : Nat) (ls : List Loc)
    (hall : ∀ st, StmtTOX env w ls fuel st) (body : Stmt) :
    StmtTOX env w ls (fuel + 1) (.loop none body) := by
  intro lb lc live base busy c busy' h hwf hvr hinj pre post cfg s hb hpc hag ho hex
  have h0 := h
  have hwf0 := hwf
  simp only [wfS] at hwf
  simp only [compileX] at h
  split at h
  · cases h
  · rename_i cb busy1 hcb
    simp only [Option.some.injEq, Prod.mk.injEq] at h
    obtain ⟨e1, e2⟩ := h; subst e1; subst e2
    have hlenb := compileX_length ls body _ _ _ _ _ _ hcb
    let jb : Instr := .j base
    have hP1 : pre ++ (cb ++ [jb]) ++ post = pre ++ cb ++ ([jb] ++ post) := by simp [List.append_assoc]
    simp only [execX] at hex ⊢
    generalize hrb : execX env w fuel body s = rb at hex ⊢
    obtain ⟨s1, f1⟩ := rb
    have again : ∀ cfg1 : Cfg, Reaches env w (pre ++ (cb ++ [jb]) ++ post) cfg cfg1 → cfg1.pc = pre.length + cb.length →
        AgreeL ls live cfg1 s1 → cfg1.outs = s1.outs → (execX env w fuel (.loop none body) s1).2 = .timeout →
        ∃ cfg', Reaches env w (pre ++ (cb ++ [jb]) ++ post) cfg cfg' ∧
          cfg'.outs = (execX env w fuel (.loop none body) s1).1.outs := by
      intro cfg1 x1 x2 x3 x4 hex2
      have hfetch : (pre ++ (cb ++ [jb]) ++ post)[cfg1.pc]? = some jb := by
        rw [x2]; exact getElem?_code pre _ post cb.length jb (by simp)
      have rn := Reaches.step (env := env) (w := w) hfetch
      obtain ⟨cfg3, z1, z2⟩ := hall (.loop none body) lb lc live base busy _ _ h0 hwf0 hvr hinj
        pre post (execInstr env w cfg1 jb) s1 hb (by simp [jb, execInstr, hb])
        ⟨x3.regv, x3.memv, x3.rc⟩ (by simpa [jb, execInstr] using x4) hex2
      exact ⟨cfg3, x1.trans (rn.trans z1), z2⟩
    have hb1 := stmtOKX_all env w hw ls fuel body (base + codeLen ls body + 1) (base + codeLen ls body) live base busy
      cb busy1 hcb hwf hvr hinj pre ([jb] ++ post) cfg s hb hpc hag ho
    rw [← hP1, hrb] at hb1
    cases f1 with
    | brk => simp at hex
    | timeout =>
      simp only at hex ⊢
      obtain ⟨cfg1, x1, x2⟩ := hall body (base + codeLen ls body + 1) (base + codeLen ls body) live base busy cb busy1
        hcb hwf hvr hinj pre ([jb] ++ post) cfg s hb hpc hag ho (by rw [hrb])
      rw [hrb] at x2
      rw [← hP1] at x1
      exact ⟨cfg1, x1, x2⟩
    | ok =>
      simp only at hex ⊢
      obtain ⟨cfg1, x1, x2, x3, x4⟩ := hb1 (by simp)
      simp only [exitPc, exitLive] at x2 x3
      exact again cfg1 x1 x2 (x3.mono (fun x hx => List.mem_append_left _ hx)) x4 hex
    | cont =>
      simp only at hex ⊢
      obtain ⟨cfg1, x1, x2, x3, x4⟩ := hb1 (by simp)
      simp only [exitPc, exitLive] at x2 x3
      exact again cfg1 x1 (by rw [x2, hb, hlenb]) x3 x4 hex

theorem stmtTOX_loop_some_succ (env : Nat → Nat → Nat) (w : Nat) (hw : 0 < w) (fuel : Nat) (ls : List Loc)
    (hall : ∀ st, StmtTOX env w ls fuel st) (cnd : Cond) (body : Stmt) :
    StmtTOX env w ls (fuel + 1) (.loop (some cnd) body) := by
  intro lb lc live base busy c busy' h hwf hvr hinj pre post cfg s hb hpc hag ho hex
  have h0 := h
  have hwf0 := hwf
  simp only [wfS, Bool.and_eq_true, List.all_eq_true, List.contains_iff_mem] at hwf
  obtain ⟨hvc, hwb⟩ := hwf
  simp only [compileX] at h
  split at h
  · cases h
  · rename_i cc rc busy1 hc
    split at h
    · cases h
    · rename_i cb busy2 hcb
      simp only [Option.some.injEq, Prod.mk.injEq] at h
      obtain ⟨e1, e2⟩ := h; subst e1; subst e2
      have hlenb := compileX_length ls body _ _ _ _ _ _ hcb
      let jz : Instr := .jz rc (base + cc.length + 1 + cb.length + 1)
      let jb : Instr := .j base
      have hP1 : pre ++ (cc ++ [jz] ++ cb ++ [jb]) ++ post = pre ++ cc ++ ([jz] ++ cb ++ [jb] ++ post) := by
        simp [List.append_assoc]
      have hP2 : pre ++ (cc ++ [jz] ++ cb ++ [jb]) ++ post = (pre ++ cc ++ [jz]) ++ cb ++ ([jb] ++ post) := by
        simp [List.append_assoc]
      obtain ⟨cfgc, k1, k2, k3, k4, k5, k6, k7, k8, k9, k10⟩ :=
        condL env w hw ls cnd live busy base cc rc busy1 hc pre ([jz] ++ cb ++ [jb] ++ post) cfg s hb hpc hag hvr hvc
      rw [← hP1] at k1
      have hagc : AgreeL ls live cfgc (evalC env w cnd s).2 := hag.after_expr hvr k9 k4 k6 k7
      have hfetch : (pre ++ (cc ++ [jz] ++ cb ++ [jb]) ++ post)[cfgc.pc]? = some jz := by
        rw [k2]; exact getElem?_code pre _ post cc.length jz (by simp)
      have rj := Reaches.step (env := env) (w := w) hfetch
      simp only [execX] at hex ⊢
      generalize hr : evalC env w cnd s = r at hex k3 k6 k7 k8 hagc ⊢
      obtain ⟨bv, s1⟩ := r
      have k8' : s1.outs = s.outs := k8
      have hagc' : AgreeL ls live cfgc s1 := hagc
      have hagj : AgreeL ls live (execInstr env w cfgc jz) s1 := ⟨hagc'.regv, hagc'.memv, hagc'.rc⟩
      have hoj : (execInstr env w cfgc jz).outs = s1.outs := by simp [jz, execInstr, k5, ho, k8']
      cases bv with
      | false => simp at hex
      | true =>
        simp only at hex k3 ⊢
        have hpcj : (execInstr env w cfgc jz).pc = (pre ++ cc ++ [jz]).length := by
          simp [jz, execInstr, k3, k2]; omega
        have hb1 := stmtOKX_all env w hw ls fuel body (base + cc.length + 1 + codeLen ls body + 1)
          (base + cc.length + 1 + codeLen ls body) live (base + cc.length + 1) (busy1.erase rc) cb busy2 hcb hwb
          (hvr.mono k10) hinj (pre ++ cc ++ [jz]) ([jb] ++ post) _ s1 (by rw [hb]; simp; omega) hpcj hagj hoj
        rw [← hP2] at hb1
        generalize hrb : execX env w fuel body s1 = rb at hex hb1 ⊢
        obtain ⟨s2, f2⟩ := rb
        have again : ∀ cfg1 : Cfg, Reaches env w (pre ++ (cc ++ [jz] ++ cb ++ [jb]) ++ post) cfg cfg1 →
            cfg1.pc = pre.length + (cc.length + 1 + cb.length) →
            AgreeL ls live cfg1 s2 → cfg1.outs = s2.outs → (execX env w fuel (.loop (some cnd) body) s2).2 = .timeout →
            ∃ cfg', Reaches env w (pre ++ (cc ++ [jz] ++ cb ++ [jb]) ++ post) cfg cfg' ∧
              cfg'.outs = (execX env w fuel (.loop (some cnd) body) s2).1.outs := by
          intro cfg1 x1 x2 x3 x4 hex2
          have hfetch2 : (pre ++ (cc ++ [jz] ++ cb ++ [jb]) ++ post)[cfg1.pc]? = some jb := by
            rw [x2]
            exact getElem?_code pre (cc ++ [jz] ++ cb ++ [jb]) post (cc.length + 1 + cb.length) jb (by
              rw [List.getElem?_append_right (by simp; omega)]
              have : cc.length + 1 + cb.length - (cc ++ [jz] ++ cb).length = 0 := by simp; omega
              rw [this]; rfl)
          have rn := Reaches.step (env := env) (w := w) hfetch2
          obtain ⟨cfg3, z1, z2⟩ := hall (.loop (some cnd) body) lb lc live base busy _ _ h0 hwf0 hvr hinj
            pre post (execInstr env w cfg1 jb) s2 hb (by simp [jb, execInstr, hb])
            ⟨x3.regv, x3.memv, x3.rc⟩ (by simpa [jb, execInstr] using x4) hex2
          exact ⟨cfg3, x1.trans (rn.trans z1), z2⟩
        cases f2 with
        | brk => simp at hex
        | timeout =>
          simp only at hex ⊢
          obtain ⟨cfg2, y1, y2⟩ := hall body (base + cc.length + 1 + codeLen ls body + 1)
            (base + cc.length + 1 + codeLen ls body) live (base + cc.length + 1) (busy1.erase rc) cb busy2 hcb hwb
            (hvr.mono k10) hinj (pre ++ cc ++ [jz]) ([jb] ++ post) _ s1 (by rw [hb]; simp; omega) hpcj hagj hoj
            (by rw [hrb])
          rw [hrb] at y2
          rw [← hP2] at y1
          exact ⟨cfg2, k1.trans (rj.trans y1), y2⟩
        | ok =>
          simp only at hex ⊢
          obtain ⟨cfg1, x1, x2, x3, x4⟩ := hb1 (by simp)
          simp only [exitPc, exitLive] at x2 x3
          exact again cfg1 (k1.trans (rj.trans x1)) (by rw [x2]; simp; omega)
            (x3.mono (fun x hx => List.mem_append_left _ hx)) x4 hex
        | cont =>
          simp only at hex ⊢
          obtain ⟨cfg1, x1, x2, x3, x4⟩ := hb1 (by simp)
          simp only [exitPc, exitLive] at x2 x3
          exact again cfg1 (k1.trans (rj.trans x1)) (by rw [x2, hb, hlenb]; omega) x3 x4 hex



theorem stmtTOX_loopP_succ (env : Nat → Nat → Nat) (w : Nat) (hw : 0 < w) (fuel : Nat) (ls : List Loc)
    (hall : ∀ st, StmtTOX env w ls fuel st) (cnd : Cond) (body q : Stmt) :
    StmtTOX env w ls (fuel + 1) (.loopP cnd body q) := by
  intro lb lc live base busy c busy' h hwf hvr hinj pre post cfg s hb hpc hag ho hex
  have h0 := h
  have hwf0 := hwf
  simp only [wfS, Bool.and_eq_true, List.all_eq_true, List.contains_iff_mem] at hwf
  obtain ⟨⟨hvc, hwb⟩, hwq⟩ := hwf
  simp only [compileX] at h
  split at h
  · cases h
  · rename_i cc rc busy1 hc
    split at h
    · cases h
    · rename_i cb busy2 hcb
      split at h
      · cases h
      · rename_i cp busy3 hcp
        simp only [Option.some.injEq, Prod.mk.injEq] at h
        obtain ⟨e1, e2⟩ := h; subst e1; subst e2
        have hlenb := compileX_length ls body _ _ _ _ _ _ hcb
        let jz : Instr := .jz rc (base + cc.length + 1 + cb.length + cp.length + 1)
        let jb : Instr := .j base
        have hP1 : pre ++ (cc ++ [jz] ++ cb ++ cp ++ [jb]) ++ post = pre ++ cc ++ ([jz] ++ cb ++ cp ++ [jb] ++ post) := by
          simp [List.append_assoc]
        have hP2 : pre ++ (cc ++ [jz] ++ cb ++ cp ++ [jb]) ++ post = (pre ++ cc ++ [jz]) ++ cb ++ (cp ++ [jb] ++ post) := by
          simp [List.append_assoc]
        have hP3 : pre ++ (cc ++ [jz] ++ cb ++ cp ++ [jb]) ++ post = (pre ++ cc ++ [jz] ++ cb) ++ cp ++ ([jb] ++ post) := by
          simp [List.append_assoc]
        obtain ⟨cfgc, k1, k2, k3, k4, k5, k6, k7, k8, k9, k10⟩ :=
          condL env w hw ls cnd live busy base cc rc busy1 hc pre ([jz] ++ cb ++ cp ++ [jb] ++ post) cfg s hb hpc hag hvr hvc
        rw [← hP1] at k1
        have hagc : AgreeL ls live cfgc (evalC env w cnd s).2 := hag.after_expr hvr k9 k4 k6 k7
        have hfetch : (pre ++ (cc ++ [jz] ++ cb ++ cp ++ [jb]) ++ post)[cfgc.pc]? = some jz := by
          rw [k2]; exact getElem?_code pre _ post cc.length jz (by simp)
        have rj := Reaches.step (env := env) (w := w) hfetch
        simp only [execX] at hex ⊢
        generalize hr : evalC env w cnd s = r at hex k3 k6 k7 k8 hagc ⊢
        obtain ⟨bv, s1⟩ := r
        have k8' : s1.outs = s.outs := k8
        have hagc' : AgreeL ls live cfgc s1 := hagc
        have hagj : AgreeL ls live (execInstr env w cfgc jz) s1 := ⟨hagc'.regv, hagc'.memv, hagc'.rc⟩
        have hoj : (execInstr env w cfgc jz).outs = s1.outs := by simp [jz, execInstr, k5, ho, k8']
        cases bv with
        | false => simp at hex
        | true =>
          simp only at hex k3 ⊢
          have hpcj : (execInstr env w cfgc jz).pc = (pre ++ cc ++ [jz]).length := by
            simp [jz, execInstr, k3, k2]; omega
          have hb1 := stmtOKX_all env w hw ls fuel body (base + cc.length + 1 + codeLen ls body + codeLen ls q + 1)
            (base + cc.length + 1 + codeLen ls body) live (base + cc.length + 1) (busy1.erase rc) cb busy2 hcb hwb
            (hvr.mono k10) hinj (pre ++ cc ++ [jz]) (cp ++ [jb] ++ post) _ s1 (by rw [hb]; simp; omega) hpcj hagj hoj
          rw [← hP2] at hb1
          have hm2 : ∀ x ∈ busy, x ∈ busy2 := fun x hx => compileX_mono ls body _ _ _ _ _ _ hcb x (k10 x hx)
          generalize hrb : execX env w fuel body s1 = rb at hex hb1 ⊢
          obtain ⟨s2, f2⟩ := rb
          have again : ∀ cfg1 : Cfg, Reaches env w (pre ++ (cc ++ [jz] ++ cb ++ cp ++ [jb]) ++ post) cfg cfg1 →
              cfg1.pc = pre.length + (cc.length + 1 + cb.length) → AgreeL ls live cfg1 s2 → cfg1.outs = s2.outs →
              (match execX env w fuel q s2 with
                | (s3, Status.ok) => execX env w fuel (.loopP cnd body q) s3
                | r => r).2 = .timeout →
              ∃ cfg', Reaches env w (pre ++ (cc ++ [jz] ++ cb ++ cp ++ [jb]) ++ post) cfg cfg' ∧
                cfg'.outs = (match execX env w fuel q s2 with
                    | (s3, Status.ok) => execX env w fuel (.loopP cnd body q) s3
                    | r => r).1.outs := by
            intro cfg1 x1 x2 x3 x4 hex2
            have hq := stmtOKX_all env w hw ls fuel q lb lc live (base + cc.length + 1 + cb.length) busy2 cp busy3 hcp hwq
              (hvr.mono hm2) hinj (pre ++ cc ++ [jz] ++ cb) ([jb] ++ post) cfg1 s2 (by rw [hb]; simp; omega)
              (by rw [x2]; simp; omega) x3 x4
            have hqt := hall q lb lc live (base + cc.length + 1 + cb.length) busy2 cp busy3 hcp hwq
              (hvr.mono hm2) hinj (pre ++ cc ++ [jz] ++ cb) ([jb] ++ post) cfg1 s2 (by rw [hb]; simp; omega)
              (by rw [x2]; simp; omega) x3 x4
            rw [← hP3] at hq hqt
            generalize hrq : execX env w fuel q s2 = rq at hex2 hq hqt ⊢
            obtain ⟨s3, f3⟩ := rq
            cases f3 with
            | brk => simp at hex2
            | cont => simp at hex2
            | timeout =>
              obtain ⟨cfg2, y1, y2⟩ := hqt rfl
              exact ⟨cfg2, x1.trans y1, y2⟩
            | ok =>
              simp only at hex2 ⊢
              obtain ⟨cfg2, y1, y2, y3, y4⟩ := hq (by simp)
              simp only [exitPc, exitLive] at y2 y3
              have hpc2 : cfg2.pc = pre.length + (cc.length + 1 + cb.length + cp.length) := by rw [y2]; simp; omega
              have hfetch2 : (pre ++ (cc ++ [jz] ++ cb ++ cp ++ [jb]) ++ post)[cfg2.pc]? = some jb := by
                rw [hpc2]
                exact getElem?_code pre (cc ++ [jz] ++ cb ++ cp ++ [jb]) post (cc.length + 1 + cb.length + cp.length) jb (by
                  rw [List.getElem?_append_right (by simp; omega)]
                  have : cc.length + 1 + cb.length + cp.length - (cc ++ [jz] ++ cb ++ cp).length = 0 := by simp; omega
                  rw [this]; rfl)
              have rn := Reaches.step (env := env) (w := w) hfetch2
              have y3' := y3.mono (live := live) (fun x hx => List.mem_append_left _ hx)
              obtain ⟨cfg3, z1, z2⟩ := hall (.loopP cnd body q) lb lc live base busy _ _ h0 hwf0 hvr hinj
                pre post (execInstr env w cfg2 jb) s3 hb (by simp [jb, execInstr, hb])
                ⟨y3'.regv, y3'.memv, y3'.rc⟩ (by simpa [jb, execInstr] using y4) hex2
              exact ⟨cfg3, x1.trans (y1.trans (rn.trans z1)), z2⟩
          cases f2 with
          | brk => simp at hex
          | timeout =>
            simp only at hex ⊢
            obtain ⟨cfg2, y1, y2⟩ := hall body (base + cc.length + 1 + codeLen ls body + codeLen ls q + 1)
              (base + cc.length + 1 + codeLen ls body) live (base + cc.length + 1) (busy1.erase rc) cb busy2 hcb hwb
              (hvr.mono k10) hinj (pre ++ cc ++ [jz]) (cp ++ [jb] ++ post) _ s1 (by rw [hb]; simp; omega) hpcj hagj hoj
              (by rw [hrb])
            rw [hrb] at y2
            rw [← hP2] at y1
            exact ⟨cfg2, k1.trans (rj.trans y1), y2⟩
          | ok =>
            simp only at hex ⊢
            obtain ⟨cfg1, x1, x2, x3, x4⟩ := hb1 (by simp)
            simp only [exitPc, exitLive] at x2 x3
            exact again cfg1 (k1.trans (rj.trans x1)) (by rw [x2]; simp; omega)
              (x3.mono (fun x hx => List.mem_append_left _ hx)) x4 hex
          | cont =>
            simp only at hex ⊢
            obtain ⟨cfg1, x1, x2, x3, x4⟩ := hb1 (by simp)
            simp only [exitPc, exitLive] at x2 x3
            exact again cfg1 (k1.trans (rj.trans x1)) (by rw [x2, hb, hlenb]; omega) x3 x4 hex

theorem stmtTOX_switch (env : Nat → Nat → Nat) (w : Nat) (hw : 0 < w) (fuel : Nat) (ls : List Loc)
    (tag : Expr) (cs : Stmt) (ih : ChainAll (StmtTOX env w ls fuel) cs) : StmtTOX env w ls fuel (.switch tag cs) := by
  intro lb lc live base busy c busy' h hwf hvr hinj pre post cfg s hb hpc hag ho hex
  simp only [wfS, Bool.and_eq_true, List.all_eq_true, List.contains_iff_mem] at hwf
  obtain ⟨⟨hvt, hch⟩, hwc⟩ := hwf
  simp only [compileX] at h
  split at h
  · cases h
  · rename_i ce rt busy1 he
    split at h
    · cases h
    · rename_i cb busy2 hcb
      simp only [Option.some.injEq, Prod.mk.injEq] at h
      obtain ⟨e1, e2⟩ := h; subst e1; subst e2
      obtain ⟨_, m2, m3⟩ := compileE_mono ls tag busy ce rt busy1 he
      have hr : fresh busy1 ∉ busy1 := fresh_not_mem busy1
      have hne : rt ≠ fresh busy1 := fun e => hr (e ▸ m2)
      have hcbl : cb.length = codeLen ls cs := compileX_length ls cs _ _ _ _ _ _ hcb
      generalize hB0 : base + ce.length + swHeadLen cs = B0 at hcb ⊢
      generalize hH : swHeader ls rt (fresh busy1) B0 cs = H
      have hHl : H.length = swHeadLen cs := by rw [← hH]; exact swHeader_length ls rt _ cs B0
      rw [← hcbl] at hcb
      obtain ⟨k1, k2, k3, k4, k5, k6, k7, k8⟩ :=
        exprL env w ls tag live busy ce rt busy1 he pre (H ++ cb ++ post) cfg s hpc hag hvr hvt
      have hP1 : pre ++ (ce ++ H ++ cb) ++ post = pre ++ ce ++ (H ++ cb ++ post) := by simp [List.append_assoc]
      generalize hc1 : isaRun env w (pre ++ ce ++ (H ++ cb ++ post)) ce.length cfg = cfg1 at k1 k2 k3 k4 k5 k8
      have R1 : Reaches env w (pre ++ (ce ++ H ++ cb) ++ post) cfg cfg1 := ⟨ce.length, by rw [hP1]; exact hc1⟩
      have hag1 : AgreeL ls live cfg1 (evalE env w tag s).2 := hag.after_expr hvr k8 k3 k5 k6
      obtain ⟨cfg2, q1, q2, q3, q4, q5, q6⟩ :=
        swHeader_run env w ls rt (fresh busy1) hne cs B0 (pre ++ ce) (cb ++ post) cfg1 (by rw [k1]; simp)
      rw [hH] at q1
      have hP2 : pre ++ (ce ++ H ++ cb) ++ post = pre ++ ce ++ H ++ (cb ++ post) := by simp [List.append_assoc]
      rw [← hP2] at q1
      rw [k2] at q2
      have hvr1 : VarRegsIn ls busy1 := hvr.mono m3
      have hag2 : AgreeL ls live cfg2 (evalE env w tag s).2 :=
        hag1.after_expr hvr1 (fun x hx => q6 x (fun e => hr (e ▸ hx))) q3 (by rw [q5]; exact hag1.rc) rfl
      obtain ⟨preB, cbody, postB, busyB, busyB', p1, p2, p3, p4, _, _⟩ :=
        swChain_split ls w (evalE env w tag s).1 cs (B0 + cb.length) lc B0 busy1 cb busy2 hch hcb
      have htob : StmtTOX env w ls fuel (swSelect w (evalE env w tag s).1 cs) :=
        chainAll_select w _ (by intro _ _ _ _ _ _ _ _ _ _ _ _ _ _ _ _ _ _ _ hex; simp [execX] at hex) cs ih
      have hexb : (execX env w fuel (swSelect w (evalE env w tag s).1 cs) (evalE env w tag s).2).2 = .timeout := by
        simp only [execX] at hex
        generalize execX env w fuel (swSelect w (evalE env w tag s).1 cs) (evalE env w tag s).2 = r3 at hex ⊢
        obtain ⟨s3, st⟩ := r3
        cases st <;> first | rfl | cases hex
      have hbase : B0 + preB.length = (pre ++ ce ++ H ++ preB).length := by
        simp [hHl]; omega
      obtain ⟨cfg3, y1, y2⟩ := htob (B0 + cb.length) lc live (B0 + preB.length) busyB cbody busyB' p3
        (wfS_select ls w _ live cs hwc) (hvr1.mono p4) hinj (pre ++ ce ++ H ++ preB) (postB ++ post) cfg2
        (evalE env w tag s).2 hbase (by rw [q2, ← p2]; exact hbase) hag2 (by rw [q4, k4, ho, k7]) hexb
      have hP3 : pre ++ (ce ++ H ++ cb) ++ post = pre ++ ce ++ H ++ preB ++ cbody ++ (postB ++ post) := by
        rw [p1]; simp [List.append_assoc]
      rw [← hP3] at y1
      refine ⟨cfg3, R1.trans (q1.trans y1), ?_⟩
      rw [y2]
      simp only [execX]
      generalize execX env w fuel (swSelect w (evalE env w tag s).1 cs) (evalE env w tag s).2 = r3 at hexb ⊢
      obtain ⟨s3, st⟩ := r3
      simp only at hexb; subst hexb; rfl

theorem stmtTOX_struct (env : Nat → Nat → Nat) (w : Nat) (hw : 0 < w) (fuel : Nat) (ls : List Loc)
    (hloop : ∀ oc body, StmtTOX env w ls fuel (.loop oc body))
    (hloopP : ∀ c body q, StmtTOX env w ls fuel (.loopP c body q)) : ∀ st, StmtTOX env w ls fuel st := by
  intro st
  induction st using Stmt.chain_induct with
  | skip => intro _ _ _ _ _ _ _ _ _ _ _ _ _ _ _ _ _ _ _ hex; simp [execX] at hex
  | assign x e => intro _ _ _ _ _ _ _ _ _ _ _ _ _ _ _ _ _ _ _ hex; simp [execX] at hex
  | inc x => intro _ _ _ _ _ _ _ _ _ _ _ _ _ _ _ _ _ _ _ hex; simp [execX] at hex
  | dec x => intro _ _ _ _ _ _ _ _ _ _ _ _ _ _ _ _ _ _ _ hex; simp [execX] at hex
  | decl x => intro _ _ _ _ _ _ _ _ _ _ _ _ _ _ _ _ _ _ _ hex; simp [execX] at hex
  | iowrite o e => intro _ _ _ _ _ _ _ _ _ _ _ _ _ _ _ _ _ _ _ hex; simp [execX] at hex
  | brk => intro _ _ _ _ _ _ _ _ _ _ _ _ _ _ _ _ _ _ _ hex; simp [execX] at hex
  | cont => intro _ _ _ _ _ _ _ _ _ _ _ _ _ _ _ _ _ _ _ hex; simp [execX] at hex
  | tassign _ => intro _ _ _ _ _ _ _ _ _ _ _ _ _ _ _ _ _ _ _ hex; simp [execX] at hex
  | define _ => intro _ _ _ _ _ _ _ _ _ _ _ _ _ _ _ _ _ _ _ hex; simp [execX] at hex
  | switch tag cs ih => exact stmtTOX_switch env w hw fuel ls tag cs ih
  | swCase v b r =>
    intro _ _ _ _ _ _ _ _ _ _ _ _ _ cfg s _ _ _ ho _
    exact ⟨cfg, Reaches.refl _ _ _ _, by simpa [execX] using ho⟩
  | swDefault b =>
    intro _ _ _ _ _ _ _ _ _ _ _ _ _ cfg s _ _ _ ho _
    exact ⟨cfg, Reaches.refl _ _ _ _, by simpa [execX] using ho⟩
  | seq a b iha ihb => exact stmtTOX_seq env w hw fuel ls a b iha ihb
  | ifThen c t iht => exact stmtTOX_ifThen env w hw fuel ls c t iht
  | ifElse c t e iht ihe => exact stmtTOX_ifElse env w hw fuel ls c t e iht ihe
  | loop oc body _ => exact hloop oc body
  | loopP c body q _ _ => exact hloopP c body q

theorem stmtTOX_all (env : Nat → Nat → Nat) (w : Nat) (hw : 0 < w) (ls : List Loc) :
    ∀ fuel st, StmtTOX env w ls fuel st := by
  intro fuel
  induction fuel with
  | zero =>
    exact stmtTOX_struct env w hw 0 ls (fun oc body => stmtTOX_loop_zero env w ls oc body)
      (fun c body q => stmtTOX_loopP_zero env w ls c body q)
  | succ f ih =>
    refine stmtTOX_struct env w hw (f + 1) ls (fun oc body => ?_) (fun c body q => stmtTOX_loopP_succ env w hw f ls ih c body q)
    cases oc with
    | none => exact stmtTOX_loop_none_succ env w hw f ls ih body
    | some cnd => exact stmtTOX_loop_some_succ env w hw f ls ih cnd body



/-- inside a `switch` that is not inside a loop: `break` is the switch's, a `continue` has no loop -/
def noStrayC : Stmt → Bool
  | .cont => false
  | .seq a b => noStrayC a && noStrayC b
  | .ifThen _ t => noStrayC t
  | .ifElse _ t e => noStrayC t && noStrayC e
  | .loopP _ _ p => noStrayC p
  | .switch _ cs => noStrayC cs
  | .swCase _ b r => noStrayC b && noStrayC r
  | .swDefault b => noStrayC b
  | _ => true

/-- `break` / `continue` occur inside loops only — and `break` inside a `switch` (the real compiler
    rejects the others: "break outside a loop") -/
def noStray : Stmt → Bool
  | .brk => false
  | .cont => false
  | .seq a b => noStray a && noStray b
  | .ifThen _ t => noStray t
  | .ifElse _ t e => noStray t && noStray e
  | .loopP _ _ p => noStray p      -- the post clause belongs to the context of the loop
  | .switch _ cs => noStrayC cs    -- `break` in a clause ends the switch; `continue` needs a loop
  | _ => true

theorem noStrayC_select (w v : Nat) : ∀ cs, noStrayC cs = true → noStrayC (swSelect w v cs) = true := by
  intro cs
  induction cs with
  | swCase v' b rest _ ih =>
    intro h
    simp only [noStrayC, Bool.and_eq_true] at h
    simp only [swSelect]
    split
    · exact h.1
    · exact ih h.2
  | swDefault b => intro h; simpa [noStrayC, swSelect] using h
  | _ => intro _; simp [swSelect, noStrayC]

/-- a statement without a stray `continue` never ends in one (loops and switches given) -/
theorem execX_statusC_struct (env : Nat → Nat → Nat) (w fuel : Nat)
    (hloop : ∀ oc b s, (execX env w fuel (.loop oc b) s).2 ≠ .cont)
    (hloopP : ∀ c b q s, noStrayC q = true → (execX env w fuel (.loopP c b q) s).2 ≠ .cont) :
    ∀ st s, noStrayC st = true → (execX env w fuel st s).2 ≠ .cont := by
  intro st
  induction st using Stmt.chain_induct with
  | seq a b iha ihb =>
    intro s h
    simp only [noStrayC, Bool.and_eq_true] at h
    simp only [execX]
    have ha := iha s h.1
    generalize hr : execX env w fuel a s = r at ha ⊢
    obtain ⟨s1, f1⟩ := r
    cases f1
    · exact ihb s1 h.2
    · simp
    · exact absurd rfl ha
    · simp
  | ifThen c t iht =>
    intro s h
    simp only [noStrayC] at h
    simp only [execX]
    generalize evalC env w c s = r
    obtain ⟨bv, s1⟩ := r
    cases bv
    · simp
    · exact iht s1 h
  | ifElse c t e iht ihe =>
    intro s h
    simp only [noStrayC, Bool.and_eq_true] at h
    simp only [execX]
    generalize evalC env w c s = r
    obtain ⟨bv, s1⟩ := r
    cases bv
    · exact ihe s1 h.2
    · exact iht s1 h.1
  | brk => intro s _; simp [execX]
  | cont => intro s h; simp [noStrayC] at h
  | loop oc b _ => intro s _; exact hloop oc b s
  | loopP c b q _ _ => intro s h; exact hloopP c b q s (by simpa [noStrayC] using h)
  | skip => intro s _; simp [execX]
  | assign _ _ => intro s _; simp [execX]
  | inc _ => intro s _; simp [execX]
  | dec _ => intro s _; simp [execX]
  | decl _ => intro s _; simp [execX]
  | iowrite _ _ => intro s _; simp [execX]
  | tassign _ => intro s _; simp [execX]
  | define _ => intro s _; simp [execX]
  | swCase _ _ _ => intro s _; simp [execX]
  | swDefault _ => intro s _; simp [execX]
  | switch tag cs ih =>
    intro s h
    simp only [noStrayC] at h
    simp only [execX]
    have hb := chainAll_select (P := fun st => ∀ s, noStrayC st = true → (execX env w fuel st s).2 ≠ .cont)
      w (evalE env w tag s).1 (fun s _ => by simp [execX]) cs ih (evalE env w tag s).2 (noStrayC_select w _ cs h)
    generalize execX env w fuel (swSelect w (evalE env w tag s).1 cs) (evalE env w tag s).2 = r at hb ⊢
    obtain ⟨s2, f2⟩ := r
    cases f2
    · simp
    · simp
    · exact absurd rfl hb
    · simp

theorem execX_statusC (env : Nat → Nat → Nat) (w : Nat) :
    ∀ fuel st s, noStrayC st = true → (execX env w fuel st s).2 ≠ .cont := by
  intro fuel
  induction fuel with
  | zero =>
    exact execX_statusC_struct env w 0 (fun oc b s => by simp [execX]) (fun c b q s _ => by simp [execX])
  | succ f ihf =>
    refine execX_statusC_struct env w (f + 1) (fun oc b s => ?_) (fun c b q s hq => ?_)
    · cases oc with
      | none =>
        simp only [execX]
        generalize execX env w f b s = r
        obtain ⟨s1, f1⟩ := r
        cases f1
        · exact ihf (.loop none b) s1 rfl
        · simp
        · exact ihf (.loop none b) s1 rfl
        · simp
      | some c =>
        simp only [execX]
        generalize evalC env w c s = r
        obtain ⟨bv, s1⟩ := r
        cases bv
        · simp
        · simp only
          generalize execX env w f b s1 = r2
          obtain ⟨s2, f2⟩ := r2
          cases f2
          · exact ihf (.loop (some c) b) s2 rfl
          · simp
          · exact ihf (.loop (some c) b) s2 rfl
          · simp
    · simp only [execX]
      generalize evalC env w c s = r
      obtain ⟨bv, s1⟩ := r
      cases bv
      · simp
      · simp only
        generalize execX env w f b s1 = r2
        obtain ⟨s2, f2⟩ := r2
        have post : ∀ s2 : Src, (match execX env w f q s2 with
              | (s3, Status.ok) => execX env w f (.loopP c b q) s3
              | r => r).2 ≠ .cont := by
          intro s2
          have hq2 := ihf q s2 hq
          generalize hr : execX env w f q s2 = r3 at hq2 ⊢
          obtain ⟨s3, f3⟩ := r3
          cases f3
          · exact ihf (.loopP c b q) s3 (by simpa [noStrayC] using hq)
          · simp
          · exact absurd rfl hq2
          · simp
        cases f2
        · exact post s2
        · simp
        · exact post s2
        · simp

theorem execX_status (env : Nat → Nat → Nat) (w : Nat) :
    ∀ fuel st s, noStray st = true → (execX env w fuel st s).2 = .ok ∨ (execX env w fuel st s).2 = .timeout := by
  intro fuel
  induction fuel with
  | zero =>
    intro st
    induction st using Stmt.chain_induct with
    | seq a b iha ihb =>
      intro s h
      simp only [noStray, Bool.and_eq_true] at h
      simp only [execX]
      rcases iha s h.1 with h1 | h1
      · generalize hr : execX env w 0 a s = r at h1 ⊢
        obtain ⟨s1, f1⟩ := r
        simp only at h1; subst h1
        exact ihb s1 h.2
      · generalize hr : execX env w 0 a s = r at h1 ⊢
        obtain ⟨s1, f1⟩ := r
        simp only at h1; subst h1
        exact .inr rfl
    | ifThen c t iht =>
      intro s h
      simp only [noStray] at h
      simp only [execX]
      generalize evalC env w c s = r
      obtain ⟨bv, s1⟩ := r
      cases bv
      · exact .inl rfl
      · exact iht s1 h
    | ifElse c t e iht ihe =>
      intro s h
      simp only [noStray, Bool.and_eq_true] at h
      simp only [execX]
      generalize evalC env w c s = r
      obtain ⟨bv, s1⟩ := r
      cases bv
      · exact ihe s1 h.2
      · exact iht s1 h.1
    | brk => intro s h; simp [noStray] at h
    | cont => intro s h; simp [noStray] at h
    | loop oc b _ => intro s _; exact .inr (by simp [execX])
    | loopP c b q _ _ => intro s _; exact .inr (by simp [execX])
    | skip => intro s _; exact .inl (by simp [execX])
    | assign _ _ => intro s _; exact .inl (by simp [execX])
    | inc _ => intro s _; exact .inl (by simp [execX])
    | dec _ => intro s _; exact .inl (by simp [execX])
    | decl _ => intro s _; exact .inl (by simp [execX])
    | iowrite _ _ => intro s _; exact .inl (by simp [execX])
    | tassign _ => intro s _; exact .inl (by simp [execX])
    | define _ => intro s _; exact .inl (by simp [execX])
    | swCase _ _ _ => intro s _; exact .inr (by simp [execX])
    | swDefault _ => intro s _; exact .inr (by simp [execX])
    | switch tag cs ih =>
      intro s h
      simp only [noStray] at h
      simp only [execX]
      have hb := execX_statusC env w 0 (swSelect w (evalE env w tag s).1 cs) (evalE env w tag s).2
        (noStrayC_select w _ cs h)
      generalize execX env w 0 (swSelect w (evalE env w tag s).1 cs) (evalE env w tag s).2 = r at hb ⊢
      obtain ⟨s2, f2⟩ := r
      cases f2
      · exact .inl rfl
      · exact .inl rfl
      · exact absurd rfl hb
      · exact .inr rfl
  | succ f ihf =>
    intro st
    induction st using Stmt.chain_induct with
    | seq a b iha ihb =>
      intro s h
      simp only [noStray, Bool.and_eq_true] at h
      simp only [execX]
      rcases iha s h.1 with h1 | h1
      · generalize hr : execX env w (f + 1) a s = r at h1 ⊢
        obtain ⟨s1, f1⟩ := r
        simp only at h1; subst h1
        exact ihb s1 h.2
      · generalize hr : execX env w (f + 1) a s = r at h1 ⊢
        obtain ⟨s1, f1⟩ := r
        simp only at h1; subst h1
        exact .inr rfl
    | ifThen c t iht =>
      intro s h
      simp only [noStray] at h
      simp only [execX]
      generalize evalC env w c s = r
      obtain ⟨bv, s1⟩ := r
      cases bv
      · exact .inl rfl
      · exact iht s1 h
    | ifElse c t e iht ihe =>
      intro s h
      simp only [noStray, Bool.and_eq_true] at h
      simp only [execX]
      generalize evalC env w c s = r
      obtain ⟨bv, s1⟩ := r
      cases bv
      · exact ihe s1 h.2
      · exact iht s1 h.1
    | brk => intro s h; simp [noStray] at h
    | cont => intro s h; simp [noStray] at h
    | loop oc b _ =>
      intro s _
      cases oc with
      | none =>
        simp only [execX]
        generalize execX env w f b s = r
        obtain ⟨s1, f1⟩ := r
        cases f1
        · exact ihf (.loop none b) s1 rfl
        · exact .inl rfl
        · exact ihf (.loop none b) s1 rfl
        · exact .inr rfl
      | some c =>
        simp only [execX]
        generalize evalC env w c s = r
        obtain ⟨bv, s1⟩ := r
        cases bv
        · exact .inl rfl
        · simp only
          generalize execX env w f b s1 = r2
          obtain ⟨s2, f2⟩ := r2
          cases f2
          · exact ihf (.loop (some c) b) s2 rfl
          · exact .inl rfl
          · exact ihf (.loop (some c) b) s2 rfl
          · exact .inr rfl
    | loopP c b q _ _ =>
      intro s h
      simp only [noStray] at h
      simp only [execX]
      generalize evalC env w c s = r
      obtain ⟨bv, s1⟩ := r
      cases bv
      · exact .inl rfl
      · simp only
        generalize execX env w f b s1 = r2
        obtain ⟨s2, f2⟩ := r2
        have post : ∀ s2 : Src, (match execX env w f q s2 with
              | (s3, Status.ok) => execX env w f (.loopP c b q) s3
              | r => r).2 = .ok ∨
            (match execX env w f q s2 with
              | (s3, Status.ok) => execX env w f (.loopP c b q) s3
              | r => r).2 = .timeout := by
          intro s2
          rcases ihf q s2 h with h1 | h1
          · generalize hr : execX env w f q s2 = r3 at h1 ⊢
            obtain ⟨s3, f3⟩ := r3
            simp only at h1; subst h1
            exact ihf (.loopP c b q) s3 h
          · generalize hr : execX env w f q s2 = r3 at h1 ⊢
            obtain ⟨s3, f3⟩ := r3
            simp only at h1; subst h1
            exact .inr rfl
        cases f2
        · exact post s2
        · exact .inl rfl
        · exact post s2
        · exact .inr rfl
    | skip => intro s _; exact .inl (by simp [execX])
    | assign _ _ => intro s _; exact .inl (by simp [execX])
    | inc _ => intro s _; exact .inl (by simp [execX])
    | dec _ => intro s _; exact .inl (by simp [execX])
    | decl _ => intro s _; exact .inl (by simp [execX])
    | iowrite _ _ => intro s _; exact .inl (by simp [execX])
    | tassign _ => intro s _; exact .inl (by simp [execX])
    | define _ => intro s _; exact .inl (by simp [execX])
    | swCase _ _ _ => intro s _; exact .inr (by simp [execX])
    | swDefault _ => intro s _; exact .inr (by simp [execX])
    | switch tag cs ih =>
      intro s h
      simp only [noStray] at h
      simp only [execX]
      have hb := execX_statusC env w (f + 1) (swSelect w (evalE env w tag s).1 cs) (evalE env w tag s).2
        (noStrayC_select w _ cs h)
      generalize execX env w (f + 1) (swSelect w (evalE env w tag s).1 cs) (evalE env w tag s).2 = r at hb ⊢
      obtain ⟨s2, f2⟩ := r
      cases f2
      · exact .inl rfl
      · exact .inl rfl
      · exact absurd rfl hb
      · exact .inr rfl

/-- whole programs with `break` / `continue` / post clauses, every fuel -/
theorem compileX_prefix (env : Nat → Nat → Nat) (w : Nat) (hw : 0 < w) (fuel : Nat) (p : Prog)
    (code : List Instr) (hc : compileXP p = some code) (hwf : wfProg p = true) (hns : noStray p.body = true) :
    ∃ n, (runCode env w code n).1 = (goEvalX env w fuel p).1 ∧
         ((goEvalX env w fuel p).2 = true → (runCode env w code n).2 = true) := by
  rcases execX_status env w fuel p.body {} hns with hd | hd
  · have hdone : (goEvalX env w fuel p).2 = true := by simp [goEvalX, hd]
    obtain ⟨n, hn⟩ := compileX_structured env w hw fuel p code hc hwf hdone
    exact ⟨n, by rw [hn], fun _ => by rw [hn]⟩
  · have hc := (compileXP_some hc).1
    unfold compileXBody at hc
    simp only at hc
    split at hc
    · rename_i c busy' hcs
      simp only [Option.some.injEq] at hc
      subst hc
      have hz0 : ZeroState ({} : Cfg) := ⟨rfl, rfl, rfl, rfl⟩
      have hpre := preamble_run env w p.decls [] 0 [] c {} rfl hz0
      simp only [List.nil_append, List.length_nil, Nat.zero_add] at hpre
      obtain ⟨hp1, hp2⟩ := hpre
      have hag : AgreeL (allLocs p) (List.range p.decls.length)
          (isaRun env w (preamble p.decls ++ c) (preamble p.decls).length {}) {} := by
        refine ⟨fun x _ g _ => ?_, fun x _ m _ => ?_, ?_⟩
        · show (isaRun env w (preambleFrom p.decls [] 0 ++ c) (preambleFrom p.decls [] 0).length {}).regs g = 0
          rw [hp2.regs]
        · show (isaRun env w (preambleFrom p.decls [] 0 ++ c) (preambleFrom p.decls [] 0).length {}).mem m = 0
          rw [hp2.mem]
        · exact hp2.rc
      have hst := stmtTOX_all env w hw (allLocs p) fuel p.body 0 0 (List.range p.decls.length)
        (preamble p.decls).length (varRegs (locs p.decls)) c busy' hcs hwf (allLocs_varRegs p) (allLocs_liveInj p)
        (preamble p.decls) [] _ {} rfl hp1 hag hp2.outs hd
      simp only [List.append_nil] at hst
      obtain ⟨cfg', ⟨n, hn⟩, s4⟩ := hst
      have hn' : isaRun env w (preamble p.decls ++ c) n
          (isaRun env w (preamble p.decls ++ c) (preamble p.decls).length {}) = cfg' := hn
      refine ⟨(preamble p.decls).length + n, ?_, fun h => ?_⟩
      · simp only [runCode, goEvalX]
        rw [isaRun_add, hn', s4]
      · simp [goEvalX, hd] at h
    · cases hc


end BMV.Bondgo
