/-
  Helper lemmas for the bondgo compiler model (BMV/Bondgo.lean).  Property theorems:
  BMV/Props/C12.lean.
-/
import BMV.Bondgo
namespace BMV.Bondgo

/-! ### allocator -/

theorem le_maxList {x : Nat} {l : List Nat} (h : x ∈ l) : x ≤ maxList l := by
  induction l with
  | nil => cases h
  | cons y ys ih =>
    simp only [maxList]
    rcases List.mem_cons.mp h with h | h
    · subst h; exact Nat.le_max_left _ _
    · exact Nat.le_trans (ih h) (Nat.le_max_right _ _)

theorem fresh_not_mem (busy : List Nat) : fresh busy ∉ busy := by
  unfold fresh
  split
  · rename_i i hi
    have := List.find?_some hi
    simpa using this
  · intro h
    have := le_maxList h
    omega

/-! ### running code -/

theorem isaRun_add (env : Nat → Nat → Nat) (w : Nat) (code : List Instr) (n m : Nat) (c : Cfg) :
    isaRun env w code (n + m) c = isaRun env w code m (isaRun env w code n c) := by
  induction n generalizing c with
  | zero => simp [isaRun]
  | succ n ih =>
    rw [Nat.succ_add]
    simp only [isaRun]
    cases h : isaStep env w code c with
    | some c' => simp only; exact ih c'
    | none =>
      simp only
      -- halted: stays halted
      clear ih
      induction m with
      | zero => simp [isaRun]
      | succ m _ => simp [isaRun, h]

theorem isaStep_at (env : Nat → Nat → Nat) (w : Nat) (pre post : List Instr) (i : Instr) (c : Cfg)
    (hpc : c.pc = pre.length) :
    isaStep env w (pre ++ i :: post) c = some (execInstr env w c i) := by
  simp [isaStep, hpc]

theorem isaRun_one_at (env : Nat → Nat → Nat) (w : Nat) (pre post : List Instr) (i : Instr) (c : Cfg)
    (hpc : c.pc = pre.length) :
    isaRun env w (pre ++ i :: post) 1 c = execInstr env w c i := by
  simp [isaRun, isaStep_at env w pre post i c hpc]

/-! ### the agreement between machine state and source state -/

/-- memory variables sit in their cells, register variables in their (busy) registers, and both
    sides have consumed the same number of input reads -/
structure Agree (ls : List Loc) (busy : List Nat) (cfg : Cfg) (s : Src) : Prop where
  regv : ∀ x g, ls[x]? = some (.reg g) → cfg.regs g = s.vars x ∧ g ∈ busy
  memv : ∀ x m, ls[x]? = some (.mem m) → cfg.mem m = s.vars x
  rc : cfg.rc = s.rc

/-! ### expressions -/

theorem compileE_mono (ls : List Loc) (e : Expr) :
    ∀ (busy : List Nat) (c : List Instr) (r : Nat) (busy' : List Nat),
      compileE ls e busy = some (c, r, busy') → r ∉ busy ∧ r ∈ busy' ∧ ∀ x ∈ busy, x ∈ busy' := by
  induction e with
  | lit n =>
    intro busy c r busy' h
    simp only [compileE, Option.some.injEq, Prod.mk.injEq] at h
    obtain ⟨_, h2, h3⟩ := h; subst h2; subst h3
    exact ⟨fresh_not_mem _, List.mem_cons_self, fun x hx => List.mem_cons_of_mem _ hx⟩
  | var x =>
    intro busy c r busy' h
    simp only [compileE] at h
    split at h <;> simp only [Option.some.injEq, Prod.mk.injEq, reduceCtorEq] at h
    all_goals
      obtain ⟨_, h2, h3⟩ := h; subst h2; subst h3
      exact ⟨fresh_not_mem _, List.mem_cons_self, fun x hx => List.mem_cons_of_mem _ hx⟩
  | ioread i =>
    intro busy c r busy' h
    simp only [compileE, Option.some.injEq, Prod.mk.injEq] at h
    obtain ⟨_, h2, h3⟩ := h; subst h2; subst h3
    exact ⟨fresh_not_mem _, List.mem_cons_self, fun x hx => List.mem_cons_of_mem _ hx⟩
  | add a b iha ihb =>
    intro busy c r busy' h
    simp only [compileE] at h
    split at h
    · cases h
    · rename_i ca ra busy1 ha
      split at h
      · cases h
      · rename_i cb rb busy2 hb
        simp only [Option.some.injEq, Prod.mk.injEq] at h
        obtain ⟨_, h2, h3⟩ := h; subst h2; subst h3
        obtain ⟨a1, a2, a3⟩ := iha _ _ _ _ ha
        obtain ⟨b1, b2, b3⟩ := ihb _ _ _ _ hb
        have hne : ra ≠ rb := fun e => b1 (e ▸ a2)
        refine ⟨a1, (List.mem_erase_of_ne hne).mpr (b3 _ a2), fun x hx => ?_⟩
        have hx1 := a3 x hx
        have : x ≠ rb := fun e => b1 (e ▸ hx1)
        exact (List.mem_erase_of_ne this).mpr (b3 _ hx1)
  | mul a b iha ihb =>
    intro busy c r busy' h
    simp only [compileE] at h
    split at h
    · cases h
    · rename_i ca ra busy1 ha
      split at h
      · cases h
      · rename_i cb rb busy2 hb
        simp only [Option.some.injEq, Prod.mk.injEq] at h
        obtain ⟨_, h2, h3⟩ := h; subst h2; subst h3
        obtain ⟨a1, a2, a3⟩ := iha _ _ _ _ ha
        obtain ⟨b1, b2, b3⟩ := ihb _ _ _ _ hb
        have hne : ra ≠ rb := fun e => b1 (e ▸ a2)
        refine ⟨a1, (List.mem_erase_of_ne hne).mpr (b3 _ a2), fun x hx => ?_⟩
        have hx1 := a3 x hx
        have : x ≠ rb := fun e => b1 (e ▸ hx1)
        exact (List.mem_erase_of_ne this).mpr (b3 _ hx1)


/-- with a duplicate-free busy list: the result register is new, the list stays duplicate free and
    grows exactly by the result register -/
theorem compileE_alloc (ls : List Loc) (e : Expr) :
    ∀ (busy : List Nat) (c : List Instr) (r : Nat) (busy' : List Nat), busy.Nodup →
      compileE ls e busy = some (c, r, busy') →
      r ∉ busy ∧ busy'.Nodup ∧ (∀ x, x ∈ busy' ↔ x = r ∨ x ∈ busy) := by
  have leaf : ∀ (busy : List Nat), busy.Nodup →
      fresh busy ∉ busy ∧ (fresh busy :: busy).Nodup ∧
        (∀ x, x ∈ fresh busy :: busy ↔ x = fresh busy ∨ x ∈ busy) := fun busy hnd =>
    ⟨fresh_not_mem _, List.nodup_cons.mpr ⟨fresh_not_mem _, hnd⟩, fun x => List.mem_cons⟩
  have bin : ∀ (busy busy1 busy2 : List Nat) (ra rb : Nat),
      (ra ∉ busy ∧ busy1.Nodup ∧ (∀ x, x ∈ busy1 ↔ x = ra ∨ x ∈ busy)) →
      (rb ∉ busy1 ∧ busy2.Nodup ∧ (∀ x, x ∈ busy2 ↔ x = rb ∨ x ∈ busy1)) →
      ra ∉ busy ∧ (busy2.erase rb).Nodup ∧ (∀ x, x ∈ busy2.erase rb ↔ x = ra ∨ x ∈ busy) := by
    intro busy busy1 busy2 ra rb ⟨a1, a2, a3⟩ ⟨b1, b2, b3⟩
    refine ⟨a1, b2.erase _, fun x => ?_⟩
    rw [b2.mem_erase_iff, b3, a3]
    constructor
    · rintro ⟨hne, h | h⟩
      · exact absurd h hne
      · exact h
    · intro h
      refine ⟨fun e => b1 (e ▸ (a3 x).mpr h), .inr h⟩
  induction e with
  | lit n =>
    intro busy c r busy' hnd h
    simp only [compileE, Option.some.injEq, Prod.mk.injEq] at h
    obtain ⟨_, h2, h3⟩ := h; subst h2; subst h3
    exact leaf busy hnd
  | var x =>
    intro busy c r busy' hnd h
    simp only [compileE] at h
    split at h <;> simp only [Option.some.injEq, Prod.mk.injEq, reduceCtorEq] at h
    all_goals
      obtain ⟨_, h2, h3⟩ := h; subst h2; subst h3
      exact leaf busy hnd
  | ioread i =>
    intro busy c r busy' hnd h
    simp only [compileE, Option.some.injEq, Prod.mk.injEq] at h
    obtain ⟨_, h2, h3⟩ := h; subst h2; subst h3
    exact leaf busy hnd
  | add a b iha ihb =>
    intro busy c r busy' hnd h
    simp only [compileE] at h
    split at h
    · cases h
    · rename_i ca ra busy1 ha
      split at h
      · cases h
      · rename_i cb rb busy2 hb
        simp only [Option.some.injEq, Prod.mk.injEq] at h
        obtain ⟨_, h2, h3⟩ := h; subst h2; subst h3
        have A := iha _ _ _ _ hnd ha
        exact bin _ _ _ _ _ A (ihb _ _ _ _ A.2.1 hb)
  | mul a b iha ihb =>
    intro busy c r busy' hnd h
    simp only [compileE] at h
    split at h
    · cases h
    · rename_i ca ra busy1 ha
      split at h
      · cases h
      · rename_i cb rb busy2 hb
        simp only [Option.some.injEq, Prod.mk.injEq] at h
        obtain ⟨_, h2, h3⟩ := h; subst h2; subst h3
        have A := iha _ _ _ _ hnd ha
        exact bin _ _ _ _ _ A (ihb _ _ _ _ A.2.1 hb)

/-- the code of an expression writes only registers that were free when its compilation started -/
theorem compileE_writes (ls : List Loc) (e : Expr) :
    ∀ (busy : List Nat) (c : List Instr) (r : Nat) (busy' : List Nat), busy.Nodup →
      compileE ls e busy = some (c, r, busy') → ∀ i ∈ c, ∀ x ∈ i.writes, x ∉ busy := by
  induction e with
  | lit n =>
    intro busy c r busy' _ h
    simp only [compileE, Option.some.injEq, Prod.mk.injEq] at h
    obtain ⟨h1, _, _⟩ := h; subst h1
    intro i hi x hx
    simp only [List.mem_singleton] at hi; subst hi
    simp only [Instr.writes, List.mem_singleton] at hx; subst hx
    exact fresh_not_mem _
  | var v =>
    intro busy c r busy' _ h
    simp only [compileE] at h
    split at h <;> simp only [Option.some.injEq, Prod.mk.injEq, reduceCtorEq] at h
    all_goals
      obtain ⟨h1, _, _⟩ := h; subst h1
      intro i hi x hx
      simp only [List.mem_singleton] at hi; subst hi
      simp only [Instr.writes, List.mem_singleton] at hx; subst hx
      exact fresh_not_mem _
  | ioread p =>
    intro busy c r busy' _ h
    simp only [compileE, Option.some.injEq, Prod.mk.injEq] at h
    obtain ⟨h1, _, _⟩ := h; subst h1
    intro i hi x hx
    simp only [List.mem_singleton] at hi; subst hi
    simp only [Instr.writes, List.mem_singleton] at hx; subst hx
    exact fresh_not_mem _
  | add a b iha ihb =>
    intro busy c r busy' hnd h
    simp only [compileE] at h
    split at h
    · cases h
    · rename_i ca ra busy1 ha
      split at h
      · cases h
      · rename_i cb rb busy2 hb
        simp only [Option.some.injEq, Prod.mk.injEq] at h
        obtain ⟨h1, _, _⟩ := h; subst h1
        have A := compileE_alloc ls a _ _ _ _ hnd ha
        intro i hi x hx
        simp only [List.mem_append, List.mem_singleton] at hi
        rcases hi with (hi | hi) | hi
        · exact iha _ _ _ _ hnd ha i hi x hx
        · exact fun hb' => ihb _ _ _ _ A.2.1 hb i hi x hx ((A.2.2 x).mpr (.inr hb'))
        · subst hi
          simp only [Instr.writes, List.mem_singleton] at hx; subst hx
          exact A.1
  | mul a b iha ihb =>
    intro busy c r busy' hnd h
    simp only [compileE] at h
    split at h
    · cases h
    · rename_i ca ra busy1 ha
      split at h
      · cases h
      · rename_i cb rb busy2 hb
        simp only [Option.some.injEq, Prod.mk.injEq] at h
        obtain ⟨h1, _, _⟩ := h; subst h1
        have A := compileE_alloc ls a _ _ _ _ hnd ha
        intro i hi x hx
        simp only [List.mem_append, List.mem_singleton] at hi
        rcases hi with (hi | hi) | hi
        · exact iha _ _ _ _ hnd ha i hi x hx
        · exact fun hb' => ihb _ _ _ _ A.2.1 hb i hi x hx ((A.2.2 x).mpr (.inr hb'))
        · subst hi
          simp only [Instr.writes, List.mem_singleton] at hx; subst hx
          exact A.1

/-! ### correctness of expression code -/

/-- what `compileE_correct` says about one expression -/
def ExprOK (env : Nat → Nat → Nat) (w : Nat) (ls : List Loc) (e : Expr) : Prop :=
  ∀ (busy : List Nat) (c : List Instr) (r : Nat) (busy' : List Nat),
    compileE ls e busy = some (c, r, busy') →
    ∀ (pre post : List Instr) (cfg : Cfg) (s : Src), cfg.pc = pre.length → Agree ls busy cfg s →
      (isaRun env w (pre ++ c ++ post) c.length cfg).pc = pre.length + c.length ∧
      (isaRun env w (pre ++ c ++ post) c.length cfg).regs r = (evalE env w e s).1 ∧
      (isaRun env w (pre ++ c ++ post) c.length cfg).mem = cfg.mem ∧
      (isaRun env w (pre ++ c ++ post) c.length cfg).outs = cfg.outs ∧
      (isaRun env w (pre ++ c ++ post) c.length cfg).rc = (evalE env w e s).2.rc ∧
      (evalE env w e s).2.vars = s.vars ∧ (evalE env w e s).2.outs = s.outs ∧
      (∀ x ∈ busy, (isaRun env w (pre ++ c ++ post) c.length cfg).regs x = cfg.regs x)

theorem upd_same (f : Nat → Nat) (k v : Nat) : upd f k v k = v := by simp [upd]
theorem upd_other (f : Nat → Nat) (k v x : Nat) (h : x ≠ k) : upd f k v x = f x := by simp [upd, h]

theorem leaf_run (env : Nat → Nat → Nat) (w : Nat) (pre post : List Instr) (i : Instr) (cfg : Cfg)
    (hpc : cfg.pc = pre.length) :
    isaRun env w (pre ++ [i] ++ post) [i].length cfg = execInstr env w cfg i := by
  have : pre ++ [i] ++ post = pre ++ i :: post := by simp
  rw [this]
  exact isaRun_one_at env w pre post i cfg hpc

theorem exprOK_lit (env : Nat → Nat → Nat) (w : Nat) (ls : List Loc) (n : Nat) : ExprOK env w ls (.lit n) := by
  intro busy c r busy' h pre post cfg s hpc hag
  simp only [compileE, Option.some.injEq, Prod.mk.injEq] at h
  obtain ⟨h1, h2, _⟩ := h; subst h1; subst h2
  rw [leaf_run env w pre post _ cfg hpc]
  refine ⟨by simp [execInstr, hpc], by simp [execInstr, upd_same, evalE], rfl, rfl, by simp [execInstr, evalE, hag.rc], rfl, rfl, ?_⟩
  intro x hx
  have : x ≠ fresh busy := fun e => fresh_not_mem busy (e ▸ hx)
  simp [execInstr, upd_other _ _ _ _ this]

theorem exprOK_ioread (env : Nat → Nat → Nat) (w : Nat) (ls : List Loc) (i : Nat) : ExprOK env w ls (.ioread i) := by
  intro busy c r busy' h pre post cfg s hpc hag
  simp only [compileE, Option.some.injEq, Prod.mk.injEq] at h
  obtain ⟨h1, h2, _⟩ := h; subst h1; subst h2
  rw [leaf_run env w pre post _ cfg hpc]
  refine ⟨by simp [execInstr, hpc], by simp [execInstr, upd_same, evalE, hag.rc], rfl, rfl, by simp [execInstr, evalE, hag.rc], rfl, rfl, ?_⟩
  intro x hx
  have : x ≠ fresh busy := fun e => fresh_not_mem busy (e ▸ hx)
  simp [execInstr, upd_other _ _ _ _ this]

theorem exprOK_var (env : Nat → Nat → Nat) (w : Nat) (ls : List Loc) (v : Nat) : ExprOK env w ls (.var v) := by
  intro busy c r busy' h pre post cfg s hpc hag
  simp only [compileE] at h
  split at h <;> simp only [Option.some.injEq, Prod.mk.injEq, reduceCtorEq] at h
  · rename_i g hl
    obtain ⟨h1, h2, _⟩ := h; subst h1; subst h2
    rw [leaf_run env w pre post _ cfg hpc]
    refine ⟨by simp [execInstr, hpc], by simp [execInstr, upd_same, evalE, (hag.regv v g hl).1], rfl, rfl, by simp [execInstr, evalE, hag.rc], rfl, rfl, ?_⟩
    intro x hx
    have : x ≠ fresh busy := fun e => fresh_not_mem busy (e ▸ hx)
    simp [execInstr, upd_other _ _ _ _ this]
  · rename_i m hl
    obtain ⟨h1, h2, _⟩ := h; subst h1; subst h2
    rw [leaf_run env w pre post _ cfg hpc]
    refine ⟨by simp [execInstr, hpc], by simp [execInstr, upd_same, evalE, hag.memv v m hl], rfl, rfl, by simp [execInstr, evalE, hag.rc], rfl, rfl, ?_⟩
    intro x hx
    have : x ≠ fresh busy := fun e => fresh_not_mem busy (e ▸ hx)
    simp [execInstr, upd_other _ _ _ _ this]


/-- binary operators: `ca ++ cb ++ [op ra rb]` -/
theorem bin_run (env : Nat → Nat → Nat) (w : Nat) (ls : List Loc) (a b : Expr)
    (f : Nat → Nat → Nat) (op : Nat → Nat → Instr)
    (hop : ∀ (c : Cfg) (d s : Nat), execInstr env w c (op d s) =
      { c with pc := c.pc + 1, regs := upd c.regs d (f (c.regs d) (c.regs s) % 2 ^ w) })
    (iha : ExprOK env w ls a) (ihb : ExprOK env w ls b)
    (busy busy1 busy2 : List Nat) (ca cb : List Instr) (ra rb : Nat)
    (ha : compileE ls a busy = some (ca, ra, busy1)) (hb : compileE ls b busy1 = some (cb, rb, busy2))
    (pre post : List Instr) (cfg : Cfg) (s : Src) (hpc : cfg.pc = pre.length) (hag : Agree ls busy cfg s) :
    let c := ca ++ cb ++ [op ra rb]
    let s1 := (evalE env w a s).2
    let va := (evalE env w a s).1
    let vb := (evalE env w b s1).1
    let s2 := (evalE env w b s1).2
    let cfg' := isaRun env w (pre ++ c ++ post) c.length cfg
    cfg'.pc = pre.length + c.length ∧ cfg'.regs ra = f va vb % 2 ^ w ∧ cfg'.mem = cfg.mem ∧
    cfg'.outs = cfg.outs ∧ cfg'.rc = s2.rc ∧ s2.vars = s.vars ∧ s2.outs = s.outs ∧
    (∀ x ∈ busy, cfg'.regs x = cfg.regs x) := by
  intro c s1 va vb s2 cfg'
  have hP1 : pre ++ c ++ post = pre ++ ca ++ (cb ++ [op ra rb] ++ post) := by
    simp [c, List.append_assoc]
  have hP2 : pre ++ c ++ post = (pre ++ ca) ++ cb ++ ([op ra rb] ++ post) := by
    simp [c, List.append_assoc]
  have hP3 : pre ++ c ++ post = (pre ++ ca ++ cb) ++ op ra rb :: post := by
    simp [c, List.append_assoc]
  have hlen : c.length = ca.length + cb.length + 1 := by simp [c]; omega
  obtain ⟨ma1, ma2, ma3⟩ := compileE_mono ls a _ _ _ _ ha
  obtain ⟨mb1, mb2, mb3⟩ := compileE_mono ls b _ _ _ _ hb
  -- run a
  obtain ⟨a1, a2, a3, a4, a5, a6, a7, a8⟩ := iha busy ca ra busy1 ha pre (cb ++ [op ra rb] ++ post) cfg s hpc hag
  rw [← hP1] at a1 a2 a3 a4 a5 a8
  -- agreement after a
  have hag1 : Agree ls busy1 (isaRun env w (pre ++ c ++ post) ca.length cfg) s1 := by
    refine ⟨fun x g hl => ?_, fun x m hl => ?_, a5⟩
    · obtain ⟨h1, h2⟩ := hag.regv x g hl
      exact ⟨by rw [a8 g h2, h1, a6], ma3 g h2⟩
    · rw [a3, hag.memv x m hl, a6]
  -- run b
  have hpc1 : (isaRun env w (pre ++ c ++ post) ca.length cfg).pc = (pre ++ ca).length := by
    rw [a1]; simp
  obtain ⟨b1, b2, b3, b4, b5, b6, b7, b8⟩ :=
    ihb busy1 cb rb busy2 hb (pre ++ ca) ([op ra rb] ++ post) _ s1 hpc1 hag1
  rw [← hP2, ← isaRun_add] at b1 b2 b3 b4 b5 b8
  -- the operator
  have hpc2 : (isaRun env w (pre ++ c ++ post) (ca.length + cb.length) cfg).pc = (pre ++ ca ++ cb).length := by
    rw [b1]; simp [Nat.add_assoc]
  have hfin : cfg' = execInstr env w (isaRun env w (pre ++ c ++ post) (ca.length + cb.length) cfg) (op ra rb) := by
    show isaRun env w (pre ++ c ++ post) c.length cfg = _
    rw [hlen, isaRun_add]
    conv => lhs; rw [hP3]
    rw [isaRun_one_at env w (pre ++ ca ++ cb) post (op ra rb) _ (by rw [← hP3]; exact hpc2)]
    rw [← hP3]
  have hne : ra ≠ rb := fun e => mb1 (e ▸ ma2)
  rw [hfin, hop]
  refine ⟨?_, ?_, ?_, ?_, ?_, ?_, ?_, ?_⟩
  · simp only [b1, hlen]; simp; omega
  · simp only [upd_same]
    rw [b2, b8 ra ma2, a2]
  · simp only; rw [b3, a3]
  · simp only; rw [b4, a4]
  · simp only; exact b5
  · rw [b6, a6]
  · rw [b7, a7]
  · intro x hx
    have hx1 : x ≠ ra := fun e => ma1 (e ▸ hx)
    simp only [upd_other _ _ _ _ hx1]
    rw [b8 x (ma3 x hx), a8 x hx]

theorem exprOK_all (env : Nat → Nat → Nat) (w : Nat) (ls : List Loc) (e : Expr) : ExprOK env w ls e := by
  induction e with
  | lit n => exact exprOK_lit env w ls n
  | var v => exact exprOK_var env w ls v
  | ioread i => exact exprOK_ioread env w ls i
  | add a b iha ihb =>
    intro busy c r busy' h pre post cfg s hpc hag
    simp only [compileE] at h
    split at h
    · cases h
    · rename_i ca ra busy1 ha
      split at h
      · cases h
      · rename_i cb rb busy2 hb
        simp only [Option.some.injEq, Prod.mk.injEq] at h
        obtain ⟨h1, h2, _⟩ := h; subst h1; subst h2
        have := bin_run env w ls a b (· + ·) Instr.add (fun c d s => by simp [execInstr]) iha ihb
          busy busy1 busy2 ca cb ra rb ha hb pre post cfg s hpc hag
        simpa [evalE] using this
  | mul a b iha ihb =>
    intro busy c r busy' h pre post cfg s hpc hag
    simp only [compileE] at h
    split at h
    · cases h
    · rename_i ca ra busy1 ha
      split at h
      · cases h
      · rename_i cb rb busy2 hb
        simp only [Option.some.injEq, Prod.mk.injEq] at h
        obtain ⟨h1, h2, _⟩ := h; subst h1; subst h2
        have := bin_run env w ls a b (· * ·) Instr.mult (fun c d s => by simp [execInstr]) iha ihb
          busy busy1 busy2 ca cb ra rb ha hb pre post cfg s hpc hag
        simpa [evalE] using this


/-! ### correctness of straight-line statement code -/

/-- distinct variables live in distinct places -/
def LocsInj (ls : List Loc) : Prop := ∀ (x y : Nat) (l : Loc), ls[x]? = some l → ls[y]? = some l → x = y

/-- straight-line statements: no `if`, no `for` -/
def straight : Stmt → Bool
  | .skip => true
  | .seq a b => straight a && straight b
  | .assign _ _ | .inc _ | .dec _ | .iowrite _ _ => true
  | _ => false

/-- run the code of an expression followed by one more instruction -/
theorem expr_then_instr (env : Nat → Nat → Nat) (w : Nat) (ls : List Loc) (e : Expr)
    (busy : List Nat) (ce : List Instr) (r : Nat) (busy1 : List Nat)
    (he : compileE ls e busy = some (ce, r, busy1)) (i : Instr)
    (pre post : List Instr) (cfg : Cfg) (s : Src) (hpc : cfg.pc = pre.length) (hag : Agree ls busy cfg s) :
    ∃ mid : Cfg,
      isaRun env w (pre ++ (ce ++ [i]) ++ post) (ce ++ [i]).length cfg = execInstr env w mid i ∧
      mid.pc = pre.length + ce.length ∧ mid.regs r = (evalE env w e s).1 ∧ mid.mem = cfg.mem ∧
      mid.outs = cfg.outs ∧ mid.rc = (evalE env w e s).2.rc ∧ (evalE env w e s).2.vars = s.vars ∧
      (evalE env w e s).2.outs = s.outs ∧ (∀ x ∈ busy, mid.regs x = cfg.regs x) := by
  have hP1 : pre ++ (ce ++ [i]) ++ post = pre ++ ce ++ ([i] ++ post) := by simp [List.append_assoc]
  have hP2 : pre ++ (ce ++ [i]) ++ post = (pre ++ ce) ++ i :: post := by simp [List.append_assoc]
  obtain ⟨a1, a2, a3, a4, a5, a6, a7, a8⟩ := exprOK_all env w ls e busy ce r busy1 he pre ([i] ++ post) cfg s hpc hag
  rw [← hP1] at a1 a2 a3 a4 a5 a8
  refine ⟨isaRun env w (pre ++ (ce ++ [i]) ++ post) ce.length cfg, ?_, a1, a2, a3, a4, a5, a6, a7, a8⟩
  have hl : (ce ++ [i]).length = ce.length + 1 := by simp
  rw [hl, isaRun_add]
  conv => lhs; rw [hP2]
  rw [isaRun_one_at env w (pre ++ ce) post i _ (by rw [← hP2, a1]; simp)]
  rw [← hP2]

theorem run3 (env : Nat → Nat → Nat) (w : Nat) (pre post : List Instr) (i1 i2 i3 : Instr) (cfg : Cfg)
    (hpc : cfg.pc = pre.length)
    (h1 : (execInstr env w cfg i1).pc = cfg.pc + 1)
    (h2 : (execInstr env w (execInstr env w cfg i1) i2).pc = cfg.pc + 2) :
    isaRun env w (pre ++ [i1, i2, i3] ++ post) [i1, i2, i3].length cfg =
      execInstr env w (execInstr env w (execInstr env w cfg i1) i2) i3 := by
  have hP1 : pre ++ [i1, i2, i3] ++ post = pre ++ i1 :: ([i2, i3] ++ post) := by simp
  have hP2 : pre ++ [i1, i2, i3] ++ post = (pre ++ [i1]) ++ i2 :: ([i3] ++ post) := by simp
  have hP3 : pre ++ [i1, i2, i3] ++ post = (pre ++ [i1, i2]) ++ i3 :: post := by simp
  show isaRun env w _ (1 + 1 + 1) cfg = _
  rw [isaRun_add, isaRun_add]
  conv => lhs; arg 5; arg 5; rw [hP1, isaRun_one_at env w pre _ i1 cfg hpc]
  conv => lhs; arg 5; rw [hP2, isaRun_one_at env w (pre ++ [i1]) _ i2 _ (by rw [h1, hpc]; simp)]
  rw [hP3, isaRun_one_at env w (pre ++ [i1, i2]) _ i3 _ (by rw [h2, hpc]; simp)]

/-- `x++` / `x--` : `iop` is `inc` or `dec`, `f` its effect on a value -/
theorem incdec_ok (env : Nat → Nat → Nat) (w : Nat) (ls : List Loc) (hinj : LocsInj ls)
    (iop : Nat → Instr) (f : Nat → Nat)
    (hop : ∀ (c : Cfg) (r : Nat), execInstr env w c (iop r) = { c with pc := c.pc + 1, regs := upd c.regs r (f (c.regs r)) })
    (x : Nat) (busy : List Nat) (c : List Instr) (busy' : List Nat)
    (h : (match ls[x]? with
      | some (.reg g) => some ([iop g], busy)
      | some (.mem m) => some ([.m2r (fresh busy) m, iop (fresh busy), .r2m (fresh busy) m], busy)
      | none => none) = some (c, busy'))
    (pre post : List Instr) (cfg : Cfg) (s : Src) (hpc : cfg.pc = pre.length) (hag : Agree ls busy cfg s)
    (ho : cfg.outs = s.outs) :
    (isaRun env w (pre ++ c ++ post) c.length cfg).pc = pre.length + c.length ∧
    Agree ls busy' (isaRun env w (pre ++ c ++ post) c.length cfg) { s with vars := upd s.vars x (f (s.vars x)) } ∧
    (isaRun env w (pre ++ c ++ post) c.length cfg).outs = s.outs := by
  split at h
  · rename_i g hl
    simp only [Option.some.injEq, Prod.mk.injEq] at h
    obtain ⟨e1, e2⟩ := h; subst e1; subst e2
    rw [leaf_run env w pre post _ cfg hpc, hop]
    refine ⟨by simp [hpc], ⟨fun y g' hy => ?_, fun y m hy => ?_, hag.rc⟩, ho⟩
    · obtain ⟨z1, z2⟩ := hag.regv y g' hy
      refine ⟨?_, z2⟩
      by_cases hyx : y = x
      · subst hyx
        rw [hl] at hy; cases hy
        simp [upd_same, z1]
      · have : g' ≠ g := fun e' => hyx (hinj y x _ hy (e' ▸ hl))
        simp [upd_other _ _ _ _ this, upd_other _ _ _ _ hyx, z1]
    · have hyx : y ≠ x := fun e' => by subst e'; rw [hl] at hy; cases hy
      simp [upd_other _ _ _ _ hyx, hag.memv y m hy]
  · rename_i mx hl
    simp only [Option.some.injEq, Prod.mk.injEq] at h
    obtain ⟨e1, e2⟩ := h; subst e1; subst e2
    rw [run3 env w pre post _ _ _ cfg hpc (by simp [execInstr]) (by rw [hop]; simp [execInstr])]
    simp only [hop]
    refine ⟨by simp [execInstr, hpc], ⟨fun y g' hy => ?_, fun y m hy => ?_, by simp [execInstr, hag.rc]⟩, by simp [execInstr, ho]⟩
    · obtain ⟨z1, z2⟩ := hag.regv y g' hy
      have hg' : g' ≠ fresh busy := fun e' => fresh_not_mem busy (e' ▸ z2)
      have hyx : y ≠ x := fun e' => by subst e'; rw [hl] at hy; cases hy
      exact ⟨by simp [execInstr, upd_other _ _ _ _ hg', upd_other _ _ _ _ hyx, z1], z2⟩
    · by_cases hyx : y = x
      · subst hyx
        rw [hl] at hy; cases hy
        simp [execInstr, upd_same, hag.memv _ _ hl]
      · have : m ≠ mx := fun e' => hyx (hinj y x _ hy (e' ▸ hl))
        simp [execInstr, upd_other _ _ _ _ this, upd_other _ _ _ _ hyx, hag.memv y m hy]
  · cases h

theorem straight_correct (env : Nat → Nat → Nat) (w fuel : Nat) (ls : List Loc) (hinj : LocsInj ls)
    (st : Stmt) (hs : straight st = true) :
    ∀ (base : Nat) (busy : List Nat) (c : List Instr) (busy' : List Nat),
      compileS ls st base busy = some (c, busy') →
      ∀ (pre post : List Instr) (cfg : Cfg) (s : Src), cfg.pc = pre.length → Agree ls busy cfg s →
        cfg.outs = s.outs →
        (exec env w fuel st s).2 = true ∧
        (isaRun env w (pre ++ c ++ post) c.length cfg).pc = pre.length + c.length ∧
        Agree ls busy' (isaRun env w (pre ++ c ++ post) c.length cfg) (exec env w fuel st s).1 ∧
        (isaRun env w (pre ++ c ++ post) c.length cfg).outs = (exec env w fuel st s).1.outs := by
  induction st with
  | skip =>
    intro base busy c busy' h pre post cfg s hpc hag ho
    simp only [compileS, Option.some.injEq, Prod.mk.injEq] at h
    obtain ⟨h1, h2⟩ := h; subst h1; subst h2
    simp only [exec, List.length_nil, isaRun]
    exact ⟨trivial, by simp [hpc], hag, ho⟩
  | seq a b iha ihb =>
    intro base busy c busy' h pre post cfg s hpc hag ho
    simp only [straight, Bool.and_eq_true] at hs
    simp only [compileS] at h
    split at h
    · cases h
    · rename_i c1 busy1 h1
      split at h
      · cases h
      · rename_i c2 busy2 h2
        simp only [Option.some.injEq, Prod.mk.injEq] at h
        obtain ⟨e1, e2⟩ := h; subst e1; subst e2
        have hP1 : pre ++ (c1 ++ c2) ++ post = pre ++ c1 ++ (c2 ++ post) := by simp [List.append_assoc]
        have hP2 : pre ++ (c1 ++ c2) ++ post = (pre ++ c1) ++ c2 ++ post := by simp [List.append_assoc]
        obtain ⟨x1, x2, x3, x4⟩ := iha hs.1 base busy c1 busy1 h1 pre (c2 ++ post) cfg s hpc hag ho
        rw [← hP1] at x2 x3 x4
        obtain ⟨y1, y2, y3, y4⟩ := ihb hs.2 _ busy1 c2 busy2 h2 (pre ++ c1) post _ _ (by rw [x2]; simp) x3 x4
        rw [← hP2, ← isaRun_add] at y2 y3 y4
        have hl : (c1 ++ c2).length = c1.length + c2.length := by simp
        have hex : exec env w fuel (.seq a b) s = exec env w fuel b (exec env w fuel a s).1 := by
          simp only [exec]
          generalize hr : exec env w fuel a s = r at x1
          obtain ⟨r1, r2⟩ := r
          simp only at x1; subst x1
          rfl
        rw [hex, hl]
        exact ⟨y1, by rw [y2]; simp [Nat.add_assoc], y3, y4⟩
  | assign x e =>
    intro base busy c busy' h pre post cfg s hpc hag ho
    simp only [compileS] at h
    split at h
    · -- register variable
      rename_i g ce r busy1 hl he
      simp only [Option.some.injEq, Prod.mk.injEq] at h
      obtain ⟨e1, e2⟩ := h; subst e1; subst e2
      obtain ⟨mid, m0, m1, m2, m3, m4, m5, m6, m7, m8⟩ :=
        expr_then_instr env w ls e busy ce r busy1 he (.cpy g r) pre post cfg s hpc hag
      obtain ⟨q1, q2, q3⟩ := compileE_mono ls e _ _ _ _ he
      rw [m0]
      simp only [exec]
      refine ⟨trivial, by simp [execInstr, m1]; omega, ⟨fun y g' hy => ?_, fun y m hy => ?_, by simp [execInstr, m5]⟩, by simp [execInstr, m4, ho, m7]⟩
      · obtain ⟨z1, z2⟩ := hag.regv y g' hy
        have hg' : g' ≠ r := fun e' => q1 (e' ▸ z2)
        refine ⟨?_, (List.mem_erase_of_ne hg').mpr (q3 _ z2)⟩
        by_cases hyx : y = x
        · subst hyx
          rw [hl] at hy; cases hy
          simp [execInstr, upd_same, m2]
        · have : g' ≠ g := fun e' => hyx (hinj y x _ hy (e' ▸ hl))
          simp [execInstr, upd_other _ _ _ _ this, upd_other _ _ _ _ hyx, m8 g' z2, z1, m6]
      · have hyx : y ≠ x := fun e' => by subst e'; rw [hl] at hy; cases hy
        simp [execInstr, upd_other _ _ _ _ hyx, m3, hag.memv y m hy, m6]
    · -- memory variable
      rename_i mx ce r busy1 hl he
      simp only [Option.some.injEq, Prod.mk.injEq] at h
      obtain ⟨e1, e2⟩ := h; subst e1; subst e2
      obtain ⟨mid, m0, m1, m2, m3, m4, m5, m6, m7, m8⟩ :=
        expr_then_instr env w ls e busy ce r busy1 he (.r2m r mx) pre post cfg s hpc hag
      obtain ⟨q1, q2, q3⟩ := compileE_mono ls e _ _ _ _ he
      rw [m0]
      simp only [exec]
      refine ⟨trivial, by simp [execInstr, m1]; omega, ⟨fun y g' hy => ?_, fun y m hy => ?_, by simp [execInstr, m5]⟩, by simp [execInstr, m4, ho, m7]⟩
      · obtain ⟨z1, z2⟩ := hag.regv y g' hy
        have hg' : g' ≠ r := fun e' => q1 (e' ▸ z2)
        have hyx : y ≠ x := fun e' => by subst e'; rw [hl] at hy; cases hy
        exact ⟨by simp [execInstr, upd_other _ _ _ _ hyx, m8 g' z2, z1, m6], (List.mem_erase_of_ne hg').mpr (q3 _ z2)⟩
      · by_cases hyx : y = x
        · subst hyx
          rw [hl] at hy; cases hy
          simp [execInstr, upd_same, m2]
        · have : m ≠ mx := fun e' => hyx (hinj y x _ hy (e' ▸ hl))
          simp [execInstr, upd_other _ _ _ _ this, upd_other _ _ _ _ hyx, m3, hag.memv y m hy, m6]
    · cases h
  | iowrite o e =>
    intro base busy c busy' h pre post cfg s hpc hag ho
    simp only [compileS] at h
    split at h
    · rename_i ce r busy1 he
      simp only [Option.some.injEq, Prod.mk.injEq] at h
      obtain ⟨e1, e2⟩ := h; subst e1; subst e2
      obtain ⟨mid, m0, m1, m2, m3, m4, m5, m6, m7, m8⟩ :=
        expr_then_instr env w ls e busy ce r busy1 he (.r2o r o) pre post cfg s hpc hag
      obtain ⟨q1, q2, q3⟩ := compileE_mono ls e _ _ _ _ he
      rw [m0]
      simp only [exec]
      refine ⟨trivial, by simp [execInstr, m1]; omega, ⟨fun y g' hy => ?_, fun y m hy => ?_, by simp [execInstr, m5]⟩, by simp [execInstr, m4, ho, m7, m2]⟩
      · obtain ⟨z1, z2⟩ := hag.regv y g' hy
        exact ⟨by simp [execInstr, m8 g' z2, z1, m6], q3 _ z2⟩
      · simp [execInstr, m3, hag.memv y m hy, m6]
    · cases h
  | inc x =>
    intro base busy c busy' h pre post cfg s hpc hag ho
    simp only [compileS] at h
    have := incdec_ok env w ls hinj Instr.inc (fun v => (v + 1) % 2 ^ w) (fun c r => by simp [execInstr])
      x busy c busy' h pre post cfg s hpc hag ho
    simp only [exec]
    exact ⟨trivial, this.1, this.2.1, this.2.2⟩
  | dec x =>
    intro base busy c busy' h pre post cfg s hpc hag ho
    simp only [compileS] at h
    have := incdec_ok env w ls hinj Instr.dec (fun v => (v + (2 ^ w - 1)) % 2 ^ w) (fun c r => by simp [execInstr])
      x busy c busy' h pre post cfg s hpc hag ho
    simp only [exec]
    exact ⟨trivial, this.1, this.2.1, this.2.2⟩
  | ifThen _ _ _ => simp [straight] at hs
  | ifElse _ _ _ _ _ => simp [straight] at hs
  | loop _ _ _ => simp [straight] at hs
  | decl _ => simp [straight] at hs


/-! ### declarations and whole straight-line programs -/

/-- the reset state: everything zero -/
structure ZeroState (cfg : Cfg) : Prop where
  regs : cfg.regs = fun _ => 0
  mem : cfg.mem = fun _ => 0
  rc : cfg.rc = 0
  outs : cfg.outs = []

theorem upd_zero (k : Nat) : upd (fun _ => 0) k 0 = fun _ => 0 := by
  funext i; simp [upd]

theorem preamble_run (env : Nat → Nat → Nat) (w : Nat) (ds : List Bool) :
    ∀ (busy : List Nat) (m : Nat) (pre post : List Instr) (cfg : Cfg), cfg.pc = pre.length → ZeroState cfg →
      (isaRun env w (pre ++ preambleFrom ds busy m ++ post) (preambleFrom ds busy m).length cfg).pc
          = pre.length + (preambleFrom ds busy m).length ∧
      ZeroState (isaRun env w (pre ++ preambleFrom ds busy m ++ post) (preambleFrom ds busy m).length cfg) := by
  induction ds with
  | nil =>
    intro busy m pre post cfg hpc hz
    simp [preambleFrom, isaRun, hpc, hz]
  | cons d ds ih =>
    intro busy m pre post cfg hpc hz
    cases d with
    | true =>
      simp only [preambleFrom]
      have hP : pre ++ (Instr.clr (fresh busy) :: preambleFrom ds (fresh busy :: busy) m) ++ post
          = pre ++ Instr.clr (fresh busy) :: (preambleFrom ds (fresh busy :: busy) m ++ post) := by simp
      have hP2 : pre ++ (Instr.clr (fresh busy) :: preambleFrom ds (fresh busy :: busy) m) ++ post
          = (pre ++ [Instr.clr (fresh busy)]) ++ preambleFrom ds (fresh busy :: busy) m ++ post := by simp
      have hl : (Instr.clr (fresh busy) :: preambleFrom ds (fresh busy :: busy) m).length
          = 1 + (preambleFrom ds (fresh busy :: busy) m).length := by simp; omega
      rw [hl, isaRun_add]
      have e1 : isaRun env w (pre ++ (Instr.clr (fresh busy) :: preambleFrom ds (fresh busy :: busy) m) ++ post) 1 cfg
          = execInstr env w cfg (Instr.clr (fresh busy)) := by
        rw [hP]; exact isaRun_one_at env w pre _ _ cfg hpc
      rw [e1]
      have hz1 : ZeroState (execInstr env w cfg (Instr.clr (fresh busy))) :=
        ⟨by simp [execInstr, hz.regs, upd_zero], by simp [execInstr, hz.mem], by simp [execInstr, hz.rc], by simp [execInstr, hz.outs]⟩
      have := ih (fresh busy :: busy) m (pre ++ [Instr.clr (fresh busy)]) post _ (by simp [execInstr, hpc]) hz1
      rw [← hP2] at this
      refine ⟨by rw [this.1]; simp; omega, this.2⟩
    | false =>
      simp only [preambleFrom]
      have hP : pre ++ (Instr.clr (fresh busy) :: Instr.r2m (fresh busy) m :: preambleFrom ds busy (m + 1)) ++ post
          = pre ++ Instr.clr (fresh busy) :: (Instr.r2m (fresh busy) m :: preambleFrom ds busy (m + 1) ++ post) := by simp
      have hP1 : pre ++ (Instr.clr (fresh busy) :: Instr.r2m (fresh busy) m :: preambleFrom ds busy (m + 1)) ++ post
          = (pre ++ [Instr.clr (fresh busy)]) ++ Instr.r2m (fresh busy) m :: (preambleFrom ds busy (m + 1) ++ post) := by simp
      have hP2 : pre ++ (Instr.clr (fresh busy) :: Instr.r2m (fresh busy) m :: preambleFrom ds busy (m + 1)) ++ post
          = (pre ++ [Instr.clr (fresh busy), Instr.r2m (fresh busy) m]) ++ preambleFrom ds busy (m + 1) ++ post := by simp
      have hl : (Instr.clr (fresh busy) :: Instr.r2m (fresh busy) m :: preambleFrom ds busy (m + 1)).length
          = 1 + (1 + (preambleFrom ds busy (m + 1)).length) := by simp; omega
      rw [hl, isaRun_add, isaRun_add]
      have e1 : isaRun env w (pre ++ (Instr.clr (fresh busy) :: Instr.r2m (fresh busy) m :: preambleFrom ds busy (m + 1)) ++ post) 1 cfg
          = execInstr env w cfg (Instr.clr (fresh busy)) := by
        rw [hP]; exact isaRun_one_at env w pre _ _ cfg hpc
      rw [e1]
      have e2 : isaRun env w (pre ++ (Instr.clr (fresh busy) :: Instr.r2m (fresh busy) m :: preambleFrom ds busy (m + 1)) ++ post) 1
            (execInstr env w cfg (Instr.clr (fresh busy)))
          = execInstr env w (execInstr env w cfg (Instr.clr (fresh busy))) (Instr.r2m (fresh busy) m) := by
        rw [hP1]; exact isaRun_one_at env w _ _ _ _ (by simp [execInstr, hpc])
      rw [e2]
      have hz2 : ZeroState (execInstr env w (execInstr env w cfg (Instr.clr (fresh busy))) (Instr.r2m (fresh busy) m)) :=
        ⟨by simp [execInstr, hz.regs, upd_zero], by simp [execInstr, hz.mem, hz.regs, upd_zero],
         by simp [execInstr, hz.rc], by simp [execInstr, hz.outs]⟩
      have := ih busy (m + 1) (pre ++ [Instr.clr (fresh busy), Instr.r2m (fresh busy) m]) post _ (by simp [execInstr, hpc]) hz2
      rw [← hP2] at this
      refine ⟨by rw [this.1]; simp; omega, this.2⟩


theorem locsFrom_spec (ds : List Bool) :
    ∀ (busy : List Nat) (m : Nat),
      (∀ (x g : Nat), (locsFrom ds busy m)[x]? = some (.reg g) → g ∉ busy) ∧
      (∀ (x k : Nat), (locsFrom ds busy m)[x]? = some (.mem k) → m ≤ k) ∧
      LocsInj (locsFrom ds busy m) := by
  induction ds with
  | nil =>
    intro busy m
    refine ⟨fun x g h => by simp [locsFrom] at h, fun x k h => by simp [locsFrom] at h,
            fun x y l h => by simp [locsFrom] at h⟩
  | cons d ds ih =>
    intro busy m
    cases d with
    | true =>
      obtain ⟨i1, i2, i3⟩ := ih (fresh busy :: busy) m
      simp only [locsFrom]
      refine ⟨fun x g h => ?_, fun x k h => ?_, fun x y l hx hy => ?_⟩
      · cases x with
        | zero =>
          simp only [List.getElem?_cons_zero, Option.some.injEq, Loc.reg.injEq] at h
          subst h; exact fresh_not_mem _
        | succ x =>
          simp only [List.getElem?_cons_succ] at h
          exact fun hb => i1 x g h (List.mem_cons_of_mem _ hb)
      · cases x with
        | zero => simp at h
        | succ x => simp only [List.getElem?_cons_succ] at h; exact i2 x k h
      · cases x with
        | zero =>
          cases y with
          | zero => rfl
          | succ y =>
            simp only [List.getElem?_cons_zero, Option.some.injEq] at hx
            simp only [List.getElem?_cons_succ] at hy
            subst hx
            exact absurd List.mem_cons_self (i1 y _ hy)
        | succ x =>
          cases y with
          | zero =>
            simp only [List.getElem?_cons_zero, Option.some.injEq] at hy
            simp only [List.getElem?_cons_succ] at hx
            subst hy
            exact absurd List.mem_cons_self (i1 x _ hx)
          | succ y =>
            simp only [List.getElem?_cons_succ] at hx hy
            rw [i3 x y l hx hy]
    | false =>
      obtain ⟨i1, i2, i3⟩ := ih busy (m + 1)
      simp only [locsFrom]
      refine ⟨fun x g h => ?_, fun x k h => ?_, fun x y l hx hy => ?_⟩
      · cases x with
        | zero => simp at h
        | succ x => simp only [List.getElem?_cons_succ] at h; exact i1 x g h
      · cases x with
        | zero =>
          simp only [List.getElem?_cons_zero, Option.some.injEq, Loc.mem.injEq] at h
          omega
        | succ x =>
          simp only [List.getElem?_cons_succ] at h
          have := i2 x k h; omega
      · cases x with
        | zero =>
          cases y with
          | zero => rfl
          | succ y =>
            simp only [List.getElem?_cons_zero, Option.some.injEq] at hx
            simp only [List.getElem?_cons_succ] at hy
            subst hx
            have := i2 y _ hy; omega
        | succ x =>
          cases y with
          | zero =>
            simp only [List.getElem?_cons_zero, Option.some.injEq] at hy
            simp only [List.getElem?_cons_succ] at hx
            subst hy
            have := i2 x _ hx; omega
          | succ y =>
            simp only [List.getElem?_cons_succ] at hx hy
            rw [i3 x y l hx hy]

/-- a straight-line body declares no block-local variable -/
theorem blockLocs_straight (st : Stmt) (hs : straight st = true) :
    ∀ mems, blockLocs st mems = ([], mems, []) := by
  induction st with
  | seq a b iha ihb =>
    intro mems
    simp only [straight, Bool.and_eq_true] at hs
    simp [blockLocs, iha hs.1, ihb hs.2]
  | skip => intro mems; rfl
  | assign _ _ => intro mems; rfl
  | inc _ => intro mems; rfl
  | dec _ => intro mems; rfl
  | iowrite _ _ => intro mems; rfl
  | ifThen _ _ _ => simp [straight] at hs
  | ifElse _ _ _ _ _ => simp [straight] at hs
  | loop _ _ _ => simp [straight] at hs
  | decl _ => simp [straight] at hs

theorem allLocs_straight (p : Prog) (hs : straight p.body = true) : allLocs p = locs p.decls := by
  simp [allLocs, blockLocs_straight p.body hs]

theorem locs_inj (decls : List Bool) : LocsInj (locs decls) := (locsFrom_spec decls [] 0).2.2

theorem mem_varRegs {ls : List Loc} {x g : Nat} (h : ls[x]? = some (.reg g)) : g ∈ varRegs ls := by
  unfold varRegs
  refine List.mem_filterMap.mpr ⟨.reg g, List.mem_of_getElem? h, rfl⟩

/-- whole straight-line programs: the compiled program, run for exactly its own length, has left
    the program and has written exactly the outputs of `goEval` -/
theorem compile_straight (env : Nat → Nat → Nat) (w fuel : Nat) (p : Prog) (code : List Instr)
    (hc : compile p = some code) (hs : straight p.body = true) :
    runCode env w code code.length = ((goEval env w fuel p).1, true) ∧ (goEval env w fuel p).2 = true := by
  unfold compile at hc
  rw [allLocs_straight p hs] at hc
  simp only at hc
  split at hc
  · rename_i c busy' hcs
    simp only [Option.some.injEq] at hc
    subst hc
    have hz0 : ZeroState ({} : Cfg) := ⟨rfl, rfl, rfl, rfl⟩
    have hpre := preamble_run env w p.decls [] 0 [] c {} rfl hz0
    simp only [List.nil_append, List.length_nil, Nat.zero_add] at hpre
    obtain ⟨hp1, hp2⟩ := hpre
    have hag : Agree (locs p.decls) (varRegs (locs p.decls))
        (isaRun env w (preamble p.decls ++ c) (preamble p.decls).length {}) {} := by
      refine ⟨fun x g hl => ⟨?_, mem_varRegs hl⟩, fun x m hl => ?_, ?_⟩
      · show (isaRun env w (preambleFrom p.decls [] 0 ++ c) (preambleFrom p.decls [] 0).length {}).regs g = 0
        rw [hp2.regs]
      · show (isaRun env w (preambleFrom p.decls [] 0 ++ c) (preambleFrom p.decls [] 0).length {}).mem m = 0
        rw [hp2.mem]
      · exact hp2.rc
    have hst := straight_correct env w fuel (locs p.decls) (locs_inj p.decls) p.body hs
      (preamble p.decls).length (varRegs (locs p.decls)) c busy' hcs (preamble p.decls) []
      (isaRun env w (preamble p.decls ++ c) (preamble p.decls).length {}) {}
      hp1 hag hp2.outs
    simp only [List.append_nil] at hst
    obtain ⟨s1, s2, s3, s4⟩ := hst
    rw [← isaRun_add] at s2 s4
    have hlen : (preamble p.decls ++ c).length = (preamble p.decls).length + c.length := by simp
    refine ⟨?_, s1⟩
    simp only [runCode, goEval, hlen, s4, s2, Nat.le_refl, decide_true]
  · cases hc


end BMV.Bondgo
