/-
  Helper lemmas for the bondgo compiler model (BMV/Bondgo.lean).  Property theorems:
  BMV/Props/C12.lean.
-/
import BMV.Bondgo
namespace BMV.Bondgo

/-! ### allocator -/

theorem le_maxList {x : Nat} {l : List Nat} (h : x ∈ l) : x ≤ maxList l := by
  induction l with
  | nil => cases h
  | cons y ys ih =>
    simp only [maxList]
    rcases List.mem_cons.mp h with h | h
    · subst h; exact Nat.le_max_left _ _
    · exact Nat.le_trans (ih h) (Nat.le_max_right _ _)

theorem fresh_not_mem (busy : List Nat) : fresh busy ∉ busy := by
  unfold fresh
  split
  · rename_i i hi
    have := List.find?_some hi
    simpa using this
  · intro h
    have := le_maxList h
    omega

/-! ### running code -/

theorem isaRun_add (env : Nat → Nat → Nat) (w : Nat) (code : List Instr) (n m : Nat) (c : Cfg) :
    isaRun env w code (n + m) c = isaRun env w code m (isaRun env w code n c) := by
  induction n generalizing c with
  | zero => simp [isaRun]
  | succ n ih =>
    rw [Nat.succ_add]
    simp only [isaRun]
    cases h : isaStep env w code c with
    | some c' => simp only; exact ih c'
    | none =>
      simp only
      -- halted: stays halted
      clear ih
      induction m with
      | zero => simp [isaRun]
      | succ m _ => simp [isaRun, h]

theorem isaStep_at (env : Nat → Nat → Nat) (w : Nat) (pre post : List Instr) (i : Instr) (c : Cfg)
    (hpc : c.pc = pre.length) :
    isaStep env w (pre ++ i :: post) c = some (execInstr env w c i) := by
  simp [isaStep, hpc]

theorem isaRun_one_at (env : Nat → Nat → Nat) (w : Nat) (pre post : List Instr) (i : Instr) (c : Cfg)
    (hpc : c.pc = pre.length) :
    isaRun env w (pre ++ i :: post) 1 c = execInstr env w c i := by
  simp [isaRun, isaStep_at env w pre post i c hpc]

/-! ### the agreement between machine state and source state -/

/-- memory variables sit in their cells, register variables in their (busy) registers, and both
    sides have consumed the same number of input reads -/
structure Agree (ls : List Loc) (busy : List Nat) (cfg : Cfg) (s : Src) : Prop where
  regv : ∀ x g, ls[x]? = some (.reg g) → cfg.regs g = s.vars x ∧ g ∈ busy
  memv : ∀ x m, ls[x]? = some (.mem m) → cfg.mem m = s.vars x
  rc : cfg.rc = s.rc

/-! ### expressions -/

theorem compileE_mono (ls : List Loc) (e : Expr) :
    ∀ (busy : List Nat) (c : List Instr) (r : Nat) (busy' : List Nat),
      compileE ls e busy = some (c, r, busy') → r ∉ busy ∧ r ∈ busy' ∧ ∀ x ∈ busy, x ∈ busy' := by
  induction e with
  | lit n =>
    intro busy c r busy' h
    simp only [compileE, Option.some.injEq, Prod.mk.injEq] at h
    obtain ⟨_, h2, h3⟩ := h; subst h2; subst h3
    exact ⟨fresh_not_mem _, List.mem_cons_self, fun x hx => List.mem_cons_of_mem _ hx⟩
  | var x =>
    intro busy c r busy' h
    simp only [compileE] at h
    split at h <;> simp only [Option.some.injEq, Prod.mk.injEq, reduceCtorEq] at h
    all_goals
      obtain ⟨_, h2, h3⟩ := h; subst h2; subst h3
      exact ⟨fresh_not_mem _, List.mem_cons_self, fun x hx => List.mem_cons_of_mem _ hx⟩
  | ioread i =>
    intro busy c r busy' h
    simp only [compileE, Option.some.injEq, Prod.mk.injEq] at h
    obtain ⟨_, h2, h3⟩ := h; subst h2; subst h3
    exact ⟨fresh_not_mem _, List.mem_cons_self, fun x hx => List.mem_cons_of_mem _ hx⟩
  | add a b iha ihb =>
    intro busy c r busy' h
    simp only [compileE] at h
    split at h
    · cases h
    · rename_i ca ra busy1 ha
      split at h
      · cases h
      · rename_i cb rb busy2 hb
        simp only [Option.some.injEq, Prod.mk.injEq] at h
        obtain ⟨_, h2, h3⟩ := h; subst h2; subst h3
        obtain ⟨a1, a2, a3⟩ := iha _ _ _ _ ha
        obtain ⟨b1, b2, b3⟩ := ihb _ _ _ _ hb
        have hne : ra ≠ rb := fun e => b1 (e ▸ a2)
        refine ⟨a1, (List.mem_erase_of_ne hne).mpr (b3 _ a2), fun x hx => ?_⟩
        have hx1 := a3 x hx
        have : x ≠ rb := fun e => b1 (e ▸ hx1)
        exact (List.mem_erase_of_ne this).mpr (b3 _ hx1)
  | mul a b iha ihb =>
    intro busy c r busy' h
    simp only [compileE] at h
    split at h
    · cases h
    · rename_i ca ra busy1 ha
      split at h
      · cases h
      · rename_i cb rb busy2 hb
        simp only [Option.some.injEq, Prod.mk.injEq] at h
        obtain ⟨_, h2, h3⟩ := h; subst h2; subst h3
        obtain ⟨a1, a2, a3⟩ := iha _ _ _ _ ha
        obtain ⟨b1, b2, b3⟩ := ihb _ _ _ _ hb
        have hne : ra ≠ rb := fun e => b1 (e ▸ a2)
        refine ⟨a1, (List.mem_erase_of_ne hne).mpr (b3 _ a2), fun x hx => ?_⟩
        have hx1 := a3 x hx
        have : x ≠ rb := fun e => b1 (e ▸ hx1)
        exact (List.mem_erase_of_ne this).mpr (b3 _ hx1)


/-- with a duplicate-free busy list: the result register is new, the list stays duplicate free and
    grows exactly by the result register -/
theorem compileE_alloc (ls : List Loc) (e : Expr) :
    ∀ (busy : List Nat) (c : List Instr) (r : Nat) (busy' : List Nat), busy.Nodup →
      compileE ls e busy = some (c, r, busy') →
      r ∉ busy ∧ busy'.Nodup ∧ (∀ x, x ∈ busy' ↔ x = r ∨ x ∈ busy) := by
  have leaf : ∀ (busy : List Nat), busy.Nodup →
      fresh busy ∉ busy ∧ (fresh busy :: busy).Nodup ∧
        (∀ x, x ∈ fresh busy :: busy ↔ x = fresh busy ∨ x ∈ busy) := fun busy hnd =>
    ⟨fresh_not_mem _, List.nodup_cons.mpr ⟨fresh_not_mem _, hnd⟩, fun x => List.mem_cons⟩
  have bin : ∀ (busy busy1 busy2 : List Nat) (ra rb : Nat),
      (ra ∉ busy ∧ busy1.Nodup ∧ (∀ x, x ∈ busy1 ↔ x = ra ∨ x ∈ busy)) →
      (rb ∉ busy1 ∧ busy2.Nodup ∧ (∀ x, x ∈ busy2 ↔ x = rb ∨ x ∈ busy1)) →
      ra ∉ busy ∧ (busy2.erase rb).Nodup ∧ (∀ x, x ∈ busy2.erase rb ↔ x = ra ∨ x ∈ busy) := by
    intro busy busy1 busy2 ra rb ⟨a1, a2, a3⟩ ⟨b1, b2, b3⟩
    refine ⟨a1, b2.erase _, fun x => ?_⟩
    rw [b2.mem_erase_iff, b3, a3]
    constructor
    · rintro ⟨hne, h | h⟩
      · exact absurd h hne
      · exact h
    · intro h
      refine ⟨fun e => b1 (e ▸ (a3 x).mpr h), .inr h⟩
  induction e with
  | lit n =>
    intro busy c r busy' hnd h
    simp only [compileE, Option.some.injEq, Prod.mk.injEq] at h
    obtain ⟨_, h2, h3⟩ := h; subst h2; subst h3
    exact leaf busy hnd
  | var x =>
    intro busy c r busy' hnd h
    simp only [compileE] at h
    split at h <;> simp only [Option.some.injEq, Prod.mk.injEq, reduceCtorEq] at h
    all_goals
      obtain ⟨_, h2, h3⟩ := h; subst h2; subst h3
      exact leaf busy hnd
  | ioread i =>
    intro busy c r busy' hnd h
    simp only [compileE, Option.some.injEq, Prod.mk.injEq] at h
    obtain ⟨_, h2, h3⟩ := h; subst h2; subst h3
    exact leaf busy hnd
  | add a b iha ihb =>
    intro busy c r busy' hnd h
    simp only [compileE] at h
    split at h
    · cases h
    · rename_i ca ra busy1 ha
      split at h
      · cases h
      · rename_i cb rb busy2 hb
        simp only [Option.some.injEq, Prod.mk.injEq] at h
        obtain ⟨_, h2, h3⟩ := h; subst h2; subst h3
        have A := iha _ _ _ _ hnd ha
        exact bin _ _ _ _ _ A (ihb _ _ _ _ A.2.1 hb)
  | mul a b iha ihb =>
    intro busy c r busy' hnd h
    simp only [compileE] at h
    split at h
    · cases h
    · rename_i ca ra busy1 ha
      split at h
      · cases h
      · rename_i cb rb busy2 hb
        simp only [Option.some.injEq, Prod.mk.injEq] at h
        obtain ⟨_, h2, h3⟩ := h; subst h2; subst h3
        have A := iha _ _ _ _ hnd ha
        exact bin _ _ _ _ _ A (ihb _ _ _ _ A.2.1 hb)

/-- the code of an expression writes only registers that were free when its compilation started -/
theorem compileE_writes (ls : List Loc) (e : Expr) :
    ∀ (busy : List Nat) (c : List Instr) (r : Nat) (busy' : List Nat), busy.Nodup →
      compileE ls e busy = some (c, r, busy') → ∀ i ∈ c, ∀ x ∈ i.writes, x ∉ busy := by
  induction e with
  | lit n =>
    intro busy c r busy' _ h
    simp only [compileE, Option.some.injEq, Prod.mk.injEq] at h
    obtain ⟨h1, _, _⟩ := h; subst h1
    intro i hi x hx
    simp only [List.mem_singleton] at hi; subst hi
    simp only [Instr.writes, List.mem_singleton] at hx; subst hx
    exact fresh_not_mem _
  | var v =>
    intro busy c r busy' _ h
    simp only [compileE] at h
    split at h <;> simp only [Option.some.injEq, Prod.mk.injEq, reduceCtorEq] at h
    all_goals
      obtain ⟨h1, _, _⟩ := h; subst h1
      intro i hi x hx
      simp only [List.mem_singleton] at hi; subst hi
      simp only [Instr.writes, List.mem_singleton] at hx; subst hx
      exact fresh_not_mem _
  | ioread p =>
    intro busy c r busy' _ h
    simp only [compileE, Option.some.injEq, Prod.mk.injEq] at h
    obtain ⟨h1, _, _⟩ := h; subst h1
    intro i hi x hx
    simp only [List.mem_singleton] at hi; subst hi
    simp only [Instr.writes, List.mem_singleton] at hx; subst hx
    exact fresh_not_mem _
  | add a b iha ihb =>
    intro busy c r busy' hnd h
    simp only [compileE] at h
    split at h
    · cases h
    · rename_i ca ra busy1 ha
      split at h
      · cases h
      · rename_i cb rb busy2 hb
        simp only [Option.some.injEq, Prod.mk.injEq] at h
        obtain ⟨h1, _, _⟩ := h; subst h1
        have A := compileE_alloc ls a _ _ _ _ hnd ha
        intro i hi x hx
        simp only [List.mem_append, List.mem_singleton] at hi
        rcases hi with (hi | hi) | hi
        · exact iha _ _ _ _ hnd ha i hi x hx
        · exact fun hb' => ihb _ _ _ _ A.2.1 hb i hi x hx ((A.2.2 x).mpr (.inr hb'))
        · subst hi
          simp only [Instr.writes, List.mem_singleton] at hx; subst hx
          exact A.1
  | mul a b iha ihb =>
    intro busy c r busy' hnd h
    simp only [compileE] at h
    split at h
    · cases h
    · rename_i ca ra busy1 ha
      split at h
      · cases h
      · rename_i cb rb busy2 hb
        simp only [Option.some.injEq, Prod.mk.injEq] at h
        obtain ⟨h1, _, _⟩ := h; subst h1
        have A := compileE_alloc ls a _ _ _ _ hnd ha
        intro i hi x hx
        simp only [List.mem_append, List.mem_singleton] at hi
        rcases hi with (hi | hi) | hi
        · exact iha _ _ _ _ hnd ha i hi x hx
        · exact fun hb' => ihb _ _ _ _ A.2.1 hb i hi x hx ((A.2.2 x).mpr (.inr hb'))
        · subst hi
          simp only [Instr.writes, List.mem_singleton] at hx; subst hx
          exact A.1

end BMV.Bondgo
