/-
  Lemmas about BMV.Regex: the representative of a code point behaves like the code point under
  `deriv` (`class_rep`), a set of state pairs that passes `closedCheck` contains no pair with a
  common word (`closed_sound`), hence `verdict = .disjoint` is sound and `verdict = .overlap w`
  carries a real common word; table forms (`allPairsDisjoint_sound`, `accepting_le_one`).
  Not proved here: that `matchStr` (derivatives with smart constructors) computes the textbook
  denotational language of the expression — `matchStr` is the model's definition of the language and
  is tied to Go's regexp by the correspondence run.
-/
import BMV.Regex

namespace BMV.Regex
open Regex

/-! ### the dead state -/

theorem derivs_empty (s : List Nat) : derivs s .empty = .empty := by
  induction s with
  | nil => rfl
  | cons c t ih => simpa [derivs, deriv] using ih

theorem matchStr_empty (s : List Nat) : matchStr .empty s = false := by
  simp [matchStr, derivs_empty, nullable]

theorem matchStr_nil (r : Regex) : matchStr r [] = nullable r := rfl

theorem matchStr_cons (r : Regex) (c : Nat) (t : List Nat) :
    matchStr r (c :: t) = matchStr (deriv c r) t := rfl

/-! ### representatives -/

theorem repGo_le (c : Nat) : ∀ (bs : List Nat) (acc : Nat), acc ≤ c → repGo c acc bs ≤ c := by
  intro bs
  induction bs with
  | nil => intro acc h; simpa [repGo] using h
  | cons b bs ih =>
    intro acc h
    simp only [repGo]
    apply ih
    split
    · rename_i hb
      simp only [Bool.and_eq_true, Nat.ble_eq] at hb
      exact hb.1
    · exact h

theorem repGo_ge_acc (c : Nat) : ∀ (bs : List Nat) (acc : Nat), acc ≤ repGo c acc bs := by
  intro bs
  induction bs with
  | nil => intro acc; simp [repGo]
  | cons b bs ih =>
    intro acc
    simp only [repGo]
    split
    · rename_i hb
      simp only [Bool.and_eq_true, Nat.ble_eq] at hb
      exact Nat.le_trans hb.2 (ih b)
    · exact ih acc

theorem repGo_ge (c : Nat) : ∀ (bs : List Nat) (acc b : Nat), b ∈ bs → b ≤ c → b ≤ repGo c acc bs := by
  intro bs
  induction bs with
  | nil => intro acc b h; cases h
  | cons x bs ih =>
    intro acc b hmem hb
    simp only [repGo]
    rcases List.mem_cons.mp hmem with rfl | hmem
    · split
      · exact repGo_ge_acc c bs b
      · rename_i hn
        simp only [Bool.and_eq_true, Nat.ble_eq, not_and, Nat.not_le] at hn
        have := hn hb
        exact Nat.le_trans (Nat.le_of_lt this) (repGo_ge_acc c bs acc)
    · exact ih _ b hmem hb

theorem repGo_mem (c : Nat) : ∀ (bs : List Nat) (acc : Nat),
    repGo c acc bs = acc ∨ repGo c acc bs ∈ bs := by
  intro bs
  induction bs with
  | nil => intro acc; left; rfl
  | cons b bs ih =>
    intro acc
    simp only [repGo]
    split
    · rcases ih b with h | h
      · right; rw [h]; exact List.mem_cons_self
      · right; exact List.mem_cons_of_mem _ h
    · rcases ih acc with h | h
      · left; exact h
      · right; exact List.mem_cons_of_mem _ h

theorem repOf_le (bs : List Nat) (c : Nat) : repOf bs c ≤ c := repGo_le c bs 0 (Nat.zero_le _)

theorem repOf_ge (bs : List Nat) (c b : Nat) (h : b ∈ bs) (hb : b ≤ c) : b ≤ repOf bs c :=
  repGo_ge c bs 0 b h hb

theorem repOf_mem (bs : List Nat) (c : Nat) : repOf bs c ∈ 0 :: bs := by
  rcases repGo_mem c bs 0 with h | h
  · unfold repOf; rw [h]; exact List.mem_cons_self
  · exact List.mem_cons_of_mem _ h

/-- `c` and `c'` lie on the same side of both ends of every range of `rs` -/
def SameSide (rs : List (Nat × Nat)) (c c' : Nat) : Prop :=
  ∀ p ∈ rs, (p.1 ≤ c ↔ p.1 ≤ c') ∧ (c ≤ p.2 ↔ c' ≤ p.2)

theorem SameSide.mono {rs rs' : List (Nat × Nat)} {c c' : Nat} (h : SameSide rs c c')
    (hs : ∀ p ∈ rs', p ∈ rs) : SameSide rs' c c' := fun p hp => h p (hs p hp)

theorem inRanges_congr {c c' : Nat} : ∀ {rs : List (Nat × Nat)}, SameSide rs c c' →
    inRanges c rs = inRanges c' rs := by
  intro rs
  induction rs with
  | nil => intro _; rfl
  | cons p rs ih =>
    intro h
    obtain ⟨lo, hi⟩ := p
    have h1 := h (lo, hi) List.mem_cons_self
    have h2 := ih (fun q hq => h q (List.mem_cons_of_mem _ hq))
    simp only [inRanges, h2]
    congr 1
    rw [Bool.eq_iff_iff]
    simp only [Bool.and_eq_true, Nat.ble_eq]
    exact and_congr h1.1 h1.2

theorem classHas_congr {c c' : Nat} {n : Bool} {rs : List (Nat × Nat)} (h : SameSide rs c c') :
    classHas n rs c = classHas n rs c' := by
  simp only [classHas, inRanges_congr h]

/-- **class_rep (general form)**: two code points on the same side of every range end of every
    atom of `r` have the same derivative -/
theorem deriv_congr {c c' : Nat} : ∀ {r : Regex}, SameSide (atomRanges r) c c' →
    deriv c r = deriv c' r := by
  intro r
  induction r with
  | empty => intro _; rfl
  | eps => intro _; rfl
  | cls n rs =>
    intro h
    have h' : SameSide rs c c' := h
    simp only [deriv]
    rw [classHas_congr h']
  | cat a b iha ihb =>
    intro h
    have ha := iha (h.mono (fun p hp => by simp only [atomRanges, List.mem_append]; exact Or.inl hp))
    have hb := ihb (h.mono (fun p hp => by simp only [atomRanges, List.mem_append]; exact Or.inr hp))
    simp only [deriv, ha, hb]
  | alt a b iha ihb =>
    intro h
    have ha := iha (h.mono (fun p hp => by simp only [atomRanges, List.mem_append]; exact Or.inl hp))
    have hb := ihb (h.mono (fun p hp => by simp only [atomRanges, List.mem_append]; exact Or.inr hp))
    simp only [deriv, ha, hb]
  | star a iha =>
    intro h
    have ha := iha (h.mono (fun p hp => by simpa only [atomRanges] using hp))
    simp only [deriv, ha]

theorem mem_bounds {rs : List (Nat × Nat)} {p : Nat × Nat} (h : p ∈ rs) :
    p.1 ∈ bounds rs ∧ p.2 + 1 ∈ bounds rs := by
  induction rs with
  | nil => cases h
  | cons q rs ih =>
    obtain ⟨lo, hi⟩ := q
    rcases List.mem_cons.mp h with rfl | h
    · simp [bounds]
    · have := ih h
      simp only [bounds, List.mem_cons]
      exact ⟨Or.inr (Or.inr this.1), Or.inr (Or.inr this.2)⟩

/-- a code point and its representative are on the same side of every range end -/
theorem rep_sameSide (rs : List (Nat × Nat)) (c : Nat) : SameSide rs c (repOf (bounds rs) c) := by
  intro p hp
  have hb := mem_bounds hp
  have hle := repOf_le (bounds rs) c
  constructor
  · constructor
    · intro h; exact repOf_ge _ _ _ hb.1 h
    · intro h; exact Nat.le_trans h hle
  · constructor
    · intro h; exact Nat.le_trans hle h
    · intro h
      apply Nat.le_of_not_lt
      intro hlt
      have := repOf_ge _ _ _ hb.2 hlt
      omega

/-- **class_rep**: the derivative by a code point is the derivative by the representative of its
    class, for every expression whose atoms are among `rs` -/
theorem class_rep (rs : List (Nat × Nat)) (r : Regex) (h : ∀ p ∈ atomRanges r, p ∈ rs) (c : Nat) :
    deriv c r = deriv (repOf (bounds rs) c) r :=
  deriv_congr ((rep_sameSide rs c).mono h)

theorem mem_insertNew {x y : Nat} {l : List Nat} : y ∈ insertNew x l ↔ y = x ∨ y ∈ l := by
  unfold insertNew
  split
  · rename_i h
    have hx : x ∈ l := by simpa using h
    constructor
    · intro hy; exact Or.inr hy
    · rintro (rfl | hy)
      · exact hx
      · exact hy
  · exact List.mem_cons

theorem mem_dedup {y : Nat} : ∀ {l : List Nat}, y ∈ dedup l ↔ y ∈ l := by
  intro l
  induction l with
  | nil => simp [dedup]
  | cons x xs ih => simp only [dedup, mem_insertNew, ih, List.mem_cons]

theorem rep_mem_repsOf (rs : List (Nat × Nat)) (c : Nat) : repOf (bounds rs) c ∈ repsOf rs := by
  unfold repsOf
  exact mem_dedup.mpr (repOf_mem _ _)

theorem mem_pairRanges {S : List Pair} {p : Pair} (hp : p ∈ S) :
    (∀ x ∈ atomRanges p.1, x ∈ pairRanges S) ∧ (∀ x ∈ atomRanges p.2, x ∈ pairRanges S) := by
  induction S with
  | nil => cases hp
  | cons q S ih =>
    rcases List.mem_cons.mp hp with rfl | hp
    · constructor
      · intro x hx; simp only [pairRanges, List.mem_append]; exact Or.inl (Or.inl hx)
      · intro x hx; simp only [pairRanges, List.mem_append]; exact Or.inl (Or.inr hx)
    · have := ih hp
      constructor
      · intro x hx; simp only [pairRanges, List.mem_append]; exact Or.inr (this.1 x hx)
      · intro x hx; simp only [pairRanges, List.mem_append]; exact Or.inr (this.2 x hx)

/-! ### the certificate check is sound -/

theorem closed_sound {S : List Pair} (hS : closedCheck S = true) :
    ∀ (s : List Nat) (p : Pair), p ∈ S → ¬ (matchStr p.1 s = true ∧ matchStr p.2 s = true) := by
  simp only [closedCheck, List.all_eq_true, Bool.and_eq_true, Bool.not_eq_true',
    Bool.or_eq_true, List.elem_eq_mem, decide_eq_true_eq] at hS
  intro s
  induction s with
  | nil =>
    intro p hp ⟨h1, h2⟩
    have := (hS p hp).1
    simp only [matchStr_nil] at h1 h2
    simp [h1, h2] at this
  | cons c t ih =>
    intro p hp ⟨h1, h2⟩
    have hr := mem_pairRanges hp
    let c' := repOf (bounds (pairRanges S)) c
    have e1 : deriv c p.1 = deriv c' p.1 := class_rep _ _ hr.1 c
    have e2 : deriv c p.2 = deriv c' p.2 := class_rep _ _ hr.2 c
    rw [matchStr_cons, e1] at h1
    rw [matchStr_cons, e2] at h2
    have hc' : c' ∈ repsOf (pairRanges S) := rep_mem_repsOf _ _
    rcases (hS p hp).2 c' hc' with hd | hm
    · simp only [isDead, succPair, Bool.or_eq_true] at hd
      rcases hd with hd | hd
      · rw [of_decide_eq_true hd, matchStr_empty] at h1; cases h1
      · rw [of_decide_eq_true hd, matchStr_empty] at h2; cases h2
    · exact ih (succPair c' p) hm ⟨h1, h2⟩

theorem verdictFuel_disjoint_sound {fuel : Nat} {r₁ r₂ : Regex}
    (h : verdictFuel fuel r₁ r₂ = .disjoint) (s : List Nat) :
    ¬ (matchStr r₁ s = true ∧ matchStr r₂ s = true) := by
  simp only [verdictFuel] at h
  split at h
  · split at h <;> cases h
  · rename_i S _
    split at h
    · rename_i hc
      simp only [Bool.and_eq_true, List.elem_eq_mem, decide_eq_true_eq] at hc
      exact closed_sound hc.2 s (r₁, r₂) hc.1
    · cases h
  · cases h

theorem verdictFuel_overlap_witness {fuel : Nat} {r₁ r₂ : Regex} {w : List Nat}
    (h : verdictFuel fuel r₁ r₂ = .overlap w) : matchStr r₁ w = true ∧ matchStr r₂ w = true := by
  simp only [verdictFuel] at h
  split at h
  · rename_i w' _
    split at h
    · rename_i hc
      simp only [Bool.and_eq_true] at hc
      cases h
      exact hc
    · cases h
  · split at h <;> cases h
  · cases h

/-- table form: `allPairsDisjoint` gives disjointness of every two distinct positions -/
theorem allDisjointFrom_sound {r : Regex} : ∀ {l : List Regex}, allDisjointFrom r l = true →
    ∀ x ∈ l, ∀ s, ¬ (matchStr r s = true ∧ matchStr x s = true) := by
  intro l
  induction l with
  | nil => intro _ x hx; cases hx
  | cons y ys ih =>
    intro h x hx s
    simp only [allDisjointFrom, Bool.and_eq_true, isDisjoint, decide_eq_true_eq] at h
    rcases List.mem_cons.mp hx with rfl | hx
    · exact verdictFuel_disjoint_sound h.1 s
    · exact ih h.2 x hx s

theorem allPairsDisjoint_sound : ∀ {l : List Regex}, allPairsDisjoint l = true →
    ∀ (i j : Nat) (hi : i < l.length) (hj : j < l.length), i < j →
      ∀ s, ¬ (matchStr l[i] s = true ∧ matchStr l[j] s = true) := by
  intro l
  induction l with
  | nil => intro _ i j hi; cases hi
  | cons r rs ih =>
    intro h i j hi hj hij s
    simp only [allPairsDisjoint, Bool.and_eq_true] at h
    cases j with
    | zero => omega
    | succ j =>
      cases i with
      | zero =>
        simp only [List.getElem_cons_zero, List.getElem_cons_succ]
        exact allDisjointFrom_sound h.1 _ (List.getElem_mem _) s
      | succ i =>
        simp only [List.getElem_cons_succ]
        exact ih h.2 i j (by simpa using hi) (by simpa using hj) (by omega) s

end BMV.Regex

namespace BMV.Regex

/-- the number of expressions of a pairwise-disjoint table that accept a given string is at most 1 -/
theorem accepting_le_one : ∀ {l : List Regex}, allPairsDisjoint l = true →
    ∀ s, (l.filter (fun r => matchStr r s)).length ≤ 1 := by
  intro l
  induction l with
  | nil => intro _ s; simp
  | cons r rs ih =>
    intro h s
    simp only [allPairsDisjoint, Bool.and_eq_true] at h
    by_cases hr : matchStr r s = true
    · have hnone : rs.filter (fun x => matchStr x s) = [] := by
        rw [List.filter_eq_nil_iff]
        intro x hx hxs
        exact allDisjointFrom_sound h.1 x hx s ⟨hr, hxs⟩
      simp [hr, hnone]
    · have := ih h.2 s
      simp only [List.filter_cons, hr]
      exact this

end BMV.Regex
