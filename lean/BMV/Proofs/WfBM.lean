/-
  Helper lemmas for C16: a validated processor never makes `Isa.step` fail.
-/
import BMV.WfBM
import BMV.Isa
import BMV.Proofs.Encode
namespace BMV.WfBM
open BMV BMV.Bits BMV.Encode

/-- opcodes whose `Simulate` (as modelled by `BMV.Isa`) has no data-dependent failure -/
def safeOps : List String :=
  ["nop", "rset", "inc", "dec", "clr", "add", "cpy", "mult", "j", "jz", "i2r", "i2rw", "r2o", "r2owa"]

/-- the shape invariant of a simulator state: the program counter is inside the program (or just
    past it: halted) and every register / port vector has the architecture's size -/
structure VmInv (a : Arch) (bound : Nat) (s : VmState) : Prop where
  pc : s.pc ≤ bound
  regs : s.regs.length = 2 ^ a.r
  inputs : s.inputs.length = a.n
  inValid : s.inValid.length = a.n
  inRecv : s.inRecv.length = a.n
  outputs : s.outputs.length = a.m
  outValid : s.outValid.length = a.m
  outRecv : s.outRecv.length = a.m

theorem inv_init (a : Arch) (plen : Nat) : VmInv a plen (Isa.init a) := by
  constructor <;> simp [Isa.init]

theorem foldl_set_length {α} (l : List α) (is : List Nat) (v : α) :
    (is.foldl (fun l i => l.set i v) l).length = l.length := by
  induction is generalizing l with
  | nil => rfl
  | cons i is ih => simp [List.foldl, ih]

theorem inv_runDeferred {a : Arch} {plen : Nat} {s : VmState} (h : VmInv a plen s) :
    VmInv a plen (Isa.runDeferred s) := by
  obtain ⟨h1, h2, h3, h4, h5, h6, h7, h8⟩ := h
  constructor <;> simp only [Isa.runDeferred, foldl_set_length] <;> assumption

theorem runDeferred_pc (s : VmState) : (Isa.runDeferred s).pc = s.pc := rfl

theorem field_lt (body : Bits) (off w : Nat) : Isa.field body off w < 2 ^ w := by
  unfold Isa.field
  have h1 := getId_lt ((body.drop off).take w)
  have h2 : ((body.drop off).take w).length ≤ w := by simp [List.length_take]; omega
  exact Nat.lt_of_lt_of_le h1 (Nat.pow_le_pow_right (by omega) h2)

/-! the decoded operands of each layout used by the safe opcodes, in terms of `Isa.field` -/

theorem dec_r (a : Arch) (body : Bits) : decOperands a [.reg] body = [.reg (Isa.field body 0 a.r)] := by
  simp [decOperands, decOperand, Isa.field, Arch.width]
theorem dec_rr (a : Arch) (body : Bits) :
    decOperands a [.reg, .reg] body = [.reg (Isa.field body 0 a.r), .reg (Isa.field body a.r a.r)] := by
  simp [decOperands, decOperand, Isa.field, Arch.width]
theorem dec_ri (a : Arch) (body : Bits) :
    decOperands a [.reg, .inp] body = [.reg (Isa.field body 0 a.r), .inp (Isa.field body a.r a.inBits)] := by
  simp [decOperands, decOperand, Isa.field, Arch.width]
theorem dec_ro (a : Arch) (body : Bits) :
    decOperands a [.reg, .out] body = [.reg (Isa.field body 0 a.r), .out (Isa.field body a.r a.outBits)] := by
  simp [decOperands, decOperand, Isa.field, Arch.width]
theorem dec_rv (a : Arch) (body : Bits) :
    decOperands a [.reg, .imm] body = [.reg (Isa.field body 0 a.r), .num (Isa.field body a.r a.rsize)] := by
  simp [decOperands, decOperand, Isa.field, Arch.width]
theorem dec_ra (a : Arch) (body : Bits) :
    decOperands a [.reg, .rom] body = [.reg (Isa.field body 0 a.r), .num (Isa.field body a.r a.o)] := by
  simp [decOperands, decOperand, Isa.field, Arch.width]
theorem dec_l (a : Arch) (h : a.mode = .ha) (body : Bits) :
    decOperands a [.loc] body = [.num (Isa.field body 0 a.o)] := by
  simp [decOperands, decOperand, Isa.field, Arch.width, Arch.locBits, h]

section exec
variable {a : Arch} {plen B : Nat} {body : Bits} {s : VmState}

/-- stepping to the next instruction keeps the invariant -/
theorem inv_next (h : VmInv a B s) (hpc : s.pc < plen) (hB : plen ≤ B) : VmInv a B { s with pc := s.pc + 1 } := by
  obtain ⟨h1, h2, h3, h4, h5, h6, h7, h8⟩ := h
  constructor <;> first | assumption | (show s.pc + 1 ≤ B; omega)

theorem inv_setReg (h : VmInv a B s) (hpc : s.pc < plen) (hB : plen ≤ B) (k v : Nat) :
    VmInv a B { s with pc := s.pc + 1, regs := s.regs.set k v } := by
  obtain ⟨h1, h2, h3, h4, h5, h6, h7, h8⟩ := h
  constructor <;> first | assumption | (show s.pc + 1 ≤ B; omega) | (simp only [List.length_set]; assumption)

theorem exec_nop (h : VmInv a B s) (hpc : s.pc < plen) (hB : plen ≤ B) :
    ∃ s', Isa.exec a plen "nop" body s = some s' ∧ VmInv a B s' :=
  ⟨_, by simp [Isa.exec, Isa.pipeOps], inv_next h hpc hB⟩

theorem exec_rset (h : VmInv a B s) (hpc : s.pc < plen) (hB : plen ≤ B) (hstd : Isa.stdSize a.rsize = true) :
    ∃ s', Isa.exec a plen "rset" body s = some s' ∧ VmInv a B s' := by
  have h64 : a.rsize ≤ 64 := by
    simp only [Isa.stdSize, Bool.or_eq_true, beq_iff_eq] at hstd; omega
  exact ⟨_, by simp [Isa.exec, Isa.pipeOps, h64] <;> rfl, inv_setReg h hpc hB _ _⟩

theorem exec_unop (op : String) (hop : op = "inc" ∨ op = "dec" ∨ op = "clr")
    (h : VmInv a B s) (hpc : s.pc < plen) (hB : plen ≤ B) (hstd : Isa.stdSize a.rsize = true) :
    ∃ s', Isa.exec a plen op body s = some s' ∧ VmInv a B s' := by
  have hk : Isa.field body 0 a.r < s.regs.length := by rw [h.regs]; exact field_lt _ _ _
  have hget : s.regs[Isa.field body 0 a.r]? = some (s.regs[Isa.field body 0 a.r]) := List.getElem?_eq_getElem hk
  rcases hop with rfl | rfl | rfl <;>
    exact ⟨_, by simp [Isa.exec, Isa.pipeOps, hget, Isa.unop, hstd] <;> rfl, inv_setReg h hpc hB _ _⟩

theorem exec_binop (op : String) (hop : op = "add" ∨ op = "cpy" ∨ op = "mult")
    (h : VmInv a B s) (hpc : s.pc < plen) (hB : plen ≤ B) (hstd : Isa.stdSize a.rsize = true) :
    ∃ s', Isa.exec a plen op body s = some s' ∧ VmInv a B s' := by
  have hd : Isa.field body 0 a.r < s.regs.length := by rw [h.regs]; exact field_lt _ _ _
  have hs : Isa.field body a.r a.r < s.regs.length := by rw [h.regs]; exact field_lt _ _ _
  have hgd : s.regs[Isa.field body 0 a.r]? = some (s.regs[Isa.field body 0 a.r]) := List.getElem?_eq_getElem hd
  have hgs : s.regs[Isa.field body a.r a.r]? = some (s.regs[Isa.field body a.r a.r]) := List.getElem?_eq_getElem hs
  rcases hop with rfl | rfl | rfl <;>
    exact ⟨_, by simp [Isa.exec, Isa.pipeOps, hgd, hgs, Isa.binop, hstd] <;> rfl, inv_setReg h hpc hB _ _⟩

theorem exec_j (h : VmInv a B s) (hpc : s.pc < plen) (hB : plen ≤ B) :
    ∃ s', Isa.exec a plen "j" body s = some s' ∧ VmInv a B s' := by
  by_cases hv : Isa.field body 0 a.o < plen
  · refine ⟨{ s with pc := Isa.field body 0 a.o }, by simp [Isa.exec, Isa.pipeOps, hv], ?_⟩
    obtain ⟨h1, h2, h3, h4, h5, h6, h7, h8⟩ := h
    constructor <;> first | assumption | (show Isa.field body 0 a.o ≤ B; omega)
  · exact ⟨_, by simp [Isa.exec, Isa.pipeOps, hv], inv_next h hpc hB⟩

theorem exec_jz (h : VmInv a B s) (hpc : s.pc < plen) (hB : plen ≤ B) (hstd : Isa.stdSize a.rsize = true)
    (hv : Isa.field body a.r a.o ≤ B) :
    ∃ s', Isa.exec a plen "jz" body s = some s' ∧ VmInv a B s' := by
  have hk : Isa.field body 0 a.r < s.regs.length := by rw [h.regs]; exact field_lt _ _ _
  have hget : s.regs[Isa.field body 0 a.r]? = some (s.regs[Isa.field body 0 a.r]) := List.getElem?_eq_getElem hk
  by_cases hz : s.regs[Isa.field body 0 a.r] = 0
  · refine ⟨{ s with pc := Isa.field body a.r a.o }, by simp [Isa.exec, Isa.pipeOps, hget, hstd, hz], ?_⟩
    obtain ⟨h1, h2, h3, h4, h5, h6, h7, h8⟩ := h
    constructor <;> first | assumption | exact hv
  · exact ⟨_, by simp [Isa.exec, Isa.pipeOps, hget, hstd, hz], inv_next h hpc hB⟩

theorem exec_i2r (h : VmInv a B s) (hpc : s.pc < plen) (hB : plen ≤ B) (hi : Isa.field body a.r a.inBits < a.n) :
    ∃ s', Isa.exec a plen "i2r" body s = some s' ∧ VmInv a B s' := by
  have hk : Isa.field body 0 a.r < s.regs.length := by rw [h.regs]; exact field_lt _ _ _
  have hi' : Isa.field body a.r a.inBits < s.inputs.length := by rw [h.inputs]; exact hi
  have hget : s.inputs[Isa.field body a.r a.inBits]? = some (s.inputs[Isa.field body a.r a.inBits]) := List.getElem?_eq_getElem hi'
  exact ⟨_, by simp [Isa.exec, Isa.pipeOps, hget, hk] <;> rfl, inv_setReg h hpc hB _ _⟩

theorem exec_r2o (h : VmInv a B s) (hpc : s.pc < plen) (hB : plen ≤ B) (ho : Isa.field body a.r a.outBits < a.m) :
    ∃ s', Isa.exec a plen "r2o" body s = some s' ∧ VmInv a B s' := by
  have hk : Isa.field body 0 a.r < s.regs.length := by rw [h.regs]; exact field_lt _ _ _
  have ho' : Isa.field body a.r a.outBits < s.outputs.length := by rw [h.outputs]; exact ho
  have hget : s.regs[Isa.field body 0 a.r]? = some (s.regs[Isa.field body 0 a.r]) := List.getElem?_eq_getElem hk
  refine ⟨_, by simp [Isa.exec, Isa.pipeOps, hget, ho'] <;> rfl, ?_⟩
  obtain ⟨h1, h2, h3, h4, h5, h6, h7, h8⟩ := h
  constructor <;> first | assumption | (show s.pc + 1 ≤ B; omega) | (simp only [List.length_set]; assumption)

theorem exec_i2rw (h : VmInv a B s) (hpc : s.pc < plen) (hB : plen ≤ B) (hi : Isa.field body a.r a.inBits < a.n) :
    ∃ s', Isa.exec a plen "i2rw" body s = some s' ∧ VmInv a B s' := by
  have hk : Isa.field body 0 a.r < s.regs.length := by rw [h.regs]; exact field_lt _ _ _
  have hi1 : Isa.field body a.r a.inBits < s.inputs.length := by rw [h.inputs]; exact hi
  have hi2 : Isa.field body a.r a.inBits < s.inValid.length := by rw [h.inValid]; exact hi
  have hg1 : s.inputs[Isa.field body a.r a.inBits]? = some (s.inputs[Isa.field body a.r a.inBits]) := List.getElem?_eq_getElem hi1
  have hg2 : s.inValid[Isa.field body a.r a.inBits]? = some (s.inValid[Isa.field body a.r a.inBits]) := List.getElem?_eq_getElem hi2
  obtain ⟨h1, h2, h3, h4, h5, h6, h7, h8⟩ := h
  cases hv : s.inValid[Isa.field body a.r a.inBits] with
  | true =>
    by_cases hw : s.inRecv[Isa.field body a.r a.inBits]? = some true
    · refine ⟨s, by simp [Isa.exec, Isa.pipeOps, hg1, hg2, hv, hw], ?_⟩
      constructor <;> assumption
    · refine ⟨_, by simp [Isa.exec, Isa.pipeOps, hg1, hg2, hv, hk, hw] <;> rfl, ?_⟩
      constructor <;> first | assumption | (show s.pc + 1 ≤ B; omega) | (simp only [List.length_set]; assumption)
  | false =>
    refine ⟨_, by simp [Isa.exec, Isa.pipeOps, hg1, hg2, hv] <;> rfl, ?_⟩
    constructor <;> first | assumption | (show s.pc ≤ B; omega) | (simp only [List.length_set]; assumption)

theorem exec_r2owa (h : VmInv a B s) (hpc : s.pc < plen) (hB : plen ≤ B) (ho : Isa.field body a.r a.outBits < a.m) :
    ∃ s', Isa.exec a plen "r2owa" body s = some s' ∧ VmInv a B s' := by
  have hk : Isa.field body 0 a.r < s.regs.length := by rw [h.regs]; exact field_lt _ _ _
  have ho1 : Isa.field body a.r a.outBits < s.outputs.length := by rw [h.outputs]; exact ho
  have ho2 : Isa.field body a.r a.outBits < s.outRecv.length := by rw [h.outRecv]; exact ho
  have hg1 : s.regs[Isa.field body 0 a.r]? = some (s.regs[Isa.field body 0 a.r]) := List.getElem?_eq_getElem hk
  have hg2 : s.outRecv[Isa.field body a.r a.outBits]? = some (s.outRecv[Isa.field body a.r a.outBits]) := List.getElem?_eq_getElem ho2
  obtain ⟨h1, h2, h3, h4, h5, h6, h7, h8⟩ := h
  by_cases hw : s.outValid[Isa.field body a.r a.outBits]? = some false ∧ s.outRecv[Isa.field body a.r a.outBits] = true
  · refine ⟨s, by simp [Isa.exec, Isa.pipeOps, hg1, hg2, hw], ?_⟩
    constructor <;> assumption
  · cases hv : s.outRecv[Isa.field body a.r a.outBits] with
    | true =>
      refine ⟨_, by simp [Isa.exec, Isa.pipeOps, hg1, hg2, hv, ho1] <;> (simp [hv] at hw; simp [hw]) <;> rfl, ?_⟩
      constructor <;> first | assumption | (show s.pc + 1 ≤ B; omega) | (simp only [List.length_set]; assumption)
    | false =>
      refine ⟨_, by simp [Isa.exec, Isa.pipeOps, hg1, hg2, hv, ho1] <;> rfl, ?_⟩
      constructor <;> first | assumption | (show s.pc ≤ B; omega) | (simp only [List.length_set]; assumption)

end exec

/-- what `wordOk` gives for a word whose opcode is one of the safe ones.  `B` is the bound kept on
    the program counter: the program length when jump targets are known to be closed (`hjz`), the
    ROM size otherwise. -/
theorem exec_safe {a : Arch} {plen B : Nat} {w : Bits} {s : VmState} {op : String}
    (hstd : Isa.stdSize a.rsize = true)
    (hw : wordOk a w = true) (hop : a.ops[getId (w.take a.opBits)]? = some op) (hsafe : op ∈ safeOps)
    (hjz : op = "jz" → Isa.field (w.drop a.opBits) a.r a.o ≤ B)
    (h : VmInv a B s) (hpc : s.pc < plen) (hB : plen ≤ B) :
    ∃ s', Isa.exec a plen op (w.drop a.opBits) s = some s' ∧ VmInv a B s' := by
  unfold wordOk at hw
  simp only [Bool.and_eq_true] at hw
  obtain ⟨_, hw⟩ := hw
  unfold disasm at hw
  simp only [hop] at hw
  simp only [safeOps, List.mem_cons, List.mem_nil_iff, or_false] at hsafe
  rcases hsafe with rfl | rfl | rfl | rfl | rfl | rfl | rfl | rfl | rfl | rfl | rfl | rfl | rfl | rfl
  · exact exec_nop h hpc hB
  · exact exec_rset h hpc hB hstd
  · exact exec_unop "inc" (Or.inl rfl) h hpc hB hstd
  · exact exec_unop "dec" (Or.inr (Or.inl rfl)) h hpc hB hstd
  · exact exec_unop "clr" (Or.inr (Or.inr rfl)) h hpc hB hstd
  · exact exec_binop "add" (Or.inl rfl) h hpc hB hstd
  · exact exec_binop "cpy" (Or.inr (Or.inl rfl)) h hpc hB hstd
  · exact exec_binop "mult" (Or.inr (Or.inr rfl)) h hpc hB hstd
  · exact exec_j h hpc hB
  · exact exec_jz h hpc hB hstd (hjz rfl)
  · have hl : layout "i2r" = some [.reg, .inp] := by decide
    simp only [hl, dec_ri, operandsOk, operandOk, Bool.and_eq_true, Bool.and_true, decide_eq_true_eq] at hw
    exact exec_i2r h hpc hB hw.1.2.2
  · have hl : layout "i2rw" = some [.reg, .inp] := by decide
    simp only [hl, dec_ri, operandsOk, operandOk, Bool.and_eq_true, Bool.and_true, decide_eq_true_eq] at hw
    exact exec_i2rw h hpc hB hw.1.2.2
  · have hl : layout "r2o" = some [.reg, .out] := by decide
    simp only [hl, dec_ro, operandsOk, operandOk, Bool.and_eq_true, Bool.and_true, decide_eq_true_eq] at hw
    exact exec_r2o h hpc hB hw.1.2.2
  · have hl : layout "r2owa" = some [.reg, .out] := by decide
    simp only [hl, dec_ro, operandsOk, operandOk, Bool.and_eq_true, Bool.and_true, decide_eq_true_eq] at hw
    exact exec_r2owa h hpc hB hw.1.2.2

/-- the jump target of a `jz` word that passed the control-flow check -/
theorem jz_target_closed {a : Arch} {plen : Nat} {w : Bits} (hmode : a.mode = .ha)
    (hcf : wordCf a plen w = true) (hop : a.ops[getId (w.take a.opBits)]? = some "jz") :
    Isa.field (w.drop a.opBits) a.r a.o ≤ plen := by
  unfold wordCf disasm at hcf
  simp only [hop] at hcf
  have hl : layout "jz" = some [.reg, .rom] := by decide
  have hj : isJump "jz" = true := by decide
  simp only [hl, dec_ra, targetsOk, targetOk, hj, hmode, Bool.and_eq_true, Bool.and_true, Bool.true_and,
    beq_self_eq_true, Bool.not_true, Bool.false_or, decide_eq_true_eq] at hcf
  exact hcf

/-- one step of a validated processor.  `B` as in `exec_safe`. -/
theorem step_safe_gen {a : Arch} {prog : List Bits} {s : VmState} {B : Nat}
    (hstd : Isa.stdSize a.rsize = true)
    (hops : ∀ op ∈ a.ops, op ∈ safeOps)
    (hprog : prog.all (wordOk a) = true)
    (hjz : ∀ w ∈ prog, a.ops[getId (w.take a.opBits)]? = some "jz" → Isa.field (w.drop a.opBits) a.r a.o ≤ B)
    (hB : prog.length ≤ B) (hpc : s.pc ≤ prog.length)
    (h : VmInv a B s) :
    ∃ s', Isa.step a prog s = some s' ∧ VmInv a B s' := by
  unfold Isa.step
  have hpc' : ¬ s.pc > prog.length := by omega
  simp only [hpc', if_false]
  have h1 := inv_runDeferred h
  cases hw : prog[(Isa.runDeferred s).pc]? with
  | none => exact ⟨_, rfl, h1⟩
  | some w =>
    simp only
    have hlt : (Isa.runDeferred s).pc < prog.length := by
      rcases List.getElem?_eq_some_iff.mp hw with ⟨hlt, _⟩; exact hlt
    have hmem : w ∈ prog := List.mem_of_getElem? hw
    have hwok : wordOk a w = true := List.all_eq_true.mp hprog w hmem
    have hdec : ∃ op, a.ops[getId (w.take a.opBits)]? = some op := by
      unfold wordOk at hwok
      simp only [Bool.and_eq_true] at hwok
      obtain ⟨_, hd⟩ := hwok
      unfold disasm at hd
      cases hg : a.ops[getId (w.take a.opBits)]? with
      | none => simp [hg] at hd
      | some op => exact ⟨op, rfl⟩
    obtain ⟨op, hop⟩ := hdec
    simp only [hop]
    exact exec_safe hstd hwok hop (hops op (List.mem_of_getElem? hop))
      (fun e => hjz w hmem (e ▸ hop)) h1 hlt hB

end BMV.WfBM
