/-
  Liveness of the handshake transition systems of BMV.Hs (C04): under every FAIR infinite schedule
  (the producer and every consumer reach their IO instruction on the bond again and again — how
  long they stay away, and in which order they come back, is arbitrary) every value is eventually
  transferred.  Simulator world and hardware world.

  Shape of the argument (both worlds): fix a time t0 and suppose, for contradiction, that the
  number of completed writes stays what it is for ever.  Then (a) the producer's offer (valid, resp.
  waitsm ∧ oK_val) is eventually raised and (b) once raised stays raised; (c) under a standing
  offer a consumer's recv is monotone and is raised the next time the consumer is at its IO
  instruction; (d) so at some time all recv lines are up (finite maximum over the consumers), and
  (e) in the next tick the write completes.
-/
import BMV.Proofs.Hs
namespace BMV.Hs

/-- fairness of an infinite schedule for a bond with k consumers -/
def Fair (k : Nat) (σ : Nat → Sched) : Prop :=
  (∀ t, ∃ t', t ≤ t' ∧ (σ t').p = true) ∧
  (∀ i, i < k → ∀ t, ∃ t', t ≤ t' ∧ (σ t').c[i]? = some true)

theorem finite_max {k : Nat} {P : Nat → Nat → Prop}
    (h : ∀ i, i < k → ∃ T, ∀ t, T ≤ t → P i t) : ∃ T, ∀ i, i < k → ∀ t, T ≤ t → P i t := by
  induction k with
  | zero => exact ⟨0, fun i hi => absurd hi (Nat.not_lt_zero _)⟩
  | succ k ih =>
    obtain ⟨T1, h1⟩ := ih (fun i hi => h i (Nat.lt_succ_of_lt hi))
    obtain ⟨T2, h2⟩ := h k (Nat.lt_succ_self k)
    refine ⟨max T1 T2, fun i hi t ht => ?_⟩
    rcases Nat.lt_succ_iff_lt_or_eq.mp hi with hlt | rfl
    · exact h1 i hlt t (by omega)
    · exact h2 t (by omega)

/-- the `want` bit the step function hands to consumer i -/
def wantOf (sch : Sched) (n i : Nat) : Bool := ((sch.c ++ List.replicate n false)[i]?).getD false

theorem wantOf_of_some {sch : Sched} {n i : Nat} (h : sch.c[i]? = some true) : wantOf sch n i = true := by
  unfold wantOf
  have hi : i < sch.c.length := by
    rcases Nat.lt_or_ge i sch.c.length with h' | h'
    · exact h'
    · rw [List.getElem?_eq_none h'] at h; cases h
  rw [List.getElem?_append_left hi, h]; rfl

end BMV.Hs

namespace BMV.Hs.Isa

/-- run along an infinite schedule -/
def runF (σ : Nat → Sched) (s : St) : Nat → St
  | 0 => s
  | t + 1 => step (runF σ s t) (σ t)

theorem runF_inv (σ : Nat → Sched) (s : St) (h : Inv s) : ∀ t, Inv (runF σ s t)
  | 0 => h
  | t + 1 => inv_step _ _ (runF_inv σ s h t)

theorem runF_eq_run (σ : Nat → Sched) (s : St) (t : Nat) :
    runF σ s t = run s ((List.range t).map σ) := by
  induction t with
  | zero => rfl
  | succ t ih => simp [runF, ih, run, List.range_succ, List.foldl_append]

theorem cs'_get (cs : List Cons) (ws : List Bool) (V : Bool) (d : Nat) (i : Nat) (hi : i < cs.length) :
    ((cs.zip (ws ++ List.replicate cs.length false)).map (fun (c, w) => cstep V d w c))[i]? =
      some (cstep V d (((ws ++ List.replicate cs.length false)[i]?).getD false) cs[i]) := by
  have hl : i < (ws ++ List.replicate cs.length false).length := by simp; omega
  simp [hi, List.getElem?_eq_getElem hl]

theorem step_cs (s : St) (sch : Sched) :
    (step s sch).cs = (s.cs.zip (sch.c ++ List.replicate s.cs.length false)).map
      (fun (c, w) => cstep s.valid s.data w c) := by
  unfold step
  dsimp only
  split
  · split
    · rfl
    · split <;> rfl
  · rfl

theorem step_cs_length (s : St) (sch : Sched) : (step s sch).cs.length = s.cs.length := by
  rw [step_cs]; simp

theorem step_cs_get (s : St) (sch : Sched) (i : Nat) (hi : i < s.cs.length) :
    (step s sch).cs[i]? = some (cstep s.valid s.data (wantOf sch s.cs.length i) s.cs[i]) := by
  rw [step_cs, cs'_get _ _ _ _ _ hi]; rfl

theorem step_next (s : St) (sch : Sched) :
    (step s sch).next =
      if ((s.atIO || sch.p) && s.valid && (!s.cs.isEmpty && s.cs.all (·.recv))) = true then s.next + 1 else s.next := by
  unfold step
  dsimp only
  cases hv : s.valid <;> cases ha : (s.atIO || sch.p) <;> cases hr : (!s.cs.isEmpty && s.cs.all (·.recv)) <;> simp

theorem step_valid (s : St) (sch : Sched) :
    (step s sch).valid =
      if (s.atIO || sch.p) = true then
        (if (!s.cs.isEmpty && s.cs.all (·.recv)) = true then false else true)
      else s.valid := by
  unfold step
  dsimp only
  cases hv : s.valid <;> cases ha : (s.atIO || sch.p) <;> cases hr : (!s.cs.isEmpty && s.cs.all (·.recv)) <;> simp

theorem step_next_mono (s : St) (sch : Sched) : s.next ≤ (step s sch).next := by
  rw [step_next]; split <;> omega

theorem runF_next_mono (σ : Nat → Sched) (s : St) {a b : Nat} (h : a ≤ b) :
    (runF σ s a).next ≤ (runF σ s b).next := by
  induction b with
  | zero => have : a = 0 := by omega
            subst this; exact Nat.le_refl _
  | succ b ih =>
    rcases Nat.lt_or_ge a (b + 1) with h' | h'
    · exact Nat.le_trans (ih (by omega)) (step_next_mono _ _)
    · have : a = b + 1 := by omega
      subst this; exact Nat.le_refl _

theorem runF_cs_length (σ : Nat → Sched) (s : St) (t : Nat) : (runF σ s t).cs.length = s.cs.length := by
  induction t with
  | zero => rfl
  | succ t ih => simp [runF, step_cs_length, ih]

/-- a consumer at its IO instruction under a standing valid ends the tick with recv up -/
theorem cstep_want_high (d : Nat) (c : Cons) : (cstep true d true c).recv = true := by
  unfold cstep
  cases hr : c.recv <;> cases ha : c.atIO <;> cases hd : c.deferred <;> simp_all

/-- recv is monotone under a standing valid -/
theorem cstep_recv_mono (d : Nat) (w : Bool) (c : Cons) (h : c.recv = true) : (cstep true d w c).recv = true := by
  unfold cstep
  cases ha : c.atIO <;> cases hd : c.deferred <;> cases w <;> simp_all

theorem recvIn_false_of_all_false (cs : List Cons) (h : ∀ c ∈ cs, c.recv = false) :
    (!cs.isEmpty && cs.all (·.recv)) = false := by
  cases cs with
  | nil => rfl
  | cons a t => simp [h a (List.mem_cons_self ..)]

theorem recvIn_true_of_get {cs : List Cons} (hne : 0 < cs.length)
    (h : ∀ i, i < cs.length → (cs[i]?).map (·.recv) = some true) :
    (!cs.isEmpty && cs.all (·.recv)) = true := by
  have : cs ≠ [] := by intro e; rw [e] at hne; exact Nat.lt_irrefl _ hne
  simp only [Bool.and_eq_true, Bool.not_eq_true', List.isEmpty_eq_false_iff, ne_eq, this, not_false_eq_true,
    List.all_eq_true, true_and]
  intro c hc
  obtain ⟨i, hi, rfl⟩ := List.getElem_of_mem hc
  have := h i hi
  simpa [List.getElem?_eq_getElem hi] using this

/-- **progress**: along a fair schedule, from any reachable state of a bond with at least one
    consumer, another write eventually completes -/
theorem progress (σ : Nat → Sched) (s0 : St) (h0 : Inv s0) (hk : 0 < s0.cs.length)
    (hf : Fair s0.cs.length σ) (t0 : Nat) :
    ∃ t, (runF σ s0 t0).next < (runF σ s0 t).next := by
  apply Classical.byContradiction
  intro hno
  -- the number of completed writes is frozen from t0 on
  have hfr : ∀ t, t0 ≤ t → (runF σ s0 t).next = (runF σ s0 t0).next := by
    intro t ht
    have h1 := runF_next_mono σ s0 ht
    have h2 : ¬ (runF σ s0 t0).next < (runF σ s0 t).next := fun h => hno ⟨t, h⟩
    omega
  have hI := runF_inv σ s0 h0
  have hlen := runF_cs_length σ s0
  -- no tick from t0 on completes a write
  have hnc : ∀ t, t0 ≤ t →
      (((runF σ s0 t).atIO || (σ t).p) && (runF σ s0 t).valid &&
        (!(runF σ s0 t).cs.isEmpty && (runF σ s0 t).cs.all (·.recv))) = false := by
    intro t ht
    have e1 := hfr (t + 1) (by omega)
    have e2 := hfr t ht
    have := step_next (runF σ s0 t) (σ t)
    simp only [runF] at e1
    rw [e1, e2.symm] at this
    cases hc : (((runF σ s0 t).atIO || (σ t).p) && (runF σ s0 t).valid &&
        (!(runF σ s0 t).cs.isEmpty && (runF σ s0 t).cs.all (·.recv)))
    · rfl
    · rw [hc] at this; simp at this
  -- (b) valid, once up, stays up
  have hstay : ∀ t, t0 ≤ t → (runF σ s0 t).valid = true → (runF σ s0 (t + 1)).valid = true := by
    intro t ht hv
    have hat := ((hI t).2.1 hv).1
    have := hnc t ht
    simp only [runF, step_valid, hat, Bool.true_or, if_true]
    simp only [hat, Bool.true_or, hv, Bool.true_and] at this
    simp [this]
  have hstay' : ∀ t1, t0 ≤ t1 → (runF σ s0 t1).valid = true → ∀ t, t1 ≤ t → (runF σ s0 t).valid = true := by
    intro t1 h1 hv t ht
    induction t with
    | zero => have : t1 = 0 := by omega
              subst this; exact hv
    | succ t ih =>
      rcases Nat.lt_or_ge t1 (t + 1) with h' | h'
      · exact hstay t (by omega) (ih (by omega))
      · have : t1 = t + 1 := by omega
        subst this; exact hv
  -- (a) valid is eventually raised
  have hraise : ∃ t1, t0 ≤ t1 ∧ (runF σ s0 t1).valid = true := by
    apply Classical.byContradiction
    intro hnv
    have hlow : ∀ t, t0 ≤ t → (runF σ s0 t).valid = false := by
      intro t ht
      cases hv : (runF σ s0 t).valid
      · rfl
      · exact absurd ⟨t, ht, hv⟩ hnv
    -- from t0+1 on every recv line is low
    have hrl : ∀ t, t0 + 1 ≤ t → ∀ c ∈ (runF σ s0 t).cs, c.recv = false := by
      intro t ht
      obtain ⟨u, rfl⟩ : ∃ u, t = u + 1 := ⟨t - 1, by omega⟩
      have hv := hlow u (by omega)
      simp only [runF, step_cs, hv]
      apply cs'_all
      intro c hc w
      exact (cstep_low _ w c (((hI u).2.2.1 c hc).1)).1
    obtain ⟨t2, ht2, hp⟩ := hf.1 (t0 + 1)
    have hv2 := hlow (t2 + 1) (by omega)
    have hr := recvIn_false_of_all_false _ (hrl t2 ht2)
    simp only [runF, step_valid, hp, Bool.or_true, if_true, hr] at hv2
    simp at hv2
  obtain ⟨t1, ht1, hv1⟩ := hraise
  have hval := hstay' t1 ht1 hv1
  -- (c) every consumer's recv is eventually up for good
  have hrecv : ∀ i, i < s0.cs.length → ∃ T, ∀ t, T ≤ t → ((runF σ s0 t).cs[i]?).map (·.recv) = some true := by
    intro i hi
    obtain ⟨t2, ht2, hw⟩ := hf.2 i hi t1
    refine ⟨t2 + 1, fun t ht => ?_⟩
    induction t with
    | zero => omega
    | succ t ih =>
      have hil : i < (runF σ s0 t).cs.length := by rw [hlen]; exact hi
      rcases Nat.lt_or_ge t2 t with h' | h'
      · have := ih (by omega)
        rw [List.getElem?_eq_getElem hil] at this
        simp only [Option.map_some, Option.some.injEq] at this
        simp only [runF, step_cs_get _ _ i hil, hval t (by omega), Option.map_some, Option.some.injEq]
        exact cstep_recv_mono _ _ _ this
      · have : t = t2 := by omega
        subst this
        simp only [runF, step_cs_get _ _ i hil, hval t (by omega), Option.map_some, Option.some.injEq,
          wantOf_of_some hw]
        exact cstep_want_high _ _
  obtain ⟨T, hT⟩ := finite_max hrecv
  -- (d)+(e): at time max T t1 everything is in place: the write completes, contradiction
  let t := max T t1
  have htv := hval t (by omega)
  have hat := ((hI t).2.1 htv).1
  have hall : (!(runF σ s0 t).cs.isEmpty && (runF σ s0 t).cs.all (·.recv)) = true := by
    apply recvIn_true_of_get
    · rw [hlen]; exact hk
    · intro i hi
      rw [hlen] at hi
      exact hT i hi t (by omega)
  have := hnc t (by omega)
  rw [hat, htv, hall] at this
  simp at this

end BMV.Hs.Isa

namespace BMV.Hs.Rtl

def runF (σ : Nat → Sched) (s : St) : Nat → St
  | 0 => s
  | t + 1 => step (runF σ s t) (σ t)

theorem runF_inv (σ : Nat → Sched) (s : St) (h : Inv s) : ∀ t, Inv (runF σ s t)
  | 0 => h
  | t + 1 => inv_step _ _ (runF_inv σ s h t)

theorem runF_eq_run (σ : Nat → Sched) (s : St) (t : Nat) :
    runF σ s t = run s ((List.range t).map σ) := by
  induction t with
  | zero => rfl
  | succ t ih => simp [runF, ih, run, List.range_succ, List.foldl_append]

theorem cs'_get (cs : List Cons) (ws : List Bool) (V : Bool) (d : Nat) (i : Nat) (hi : i < cs.length) :
    ((cs.zip (ws ++ List.replicate cs.length false)).map (fun (c, w) => cstep V d w c))[i]? =
      some (cstep V d (((ws ++ List.replicate cs.length false)[i]?).getD false) cs[i]) := by
  have hl : i < (ws ++ List.replicate cs.length false).length := by simp; omega
  simp [hi, List.getElem?_eq_getElem hl]

theorem step_cs (s : St) (sch : Sched) :
    (step s sch).cs = (s.cs.zip (sch.c ++ List.replicate s.cs.length false)).map
      (fun (c, w) => cstep s.oVal s.auxo w c) := by
  unfold step
  dsimp only
  split
  · split
    · rfl
    · split <;> rfl
  · rfl

theorem step_cs_length (s : St) (sch : Sched) : (step s sch).cs.length = s.cs.length := by
  rw [step_cs]; simp

theorem step_cs_get (s : St) (sch : Sched) (i : Nat) (hi : i < s.cs.length) :
    (step s sch).cs[i]? = some (cstep s.oVal s.auxo (wantOf sch s.cs.length i) s.cs[i]) := by
  rw [step_cs, cs'_get _ _ _ _ _ hi]; rfl

theorem step_next (s : St) (sch : Sched) :
    (step s sch).next =
      if ((s.atIO || sch.p) && s.waitsm && (!s.cs.isEmpty && s.cs.all (·.recv))) = true then s.next + 1 else s.next := by
  unfold step
  dsimp only
  cases hv : s.waitsm <;> cases ha : (s.atIO || sch.p) <;> cases hr : (!s.cs.isEmpty && s.cs.all (·.recv)) <;> simp

theorem step_waitsm (s : St) (sch : Sched) :
    (step s sch).waitsm =
      if (s.atIO || sch.p) = true then
        (if s.waitsm = false then !(!s.cs.isEmpty && s.cs.all (·.recv))
         else if (!s.cs.isEmpty && s.cs.all (·.recv)) = true then false else true)
      else s.waitsm := by
  unfold step
  dsimp only
  cases hv : s.waitsm <;> cases ha : (s.atIO || sch.p) <;> cases hr : (!s.cs.isEmpty && s.cs.all (·.recv)) <;> simp

theorem step_oVal (s : St) (sch : Sched) :
    (step s sch).oVal =
      if ((s.atIO || sch.p) && s.waitsm) = true then true
      else (if (!s.cs.isEmpty && s.cs.all (·.recv)) = true then false else s.oVal) := by
  unfold step
  dsimp only
  cases hv : s.waitsm <;> cases ha : (s.atIO || sch.p) <;> cases hr : (!s.cs.isEmpty && s.cs.all (·.recv)) <;> simp

theorem step_next_mono (s : St) (sch : Sched) : s.next ≤ (step s sch).next := by
  rw [step_next]; split <;> omega

theorem runF_next_mono (σ : Nat → Sched) (s : St) {a b : Nat} (h : a ≤ b) :
    (runF σ s a).next ≤ (runF σ s b).next := by
  induction b with
  | zero => have : a = 0 := by omega
            subst this; exact Nat.le_refl _
  | succ b ih =>
    rcases Nat.lt_or_ge a (b + 1) with h' | h'
    · exact Nat.le_trans (ih (by omega)) (step_next_mono _ _)
    · have : a = b + 1 := by omega
      subst this; exact Nat.le_refl _

theorem runF_cs_length (σ : Nat → Sched) (s : St) (t : Nat) : (runF σ s t).cs.length = s.cs.length := by
  induction t with
  | zero => rfl
  | succ t ih => simp [runF, step_cs_length, ih]

theorem cstep_want_high (d : Nat) (c : Cons) : (cstep true d true c).recv = true := by
  unfold cstep
  cases hr : c.recv <;> cases ha : c.atIO <;> simp_all

theorem cstep_recv_mono (d : Nat) (w : Bool) (c : Cons) (h : c.recv = true) : (cstep true d w c).recv = true := by
  unfold cstep
  cases ha : c.atIO <;> cases w <;> simp_all

theorem recvIn_false_of_all_false (cs : List Cons) (h : ∀ c ∈ cs, c.recv = false) :
    (!cs.isEmpty && cs.all (·.recv)) = false := by
  cases cs with
  | nil => rfl
  | cons a t => simp [h a (List.mem_cons_self ..)]

theorem recvIn_true_of_get {cs : List Cons} (hne : 0 < cs.length)
    (h : ∀ i, i < cs.length → (cs[i]?).map (·.recv) = some true) :
    (!cs.isEmpty && cs.all (·.recv)) = true := by
  have : cs ≠ [] := by intro e; rw [e] at hne; exact Nat.lt_irrefl _ hne
  simp only [Bool.and_eq_true, Bool.not_eq_true', List.isEmpty_eq_false_iff, ne_eq, this, not_false_eq_true,
    List.all_eq_true, true_and]
  intro c hc
  obtain ⟨i, hi, rfl⟩ := List.getElem_of_mem hc
  have := h i hi
  simpa [List.getElem?_eq_getElem hi] using this

/-- **progress** (hardware): along a fair schedule, from any reachable state of a bond with at
    least one consumer, another write eventually completes -/
theorem progress (σ : Nat → Sched) (s0 : St) (h0 : Inv s0) (hk : 0 < s0.cs.length)
    (hf : Fair s0.cs.length σ) (t0 : Nat) :
    ∃ t, (runF σ s0 t0).next < (runF σ s0 t).next := by
  apply Classical.byContradiction
  intro hno
  have hfr : ∀ t, t0 ≤ t → (runF σ s0 t).next = (runF σ s0 t0).next := by
    intro t ht
    have h1 := runF_next_mono σ s0 ht
    have h2 : ¬ (runF σ s0 t0).next < (runF σ s0 t).next := fun h => hno ⟨t, h⟩
    omega
  have hI := runF_inv σ s0 h0
  have hlen := runF_cs_length σ s0
  have hnc : ∀ t, t0 ≤ t →
      (((runF σ s0 t).atIO || (σ t).p) && (runF σ s0 t).waitsm &&
        (!(runF σ s0 t).cs.isEmpty && (runF σ s0 t).cs.all (·.recv))) = false := by
    intro t ht
    have e1 := hfr (t + 1) (by omega)
    have e2 := hfr t ht
    have := step_next (runF σ s0 t) (σ t)
    simp only [runF] at e1
    rw [e1, e2.symm] at this
    cases hc : (((runF σ s0 t).atIO || (σ t).p) && (runF σ s0 t).waitsm &&
        (!(runF σ s0 t).cs.isEmpty && (runF σ s0 t).cs.all (·.recv)))
    · rfl
    · rw [hc] at this; simp at this
  -- (b) a standing offer stays
  have hstay : ∀ t, t0 ≤ t → (runF σ s0 t).waitsm = true → (runF σ s0 t).oVal = true →
      (runF σ s0 (t + 1)).waitsm = true ∧ (runF σ s0 (t + 1)).oVal = true := by
    intro t ht hw _
    have hat := (hI t).2.1 hw
    have := hnc t ht
    simp only [hat, Bool.true_or, hw, Bool.true_and] at this
    simp only [runF, step_waitsm, step_oVal, hat, Bool.true_or, if_true, hw, this]
    simp
  -- a raised waitsm with oVal low becomes an offer in the next clock
  have hTF : ∀ t, t0 ≤ t → (runF σ s0 t).waitsm = true → (runF σ s0 t).oVal = false →
      (runF σ s0 (t + 1)).waitsm = true ∧ (runF σ s0 (t + 1)).oVal = true := by
    intro t _ hw ho
    have hat := (hI t).2.1 hw
    have hr := recvIn_false_of_all_false _ ((hI t).2.2.2.2.1 hw ho)
    simp only [runF, step_waitsm, step_oVal, hat, Bool.true_or, if_true, hw, hr]
    simp
  have hstay' : ∀ t1, t0 ≤ t1 → (runF σ s0 t1).waitsm = true → (runF σ s0 t1).oVal = true →
      ∀ t, t1 ≤ t → (runF σ s0 t).waitsm = true ∧ (runF σ s0 t).oVal = true := by
    intro t1 h1 hw ho t ht
    induction t with
    | zero => have : t1 = 0 := by omega
              subst this; exact ⟨hw, ho⟩
    | succ t ih =>
      rcases Nat.lt_or_ge t1 (t + 1) with h' | h'
      · have := ih (by omega)
        exact hstay t (by omega) this.1 this.2
      · have : t1 = t + 1 := by omega
        subst this; exact ⟨hw, ho⟩
  -- (a) the offer is eventually raised
  have hraise : ∃ t1, t0 ≤ t1 ∧ (runF σ s0 t1).waitsm = true ∧ (runF σ s0 t1).oVal = true := by
    apply Classical.byContradiction
    intro hnv
    -- waitsm is never up from t0 on
    have hwl : ∀ t, t0 ≤ t → (runF σ s0 t).waitsm = false := by
      intro t ht
      cases hw : (runF σ s0 t).waitsm
      · rfl
      · cases ho : (runF σ s0 t).oVal
        · exact absurd ⟨t + 1, by omega, hTF t ht hw ho⟩ hnv
        · exact absurd ⟨t, ht, hw, ho⟩ hnv
    -- so oVal is low from t0+1 on
    have hol : ∀ t, t0 + 1 ≤ t → (runF σ s0 t).oVal = false := by
      intro t ht
      obtain ⟨u, rfl⟩ : ∃ u, t = u + 1 := ⟨t - 1, by omega⟩
      have hw := hwl u (by omega)
      simp only [runF, step_oVal, hw, Bool.and_false, Bool.false_eq_true, if_false]
      cases ho : (runF σ s0 u).oVal
      · simp
      · have := ((hI u).2.2.2.2.2.1 hw ho)
        have hr : (!(runF σ s0 u).cs.isEmpty && (runF σ s0 u).cs.all (·.recv)) = true := by
          rw [received_iff]; exact this
        simp [hr]
    -- and every recv line is low from t0+2 on
    have hrl : ∀ t, t0 + 2 ≤ t → ∀ c ∈ (runF σ s0 t).cs, c.recv = false := by
      intro t ht
      obtain ⟨u, rfl⟩ : ∃ u, t = u + 1 := ⟨t - 1, by omega⟩
      have hv := hol u (by omega)
      simp only [runF, step_cs, hv]
      apply cs'_all
      intro c _ w
      exact (cstep_low _ w c).1
    obtain ⟨t2, ht2, hp⟩ := hf.1 (t0 + 2)
    have hw2 := hwl (t2 + 1) (by omega)
    have hr := recvIn_false_of_all_false _ (hrl t2 ht2)
    simp only [runF, step_waitsm, hp, Bool.or_true, if_true, hwl t2 (by omega), hr] at hw2
    simp at hw2
  obtain ⟨t1, ht1, hw1, ho1⟩ := hraise
  have hoff := hstay' t1 ht1 hw1 ho1
  have hrecv : ∀ i, i < s0.cs.length → ∃ T, ∀ t, T ≤ t → ((runF σ s0 t).cs[i]?).map (·.recv) = some true := by
    intro i hi
    obtain ⟨t2, ht2, hw⟩ := hf.2 i hi t1
    refine ⟨t2 + 1, fun t ht => ?_⟩
    induction t with
    | zero => omega
    | succ t ih =>
      have hil : i < (runF σ s0 t).cs.length := by rw [hlen]; exact hi
      rcases Nat.lt_or_ge t2 t with h' | h'
      · have := ih (by omega)
        rw [List.getElem?_eq_getElem hil] at this
        simp only [Option.map_some, Option.some.injEq] at this
        simp only [runF, step_cs_get _ _ i hil, (hoff t (by omega)).2, Option.map_some, Option.some.injEq]
        exact cstep_recv_mono _ _ _ this
      · have : t = t2 := by omega
        subst this
        simp only [runF, step_cs_get _ _ i hil, (hoff t (by omega)).2, Option.map_some, Option.some.injEq,
          wantOf_of_some hw]
        exact cstep_want_high _ _
  obtain ⟨T, hT⟩ := finite_max hrecv
  let t := max T t1
  have htw := (hoff t (by omega)).1
  have hat := (hI t).2.1 htw
  have hall : (!(runF σ s0 t).cs.isEmpty && (runF σ s0 t).cs.all (·.recv)) = true := by
    apply recvIn_true_of_get
    · rw [hlen]; exact hk
    · intro i hi
      rw [hlen] at hi
      exact hT i hi t (by omega)
  have := hnc t (by omega)
  rw [hat, htw, hall] at this
  simp at this

end BMV.Hs.Rtl
