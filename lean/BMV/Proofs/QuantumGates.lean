/-
  BMV.Proofs.QuantumGates — the supported gate set as exact matrices over ℂ (Mathlib's complex
  numbers; `Real.sqrt`, `Real.cos`, `Real.sin`), and the proof that each of them is unitary.
  These are the textbook closed forms that lean/Oracle/C14.lean evaluates in Float (and that the tie
  compares numerically with bmmatrix's tables); in the bmqsim dialect `p` is the fixed phase gate S
  and `r θ` the phase shift.  Parametric gates are proved unitary from the algebraic hypothesis
  c² + s² = 1 on their two real parameters and then instantiated with cos / sin.
-/
import BMV.Proofs.QuantumUnitary
import Mathlib.Analysis.SpecialFunctions.Trigonometric.Basic
import Mathlib.Analysis.Real.Sqrt

namespace BMV.Quantum
open MulOps Ops Complex

noncomputable instance instOpsComplex : Ops ℂ := { zero := 0, one := 1, mul := (· * ·), add := (· + ·) }
instance instLawfulComplex : Lawful ℂ :=
  ⟨add_assoc, add_comm, zero_add, mul_assoc, mul_comm, one_mul, zero_mul, mul_add⟩

@[simp] theorem cmul (a b : ℂ) : MulOps.mul a b = a * b := rfl
@[simp] theorem cadd (a b : ℂ) : Ops.add a b = a + b := rfl
@[simp] theorem czero : (MulOps.zero : ℂ) = 0 := rfl
@[simp] theorem cone : (MulOps.one : ℂ) = 1 := rfl

/-- complex conjugation is a `ConjHom` -/
theorem conjHomComplex : ConjHom (starRingEnd ℂ) :=
  ⟨fun a b => map_mul _ a b, fun a b => map_add _ a b, map_one _, map_zero _⟩

noncomputable def ofRows (rows : List (List ℂ)) : Mat ℂ := fun i j => (rows.getD i []).getD j 0

theorem unitary2 (a b c d : ℂ)
    (h00 : a * (starRingEnd ℂ) a + b * (starRingEnd ℂ) b = 1)
    (h01 : a * (starRingEnd ℂ) c + b * (starRingEnd ℂ) d = 0)
    (h10 : c * (starRingEnd ℂ) a + d * (starRingEnd ℂ) b = 0)
    (h11 : c * (starRingEnd ℂ) c + d * (starRingEnd ℂ) d = 1) :
    IsUnitary 2 (starRingEnd ℂ) (ofRows [[a, b], [c, d]]) := by
  intro i j hi hj
  have hi' : i = 0 ∨ i = 1 := by omega
  have hj' : j = 0 ∨ j = 1 := by omega
  rcases hi' with rfl | rfl <;> rcases hj' with rfl | rfl <;>
    simp [mmul, sumN, dagger, idMat, ofRows, h00, h01, h10, h11]

/-! ### parametric shapes (real parameters) -/
noncomputable def hM (h : ℝ) : Mat ℂ := ofRows [[h, h], [h, -(h : ℂ)]]
noncomputable def rxM (c s : ℝ) : Mat ℂ := ofRows [[c, -(s : ℂ) * I], [-(s : ℂ) * I, c]]
noncomputable def ryM (c s : ℝ) : Mat ℂ := ofRows [[c, -(s : ℂ)], [s, c]]
noncomputable def rzM (c s : ℝ) : Mat ℂ := ofRows [[(c : ℂ) - s * I, 0], [0, (c : ℂ) + s * I]]
noncomputable def phM (c s : ℝ) : Mat ℂ := ofRows [[1, 0], [0, (c : ℂ) + s * I]]

theorem hM_unitary (h : ℝ) (hh : 2 * h ^ 2 = 1) : IsUnitary 2 (starRingEnd ℂ) (hM h) := by
  apply unitary2 <;> simp [Complex.ext_iff] <;> (try constructor) <;> nlinarith [hh]
theorem rxM_unitary (c s : ℝ) (h : c ^ 2 + s ^ 2 = 1) : IsUnitary 2 (starRingEnd ℂ) (rxM c s) := by
  apply unitary2 <;> simp [Complex.ext_iff] <;> (try constructor) <;> nlinarith [h]
theorem ryM_unitary (c s : ℝ) (h : c ^ 2 + s ^ 2 = 1) : IsUnitary 2 (starRingEnd ℂ) (ryM c s) := by
  apply unitary2 <;> simp [Complex.ext_iff] <;> (try constructor) <;> nlinarith [h]
theorem rzM_unitary (c s : ℝ) (h : c ^ 2 + s ^ 2 = 1) : IsUnitary 2 (starRingEnd ℂ) (rzM c s) := by
  apply unitary2 <;> simp [Complex.ext_iff] <;> (try constructor) <;> nlinarith [h]
theorem phM_unitary (c s : ℝ) (h : c ^ 2 + s ^ 2 = 1) : IsUnitary 2 (starRingEnd ℂ) (phM c s) := by
  apply unitary2 <;> simp [Complex.ext_iff] <;> (try constructor) <;> nlinarith [h]

theorem inv_sqrt_two : 2 * ((Real.sqrt 2)⁻¹) ^ 2 = 1 := by
  have h2 : Real.sqrt 2 * Real.sqrt 2 = 2 := Real.mul_self_sqrt (by norm_num)
  have hne : Real.sqrt 2 ≠ 0 := by
    intro h; rw [h] at h2; norm_num at h2
  field_simp
  nlinarith [h2]

/-! ### the supported gate set -/
inductive Kind
  | h | x | y | z | s | t | sx | p
  | rx (θ : ℝ) | ry (θ : ℝ) | rz (θ : ℝ) | r (θ : ℝ)
  | cx | cz | swap | iswap | dcnot

def Kind.arity : Kind → Nat
  | .cx | .cz | .swap | .iswap | .dcnot => 2
  | _ => 1

noncomputable def Kind.mat : Kind → Mat ℂ
  | .h => hM (Real.sqrt 2)⁻¹
  | .x => ofRows [[0, 1], [1, 0]]
  | .y => ofRows [[0, -I], [I, 0]]
  | .z => ofRows [[1, 0], [0, -1]]
  | .s => ofRows [[1, 0], [0, I]]
  | .p => ofRows [[1, 0], [0, I]]
  | .t => phM (Real.cos (Real.pi / 4)) (Real.sin (Real.pi / 4))
  | .sx => ofRows [[⟨1 / 2, 1 / 2⟩, ⟨1 / 2, -(1 / 2)⟩], [⟨1 / 2, -(1 / 2)⟩, ⟨1 / 2, 1 / 2⟩]]
  | .rx θ => rxM (Real.cos (θ / 2)) (Real.sin (θ / 2))
  | .ry θ => ryM (Real.cos (θ / 2)) (Real.sin (θ / 2))
  | .rz θ => rzM (Real.cos (θ / 2)) (Real.sin (θ / 2))
  | .r θ => phM (Real.cos θ) (Real.sin θ)
  | .cx => ofRows [[1, 0, 0, 0], [0, 1, 0, 0], [0, 0, 0, 1], [0, 0, 1, 0]]
  | .cz => ofRows [[1, 0, 0, 0], [0, 1, 0, 0], [0, 0, 1, 0], [0, 0, 0, -1]]
  | .swap => ofRows [[1, 0, 0, 0], [0, 0, 1, 0], [0, 1, 0, 0], [0, 0, 0, 1]]
  | .iswap => ofRows [[1, 0, 0, 0], [0, 0, I, 0], [0, I, 0, 0], [0, 0, 0, 1]]
  | .dcnot => ofRows [[1, 0, 0, 0], [0, 0, 1, 0], [0, 0, 0, 1], [0, 1, 0, 0]]

/-- a gate of kind `k` applied to the qubits `args` -/
noncomputable def Kind.gate (k : Kind) (args : List Nat) : Gate ℂ := ⟨k.mat, args⟩

macro "unitary4" : tactic => `(tactic| (
  intro i j hi hj
  have hi' : i = 0 ∨ i = 1 ∨ i = 2 ∨ i = 3 := by omega
  have hj' : j = 0 ∨ j = 1 ∨ j = 2 ∨ j = 3 := by omega
  rcases hi' with h | h | h | h <;> rcases hj' with h' | h' | h' | h' <;> subst h <;> subst h' <;>
    simp [mmul, sumN, dagger, idMat, ofRows, Kind.mat]))

/-- **every gate of the supported set is unitary** (exactly, over ℂ; every angle) -/
theorem kind_unitary (k : Kind) : IsUnitary (2 ^ k.arity) (starRingEnd ℂ) k.mat := by
  cases k with
  | h => exact hM_unitary _ inv_sqrt_two
  | x => exact unitary2 _ _ _ _ (by simp) (by simp) (by simp) (by simp)
  | y => exact unitary2 _ _ _ _ (by simp) (by simp) (by simp) (by simp)
  | z => exact unitary2 _ _ _ _ (by simp) (by simp) (by simp) (by simp)
  | s => exact unitary2 _ _ _ _ (by simp) (by simp) (by simp) (by simp)
  | p => exact unitary2 _ _ _ _ (by simp) (by simp) (by simp) (by simp)
  | t => exact phM_unitary _ _ (Real.cos_sq_add_sin_sq _)
  | sx =>
    apply unitary2 <;> simp [Complex.ext_iff] <;> norm_num
  | rx θ => exact rxM_unitary _ _ (Real.cos_sq_add_sin_sq _)
  | ry θ => exact ryM_unitary _ _ (Real.cos_sq_add_sin_sq _)
  | rz θ => exact rzM_unitary _ _ (Real.cos_sq_add_sin_sq _)
  | r θ => exact phM_unitary _ _ (Real.cos_sq_add_sin_sq _)
  | cx => show IsUnitary 4 _ _; unitary4
  | cz => show IsUnitary 4 _ _; unitary4
  | swap => show IsUnitary 4 _ _; unitary4
  | iswap => show IsUnitary 4 _ _; unitary4
  | dcnot => show IsUnitary 4 _ _; unitary4

end BMV.Quantum
