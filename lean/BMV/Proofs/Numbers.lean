/-
  Lemmas about BMV.Numbers: digit strings (`ofDigits_digits`, length bounds), byte lists
  (`valOf_toBytesLE`, `toBytesLE_valOf`), classification of exported texts, and the per-type round
  trips used by BMV/Props/C08.lean.
-/
import BMV.Numbers

namespace BMV.Numbers

/-! ### bytes -/

theorem valOf_toBytesLE : ∀ (n v : Nat), valOf (toBytesLE n v) = v % 256 ^ n := by
  intro n
  induction n with
  | zero => intro v; simp [toBytesLE, valOf, Nat.mod_one]
  | succ n ih =>
    intro v
    simp only [toBytesLE, valOf, ih]
    rw [Nat.pow_succ, Nat.mul_comm (256 ^ n) 256, Nat.mod_mul]

theorem toBytesLE_length : ∀ (n v : Nat), (toBytesLE n v).length = n := by
  intro n
  induction n with
  | zero => intro v; rfl
  | succ n ih => intro v; simp [toBytesLE, ih]

theorem toBytesLE_valOf : ∀ (bs : List Nat), bytesOK bs → toBytesLE bs.length (valOf bs) = bs := by
  intro bs
  induction bs with
  | nil => intro _; rfl
  | cons b bs ih =>
    intro h
    have hb : b < 256 := h b List.mem_cons_self
    have ht : bytesOK bs := fun x hx => h x (List.mem_cons_of_mem _ hx)
    simp only [List.length_cons, toBytesLE, valOf]
    have e1 : (b + 256 * valOf bs) % 256 = b := by omega
    have e2 : (b + 256 * valOf bs) / 256 = valOf bs := by omega
    rw [e1, e2, ih ht]

theorem valOf_lt : ∀ (bs : List Nat), bytesOK bs → valOf bs < 256 ^ bs.length := by
  intro bs
  induction bs with
  | nil => intro _; simp [valOf]
  | cons b bs ih =>
    intro h
    have hb : b < 256 := h b List.mem_cons_self
    have ht := ih (fun x hx => h x (List.mem_cons_of_mem _ hx))
    simp only [List.length_cons, valOf, Nat.pow_succ]
    omega

theorem bytesOK_toBytesLE : ∀ (n v : Nat), bytesOK (toBytesLE n v) := by
  intro n
  induction n with
  | zero => intro v b hb; cases hb
  | succ n ih =>
    intro v b hb
    simp only [toBytesLE, List.mem_cons] at hb
    rcases hb with rfl | hb
    · exact Nat.mod_lt _ (by decide)
    · exact ih _ b hb

/-! ### digits -/

theorem digitVal_digitChar {d : Nat} (h : d < 16) : digitVal (digitChar d) = d := by
  unfold digitVal digitChar
  by_cases h10 : d < 10
  · have a : Nat.ble 97 (48 + d) = false := by rw [← Bool.not_eq_true, Nat.ble_eq]; omega
    have b : Nat.ble 65 (48 + d) = false := by rw [← Bool.not_eq_true, Nat.ble_eq]; omega
    simp only [h10, if_true, a, b]
    simp
  · have a : Nat.ble 97 (87 + d) = true := by rw [Nat.ble_eq]; omega
    simp only [h10, if_false, a, if_true]
    omega

theorem digitsAux_append (b : Nat) : ∀ (f n : Nat) (acc : List Nat),
    digitsAux b f n acc = digitsAux b f n [] ++ acc := by
  intro f
  induction f with
  | zero => intro n acc; rfl
  | succ f ih =>
    intro n acc
    simp only [digitsAux]
    split
    · rfl
    · rw [ih _ (digitChar (n % b) :: acc), ih _ [digitChar (n % b)]]
      simp

theorem digitsAux_small {b f n : Nat} (h : n < b) : digitsAux b (f + 1) n [] = [digitChar n] := by
  simp [digitsAux, h]

theorem digitsAux_big {b f n : Nat} (h : ¬ n < b) :
    digitsAux b (f + 1) n [] = digitsAux b f (n / b) [] ++ [digitChar (n % b)] := by
  simp only [digitsAux, h, if_false]
  exact digitsAux_append _ _ _ _

theorem ofDigits_snoc (b : Nat) (xs : List Nat) (c : Nat) :
    ofDigits b (xs ++ [c]) = ofDigits b xs * b + digitVal c := by
  simp [ofDigits, List.foldl_append]

theorem ofDigits_digitsAux {b : Nat} (hb2 : 2 ≤ b) (hb16 : b ≤ 16) : ∀ (f n : Nat), n < f →
    ofDigits b (digitsAux b f n []) = n := by
  intro f
  induction f with
  | zero => intro n h; omega
  | succ f ih =>
    intro n h
    by_cases hn : n < b
    · rw [digitsAux_small hn]
      simp only [ofDigits, List.foldl_cons, List.foldl_nil, Nat.zero_mul, Nat.zero_add]
      exact digitVal_digitChar (by omega)
    · rw [digitsAux_big hn, ofDigits_snoc]
      have hlt : n / b < f := by
        have : n / b < n := Nat.div_lt_self (by omega) (by omega)
        omega
      rw [ih _ hlt, digitVal_digitChar (by have := Nat.mod_lt n (show 0 < b by omega); omega)]
      exact Nat.div_add_mod' n b

theorem ofDigits_digits {b : Nat} (hb2 : 2 ≤ b) (hb16 : b ≤ 16) (n : Nat) :
    ofDigits b (digits b n) = n :=
  ofDigits_digitsAux hb2 hb16 (n + 1) n (Nat.lt_succ_self n)

theorem allP_append {p : Nat → Bool} : ∀ {a b : List Nat}, allP p (a ++ b) = (allP p a && allP p b) := by
  intro a
  induction a with
  | nil => intro b; simp [allP]
  | cons x xs ih => intro b; simp [allP, ih, Bool.and_assoc]

theorem allP_digitsAux {b : Nat} {p : Nat → Bool} (hb : 0 < b) (hp : ∀ d, d < b → p (digitChar d) = true) :
    ∀ (f n : Nat), allP p (digitsAux b f n []) = true := by
  intro f
  induction f with
  | zero => intro n; rfl
  | succ f ih =>
    intro n
    by_cases hn : n < b
    · rw [digitsAux_small hn]; simp [allP, hp n hn]
    · rw [digitsAux_big hn, allP_append, ih]
      simp [allP, hp _ (Nat.mod_lt n hb)]

theorem digits_ne_nil (b n : Nat) : digits b n ≠ [] := by
  unfold digits
  by_cases hn : n < b
  · rw [digitsAux_small hn]; simp
  · rw [digitsAux_big hn]; simp

theorem digitsAux_length_le {b : Nat} (_hb : 2 ≤ b) : ∀ (f n k : Nat), n < b ^ k → 1 ≤ k →
    (digitsAux b f n []).length ≤ k := by
  intro f
  induction f with
  | zero => intro n k _ _; simp [digitsAux]
  | succ f ih =>
    intro n k hk h1
    by_cases hn : n < b
    · rw [digitsAux_small hn]; simpa using h1
    · rw [digitsAux_big hn]
      have hk2 : 2 ≤ k := by
        rcases Nat.lt_or_ge k 2 with h | h
        · have : k = 1 := by omega
          subst this
          simp at hk
          omega
        · exact h
      obtain ⟨j, rfl⟩ : ∃ j, k = j + 1 := ⟨k - 1, by omega⟩
      have hdiv : n / b < b ^ j := by
        apply Nat.div_lt_of_lt_mul
        rw [Nat.pow_succ, Nat.mul_comm] at hk
        exact hk
      have := ih (n / b) j hdiv (by omega)
      simp only [List.length_append, List.length_cons, List.length_nil]
      omega

theorem digits_length_le {b : Nat} (hb : 2 ≤ b) {n k : Nat} (hk : n < b ^ k) (h1 : 1 ≤ k) :
    (digits b n).length ≤ k := digitsAux_length_le hb _ _ _ hk h1

theorem isDigit_digitChar {d : Nat} (h : d < 10) : isDigit (digitChar d) = true := by
  unfold isDigit digitChar
  simp only [h, if_true, Bool.and_eq_true, Nat.ble_eq]
  omega

theorem isBinDigit_digitChar {d : Nat} (h : d < 2) : isBinDigit (digitChar d) = true := by
  have : d = 0 ∨ d = 1 := by omega
  rcases this with rfl | rfl <;> decide

theorem isHexDigit_digitChar {d : Nat} (h : d < 16) : isHexDigit (digitChar d) = true := by
  unfold isHexDigit isDigit digitChar
  by_cases h10 : d < 10
  · simp only [h10, if_true, Bool.or_eq_true, Bool.and_eq_true, Nat.ble_eq]; omega
  · simp only [h10, if_false, Bool.or_eq_true, Bool.and_eq_true, Nat.ble_eq]; omega

theorem allDigit_digits10 (n : Nat) : allP isDigit (digits 10 n) = true :=
  allP_digitsAux (by decide) (fun _ h => isDigit_digitChar h) _ _

theorem allBin_digits2 (n : Nat) : allP isBinDigit (digits 2 n) = true :=
  allP_digitsAux (by decide) (fun _ h => isBinDigit_digitChar h) _ _

theorem allHex_digits16 (n : Nat) : allP isHexDigit (digits 16 n) = true :=
  allP_digitsAux (by decide) (fun _ h => isHexDigit_digitChar h) _ _

theorem nonEmptyAll_of {p : Nat → Bool} {s : List Nat} (h1 : s ≠ []) (h2 : allP p s = true) :
    nonEmptyAll p s = true := by
  cases s with
  | nil => exact absurd rfl h1
  | cons x xs => simp [nonEmptyAll, h2]

/-! ### spans -/

theorem spanP_append {p : Nat → Bool} : ∀ {a : List Nat} {c : Nat} {b : List Nat},
    allP p a = true → p c = false → spanP p (a ++ c :: b) = (a, c :: b) := by
  intro a
  induction a with
  | nil => intro c b _ hc; simp [spanP, hc]
  | cons x xs ih =>
    intro c b ha hc
    simp only [allP, Bool.and_eq_true] at ha
    simp only [List.cons_append, spanP, ha.1, if_true, ih ha.2 hc]

theorem spanP_all {p : Nat → Bool} : ∀ {a : List Nat}, allP p a = true → spanP p a = (a, []) := by
  intro a
  induction a with
  | nil => intro _; rfl
  | cons x xs ih =>
    intro ha
    simp only [allP, Bool.and_eq_true] at ha
    simp only [spanP, ha.1, if_true, ih ha.2]

/-! ### classification of exported texts -/

theorem classify_digits {s : List Nat} (h : nonEmptyAll isDigit s = true) :
    classify s = .unsignedNoSize s := by
  unfold classify
  split
  all_goals first
    | (exfalso; simp [nonEmptyAll, allP, isDigit] at h; done)
    | simp [h]

theorem sizedTail_ok {p : Nat → Bool} {mk : List Nat → List Nat → Lit} {sz body : List Nat}
    (hsz : allP isDigit sz = true) (hsz0 : sz ≠ []) (hb : nonEmptyAll p body = true) :
    sizedTail p mk (sz ++ 62 :: body) = mk sz body := by
  unfold sizedTail
  rw [spanP_append hsz (by decide)]
  cases sz with
  | nil => exact absurd rfl hsz0
  | cons x xs => simp [hb]

theorem classify_bin_sized (n val : Nat) :
    classify ([48, 98, 60] ++ digits 10 n ++ [62] ++ digits 2 val) = .binSized (digits 10 n) (digits 2 val) := by
  have e : [48, 98, 60] ++ digits 10 n ++ [62] ++ digits 2 val
      = 48 :: 98 :: 60 :: (digits 10 n ++ 62 :: digits 2 val) := by simp
  rw [e]
  show sizedTail isBinDigit .binSized (digits 10 n ++ 62 :: digits 2 val) = _
  exact sizedTail_ok (allDigit_digits10 n) (digits_ne_nil _ _)
    (nonEmptyAll_of (digits_ne_nil _ _) (allBin_digits2 val))

theorem classify_hex_sized (n val : Nat) :
    classify ([48, 120, 60] ++ digits 10 n ++ [62] ++ digits 16 val) = .hexSized (digits 10 n) (digits 16 val) := by
  have e : [48, 120, 60] ++ digits 10 n ++ [62] ++ digits 16 val
      = 48 :: 120 :: 60 :: (digits 10 n ++ 62 :: digits 16 val) := by simp
  rw [e]
  show sizedTail isHexDigit .hexSized (digits 10 n ++ 62 :: digits 16 val) = _
  exact sizedTail_ok (allDigit_digits10 n) (digits_ne_nil _ _)
    (nonEmptyAll_of (digits_ne_nil _ _) (allHex_digits16 val))

theorem atoi_digits {n : Nat} (h : n < two63) : atoi (digits 10 n) = some n := by
  simp [atoi, ofDigits_digits (by decide : 2 ≤ 10) (by decide : 10 ≤ 16), h]

/-! ### well-formed values per type -/

/-- a `bin` value as the importers build it -/
structure WFBin (v : BMNumber) : Prop where
  ty : v.ty = .bin
  ok : bytesOK v.bytes
  len : v.bytes.length = (v.bits - 1) / 8 + 1
  pos : 1 ≤ v.bits
  small : v.bits < two63
  fits : valOf v.bytes < 2 ^ v.bits

/-- a `hex` value: whole bytes -/
structure WFHex (v : BMNumber) : Prop where
  ty : v.ty = .hex
  ok : bytesOK v.bytes
  mult : v.bits % 8 = 0
  pos : 8 ≤ v.bits
  small : v.bits < two63
  fits : valOf v.bytes < 2 ^ v.bits

/-- an unsigned value of the un-sized notations: 64 bits in 8 bytes -/
structure WFU64 (v : BMNumber) : Prop where
  ty : v.ty = .unsigned
  ok : bytesOK v.bytes
  len : v.bytes.length = 8
  bits : v.bits = 64

/-- a signed value: 64 bits in 8 bytes -/
structure WFS64 (v : BMNumber) : Prop where
  ty : v.ty = .signed
  ok : bytesOK v.bytes
  len : v.bytes.length = 8
  bits : v.bits = 64

/-! ### round trips -/

theorem roundtrip_bin (v : BMNumber) (h : WFBin v) :
    (exportString v).bind importString = some v := by
  obtain ⟨bytes, bits, ty⟩ := v
  have hty : ty = .bin := h.ty
  subst hty
  have hlen : bytes.length = (bits - 1) / 8 + 1 := h.len
  have hdl : (digits 2 (valOf bytes)).length ≤ bits := digits_length_le (by decide) h.fits h.pos
  simp only [exportString, exportBinary, if_true, binRaw, Option.bind_some, importString,
    classify_bin_sized, importLit, atoi_digits h.small,
    ofDigits_digits (by decide : 2 ≤ 2) (by decide : 2 ≤ 16)]
  rw [if_neg (by omega), ← hlen, toBytesLE_valOf _ h.ok]

theorem roundtrip_hex (v : BMNumber) (h : WFHex v) :
    ∃ v', (exportString v).bind importString = some v' ∧ v'.same v := by
  obtain ⟨bytes, bits, ty⟩ := v
  have hty : ty = .hex := h.ty
  subst hty
  have hm : bits % 8 = 0 := h.mult
  have hp : 8 ≤ bits := h.pos
  have hf : valOf bytes < 2 ^ bits := h.fits
  -- 2^bits = 16^(bits/4)
  have hpow : (2 : Nat) ^ bits = 16 ^ (bits / 4) := by
    have : bits = 4 * (bits / 4) := by omega
    calc (2 : Nat) ^ bits = 2 ^ (4 * (bits / 4)) := by rw [← this]
      _ = (2 ^ 4) ^ (bits / 4) := by rw [Nat.pow_mul]
      _ = 16 ^ (bits / 4) := by rfl
  have hdl : (digits 16 (valOf bytes)).length ≤ bits / 4 :=
    digits_length_le (by decide) (by rw [← hpow]; exact hf) (by omega)
  refine ⟨⟨toBytesLE bits (valOf bytes), bits, .hex⟩, ?_, ?_⟩
  · simp only [exportString, Option.bind_some, importString, classify_hex_sized, importLit,
      atoi_digits h.small, ofDigits_digits (by decide : 2 ≤ 16) (by decide : 16 ≤ 16)]
    have e1 : (bits % 8 != 0) = false := by simp [hm]
    rw [e1]
    simp only [Bool.false_eq_true, if_false]
    rw [if_neg (by omega)]
  · refine ⟨?_, rfl, rfl⟩
    show valOf (toBytesLE bits (valOf bytes)) = valOf bytes
    rw [valOf_toBytesLE]
    apply Nat.mod_eq_of_lt
    have : (2 : Nat) ^ bits ≤ 256 ^ bits := Nat.pow_le_pow_left (by decide) bits
    omega

theorem valOf_lt_two64 {bs : List Nat} (ok : bytesOK bs) (len : bs.length = 8) : valOf bs < two64 := by
  have := valOf_lt bs ok
  rw [len] at this
  exact this

theorem roundtrip_unsigned64 (v : BMNumber) (h : WFU64 v) :
    (exportString v).bind importString = some v := by
  obtain ⟨bytes, bits, ty⟩ := v
  have hty : ty = .unsigned := h.ty
  subst hty
  have hb : bits = 64 := h.bits
  subst hb
  have hlen : bytes.length = 8 := h.len
  have hv := valOf_lt_two64 h.ok hlen
  have hc := classify_digits (nonEmptyAll_of (digits_ne_nil 10 (valOf bytes)) (allDigit_digits10 _))
  simp only [exportString, hlen]
  rw [if_neg (by omega)]
  simp only [Option.bind_some, importString, hc, importLit,
    ofDigits_digits (by decide : 2 ≤ 10) (by decide : 10 ≤ 16), hv, if_true]
  rw [← hlen, toBytesLE_valOf _ h.ok]

/-- what the implementation does to *any* unsigned value that fits 8 bytes: the text carries no
    width, so the re-imported number always has 64 bits -/
theorem unsigned_reimport_is_64 (v : BMNumber) (hty : v.ty = .unsigned) (ok : bytesOK v.bytes)
    (len : v.bytes.length ≤ 8) :
    (exportString v).bind importString = some ⟨toBytesLE 8 (valOf v.bytes), 64, .unsigned⟩ := by
  obtain ⟨bytes, bits, ty⟩ := v
  subst hty
  have hv : valOf bytes < two64 := by
    have h1 := valOf_lt bytes ok
    have h2 : (256 : Nat) ^ bytes.length ≤ 256 ^ 8 := Nat.pow_le_pow_right (by decide) len
    have : (256 : Nat) ^ 8 = two64 := by decide
    omega
  have hc := classify_digits (nonEmptyAll_of (digits_ne_nil 10 (valOf bytes)) (allDigit_digits10 _))
  simp only [exportString]
  rw [if_neg (by simpa using len)]
  simp only [Option.bind_some, importString, hc, importLit,
    ofDigits_digits (by decide : 2 ≤ 10) (by decide : 10 ≤ 16), hv, if_true]

/-! ### signed, for the proposed repair of `Signed.ExportString` -/

theorem head_digit_of_digits10 (n : Nat) : ∃ x xs, digits 10 n = x :: xs ∧ isDigit x = true := by
  have hne := digits_ne_nil 10 n
  have hall := allDigit_digits10 n
  cases h : digits 10 n with
  | nil => exact absurd h hne
  | cons x xs =>
    rw [h] at hall
    simp only [allP, Bool.and_eq_true] at hall
    exact ⟨x, xs, rfl, hall.1⟩

theorem classify_signed_pos (n : Nat) :
    classify ([48, 115] ++ digits 10 n) = .signed false (digits 10 n) := by
  obtain ⟨x, xs, hx, hd⟩ := head_digit_of_digits10 n
  have hna := nonEmptyAll_of (digits_ne_nil 10 n) (allDigit_digits10 n)
  rw [hx] at hna ⊢
  have h100 : x ≠ 100 := by intro h; subst h; simp [isDigit] at hd
  have h45 : x ≠ 45 := by intro h; subst h; simp [isDigit] at hd
  show classify (48 :: 115 :: x :: xs) = _
  unfold classify
  split
  all_goals first
    | (rename_i heq; simp at heq; done)
    | (rename_i heq; simp at heq; exfalso; omega)
    | (exfalso; rename_i a _ _ _ _; exact a _ rfl)
    | skip
  · rename_i rest heq
    simp only [List.cons.injEq, true_and] at heq
    subst heq
    unfold signedTail
    split
    · rename_i heq2; simp at heq2; exact absurd heq2.1 h45
    · simp [hna]

theorem classify_signed_neg (n : Nat) :
    classify ([48, 115] ++ 45 :: digits 10 n) = .signed true (digits 10 n) := by
  have hna := nonEmptyAll_of (digits_ne_nil 10 n) (allDigit_digits10 n)
  show signedTail (45 :: digits 10 n) = _
  simp [signedTail, hna]

theorem roundtrip_signed_spec (v : BMNumber) (h : WFS64 v) :
    (exportStringSpec v).bind importString = some v := by
  obtain ⟨bytes, bits, ty⟩ := v
  have hty : ty = .signed := h.ty
  subst hty
  have hb : bits = 64 := h.bits
  subst hb
  have hlen : bytes.length = 8 := h.len
  have hok : bytesOK bytes := h.ok
  have hv : valOf bytes < 18446744073709551616 := valOf_lt_two64 hok hlen
  have hsx : sext 64 (valOf bytes) = valOf bytes := by
    unfold sext; rw [if_neg (by omega)]
  simp only [exportStringSpec, hlen, hsx, signedDec, two63, two64]
  rw [if_pos (by decide)]
  by_cases hs : valOf bytes < 9223372036854775808
  · simp only [hs, if_true, Option.bind_some, importString, classify_signed_pos, importLit,
      ofDigits_digits (by decide : 2 ≤ 10) (by decide : 10 ≤ 16), Bool.false_eq_true, if_false,
      two63, two64]
    rw [← hlen, toBytesLE_valOf _ hok]
  · simp only [hs, if_false, Option.bind_some, importString, classify_signed_neg, importLit,
      ofDigits_digits (by decide : 2 ≤ 10) (by decide : 10 ≤ 16), if_true, two63, two64]
    have hle : 18446744073709551616 - valOf bytes ≤ 9223372036854775808 := by omega
    have hmod : (18446744073709551616 - (18446744073709551616 - valOf bytes)) % 18446744073709551616
        = valOf bytes := by
      rw [Nat.mod_eq_of_lt] <;> omega
    simp only [hle, if_true, hmod]
    rw [← hlen, toBytesLE_valOf _ hok]

/-! ### widths -/

theorem zeros_length (n : Nat) : (zeros n).length = n := by simp [zeros]

theorem exportBinaryNBits_length {v : BMNumber} {n : Nat} {s : List Nat}
    (h : exportBinaryNBits v n = some s) : s.length = n := by
  simp only [exportBinaryNBits] at h
  split at h
  · cases h
  · cases h
    simp only [List.length_append, zeros_length]
    omega

/-- `ExportBinaryNBits n` fails exactly when the value needs more than `n` binary digits -/
theorem exportBinaryNBits_none_iff (v : BMNumber) (n : Nat) :
    exportBinaryNBits v n = none ↔ n < (binRaw v).length := by
  simp only [exportBinaryNBits]
  split <;> simp_all

theorem binRaw_length_le {v : BMNumber} (hpos : 1 ≤ v.bits) (hfit : valOf v.bytes < 2 ^ v.bits) :
    (binRaw v).length ≤ v.bits := digits_length_le (by decide) hfit hpos

theorem verilogDigits_length {v : BMNumber} (hpos : 1 ≤ v.bits) (hfit : valOf v.bytes < 2 ^ v.bits) :
    (verilogDigits v).length = v.bits := by
  have := binRaw_length_le hpos hfit
  simp only [verilogDigits, List.length_append, zeros_length]
  omega

/-- the binary digits printed by every export denote the value -/
theorem binRaw_value (v : BMNumber) : ofDigits 2 (binRaw v) = valOf v.bytes :=
  ofDigits_digits (by decide) (by decide) _

/-! ### sized notations produce exactly the stated width, and the value fits it -/

theorem unsignedSized_bits {sz ds : List Nat} {v : BMNumber}
    (h : importLit (.unsignedSized sz ds) = some v) :
    atoi sz = some v.bits ∧ 1 ≤ v.bits ∧ v.bits ≤ 64 ∧ valOf v.bytes < 2 ^ v.bits := by
  simp only [importLit] at h
  split at h
  · cases h
  · rename_i size hs
    split at h
    · cases h
    · rename_i h0
      split at h
      · cases h
      · rename_i h64
        split at h
        · cases h
        · rename_i hfit
          cases h
          simp only [Bool.or_eq_true, decide_eq_true_eq, not_or, Nat.not_lt] at h0
          simp only [Nat.not_le] at h64
          simp only [Bool.and_eq_true, decide_eq_true_eq, not_and, Nat.not_le] at hfit
          have hpos : 1 ≤ size := Nat.pos_of_ne_zero h0.1
          refine ⟨hs, hpos, h0.2, ?_⟩
          show valOf (toBytesLE ((size + 7) / 8) (ofDigits 10 ds)) < 2 ^ size
          rw [valOf_toBytesLE]
          have hv : ofDigits 10 ds < 2 ^ size := by
            rcases Nat.lt_or_ge size 64 with hlt | hge
            · exact hfit hlt
            · have h64' : size = 64 := Nat.le_antisymm h0.2 hge
              subst h64'
              have e : two64 = 2 ^ 64 := by decide
              rw [e] at h64
              exact h64
          exact Nat.lt_of_le_of_lt (Nat.mod_le _ _) hv

theorem binSized_bits {sz ds : List Nat} {v : BMNumber}
    (h : importLit (.binSized sz ds) = some v) : atoi sz = some v.bits := by
  simp only [importLit] at h
  split at h
  · cases h
  · rename_i size hs
    split at h
    · cases h
    · cases h; exact hs

theorem hexSized_bits {sz ds : List Nat} {v : BMNumber}
    (h : importLit (.hexSized sz ds) = some v) : atoi sz = some v.bits := by
  simp only [importLit] at h
  split at h
  · cases h
  · rename_i size hs
    split at h
    · cases h
    · split at h
      · cases h
      · cases h; exact hs

/-! ### ImportUint / ImportBytes / ExportUint64 -/

theorem importUint_native (w v : Nat) {optBits : Int} (h : optBits ≤ 0) :
    importUint w v optBits = ⟨toBytesLE (w / 8) v, w, .unsigned⟩ := by
  unfold importUint
  rw [if_neg (by omega)]

theorem importUint_override (w v : Nat) {optBits : Int} (h : 0 < optBits) :
    importUint w v optBits =
      ⟨toBytesLE ((optBits.toNat + 7) / 8) (v % 2 ^ optBits.toNat), optBits.toNat, .unsigned⟩ := by
  unfold importUint
  rw [if_pos h]

theorem pow256_eq (k : Nat) : (256 : Nat) ^ k = 2 ^ (8 * k) := by
  calc (256 : Nat) ^ k = (2 ^ 8) ^ k := by rfl
    _ = 2 ^ (8 * k) := by rw [Nat.pow_mul]

theorem valOf_importUint {w v : Nat} {optBits : Int} (hob : optBits ≤ 0) (hv : v < 2 ^ w) (hw : w % 8 = 0) :
    valOf (importUint w v optBits).bytes = v := by
  rw [importUint_native w v hob]
  show valOf (toBytesLE (w / 8) v) = v
  rw [valOf_toBytesLE]
  apply Nat.mod_eq_of_lt
  have : w = 8 * (w / 8) := by omega
  rw [pow256_eq, ← this]; exact hv

/-- with a positive width the bytes denote the value reduced to that width, in exactly ⌈n/8⌉ bytes -/
theorem valOf_importUint_override (w v : Nat) {optBits : Int} (h : 0 < optBits) :
    valOf (importUint w v optBits).bytes = v % 2 ^ optBits.toNat ∧
    (importUint w v optBits).bytes.length = (optBits.toNat + 7) / 8 ∧
    (importUint w v optBits).bits = optBits.toNat := by
  rw [importUint_override w v h]
  refine ⟨?_, toBytesLE_length _ _, rfl⟩
  show valOf (toBytesLE ((optBits.toNat + 7) / 8) (v % 2 ^ optBits.toNat)) = v % 2 ^ optBits.toNat
  rw [valOf_toBytesLE]
  apply Nat.mod_eq_of_lt
  have h1 : v % 2 ^ optBits.toNat < 2 ^ optBits.toNat := Nat.mod_lt _ (Nat.two_pow_pos _)
  have h2 : (2 : Nat) ^ optBits.toNat ≤ 2 ^ (8 * ((optBits.toNat + 7) / 8)) :=
    Nat.pow_le_pow_right (by decide) (by omega)
  rw [pow256_eq]; omega

theorem exportUint64_importUint {w v : Nat} {optBits : Int} (hob : optBits ≤ 0) (hv : v < 2 ^ w) (hw : w % 8 = 0)
    (h64 : w ≤ 64) : exportUint64 (importUint w v optBits) = some v := by
  have hval := valOf_importUint hob hv hw
  rw [importUint_native w v hob] at hval ⊢
  unfold exportUint64
  rw [if_neg (by show ¬ 8 < (toBytesLE (w / 8) v).length; rw [toBytesLE_length]; omega), hval]

theorem importUint64_wf {v : Nat} (_hv : v < 2 ^ 64) : WFU64 (importUint 64 v 0) := by
  rw [importUint_native 64 v (by decide)]
  exact ⟨rfl, bytesOK_toBytesLE _ _, toBytesLE_length _ _, rfl⟩

theorem importUint_reimport {w v : Nat} {optBits : Int} (hob : optBits ≤ 0) (hv : v < 2 ^ w) (hw : w % 8 = 0)
    (h64 : w ≤ 64) :
    (exportString (importUint w v optBits)).bind importString = some ⟨toBytesLE 8 v, 64, .unsigned⟩ := by
  have hval := valOf_importUint hob hv hw
  rw [importUint_native w v hob] at hval ⊢
  have h := unsigned_reimport_is_64 ⟨toBytesLE (w / 8) v, w, .unsigned⟩ rfl (bytesOK_toBytesLE _ _)
    (by show (toBytesLE (w / 8) v).length ≤ 8; rw [toBytesLE_length]; omega)
  rw [hval] at h
  exact h

theorem valOf_reverse_importBytes (be : List Nat) (bits : Nat) :
    valOf (importBytes be bits).bytes = valOf be.reverse := rfl

/-! ### OmitPrefix -/

theorem removeAll2_clean (a b : Nat) : ∀ (s : List Nat), (∀ c ∈ s, c ≠ b) → removeAll2 a b s = s := by
  intro s
  fun_induction removeAll2 a b s with
  | case1 x y rest hc ih =>
    intro h
    exact absurd hc.2 (h y (by simp))
  | case2 x y rest hc ih =>
    intro h
    rw [ih (fun c hc => h c (List.mem_cons_of_mem _ hc))]
  | case3 s hs => intro _; rfl

theorem removeAll2_prefix (a b : Nat) (s : List Nat) : removeAll2 a b (a :: b :: s) = removeAll2 a b s := by
  simp [removeAll2]

theorem mem_of_allP {p : Nat → Bool} : ∀ {s : List Nat}, allP p s = true → ∀ c ∈ s, p c = true := by
  intro s
  induction s with
  | nil => intro _ c hc; cases hc
  | cons x xs ih =>
    intro h c hc
    simp only [allP, Bool.and_eq_true] at h
    rcases List.mem_cons.mp hc with rfl | hc
    · exact h.1
    · exact ih h.2 c hc

/-- dropping the prefix of `prefix ++ rest` returns `rest` when `rest` has no second prefix letter -/
theorem omitPrefix_prefix (t : NType) (rest : List Nat) (h : ∀ c ∈ rest, c ≠ prefixLetter t) :
    omitPrefix t (showPrefix t ++ rest) = rest := by
  show removeAll2 48 (prefixLetter t) (48 :: prefixLetter t :: rest) = rest
  rw [removeAll2_prefix, removeAll2_clean _ _ _ h]

theorem omit_readd_bin (v : BMNumber) (h : v.ty = .bin) :
    (exportStringOmit v).map (showPrefix .bin ++ ·) = exportString v := by
  have hd10 := mem_of_allP (allDigit_digits10 v.bits)
  have hd2 := mem_of_allP (allBin_digits2 (valOf v.bytes))
  have hrest : ∀ c ∈ [60] ++ digits 10 v.bits ++ [62] ++ digits 2 (valOf v.bytes), c ≠ prefixLetter .bin := by
    intro c hc heq
    simp only [List.mem_append, List.mem_singleton] at hc
    rcases hc with ((rfl | hc) | rfl) | hc
    · exact absurd heq (by decide)
    · have := hd10 c hc; rw [heq] at this; exact absurd this (by decide)
    · exact absurd heq (by decide)
    · have := hd2 c hc; rw [heq] at this; exact absurd this (by decide)
  have e : exportString v = some (showPrefix .bin ++ ([60] ++ digits 10 v.bits ++ [62] ++ digits 2 (valOf v.bytes))) := by
    simp [exportString, h, exportBinary, binRaw, showPrefix, prefixLetter]
  simp only [exportStringOmit, e, Option.map_some, h, omitPrefix_prefix .bin _ hrest]

theorem omit_readd_hex (v : BMNumber) (h : v.ty = .hex) :
    (exportStringOmit v).map (showPrefix .hex ++ ·) = exportString v := by
  have hd10 := mem_of_allP (allDigit_digits10 v.bits)
  have hd16 := mem_of_allP (allHex_digits16 (valOf v.bytes))
  have hrest : ∀ c ∈ [60] ++ digits 10 v.bits ++ [62] ++ digits 16 (valOf v.bytes), c ≠ prefixLetter .hex := by
    intro c hc heq
    simp only [List.mem_append, List.mem_singleton] at hc
    rcases hc with ((rfl | hc) | rfl) | hc
    · exact absurd heq (by decide)
    · have := hd10 c hc; rw [heq] at this; exact absurd this (by decide)
    · exact absurd heq (by decide)
    · have := hd16 c hc; rw [heq] at this; exact absurd this (by decide)
  have e : exportString v = some (showPrefix .hex ++ ([60] ++ digits 10 v.bits ++ [62] ++ digits 16 (valOf v.bytes))) := by
    simp [exportString, h, showPrefix, prefixLetter]
  simp only [exportStringOmit, e, Option.map_some, h, omitPrefix_prefix .hex _ hrest]

/-- unsigned texts carry no prefix: the option changes nothing -/
theorem omit_unsigned (v : BMNumber) (h : v.ty = .unsigned) : exportStringOmit v = exportString v := by
  have hd10 := mem_of_allP (allDigit_digits10 (valOf v.bytes))
  have hclean : ∀ c ∈ digits 10 (valOf v.bytes), c ≠ prefixLetter .unsigned := by
    intro c hc heq
    have := hd10 c hc; rw [heq] at this; exact absurd this (by decide)
  unfold exportStringOmit exportString
  rw [h]
  simp only
  split
  · rfl
  · simp only [Option.map_some, omitPrefix, removeAll2_clean _ _ _ hclean]

/-- … and putting `0u` in front of the decimal text imports the same number -/
theorem import_readd_unsigned (n : Nat) :
    importString (showPrefix .unsigned ++ digits 10 n) = importString (digits 10 n) := by
  obtain ⟨x, xs, hx, hd⟩ := head_digit_of_digits10 n
  have hall := allDigit_digits10 n
  have hc := classify_digits (nonEmptyAll_of (digits_ne_nil 10 n) hall)
  have h60 : x ≠ 60 := by intro h; subst h; simp [isDigit] at hd
  have hu : classify (showPrefix .unsigned ++ digits 10 n) = .unsignedNoSize (digits 10 n) := by
    show unsignedTail (digits 10 n) = _
    rw [hx] at hall ⊢
    unfold unsignedTail
    split
    · rename_i heq; simp at heq; exact absurd heq.1 h60
    · rw [spanP_all hall]
  simp only [importString, hu, hc]

/-- the width field after `ImportUint`: the override only when positive, else the native width
    (in particular for the 'any size' sentinel −1 the simulator passes for hex / bin / unsigned) -/
theorem importUint_bits_sentinel (w v : Nat) (optBits : Int) (h : optBits ≤ 0) :
    (importUint w v optBits).bits = w := by
  rw [importUint_native w v h]

theorem importUint_bits_override (w v : Nat) (optBits : Int) (h : 0 < optBits) :
    (importUint w v optBits).bits = optBits.toNat := by
  rw [importUint_override w v h]

/-- the simulator's show path for a bin register: `ImportUint(v, -1)`, `CastType(bin)` is a
    well-formed bin value of the register's width, so `roundtrip_bin` applies to it -/
theorem show_bin_wf {w v : Nat} (hv : v < 2 ^ w) (hw : w % 8 = 0) (hpos : 8 ≤ w) (h64 : w ≤ 64) :
    WFBin (castType (importUint w v (-1)) .bin) := by
  rw [importUint_native w v (by decide)]
  refine ⟨rfl, bytesOK_toBytesLE _ _, ?_, ?_, ?_, ?_⟩
  · show (toBytesLE (w / 8) v).length = (w - 1) / 8 + 1
    rw [toBytesLE_length]; omega
  · show 1 ≤ w; omega
  · show w < two63; unfold two63; omega
  · show valOf (toBytesLE (w / 8) v) < 2 ^ w
    have e := valOf_importUint (optBits := -1) (by decide) hv hw
    rw [importUint_native w v (by decide)] at e
    have e' : valOf (toBytesLE (w / 8) v) = v := e
    rw [e']; exact hv

theorem show_hex_wf {w v : Nat} (hv : v < 2 ^ w) (hw : w % 8 = 0) (hpos : 8 ≤ w) (h64 : w ≤ 64) :
    WFHex (castType (importUint w v (-1)) .hex) := by
  rw [importUint_native w v (by decide)]
  refine ⟨rfl, bytesOK_toBytesLE _ _, hw, hpos, ?_, ?_⟩
  · show w < two63; unfold two63; omega
  · show valOf (toBytesLE (w / 8) v) < 2 ^ w
    have e := valOf_importUint (optBits := -1) (by decide) hv hw
    rw [importUint_native w v (by decide)] at e
    have e' : valOf (toBytesLE (w / 8) v) = v := e
    rw [e']; exact hv

end BMV.Numbers
