/-
  Helper lemmas for the bondgo goroutine protocol (model: BMV/BondgoProto.lean).
  Property theorems: BMV/Props/C12.lean.
-/
import BMV.BondgoProto
namespace BMV.BondgoProto

theorem afterReq_cost (pre post : Nat) : (afterReq pre post).cost = pre + 1 + post := by
  cases pre <;> simp [afterReq, APc.cost] <;> omega

theorem afterAns_cost (post : Nat) : (afterAns post).cost = post := by
  cases post <;> simp [afterAns, APc.cost]

/-- every rendezvous lowers the rank by exactly one (fixed or not) -/
theorem rank_step {s s' : St} {t : Tr} (h : step s t = some s') : rank s' + 1 = rank s := by
  obtain ⟨acts, vw, vx, a, m⟩ := s
  cases t <;> simp only [step] at h <;> split at h <;> (try split at h) <;> cases h <;>
    (try (rename_i hx; subst hx)) <;>
    simp only [rank, afterReq_cost, afterAns_cost] <;>
    simp [actsCost, Act.cost, APc.cost] <;> omega

theorem mem_enabled {s s' : St} {t : Tr} (h : step s t = some s') : t ∈ enabled s := by
  unfold enabled
  refine List.mem_filter.mpr ⟨?_, by simp [h]⟩
  cases t <;> simp [Tr.all]

theorem of_mem_enabled {s : St} {t : Tr} (h : t ∈ enabled s) : ∃ s', step s t = some s' := by
  unfold enabled at h
  have := (List.mem_filter.mp h).2
  exact Option.isSome_iff_exists.mp this

theorem inv_init (acts : List Act) (h : acts.all Act.fixed = true) : inv (init acts) = true := by
  cases acts with
  | nil => simp [inv, init]
  | cons a as =>
    cases a with
    | req p q => simp [inv, init, h]
    | use => simp [inv, init, h]

theorem final_rank {s : St} (h : final s = true) : rank s = 0 := by
  obtain ⟨acts, vw, vx, a, m⟩ := s
  simp only [final, Bool.and_eq_true, List.isEmpty_iff, beq_iff_eq] at h
  obtain ⟨⟨⟨h1, h2⟩, h3⟩, h4⟩ := h
  subst h1; subst h2; subst h3
  cases vw <;> simp [rank, actsCost, APc.cost]


theorem inv_step {s s' : St} {t : Tr} (hi : inv s = true) (h : step s t = some s') : inv s' = true := by
  obtain ⟨acts, vw, vx, a, m⟩ := s
  cases t <;> simp only [step] at h <;> split at h <;> (try split at h) <;> cases h <;>
    (try (rename_i hx; subst hx))
  · -- vReq, request
    rename_i p q tl
    cases p <;> simp_all [inv, afterReq, Act.fixed, APc.servingFixed]
  · simp_all [inv]
  · -- aAns
    rename_i p q tl post
    cases tl with
    | nil => cases post <;> simp_all [inv, afterAns, Act.fixed, APc.servingFixed]
    | cons x xs => cases x <;> cases post <;> simp_all [inv, afterAns, Act.fixed, APc.servingFixed]
  · -- vUse
    rename_i tl
    cases tl with
    | nil => simp_all [inv, Act.fixed]
    | cons x xs => cases x <;> simp_all [inv, Act.fixed]
  · simp_all [inv]
  · cases acts with
    | nil => cases vw <;> simp_all [inv] <;> (try (split at hi <;> simp_all))
    | cons x xs => cases x <;> cases vw <;> simp_all [inv, Act.fixed, APc.servingFixed]
  · cases acts with
    | nil => cases vw <;> simp_all [inv] <;> (try (split at hi <;> simp_all))
    | cons x xs => cases x <;> cases vw <;> simp_all [inv, Act.fixed, APc.servingFixed]
  · cases acts with
    | nil => cases vw <;> simp_all [inv] <;> (try (split at hi <;> simp_all))
    | cons x xs => cases x <;> cases vw <;> simp_all [inv, Act.fixed, APc.servingFixed]
  · cases acts with
    | nil => cases vw <;> simp_all [inv] <;> (try (split at hi <;> simp_all))
    | cons x xs => cases x <;> cases vw <;> simp_all [inv, Act.fixed, APc.servingFixed]
  · simp_all [inv]
  · simp_all [inv]

/-- progress: in a non-final state of the fixed protocol exactly one rendezvous is enabled -/
theorem inv_enabled {s : St} (hi : inv s = true) (hf : final s = false) : (enabled s).length = 1 := by
  obtain ⟨acts, vw, vx, a, m⟩ := s
  cases acts with
  | nil =>
    simp only [inv, List.all_nil, Bool.true_and, Bool.and_eq_true, beq_iff_eq] at hi
    obtain ⟨h1, h2⟩ := hi
    subst h1
    split at h2 <;> simp_all [enabled, Tr.all, step, final]
  | cons x xs =>
    cases x with
    | use => simp_all [inv, enabled, Tr.all, step, final]
    | req p q =>
      cases vw with
      | false => simp_all [inv, enabled, Tr.all, step, final]
      | true =>
        cases a <;> simp_all [inv, enabled, Tr.all, step, final, APc.servingFixed]
        rename_i n q'
        cases n <;> simp

theorem Reach.head {s s' s'' : St} {t : Tr} (h : step s t = some s') (hr : Reach s' s'') : Reach s s'' := by
  induction hr with
  | refl => exact .tail t (.refl s) h
  | tail t' _ hs ih => exact .tail t' ih hs

/-- whatever `runTrs` reaches is reachable -/
theorem reach_runTrs (ts : List Tr) : ∀ s, Reach s (runTrs s ts) := by
  induction ts with
  | nil => intro s; exact .refl s
  | cons t ts ih =>
    intro s
    simp only [runTrs]
    cases h : step s t with
    | some s' => exact Reach.head h (ih s')
    | none => exact ih s

theorem reach_inv {s s' : St} (hi : inv s = true) (hr : Reach s s') : inv s' = true := by
  induction hr with
  | refl => exact hi
  | tail t _ hs ih => exact inv_step ih hs

theorem reach_rank {s s' : St} (hr : Reach s s') : rank s' ≤ rank s := by
  induction hr with
  | refl => exact Nat.le_refl _
  | tail t _ hs ih => have := rank_step hs; omega

theorem final_no_step {s s' : St} {t : Tr} (hf : final s = true) : step s t ≠ some s' := by
  intro h
  have := rank_step h
  have := final_rank hf
  omega

theorem final_enabled {s : St} (hf : final s = true) : enabled s = [] := by
  cases he : enabled s with
  | nil => rfl
  | cons t ts =>
    have : t ∈ enabled s := by rw [he]; exact List.mem_cons_self
    obtain ⟨s', hs⟩ := of_mem_enabled this
    exact absurd hs (final_no_step hf)

theorem inv_rank_zero {s : St} (hi : inv s = true) (hr : rank s = 0) : final s = true := by
  cases hf : final s with
  | true => rfl
  | false =>
    have hl := inv_enabled hi hf
    cases he : enabled s with
    | nil => rw [he] at hl; cases hl
    | cons t ts =>
      have : t ∈ enabled s := by rw [he]; exact List.mem_cons_self
      obtain ⟨s', hs⟩ := of_mem_enabled this
      have := rank_step hs
      omega

theorem getD_mem_cons {α : Type} (t : α) (ts : List α) (k : Nat) : (t :: ts).getD k t ∈ t :: ts := by
  rw [List.getD_eq_getElem?_getD]
  cases h : (t :: ts)[k]? with
  | none => simp
  | some x => simpa using List.mem_of_getElem? h

/-- under every schedule, `rank s` steps of the fixed protocol end in the final state -/
theorem runSched_final (sched : Nat → Nat) :
    ∀ (fuel i : Nat) (s : St), inv s = true → rank s ≤ fuel → final (runSched sched fuel i s) = true := by
  intro fuel
  induction fuel with
  | zero =>
    intro i s hi hr
    simp only [runSched]
    exact inv_rank_zero hi (by omega)
  | succ fuel ih =>
    intro i s hi hr
    cases hf : final s with
    | true =>
      simp only [runSched, final_enabled hf]
      exact hf
    | false =>
      have hl := inv_enabled hi hf
      unfold runSched
      cases he : enabled s with
      | nil => rw [he] at hl; cases hl
      | cons t ts =>
        simp only
        have hm : (t :: ts).getD (sched i % (ts.length + 1)) t ∈ enabled s := by
          rw [he]; exact getD_mem_cons _ _ _
        obtain ⟨s', hs⟩ := of_mem_enabled hm
        rw [hs]
        simp only
        have := rank_step hs
        exact ih (i + 1) s' (inv_step hi hs) (by omega)

end BMV.BondgoProto
