/-
  Helper lemmas for the shared-object model (C18): splitting the per-processor connection list of a
  queue / stack into its sender and receiver parts.
-/
import BMV.So
namespace BMV.So

def sendSlots (a : Att) : List Slot := if a.caps.send then senderRoles.map fun r => ⟨a.proc, r⟩ else []
def recvSlots (a : Att) : List Slot := if a.caps.recv then receiverRoles.map fun r => ⟨a.proc, r⟩ else []

theorem perProc_queue (k : Kind) (hk : k = .queue ∨ k = .stack) (a : Att) :
    (perProcHeader k a.caps).map (fun r => (⟨a.proc, r⟩ : Slot)) = sendSlots a ++ recvSlots a := by
  rcases a with ⟨p, i, ⟨s, r⟩⟩
  rcases hk with rfl | rfl <;> cases s <;> cases r <;>
    simp [perProcHeader, sendSlots, recvSlots, senderRoles, receiverRoles]

theorem no_send_nil : ∀ (l : List Att), (l.all fun b => !b.caps.send) = true → l.flatMap sendSlots = []
  | [], _ => rfl
  | b :: rest, h => by
    simp only [List.all_cons, Bool.and_eq_true, Bool.not_eq_true'] at h
    simp only [List.flatMap_cons, no_send_nil rest h.2, List.append_nil]
    unfold sendSlots; simp [h.1]

theorem split_flatMap : ∀ (l : List Att), sendersFirst l = true →
    l.flatMap (fun a => sendSlots a ++ recvSlots a) = l.flatMap sendSlots ++ l.flatMap recvSlots
  | [], _ => rfl
  | a :: rest, h => by
    unfold sendersFirst at h
    simp only [Bool.and_eq_true, Bool.or_eq_true, Bool.not_eq_true'] at h
    simp only [List.flatMap_cons, split_flatMap rest h.2]
    rcases h.1 with hr | hs
    · have : recvSlots a = [] := by unfold recvSlots; simp [hr]
      simp [this]
    · simp [no_send_nil rest hs]

theorem send_head : ∀ (l : List Att), l.flatMap sendSlots = [] ∨ ∃ p t, l.flatMap sendSlots = ⟨p, "senderData"⟩ :: t
  | [] => Or.inl rfl
  | b :: rest => by
    simp only [List.flatMap_cons]
    by_cases hs : b.caps.send = true
    · right
      refine ⟨b.proc, [⟨b.proc, "senderWrite"⟩, ⟨b.proc, "senderAck"⟩] ++ rest.flatMap sendSlots, ?_⟩
      unfold sendSlots senderRoles
      simp [hs]
    · have : sendSlots b = [] := by unfold sendSlots; simp [hs]
      rw [this, List.nil_append]
      exact send_head rest

theorem send_nil_all : ∀ (l : List Att), l.flatMap sendSlots = [] → (l.all fun b => !b.caps.send) = true
  | [], _ => rfl
  | b :: rest, h => by
    simp only [List.flatMap_cons, List.append_eq_nil_iff] at h
    simp only [List.all_cons, Bool.and_eq_true, Bool.not_eq_true']
    refine ⟨?_, send_nil_all rest h.2⟩
    cases hb : b.caps.send with
    | false => rfl
    | true => exfalso; have := h.1; unfold sendSlots senderRoles at this; simp [hb] at this

theorem split_flatMap_conv : ∀ (l : List Att),
    l.flatMap (fun a => sendSlots a ++ recvSlots a) = l.flatMap sendSlots ++ l.flatMap recvSlots →
    sendersFirst l = true
  | [], _ => rfl
  | a :: rest, h => by
    simp only [List.flatMap_cons, List.append_assoc] at h
    have h' := List.append_cancel_left h
    unfold sendersFirst
    simp only [Bool.and_eq_true, Bool.or_eq_true, Bool.not_eq_true']
    cases hr : a.caps.recv with
    | false =>
      have hR : recvSlots a = [] := by unfold recvSlots; simp [hr]
      rw [hR, List.nil_append, List.nil_append] at h'
      exact ⟨Or.inl rfl, split_flatMap_conv rest h'⟩
    | true =>
      have hR : recvSlots a = ⟨a.proc, "receiverData"⟩ :: [⟨a.proc, "receiverRead"⟩, ⟨a.proc, "receiverAck"⟩] := by
        unfold recvSlots receiverRoles; simp [hr]
      rcases send_head rest with hnil | ⟨p, t, hcons⟩
      · rw [hnil, List.nil_append] at h'
        have h'' := List.append_cancel_left h'
        have : rest.flatMap (fun a => sendSlots a ++ recvSlots a) = rest.flatMap sendSlots ++ rest.flatMap recvSlots := by
          rw [hnil, List.nil_append]; exact h''
        exact ⟨Or.inr (send_nil_all rest hnil), split_flatMap_conv rest this⟩
      · exfalso
        rw [hR, hcons] at h'
        simp at h'


end BMV.So
