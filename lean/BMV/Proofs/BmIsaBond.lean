/-
  C02 helper: one bond of a machine step of the simulator world (`Bm.isaStep`) projects onto one
  step of C04's handshake model `Hs.Isa.step`, the schedule being read off the processors' pcs
  (`isa_bond_projects`), hence every run of a machine projects onto a run of `Hs.Isa`
  (`isa_bond_run_projects`) and inherits C04's invariant.
-/
import BMV.Proofs.BmIsa
import BMV.Proofs.HsLive
namespace BMV.Bm
open BMV BMV.Bits BMV.Topology

/-! ### evaluating the movement on a processor-to-processor bond -/

theorem getD_map_zipIdx {α β} (l : List α) (f : α × Nat → β) (i : Nat) (d : β) (x : α) (h : l[i]? = some x) :
    (l.zipIdx.map f).getD i d = f (x, i) := by
  simp [List.getD_eq_getElem?_getD, List.getElem?_map, List.getElem?_zipIdx, h]

/-- a slot bonded to a processor output sees that output's registers (of the previous tick) -/
theorem preIi_linked {t : Topo} (s : BmState) {i j : Nat} {b : Topology.Bond}
    (hl : t.links[i]? = some (some j)) (hb : t.iout[j]? = some b) (hk : b.kind ≠ 0) :
    (preIi t s).iiRegs.getD i 0 = s.ioRegs.getD j 0 ∧ (preIi t s).iiValid.getD i false = s.ioValid.getD j false := by
  unfold preIi mvLinks mvExtIn
  simp only
  rw [getD_map_zipIdx _ _ _ _ _ hl, getD_map_zipIdx _ _ _ _ _ hl]
  simp only
  rw [getD_map_zipIdx _ _ _ _ _ hb, getD_map_zipIdx _ _ _ _ _ hb]
  simp [hk]

/-- `InternalInputsRecv` of a processor's slot is not touched by the external-recv loop -/
theorem preRecvArr_proc {t : Topo} (s : BmState) {i : Nat} {b : Topology.Bond}
    (hb : t.iin[i]? = some b) (hk : b.kind ≠ 1) : (preRecvArr t s).getD i false = s.iiRecv.getD i false := by
  unfold preRecvArr
  rw [getD_map_zipIdx _ _ _ _ _ hb]
  simp [hk]

theorem all_congr_idx {α β} (l1 : List α) (l2 : List β) (f : α → Bool) (g : β → Bool)
    (hlen : l1.length = l2.length)
    (h : ∀ (n : Nat) x y, l1[n]? = some x → l2[n]? = some y → f x = g y) : l1.all f = l2.all g := by
  induction l1 generalizing l2 with
  | nil => cases l2 with
    | nil => rfl
    | cons _ _ => simp at hlen
  | cons x l1 ih =>
    cases l2 with
    | nil => simp at hlen
    | cons y l2 =>
      simp only [List.all_cons]
      rw [h 0 x y rfl rfl, ih l2 (by simpa using hlen) (fun n x y hx hy => h (n + 1) x y (by simpa using hx) (by simpa using hy))]

end BMV.Bm

namespace BMV.Hs.Isa

theorem step_atIO (s : St) (sch : Sched) :
    (step s sch).atIO =
      if (s.atIO || sch.p) = true then
        (if (!s.valid && (!s.cs.isEmpty && s.cs.all (·.recv))) = true then true
         else if (!s.cs.isEmpty && s.cs.all (·.recv)) = true then false else true)
      else s.atIO := by
  unfold step
  dsimp only
  cases hv : s.valid <;> cases ha : (s.atIO || sch.p) <;> cases hr : (!s.cs.isEmpty && s.cs.all (·.recv)) <;> simp_all

end BMV.Hs.Isa

namespace BMV.Bm
open BMV BMV.Bits BMV.Topology

/-! ### one agent of a bond, one tick -/

/-- is the instruction at `pc` an `r2owa` on output `o`? -/
def atR2owa (a : Arch) (prog : List Bits) (pc o : Nat) : Bool :=
  match decode a prog pc with
  | some (op, body) => op == "r2owa" && Isa.field body a.r a.outBits == o
  | none => false

/-- is the instruction at `pc` an `i2rw` on input `k`? -/
def atI2rw (a : Arch) (prog : List Bits) (pc k : Nat) : Bool :=
  match decode a prog pc with
  | some (op, body) => op == "i2rw" && Isa.field body a.r a.inBits == k
  | none => false

/-- a processor's input port `k` as a consumer of C04's model -/
def ConsRel (a : Arch) (prog : List Bits) (k : Nat) (v : VmState) (hc : Hs.Isa.Cons) : Prop :=
  hc.recv = v.inRecv.getD k false ∧ hc.deferred = decide (k ∈ v.deferred) ∧
  (hc.atIO = true → atI2rw a prog v.pc k = true)

theorem getD_of_getElem? {α} {l : List α} {k : Nat} {x d : α} (h : l[k]? = some x) : l.getD k d = x := by
  rw [List.getD_eq_getElem?_getD, h]; rfl

theorem getElem?_of_getD_lt {l : List Bool} {k : Nat} (hk : k < l.length) : l[k]? = some (l.getD k false) := by
  rw [List.getD_eq_getElem?_getD, List.getElem?_eq_getElem hk]; rfl

theorem cons_step (a : Arch) (prog : List Bits) (k : Nat) (v v1 v' : VmState) (hc : Hs.Isa.Cons) (V : Bool) (d : Nat)
    (hrel : ConsRel a prog k v hc) (hsb : SameButPorts v v1) (hV : v1.inValid[k]? = some V)
    (hklen : k < v.inRecv.length) (hstep : Isa.step a prog v1 = some v') :
    ConsRel a prog k v' (Hs.Isa.cstep V d (atI2rw a prog v.pc k) hc) := by
  obtain ⟨hrecv, hdef, hat⟩ := hrel
  obtain ⟨hnone, hsome⟩ := step_decode hstep
  -- the deferred instruction first
  have hd0 := runDeferred_obs v1 k
  rw [hsb.inRecv, hsb.deferred, hV] at hd0
  have hlen0 : k < (Isa.runDeferred v1).inRecv.length := by
    have : (Isa.runDeferred v1).inRecv.length = v1.inRecv.length := by
      unfold Isa.runDeferred; exact foldl_set_length _ _
    rw [this, hsb.inRecv]; exact hklen
  have hV0 : (Isa.runDeferred v1).inValid[k]? = some V := hV
  have hpc0 : (Isa.runDeferred v1).pc = v.pc := hsb.pc
  -- C04's consumer after its deferred phase
  let c1 : Hs.Isa.Cons := if hc.deferred && !V then { hc with recv := false, deferred := false } else hc
  have hc1r : c1.recv = (Isa.runDeferred v1).inRecv.getD k false := by
    rw [hd0.1]
    show (if hc.deferred && !V then ({ hc with recv := false, deferred := false } : Hs.Isa.Cons) else hc).recv = _
    cases V <;> by_cases hm : k ∈ v.deferred <;> simp [hdef, hm, hrecv]
  have hc1d : c1.deferred = decide (k ∈ (Isa.runDeferred v1).deferred) := by
    have := hd0.2
    show (if hc.deferred && !V then ({ hc with recv := false, deferred := false } : Hs.Isa.Cons) else hc).deferred = _
    cases V <;> by_cases hm : k ∈ v.deferred <;> simp_all
  have hc1a : c1.atIO = hc.atIO := by
    show (if hc.deferred && !V then ({ hc with recv := false, deferred := false } : Hs.Isa.Cons) else hc).atIO = _
    split <;> rfl
  have hcstep : Hs.Isa.cstep V d (atI2rw a prog v.pc k) hc =
      (if c1.atIO || atI2rw a prog v.pc k then
        if V && c1.recv then { c1 with atIO := true }
        else if V then { c1 with got := c1.got ++ [d], recv := true, deferred := true, atIO := false }
        else { c1 with recv := false, atIO := true }
      else c1) := rfl
  rw [hcstep]
  rw [← hsb.pc] at hat
  by_cases hex : atI2rw a prog v.pc k = true
  · -- the processor executes its i2rw on this port
    rw [hex, Bool.or_true, if_pos rfl]
    unfold atI2rw at hex
    rw [← hsb.pc] at hex
    cases hd : decode a prog v1.pc with
    | none => simp [hd] at hex
    | some ob =>
      obtain ⟨op, body⟩ := ob
      simp only [hd, Bool.and_eq_true, beq_iff_eq] at hex
      obtain ⟨hop, hk⟩ := hex
      subst hop hk
      have hx := hsome _ _ hd
      obtain ⟨_, b, x, hb, _, hwait, htake, hlow⟩ := exec_i2rw_obs hx
      rw [hV0] at hb; cases hb
      cases V with
      | false =>
        obtain ⟨hpc, hir, hdf⟩ := hlow rfl
        simp only [Bool.false_and, Bool.false_eq_true, if_false]
        refine ⟨?_, ?_, fun _ => ?_⟩
        · rw [hir, List.getD_eq_getElem?_getD, List.getElem?_set_self hlen0]; rfl
        · rw [hdf]; exact hc1d
        · unfold atI2rw; rw [hpc, hpc0, ← hsb.pc, hd]; simp
      | true =>
        by_cases hr : c1.recv = true
        · have : (Isa.runDeferred v1).inRecv[Isa.field body a.r a.inBits]? = some true := by
            rw [getElem?_of_getD_lt hlen0, ← hc1r, hr]
          have hv' := hwait rfl this
          subst hv'
          simp only [hr, Bool.and_self, if_true]
          refine ⟨?_, hc1d, fun _ => ?_⟩
          · show true = _
            rw [← hc1r, hr]
          · unfold atI2rw; rw [hpc0, ← hsb.pc, hd]; simp
        · have hr' : c1.recv = false := by cases h : c1.recv <;> simp_all
          have : (Isa.runDeferred v1).inRecv[Isa.field body a.r a.inBits]? ≠ some true := by
            rw [getElem?_of_getD_lt hlen0, ← hc1r, hr']; simp
          obtain ⟨_, hir, hdm, _⟩ := htake rfl this
          simp only [hr', Bool.and_false, Bool.false_eq_true, if_false, if_true]
          refine ⟨?_, ?_, fun hh => by cases hh⟩
          · rw [hir, List.getD_eq_getElem?_getD, List.getElem?_set_self hlen0]; rfl
          · simp [hdm]
  · -- busy elsewhere (or halted): only the deferred instruction touches the port
    have hex' : atI2rw a prog v.pc k = false := by cases h : atI2rw a prog v.pc k <;> simp_all
    have hcat : hc.atIO = false := by
      cases h : hc.atIO
      · rfl
      · rw [hsb.pc] at hat; exact absurd (hat h) hex
    rw [hex', hc1a, hcat]
    simp only [Bool.or_self, Bool.false_eq_true, if_false]
    have hkeep : v'.inRecv.getD k false = (Isa.runDeferred v1).inRecv.getD k false ∧
        (k ∈ v'.deferred ↔ k ∈ (Isa.runDeferred v1).deferred) := by
      cases hd : decode a prog v1.pc with
      | none => rw [hnone hd]; exact ⟨rfl, Iff.rfl⟩
      | some ob =>
        obtain ⟨op, body⟩ := ob
        have hx := hsome _ _ hd
        by_cases hop : op = "i2rw"
        · subst hop
          have hk : k ≠ Isa.field body a.r a.inBits := by
            intro e
            unfold atI2rw at hex'
            rw [← hsb.pc, hd] at hex'
            simp [e] at hex'
          exact (exec_i2rw_obs hx).1 k hk
        · obtain ⟨h1, h2⟩ := (exec_frame hx).2 hop
          rw [h1, h2]; exact ⟨rfl, Iff.rfl⟩
    refine ⟨by rw [hkeep.1]; exact hc1r, ?_, fun hh => ?_⟩
    · rw [hc1d]; simp only [decide_eq_decide]; exact hkeep.2.symm
    · rw [hc1a, hcat] at hh; cases hh

/-- a processor's output port `o` as the producer of C04's model: valid line and "is at its
    r2owa", one tick; `rIn` = the conjunction of the consumers' recv it is shown -/
theorem prod_step (a : Arch) (prog : List Bits) (o : Nat) (v v1 v' : VmState) (hsAtIO hsValid rIn : Bool)
    (hval : hsValid = v.outValid.getD o false) (hat : hsAtIO = true → atR2owa a prog v.pc o = true)
    (hsb : SameButPorts v v1) (hR : v1.outRecv[o]? = some rIn) (holen : o < v.outValid.length)
    (hstep : Isa.step a prog v1 = some v') :
    v'.outValid.getD o false =
      (if (hsAtIO || atR2owa a prog v.pc o) = true then (if rIn = true then false else true) else hsValid) ∧
    ((if (hsAtIO || atR2owa a prog v.pc o) = true then
        (if (!hsValid && rIn) = true then true else if rIn = true then false else true)
      else hsAtIO) = true → atR2owa a prog v'.pc o = true) := by
  obtain ⟨hnone, hsome⟩ := step_decode hstep
  have hov0 : (Isa.runDeferred v1).outValid = v.outValid := hsb.outValid
  have hor0 : (Isa.runDeferred v1).outRecv = v1.outRecv := rfl
  have hpc0 : (Isa.runDeferred v1).pc = v.pc := hsb.pc
  by_cases hex : atR2owa a prog v.pc o = true
  · rw [hex, Bool.or_true, if_pos rfl, if_pos rfl]
    unfold atR2owa at hex
    rw [← hsb.pc] at hex
    cases hd : decode a prog v1.pc with
    | none => simp [hd] at hex
    | some ob =>
      obtain ⟨op, body⟩ := ob
      simp only [hd, Bool.and_eq_true, beq_iff_eq] at hex
      obtain ⟨hop, hk⟩ := hex
      subst hop hk
      have hx := hsome _ _ hd
      obtain ⟨_, rc, hrc, hwait, hgo⟩ := exec_r2owa_obs hx
      rw [hor0, hR] at hrc; cases hrc
      have hvalid : (Isa.runDeferred v1).outValid[Isa.field body a.r a.outBits]? = some hsValid := by
        rw [hov0, hval]; exact getElem?_of_getD_lt holen
      have hatpc : ∀ w : VmState, w.pc = (Isa.runDeferred v1).pc → atR2owa a prog w.pc (Isa.field body a.r a.outBits) = true := by
        intro w hw
        unfold atR2owa; rw [hw, hpc0, ← hsb.pc, hd]; simp
      cases hsV : hsValid with
      | false =>
        cases hrI : rIn with
        | true =>
          have := hwait (by rw [hvalid, hsV]) hrI
          subst this
          refine ⟨?_, fun _ => hatpc _ rfl⟩
          rw [hov0, ← hval, hsV]; simp
        | false =>
          obtain ⟨_, _, hlow⟩ := hgo (by rw [hrI]; simp)
          obtain ⟨hpc, hov⟩ := hlow hrI
          refine ⟨?_, fun _ => hatpc _ hpc⟩
          rw [hov, List.getD_eq_getElem?_getD, List.getElem?_set_self (by rw [hov0]; exact holen)]; simp
      | true =>
        obtain ⟨_, hhigh, hlow⟩ := hgo (by rw [hvalid, hsV]; simp)
        cases hrI : rIn with
        | true =>
          obtain ⟨_, hov⟩ := hhigh hrI
          refine ⟨?_, fun hh => by simp at hh⟩
          rw [hov, List.getD_eq_getElem?_getD, List.getElem?_set_self (by rw [hov0]; exact holen)]; simp
        | false =>
          obtain ⟨hpc, hov⟩ := hlow hrI
          refine ⟨?_, fun _ => hatpc _ hpc⟩
          rw [hov, List.getD_eq_getElem?_getD, List.getElem?_set_self (by rw [hov0]; exact holen)]; simp
  · have hex' : atR2owa a prog v.pc o = false := by cases h : atR2owa a prog v.pc o <;> simp_all
    have hcat : hsAtIO = false := by
      cases h : hsAtIO
      · rfl
      · exact absurd (hat h) hex
    rw [hex', hcat]
    simp only [Bool.or_self, Bool.false_eq_true, if_false]
    refine ⟨?_, fun hh => by cases hh⟩
    rw [hval]
    cases hd : decode a prog v1.pc with
    | none => rw [hnone hd, hov0]
    | some ob =>
      obtain ⟨op, body⟩ := ob
      have hx := hsome _ _ hd
      by_cases hop : op = "r2owa"
      · subst hop
        have hk : o ≠ Isa.field body a.r a.outBits := by
          intro e
          unfold atR2owa at hex'
          rw [← hsb.pc, hd] at hex'
          simp [e] at hex'
        rw [(exec_r2owa_obs hx).1 o hk, hov0]
      · rw [(exec_frame hx).1 hop, hov0]

/-! ### a processor-to-processor bond of a machine, projected onto C04's model -/

/-- the machine is one the tools build (same content as `Props.C02.MachineOk`) -/
structure MachineWF (m : Machine) : Prop where
  wf : WF m.topo
  archs : m.archs.length = m.topo.procs.length
  progs : m.progs.length = m.topo.procs.length
  ports : ∀ (p : Nat) (a : Arch), m.archs[p]? = some a → m.topo.procs[p]? = some (a.n, a.m)

/-- internal output `j` is output `o` of processor `q`, and only processor inputs are bonded to it -/
structure ProcBond (m : Machine) (j q o : Nat) : Prop where
  drv : m.topo.iout[j]? = some ⟨3, q, o⟩
  cons : ∀ i ∈ consumerSlots m.topo.links j, ∃ c k, m.topo.iin[i]? = some ⟨2, c, k⟩

def slotProc (t : Topo) (i : Nat) : Nat := ((t.iin[i]?).map (·.res)).getD 0
def slotPort (t : Topo) (i : Nat) : Nat := ((t.iin[i]?).map (·.ext)).getD 0
def archOf (m : Machine) (p : Nat) : Arch := m.archs.getD p default
def progOf (m : Machine) (p : Nat) : List Bits := m.progs.getD p []
def procOf (s : BmState) (p : Nat) : VmState := s.procs.getD p {}

/-- the state of bond `j` in machine state `s`, as a state `hs` of C04's simulator-world model:
    valid line, every consumer's recv line and pending deferred instruction agree; an agent that the
    model holds at its IO instruction really has its pc there -/
def BondRel (m : Machine) (j q o : Nat) (s : BmState) (hs : Hs.Isa.St) : Prop :=
  hs.valid = (procOf s q).outValid.getD o false ∧
  (hs.atIO = true → atR2owa (archOf m q) (progOf m q) (procOf s q).pc o = true) ∧
  hs.cs.length = (consumerSlots m.topo.links j).length ∧
  ∀ (n i : Nat), (consumerSlots m.topo.links j)[n]? = some i →
    ConsRel (archOf m (slotProc m.topo i)) (progOf m (slotProc m.topo i)) (slotPort m.topo i)
      (procOf s (slotProc m.topo i)) (hs.cs.getD n {})

/-- the schedule of one tick, read off the processors' pcs: an agent "wants" the bond when the
    instruction it is about to execute is its handshake instruction on this bond -/
def bondSched (m : Machine) (j q o : Nat) (s : BmState) : Hs.Sched :=
  { p := atR2owa (archOf m q) (progOf m q) (procOf s q).pc o
    c := (consumerSlots m.topo.links j).map fun i =>
      atI2rw (archOf m (slotProc m.topo i)) (progOf m (slotProc m.topo i)) (procOf s (slotProc m.topo i)).pc (slotPort m.topo i) }

theorem mem_consumerSlots {links : List (Option Nat)} {i j : Nat} :
    i ∈ consumerSlots links j ↔ links[i]? = some (some j) :=
  mem_slotsOfChan (t := { links := links })

theorem recvOf_eq (links : List (Option Nat)) (iiRecv : List Bool) (j : Nat) :
    recvOf links iiRecv j =
      (!(consumerSlots links j).isEmpty && (consumerSlots links j).all (fun i => iiRecv.getD i false)) := by
  unfold recvOf
  rw [recvFold_closed, recvsOf_links]
  simp [List.all_map, Function.comp_def]

theorem getD_some {α} {l : List α} {p : Nat} {x d : α} (h : l[p]? = some x) : l.getD p d = x := by
  rw [List.getD_eq_getElem?_getD, h]; rfl

/-- facts about a processor that owns an endpoint of the graph -/
theorem proc_of_endpoint {m : Machine} (hm : MachineWF m) {s : BmState} (hlen : s.procs.length = m.archs.length)
    {p : Nat} {nm : Nat × Nat} (hp : m.topo.procs[p]? = some nm) :
    ∃ v a prog, s.procs[p]? = some v ∧ m.archs[p]? = some a ∧ m.progs[p]? = some prog ∧ nm = (a.n, a.m) := by
  have hlt : p < m.topo.procs.length := (List.getElem?_eq_some_iff.mp hp).1
  have h1 : p < s.procs.length := by rw [hlen, hm.archs]; exact hlt
  have h2 : p < m.archs.length := by rw [hm.archs]; exact hlt
  have h3 : p < m.progs.length := by rw [hm.progs]; exact hlt
  refine ⟨s.procs[p], m.archs[p], m.progs[p], List.getElem?_eq_getElem h1, List.getElem?_eq_getElem h2,
    List.getElem?_eq_getElem h3, ?_⟩
  have := hm.ports p _ (List.getElem?_eq_getElem h2)
  rw [hp] at this
  exact Option.some.inj this

/-- **projection of one machine step onto one step of C04's bond model** -/
theorem isa_bond_projects {m : Machine} (hm : MachineWF m) {j q o : Nat} (hb : ProcBond m j q o)
    {s : BmState} {e : EnvIn} {s' : BmState} (hlen : s.procs.length = m.archs.length) (hz : Sized m s)
    (hco : Coherent m.topo s) (hstep : isaStep m (setEnv s e) = some s')
    {hs : Hs.Isa.St} (hrel : BondRel m j q o s hs) :
    BondRel m j q o s' (Hs.Isa.step hs (bondSched m j q o s)) := by
  obtain ⟨hval, hat, hcl, hcons⟩ := hrel
  have hwf := hm.wf
  obtain ⟨_, _, hspec⟩ := isaStep_spec hwf hstep
  -- the machine state the loops read (the environment only writes external arrays)
  have hprocs : (setEnv s e).procs = s.procs := rfl
  -- the producer
  have hjlt : j < m.topo.iout.length := (List.getElem?_eq_some_iff.mp hb.drv).1
  have hqo : ∃ nm, m.topo.procs[q]? = some nm ∧ o < nm.2 := by
    rcases (hwf.iout_mem _).mp (List.mem_of_getElem? hb.drv) with ⟨h0, _⟩ | ⟨_, nm, hp, ho⟩
    · simp at h0
    · exact ⟨nm, hp, ho⟩
  obtain ⟨nmq, hpq, hoq⟩ := hqo
  obtain ⟨vq, aq, progq, hvq, haq, hprq, hnmq⟩ := proc_of_endpoint hm hlen hpq
  have hzq := hz q vq aq hvq haq
  have hoq' : o < aq.m := by rw [hnmq] at hoq; exact hoq
  have eaq : archOf m q = aq := getD_some haq
  have eprq : progOf m q = progq := getD_some hprq
  have evq : procOf s q = vq := getD_some hvq
  -- every consumer slot
  have hslot : ∀ i, i ∈ consumerSlots m.topo.links j → ∃ c k vc ac progc, m.topo.iin[i]? = some ⟨2, c, k⟩ ∧
      m.topo.links[i]? = some (some j) ∧ s.procs[c]? = some vc ∧ m.archs[c]? = some ac ∧ m.progs[c]? = some progc ∧
      k < ac.n ∧ slotProc m.topo i = c ∧ slotPort m.topo i = k := by
    intro i hi
    obtain ⟨c, k, hik⟩ := hb.cons i hi
    have hck : ∃ nm, m.topo.procs[c]? = some nm ∧ k < nm.1 := by
      rcases (hwf.iin_mem _).mp (List.mem_of_getElem? hik) with ⟨h0, _⟩ | ⟨_, nm, hp, hk⟩
      · simp at h0
      · exact ⟨nm, hp, hk⟩
    obtain ⟨nm, hp, hk⟩ := hck
    obtain ⟨vc, ac, progc, hvc, hac, hprc, hnm⟩ := proc_of_endpoint hm hlen hp
    refine ⟨c, k, vc, ac, progc, hik, mem_consumerSlots.mp hi, hvc, hac, hprc, by rw [hnm] at hk; exact hk, ?_, ?_⟩
    · simp [slotProc, hik]
    · simp [slotPort, hik]
  -- what the producer is shown as `received`
  have hrin : recvOf m.topo.links (preRecvArr m.topo (setEnv s e)) j = (!hs.cs.isEmpty && hs.cs.all (·.recv)) := by
    rw [recvOf_eq]
    congr 1
    · cases h1 : hs.cs <;> cases h2 : consumerSlots m.topo.links j <;> simp_all
    · symm
      apply all_congr_idx _ _ _ _ hcl
      intro n x i hx hi
      obtain ⟨c, k, vc, ac, progc, hik, _, hvc, _, _, _, esp, esk⟩ := hslot i (List.mem_of_getElem? hi)
      have := (hcons n i hi).1
      rw [getD_some hx, esp, esk] at this
      rw [this, preRecvArr_proc (setEnv s e) hik (by simp)]
      exact ((hco.ii i c k hik)).symm ▸ rfl
  refine ⟨?_, ?_, ?_, ?_⟩
  · -- valid
    obtain ⟨a, prog, v1, v', ha, hp, h1, hst, hv'⟩ := hspec q vq hvq
    rw [haq] at ha; cases ha
    rw [hprq] at hp; cases hp
    obtain ⟨v1', h1', hsb, _, hrcv⟩ := preMove_proc hwf (setEnv s e) (p := q) (v := vq) hvq
    rw [h1] at h1'; cases h1'
    have hR := hrcv o j hb.drv (by rw [hzq.outRecv]; exact hoq')
    have := (prod_step aq progq o vq v1 v' hs.atIO hs.valid _ (by rw [hval, evq]) (by rw [← eaq, ← eprq, ← evq]; exact hat)
      hsb hR (by rw [hzq.outValid]; exact hoq') hst).1
    rw [Hs.Isa.step_valid, ← hrin]
    show _ = (procOf s' q).outValid.getD o false
    rw [show procOf s' q = v' from getD_some hv', this]
    simp only [bondSched, eaq, eprq, evq]
  · -- the producer's pc
    obtain ⟨a, prog, v1, v', ha, hp, h1, hst, hv'⟩ := hspec q vq hvq
    rw [haq] at ha; cases ha
    rw [hprq] at hp; cases hp
    obtain ⟨v1', h1', hsb, _, hrcv⟩ := preMove_proc hwf (setEnv s e) (p := q) (v := vq) hvq
    rw [h1] at h1'; cases h1'
    have hR := hrcv o j hb.drv (by rw [hzq.outRecv]; exact hoq')
    have := (prod_step aq progq o vq v1 v' hs.atIO hs.valid _ (by rw [hval, evq]) (by rw [← eaq, ← eprq, ← evq]; exact hat)
      hsb hR (by rw [hzq.outValid]; exact hoq') hst).2
    rw [Hs.Isa.step_atIO, ← hrin]
    rw [show procOf s' q = v' from getD_some hv', eaq, eprq]
    simp only [bondSched, eaq, eprq, evq]
    exact this
  · rw [Hs.Isa.step_cs_length]; exact hcl
  · -- the consumers
    intro n i hi
    obtain ⟨c, k, vc, ac, progc, hik, hlk, hvc, hac, hprc, hk, esp, esk⟩ := hslot i (List.mem_of_getElem? hi)
    have hn : n < hs.cs.length := by rw [hcl]; exact (List.getElem?_eq_some_iff.mp hi).1
    obtain ⟨a, prog, v1, v', ha, hp, h1, hst, hv'⟩ := hspec c vc hvc
    rw [hac] at ha; cases ha
    rw [hprc] at hp; cases hp
    obtain ⟨v1', h1', hsb, hin, _⟩ := preMove_proc hwf (setEnv s e) (p := c) (v := vc) hvc
    rw [h1] at h1'; cases h1'
    have hzc := hz c vc ac hvc hac
    have hV := (hin k i hik (by rw [hzc.inputs]; exact hk) (by rw [hzc.inValid]; exact hk)).2
    rw [(preIi_linked (setEnv s e) hlk hb.drv (by simp)).2] at hV
    have hVv : (setEnv s e).ioValid.getD j false = hs.valid := by
      show s.ioValid.getD j false = _
      rw [(hco.io j q o hb.drv).2, hval]; rfl
    rw [hVv] at hV
    have hrel0 := hcons n i hi
    have eac : archOf m c = ac := getD_some hac
    have eprc : progOf m c = progc := getD_some hprc
    have evc : procOf s c = vc := getD_some hvc
    rw [esp, esk, eac, eprc, evc] at hrel0
    have := cons_step ac progc k vc v1 v' (hs.cs.getD n {}) hs.valid hs.data hrel0 hsb hV (by rw [hzc.inRecv]; exact hk) hst
    rw [esp, esk, eac, eprc, show procOf s' c = v' from getD_some hv']
    have hget := Hs.Isa.step_cs_get hs (bondSched m j q o s) n hn
    rw [getD_some hget]
    have hw : Hs.wantOf (bondSched m j q o s) hs.cs.length n = atI2rw ac progc vc.pc k := by
      unfold Hs.wantOf bondSched
      simp only
      rw [List.getElem?_append_left (by simp; rw [← hcl]; exact hn), List.getElem?_map, hi]
      simp only [Option.map_some, Option.getD_some, esp, esk, eac, eprc, evc]
    rw [hw]
    have hcn : hs.cs[n] = hs.cs.getD n {} := by
      rw [List.getD_eq_getElem?_getD, List.getElem?_eq_getElem hn]; rfl
    rw [hcn]
    exact this

/-! ### runs -/

/-- the machine driven by an arbitrary sequence of external stimuli (one per tick) -/
def runStim (m : Machine) : List EnvIn → BmState → Option BmState
  | [], s => some s
  | e :: es, s => (isaStep m (setEnv s e)).bind (runStim m es)

/-- the invariants of the machine state that the projection needs -/
structure StateOk (m : Machine) (s : BmState) : Prop where
  len : s.procs.length = m.archs.length
  sized : Sized m s
  coh : Coherent m.topo s

theorem init_ok (m : Machine) : StateOk m (Bm.init m) := by
  refine ⟨by simp [Bm.init], ?_, ?_⟩
  · intro p v a hv ha
    simp only [Bm.init, List.getElem?_map, ha, Option.map_some, Option.some.injEq] at hv
    subst hv
    exact ⟨by simp [Isa.init], by simp [Isa.init], by simp [Isa.init], by simp [Isa.init], by simp [Isa.init], by simp [Isa.init]⟩
  · have hz : ∀ (q o : Nat), ((Bm.init m).procs.getD q {}).outputs.getD o 0 = 0 ∧
        ((Bm.init m).procs.getD q {}).outValid.getD o false = false ∧
        ((Bm.init m).procs.getD q {}).inRecv.getD o false = false := by
      intro q o
      simp only [Bm.init, List.getD_eq_getElem?_getD, List.getElem?_map]
      cases m.archs[q]? with
      | none => simp
      | some a =>
        simp only [Option.map_some, Option.getD_some, Isa.init, List.getElem?_replicate]
        refine ⟨?_, ?_, ?_⟩ <;> split <;> rfl
    constructor
    · intro j q o _
      rw [(hz q o).1, (hz q o).2.1]
      simp only [Bm.init, List.getD_eq_getElem?_getD, List.getElem?_replicate]
      constructor <;> split <;> rfl
    · intro i c k _
      rw [(hz c k).2.2]
      simp only [Bm.init, List.getD_eq_getElem?_getD, List.getElem?_replicate]
      split <;> rfl

theorem step_ok {m : Machine} (hm : MachineWF m) {s : BmState} {e : EnvIn} {s' : BmState}
    (hs : isaStep m (setEnv s e) = some s') (h : StateOk m s) : StateOk m s' := by
  obtain ⟨hco, hlen, _⟩ := isaStep_spec hm.wf hs
  exact ⟨by rw [hlen]; exact h.len, isaStep_sized hm.wf hs h.sized, hco⟩

theorem init_rel (m : Machine) (j q o : Nat) :
    BondRel m j q o (Bm.init m) (Hs.Isa.init (consumerSlots m.topo.links j).length) := by
  have hz : ∀ (c k : Nat), ((Bm.init m).procs.getD c {}).outValid.getD k false = false ∧
      ((Bm.init m).procs.getD c {}).inRecv.getD k false = false ∧ ((Bm.init m).procs.getD c {}).deferred = [] := by
    intro c k
    simp only [Bm.init, List.getD_eq_getElem?_getD, List.getElem?_map]
    cases m.archs[c]? with
    | none => simp
    | some a =>
      simp only [Option.map_some, Option.getD_some, Isa.init, List.getElem?_replicate]
      refine ⟨?_, ?_, trivial⟩ <;> split <;> rfl
  refine ⟨?_, fun h => by simp [Hs.Isa.init] at h, by simp [Hs.Isa.init], ?_⟩
  · show false = _
    rw [show procOf (Bm.init m) q = (Bm.init m).procs.getD q {} from rfl, (hz q o).1]
  · intro n i hi
    have hn : n < (consumerSlots m.topo.links j).length := (List.getElem?_eq_some_iff.mp hi).1
    have : (Hs.Isa.init (consumerSlots m.topo.links j).length).cs.getD n {} = {} := by
      simp [Hs.Isa.init, List.getD_eq_getElem?_getD, List.getElem?_replicate, hn]
    rw [this]
    refine ⟨?_, ?_, fun h => by cases h⟩
    · show false = _
      rw [show procOf (Bm.init m) _ = (Bm.init m).procs.getD _ {} from rfl, (hz _ _).2.1]
    · show false = _
      rw [show procOf (Bm.init m) _ = (Bm.init m).procs.getD _ {} from rfl, (hz _ (slotPort m.topo i)).2.2]
      simp

/-- **every run of a machine, under any external stimulus, projects bond by bond onto a run of
    C04's handshake model** (and keeps the state invariants) -/
theorem isa_bond_run_projects {m : Machine} (hm : MachineWF m) {j q o : Nat} (hb : ProcBond m j q o)
    (es : List EnvIn) (s s' : BmState) (hs : Hs.Isa.St) (hok : StateOk m s) (hrel : BondRel m j q o s hs)
    (hrun : runStim m es s = some s') :
    ∃ schs, schs.length = es.length ∧ StateOk m s' ∧ BondRel m j q o s' (Hs.Isa.run hs schs) := by
  induction es generalizing s hs with
  | nil =>
    simp only [runStim, Option.some.injEq] at hrun
    subst hrun
    exact ⟨[], rfl, hok, hrel⟩
  | cons e es ih =>
    simp only [runStim] at hrun
    cases h1 : isaStep m (setEnv s e) with
    | none => simp [h1] at hrun
    | some s1 =>
      simp only [h1, Option.bind_some] at hrun
      have hrel1 := isa_bond_projects hm hb hok.len hok.sized hok.coh h1 hrel
      obtain ⟨schs, hl, hok', hrel'⟩ := ih s1 _ (step_ok hm h1 hok) hrel1 hrun
      exact ⟨bondSched m j q o s :: schs, by simp [hl], hok', by simpa [Hs.Isa.run] using hrel'⟩

theorem runIsa_is_runStim (m : Machine) (spec : EnvSpec) (n : Nat) (x r : BmState × EnvSt × Bool)
    (h : runIsa m spec n x = some r) : ∃ es, es.length = n ∧ runStim m es x.1 = some r.1 := by
  induction n generalizing x with
  | zero =>
    simp only [runIsa, Option.some.injEq] at h
    subst h
    exact ⟨[], rfl, rfl⟩
  | succ n ih =>
    obtain ⟨s, env, hz⟩ := x
    simp only [runIsa] at h
    split at h
    · cases h
    · rename_i s2 h2
      obtain ⟨es, hl, hr⟩ := ih _ h
      exact ⟨envDrive (envStep spec env (observeIsa s)) :: es, by simp [hl], by simp only [runStim, h2]; exact hr⟩

theorem hs_inv_run (k : Nat) (schs : List Hs.Sched) : Hs.Isa.Inv (Hs.Isa.run (Hs.Isa.init k) schs) := by
  unfold Hs.Isa.run
  suffices ∀ s, Hs.Isa.Inv s → Hs.Isa.Inv (schs.foldl Hs.Isa.step s) from this _ (Hs.Isa.inv_init k)
  induction schs with
  | nil => intro s h; exact h
  | cons a t ih => intro s h; exact ih _ (Hs.Isa.inv_step s a h)

/-- what C04's invariant says about the *machine's* registers on a processor-to-processor bond, in
    every reachable state: a consumer's deferred `waitRecvI2rw` is pending exactly while its
    `InputsRecv` is up, and while the producer's `OutputsValid` is low the consumers' `InputsRecv`
    are all up or all down (they re-arm together) -/
theorem isa_bond_invariant {m : Machine} (hm : MachineWF m) {j q o : Nat} (hb : ProcBond m j q o)
    (es : List EnvIn) (s' : BmState) (hrun : runStim m es (Bm.init m) = some s') :
    (∀ i ∈ consumerSlots m.topo.links j,
      (slotPort m.topo i ∈ (procOf s' (slotProc m.topo i)).deferred ↔
        (procOf s' (slotProc m.topo i)).inRecv.getD (slotPort m.topo i) false = true)) ∧
    ((procOf s' q).outValid.getD o false = false →
      (∀ i ∈ consumerSlots m.topo.links j, (procOf s' (slotProc m.topo i)).inRecv.getD (slotPort m.topo i) false = true) ∨
      (∀ i ∈ consumerSlots m.topo.links j, (procOf s' (slotProc m.topo i)).inRecv.getD (slotPort m.topo i) false = false)) := by
  obtain ⟨schs, _, _, hrel⟩ := isa_bond_run_projects hm hb es _ s' _ (init_ok m) (init_rel m j q o) hrun
  have hinv := hs_inv_run (consumerSlots m.topo.links j).length schs
  generalize Hs.Isa.run (Hs.Isa.init (consumerSlots m.topo.links j).length) schs = hs at hrel hinv
  obtain ⟨hval, _, hcl, hcons⟩ := hrel
  obtain ⟨_, _, hci, hlow⟩ := hinv
  have hmem : ∀ i ∈ consumerSlots m.topo.links j, ∃ n c, (consumerSlots m.topo.links j)[n]? = some i ∧ hs.cs[n]? = some c ∧
      c ∈ hs.cs ∧ hs.cs.getD n {} = c := by
    intro i hi
    obtain ⟨n, hn⟩ := List.mem_iff_getElem?.mp hi
    have hlt : n < hs.cs.length := by rw [hcl]; exact (List.getElem?_eq_some_iff.mp hn).1
    exact ⟨n, hs.cs[n], hn, List.getElem?_eq_getElem hlt, List.getElem_mem hlt, getD_some (List.getElem?_eq_getElem hlt)⟩
  constructor
  · intro i hi
    obtain ⟨n, c, hn, _, hc, hg⟩ := hmem i hi
    obtain ⟨hr, hd, _⟩ := hcons n i hn
    rw [hg] at hr hd
    have := (hci c hc).1
    rw [hr, hd] at this
    constructor
    · intro h; rw [← this]; simpa using h
    · intro h; rw [h] at this; simpa using this
  · intro hv
    rw [← hval] at hv
    rcases hlow hv with h | h
    · left
      intro i hi
      obtain ⟨n, c, hn, _, hc, hg⟩ := hmem i hi
      have hr := (hcons n i hn).1
      rw [hg] at hr
      rw [← hr]; exact h c hc
    · right
      intro i hi
      obtain ⟨n, c, hn, _, hc, hg⟩ := hmem i hi
      have hr := (hcons n i hn).1
      rw [hg] at hr
      rw [← hr]; exact h c hc

end BMV.Bm
