/-
  C02 helper: the declarations clause of the netlist model — no data net of `wire t` is an implicit
  1-bit net (`data_nets_declared'`).
-/
import BMV.Proofs.Bond
namespace BMV.Bond
open BMV.Topology

/-! ### declarations: every data net the netlist mentions is declared `rsize` bits wide -/

def DataDeclared (nl : Netlist) (rs : Nat) (b : Topology.Bond) : Prop :=
  ∃ d ∈ nl.decls, d.net = .data b ∧ d.width = rs

theorem decl_of_iout {t : Topo} (rs : Nat) {o : Topology.Bond} (ho : o ∈ t.iout) : DataDeclared (wire t rs) rs o := by
  obtain ⟨j, hj⟩ := List.mem_iff_getElem?.mp ho
  refine ⟨⟨.none, true, rs, .data o⟩, ?_, rfl, rfl⟩
  simp only [wire]
  apply List.mem_append_right
  unfold outputDecls
  rw [List.mem_flatMap]
  exact ⟨(o, j), List.mem_zipIdx_iff_getElem?.mpr hj, by simp⟩

theorem decl_of_unlinked {t : Topo} (rs : Nat) {s : Topology.Bond} (hs : (s, none) ∈ t.iin.zip t.links) :
    DataDeclared (wire t rs) rs s := by
  refine ⟨⟨.none, true, rs, .data s⟩, ?_, rfl, rfl⟩
  simp only [wire]
  apply List.mem_append_left
  apply List.mem_append_right
  unfold unlinkedDecls
  rw [List.mem_filterMap]
  exact ⟨(s, none), hs, rfl⟩

theorem decl_of_extOut {t : Topo} (rs : Nat) {k : Nat} (hk : k < t.outputs) : DataDeclared (wire t rs) rs (extOut k) := by
  refine ⟨⟨.output, false, rs, .data (extOut k)⟩, ?_, rfl, rfl⟩
  simp only [wire]
  apply List.mem_append_left
  apply List.mem_append_left
  unfold portDecls
  apply List.mem_append_right
  rw [List.mem_flatMap]
  exact ⟨k, List.mem_range.mpr hk, by simp⟩

/-- every data net attached to an instance port or named in an assign of `wire t` is declared with
    the machine's register size (so no data net is an implicit 1-bit net) -/
theorem data_nets_declared' {t : Topo} (h : WF t) (rs : Nat) :
    (∀ i ∈ (wire t rs).insts, ∀ b, Net.data b ∈ i.conns → DataDeclared (wire t rs) rs b) ∧
    (∀ a ∈ (wire t rs).assigns, (∀ b, a.1 = .data b → DataDeclared (wire t rs) rs b) ∧
      (∀ b, a.2 = .id (.data b) → DataDeclared (wire t rs) rs b)) := by
  constructor
  · intro i hi b hb
    simp only [wire, List.mem_map] at hi
    obtain ⟨⟨nm, p⟩, hm, rfl⟩ := hi
    have hp : t.procs[p]? = some nm := List.mem_zipIdx_iff_getElem?.mp hm
    simp only [procInst, List.mem_append, List.mem_cons, List.mem_flatMap, List.mem_range] at hb
    rcases hb with (hb | ⟨e, he, hb⟩) | ⟨e, he, hb⟩
    · rcases hb with hb | hb | hb <;> cases hb
    · have hmem : (⟨2, p, e⟩ : Topology.Bond) ∈ t.iin := mem_iin_proc h hp he
      rw [procInputConns_eq h hmem] at hb
      cases hd : driverOf t ⟨2, p, e⟩ with
      | none =>
        rw [hd] at hb
        simp only [triple, List.mem_cons, List.not_mem_nil, or_false] at hb
        rcases hb with hb | hb | hb <;> cases hb
        obtain ⟨i, l, hi, hl⟩ := slot_of_mem h hmem
        rw [driverOf_slot h hi hl] at hd
        cases l with
        | none => exact decl_of_unlinked rs (mem_zip_iff.mpr ⟨i, hi, hl⟩)
        | some j =>
          obtain ⟨o, ho⟩ := link_target h hl
          simp [ho] at hd
      | some o =>
        rw [hd] at hb
        simp only [List.mem_cons, List.not_mem_nil, or_false] at hb
        rcases hb with hb | hb | hb <;> cases hb
        have := (driverOf_iff_bond h hmem).mp hd
        obtain ⟨_, j, _, _, h3⟩ := mem_bonds.mp this
        exact decl_of_iout rs (List.mem_of_getElem? h3)
    · simp only [triple, List.mem_cons, List.not_mem_nil, or_false] at hb
      rcases hb with hb | hb | hb <;> cases hb
      exact decl_of_iout rs ((h.iout_mem _).mpr (Or.inr ⟨rfl, nm, hp, he⟩))
  · intro a ha
    rcases mem_wire_assigns.mp ha with he | ⟨o, j, _, ha'⟩
    · obtain ⟨b, j, o, hm, hk, ho, h2⟩ := mem_extAssigns.mp he
      have hbi : b ∈ t.iin := (List.of_mem_zip hm).1
      have hb' : b = extOut b.res ∧ b.res < t.outputs := by
        rcases (h.iin_mem b).mp hbi with ⟨_, hr, he⟩ | ⟨h2', _⟩
        · exact ⟨by cases b; simp_all [extOut], hr⟩
        · omega
      constructor
      · intro b' hb
        rcases h2 with h2 | h2 <;> rw [h2] at hb <;> cases hb
        rw [hb'.1]; exact decl_of_extOut rs hb'.2
      · intro b' hb
        rcases h2 with h2 | h2 <;> rw [h2] at hb <;> cases hb
        exact decl_of_iout rs (List.mem_of_getElem? ho)
    · have h1 := (mem_recvAssign ha').2
      have h2 := (mem_recvAssign ha').1
      constructor
      · intro b hb; rw [hb] at h1; cases h1
      · intro b hb
        unfold recvSpec at h2
        rw [hb] at h2
        split at h2 <;> simp at h2

end BMV.Bond
