/-
  Helper lemmas for C02: the netlist model BMV.Bond.wire connects exactly the bonds
  (`exact_wire`), and the running && of VM.Step (BMV.Bm.recvOf).  Property theorems live in
  BMV/Props/C02.lean.
-/
import BMV.Bond
import BMV.Bm
import BMV.Proofs.Topology
namespace BMV.Bond
open BMV.Topology

/-! ### generic list facts -/

theorem find?_unique {α} {l : List α} {p : α → Bool} {x : α} (hx : x ∈ l) (hp : p x = true)
    (hu : ∀ y ∈ l, p y = true → y = x) : l.find? p = some x := by
  cases h : l.find? p with
  | none => exact absurd hp (by simpa using (List.find?_eq_none.mp h) x hx)
  | some y => rw [hu y (List.mem_of_find?_eq_some h) (List.find?_some h)]

theorem length_flatMap3 {α β} (l : List α) (g : α → List β) (hg : ∀ x ∈ l, (g x).length = 3) :
    (l.flatMap g).length = 3 * l.length := by
  induction l with
  | nil => simp
  | cons a l ih =>
    simp only [List.flatMap_cons, List.length_append, List.length_cons]
    rw [hg a (by simp), ih (fun x hx => hg x (by simp [hx]))]; omega

theorem getElem?_flatMap3 {α β} (l : List α) (g : α → List β) (hg : ∀ x ∈ l, (g x).length = 3)
    (e k : Nat) (hk : k < 3) : (l.flatMap g)[3 * e + k]? = (l[e]?).bind (fun x => (g x)[k]?) := by
  induction l generalizing e with
  | nil => simp
  | cons a l ih =>
    have ha := hg a (by simp)
    simp only [List.flatMap_cons]
    cases e with
    | zero =>
      rw [List.getElem?_append_left (by omega)]; simp
    | succ e =>
      rw [List.getElem?_append_right (by omega), ha]
      have : 3 * (e + 1) + k - 3 = 3 * e + k := by omega
      rw [this, ih (fun x hx => hg x (by simp [hx]))]; simp

theorem find?_zipIdx_map {α} (l : List α) (f : α × Nat → Inst) (hf : ∀ x k, (f (x, k)).proc = k)
    (k p : Nat) (x : α) (h : l[p]? = some x) :
    ((l.zipIdx k).map f).find? (fun i => i.proc = k + p) = some (f (x, k + p)) := by
  induction l generalizing k p with
  | nil => simp at h
  | cons a l ih =>
    simp only [List.zipIdx_cons, List.map_cons, List.find?_cons]
    cases p with
    | zero => simp at h; subst h; simp [hf]
    | succ p =>
      have : ¬ (k = k + (p + 1)) := by omega
      simp only [hf, this, decide_false]
      have := ih (k + 1) p (by simpa using h)
      rw [show k + 1 + p = k + (p + 1) by omega] at this
      simpa using this

theorem map_proc_zipIdx {α} (l : List α) (f : α × Nat → Inst) (hf : ∀ x k, (f (x, k)).proc = k) :
    (l.zipIdx.map f).map (·.proc) = List.range l.length := by
  have : (l.zipIdx.map f).map (·.proc) = l.zipIdx.map Prod.snd := by
    simp only [List.map_map]; apply List.map_congr_left; intro ⟨x, k⟩ _; simp [hf]
  rw [this, List.zipIdx_map_snd]; simp [List.range_eq_range']

/-! ### the zipped (internal input, link) list of a well-formed machine -/

theorem mem_zip_iff {t : Topo} {b : Bond} {l : Option Nat} :
    (b, l) ∈ t.iin.zip t.links ↔ ∃ i : Nat, t.iin[i]? = some b ∧ t.links[i]? = some l := by
  constructor
  · intro h
    obtain ⟨i, hi⟩ := List.mem_iff_getElem?.mp h
    rw [List.getElem?_zip_eq_some] at hi
    exact ⟨i, hi⟩
  · rintro ⟨i, h1, h2⟩
    exact List.mem_iff_getElem?.mpr ⟨i, by rw [List.getElem?_zip_eq_some]; exact ⟨h1, h2⟩⟩

/-- a sink sits in exactly one slot -/
theorem zip_unique {t : Topo} (h : WF t) {s : Bond} {i : Nat} {l l' : Option Nat}
    (hs : t.iin[i]? = some s) (hl : t.links[i]? = some l) (hm : (s, l') ∈ t.iin.zip t.links) : l' = l := by
  obtain ⟨i', h1, h2⟩ := mem_zip_iff.mp hm
  have := idx_unique h.iin_nodup h1 hs
  subst this
  rw [hl] at h2; exact (Option.some.inj h2).symm

theorem slot_of_mem {t : Topo} (h : WF t) {s : Bond} (hs : s ∈ t.iin) :
    ∃ (i : Nat) (l : Option Nat), t.iin[i]? = some s ∧ t.links[i]? = some l := by
  obtain ⟨i, hi⟩ := List.mem_iff_getElem?.mp hs
  have hlt : i < t.links.length := by
    have := (List.getElem?_eq_some_iff.mp hi).1
    rw [h.links_len]; exact this
  exact ⟨i, t.links[i], hi, List.getElem?_eq_getElem hlt⟩

theorem find_slot {t : Topo} (h : WF t) {s : Bond} {i : Nat} {l : Option Nat}
    (hs : t.iin[i]? = some s) (hl : t.links[i]? = some l) :
    (t.iin.zip t.links).find? (fun q => q.1 = s) = some (s, l) := by
  apply find?_unique (mem_zip_iff.mpr ⟨i, hs, hl⟩) (by simp)
  rintro ⟨b, l'⟩ hm hb
  simp only [decide_eq_true_eq] at hb
  subst hb
  rw [zip_unique h hs hl hm]

theorem driverOf_slot {t : Topo} (h : WF t) {s : Bond} {i : Nat} {l : Option Nat}
    (hs : t.iin[i]? = some s) (hl : t.links[i]? = some l) :
    driverOf t s = match l with | some j => t.iout[j]? | none => none := by
  unfold driverOf
  rw [find_slot h hs hl]
  cases l <;> rfl

/-- a link of a well-formed machine points at an internal output -/
theorem link_target {t : Topo} (h : WF t) {i j : Nat} (hl : t.links[i]? = some (some j)) :
    ∃ o, t.iout[j]? = some o :=
  ⟨t.iout[j]'(links_rng_idx h hl), List.getElem?_eq_getElem _⟩

theorem driverOf_iff_bond {t : Topo} (h : WF t) {s o : Bond} (hs : s ∈ t.iin) :
    driverOf t s = some o ↔ (o, s) ∈ bonds t := by
  obtain ⟨i, l, hi, hl⟩ := slot_of_mem h hs
  rw [driverOf_slot h hi hl, mem_bonds]
  constructor
  · intro hd
    cases l with
    | none => simp at hd
    | some j => exact ⟨i, j, hi, hl, hd⟩
  · rintro ⟨i', j, h1, h2, h3⟩
    have := idx_unique h.iin_nodup h1 hi
    subst this
    rw [hl] at h2
    cases l with
    | none => simp at h2
    | some j' => simp at h2; subst h2; exact h3

theorem procInputConns_eq {t : Topo} (h : WF t) {p e : Nat} (hs : (⟨2, p, e⟩ : Bond) ∈ t.iin) :
    procInputConns t p e =
      match driverOf t ⟨2, p, e⟩ with
      | some o => [.data o, .valid o, .recv ⟨2, p, e⟩]
      | none => triple ⟨2, p, e⟩ := by
  obtain ⟨i, l, hi, hl⟩ := slot_of_mem h hs
  rw [driverOf_slot h hi hl]
  unfold procInputConns
  rw [find_slot h hi hl]
  cases l with
  | none => rfl
  | some j =>
    obtain ⟨o, ho⟩ := link_target h hl
    simp [ho]

theorem procInputConns_length {t : Topo} (h : WF t) {p e : Nat} (hs : (⟨2, p, e⟩ : Bond) ∈ t.iin) :
    (procInputConns t p e).length = 3 := by
  rw [procInputConns_eq h hs]
  cases driverOf t ⟨2, p, e⟩ <;> rfl


/-! ### instances and their connections -/

theorem wire_inst {t : Topo} {rs p : Nat} {nm : Nat × Nat} (hp : t.procs[p]? = some nm) :
    (wire t rs).inst p = some (procInst t p nm) := by
  have := find?_zipIdx_map t.procs (fun q => procInst t q.2 q.1) (fun _ _ => rfl) 0 p nm hp
  simpa [Netlist.inst, wire] using this

theorem wire_insts (t : Topo) (rs : Nat) : (wire t rs).insts.map (·.proc) = List.range t.procs.length :=
  map_proc_zipIdx t.procs (fun q => procInst t q.2 q.1) (fun _ _ => rfl)

theorem mem_iin_proc {t : Topo} (h : WF t) {p e : Nat} {nm : Nat × Nat} (hp : t.procs[p]? = some nm)
    (he : e < nm.1) : (⟨2, p, e⟩ : Bond) ∈ t.iin :=
  (h.iin_mem _).mpr (Or.inr ⟨rfl, nm, hp, he⟩)

theorem inputs_length {t : Topo} (h : WF t) {p : Nat} {nm : Nat × Nat} (hp : t.procs[p]? = some nm) :
    ((List.range nm.1).flatMap (procInputConns t p)).length = 3 * nm.1 := by
  rw [length_flatMap3 _ _ (fun e he => procInputConns_length h (mem_iin_proc h hp (List.mem_range.mp he)))]
  simp

/-- connection `k` of processor input `e` -/
theorem conn_input {t : Topo} (h : WF t) {p e k : Nat} {nm : Nat × Nat} (hp : t.procs[p]? = some nm)
    (he : e < nm.1) (hk : k < 3) :
    (procInst t p nm).conns[2 + 3 * e + k]? = (procInputConns t p e)[k]? := by
  unfold procInst
  simp only
  have hlen := inputs_length h hp
  rw [List.append_assoc, List.getElem?_append_right (by simp only [List.length_cons, List.length_nil]; omega), List.getElem?_append_left (by simp only [List.length_cons, List.length_nil]; omega)]
  have : 2 + 3 * e + k - [Net.clk, Net.reset].length = 3 * e + k := by simp; omega
  rw [this, getElem?_flatMap3 _ _ (fun e he => procInputConns_length h (mem_iin_proc h hp (List.mem_range.mp he))) e k hk,
    List.getElem?_range he]
  rfl

/-- connection `k` of processor output `e` -/
theorem conn_output {t : Topo} (h : WF t) {p e k : Nat} {nm : Nat × Nat} (hp : t.procs[p]? = some nm)
    (he : e < nm.2) (hk : k < 3) :
    (procInst t p nm).conns[2 + 3 * nm.1 + 3 * e + k]? = (triple ⟨3, p, e⟩)[k]? := by
  unfold procInst
  simp only
  have hlen := inputs_length h hp
  rw [List.getElem?_append_right (by simp only [List.length_append, List.length_cons, List.length_nil, hlen]; omega)]
  have : 2 + 3 * nm.1 + 3 * e + k - ([Net.clk, Net.reset] ++ (List.range nm.1).flatMap (procInputConns t p)).length = 3 * e + k := by
    simp only [List.length_append, List.length_cons, List.length_nil, hlen]; omega
  rw [this, getElem?_flatMap3 _ _ (fun _ _ => rfl) e k hk, List.getElem?_range he]
  rfl

theorem bond_eta2 {s : Bond} (hk : s.kind = 2) : s = ⟨2, s.res, s.ext⟩ := by
  cases s; simp_all

/-! ### the five clauses of `Exact (wire t rs) t` -/

theorem wire_sinkSrc_proc {t : Topo} (h : WF t) (rs : Nat) {s : Bond} (hs : s ∈ t.iin) (hk2 : s.kind = 2)
    {k : Nat} (hk : k < 2) : (wire t rs).sinkSrc s k = srcSpec t s k := by
  rcases (h.iin_mem s).mp hs with ⟨h1, _⟩ | ⟨_, nm, hp, he⟩
  · omega
  · have hs' : (⟨2, s.res, s.ext⟩ : Bond) ∈ t.iin := by rw [← bond_eta2 hk2]; exact hs
    unfold Netlist.sinkSrc srcSpec
    rw [if_pos hk2, wire_inst hp]
    simp only
    rw [conn_input h hp he (by omega), procInputConns_eq h hs', ← bond_eta2 hk2, if_pos hk2]
    have hk' : k = 0 ∨ k = 1 := by omega
    cases driverOf t s <;> rcases hk' with rfl | rfl <;> simp [lineNet, triple]

theorem wire_sinkRecv_proc {t : Topo} (h : WF t) (rs : Nat) {s : Bond} (hs : s ∈ t.iin) (hk2 : s.kind = 2) :
    (wire t rs).sinkRecv s = some (.recv s) := by
  rcases (h.iin_mem s).mp hs with ⟨h1, _⟩ | ⟨_, nm, hp, he⟩
  · omega
  · have hs' : (⟨2, s.res, s.ext⟩ : Bond) ∈ t.iin := by rw [← bond_eta2 hk2]; exact hs
    unfold Netlist.sinkRecv
    rw [if_pos hk2, wire_inst hp]
    simp only
    rw [conn_input h hp he (by omega), procInputConns_eq h hs', ← bond_eta2 hk2]
    cases driverOf t s <;> simp [triple]

/-! ### the continuous assignments -/

theorem mem_extAssigns {t : Topo} {a : Net × Rhs} :
    a ∈ extAssigns t ↔ ∃ b j o, (b, some j) ∈ t.iin.zip t.links ∧ b.kind = 1 ∧ t.iout[j]? = some o ∧
      (a = (.data b, .id (.data o)) ∨ a = (.valid b, .id (.valid o))) := by
  unfold extAssigns
  simp only [List.mem_flatMap]
  constructor
  · rintro ⟨⟨b, l⟩, hm, ha⟩
    cases l with
    | none => simp at ha
    | some j =>
      simp only at ha
      split at ha
      · rename_i hk
        cases ho : t.iout[j]? with
        | none => simp [ho] at ha
        | some o =>
          simp only [ho, List.mem_cons, List.not_mem_nil, or_false] at ha
          exact ⟨b, j, o, hm, hk, ho, ha⟩
      · simp at ha
  · rintro ⟨b, j, o, hm, hk, ho, ha⟩
    refine ⟨(b, some j), hm, ?_⟩
    simp only [hk, if_true, ho, List.mem_cons, List.not_mem_nil, or_false]
    exact ha

theorem mem_recvAssign {t : Topo} {o : Bond} {j : Nat} {a : Net × Rhs} (ha : a ∈ recvAssign t o j) :
    recvSpec t j = some a.2 ∧ a.1 = .recv o := by
  unfold recvAssign at ha
  unfold recvSpec
  split at ha
  · simp at ha
  · simp only [List.mem_cons, List.not_mem_nil, or_false] at ha; subst ha; simp_all
  · simp only [List.mem_cons, List.not_mem_nil, or_false] at ha; subst ha
    simp

theorem recvAssign_of_spec {t : Topo} {o : Bond} {j : Nat} {r : Rhs} (h : recvSpec t j = some r) :
    (.recv o, r) ∈ recvAssign t o j := by
  unfold recvSpec at h
  unfold recvAssign
  split at h
  · simp at h
  · simp at h; subst h; simp_all
  · simp at h; subst h
    simp

theorem mem_wire_assigns {t : Topo} {rs : Nat} {a : Net × Rhs} :
    a ∈ (wire t rs).assigns ↔ a ∈ extAssigns t ∨ ∃ o j, t.iout[j]? = some o ∧ a ∈ recvAssign t o j := by
  simp only [wire, List.mem_append, List.mem_flatMap]
  constructor
  · rintro (h | ⟨⟨o, j⟩, hm, ha⟩)
    · exact Or.inl h
    · exact Or.inr ⟨o, j, List.mem_zipIdx_iff_getElem?.mp hm, ha⟩
  · rintro (h | ⟨o, j, hm, ha⟩)
    · exact Or.inl h
    · exact Or.inr ⟨(o, j), List.mem_zipIdx_iff_getElem?.mpr hm, ha⟩

theorem assignOf_some {nl : Netlist} {lhs : Net} {r : Rhs} (hm : (lhs, r) ∈ nl.assigns)
    (hu : ∀ a ∈ nl.assigns, a.1 = lhs → a = (lhs, r)) : nl.assignOf lhs = some r := by
  unfold Netlist.assignOf
  rw [find?_unique hm (by simp) (fun y hy hp => hu y hy (by simpa using hp))]
  rfl

theorem assignOf_none {nl : Netlist} {lhs : Net} (hu : ∀ a ∈ nl.assigns, a.1 ≠ lhs) : nl.assignOf lhs = none := by
  unfold Netlist.assignOf
  rw [List.find?_eq_none.mpr (fun a ha => by simpa using hu a ha)]
  rfl

/-- `received` of internal output `j` -/
theorem wire_recv {t : Topo} (h : WF t) (rs : Nat) {j : Nat} {o : Bond} (ho : t.iout[j]? = some o) :
    (wire t rs).assignOf (.recv o) = recvSpec t j := by
  have key : ∀ a ∈ (wire t rs).assigns, a.1 = .recv o → recvSpec t j = some a.2 := by
    intro a ha h1
    rcases mem_wire_assigns.mp ha with he | ⟨o', j', ho', ha'⟩
    · obtain ⟨b, j, o2, _, _, _, h2 | h2⟩ := mem_extAssigns.mp he <;> rw [h2] at h1 <;> cases h1
    · obtain ⟨h2, h3⟩ := mem_recvAssign ha'
      rw [h1] at h3
      cases h3
      rw [idx_unique h.iout_nodup ho ho']
      exact h2
  cases hs : recvSpec t j with
  | none =>
    apply assignOf_none
    intro a ha h1
    rw [hs] at key
    exact absurd (key a ha h1) (by simp)
  | some r =>
    apply assignOf_some (mem_wire_assigns.mpr (Or.inr ⟨o, j, ho, recvAssign_of_spec hs⟩))
    intro a ha h1
    have := key a ha h1
    rw [hs] at this
    cases a
    simp only at h1 this
    subst h1
    rw [Option.some.inj this]

/-- data / valid of a bonded external output -/
theorem wire_sinkSrc_ext {t : Topo} (h : WF t) (rs : Nat) {s : Bond} (hs : s ∈ t.iin) (hk1 : s.kind = 1)
    {k : Nat} (hk : k < 2) : (wire t rs).sinkSrc s k = srcSpec t s k := by
  obtain ⟨i, l, hi, hl⟩ := slot_of_mem h hs
  have hne : ¬ s.kind = 2 := by omega
  unfold Netlist.sinkSrc srcSpec
  rw [if_neg hne, if_neg hne, driverOf_slot h hi hl]
  -- every assignment whose left-hand side is a line of `s` comes from the slot of `s`
  have key : ∀ a ∈ (wire t rs).assigns, (a.1 = .data s ∨ a.1 = .valid s) →
      ∃ j o, l = some j ∧ t.iout[j]? = some o ∧ (a = (.data s, .id (.data o)) ∨ a = (.valid s, .id (.valid o))) := by
    intro a ha h1
    rcases mem_wire_assigns.mp ha with he | ⟨o', j', _, ha'⟩
    · obtain ⟨b, j, o, hm, _, ho, h2⟩ := mem_extAssigns.mp he
      have hb : b = s := by
        rcases h2 with h2 | h2 <;> rw [h2] at h1 <;> rcases h1 with h1 | h1 <;> cases h1 <;> rfl
      subst hb
      exact ⟨j, o, (zip_unique h hi hl hm).symm, ho, h2⟩
    · have := (mem_recvAssign ha').2
      rcases h1 with h1 | h1 <;> rw [h1] at this <;> cases this
  cases l with
  | none =>
    have : (wire t rs).assignOf (if k = 0 then Net.data s else Net.valid s) = none := by
      apply assignOf_none
      intro a ha h1
      have h1' : a.1 = .data s ∨ a.1 = .valid s := by split at h1 <;> simp [h1]
      obtain ⟨j, o, hj, _⟩ := key a ha h1'
      cases hj
    rw [this]
  | some j =>
    obtain ⟨o, ho⟩ := link_target h hl
    have hmem : ∀ a, (a = (Net.data s, Rhs.id (.data o)) ∨ a = (Net.valid s, Rhs.id (.valid o))) → a ∈ (wire t rs).assigns := by
      intro a ha
      exact mem_wire_assigns.mpr (Or.inl (mem_extAssigns.mpr ⟨s, j, o, mem_zip_iff.mpr ⟨i, hi, hl⟩, hk1, ho, ha⟩))
    have hk' : k = 0 ∨ k = 1 := by omega
    rcases hk' with rfl | rfl
    · have : (wire t rs).assignOf (Net.data s) = some (.id (.data o)) := by
        apply assignOf_some (hmem _ (Or.inl rfl))
        intro a ha h1
        obtain ⟨j', o', hj, ho', h2⟩ := key a ha (Or.inl h1)
        cases hj
        rw [ho] at ho'; cases ho'
        rcases h2 with h2 | h2
        · exact h2
        · rw [h2] at h1; cases h1
      simp [this, ho, lineNet]
    · have : (wire t rs).assignOf (Net.valid s) = some (.id (.valid o)) := by
        apply assignOf_some (hmem _ (Or.inr rfl))
        intro a ha h1
        obtain ⟨j', o', hj, ho', h2⟩ := key a ha (Or.inr h1)
        cases hj
        rw [ho] at ho'; cases ho'
        rcases h2 with h2 | h2
        · rw [h2] at h1; cases h1
        · exact h2
      simp [this, ho, lineNet]

theorem wire_frame {t : Topo} (h : WF t) (rs : Nat) : ∀ a ∈ (wire t rs).assigns,
    (∃ o ∈ t.iout, a.1 = .recv o) ∨
    (∃ s ∈ t.iin, s.kind = 1 ∧ (driverOf t s).isSome ∧ (a.1 = .data s ∨ a.1 = .valid s)) := by
  intro a ha
  rcases mem_wire_assigns.mp ha with he | ⟨o, j, ho, ha'⟩
  · obtain ⟨b, j, o, hm, hk, ho, h2⟩ := mem_extAssigns.mp he
    obtain ⟨i, hi, hl⟩ := mem_zip_iff.mp hm
    refine Or.inr ⟨b, List.mem_of_getElem? hi, hk, ?_, ?_⟩
    · rw [driverOf_slot h hi hl]; simp [ho]
    · rcases h2 with h2 | h2 <;> simp [h2]
  · exact Or.inl ⟨o, List.mem_of_getElem? ho, (mem_recvAssign ha').2⟩

/-! ### drivers, external ports -/

theorem mem_headerPorts_in {t : Topo} {k : Nat} (hk : k < t.inputs) (n : Nat) :
    lineNet n (extIn k) ∈ headerPorts t := by
  unfold headerPorts
  apply List.mem_append_left
  apply List.mem_append_right
  rw [List.mem_flatMap]
  refine ⟨k, List.mem_range.mpr hk, ?_⟩
  unfold lineNet triple
  split
  · simp
  · split <;> simp

theorem mem_headerPorts_out {t : Topo} {k : Nat} (hk : k < t.outputs) :
    Net.recv (extOut k) ∈ headerPorts t := by
  unfold headerPorts
  apply List.mem_append_right
  rw [List.mem_flatMap]
  exact ⟨k, List.mem_range.mpr hk, by simp [triple]⟩

theorem wire_drivers {t : Topo} (h : WF t) (rs : Nat) {o : Bond} (ho : o ∈ t.iout) {k : Nat} (hk : k < 3) :
    (wire t rs).drvNet o (procIns t o.res) k = some (lineNet k o) := by
  rcases (h.iout_mem o).mp ho with ⟨h0, hr, he⟩ | ⟨h3, nm, hp, he⟩
  · have hne : ¬ o.kind = 3 := by omega
    have ho' : o = extIn o.res := by cases o; simp_all [extIn]
    unfold Netlist.drvNet
    rw [if_neg hne]
    have : lineNet k o ∈ (wire t rs).ports := by rw [ho']; exact mem_headerPorts_in hr k
    simp only [lineNet] at this ⊢
    rw [if_pos this]
  · have ho' : o = ⟨3, o.res, o.ext⟩ := by cases o; simp_all
    have hn : procIns t o.res = nm.1 := by
      unfold procIns
      rw [List.getD_eq_getElem?_getD, hp]; rfl
    unfold Netlist.drvNet
    rw [if_pos h3, wire_inst hp, hn]
    simp only
    rw [conn_output h hp he hk, ← ho']
    have : k = 0 ∨ k = 1 ∨ k = 2 := by omega
    rcases this with rfl | rfl | rfl <;> simp [triple, lineNet]

theorem wire_sinkRecv_ext {t : Topo} (h : WF t) (rs : Nat) {s : Bond} (hs : s ∈ t.iin) (hk1 : s.kind = 1) :
    (wire t rs).sinkRecv s = some (.recv s) := by
  rcases (h.iin_mem s).mp hs with ⟨_, hr, he⟩ | ⟨h2, _⟩
  · have hne : ¬ s.kind = 2 := by omega
    have hs' : s = extOut s.res := by cases s; simp_all [extOut]
    unfold Netlist.sinkRecv
    rw [if_neg hne]
    have : Net.recv s ∈ (wire t rs).ports := by rw [hs']; exact mem_headerPorts_out hr
    rw [if_pos this]
  · omega

theorem iin_kind {t : Topo} (h : WF t) {s : Bond} (hs : s ∈ t.iin) : s.kind = 1 ∨ s.kind = 2 := by
  rcases (h.iin_mem s).mp hs with ⟨h1, _⟩ | ⟨h2, _⟩
  · exact Or.inl h1
  · exact Or.inr h2

/-- **the model of `Write_verilog_main` connects exactly the bonds** -/
theorem exact_wire {t : Topo} (h : WF t) (rs : Nat) : Exact (wire t rs) t where
  insts := wire_insts t rs
  drivers := fun _ ho _ hk => wire_drivers h rs ho hk
  sinkRecv := fun s hs => by
    rcases iin_kind h hs with h1 | h2
    · exact wire_sinkRecv_ext h rs hs h1
    · exact wire_sinkRecv_proc h rs hs h2
  sinkSrc := fun s hs k hk => by
    rcases iin_kind h hs with h1 | h2
    · exact wire_sinkSrc_ext h rs hs h1 hk
    · exact wire_sinkSrc_proc h rs hs h2 hk
  recv := fun _ _ ho => wire_recv h rs ho
  frame := wire_frame h rs

/-! ### consequences -/

theorem mem_consumers {t : Topo} (h : WF t) {j : Nat} {o s : Bond} (ho : t.iout[j]? = some o) :
    s ∈ consumers t j ↔ (o, s) ∈ bonds t := by
  unfold consumers
  rw [List.mem_filterMap, mem_bonds]
  constructor
  · rintro ⟨⟨b, l⟩, hm, hb⟩
    simp only at hb
    split at hb
    · rename_i hl
      simp only [Option.some.injEq] at hb
      subst hb hl
      obtain ⟨i, hi, hl⟩ := mem_zip_iff.mp hm
      exact ⟨i, j, hi, hl, ho⟩
    · simp at hb
  · rintro ⟨i, j', hi, hl, ho'⟩
    have : j' = j := idx_unique h.iout_nodup ho' ho
    subst this
    exact ⟨(s, some j'), mem_zip_iff.mpr ⟨i, hi, hl⟩, by simp⟩

/-- the value of the `_received` line of an internal output under any valuation of the nets: the
    conjunction over its consumers, and 0 (undriven) when it has none -/
theorem recv_value {nl : Netlist} {t : Topo} (hx : Exact nl t) (env : Net → Bool) {j : Nat} {o : Bond}
    (ho : t.iout[j]? = some o) :
    nl.assigned env (.recv o) = (!(consumers t j).isEmpty && (consumers t j).all (fun c => env (.recv c))) := by
  unfold Netlist.assigned
  rw [hx.recv j o ho]
  unfold recvSpec
  cases hc : consumers t j with
  | nil => simp
  | cons a as =>
    cases as with
    | nil => simp [Rhs.eval]
    | cons b bs => simp [Rhs.eval, List.all_map, Function.comp_def]

end BMV.Bond

namespace BMV.Bm
open BMV.Topology

/-! ### the running `&&` of `VM.Step` -/

/-- the recv flags of the consumers of internal output `k`, in the order of `Links` -/
def recvsOf (ps : List (Option Nat × Bool)) (k : Nat) : List Bool :=
  ps.filterMap fun p => if p.1 = some k then some p.2 else none

/-- what the Go loop does to one map entry: first hit stores, later hits `&&` -/
def comb (x : Option Bool) (rs : List Bool) : Option Bool :=
  rs.foldl (fun acc r => some (match acc with | none => r | some v => v && r)) x

theorem lookup_recvUpd (m : List (Nat × Bool)) (j k : Nat) (r : Bool) :
    (recvUpd m j r).lookup k = if k = j then comb (m.lookup j) [r] else m.lookup k := by
  unfold recvUpd comb
  by_cases hk : k = j
  · subst hk
    cases h : m.lookup k <;> simp
  · have hb : (k == j) = false := by simp [hk]
    cases h : m.lookup j <;> simp [List.lookup_cons, hb, hk]

theorem lookup_recvFold (ps : List (Option Nat × Bool)) (m : List (Nat × Bool)) (k : Nat) :
    (recvFold ps m).lookup k = comb (m.lookup k) (recvsOf ps k) := by
  induction ps generalizing m with
  | nil => simp [recvFold, recvsOf, comb]
  | cons p ps ih =>
    obtain ⟨l, r⟩ := p
    unfold recvFold at ih ⊢
    simp only [List.foldl_cons]
    cases l with
    | none => simpa [recvsOf] using ih m
    | some j =>
      simp only
      rw [ih, lookup_recvUpd]
      by_cases hk : k = j
      · subst hk; simp [recvsOf, comb]
      · have : ¬ (some j = some k) := by simp; omega
        simp [hk, recvsOf, this]

theorem comb_some (v : Bool) (rs : List Bool) : comb (some v) rs = some (v && rs.all id) := by
  induction rs generalizing v with
  | nil => simp [comb]
  | cons r rs ih =>
    have : comb (some v) (r :: rs) = comb (some (v && r)) rs := by simp [comb]
    rw [this, ih]; simp [Bool.and_assoc]

theorem comb_none (rs : List Bool) : comb none rs = if rs = [] then none else some (rs.all id) := by
  cases rs with
  | nil => simp [comb]
  | cons r rs =>
    have : comb none (r :: rs) = comb (some r) rs := by simp [comb]
    rw [this, comb_some]; simp

/-- closed form of the map entry after the loop -/
theorem recvFold_closed (ps : List (Option Nat × Bool)) (k : Nat) :
    ((recvFold ps []).lookup k).getD false = (!(recvsOf ps k).isEmpty && (recvsOf ps k).all id) := by
  rw [lookup_recvFold]
  simp only [List.lookup_nil, comb_none]
  cases h : recvsOf ps k <;> simp

theorem recvsOf_perm {ps qs : List (Option Nat × Bool)} (h : ps.Perm qs) (k : Nat) :
    (recvsOf ps k).Perm (recvsOf qs k) := h.filterMap _

theorem all_perm {l₁ l₂ : List Bool} (h : l₁.Perm l₂) : l₁.all id = l₂.all id := by
  rw [Bool.eq_iff_iff]; simp only [List.all_eq_true]
  exact ⟨fun H x hx => H x (h.mem_iff.mpr hx), fun H x hx => H x (h.mem_iff.mp hx)⟩

theorem isEmpty_perm {α} {l₁ l₂ : List α} (h : l₁.Perm l₂) : l₁.isEmpty = l₂.isEmpty := by
  cases l₁ <;> cases l₂ <;> simp_all

end BMV.Bm

namespace BMV.Bm
open BMV.Topology

/-- the slots of `Links` that point at internal output `j` -/
def consumerSlots (links : List (Option Nat)) (j : Nat) : List Nat :=
  links.zipIdx.filterMap fun (l, i) => if l = some j then some i else none

theorem recvsOf_links (links : List (Option Nat)) (iiRecv : List Bool) (j : Nat) :
    recvsOf (links.zipIdx.map fun (l, i) => (l, iiRecv.getD i false)) j =
      (consumerSlots links j).map (fun i => iiRecv.getD i false) := by
  unfold recvsOf consumerSlots
  rw [List.filterMap_map, List.map_filterMap]
  apply BMV.Topology.filterMap_congr'
  rintro ⟨l, i⟩ _
  simp only [Function.comp]
  split <;> simp

/-- `portsIn` reads, for every processor input, exactly the net that `wire t` attaches to that
    port: the rtl composition goes through the emitted netlist -/
theorem portsIn_src {t : Topo} (h : WF t) (rs : Nat) (hs : HwState) (e : EnvIn) (p : Nat) (a : Arch) (k : Nat)
    (hk : k < a.n) (hmem : (⟨2, p, k⟩ : Bond) ∈ t.iin) :
    (portsIn t hs e p a).inputs[k]? = some
      (match (Bond.wire t rs).sinkSrc ⟨2, p, k⟩ 0 with
       | some (.data o) => if o ∈ t.iout then hwData hs e o else 0
       | _ => 0) := by
  have hx := (Bond.exact_wire h rs).sinkSrc _ hmem 0 (by omega)
  rw [hx]
  unfold portsIn Bond.srcSpec
  simp only [List.getElem?_map, List.getElem?_range hk, Option.map_some]
  cases hd : Bond.driverOf t ⟨2, p, k⟩ with
  | none =>
    simp only [driverOf, hd, Bond.lineNet, if_true]
    have : (⟨2, p, k⟩ : Bond) ∉ t.iout := fun ho => iin_iout_disjoint h hmem ho
    simp [this]
  | some o =>
    have ho : o ∈ t.iout := by
      have := (Bond.driverOf_iff_bond h hmem).mp hd
      obtain ⟨_, j, _, _, h3⟩ := mem_bonds.mp this
      exact List.mem_of_getElem? h3
    simp [driverOf, hd, Bond.lineNet, ho]

end BMV.Bm
