/-
  Helper lemmas for C10 (BMV.Topology).  Property theorems live in BMV/Props/C10.lean.
-/
import BMV.Topology
namespace BMV.Topology

/-! ### bonds, by indices -/

theorem mem_bonds {t : Topo} {p : Bond × Bond} :
    p ∈ bonds t ↔ ∃ (i j : Nat), t.iin[i]? = some p.2 ∧ t.links[i]? = some (some j) ∧ t.iout[j]? = some p.1 := by
  unfold bonds
  simp only [List.mem_filterMap]
  constructor
  · rintro ⟨⟨b, l⟩, hmem, h⟩
    obtain ⟨i, hi⟩ := List.mem_iff_getElem?.mp hmem
    rw [List.getElem?_zip_eq_some] at hi
    cases l with
    | none => simp at h
    | some j =>
      simp only at h
      cases ho : t.iout[j]? with
      | none => simp [ho] at h
      | some o =>
        simp [ho] at h
        subst h
        exact ⟨i, j, hi.1, hi.2, ho⟩
  · rintro ⟨i, j, h1, h2, h3⟩
    refine ⟨(p.2, some j), ?_, ?_⟩
    · apply List.mem_iff_getElem?.mpr
      exact ⟨i, by rw [List.getElem?_zip_eq_some]; exact ⟨h1, h2⟩⟩
    · simp [h3]

theorem links_rng_idx {t : Topo} (h : WF t) {i j : Nat} (hl : t.links[i]? = some (some j)) :
    j < t.iout.length :=
  h.links_rng j (List.mem_of_getElem? hl)

/-- in a duplicate-free list an element has one position -/
theorem idx_unique {α} {l : List α} (hn : l.Nodup) {i j : Nat} {a : α}
    (hi : l[i]? = some a) (hj : l[j]? = some a) : i = j := by
  obtain ⟨hi', _⟩ := List.getElem?_eq_some_iff.mp hi
  exact (List.getElem?_inj hi' hn).mp (hi.trans hj.symm)

/-! ### the empty machine -/

theorem wf_empty : WF Topo.empty := by
  refine ⟨rfl, ?_, List.nodup_nil, List.nodup_nil, ?_, ?_⟩
  · intro j hj; simp [Topo.empty] at hj
  · intro b; simp [Topo.empty, isIin]
  · intro b; simp [Topo.empty, isIout]

/-! ### edits that only append (addInput, addOutput, addProcessor) -/

theorem bonds_append {t t' : Topo} (h : WF t) (xs ys : List Bond)
    (hi : t'.iin = t.iin ++ xs) (hl : t'.links = t.links ++ List.replicate xs.length none)
    (ho : t'.iout = t.iout ++ ys) (p : Bond × Bond) : p ∈ bonds t' ↔ p ∈ bonds t := by
  simp only [mem_bonds]
  constructor
  · rintro ⟨i, j, h1, h2, h3⟩
    have hil : i < t.links.length := by
      rw [hl] at h2
      by_cases hlt : i < t.links.length
      · exact hlt
      · rw [List.getElem?_append_right (by omega)] at h2
        rw [List.getElem?_replicate] at h2
        split at h2 <;> simp at h2
    have h2' : t.links[i]? = some (some j) := by
      rw [hl, List.getElem?_append_left hil] at h2; exact h2
    have hj := links_rng_idx h h2'
    refine ⟨i, j, ?_, h2', ?_⟩
    · rw [hi, List.getElem?_append_left (by rw [← h.links_len]; exact hil)] at h1; exact h1
    · rw [ho, List.getElem?_append_left hj] at h3; exact h3
  · rintro ⟨i, j, h1, h2, h3⟩
    have hil : i < t.links.length := (List.getElem?_eq_some_iff.mp h2).1
    have hj := links_rng_idx h h2
    refine ⟨i, j, ?_, ?_, ?_⟩
    · rw [hi, List.getElem?_append_left (by rw [← h.links_len]; exact hil)]; exact h1
    · rw [hl, List.getElem?_append_left hil]; exact h2
    · rw [ho, List.getElem?_append_left hj]; exact h3

theorem getElem?_snoc_eq_some {α} (l : List α) (x a : α) (r : Nat) :
    (l ++ [x])[r]? = some a ↔ l[r]? = some a ∨ (r = l.length ∧ a = x) := by
  by_cases h : r < l.length
  · rw [List.getElem?_append_left h]
    constructor
    · exact Or.inl
    · rintro (h1 | ⟨h1, _⟩)
      · exact h1
      · omega
  · rw [List.getElem?_append_right (by omega)]
    have hn : l[r]? = none := List.getElem?_eq_none (by omega)
    rw [hn]
    by_cases h2 : r = l.length
    · subst h2; simp [eq_comm]
    · have : r - l.length ≠ 0 := by omega
      obtain ⟨k, hk⟩ := Nat.exists_eq_succ_of_ne_zero this
      rw [hk]; simp; intro h3; exact absurd h3 h2

theorem wf_addInput {t : Topo} (h : WF t) : WF (addInput t) := by
  have hnew : (⟨0, t.inputs, 0⟩ : Bond) ∉ t.iout := by
    intro hm
    rcases (h.iout_mem _).mp hm with ⟨_, h2, _⟩ | ⟨h1, _⟩
    · simp at h2
    · simp at h1
  refine ⟨h.links_len, ?_, h.iin_nodup, ?_, ?_, ?_⟩
  · intro j hj
    have := h.links_rng j hj
    simp [addInput]; omega
  · simp only [addInput]
    rw [List.nodup_append]
    refine ⟨h.iout_nodup, by simp, ?_⟩
    intro a ha b hb
    simp at hb; subst hb
    intro e; subst e; exact hnew ha
  · intro b
    rw [show (addInput t).iin = t.iin from rfl, h.iin_mem]
    simp [isIin, addInput]
  · intro b
    simp only [addInput, List.mem_append, List.mem_singleton, h.iout_mem, isIout]
    constructor
    · rintro ((⟨h1, h2, h3⟩ | hB) | hC)
      · exact Or.inl ⟨h1, by omega, h3⟩
      · exact Or.inr hB
      · subst hC; exact Or.inl ⟨rfl, by simp, rfl⟩
    · rintro (⟨h1, h2, h3⟩ | hB)
      · by_cases hk : b.res < t.inputs
        · exact Or.inl (Or.inl ⟨h1, hk, h3⟩)
        · right
          cases b; simp at *; omega
      · exact Or.inl (Or.inr hB)
theorem nodup_map_of_inj {α β} {f : α → β} (hf : ∀ a b, f a = f b → a = b) {l : List α}
    (h : l.Nodup) : (l.map f).Nodup :=
  List.Pairwise.map f (fun a b hab e => hab (hf a b e)) h

theorem wf_addOutput {t : Topo} (h : WF t) : WF (addOutput t) := by
  have hnew : (⟨1, t.outputs, 0⟩ : Bond) ∉ t.iin := by
    intro hm
    rcases (h.iin_mem _).mp hm with ⟨_, h2, _⟩ | ⟨h1, _⟩
    · simp at h2
    · simp at h1
  refine ⟨?_, ?_, ?_, h.iout_nodup, ?_, ?_⟩
  · simp [addOutput, h.links_len]
  · intro j hj
    simp only [addOutput, List.mem_append, List.mem_singleton] at hj
    rcases hj with hj | hj
    · exact h.links_rng j hj
    · cases hj
  · simp only [addOutput]
    rw [List.nodup_append]
    refine ⟨h.iin_nodup, by simp, ?_⟩
    intro a ha b hb
    simp at hb; subst hb
    intro e; subst e; exact hnew ha
  · intro b
    simp only [addOutput, List.mem_append, List.mem_singleton, h.iin_mem, isIin]
    constructor
    · rintro ((⟨h1, h2, h3⟩ | hB) | hC)
      · exact Or.inl ⟨h1, by omega, h3⟩
      · exact Or.inr hB
      · subst hC; exact Or.inl ⟨rfl, by simp, rfl⟩
    · rintro (⟨h1, h2, h3⟩ | hB)
      · by_cases hk : b.res < t.outputs
        · exact Or.inl (Or.inl ⟨h1, hk, h3⟩)
        · right
          cases b; simp at *; omega
      · exact Or.inl (Or.inr hB)
  · intro b
    rw [show (addOutput t).iout = t.iout from rfl, h.iout_mem]
    simp [isIout, addOutput]

theorem procs_lt {t : Topo} {r : Nat} {nm : Nat × Nat} (h : t.procs[r]? = some nm) : r < t.procs.length :=
  (List.getElem?_eq_some_iff.mp h).1

theorem wf_addProcessor {t : Topo} (h : WF t) (n m : Nat) : WF (addProcessor t n m) := by
  refine ⟨?_, ?_, ?_, ?_, ?_, ?_⟩
  · simp [addProcessor, h.links_len]
  · intro j hj
    simp only [addProcessor, List.mem_append, List.mem_replicate] at hj
    rcases hj with hj | ⟨_, hj⟩
    · have := h.links_rng j hj
      simp [addProcessor]; omega
    · cases hj
  · simp only [addProcessor]
    rw [List.nodup_append]
    refine ⟨h.iin_nodup, ?_, ?_⟩
    · exact nodup_map_of_inj (fun a b e => by simpa using e) List.nodup_range
    · intro a ha b hb
      simp only [List.mem_map, List.mem_range] at hb
      obtain ⟨i, _, rfl⟩ := hb
      intro e; subst e
      rcases (h.iin_mem _).mp ha with ⟨h1, _⟩ | ⟨_, nm, h2, _⟩
      · simp at h1
      · have := procs_lt h2; simp at this
  · simp only [addProcessor]
    rw [List.nodup_append]
    refine ⟨h.iout_nodup, ?_, ?_⟩
    · exact nodup_map_of_inj (fun a b e => by simpa using e) List.nodup_range
    · intro a ha b hb
      simp only [List.mem_map, List.mem_range] at hb
      obtain ⟨i, _, rfl⟩ := hb
      intro e; subst e
      rcases (h.iout_mem _).mp ha with ⟨h1, _⟩ | ⟨_, nm, h2, _⟩
      · simp at h1
      · have := procs_lt h2; simp at this
  · intro b
    simp only [addProcessor, List.mem_append, List.mem_map, List.mem_range, h.iin_mem, isIin,
      getElem?_snoc_eq_some]
    constructor
    · rintro ((hA | ⟨h1, nm, h2, h3⟩) | ⟨i, hi, rfl⟩)
      · exact Or.inl hA
      · exact Or.inr ⟨h1, nm, Or.inl h2, h3⟩
      · exact Or.inr ⟨rfl, (n, m), Or.inr ⟨rfl, rfl⟩, hi⟩
    · rintro (hA | ⟨h1, nm, (h2 | ⟨h2, rfl⟩), h3⟩)
      · exact Or.inl (Or.inl hA)
      · exact Or.inl (Or.inr ⟨h1, nm, h2, h3⟩)
      · right
        refine ⟨b.ext, h3, ?_⟩
        cases b; simp at *; exact ⟨h1.symm, h2.symm⟩
  · intro b
    simp only [addProcessor, List.mem_append, List.mem_map, List.mem_range, h.iout_mem, isIout,
      getElem?_snoc_eq_some]
    constructor
    · rintro ((hA | ⟨h1, nm, h2, h3⟩) | ⟨i, hi, rfl⟩)
      · exact Or.inl hA
      · exact Or.inr ⟨h1, nm, Or.inl h2, h3⟩
      · exact Or.inr ⟨rfl, (n, m), Or.inr ⟨rfl, rfl⟩, hi⟩
    · rintro (hA | ⟨h1, nm, (h2 | ⟨h2, rfl⟩), h3⟩)
      · exact Or.inl (Or.inl hA)
      · exact Or.inl (Or.inr ⟨h1, nm, h2, h3⟩)
      · right
        refine ⟨b.ext, h3, ?_⟩
        cases b; simp at *; exact ⟨h1.symm, h2.symm⟩

theorem bonds_addInput {t : Topo} (h : WF t) (p) : p ∈ bonds (addInput t) ↔ p ∈ bonds t :=
  bonds_append h [] [⟨0, t.inputs, 0⟩] (by simp [addInput]) (by simp [addInput]) rfl p

theorem bonds_addOutput {t : Topo} (h : WF t) (p) : p ∈ bonds (addOutput t) ↔ p ∈ bonds t :=
  bonds_append h [⟨1, t.outputs, 0⟩] [] rfl (by simp [addOutput]) (by simp [addOutput]) p

theorem bonds_addProcessor {t : Topo} (h : WF t) (n m : Nat) (p) :
    p ∈ bonds (addProcessor t n m) ↔ p ∈ bonds t :=
  bonds_append h _ _ rfl (by simp [addProcessor]) rfl p

/-! ### edits that overwrite one link slot (delBond, addBond) -/

theorem wf_setLink {t : Topo} (h : WF t) (i : Nat) (l : Option Nat)
    (hl : ∀ j, l = some j → j < t.iout.length) : WF { t with links := t.links.set i l } := by
  refine ⟨?_, ?_, h.iin_nodup, h.iout_nodup, h.iin_mem, h.iout_mem⟩
  · simp [h.links_len]
  · intro j hj
    rcases List.mem_or_eq_of_mem_set hj with hj | hj
    · exact h.links_rng j hj
    · exact hl j hj.symm

theorem bonds_setLink {t : Topo} (h : WF t) (i : Nat) (l : Option Nat) (s : Bond)
    (hs : t.iin[i]? = some s) (p : Bond × Bond) :
    p ∈ bonds { t with links := t.links.set i l } ↔
      (p ∈ bonds t ∧ p.2 ≠ s) ∨ (∃ j, l = some j ∧ t.iout[j]? = some p.1 ∧ p.2 = s) := by
  have hil : i < t.links.length := by
    rw [h.links_len]; exact (List.getElem?_eq_some_iff.mp hs).1
  simp only [mem_bonds]
  constructor
  · rintro ⟨i', j, h1, h2, h3⟩
    simp only [List.getElem?_set] at h2
    by_cases hii : i = i'
    · subst hii
      simp only [if_true, if_pos hil] at h2
      right
      refine ⟨j, by simpa using h2, h3, ?_⟩
      rw [hs] at h1; exact (Option.some.inj h1).symm
    · simp only [if_neg hii] at h2
      left
      refine ⟨⟨i', j, h1, h2, h3⟩, ?_⟩
      intro e
      rw [e] at h1
      exact hii (idx_unique h.iin_nodup hs h1)
  · rintro (⟨⟨i', j, h1, h2, h3⟩, hne⟩ | ⟨j, rfl, h3, he⟩)
    · have hii : i ≠ i' := by
        intro e; subst e; rw [hs] at h1; exact hne (Option.some.inj h1).symm
      exact ⟨i', j, h1, by simp only [List.getElem?_set, if_neg hii]; exact h2, h3⟩
    · refine ⟨i, j, by rw [he]; exact hs, ?_, h3⟩
      simp only [List.getElem?_set, if_true, if_pos hil]

theorem wf_delBond {t : Topo} (h : WF t) (i : Nat) : WF (delBond t i) := by
  unfold delBond
  split
  · exact wf_setLink h i none (by intro j hj; cases hj)
  · exact h

theorem bonds_delBond {t : Topo} (h : WF t) (i : Nat) (p) :
    p ∈ bonds (delBond t i) ↔ p ∈ specBonds t (.delBond i) := by
  simp only [delBond, specBonds]
  cases hs : t.iin[i]? with
  | none =>
    have : ¬ i < t.links.length := by
      rw [h.links_len]; intro hh
      have := List.getElem?_eq_none_iff.mp hs; omega
    simp [this]
  | some s =>
    have : i < t.links.length := by
      rw [h.links_len]; exact (List.getElem?_eq_some_iff.mp hs).1
    simp only [this, if_true]
    rw [bonds_setLink h i none s hs]
    simp

/-- `addBond` expressed through `addBondTarget` -/
theorem addBond_eq {t : Topo} (e0 e1 : Bond) :
    (addBondTarget t e0 e1 = none ∧ addBond t e0 e1 = t) ∨
    (∃ i j o s, addBondTarget t e0 e1 = some (o, s) ∧ t.iin[i]? = some s ∧ t.iout[j]? = some o ∧
      addBond t e0 e1 = { t with links := t.links.set i (some j) }) := by
  unfold addBondTarget addBond
  rw [List.find?_eq_bind_findIdx?_getElem?]
  cases hi : t.iin.findIdx? (fun b => decide (b = e0 ∨ b = e1)) with
  | none => left; simp
  | some i =>
    obtain ⟨hlt, _, _⟩ := List.findIdx?_eq_some_iff_getElem.mp hi
    have hget : t.iin[i]? = some t.iin[i] := List.getElem?_eq_getElem hlt
    simp only [Option.bind_some, hget]
    have hother : (if some t.iin[i] = some e0 then e1 else e0) = (if t.iin[i] = e0 then e1 else e0) := by
      by_cases hh : t.iin[i] = e0 <;> simp [hh]
    rw [hother]
    generalize (if t.iin[i] = e0 then e1 else e0) = other
    cases hj : t.iout.findIdx? (fun b => decide (b = other)) with
    | none =>
      left
      have : other ∉ t.iout := by
        intro hm
        have := List.findIdx?_eq_none_iff.mp hj other hm
        simp at this
      simp [this]
    | some j =>
      right
      obtain ⟨hjlt, hp, _⟩ := List.findIdx?_eq_some_iff_getElem.mp hj
      have hje : t.iout[j] = other := by simpa using hp
      have hmem : other ∈ t.iout := hje ▸ List.getElem_mem hjlt
      refine ⟨i, j, other, t.iin[i], by simp [hmem], hget, ?_, rfl⟩
      rw [List.getElem?_eq_getElem hjlt, hje]

theorem wf_addBond {t : Topo} (h : WF t) (e0 e1 : Bond) : WF (addBond t e0 e1) := by
  rcases addBond_eq (t := t) e0 e1 with ⟨_, h2⟩ | ⟨i, j, o, s, _, _, h3, h4⟩
  · rw [h2]; exact h
  · rw [h4]
    exact wf_setLink h i (some j) (by
      intro j' hj'; cases hj'; exact (List.getElem?_eq_some_iff.mp h3).1)

theorem bonds_addBond {t : Topo} (h : WF t) (e0 e1 : Bond) (p) :
    p ∈ bonds (addBond t e0 e1) ↔ p ∈ specBonds t (.addBond e0 e1) := by
  simp only [specBonds]
  rcases addBond_eq (t := t) e0 e1 with ⟨h1, h2⟩ | ⟨i, j, o, s, h1, h2, h3, h4⟩
  · rw [h1, h2]
  · rw [h1, h4, bonds_setLink h i (some j) s h2]
    simp only [List.mem_append, List.mem_filter, List.mem_singleton, decide_eq_true_eq]
    constructor
    · rintro (hA | ⟨j', hj', ho, hs⟩)
      · exact Or.inl hA
      · cases hj'
        right
        rw [h3] at ho
        cases p; simp at *; exact ⟨ho.symm, hs⟩
    · rintro (hA | hB)
      · exact Or.inl hA
      · right; subst hB; exact ⟨j, rfl, h3, rfl⟩

/-! ### delInput -/

def MatchIn (k : Nat) (b : Bond) : Prop := b.kind = 0 ∧ b.res = k

theorem dropInput_nomatch (k : Nat) (l : List Bond) (h : ∀ b ∈ l, ¬ MatchIn k b) :
    dropInput k l = l.map (renIn k) := by
  induction l with
  | nil => rfl
  | cons a l ih =>
    have ha : ¬ MatchIn k a := h a (by simp)
    have ih' := ih (fun b hb => h b (by simp [hb]))
    unfold dropInput at *
    rw [List.filterMap_cons, List.map_cons, ← ih']
    unfold MatchIn at ha
    unfold renIn
    by_cases h0 : a.kind = 0
    · have hk : a.res ≠ k := fun e => ha ⟨h0, e⟩
      by_cases hgt : a.res > k
      · simp [h0, hk, hgt]
      · simp [h0, hk, hgt]
    · simp [h0]

theorem dropInput_split (k : Nat) (l1 l2 : List Bond) (x : Bond) (hx : MatchIn k x)
    (h1 : ∀ b ∈ l1, ¬ MatchIn k b) (h2 : ∀ b ∈ l2, ¬ MatchIn k b) :
    dropInput k (l1 ++ x :: l2) = (l1 ++ l2).map (renIn k) := by
  have e1 := dropInput_nomatch k l1 h1
  have e2 := dropInput_nomatch k l2 h2
  unfold dropInput at *
  rw [List.filterMap_append, List.filterMap_cons, e1, e2, List.map_append]
  unfold MatchIn at hx
  simp [hx.1, hx.2]

theorem keepPos_nomatch (k : Nat) (l : List Bond) (h : ∀ b ∈ l, ¬ MatchIn k b) : keepPos k l = none := by
  induction l with
  | nil => rfl
  | cons a l ih =>
    have ha : ¬ MatchIn k a := h a (by simp)
    unfold MatchIn at ha
    simp [keepPos, ih (fun b hb => h b (by simp [hb])), ha]

theorem keepPos_split (k : Nat) (l1 l2 : List Bond) (x : Bond) (hx : MatchIn k x)
    (h2 : ∀ b ∈ l2, ¬ MatchIn k b) : keepPos k (l1 ++ x :: l2) = some l1.length := by
  induction l1 with
  | nil =>
    unfold MatchIn at hx
    simp [keepPos, keepPos_nomatch k l2 h2, hx.1, hx.2]
  | cons a l ih => simp [keepPos, ih]

/-- under WF the bond of external input `k` sits at exactly one place of `iout` -/
theorem iout_split {t : Topo} (h : WF t) {k : Nat} (hk : k < t.inputs) :
    ∃ l1 l2, t.iout = l1 ++ (⟨0, k, 0⟩ : Bond) :: l2 ∧
      (∀ b ∈ l1, ¬ MatchIn k b) ∧ (∀ b ∈ l2, ¬ MatchIn k b) := by
  have hm : (⟨0, k, 0⟩ : Bond) ∈ t.iout := (h.iout_mem _).mpr (Or.inl ⟨rfl, hk, rfl⟩)
  obtain ⟨l1, l2, e⟩ := List.append_of_mem hm
  have hnd := h.iout_nodup
  rw [e] at hnd
  have huniq : ∀ b ∈ t.iout, MatchIn k b → b = ⟨0, k, 0⟩ := by
    intro b hb ⟨h0, hr⟩
    rcases (h.iout_mem b).mp hb with ⟨_, _, he⟩ | ⟨h3, _⟩
    · cases b; simp at *; exact ⟨h0, hr, he⟩
    · omega
  rw [List.nodup_append] at hnd
  obtain ⟨_, hnd2, hdisj⟩ := hnd
  refine ⟨l1, l2, e, ?_, ?_⟩
  · intro b hb hmt
    have := huniq b (by rw [e]; simp [hb]) hmt
    exact hdisj b hb _ (by simp) this
  · intro b hb hmt
    have := huniq b (by rw [e]; simp [hb]) hmt
    subst this
    exact (List.nodup_cons.mp hnd2).1 hb

/-- the combined effect of steps 1 and 4 of `Del_input` on one link -/
def delInLink (p0 : Nat) : Option Nat → Option Nat
  | none => none
  | some j => if j = p0 then none else if j > p0 then some (j - 1) else some j

theorem getElem?_mid {α} (l1 l2 : List α) (x : α) : (l1 ++ x :: l2)[l1.length]? = some x := by
  simp

theorem delInput_links {t : Topo} (h : WF t) {k : Nat} {l1 l2 : List Bond}
    (e : t.iout = l1 ++ (⟨0, k, 0⟩ : Bond) :: l2)
    (h1 : ∀ b ∈ l1, ¬ MatchIn k b) (h2 : ∀ b ∈ l2, ¬ MatchIn k b) :
    shiftLinks (keepPos k t.iout) (clearLinksTo t.iout k t.links) = t.links.map (delInLink l1.length) := by
  rw [e, keepPos_split k l1 l2 _ ⟨rfl, rfl⟩ h2]
  simp only [shiftLinks, clearLinksTo, List.map_map]
  apply List.map_congr_left
  intro l hl
  cases l with
  | none => rfl
  | some j =>
    have hj : j < t.iout.length := h.links_rng j hl
    rw [e] at hj
    simp only [Function.comp]
    obtain ⟨b, hb⟩ : ∃ b, (l1 ++ (⟨0, k, 0⟩ : Bond) :: l2)[j]? = some b :=
      ⟨_, List.getElem?_eq_getElem hj⟩
    rw [hb]
    simp only [delInLink]
    by_cases hjp : j = l1.length
    · subst hjp
      rw [getElem?_mid] at hb
      cases hb
      simp
    · have hnm : ¬ (b.kind = 0 ∧ b.res = k) := by
        have hbm : b ∈ l1 ∨ b ∈ l2 := by
          by_cases hlt : j < l1.length
          · rw [List.getElem?_append_left hlt] at hb
            exact Or.inl (List.mem_of_getElem? hb)
          · rw [List.getElem?_append_right (by omega)] at hb
            have : j - l1.length ≠ 0 := by omega
            obtain ⟨m, hm⟩ := Nat.exists_eq_succ_of_ne_zero this
            rw [hm] at hb
            simp at hb
            exact Or.inr (List.mem_of_getElem? hb)
        rcases hbm with hbm | hbm
        · exact h1 b hbm
        · exact h2 b hbm
      simp [hnm, hjp]

theorem getElem?_remove_mid {α} (l1 l2 : List α) (x : α) (j : Nat) (hj : j ≠ l1.length) :
    (l1 ++ l2)[if j > l1.length then j - 1 else j]? = (l1 ++ x :: l2)[j]? := by
  by_cases hlt : j < l1.length
  · have : ¬ j > l1.length := by omega
    simp only [this, if_false]
    rw [List.getElem?_append_left hlt, List.getElem?_append_left hlt]
  · have hgt : j > l1.length := by omega
    simp only [hgt, if_true]
    rw [List.getElem?_append_right (by omega), List.getElem?_append_right (by omega)]
    have : j - l1.length = (j - 1 - l1.length) + 1 := by omega
    rw [this]
    simp

theorem nodup_map_of_inj_on {α β} {f : α → β} {l : List α}
    (hf : ∀ a ∈ l, ∀ b ∈ l, f a = f b → a = b) (h : l.Nodup) : (l.map f).Nodup := by
  unfold List.Nodup
  rw [List.pairwise_map]
  exact List.Pairwise.imp_of_mem (fun ha hb hab e => hab (hf _ ha _ hb e)) h

theorem delInput_eq {t : Topo} (h : WF t) {k : Nat} (hk : k < t.inputs) :
    ∃ l1 l2, t.iout = l1 ++ (⟨0, k, 0⟩ : Bond) :: l2 ∧
      (∀ b ∈ l1, ¬ MatchIn k b) ∧ (∀ b ∈ l2, ¬ MatchIn k b) ∧
      delInput t k = { t with links := t.links.map (delInLink l1.length),
                              iout := (l1 ++ l2).map (renIn k), inputs := t.inputs - 1 } := by
  obtain ⟨l1, l2, e, h1, h2⟩ := iout_split h hk
  refine ⟨l1, l2, e, h1, h2, ?_⟩
  unfold delInput
  simp only [hk, if_true]
  rw [delInput_links h e h1 h2]
  congr 1
  rw [e, dropInput_split k l1 l2 _ ⟨rfl, rfl⟩ h1 h2]

theorem mem_rest_iff {t : Topo} {k : Nat} {l1 l2 : List Bond}
    (e : t.iout = l1 ++ (⟨0, k, 0⟩ : Bond) :: l2)
    (h1 : ∀ b ∈ l1, ¬ MatchIn k b) (h2 : ∀ b ∈ l2, ¬ MatchIn k b) (b : Bond) :
    b ∈ l1 ++ l2 ↔ b ∈ t.iout ∧ b ≠ ⟨0, k, 0⟩ := by
  rw [e]
  simp only [List.mem_append, List.mem_cons]
  constructor
  · rintro (hb | hb)
    · exact ⟨Or.inl hb, fun e' => h1 b hb (e' ▸ ⟨rfl, rfl⟩)⟩
    · exact ⟨Or.inr (Or.inr hb), fun e' => h2 b hb (e' ▸ ⟨rfl, rfl⟩)⟩
  · rintro ⟨hb | hb | hb, hne⟩
    · exact Or.inl hb
    · exact absurd hb hne
    · exact Or.inr hb

theorem renIn_inj {t : Topo} (h : WF t) {k : Nat} {a b : Bond}
    (ha : a ∈ t.iout) (hak : a ≠ ⟨0, k, 0⟩) (hb : b ∈ t.iout) (hbk : b ≠ ⟨0, k, 0⟩)
    (e : renIn k a = renIn k b) : a = b := by
  have hA := (h.iout_mem a).mp ha
  have hB := (h.iout_mem b).mp hb
  unfold isIout at hA hB
  unfold renIn at e
  cases a with | mk ak ar ae =>
  cases b with | mk bk br be =>
  simp only [Bond.mk.injEq, ne_eq, not_and] at *
  by_cases c1 : ak = 0 ∧ ar > k <;> by_cases c2 : bk = 0 ∧ br > k
  · simp only [c1, c2, and_self, if_true, Bond.mk.injEq] at e
    rcases hA with ⟨_, _, ea⟩ | ⟨x, _⟩
    · rcases hB with ⟨_, _, eb⟩ | ⟨y, _⟩
      · refine ⟨by omega, by omega, by omega⟩
      · omega
    · omega
  · simp only [c1, c2, and_self, if_true, if_false, Bond.mk.injEq] at e
    obtain ⟨e1, e2, e3⟩ := e
    have hb0 : bk = 0 := e1.symm
    have : ¬ br > k := fun hh => c2 ⟨hb0, hh⟩
    have hbne := hbk hb0
    rcases hB with ⟨_, _, eb⟩ | ⟨y, _⟩
    · exfalso
      have : br ≠ k := fun hh => by exact (hbk hb0 hh) eb
      omega
    · omega
  · simp only [c1, c2, and_self, if_true, if_false, Bond.mk.injEq] at e
    obtain ⟨e1, e2, e3⟩ := e
    have ha0 : ak = 0 := e1
    have : ¬ ar > k := fun hh => c1 ⟨ha0, hh⟩
    rcases hA with ⟨_, _, ea⟩ | ⟨y, _⟩
    · exfalso
      have : ar ≠ k := fun hh => by exact (hak ha0 hh) ea
      omega
    · omega
  · simp only [c1, c2, if_false, Bond.mk.injEq] at e
    exact e

theorem wf_delInput {t : Topo} (h : WF t) (k : Nat) : WF (delInput t k) := by
  by_cases hk : k < t.inputs
  · obtain ⟨l1, l2, e, h1, h2, heq⟩ := delInput_eq h hk
    rw [heq]
    have hlen : t.iout.length = l1.length + l2.length + 1 := by rw [e]; simp; omega
    refine ⟨?_, ?_, h.iin_nodup, ?_, ?_, ?_⟩
    · simp [h.links_len]
    · intro j' hj'
      simp only [List.mem_map] at hj'
      obtain ⟨l, hl, hlj⟩ := hj'
      cases l with
      | none => simp [delInLink] at hlj
      | some j =>
        have hj := h.links_rng j hl
        simp only [delInLink] at hlj
        simp only [List.length_map, List.length_append]
        split at hlj
        · cases hlj
        · split at hlj <;> cases hlj <;> omega
    · apply nodup_map_of_inj_on
      · intro a ha b hb hab
        rw [mem_rest_iff e h1 h2] at ha hb
        exact renIn_inj h ha.1 ha.2 hb.1 hb.2 hab
      · have := h.iout_nodup
        rw [e] at this
        exact (List.nodup_append.mp this).1 |> fun n1 =>
          List.nodup_append.mpr ⟨n1, (List.nodup_cons.mp (List.nodup_append.mp this).2.1).2,
            fun a ha b hb => (List.nodup_append.mp this).2.2 a ha b (by simp [hb])⟩
    · exact h.iin_mem
    · intro b
      simp only [List.mem_map, mem_rest_iff e h1 h2, isIout]
      constructor
      · rintro ⟨a, ⟨ha, hak⟩, rfl⟩
        have hA := (h.iout_mem a).mp ha
        unfold isIout at hA
        unfold renIn
        cases a with | mk ak ar ae =>
        simp only [Bond.mk.injEq, ne_eq, not_and] at *
        by_cases c1 : ak = 0 ∧ ar > k
        · simp only [c1, and_self, if_true]
          rcases hA with ⟨_, _, _⟩ | ⟨x, _⟩
          · left; refine ⟨trivial, by omega, trivial⟩
          · omega
        · simp only [c1, if_false]
          rcases hA with ⟨a0, a1, a2⟩ | hB
          · left
            have : ¬ ar > k := fun hh => c1 ⟨a0, hh⟩
            have : ar ≠ k := fun hh => (hak a0 hh) a2
            exact ⟨a0, by omega, a2⟩
          · exact Or.inr hB
      · rintro (⟨b0, b1, b2⟩ | hB)
        · by_cases hge : b.res ≥ k
          · refine ⟨⟨0, b.res + 1, 0⟩, ⟨(h.iout_mem _).mpr (Or.inl ⟨rfl, by simp; omega, rfl⟩), by simp; omega⟩, ?_⟩
            unfold renIn
            have : b.res + 1 > k := by omega
            cases b; simp at *; simp [this, b0, b2]
          · refine ⟨b, ⟨(h.iout_mem _).mpr (Or.inl ⟨b0, by omega, b2⟩), ?_⟩, ?_⟩
            · intro e'; rw [e'] at hge; simp at hge
            · unfold renIn
              have : ¬ b.res > k := by omega
              simp [this]
        · refine ⟨b, ⟨(h.iout_mem _).mpr (Or.inr hB), ?_⟩, ?_⟩
          · intro e'; rw [e'] at hB; simp at hB
          · unfold renIn
            have : ¬ b.kind = 0 := by omega
            simp [this]
  · unfold delInput; simp [hk]; exact h

theorem bonds_delInput {t : Topo} (h : WF t) (k : Nat) (p) :
    p ∈ bonds (delInput t k) ↔ p ∈ specBonds t (.delInput k) := by
  simp only [specBonds]
  by_cases hk : k < t.inputs
  · simp only [hk, if_true]
    obtain ⟨l1, l2, e, h1, h2, heq⟩ := delInput_eq h hk
    rw [heq]
    simp only [List.mem_map, List.mem_filter, decide_eq_true_eq, mem_bonds]
    constructor
    · rintro ⟨i, j', hi, hl, ho⟩
      simp only [List.getElem?_map] at hl
      cases hli : t.links[i]? with
      | none => simp [hli] at hl
      | some l =>
        simp only [hli, Option.map_some, Option.some.injEq] at hl
        cases l with
        | none => simp [delInLink] at hl
        | some j =>
          have hj := links_rng_idx h hli
          simp only [delInLink] at hl
          by_cases hjp : j = l1.length
          · simp [hjp] at hl
          · simp only [hjp, if_false] at hl
            have hj' : j' = if j > l1.length then j - 1 else j := by
              split at hl <;> simp at hl <;> simp [*] <;> omega
            rw [hj', List.getElem?_map, getElem?_remove_mid l1 l2 _ j hjp, ← e] at ho
            obtain ⟨o, ho1, ho2⟩ := Option.map_eq_some_iff.mp ho
            refine ⟨(o, p.2), ⟨⟨i, j, hi, hli, ho1⟩, ?_⟩, ?_⟩
            · intro e'
              simp only at e'
              rw [e'] at ho1
              have hx : t.iout[l1.length]? = some (⟨0, k, 0⟩ : Bond) := by rw [e]; simp
              exact hjp (idx_unique h.iout_nodup ho1 hx)
            · cases p; simp at *; exact ho2
    · rintro ⟨⟨o, s⟩, ⟨⟨i, j, hi, hl, ho⟩, hne⟩, rfl⟩
      simp only at hi ho hne ⊢
      have hjp : j ≠ l1.length := by
        intro e'
        subst e'
        rw [e] at ho
        simp at ho
        exact hne ho.symm
      refine ⟨i, if j > l1.length then j - 1 else j, hi, ?_, ?_⟩
      · simp only [List.getElem?_map, hl, Option.map_some, delInLink, hjp, if_false]
        split <;> rfl
      · rw [List.getElem?_map, getElem?_remove_mid l1 l2 _ j hjp, ← e, ho]; rfl
  · simp only [hk, if_false]
    unfold delInput; simp [hk]

/-! ### delOutput (the kind-1 analogues of the delInput lemmas) -/

def dropOutL (k : Nat) (l : List Bond) : List Bond :=
  l.filterMap fun b =>
    if b.kind = 1 then
      if b.res = k then none
      else if b.res > k then some ⟨1, b.res - 1, 0⟩
      else some b
    else some b

def MatchOut (k : Nat) (b : Bond) : Prop := b.kind = 1 ∧ b.res = k

theorem dropOutL_nomatch (k : Nat) (l : List Bond) (h : ∀ b ∈ l, ¬ MatchOut k b) :
    dropOutL k l = l.map (renOut k) := by
  induction l with
  | nil => rfl
  | cons a l ih =>
    have ha : ¬ MatchOut k a := h a (by simp)
    have ih' := ih (fun b hb => h b (by simp [hb]))
    unfold dropOutL at *
    rw [List.filterMap_cons, List.map_cons, ← ih']
    unfold MatchOut at ha
    unfold renOut
    by_cases h0 : a.kind = 1
    · have hk : a.res ≠ k := fun e => ha ⟨h0, e⟩
      by_cases hgt : a.res > k
      · simp [h0, hk, hgt]
      · simp [h0, hk, hgt]
    · simp [h0]

theorem dropOutL_split (k : Nat) (l1 l2 : List Bond) (x : Bond) (hx : MatchOut k x)
    (h1 : ∀ b ∈ l1, ¬ MatchOut k b) (h2 : ∀ b ∈ l2, ¬ MatchOut k b) :
    dropOutL k (l1 ++ x :: l2) = (l1 ++ l2).map (renOut k) := by
  have e1 := dropOutL_nomatch k l1 h1
  have e2 := dropOutL_nomatch k l2 h2
  unfold dropOutL at *
  rw [List.filterMap_append, List.filterMap_cons, e1, e2, List.map_append]
  unfold MatchOut at hx
  simp [hx.1, hx.2]

/-- under WF the bond of external input `k` sits at exactly one place of `iin` -/
theorem iin_split {t : Topo} (h : WF t) {k : Nat} (hk : k < t.outputs) :
    ∃ l1 l2, t.iin = l1 ++ (⟨1, k, 0⟩ : Bond) :: l2 ∧
      (∀ b ∈ l1, ¬ MatchOut k b) ∧ (∀ b ∈ l2, ¬ MatchOut k b) := by
  have hm : (⟨1, k, 0⟩ : Bond) ∈ t.iin := (h.iin_mem _).mpr (Or.inl ⟨rfl, hk, rfl⟩)
  obtain ⟨l1, l2, e⟩ := List.append_of_mem hm
  have hnd := h.iin_nodup
  rw [e] at hnd
  have huniq : ∀ b ∈ t.iin, MatchOut k b → b = ⟨1, k, 0⟩ := by
    intro b hb ⟨h0, hr⟩
    rcases (h.iin_mem b).mp hb with ⟨_, _, he⟩ | ⟨h3, _⟩
    · cases b; simp at *; exact ⟨h0, hr, he⟩
    · omega
  rw [List.nodup_append] at hnd
  obtain ⟨_, hnd2, hdisj⟩ := hnd
  refine ⟨l1, l2, e, ?_, ?_⟩
  · intro b hb hmt
    have := huniq b (by rw [e]; simp [hb]) hmt
    exact hdisj b hb _ (by simp) this
  · intro b hb hmt
    have := huniq b (by rw [e]; simp [hb]) hmt
    subst this
    exact (List.nodup_cons.mp hnd2).1 hb

theorem mem_restO_iff {t : Topo} {k : Nat} {l1 l2 : List Bond}
    (e : t.iin = l1 ++ (⟨1, k, 0⟩ : Bond) :: l2)
    (h1 : ∀ b ∈ l1, ¬ MatchOut k b) (h2 : ∀ b ∈ l2, ¬ MatchOut k b) (b : Bond) :
    b ∈ l1 ++ l2 ↔ b ∈ t.iin ∧ b ≠ ⟨1, k, 0⟩ := by
  rw [e]
  simp only [List.mem_append, List.mem_cons]
  constructor
  · rintro (hb | hb)
    · exact ⟨Or.inl hb, fun e' => h1 b hb (e' ▸ ⟨rfl, rfl⟩)⟩
    · exact ⟨Or.inr (Or.inr hb), fun e' => h2 b hb (e' ▸ ⟨rfl, rfl⟩)⟩
  · rintro ⟨hb | hb | hb, hne⟩
    · exact Or.inl hb
    · exact absurd hb hne
    · exact Or.inr hb

theorem renOut_inj {t : Topo} (h : WF t) {k : Nat} {a b : Bond}
    (ha : a ∈ t.iin) (hak : a ≠ ⟨1, k, 0⟩) (hb : b ∈ t.iin) (hbk : b ≠ ⟨1, k, 0⟩)
    (e : renOut k a = renOut k b) : a = b := by
  have hA := (h.iin_mem a).mp ha
  have hB := (h.iin_mem b).mp hb
  unfold isIin at hA hB
  unfold renOut at e
  cases a with | mk ak ar ae =>
  cases b with | mk bk br be =>
  simp only [Bond.mk.injEq, ne_eq, not_and] at *
  by_cases c1 : ak = 1 ∧ ar > k <;> by_cases c2 : bk = 1 ∧ br > k
  · simp only [c1, c2, and_self, if_true, Bond.mk.injEq] at e
    rcases hA with ⟨_, _, ea⟩ | ⟨x, _⟩
    · rcases hB with ⟨_, _, eb⟩ | ⟨y, _⟩
      · refine ⟨by omega, by omega, by omega⟩
      · omega
    · omega
  · simp only [c1, c2, and_self, if_true, if_false, Bond.mk.injEq] at e
    obtain ⟨e1, e2, e3⟩ := e
    have hb0 : bk = 1 := e1.symm
    have : ¬ br > k := fun hh => c2 ⟨hb0, hh⟩
    have hbne := hbk hb0
    rcases hB with ⟨_, _, eb⟩ | ⟨y, _⟩
    · exfalso
      have : br ≠ k := fun hh => by exact (hbk hb0 hh) eb
      omega
    · omega
  · simp only [c1, c2, and_self, if_true, if_false, Bond.mk.injEq] at e
    obtain ⟨e1, e2, e3⟩ := e
    have ha0 : ak = 1 := e1
    have : ¬ ar > k := fun hh => c1 ⟨ha0, hh⟩
    rcases hA with ⟨_, _, ea⟩ | ⟨y, _⟩
    · exfalso
      have : ar ≠ k := fun hh => by exact (hak ha0 hh) ea
      omega
    · omega
  · simp only [c1, c2, if_false, Bond.mk.injEq] at e
    exact e

theorem filterMap_congr' {α β} {f g : α → Option β} {l : List α} (h : ∀ x ∈ l, f x = g x) :
    l.filterMap f = l.filterMap g := by
  induction l with
  | nil => rfl
  | cons a l ih =>
    rw [List.filterMap_cons, List.filterMap_cons, h a (by simp), ih (fun x hx => h x (by simp [hx]))]

theorem dropOutput_fst (k : Nat) (iin : List Bond) (links : List (Option Nat))
    (hlen : links.length = iin.length) :
    (dropOutput k (iin.zip links)).map (·.1) = dropOutL k iin := by
  unfold dropOutput dropOutL
  rw [List.map_filterMap]
  have : iin = (iin.zip links).map (·.1) := by
    rw [List.map_fst_zip (by omega)]
  conv => rhs; rw [this, List.filterMap_map]
  apply filterMap_congr'
  rintro ⟨b, l⟩ _
  simp only [Function.comp]
  by_cases h1 : b.kind = 1
  · by_cases h2 : b.res = k
    · simp [h1, h2]
    · by_cases h3 : b.res > k <;> simp [h1, h2, h3]
  · simp [h1]

theorem delOutput_iin {t : Topo} (h : WF t) {k : Nat} (hk : k < t.outputs) :
    ∃ l1 l2, t.iin = l1 ++ (⟨1, k, 0⟩ : Bond) :: l2 ∧
      (∀ b ∈ l1, ¬ MatchOut k b) ∧ (∀ b ∈ l2, ¬ MatchOut k b) ∧
      (delOutput t k).iin = (l1 ++ l2).map (renOut k) := by
  obtain ⟨l1, l2, e, h1, h2⟩ := iin_split h hk
  refine ⟨l1, l2, e, h1, h2, ?_⟩
  unfold delOutput
  simp only [hk, if_true]
  rw [dropOutput_fst k _ _ h.links_len, e, dropOutL_split k l1 l2 _ ⟨rfl, rfl⟩ h1 h2]

theorem mem_dropOutput {k : Nat} {ps : List (Bond × Option Nat)} {b : Bond} {l : Option Nat}
    (hm : (b, l) ∈ dropOutput k ps) : ∃ b0, (b0, l) ∈ ps := by
  unfold dropOutput at hm
  rw [List.mem_filterMap] at hm
  obtain ⟨⟨b0, l0⟩, hmem, he⟩ := hm
  refine ⟨b0, ?_⟩
  simp only at he
  split at he
  · split at he
    · cases he
    · split at he <;> (cases he; exact hmem)
  · cases he; exact hmem

theorem wf_delOutput {t : Topo} (h : WF t) (k : Nat) : WF (delOutput t k) := by
  by_cases hk : k < t.outputs
  · obtain ⟨l1, l2, e, h1, h2, heq⟩ := delOutput_iin h hk
    refine ⟨?_, ?_, ?_, ?_, ?_, ?_⟩
    · unfold delOutput; simp [hk]
    · intro j hj
      have : (delOutput t k).iout = t.iout := by unfold delOutput; simp [hk]
      rw [this]
      unfold delOutput at hj
      simp only [hk, if_true, List.mem_map] at hj
      obtain ⟨⟨b, l⟩, hm, hl⟩ := hj
      simp only at hl; subst hl
      obtain ⟨b0, hb0⟩ := mem_dropOutput hm
      exact h.links_rng j (List.of_mem_zip hb0).2
    · rw [heq]
      apply nodup_map_of_inj_on
      · intro a ha b hb hab
        rw [mem_restO_iff e h1 h2] at ha hb
        exact renOut_inj h ha.1 ha.2 hb.1 hb.2 hab
      · have := h.iin_nodup
        rw [e] at this
        exact List.nodup_append.mpr ⟨(List.nodup_append.mp this).1,
            (List.nodup_cons.mp (List.nodup_append.mp this).2.1).2,
            fun a ha b hb => (List.nodup_append.mp this).2.2 a ha b (by simp [hb])⟩
    · have : (delOutput t k).iout = t.iout := by unfold delOutput; simp [hk]
      rw [this]; exact h.iout_nodup
    · intro b
      have hout : (delOutput t k).outputs = t.outputs - 1 := by unfold delOutput; simp [hk]
      have hpr : (delOutput t k).procs = t.procs := by unfold delOutput; simp [hk]
      rw [heq]
      simp only [List.mem_map, mem_restO_iff e h1 h2, isIin, hout, hpr]
      constructor
      · rintro ⟨a, ⟨ha, hak⟩, rfl⟩
        have hA := (h.iin_mem a).mp ha
        unfold isIin at hA
        unfold renOut
        cases a with | mk ak ar ae =>
        simp only [Bond.mk.injEq, ne_eq, not_and] at *
        by_cases c1 : ak = 1 ∧ ar > k
        · simp only [c1, and_self, if_true]
          rcases hA with ⟨_, _, _⟩ | ⟨x, _⟩
          · left; refine ⟨trivial, by omega, trivial⟩
          · omega
        · simp only [c1, if_false]
          rcases hA with ⟨a0, a1, a2⟩ | hB
          · left
            have : ¬ ar > k := fun hh => c1 ⟨a0, hh⟩
            have : ar ≠ k := fun hh => (hak a0 hh) a2
            exact ⟨a0, by omega, a2⟩
          · exact Or.inr hB
      · rintro (⟨b0, b1, b2⟩ | hB)
        · by_cases hge : b.res ≥ k
          · refine ⟨⟨1, b.res + 1, 0⟩, ⟨(h.iin_mem _).mpr (Or.inl ⟨rfl, by simp; omega, rfl⟩), by simp; omega⟩, ?_⟩
            unfold renOut
            have : b.res + 1 > k := by omega
            cases b; simp at *; simp [this, b0, b2]
          · refine ⟨b, ⟨(h.iin_mem _).mpr (Or.inl ⟨b0, by omega, b2⟩), ?_⟩, ?_⟩
            · intro e'; rw [e'] at hge; simp at hge
            · unfold renOut
              have : ¬ b.res > k := by omega
              simp [this]
        · refine ⟨b, ⟨(h.iin_mem _).mpr (Or.inr hB), ?_⟩, ?_⟩
          · intro e'; rw [e'] at hB; simp at hB
          · unfold renOut
            have : ¬ b.kind = 1 := by omega
            simp [this]
    · intro b
      have hin : (delOutput t k).inputs = t.inputs := by unfold delOutput; simp [hk]
      have hpr : (delOutput t k).procs = t.procs := by unfold delOutput; simp [hk]
      have : (delOutput t k).iout = t.iout := by unfold delOutput; simp [hk]
      rw [this, h.iout_mem]
      simp [isIout, hin, hpr]
  · unfold delOutput; simp [hk]; exact h

/-- for `delOutput` the bond list is *equal as a list* to the specification -/
theorem bonds_delOutput_eq {t : Topo} (h : WF t) (k : Nat) :
    bonds (delOutput t k) = specBonds t (.delOutput k) := by
  simp only [specBonds]
  by_cases hk : k < t.outputs
  · simp only [hk, if_true]
    unfold delOutput bonds
    simp only [hk, if_true]
    have hz : ∀ ps : List (Bond × Option Nat), (ps.map (·.1)).zip (ps.map (·.2)) = ps := by
      intro ps; exact (List.zip_of_prod rfl rfl).symm
    rw [hz, List.filter_filterMap, List.map_filterMap]
    unfold dropOutput
    rw [List.filterMap_filterMap]
    apply filterMap_congr'
    rintro ⟨b, l⟩ hmem
    have hb : b ∈ t.iin := (List.of_mem_zip hmem).1
    have hB := (h.iin_mem b).mp hb
    unfold isIin at hB
    cases l with
    | none =>
      simp only
      split
      · split
        · rfl
        · split <;> rfl
      · rfl
    | some j =>
      cases ho : t.iout[j]? with
      | none =>
        simp only [ho]
        split
        · split
          · rfl
          · split <;> simp [ho]
        · simp [ho]
      | some o =>
        simp only [ho]
        cases b with | mk bk br be =>
        simp only at hB
        by_cases c1 : bk = 1
        · subst c1
          have hbe : be = 0 := by
            rcases hB with ⟨_, _, e3⟩ | ⟨e1, _⟩
            · exact e3
            · omega
          subst hbe
          by_cases c2 : br = k
          · subst c2; simp [Option.filter]
          · by_cases c3 : br > k
            · simp [c2, c3, ho, renOut, Option.filter]
            · simp [c2, c3, ho, renOut, Option.filter]
        · simp [c1, ho, renOut, Option.filter]
  · simp only [hk, if_false]
    unfold delOutput; simp [hk]

theorem bonds_delOutput {t : Topo} (h : WF t) (k : Nat) (p) :
    p ∈ bonds (delOutput t k) ↔ p ∈ specBonds t (.delOutput k) := by
  rw [bonds_delOutput_eq h k]

/-! ### attach -/

theorem iin_iout_disjoint {t : Topo} (h : WF t) {b : Bond} (hi : b ∈ t.iin) (ho : b ∈ t.iout) : False := by
  have h1 := (h.iin_mem b).mp hi
  have h2 := (h.iout_mem b).mp ho
  unfold isIin at h1; unfold isIout at h2
  rcases h1 with ⟨a, _⟩ | ⟨a, _⟩ <;> rcases h2 with ⟨c, _⟩ | ⟨c, _⟩ <;> omega

theorem bond_sink_mem {t : Topo} {p : Bond × Bond} (hp : p ∈ bonds t) : p.2 ∈ t.iin := by
  obtain ⟨i, j, h1, _, _⟩ := mem_bonds.mp hp
  exact List.mem_of_getElem? h1

theorem addBondTarget_sd {t : Topo} (h : WF t) {s o : Bond} (hs : s ∈ t.iin) (ho : o ∈ t.iout) :
    addBondTarget t s o = some (o, s) ∧ addBondTarget t o s = some (o, s) := by
  have hne : s ≠ o := fun e => iin_iout_disjoint h hs (e ▸ ho)
  constructor
  · unfold addBondTarget
    cases hf : t.iin.find? (fun b => decide (b = s ∨ b = o)) with
    | none =>
      have := List.find?_eq_none.mp hf s hs
      simp at this
    | some x =>
      have hx := List.find?_some hf
      have hxm := List.mem_of_find?_eq_some hf
      have : x = s := by
        simp at hx
        rcases hx with hx | hx
        · exact hx
        · exact (iin_iout_disjoint h hxm (hx ▸ ho)).elim
      subst this
      simp [ho]
  · unfold addBondTarget
    cases hf : t.iin.find? (fun b => decide (b = o ∨ b = s)) with
    | none =>
      have := List.find?_eq_none.mp hf s hs
      simp at this
    | some x =>
      have hx := List.find?_some hf
      have hxm := List.mem_of_find?_eq_some hf
      have : x = s := by
        simp at hx
        rcases hx with hx | hx
        · exact (iin_iout_disjoint h hxm (hx ▸ ho)).elim
        · exact hx
      subst this
      simp [hne, ho]

/-- membership form of `bonds_addBond` when the endpoints are a sink and a driver (either order) -/
theorem bonds_addBond_sd {t : Topo} (h : WF t) {s o : Bond} (hs : s ∈ t.iin) (ho : o ∈ t.iout) (p) :
    (p ∈ bonds (addBond t s o) ↔ (p ∈ bonds t ∧ p.2 ≠ s) ∨ p = (o, s)) ∧
    (p ∈ bonds (addBond t o s) ↔ (p ∈ bonds t ∧ p.2 ≠ s) ∨ p = (o, s)) := by
  obtain ⟨e1, e2⟩ := addBondTarget_sd h hs ho
  constructor
  · rw [bonds_addBond h]; simp [specBonds, e1]
  · rw [bonds_addBond h]; simp [specBonds, e2]

theorem wf_attach {t : Topo} (h : WF t) (e0 e1 : Bond) : WF (attach t e0 e1) := by
  unfold attach
  split
  · exact wf_addBond (wf_addOutput (wf_addBond (wf_addBond (wf_addProcessor h 2 1) _ _) _ _)) _ _
  · exact h

theorem addBond_iin (t : Topo) (a b : Bond) : (addBond t a b).iin = t.iin := by
  rcases addBond_eq (t := t) a b with ⟨_, h⟩ | ⟨i, j, o, s, _, _, _, h⟩ <;> rw [h]
theorem addBond_iout (t : Topo) (a b : Bond) : (addBond t a b).iout = t.iout := by
  rcases addBond_eq (t := t) a b with ⟨_, h⟩ | ⟨i, j, o, s, _, _, _, h⟩ <;> rw [h]
theorem addBond_outputs (t : Topo) (a b : Bond) : (addBond t a b).outputs = t.outputs := by
  rcases addBond_eq (t := t) a b with ⟨_, h⟩ | ⟨i, j, o, s, _, _, _, h⟩ <;> rw [h]

theorem bonds_attach {t : Topo} (h : WF t) (e0 e1 : Bond) (p) :
    p ∈ bonds (attach t e0 e1) ↔ p ∈ specBonds t (.attach e0 e1) := by
  simp only [specBonds]
  unfold attach
  by_cases hc : e0 ∈ t.iout ∧ e1 ∈ t.iout
  · simp only [hc, and_self, if_true]
    obtain ⟨h0, h1⟩ := hc
    have w1 := wf_addProcessor h 2 1
    have w2 := wf_addBond w1 ⟨2, t.procs.length, 0⟩ e0
    have w3 := wf_addBond w2 ⟨2, t.procs.length, 1⟩ e1
    have w4 := wf_addOutput w3
    -- membership facts
    have i1 : (addProcessor t 2 1).iin = t.iin ++ [⟨2, t.procs.length, 0⟩, ⟨2, t.procs.length, 1⟩] := by
      simp [addProcessor, List.range_succ]
    have o1 : (addProcessor t 2 1).iout = t.iout ++ [⟨3, t.procs.length, 0⟩] := by
      simp [addProcessor, List.range_succ]
    have s0 : (⟨2, t.procs.length, 0⟩ : Bond) ∈ (addProcessor t 2 1).iin := by rw [i1]; simp
    have s1 : (⟨2, t.procs.length, 1⟩ : Bond) ∈ (addProcessor t 2 1).iin := by rw [i1]; simp
    have d0 : e0 ∈ (addProcessor t 2 1).iout := by rw [o1]; simp [h0]
    have d1 : e1 ∈ (addProcessor t 2 1).iout := by rw [o1]; simp [h1]
    have n0 : (⟨2, t.procs.length, 0⟩ : Bond) ∉ t.iin := by
      intro hm
      rcases (h.iin_mem _).mp hm with ⟨a, _⟩ | ⟨_, nm, a, _⟩
      · simp at a
      · have := procs_lt a; simp at this
    have n1 : (⟨2, t.procs.length, 1⟩ : Bond) ∉ t.iin := by
      intro hm
      rcases (h.iin_mem _).mp hm with ⟨a, _⟩ | ⟨_, nm, a, _⟩
      · simp at a
      · have := procs_lt a; simp at this
    have n2 : (⟨1, t.outputs, 0⟩ : Bond) ∉ t.iin := by
      intro hm
      rcases (h.iin_mem _).mp hm with ⟨_, a, _⟩ | ⟨a, _⟩
      · simp at a
      · simp at a
    -- step by step
    have b1 := bonds_addProcessor h 2 1
    have b2 := fun q => (bonds_addBond_sd w1 s0 d0 q).1
    have s1' : (⟨2, t.procs.length, 1⟩ : Bond) ∈ (addBond (addProcessor t 2 1) ⟨2, t.procs.length, 0⟩ e0).iin := by
      rw [addBond_iin]; exact s1
    have d1' : e1 ∈ (addBond (addProcessor t 2 1) ⟨2, t.procs.length, 0⟩ e0).iout := by
      rw [addBond_iout]; exact d1
    have b3 := fun q => (bonds_addBond_sd w2 s1' d1' q).1
    have b4 := bonds_addOutput w3
    have hout : (addOutput (addBond (addBond (addProcessor t 2 1) ⟨2, t.procs.length, 0⟩ e0)
        ⟨2, t.procs.length, 1⟩ e1)).outputs - 1 = t.outputs := by
      simp [addOutput, addBond_outputs, addProcessor]
    have s2 : (⟨1, t.outputs, 0⟩ : Bond) ∈ (addOutput (addBond (addBond (addProcessor t 2 1)
        ⟨2, t.procs.length, 0⟩ e0) ⟨2, t.procs.length, 1⟩ e1)).iin := by
      simp [addOutput, addBond_iin, addBond_outputs, addProcessor]
    have d2 : (⟨3, t.procs.length, 0⟩ : Bond) ∈ (addOutput (addBond (addBond (addProcessor t 2 1)
        ⟨2, t.procs.length, 0⟩ e0) ⟨2, t.procs.length, 1⟩ e1)).iout := by
      simp [addOutput, addBond_iout, addProcessor]
    have b5 := fun q => (bonds_addBond_sd w4 s2 d2 q).2
    rw [hout] at *
    rw [b5, b4, b3, b2, b1]
    simp only [List.mem_append, List.mem_cons, List.not_mem_nil, or_false]
    constructor
    · rintro (⟨(⟨(⟨hp, _⟩ | hp), _⟩ | hp), _⟩ | hp)
      · exact Or.inl hp
      · exact Or.inr (Or.inl hp)
      · exact Or.inr (Or.inr (Or.inl hp))
      · exact Or.inr (Or.inr (Or.inr hp))
    · rintro (hp | hp | hp | hp)
      · have hs := bond_sink_mem hp
        have c0 : p.2 ≠ ⟨2, t.procs.length, 0⟩ := fun e => n0 (e ▸ hs)
        have c1 : p.2 ≠ ⟨2, t.procs.length, 1⟩ := fun e => n1 (e ▸ hs)
        have c2 : p.2 ≠ ⟨1, t.outputs, 0⟩ := fun e => n2 (e ▸ hs)
        exact Or.inl ⟨Or.inl ⟨Or.inl ⟨hp, c0⟩, c1⟩, c2⟩
      · subst hp
        exact Or.inl ⟨Or.inl ⟨Or.inr rfl, by simp⟩, by simp⟩
      · subst hp
        exact Or.inl ⟨Or.inr rfl, by simp⟩
      · exact Or.inr hp
  · simp only [hc, if_false]

theorem addBondTarget_sink {t : Topo} {a b o s : Bond} (h : addBondTarget t a b = some (o, s)) :
    s = a ∨ s = b := by
  unfold addBondTarget at h
  split at h
  · cases h
  · rename_i x hf
    have hx := List.find?_some hf
    simp only [decide_eq_true_eq] at hx
    by_cases hm : (if x = a then b else a) ∈ t.iout
    · simp only [hm, if_true, Option.some.injEq, Prod.mk.injEq] at h
      rw [← h.2]; exact hx
    · simp only [hm, if_false] at h
      cases h
theorem nodupB_iff (l : List Bond) : nodupB l = true ↔ l.Nodup := by
  induction l with
  | nil => simp [nodupB]
  | cons a t ih =>
    simp only [nodupB, Bool.and_eq_true, Bool.not_eq_true', List.nodup_cons, ih]
    constructor
    · rintro ⟨h1, h2⟩; exact ⟨by simpa using h1, h2⟩
    · rintro ⟨h1, h2⟩; exact ⟨by simpa using h1, h2⟩

theorem mem_expectedIin (t : Topo) (b : Bond) : b ∈ expectedIin t ↔ isIin t b := by
  unfold expectedIin isIin
  simp only [List.mem_append, List.mem_map, List.mem_range, List.mem_flatMap]
  constructor
  · rintro (⟨k, hk, rfl⟩ | ⟨⟨nm, p⟩, hm, i, hi, rfl⟩)
    · exact Or.inl ⟨rfl, hk, rfl⟩
    · right
      have := List.mem_zipIdx_iff_getElem?.mp hm
      simp at this
      exact ⟨rfl, nm, this, hi⟩
  · rintro (⟨h1, h2, h3⟩ | ⟨h1, nm, h2, h3⟩)
    · left; refine ⟨b.res, h2, ?_⟩; cases b; simp_all
    · right
      refine ⟨(nm, b.res), ?_, b.ext, h3, ?_⟩
      · apply List.mem_zipIdx_iff_getElem?.mpr; simpa using h2
      · cases b; simp_all

theorem mem_expectedIout (t : Topo) (b : Bond) : b ∈ expectedIout t ↔ isIout t b := by
  unfold expectedIout isIout
  simp only [List.mem_append, List.mem_map, List.mem_range, List.mem_flatMap]
  constructor
  · rintro (⟨k, hk, rfl⟩ | ⟨⟨nm, p⟩, hm, i, hi, rfl⟩)
    · exact Or.inl ⟨rfl, hk, rfl⟩
    · right
      have := List.mem_zipIdx_iff_getElem?.mp hm
      simp at this
      exact ⟨rfl, nm, this, hi⟩
  · rintro (⟨h1, h2, h3⟩ | ⟨h1, nm, h2, h3⟩)
    · left; refine ⟨b.res, h2, ?_⟩; cases b; simp_all
    · right
      refine ⟨(nm, b.res), ?_, b.ext, h3, ?_⟩
      · apply List.mem_zipIdx_iff_getElem?.mpr; simpa using h2
      · cases b; simp_all

/-- the executable well-formedness check used on the implementation's dumped states decides `WF` -/
theorem wfB_iff (t : Topo) : wfB t = true ↔ WF t := by
  unfold wfB
  simp only [Bool.and_eq_true, beq_iff_eq, List.all_eq_true, nodupB_iff, List.contains_iff_mem,
    mem_expectedIin, mem_expectedIout]
  constructor
  · rintro ⟨⟨⟨⟨⟨⟨⟨h1, h2⟩, h3⟩, h4⟩, h5⟩, h6⟩, h7⟩, h8⟩
    refine ⟨h1, ?_, h3, h4, fun b => ⟨h5 b, h6 b⟩, fun b => ⟨h7 b, h8 b⟩⟩
    intro j hj
    have := h2 (some j) hj
    simpa using this
  · intro h
    refine ⟨⟨⟨⟨⟨⟨⟨h.links_len, ?_⟩, h.iin_nodup⟩, h.iout_nodup⟩, fun b hb => (h.iin_mem b).mp hb⟩,
      fun b hb => (h.iin_mem b).mpr hb⟩, fun b hb => (h.iout_mem b).mp hb⟩, fun b hb => (h.iout_mem b).mpr hb⟩
    intro l hl
    cases l with
    | none => rfl
    | some j => simpa using h.links_rng j hl
end BMV.Topology
